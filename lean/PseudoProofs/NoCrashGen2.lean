import PseudoProofs.NoCrashGen
import PseudoProofs.EvalInv2
/-!
# C01, two more crash points classified for the full language

* (A) `badAlias` is never raised, from any state (`C01_no_badAlias*`): copy of the `EnsG` machinery of
  `NoCrashGen.lean` without precondition and without relation on states, postcondition `e ≠ .crash .badAlias`.
* (B) `localCompositeType` (raised only by `defaultVal` when the record type is not found) is unreachable from
  `StackGood` states (`C01_no_localCompositeType*`): relation `R2` (same shape of the stack, and the record-type
  list `comps` of every activation only grows), `Visible σ ty` (a record type `ty` is found by `compDefOf` in `σ`),
  `getType` returns only visible types, `Visible` is transported along `R2`; `defaultVal` / `defaultCells` have
  the extra precondition `Visible σ ty`.
* whole programs and the REPL once, generically in the crash point (`section top`).
-/
namespace Pseudo.NC
open Pseudo

/-! ### whole programs and the REPL, generically in the crash point -/

section top
variable (c : CrashPoint) (hc : c ≠ .other)
  (hblock : ∀ fuel b σ, StackGood σ → ∀ e, ((runBlock fuel b).run.run σ).1 = .error e → e ≠ .crash c)
include hc hblock

theorem runMain_noC (fuel : Nat) (b : Block) (σ : St) (hσ : StackGood σ) :
    ∀ e, ((runMain fuel b).run.run σ).1 = .error e → e ≠ .crash c := by
  unfold runMain
  have h1 := hblock fuel b σ hσ
  rcases h : (runBlock fuel b).run.run σ with ⟨e | a, σ'⟩
  · rw [run_tryCatch_err _ _ _ _ _ h]
    rw [h] at h1
    have h1 := h1 e rfl
    cases e with
    | brk t =>
      obtain ⟨d, hd, _⟩ := rtErr_run (α := Unit) t .breakOutside σ'
      dsimp only
      rw [hd]
      intro e he; cases he; nofun
    | cont t =>
      obtain ⟨d, hd, _⟩ := rtErr_run (α := Unit) t .breakOutside σ'
      dsimp only
      rw [hd]
      intro e he; cases he; nofun
    | ret => intro e he; cases he; intro h2; cases h2; exact hc rfl
    | diag d => intro e he; cases he; exact h1
    | crash p => intro e he; cases he; exact h1
    | outOfFuel => intro e he; cases he; exact h1
  · rw [run_tryCatch_ok _ _ _ _ _ h]
    intro e he; cases he

theorem runOn_noC (fuel : Nat) (b : Block) (σ : St) (hσ : StackGood σ) : (runOn fuel b σ).1 ≠ .crash c := by
  have h := runMain_noC c hc hblock fuel b σ hσ
  unfold runOn
  revert h
  generalize (runMain fuel b).run.run σ = p
  intro h
  obtain ⟨r, s⟩ := p
  rcases r with (d | t | t | _ | p | _) | u
  case error.crash => exact fun heq => by cases heq; exact h _ rfl rfl
  case error.brk => exact fun heq => by cases heq; exact hc rfl
  case error.cont => exact fun heq => by cases heq; exact hc rfl
  case error.ret => exact fun heq => by cases heq; exact hc rfl
  all_goals exact fun heq => by cases heq

theorem runSource_noC (cfg : Cfg) (src : Str) (σ : St) (hσ : StackGood σ) : (runSource cfg src σ).1 ≠ .crash c := by
  unfold runSource
  split
  · nofun
  · split
    · dsimp only
      split <;> nofun
    · rename_i b warns _
      dsimp only
      have h1 := runOn_noC c hc hblock cfg.fuel b { σ with out := (List.map warningText warns).reverse ++ σ.out }
        (StackGood.of_acts rfl hσ)
      rcases hr : runOn cfg.fuel b { σ with out := (List.map warningText warns).reverse ++ σ.out } with ⟨o, s⟩
      rw [hr] at h1
      cases o with
      | diag d => nofun
      | ok => exact h1
      | crash p => exact h1
      | fuel => exact h1

theorem runFileOn_noC (cfg : Cfg) (content : Str) (fs : List (Str × FsNode)) (stdin : Str) (eof : Bool) :
    (runFileOn cfg content fs stdin eof).1 ≠ .crash c := by
  unfold runFileOn
  dsimp only
  refine runSource_noC c hc hblock cfg _ _ ?_
  exact StackGood.of_acts rfl (StackGood.init fs stdin cfg.pedantic false)

theorem runFile_noC (cfg : Cfg) (content : Str) (fs : List (Str × FsNode)) (stdin : Str) :
    (runFile cfg content fs stdin).crash ≠ some c := by
  intro h
  unfold runFile at h
  exact runFileOn_noC c hc hblock cfg content fs stdin false (resultOf_crash _ _ _ h)

/-- the session state is `StackGood` and the session has not ended in crash point `c` -/
def ReplNoC (r : ReplSt) : Prop := StackGood r.st ∧ r.crash ≠ some c

omit hc hblock in
theorem ReplNoC.mk' {c : CrashPoint} {r : ReplSt} (h1 : StackGood r.st) (h2 : r.crash ≠ some c) : ReplNoC c r := ⟨h1, h2⟩

set_option maxHeartbeats 1000000 in
theorem replLoop_noC (cfg : Cfg) : ∀ (n : Nat) (first : Bool) (r : ReplSt), ReplNoC c r → ReplNoC c (replLoop cfg n first r)
  | 0, _, r, h => h
  | n + 1, first, r, hr => by
    have step := replLoop_noC cfg n
    obtain ⟨hst, hcr⟩ := hr
    unfold replLoop
    split
    · exact ⟨hst, hcr⟩
    · dsimp only
      generalize hst1 : ({ (if first = true then r.st else { r.st with out := marker :: r.st.out }) with
          out := "> ".toList :: (if first = true then r.st else { r.st with out := marker :: r.st.out }).out,
          steps := 0, depth := 0 } : St) = st1
      have h1 : StackGood st1 := by
        subst hst1
        cases first <;> exact StackGood.of_acts rfl hst
      have h2 := getLine_good st1 h1
      rcases hr : (ExceptT.run getLine).run st1 with ⟨o, st2⟩
      rw [hr] at h2
      dsimp only at h2
      clear hr hst1 h1
      split
      · rename_i code ok st2' heq
        cases heq
        split
        · exact ⟨h2, hcr⟩
        split
        · exact step _ _ ⟨h2, hcr⟩
        split
        · exact step _ _ ⟨StackGood.of_acts rfl h2, hcr⟩
        split
        · exact ⟨h2, hcr⟩
        split
        · -- RUNFILE
          split
          · exact step _ _ ⟨h2, hcr⟩
          split
          · split
            · exact step _ _ ⟨StackGood.of_acts rfl h2, hcr⟩
            · split <;> exact step _ _ ⟨StackGood.of_acts rfl h2, hcr⟩
            · rename_i p heq
              exact ⟨StackGood.of_acts rfl h2, fun h => by
                cases h; exact runFileOn_noC c hc hblock _ _ _ _ _ heq⟩
            · exact step _ _ ⟨StackGood.of_acts rfl h2, hcr⟩
          · exact step _ _ ⟨StackGood.of_acts rfl h2, hcr⟩
        · -- an entry: (possibly) more lines, then lex + parse + run
          have h23 : StackGood (if multilineStart code = true then collectLines (st2.stdin.length + 2) code st2
              else (some code, st2)).2 := by
            split
            · exact collectLines_good _ _ _ h2
            · exact h2
          generalize (if multilineStart code = true then collectLines (st2.stdin.length + 2) code st2
              else (some code, st2)) = p at h23 ⊢
          obtain ⟨full?, st3⟩ := p
          dsimp only at h23 ⊢
          split
          · exact ⟨h23, hcr⟩
          · rename_i src
            have h34 := runSource_good cfg src st3 h23
            have h34c := runSource_noC c hc hblock cfg src st3 h23
            rcases hs : runSource cfg src st3 with ⟨o', s⟩
            rw [hs] at h34 h34c
            cases o' with
            | ok => exact step _ _ ⟨h34.1, hcr⟩
            | diag d => dsimp only; split <;> exact step _ _ ⟨h34.1, hcr⟩
            | crash p => exact ⟨h34.1, fun h => by cases h; exact h34c rfl⟩
            | fuel => exact step _ _ ⟨h34.1, hcr⟩
      · rename_i st2' _ heq
        cases heq
        exact ⟨h2, hcr⟩

theorem repl_noC (cfg : Cfg) (fs : List (Str × FsNode)) (stdin : Str) : (repl cfg fs stdin).crash ≠ some c := by
  unfold repl
  dsimp only
  refine (replLoop_noC c hc hblock cfg _ true _ ⟨?_, fun h => by cases h⟩).2
  exact StackGood.of_acts rfl (StackGood.init fs stdin cfg.pedantic true)

end top

/-! ## (A) `badAlias` is never raised -/

/-- from every state, `m` does not raise `.crash .badAlias` -/
structure EnsA {α : Type} (m : M α) : Prop where
  run : ∀ σ e, (m.run.run σ).1 = .error e → e ≠ .crash .badAlias

section combinatorsA
variable {α β : Type}

theorem EnsA.pure (a : α) : EnsA (pure a : M α) := ⟨fun _ _ h => by cases h⟩
theorem EnsA.throw {e : Stop} (h : e ≠ .crash .badAlias) : EnsA (throw e : M α) :=
  ⟨fun _ e' h' => by cases h'; exact h⟩
theorem throwA_diag (d : Diag) : EnsA (throw (.diag d) : M α) := EnsA.throw nofun
theorem throwA_brk (t : Tok) : EnsA (throw (.brk t) : M α) := EnsA.throw nofun
theorem throwA_cont (t : Tok) : EnsA (throw (.cont t) : M α) := EnsA.throw nofun
theorem throwA_ret : EnsA (throw .ret : M α) := EnsA.throw nofun
theorem throwA_fuel : EnsA (throw .outOfFuel : M α) := EnsA.throw nofun
theorem throwA_danglingLoc : EnsA (throw (.crash .danglingLoc) : M α) := EnsA.throw nofun
theorem throwA_noActivation : EnsA (throw (.crash .noActivation) : M α) := EnsA.throw nofun
theorem throwA_localCompositeType : EnsA (throw (.crash .localCompositeType) : M α) := EnsA.throw nofun
theorem throwA_enumIndexOOB : EnsA (throw (.crash .enumIndexOOB) : M α) := EnsA.throw nofun
theorem throwA_other : EnsA (throw (.crash .other) : M α) := EnsA.throw nofun
theorem EnsA.get : EnsA (get : M St) := ⟨fun _ _ h => by cases h⟩
theorem ensA_set (s : St) : EnsA (set s : M PUnit) := ⟨fun _ _ h => by cases h⟩
theorem ensA_modify (f : St → St) : EnsA (modify f : M PUnit) := ⟨fun _ _ h => by cases h⟩
theorem ensA_modifyAct (id : Nat) (f : Act → Act) : EnsA (modifyAct id f) := ⟨fun _ _ h => by cases h⟩

theorem EnsA.bind {m : M α} {f : α → M β} (hm : EnsA m) (hf : ∀ a, EnsA (f a)) : EnsA (m >>= f) := by
  constructor
  intro σ
  rcases h : m.run.run σ with ⟨e | a, σ'⟩
  · rw [run_bind_err m f σ σ' e h]
    intro e' he; cases he
    exact hm.run σ e (by rw [h])
  · rw [run_bind_ok m f σ σ' a h]
    exact (hf a).run σ'

theorem EnsA.tryCatch {m : M α} {hd : Stop → M α} (hm : EnsA m)
    (hh : ∀ e, e ≠ .crash .badAlias → EnsA (hd e)) : EnsA (MonadExcept.tryCatch m hd) := by
  constructor
  intro σ
  rcases h : m.run.run σ with ⟨e | a, σ'⟩
  · rw [run_tryCatch_err m hd σ σ' e h]
    exact (hh e (hm.run σ e (by rw [h]))).run σ'
  · rw [run_tryCatch_ok m hd σ σ' a h]
    intro e he; cases he

theorem EnsA.withAct (mk : Nat → Act) (body : M α) (hb : EnsA body) : EnsA (withAct mk body) :=
  ⟨fun σ => by rw [run_withAct]; exact hb.run _⟩

end combinatorsA

/-- one step of the proof search: the leaves -/
macro "aens_basic" : tactic => `(tactic| with_reducible first
  | exact EnsA.pure _
  | exact EnsA.get
  | exact ensA_set _
  | exact throwA_diag _
  | exact throwA_fuel
  | exact throwA_brk _
  | exact throwA_cont _
  | exact throwA_ret
  | exact throwA_other
  | exact throwA_danglingLoc
  | exact throwA_noActivation
  | exact throwA_localCompositeType
  | exact throwA_enumIndexOOB
  | exact EnsA.throw (by assumption)
  | exact ensA_modify _
  | exact ensA_modifyAct _ _)

/-- library lemmas about the functions defined outside the mutual block; extended by `macro_rules` -/
syntax "aens_lib" : tactic
macro_rules | `(tactic| aens_lib) => `(tactic| fail "aens_lib: no lemma")

/-- hypotheses of the induction -/
syntax "aens_ih" : tactic
macro_rules | `(tactic| aens_ih) => `(tactic| fail "aens_ih: no hypothesis")

macro "aens_step" : tactic => `(tactic| first
  | cases ‹_ + 1 = Nat.succ _›
  | aens_basic
  | with_reducible aens_lib
  | with_reducible aens_ih
  | with_reducible apply EnsA.bind
  | with_reducible apply EnsA.tryCatch
  | with_reducible apply EnsA.withAct
  | intro _
  | split
  | dsimp only)

macro "aens_auto" : tactic => `(tactic| repeat' aens_step)

open Lean in
macro "aens_fn " id:ident : tactic =>
  `(tactic| (rw [$(mkIdent (id.getId ++ `eq_def)):ident]; try dsimp only
             aens_auto))

section libraryA
variable {α : Type}

theorem EnsA.l_curAct : EnsA (curAct) := by unfold Pseudo.curAct; aens_auto
macro_rules | `(tactic| aens_lib) => `(tactic| exact EnsA.l_curAct)
theorem EnsA.l_globalAct : EnsA (globalAct) := by unfold Pseudo.globalAct; aens_auto
macro_rules | `(tactic| aens_lib) => `(tactic| exact EnsA.l_globalAct)
theorem EnsA.l_scopeAct : EnsA (scopeAct) := by unfold Pseudo.scopeAct; aens_auto
macro_rules | `(tactic| aens_lib) => `(tactic| exact EnsA.l_scopeAct)
theorem EnsA.l_typeScopeAct : EnsA (typeScopeAct) := by unfold Pseudo.typeScopeAct; aens_auto
macro_rules | `(tactic| aens_lib) => `(tactic| exact EnsA.l_typeScopeAct)
theorem EnsA.l_findAct (id : Nat) : EnsA (findAct id) := by unfold Pseudo.findAct; aens_auto
macro_rules | `(tactic| aens_lib) => `(tactic| exact EnsA.l_findAct _)
theorem EnsA.l_mkRuntime (l c : Nat) (m : Msg) : EnsA (mkRuntime l c m) := by unfold Pseudo.mkRuntime; aens_auto
macro_rules | `(tactic| aens_lib) => `(tactic| exact EnsA.l_mkRuntime _ _ _)
theorem EnsA.l_rtErr (t : Tok) (m : Msg) : EnsA ((rtErr t m : M α)) := by unfold Pseudo.rtErr; aens_auto
macro_rules | `(tactic| aens_lib) => `(tactic| exact EnsA.l_rtErr _ _)
theorem EnsA.l_rtErr0 (m : Msg) : EnsA ((rtErr0 m : M α)) := by unfold Pseudo.rtErr0; aens_auto
macro_rules | `(tactic| aens_lib) => `(tactic| exact EnsA.l_rtErr0 _)
theorem EnsA.l_pedErr (t : Tok) (m : Msg) : EnsA ((pedErr t m : M α)) := by unfold Pseudo.pedErr; aens_auto
macro_rules | `(tactic| aens_lib) => `(tactic| exact EnsA.l_pedErr _ _)
theorem EnsA.l_lookupVar (n : Str) : EnsA (lookupVar n) := by unfold Pseudo.lookupVar; aens_auto
macro_rules | `(tactic| aens_lib) => `(tactic| exact EnsA.l_lookupVar _)
theorem EnsA.l_lookupArr (n : Str) : EnsA (lookupArr n) := by unfold Pseudo.lookupArr; aens_auto
macro_rules | `(tactic| aens_lib) => `(tactic| exact EnsA.l_lookupArr _)
theorem EnsA.l_lookupList {β : Type} (sel : Act → List (Str × β)) (n : Str) (g : Bool) : EnsA (lookupList sel n g) := by unfold Pseudo.lookupList; aens_auto
macro_rules | `(tactic| aens_lib) => `(tactic| exact EnsA.l_lookupList _ _ _)
theorem EnsA.l_enumDefOf (n : Str) (g : Bool) : EnsA (enumDefOf n g) := by unfold Pseudo.enumDefOf; aens_auto
macro_rules | `(tactic| aens_lib) => `(tactic| exact EnsA.l_enumDefOf _ _)
theorem EnsA.l_ptrDefOf (n : Str) (g : Bool) : EnsA (ptrDefOf n g) := by unfold Pseudo.ptrDefOf; aens_auto
macro_rules | `(tactic| aens_lib) => `(tactic| exact EnsA.l_ptrDefOf _ _)
theorem EnsA.l_compDefOf (n : Str) (g : Bool) : EnsA (compDefOf n g) := by unfold Pseudo.compDefOf; aens_auto
macro_rules | `(tactic| aens_lib) => `(tactic| exact EnsA.l_compDefOf _ _)
theorem EnsA.l_getType (t : Tok) (g : Bool) : EnsA (getType t g) := by unfold Pseudo.getType; aens_auto
macro_rules | `(tactic| aens_lib) => `(tactic| exact EnsA.l_getType _ _)
theorem EnsA.l_getEnumElement (v : Str) (g : Bool) : EnsA (getEnumElement v g) := by unfold Pseudo.getEnumElement; aens_auto
macro_rules | `(tactic| aens_lib) => `(tactic| exact EnsA.l_getEnumElement _ _)
theorem EnsA.l_isIdentifierType (t : Tok) (g : Bool) : EnsA (isIdentifierType t g) := by unfold Pseudo.isIdentifierType; aens_auto
macro_rules | `(tactic| aens_lib) => `(tactic| exact EnsA.l_isIdentifierType _ _)
theorem EnsA.l_readLoc (l : Loc) : EnsA (readLoc l) := by unfold Pseudo.readLoc; aens_auto
macro_rules | `(tactic| aens_lib) => `(tactic| exact EnsA.l_readLoc _)
theorem EnsA.l_locIsConst (l : Loc) : EnsA (locIsConst l) := by unfold Pseudo.locIsConst; aens_auto
macro_rules | `(tactic| aens_lib) => `(tactic| exact EnsA.l_locIsConst _)
theorem EnsA.l_isLive (id : Nat) : EnsA (isLive id) := by unfold Pseudo.isLive; aens_auto
macro_rules | `(tactic| aens_lib) => `(tactic| exact EnsA.l_isLive _)
theorem EnsA.l_liftMsg (t : Tok) (x : Except Msg α) : EnsA (liftMsg t x) := by unfold Pseudo.liftMsg; aens_auto
macro_rules | `(tactic| aens_lib) => `(tactic| exact EnsA.l_liftMsg _ _)
theorem EnsA.l_liftMsg0 (x : Except Msg α) : EnsA (liftMsg0 x) := by unfold Pseudo.liftMsg0; aens_auto
macro_rules | `(tactic| aens_lib) => `(tactic| exact EnsA.l_liftMsg0 _)
theorem EnsA.l_outputText (v : Val) : EnsA (outputText v) := by unfold Pseudo.outputText; aens_auto
macro_rules | `(tactic| aens_lib) => `(tactic| exact EnsA.l_outputText _)
theorem EnsA.l_filePre (t : Tok) (op : FOp) : EnsA (filePre t op) := by unfold Pseudo.filePre; aens_auto
macro_rules | `(tactic| aens_lib) => `(tactic| exact EnsA.l_filePre _ _)
theorem EnsA.l_codecDefs : EnsA (codecDefs) := by unfold Pseudo.codecDefs; aens_auto
macro_rules | `(tactic| aens_lib) => `(tactic| exact EnsA.l_codecDefs)
theorem EnsA.l_writeText (t : Tok) (v : Val) : EnsA (writeText t v) := by unfold Pseudo.writeText; aens_auto
macro_rules | `(tactic| aens_lib) => `(tactic| exact EnsA.l_writeText _ _)

/-- `catchNotDefined`: the handler may rethrow what it caught -/
theorem EnsA.l_catchNotDefined {m : M α} {h : Stop → M α} (hm : EnsA m)
    (hh : ∀ e, e ≠ .crash .badAlias → EnsA (h e)) : EnsA (catchNotDefined m h) := by
  unfold catchNotDefined
  apply EnsA.tryCatch hm
  intro e he
  aens_auto
  exact hh _ he
theorem EnsA.l_modifyCur (f : Act → Act) : EnsA (modifyCur f) := by unfold Pseudo.modifyCur; aens_auto
macro_rules | `(tactic| aens_lib) => `(tactic| exact EnsA.l_modifyCur _)
theorem EnsA.l_addVar (s : Slot) : EnsA (addVar s) := by unfold Pseudo.addVar; aens_auto
macro_rules | `(tactic| aens_lib) => `(tactic| exact EnsA.l_addVar _)
theorem EnsA.l_addArr (s : Slot) : EnsA (addArr s) := by unfold Pseudo.addArr; aens_auto
macro_rules | `(tactic| aens_lib) => `(tactic| exact EnsA.l_addArr _)
theorem EnsA.l_emit (x : Str) : EnsA (emit x) := by unfold Pseudo.emit; aens_auto
macro_rules | `(tactic| aens_lib) => `(tactic| exact EnsA.l_emit _)
theorem EnsA.l_tick (t : Tok) : EnsA (tick t) := by unfold Pseudo.tick; aens_auto
macro_rules | `(tactic| aens_lib) => `(tactic| exact EnsA.l_tick _)
theorem EnsA.l_getLine : EnsA (getLine) := by unfold Pseudo.getLine; aens_auto
macro_rules | `(tactic| aens_lib) => `(tactic| exact EnsA.l_getLine)
theorem EnsA.l_doFile (t : Tok) (op : FOp) : EnsA (doFile t op) := by unfold Pseudo.doFile; aens_auto
macro_rules | `(tactic| aens_lib) => `(tactic| exact EnsA.l_doFile _ _)
theorem EnsA.l_doFile0 (op : FOp) : EnsA (doFile0 op) := by unfold Pseudo.doFile0; aens_auto
macro_rules | `(tactic| aens_lib) => `(tactic| exact EnsA.l_doFile0 _)
theorem EnsA.l_writeLoc (t : Tok) (l : Loc) (v : Val) : EnsA (writeLoc t l v) := by unfold Pseudo.writeLoc; aens_auto
macro_rules | `(tactic| aens_lib) => `(tactic| exact EnsA.l_writeLoc _ _ _)
theorem EnsA.l_runBuiltin (id : Str) (args : List Val) : EnsA (runBuiltin id args) := by unfold Pseudo.runBuiltin; aens_auto
macro_rules | `(tactic| aens_lib) => `(tactic| exact EnsA.l_runBuiltin _ _)
theorem EnsA.l_replEcho (v : Val) : EnsA (replEcho v) := by unfold Pseudo.replEcho; aens_auto
macro_rules | `(tactic| aens_lib) => `(tactic| exact EnsA.l_replEcho _)

end libraryA

macro_rules | `(tactic| aens_lib) => `(tactic| apply EnsA.l_catchNotDefined)

/-- the statement proved by induction on fuel: one field per function of the mutual block -/
structure AllA (f : Nat) : Prop where
  defaultVal : ∀ t ty, EnsA (defaultVal f t ty)
  defaultCells : ∀ t ty n acc, EnsA (defaultCells f t ty n acc)
  evalArgs : ∀ es acc, EnsA (evalArgs f es acc)
  evalIndices : ∀ es dims acc, EnsA (evalIndices f es dims acc)
  resolveRef : ∀ r, EnsA (resolveRef f r)
  callFun : ∀ t args, EnsA (callFun f t args)
  bindParams : ∀ t ps es vs acc, EnsA (bindParams f t ps es vs acc)
  evalExpr : ∀ e, EnsA (evalExpr f e)
  execAssign : ∀ t r rhs, EnsA (execAssign f t r rhs)
  runBlock : ∀ b, EnsA (runBlock f b)
  ifChain : ∀ t bs els, EnsA (ifChain f t bs els)
  caseMatch : ∀ v cl, EnsA (caseMatch f v cl)
  caseClauses : ∀ v cls, EnsA (caseClauses f v cls)
  loopBody : ∀ b, EnsA (loopBody f b)
  whileLoop : ∀ t c b, EnsA (whileLoop f t c b)
  repeatLoop : ∀ t b c, EnsA (repeatLoop f t b c)
  forLoop : ∀ t it stop step b, EnsA (forLoop f t it stop step b)
  callProc : ∀ t name args, EnsA (callProc f t name args)
  resolveParams : ∀ ps acc, EnsA (resolveParams f ps acc)
  evalBounds : ∀ bs acc, EnsA (evalBounds f bs acc)
  declareVars : ∀ t ids ty, EnsA (declareVars f t ids ty)
  declareArrs : ∀ t ids ty dims, EnsA (declareArrs f t ids ty dims)
  outputAll : ∀ es, EnsA (outputAll f es)
  fileName : ∀ t e, EnsA (fileName f t e)
  execStmt : ∀ s, EnsA (execStmt f s)

set_option hygiene false in
macro_rules | `(tactic| aens_ih) => `(tactic| first
  | apply ih.evalExpr | apply ih.resolveRef | apply ih.evalArgs | apply ih.evalIndices | apply ih.callFun
  | apply ih.bindParams | apply ih.execAssign | apply ih.runBlock | apply ih.ifChain | apply ih.caseMatch
  | apply ih.caseClauses | apply ih.loopBody | apply ih.whileLoop | apply ih.repeatLoop | apply ih.forLoop
  | apply ih.callProc | apply ih.resolveParams | apply ih.evalBounds | apply ih.declareVars | apply ih.declareArrs
  | apply ih.outputAll | apply ih.fileName | apply ih.execStmt | apply ih.defaultVal | apply ih.defaultCells)

theorem AllA.zero : AllA 0 where
  defaultVal _ _ := by rw [Pseudo.defaultVal.eq_def]; dsimp only; aens_auto
  defaultCells _ _ _ _ := by rw [Pseudo.defaultCells.eq_def]; dsimp only; aens_auto
  evalArgs _ _ := by rw [Pseudo.evalArgs.eq_def]; dsimp only; aens_auto
  evalIndices _ _ _ := by rw [Pseudo.evalIndices.eq_def]; dsimp only; aens_auto
  resolveRef _ := by rw [Pseudo.resolveRef.eq_def]; dsimp only; aens_auto
  callFun _ _ := by rw [Pseudo.callFun.eq_def]; dsimp only; aens_auto
  bindParams _ _ _ _ _ := by rw [Pseudo.bindParams.eq_def]; dsimp only; aens_auto
  evalExpr _ := by rw [Pseudo.evalExpr.eq_def]; dsimp only; aens_auto
  execAssign _ _ _ := by rw [Pseudo.execAssign.eq_def]; dsimp only; aens_auto
  runBlock _ := by rw [Pseudo.runBlock.eq_def]; dsimp only; aens_auto
  ifChain _ _ _ := by rw [Pseudo.ifChain.eq_def]; dsimp only; aens_auto
  caseMatch _ _ := by rw [Pseudo.caseMatch.eq_def]; dsimp only; aens_auto
  caseClauses _ _ := by rw [Pseudo.caseClauses.eq_def]; dsimp only; aens_auto
  loopBody _ := by rw [Pseudo.loopBody.eq_def]; dsimp only; aens_auto
  whileLoop _ _ _ := by rw [Pseudo.whileLoop.eq_def]; dsimp only; aens_auto
  repeatLoop _ _ _ := by rw [Pseudo.repeatLoop.eq_def]; dsimp only; aens_auto
  forLoop _ _ _ _ _ := by rw [Pseudo.forLoop.eq_def]; dsimp only; aens_auto
  callProc _ _ _ := by rw [Pseudo.callProc.eq_def]; dsimp only; aens_auto
  resolveParams _ _ := by rw [Pseudo.resolveParams.eq_def]; dsimp only; aens_auto
  evalBounds _ _ := by rw [Pseudo.evalBounds.eq_def]; dsimp only; aens_auto
  declareVars _ _ _ := by rw [Pseudo.declareVars.eq_def]; dsimp only; aens_auto
  declareArrs _ _ _ _ := by rw [Pseudo.declareArrs.eq_def]; dsimp only; aens_auto
  outputAll _ := by rw [Pseudo.outputAll.eq_def]; dsimp only; aens_auto
  fileName _ _ := by rw [Pseudo.fileName.eq_def]; dsimp only; aens_auto
  execStmt _ := by rw [Pseudo.execStmt.eq_def]; dsimp only; aens_auto

section stepsA
variable {f : Nat}

theorem stepA_defaultVal (ih : AllA f) : ∀ t ty, EnsA (defaultVal (f+1) t ty) := by
  intro t ty; aens_fn defaultVal

theorem stepA_defaultCells (ih : AllA f) : ∀ t ty n acc, EnsA (defaultCells (f+1) t ty n acc) := by
  intro t ty n acc; aens_fn defaultCells

theorem stepA_evalArgs (ih : AllA f) : ∀ es acc, EnsA (evalArgs (f+1) es acc) := by
  intro es acc; aens_fn evalArgs

theorem stepA_evalIndices (ih : AllA f) : ∀ es dims acc, EnsA (evalIndices (f+1) es dims acc) := by
  intro es dims acc; aens_fn evalIndices

theorem stepA_resolveRef (ih : AllA f) : ∀ r, EnsA (resolveRef (f+1) r) := by
  intro r; aens_fn resolveRef

theorem stepA_callFun (ih : AllA f) : ∀ t args, EnsA (callFun (f+1) t args) := by
  intro t args; aens_fn callFun

theorem stepA_bindParams (ih : AllA f) : ∀ t ps es vs acc, EnsA (bindParams (f+1) t ps es vs acc) := by
  intro t ps es vs acc; aens_fn bindParams

theorem stepA_evalExpr (ih : AllA f) : ∀ e, EnsA (evalExpr (f+1) e) := by
  intro e; aens_fn evalExpr

theorem stepA_execAssign (ih : AllA f) : ∀ t r rhs, EnsA (execAssign (f+1) t r rhs) := by
  intro t r rhs; aens_fn execAssign

theorem stepA_runBlock (ih : AllA f) : ∀ b, EnsA (runBlock (f+1) b) := by
  intro b; aens_fn runBlock

theorem stepA_ifChain (ih : AllA f) : ∀ t bs els, EnsA (ifChain (f+1) t bs els) := by
  intro t bs els; aens_fn ifChain

theorem stepA_caseMatch (ih : AllA f) : ∀ v cl, EnsA (caseMatch (f+1) v cl) := by
  intro v cl; aens_fn caseMatch

theorem stepA_caseClauses (ih : AllA f) : ∀ v cls, EnsA (caseClauses (f+1) v cls) := by
  intro v cls; aens_fn caseClauses

theorem stepA_loopBody (ih : AllA f) : ∀ b, EnsA (loopBody (f+1) b) := by
  intro b; aens_fn loopBody

theorem stepA_whileLoop (ih : AllA f) : ∀ t c b, EnsA (whileLoop (f+1) t c b) := by
  intro t c b; aens_fn whileLoop

theorem stepA_repeatLoop (ih : AllA f) : ∀ t b c, EnsA (repeatLoop (f+1) t b c) := by
  intro t b c; aens_fn repeatLoop

theorem stepA_forLoop (ih : AllA f) : ∀ t it stop step b, EnsA (forLoop (f+1) t it stop step b) := by
  intro t it stop step b; aens_fn forLoop

theorem stepA_callProc (ih : AllA f) : ∀ t name args, EnsA (callProc (f+1) t name args) := by
  intro t name args; aens_fn callProc

theorem stepA_resolveParams (ih : AllA f) : ∀ ps acc, EnsA (resolveParams (f+1) ps acc) := by
  intro ps acc; aens_fn resolveParams

theorem stepA_evalBounds (ih : AllA f) : ∀ bs acc, EnsA (evalBounds (f+1) bs acc) := by
  intro bs acc; aens_fn evalBounds

theorem stepA_declareVars (ih : AllA f) : ∀ t ids ty, EnsA (declareVars (f+1) t ids ty) := by
  intro t ids ty; aens_fn declareVars

theorem stepA_declareArrs (ih : AllA f) : ∀ t ids ty dims, EnsA (declareArrs (f+1) t ids ty dims) := by
  intro t ids ty dims; aens_fn declareArrs

theorem stepA_outputAll (ih : AllA f) : ∀ es, EnsA (outputAll (f+1) es) := by
  intro es; aens_fn outputAll

theorem stepA_fileName (ih : AllA f) : ∀ t e, EnsA (fileName (f+1) t e) := by
  intro t e; aens_fn fileName

set_option maxHeartbeats 1000000 in
theorem stepA_execStmt (ih : AllA f) : ∀ s, EnsA (execStmt (f+1) s) := by
  intro s; aens_fn execStmt

theorem AllA.succ (ih : AllA f) : AllA (f + 1) where
  defaultVal := stepA_defaultVal ih
  defaultCells := stepA_defaultCells ih
  evalArgs := stepA_evalArgs ih
  evalIndices := stepA_evalIndices ih
  resolveRef := stepA_resolveRef ih
  callFun := stepA_callFun ih
  bindParams := stepA_bindParams ih
  evalExpr := stepA_evalExpr ih
  execAssign := stepA_execAssign ih
  runBlock := stepA_runBlock ih
  ifChain := stepA_ifChain ih
  caseMatch := stepA_caseMatch ih
  caseClauses := stepA_caseClauses ih
  loopBody := stepA_loopBody ih
  whileLoop := stepA_whileLoop ih
  repeatLoop := stepA_repeatLoop ih
  forLoop := stepA_forLoop ih
  callProc := stepA_callProc ih
  resolveParams := stepA_resolveParams ih
  evalBounds := stepA_evalBounds ih
  declareVars := stepA_declareVars ih
  declareArrs := stepA_declareArrs ih
  outputAll := stepA_outputAll ih
  fileName := stepA_fileName ih
  execStmt := stepA_execStmt ih

end stepsA

theorem allA : ∀ fuel, AllA fuel
  | 0 => AllA.zero
  | f + 1 => (allA f).succ

/-- **C01 (`badAlias` is never raised), statements** — from ANY state -/
theorem C01_no_badAlias (fuel : Nat) (s : Stmt) (σ : St) :
    ∀ e, ((execStmt fuel s).run.run σ).1 = .error e → e ≠ .crash .badAlias :=
  ((allA fuel).execStmt s).run σ

theorem C01_no_badAlias_block (fuel : Nat) (b : Block) (σ : St) :
    ∀ e, ((runBlock fuel b).run.run σ).1 = .error e → e ≠ .crash .badAlias :=
  ((allA fuel).runBlock b).run σ

theorem C01_no_badAlias_expr (fuel : Nat) (x : Expr) (σ : St) :
    ∀ e, ((evalExpr fuel x).run.run σ).1 = .error e → e ≠ .crash .badAlias :=
  ((allA fuel).evalExpr x).run σ

/-- **C01 (`badAlias` is never raised), whole programs**, for all inputs -/
theorem C01_no_badAlias_file (cfg : Cfg) (content : Str) (fs : List (Str × FsNode)) (stdin : Str) :
    (runFile cfg content fs stdin).crash ≠ some .badAlias :=
  runFile_noC .badAlias nofun (fun fuel b σ _ => C01_no_badAlias_block fuel b σ) cfg content fs stdin

/-- **C01 (`badAlias` is never raised), the REPL**, for all inputs -/
theorem C01_no_badAlias_repl (cfg : Cfg) (fs : List (Str × FsNode)) (stdin : Str) :
    (repl cfg fs stdin).crash ≠ some .badAlias :=
  repl_noC .badAlias nofun (fun fuel b σ _ => C01_no_badAlias_block fuel b σ) cfg fs stdin

/-! ## (B) `localCompositeType` is unreachable from `StackGood` states -/

/-- `a'` is `a` with possibly more record types at the end (same id, same kind) -/
def ActExt (a a' : Act) : Prop :=
  a'.id = a.id ∧ a'.isComp = a.isComp ∧ a'.typeGlobal = a.typeGlobal ∧ a.comps <+: a'.comps

theorem ActExt.mk' {a a' : Act} (h1 : a'.id = a.id) (h2 : a'.isComp = a.isComp) (h3 : a'.typeGlobal = a.typeGlobal)
    (h4 : a.comps <+: a'.comps) : ActExt a a' := ⟨h1, h2, h3, h4⟩
theorem ActExt.refl (a : Act) : ActExt a a := ⟨rfl, rfl, rfl, List.prefix_refl _⟩
theorem ActExt.trans {a b c : Act} (h1 : ActExt a b) (h2 : ActExt b c) : ActExt a c :=
  ⟨h2.1.trans h1.1, h2.2.1.trans h1.2.1, h2.2.2.1.trans h1.2.2.1, h1.2.2.2.trans h2.2.2.2⟩

/-- the stacks have the same shape and every activation is extended -/
def StkExt : List Act → List Act → Prop
  | [], [] => True
  | a :: as, b :: bs => ActExt a b ∧ StkExt as bs
  | _, _ => False

theorem StkExt.refl : ∀ as, StkExt as as
  | [] => trivial
  | a :: as => ⟨ActExt.refl a, StkExt.refl as⟩

theorem StkExt.trans : ∀ {as bs cs}, StkExt as bs → StkExt bs cs → StkExt as cs
  | [], [], [], _, _ => trivial
  | _ :: _, _ :: _, _ :: _, h1, h2 => ⟨h1.1.trans h2.1, StkExt.trans h1.2 h2.2⟩
  | [], [], _ :: _, _, h2 => h2.elim
  | [], _ :: _, _, h1, _ => h1.elim
  | _ :: _, [], _, h1, _ => h1.elim
  | _ :: _, _ :: _, [], _, h2 => h2.elim

theorem StkExt.shape : ∀ {as bs}, StkExt as bs →
    bs.map (fun a => (a.id, a.isComp)) = as.map (fun a => (a.id, a.isComp))
  | [], [], _ => rfl
  | a :: as, b :: bs, h => by simp [h.1.1, h.1.2.1, StkExt.shape h.2]
  | [], _ :: _, h => h.elim
  | _ :: _, [], h => h.elim

theorem StkExt.getLast : ∀ {as bs g}, StkExt as bs → as.getLast? = some g → ∃ g', bs.getLast? = some g' ∧ ActExt g g'
  | [], _, _, _, hg => by cases hg
  | [a], [b], g, h, hg => by
    have : a = g := by simpa using hg
    subst this
    exact ⟨b, rfl, h.1⟩
  | [_], [], _, h, _ => h.elim
  | [_], _ :: _ :: _, _, h, _ => h.2.elim
  | _ :: _ :: _, [], _, h, _ => h.elim
  | _ :: _ :: _, [_], _, h, _ => h.2.elim
  | a :: a2 :: as, b :: b2 :: bs, g, h, hg => by
    have hg' : (a2 :: as).getLast? = some g := by simpa [List.getLast?_cons_cons] using hg
    obtain ⟨g', h1, h2⟩ := StkExt.getLast h.2 hg'
    exact ⟨g', by simpa [List.getLast?_cons_cons] using h1, h2⟩

/-- the scope activation (first non-composite one) keeps its position -/
theorem StkExt.find : ∀ {as bs a}, StkExt as bs → as.find? (fun a => !a.isComp) = some a →
    ∃ a', bs.find? (fun a => !a.isComp) = some a' ∧ ActExt a a'
  | [], _, _, _, ha => by cases ha
  | _ :: _, [], _, h, _ => h.elim
  | x :: as, y :: bs, a, h, ha => by
    rw [List.find?_cons] at ha ⊢
    rw [h.1.2.1]
    cases hx : x.isComp with
    | false =>
      rw [hx] at ha
      have : x = a := by simpa using ha
      subst this
      exact ⟨y, rfl, h.1⟩
    | true =>
      rw [hx] at ha
      exact StkExt.find h.2 (by simpa using ha)

/-- the flag of `typeScopeAct`: a record context of a globally defined type is on top of the stack -/
def tFlag (acts : List Act) : Bool := (acts.takeWhile (·.isComp)).any (·.typeGlobal)

/-- the activation `typeScopeAct` returns, as a function of the stack -/
def tScope (acts : List Act) : Option Act :=
  if tFlag acts = true then acts.getLast? else acts.find? (fun a => !a.isComp)

theorem StkExt.tFlag : ∀ {as bs}, StkExt as bs → tFlag bs = tFlag as
  | [], [], _ => rfl
  | [], _ :: _, h => h.elim
  | _ :: _, [], h => h.elim
  | x :: as, y :: bs, h => by
    have ih := StkExt.tFlag h.2
    unfold NC.tFlag at ih ⊢
    rw [List.takeWhile_cons, List.takeWhile_cons, h.1.2.1]
    cases x.isComp with
    | false => rfl
    | true =>
      show (y :: bs.takeWhile (·.isComp)).any (·.typeGlobal) = (x :: as.takeWhile (·.isComp)).any (·.typeGlobal)
      rw [List.any_cons, List.any_cons, h.1.2.2.1, ih]

/-- the type scope activation keeps its position -/
theorem StkExt.tScope {as bs : List Act} {a : Act} (h : StkExt as bs) (ha : tScope as = some a) :
    ∃ a', tScope bs = some a' ∧ ActExt a a' := by
  unfold NC.tScope at ha ⊢
  rw [StkExt.tFlag h]
  split at ha
  · rename_i hf
    rw [if_pos hf]
    exact StkExt.getLast h ha
  · rename_i hf
    rw [if_neg hf]
    exact StkExt.find h ha

theorem StkExt.updActs (id : Nat) (f : Act → Act) (hf : ∀ a, ActExt a (f a)) : ∀ as, StkExt as (updActs as id f)
  | [] => trivial
  | a :: as => by
    unfold Pseudo.updActs
    split
    · exact ⟨hf a, StkExt.refl as⟩
    · exact ⟨ActExt.refl a, StkExt.updActs id f hf as⟩

theorem StkExt.drop1 : ∀ {a as bs}, StkExt (a :: as) bs → StkExt as (bs.drop 1)
  | _, _, [], h => h.elim
  | _, _, _ :: _, h => h.2

/-- same shape of the stack, and the record-type lists only grow -/
def R2 (σ σ' : St) : Prop := StkExt σ.acts σ'.acts

theorem R2.refl (σ : St) : R2 σ σ := StkExt.refl _
theorem R2.trans {a b c : St} (h1 : R2 a b) (h2 : R2 b c) : R2 a c := StkExt.trans h1 h2
theorem R2.of_acts {σ σ' : St} (h : σ'.acts = σ.acts) : R2 σ σ' := by unfold R2; rw [h]; exact StkExt.refl _
theorem R2.good {σ σ' : St} (h : R2 σ σ') (hσ : StackGood σ) : StackGood σ' :=
  StackGood.of_shape (StkExt.shape h) hσ

/-! ### what `lookupList` computes from a `StackGood` state -/

/-- `typeScopeAct` from a `StackGood` state returns `tScope` of the stack -/
theorem run_typeScopeAct (σ : St) (hσ : StackGood σ) :
    ∃ a, tScope σ.acts = some a ∧ typeScopeAct.run.run σ = (.ok a, σ) := by
  by_cases h : tFlag σ.acts = true
  · obtain ⟨g, hg, _, hrg⟩ := run_globalAct σ hσ
    refine ⟨g, by unfold tScope; rw [if_pos h]; exact hg, ?_⟩
    unfold Pseudo.typeScopeAct
    rw [run_bind_ok _ _ _ _ _ (run_get σ)]
    have h' : ((σ.acts.takeWhile (·.isComp)).any (·.typeGlobal)) = true := h
    rw [if_pos h']
    exact hrg
  · obtain ⟨a, ha, hra⟩ := run_scopeAct σ hσ
    refine ⟨a, by unfold tScope; rw [if_neg h]; exact ha, ?_⟩
    unfold Pseudo.typeScopeAct
    rw [run_bind_ok _ _ _ _ _ (run_get σ)]
    have h' : ¬ ((σ.acts.takeWhile (·.isComp)).any (·.typeGlobal)) = true := h
    rw [if_neg h']
    exact hra

/-- the result of `lookupList sel n true` as a function of the stack -/
def lkList {β : Type} (sel : Act → List (Str × β)) (acts : List Act) (n : Str) : Option (Str × β) :=
  match tScope acts, acts.getLast? with
  | some a, some g =>
    match (sel a).find? (·.1 == n) with
    | some x => some x
    | none => if a.id == g.id then none else (sel g).find? (·.1 == n)
  | _, _ => none

theorem run_lookupList {β : Type} (sel : Act → List (Str × β)) (n : Str) (σ : St) (hσ : StackGood σ) :
    (lookupList sel n true).run.run σ = (.ok (lkList sel σ.acts n), σ) := by
  obtain ⟨a, ha, hra⟩ := run_typeScopeAct σ hσ
  obtain ⟨g, hg, _, hrg⟩ := run_globalAct σ hσ
  unfold lookupList
  rw [run_bind_ok _ _ _ _ _ hra, run_bind_ok _ _ _ _ _ hrg]
  unfold lkList
  rw [ha, hg]
  dsimp only
  generalize List.find? (fun x => x.fst == n) (sel a) = o
  cases o with
  | some x => rfl
  | none =>
    dsimp only
    cases (a.id == g.id) <;> rfl

theorem lkList_fst {β : Type} (sel : Act → List (Str × β)) (acts : List Act) (n : Str) (x : Str × β)
    (h : lkList sel acts n = some x) : x.1 = n := by
  unfold lkList at h
  split at h
  · split at h
    · rename_i y hy
      cases h
      have := List.find?_some hy
      exact eq_of_beq this
    · split at h
      · cases h
      · have := List.find?_some h
        exact eq_of_beq this
  · cases h

/-- a record type is found by `compDefOf` (in the scope activation or the global one) -/
def Visible (σ : St) (ty : Ty) : Prop := ∀ n, ty = .comp n → (lkList (·.comps) σ.acts n).isSome = true

theorem Visible.transport {σ σ' : St} {ty : Ty} (hv : Visible σ ty) (hr : R2 σ σ') (hσ : StackGood σ) :
    Visible σ' ty := by
  intro n hn
  have h := hv n hn
  obtain ⟨a, ha, _⟩ := run_typeScopeAct σ hσ
  obtain ⟨g, hg, _, _⟩ := run_globalAct σ hσ
  obtain ⟨a', ha', haa⟩ := StkExt.tScope hr ha
  obtain ⟨g', hg', hgg⟩ := StkExt.getLast hr hg
  unfold lkList at h ⊢
  rw [ha, hg] at h
  rw [ha', hg']
  dsimp only at h ⊢
  obtain ⟨ra, hra⟩ := haa.2.2.2
  obtain ⟨rg, hrg⟩ := hgg.2.2.2
  rw [← hra, ← hrg, haa.1, hgg.1, List.find?_append, List.find?_append]
  cases h1 : List.find? (fun x => x.1 == n) a.comps with
  | some x => rfl
  | none =>
    rw [h1] at h
    dsimp only at h
    split at h
    · cases h
    · rename_i hne
      cases h2 : List.find? (fun x => x.1 == n) g.comps with
      | none => rw [h2] at h; cases h
      | some y =>
        simp only [Option.none_or, Option.some_or]
        split
        · rfl
        · rw [if_neg hne]; rfl

theorem run_getType (t : Tok) (σ : St) (hσ : StackGood σ) :
    ∃ ty, (getType t true).run.run σ = (.ok ty, σ) ∧ Visible σ ty := by
  unfold getType
  split
  · repeat' split
    all_goals exact ⟨_, rfl, fun n h => by cases h⟩
  · unfold enumDefOf ptrDefOf compDefOf
    rw [run_bind_ok _ _ _ _ _ (run_lookupList _ _ σ hσ)]
    cases h1 : lkList (fun x => x.enums) σ.acts t.val with
    | some x => exact ⟨_, rfl, fun n h => by cases h⟩
    | none =>
      dsimp only
      rw [run_bind_ok _ _ _ _ _ (run_lookupList _ _ σ hσ)]
      cases h2 : lkList (fun x => x.ptrs) σ.acts t.val with
      | some x => exact ⟨_, rfl, fun n h => by cases h⟩
      | none =>
        dsimp only
        rw [run_bind_ok _ _ _ _ _ (run_lookupList _ _ σ hσ)]
        cases h3 : lkList (fun x => x.comps) σ.acts t.val with
        | none => exact ⟨_, rfl, fun n h => by cases h⟩
        | some x =>
          refine ⟨.comp x.1, rfl, fun n h => ?_⟩
          cases h
          have := lkList_fst _ _ _ _ h3
          rw [this, h3]
          rfl

/-! ### the specification -/

/-- from every `StackGood` state: `R2` (however `m` ends) and `m` does not raise `.crash .localCompositeType` -/
structure EnsB {α : Type} (m : M α) : Prop where
  run : ∀ σ, StackGood σ → R2 σ (m.run.run σ).2 ∧
    ∀ e, (m.run.run σ).1 = .error e → e ≠ .crash .localCompositeType

/-- the same with the extra precondition that the type `ty` is visible in the start state -/
structure EnsBV (ty : Ty) {α : Type} (m : M α) : Prop where
  run : ∀ σ, StackGood σ → Visible σ ty → R2 σ (m.run.run σ).2 ∧
    ∀ e, (m.run.run σ).1 = .error e → e ≠ .crash .localCompositeType

section combinatorsB
variable {α β : Type}

theorem EnsB.pure (a : α) : EnsB (pure a : M α) := ⟨fun σ _ => ⟨R2.refl σ, fun _ h => by cases h⟩⟩
theorem EnsB.throw {e : Stop} (h : e ≠ .crash .localCompositeType) : EnsB (throw e : M α) :=
  ⟨fun σ _ => ⟨R2.refl σ, fun e' h' => by cases h'; exact h⟩⟩
theorem throwB_diag (d : Diag) : EnsB (throw (.diag d) : M α) := EnsB.throw nofun
theorem throwB_brk (t : Tok) : EnsB (throw (.brk t) : M α) := EnsB.throw nofun
theorem throwB_cont (t : Tok) : EnsB (throw (.cont t) : M α) := EnsB.throw nofun
theorem throwB_ret : EnsB (throw .ret : M α) := EnsB.throw nofun
theorem throwB_fuel : EnsB (throw .outOfFuel : M α) := EnsB.throw nofun
theorem throwB_danglingLoc : EnsB (throw (.crash .danglingLoc) : M α) := EnsB.throw nofun
theorem throwB_enumIndexOOB : EnsB (throw (.crash .enumIndexOOB) : M α) := EnsB.throw nofun
theorem throwB_badAlias : EnsB (throw (.crash .badAlias) : M α) := EnsB.throw nofun
theorem throwB_other : EnsB (throw (.crash .other) : M α) := EnsB.throw nofun
theorem EnsB.get : EnsB (get : M St) := ⟨fun σ _ => ⟨R2.refl σ, fun _ h => by cases h⟩⟩

/-- a raw `modify` that leaves the activation stack alone -/
theorem ensB_modify (f : St → St) (h : ∀ σ, (f σ).acts = σ.acts) : EnsB (modify f : M PUnit) :=
  ⟨fun σ _ => ⟨R2.of_acts (h σ), fun _ h => by cases h⟩⟩

theorem EnsB.bind {m : M α} {f : α → M β} (hm : EnsB m) (hf : ∀ a, EnsB (f a)) : EnsB (m >>= f) := by
  constructor
  intro σ hσ
  have h1 := hm.run σ hσ
  rcases h : m.run.run σ with ⟨e | a, σ'⟩
  · rw [run_bind_err m f σ σ' e h]
    rw [h] at h1
    exact ⟨h1.1, fun e' he => by cases he; exact h1.2 _ rfl⟩
  · rw [run_bind_ok m f σ σ' a h]
    rw [h] at h1
    have h2 := (hf a).run σ' (h1.1.good hσ)
    exact ⟨h1.1.trans h2.1, h2.2⟩

theorem EnsB.tryCatch {m : M α} {hd : Stop → M α} (hm : EnsB m)
    (hh : ∀ e, e ≠ .crash .localCompositeType → EnsB (hd e)) : EnsB (MonadExcept.tryCatch m hd) := by
  constructor
  intro σ hσ
  have h1 := hm.run σ hσ
  rcases h : m.run.run σ with ⟨e | a, σ'⟩
  · rw [run_tryCatch_err m hd σ σ' e h]
    rw [h] at h1
    have h2 := (hh e (h1.2 e rfl)).run σ' (h1.1.good hσ)
    exact ⟨h1.1.trans h2.1, h2.2⟩
  · rw [run_tryCatch_ok m hd σ σ' a h]
    rw [h] at h1
    exact ⟨h1.1, fun _ h => by cases h⟩

theorem EnsB.get_bind {f : St → M α}
    (h : ∀ σ, StackGood σ → R2 σ ((f σ).run.run σ).2 ∧
      ∀ e, ((f σ).run.run σ).1 = .error e → e ≠ .crash .localCompositeType) :
    EnsB ((MonadState.get : M St) >>= f) := by
  constructor
  intro σ hσ
  rw [run_bind_ok _ _ _ _ _ (run_get σ)]
  exact h σ hσ

theorem EnsB.of_run {m : M α} (h : ∀ σ, StackGood σ → ∃ a, m.run.run σ = (.ok a, σ)) : EnsB m :=
  ⟨fun σ hσ => by
    obtain ⟨a, ha⟩ := h σ hσ
    rw [ha]
    exact ⟨R2.refl σ, fun _ h => by cases h⟩⟩

theorem EnsB.l_curAct : EnsB curAct :=
  EnsB.of_run fun σ hσ => by obtain ⟨a, _, _, h⟩ := run_curAct σ hσ; exact ⟨a, h⟩
theorem EnsB.l_globalAct : EnsB globalAct :=
  EnsB.of_run fun σ hσ => by obtain ⟨a, _, _, h⟩ := run_globalAct σ hσ; exact ⟨a, h⟩
theorem EnsB.l_scopeAct : EnsB scopeAct :=
  EnsB.of_run fun σ hσ => by obtain ⟨a, _, h⟩ := run_scopeAct σ hσ; exact ⟨a, h⟩
theorem EnsB.l_typeScopeAct : EnsB typeScopeAct :=
  EnsB.of_run fun σ hσ => by obtain ⟨a, _, h⟩ := run_typeScopeAct σ hσ; exact ⟨a, h⟩

/-- `modifyAct` with an update that keeps `id`, `isComp` and extends `comps` -/
theorem ensB_modifyAct (id : Nat) (f : Act → Act) (hf : ∀ a, ActExt a (f a)) : EnsB (modifyAct id f) :=
  ⟨fun σ _ => ⟨StkExt.updActs id f hf σ.acts, fun _ h => by cases h⟩⟩

theorem ensB_modifyCur (f : Act → Act) (hf : ∀ a, ActExt a (f a)) : EnsB (modifyCur f) := by
  unfold Pseudo.modifyCur
  exact EnsB.bind EnsB.l_curAct fun a => ensB_modifyAct a.id f hf

theorem ensB_addVar (s : Slot) : EnsB (addVar s) := ensB_modifyCur _ fun _ => ⟨rfl, rfl, rfl, List.prefix_refl _⟩
theorem ensB_addArr (s : Slot) : EnsB (addArr s) := ensB_modifyCur _ fun _ => ⟨rfl, rfl, rfl, List.prefix_refl _⟩
theorem ensB_emit (x : Str) : EnsB (emit x) := ensB_modify _ fun _ => rfl
/-- a new record type goes to the end of the list -/
theorem ensB_addComp (x : Str × Block) : EnsB (modifyCur fun a => { a with comps := a.comps ++ [x] }) :=
  ensB_modifyCur _ fun _ => ⟨rfl, rfl, rfl, List.prefix_append _ _⟩

theorem EnsB.withAct (mk : Nat → Act) (body : M α) (hb : EnsB body) : EnsB (withAct mk body) := by
  constructor
  intro σ hσ
  rw [run_withAct]
  have hg : StackGood (pushSt mk σ) := by
    obtain ⟨g, hg, hc⟩ := hσ
    refine ⟨g, ?_, hc⟩
    show (mk σ.nextId :: σ.acts).getLast? = some g
    rw [List.getLast?_cons, hg]
    rfl
  have h := hb.run _ hg
  exact ⟨StkExt.drop1 h.1, h.2⟩

/-! the extra precondition -/

theorem EnsBV.of_ens {ty : Ty} {m : M α} (h : EnsB m) : EnsBV ty m := ⟨fun σ hσ _ => h.run σ hσ⟩

theorem EnsBV.ite {ty : Ty} {c : Prop} [Decidable c] {t e : M α} (ht : c → EnsBV ty t) (he : ¬ c → EnsBV ty e) :
    EnsBV ty (if c then t else e) := by
  split
  · exact ht ‹_›
  · exact he ‹_›

/-- first a computation that needs the type, then one that does not -/
theorem EnsBV.bind' {ty : Ty} {m : M α} {f : α → M β} (hm : EnsBV ty m) (hf : ∀ a, EnsB (f a)) :
    EnsBV ty (m >>= f) := by
  constructor
  intro σ hσ hv
  have h1 := hm.run σ hσ hv
  rcases h : m.run.run σ with ⟨e | a, σ'⟩
  · rw [run_bind_err m f σ σ' e h]
    rw [h] at h1
    exact ⟨h1.1, fun e' he => by cases he; exact h1.2 _ rfl⟩
  · rw [run_bind_ok m f σ σ' a h]
    rw [h] at h1
    have h2 := (hf a).run σ' (h1.1.good hσ)
    exact ⟨h1.1.trans h2.1, h2.2⟩

/-- both computations need the type: it stays visible -/
theorem EnsBV.bindV {ty : Ty} {m : M α} {f : α → M β} (hm : EnsBV ty m) (hf : ∀ a, EnsBV ty (f a)) :
    EnsBV ty (m >>= f) := by
  constructor
  intro σ hσ hv
  have h1 := hm.run σ hσ hv
  rcases h : m.run.run σ with ⟨e | a, σ'⟩
  · rw [run_bind_err m f σ σ' e h]
    rw [h] at h1
    exact ⟨h1.1, fun e' he => by cases he; exact h1.2 _ rfl⟩
  · rw [run_bind_ok m f σ σ' a h]
    rw [h] at h1
    have h2 := (hf a).run σ' (h1.1.good hσ) (hv.transport h1.1 hσ)
    exact ⟨h1.1.trans h2.1, h2.2⟩

/-- after `getType` (read-only) the type it returned is visible -/
theorem EnsB.bind_getType {t : Tok} {f : Ty → M α} (hf : ∀ ty, EnsBV ty (f ty)) : EnsB (getType t true >>= f) := by
  constructor
  intro σ hσ
  obtain ⟨ty, hrun, hv⟩ := run_getType t σ hσ
  rw [run_bind_ok _ _ _ _ _ hrun]
  exact (hf ty).run σ hσ hv

/-- `compDefOf` on a visible record type finds it -/
theorem EnsBV.bind_compDefOf {n : Str} {f : Option (Str × Block) → M α} (hf : ∀ x, EnsB (f (some x))) :
    EnsBV (.comp n) (compDefOf n true >>= f) := by
  constructor
  intro σ hσ hv
  unfold Pseudo.compDefOf
  rw [run_bind_ok _ _ _ _ _ (run_lookupList _ _ σ hσ)]
  have h := hv n rfl
  cases hl : lkList (fun x => x.comps) σ.acts n with
  | none => rw [hl] at h; cases h
  | some x => exact (hf x).run σ hσ

end combinatorsB

/-- one step of the proof search: the leaves -/
macro "bens_basic" : tactic => `(tactic| with_reducible first
  | exact EnsB.pure _
  | exact EnsB.get
  | exact throwB_diag _
  | exact throwB_fuel
  | exact throwB_brk _
  | exact throwB_cont _
  | exact throwB_ret
  | exact throwB_other
  | exact throwB_danglingLoc
  | exact throwB_enumIndexOOB
  | exact throwB_badAlias
  | exact EnsB.throw (by assumption)
  | exact ensB_emit _
  | exact ensB_addVar _
  | exact ensB_addArr _
  | exact ensB_addComp _
  | exact EnsB.l_curAct
  | exact EnsB.l_globalAct
  | exact EnsB.l_scopeAct
  | exact EnsB.l_typeScopeAct
  | exact ensB_modifyAct _ _ (fun _ => ActExt.mk' rfl rfl rfl (List.prefix_refl _))
  | exact ensB_modifyCur _ (fun _ => ActExt.mk' rfl rfl rfl (List.prefix_refl _))
  | exact ensB_modify _ (fun _ => rfl))

/-- library lemmas about the functions defined outside the mutual block; extended by `macro_rules` -/
syntax "bens_lib" : tactic
macro_rules | `(tactic| bens_lib) => `(tactic| fail "bens_lib: no lemma")

/-- hypotheses of the induction -/
syntax "bens_ih" : tactic
macro_rules | `(tactic| bens_ih) => `(tactic| fail "bens_ih: no hypothesis")

macro "bens_step" : tactic => `(tactic| first
  | cases ‹_ + 1 = Nat.succ _›
  | bens_basic
  | with_reducible bens_lib
  | with_reducible bens_ih
  | with_reducible apply EnsB.bind
  | with_reducible apply EnsB.tryCatch
  | with_reducible apply EnsB.withAct
  | intro _
  | split
  | dsimp only)

macro "bens_auto" : tactic => `(tactic| repeat' bens_step)

open Lean in
macro "bens_fn " id:ident : tactic =>
  `(tactic| (rw [$(mkIdent (id.getId ++ `eq_def)):ident]; try dsimp only
             bens_auto))

section libraryB
variable {α : Type}

theorem EnsB.l_findAct (id : Nat) : EnsB (findAct id) := by unfold Pseudo.findAct; bens_auto
macro_rules | `(tactic| bens_lib) => `(tactic| exact EnsB.l_findAct _)
theorem EnsB.l_mkRuntime (l c : Nat) (m : Msg) : EnsB (mkRuntime l c m) := by unfold Pseudo.mkRuntime; bens_auto
macro_rules | `(tactic| bens_lib) => `(tactic| exact EnsB.l_mkRuntime _ _ _)
theorem EnsB.l_rtErr (t : Tok) (m : Msg) : EnsB ((rtErr t m : M α)) := by unfold Pseudo.rtErr; bens_auto
macro_rules | `(tactic| bens_lib) => `(tactic| exact EnsB.l_rtErr _ _)
theorem EnsB.l_rtErr0 (m : Msg) : EnsB ((rtErr0 m : M α)) := by unfold Pseudo.rtErr0; bens_auto
macro_rules | `(tactic| bens_lib) => `(tactic| exact EnsB.l_rtErr0 _)
theorem EnsB.l_pedErr (t : Tok) (m : Msg) : EnsB ((pedErr t m : M α)) := by unfold Pseudo.pedErr; bens_auto
macro_rules | `(tactic| bens_lib) => `(tactic| exact EnsB.l_pedErr _ _)
theorem EnsB.l_lookupVar (n : Str) : EnsB (lookupVar n) := by unfold Pseudo.lookupVar; bens_auto
macro_rules | `(tactic| bens_lib) => `(tactic| exact EnsB.l_lookupVar _)
theorem EnsB.l_lookupArr (n : Str) : EnsB (lookupArr n) := by unfold Pseudo.lookupArr; bens_auto
macro_rules | `(tactic| bens_lib) => `(tactic| exact EnsB.l_lookupArr _)
theorem EnsB.l_lookupList {β : Type} (sel : Act → List (Str × β)) (n : Str) (g : Bool) : EnsB (lookupList sel n g) := by unfold Pseudo.lookupList; bens_auto
macro_rules | `(tactic| bens_lib) => `(tactic| exact EnsB.l_lookupList _ _ _)
theorem EnsB.l_enumDefOf (n : Str) (g : Bool) : EnsB (enumDefOf n g) := by unfold Pseudo.enumDefOf; bens_auto
macro_rules | `(tactic| bens_lib) => `(tactic| exact EnsB.l_enumDefOf _ _)
theorem EnsB.l_ptrDefOf (n : Str) (g : Bool) : EnsB (ptrDefOf n g) := by unfold Pseudo.ptrDefOf; bens_auto
macro_rules | `(tactic| bens_lib) => `(tactic| exact EnsB.l_ptrDefOf _ _)
theorem EnsB.l_compDefOf (n : Str) (g : Bool) : EnsB (compDefOf n g) := by unfold Pseudo.compDefOf; bens_auto
macro_rules | `(tactic| bens_lib) => `(tactic| exact EnsB.l_compDefOf _ _)
theorem EnsB.l_getType (t : Tok) (g : Bool) : EnsB (getType t g) := by unfold Pseudo.getType; bens_auto
macro_rules | `(tactic| bens_lib) => `(tactic| exact EnsB.l_getType _ _)
theorem EnsB.l_getEnumElement (v : Str) (g : Bool) : EnsB (getEnumElement v g) := by unfold Pseudo.getEnumElement; bens_auto
macro_rules | `(tactic| bens_lib) => `(tactic| exact EnsB.l_getEnumElement _ _)
theorem EnsB.l_isIdentifierType (t : Tok) (g : Bool) : EnsB (isIdentifierType t g) := by unfold Pseudo.isIdentifierType; bens_auto
macro_rules | `(tactic| bens_lib) => `(tactic| exact EnsB.l_isIdentifierType _ _)
theorem EnsB.l_readLoc (l : Loc) : EnsB (readLoc l) := by unfold Pseudo.readLoc; bens_auto
macro_rules | `(tactic| bens_lib) => `(tactic| exact EnsB.l_readLoc _)
theorem EnsB.l_locIsConst (l : Loc) : EnsB (locIsConst l) := by unfold Pseudo.locIsConst; bens_auto
macro_rules | `(tactic| bens_lib) => `(tactic| exact EnsB.l_locIsConst _)
theorem EnsB.l_isLive (id : Nat) : EnsB (isLive id) := by unfold Pseudo.isLive; bens_auto
macro_rules | `(tactic| bens_lib) => `(tactic| exact EnsB.l_isLive _)
theorem EnsB.l_liftMsg (t : Tok) (x : Except Msg α) : EnsB (liftMsg t x) := by unfold Pseudo.liftMsg; bens_auto
macro_rules | `(tactic| bens_lib) => `(tactic| exact EnsB.l_liftMsg _ _)
theorem EnsB.l_liftMsg0 (x : Except Msg α) : EnsB (liftMsg0 x) := by unfold Pseudo.liftMsg0; bens_auto
macro_rules | `(tactic| bens_lib) => `(tactic| exact EnsB.l_liftMsg0 _)
theorem EnsB.l_outputText (v : Val) : EnsB (outputText v) := by unfold Pseudo.outputText; bens_auto
macro_rules | `(tactic| bens_lib) => `(tactic| exact EnsB.l_outputText _)
theorem EnsB.l_filePre (t : Tok) (op : FOp) : EnsB (filePre t op) := by unfold Pseudo.filePre; bens_auto
macro_rules | `(tactic| bens_lib) => `(tactic| exact EnsB.l_filePre _ _)
theorem EnsB.l_codecDefs : EnsB (codecDefs) := by unfold Pseudo.codecDefs; bens_auto
macro_rules | `(tactic| bens_lib) => `(tactic| exact EnsB.l_codecDefs)
theorem EnsB.l_writeText (t : Tok) (v : Val) : EnsB (writeText t v) := by unfold Pseudo.writeText; bens_auto
macro_rules | `(tactic| bens_lib) => `(tactic| exact EnsB.l_writeText _ _)

/-- `catchNotDefined`: the handler may rethrow what it caught -/
theorem EnsB.l_catchNotDefined {m : M α} {h : Stop → M α} (hm : EnsB m)
    (hh : ∀ e, e ≠ .crash .localCompositeType → EnsB (h e)) : EnsB (catchNotDefined m h) := by
  unfold catchNotDefined
  apply EnsB.tryCatch hm
  intro e he
  bens_auto
  exact hh _ he

theorem EnsB.l_tick (t : Tok) : EnsB (tick t) := by
  unfold tick
  apply EnsB.get_bind
  intro σ hσ
  split
  · exact (EnsB.l_rtErr t .budget).run σ hσ
  · exact ⟨R2.of_acts rfl, fun e h => by cases h⟩
macro_rules | `(tactic| bens_lib) => `(tactic| exact EnsB.l_tick _)

theorem EnsB.l_getLine : EnsB getLine := by
  unfold getLine
  apply EnsB.get_bind
  intro σ _
  split
  · exact ⟨R2.of_acts rfl, fun e h => by cases h⟩
  · dsimp only
    split
    · exact ⟨R2.of_acts rfl, fun e h => by cases h⟩
    · exact ⟨R2.of_acts rfl, fun e h => by cases h⟩
macro_rules | `(tactic| bens_lib) => `(tactic| exact EnsB.l_getLine)

theorem EnsB.l_doFile (t : Tok) (op : FOp) : EnsB (doFile t op) := by
  unfold doFile
  apply EnsB.get_bind
  intro σ hσ
  split
  · exact ⟨R2.of_acts rfl, fun e h => by cases h⟩
  · exact (EnsB.l_rtErr t _).run σ hσ
macro_rules | `(tactic| bens_lib) => `(tactic| exact EnsB.l_doFile _ _)

theorem EnsB.l_doFile0 (op : FOp) : EnsB (doFile0 op) := by
  unfold doFile0
  apply EnsB.get_bind
  intro σ hσ
  split
  · exact ⟨R2.of_acts rfl, fun e h => by cases h⟩
  · exact (EnsB.l_rtErr0 _).run σ hσ
macro_rules | `(tactic| bens_lib) => `(tactic| exact EnsB.l_doFile0 _)

theorem EnsB.l_writeLoc (t : Tok) (l : Loc) (v : Val) : EnsB (writeLoc t l v) := by
  unfold writeLoc
  bens_auto
  all_goals
    apply ensB_modifyAct
    intro a
    first | exact ⟨rfl, rfl, rfl, List.prefix_refl _⟩ | (split <;> exact ⟨rfl, rfl, rfl, List.prefix_refl _⟩)
macro_rules | `(tactic| bens_lib) => `(tactic| exact EnsB.l_writeLoc _ _ _)
theorem EnsB.l_runBuiltin (id : Str) (args : List Val) : EnsB (runBuiltin id args) := by unfold Pseudo.runBuiltin; bens_auto
macro_rules | `(tactic| bens_lib) => `(tactic| exact EnsB.l_runBuiltin _ _)
theorem EnsB.l_replEcho (v : Val) : EnsB (replEcho v) := by unfold Pseudo.replEcho; bens_auto
macro_rules | `(tactic| bens_lib) => `(tactic| exact EnsB.l_replEcho _)

end libraryB

macro_rules | `(tactic| bens_lib) => `(tactic| apply EnsB.l_catchNotDefined)

set_option hygiene false in
/-- proof search for `declareVars` / `declareArrs`: after `getType`, carry the visibility of the type to the call
    of `defaultVal` / `defaultCells` -/
macro "bens_stepV" : tactic => `(tactic| first
  | exact ih.defaultVal _ _
  | exact ih.defaultCells _ _ _ _
  | with_reducible apply EnsB.bind_getType
  | with_reducible apply EnsBV.bind'
  | with_reducible apply EnsBV.ite
  | with_reducible apply EnsBV.of_ens
  | bens_step)
macro "bens_autoV" : tactic => `(tactic| repeat' bens_stepV)

/-- the statement proved by induction on fuel: one field per function of the mutual block -/
structure AllB (f : Nat) : Prop where
  defaultVal : ∀ t ty, EnsBV ty (defaultVal f t ty)
  defaultCells : ∀ t ty n acc, EnsBV ty (defaultCells f t ty n acc)
  evalArgs : ∀ es acc, EnsB (evalArgs f es acc)
  evalIndices : ∀ es dims acc, EnsB (evalIndices f es dims acc)
  resolveRef : ∀ r, EnsB (resolveRef f r)
  callFun : ∀ t args, EnsB (callFun f t args)
  bindParams : ∀ t ps es vs acc, EnsB (bindParams f t ps es vs acc)
  evalExpr : ∀ e, EnsB (evalExpr f e)
  execAssign : ∀ t r rhs, EnsB (execAssign f t r rhs)
  runBlock : ∀ b, EnsB (runBlock f b)
  ifChain : ∀ t bs els, EnsB (ifChain f t bs els)
  caseMatch : ∀ v cl, EnsB (caseMatch f v cl)
  caseClauses : ∀ v cls, EnsB (caseClauses f v cls)
  loopBody : ∀ b, EnsB (loopBody f b)
  whileLoop : ∀ t c b, EnsB (whileLoop f t c b)
  repeatLoop : ∀ t b c, EnsB (repeatLoop f t b c)
  forLoop : ∀ t it stop step b, EnsB (forLoop f t it stop step b)
  callProc : ∀ t name args, EnsB (callProc f t name args)
  resolveParams : ∀ ps acc, EnsB (resolveParams f ps acc)
  evalBounds : ∀ bs acc, EnsB (evalBounds f bs acc)
  declareVars : ∀ t ids ty, EnsB (declareVars f t ids ty)
  declareArrs : ∀ t ids ty dims, EnsB (declareArrs f t ids ty dims)
  outputAll : ∀ es, EnsB (outputAll f es)
  fileName : ∀ t e, EnsB (fileName f t e)
  execStmt : ∀ s, EnsB (execStmt f s)

set_option hygiene false in
macro_rules | `(tactic| bens_ih) => `(tactic| first
  | apply ih.evalExpr | apply ih.resolveRef | apply ih.evalArgs | apply ih.evalIndices | apply ih.callFun
  | apply ih.bindParams | apply ih.execAssign | apply ih.runBlock | apply ih.ifChain | apply ih.caseMatch
  | apply ih.caseClauses | apply ih.loopBody | apply ih.whileLoop | apply ih.repeatLoop | apply ih.forLoop
  | apply ih.callProc | apply ih.resolveParams | apply ih.evalBounds | apply ih.declareVars | apply ih.declareArrs
  | apply ih.outputAll | apply ih.fileName | apply ih.execStmt | apply ih.defaultVal | apply ih.defaultCells)

theorem AllB.zero : AllB 0 where
  defaultVal _ _ := by rw [Pseudo.defaultVal.eq_def]; dsimp only; apply EnsBV.of_ens; bens_auto
  defaultCells _ _ _ _ := by rw [Pseudo.defaultCells.eq_def]; dsimp only; apply EnsBV.of_ens; bens_auto
  evalArgs _ _ := by rw [Pseudo.evalArgs.eq_def]; dsimp only; bens_auto
  evalIndices _ _ _ := by rw [Pseudo.evalIndices.eq_def]; dsimp only; bens_auto
  resolveRef _ := by rw [Pseudo.resolveRef.eq_def]; dsimp only; bens_auto
  callFun _ _ := by rw [Pseudo.callFun.eq_def]; dsimp only; bens_auto
  bindParams _ _ _ _ _ := by rw [Pseudo.bindParams.eq_def]; dsimp only; bens_auto
  evalExpr _ := by rw [Pseudo.evalExpr.eq_def]; dsimp only; bens_auto
  execAssign _ _ _ := by rw [Pseudo.execAssign.eq_def]; dsimp only; bens_auto
  runBlock _ := by rw [Pseudo.runBlock.eq_def]; dsimp only; bens_auto
  ifChain _ _ _ := by rw [Pseudo.ifChain.eq_def]; dsimp only; bens_auto
  caseMatch _ _ := by rw [Pseudo.caseMatch.eq_def]; dsimp only; bens_auto
  caseClauses _ _ := by rw [Pseudo.caseClauses.eq_def]; dsimp only; bens_auto
  loopBody _ := by rw [Pseudo.loopBody.eq_def]; dsimp only; bens_auto
  whileLoop _ _ _ := by rw [Pseudo.whileLoop.eq_def]; dsimp only; bens_auto
  repeatLoop _ _ _ := by rw [Pseudo.repeatLoop.eq_def]; dsimp only; bens_auto
  forLoop _ _ _ _ _ := by rw [Pseudo.forLoop.eq_def]; dsimp only; bens_auto
  callProc _ _ _ := by rw [Pseudo.callProc.eq_def]; dsimp only; bens_auto
  resolveParams _ _ := by rw [Pseudo.resolveParams.eq_def]; dsimp only; bens_auto
  evalBounds _ _ := by rw [Pseudo.evalBounds.eq_def]; dsimp only; bens_auto
  declareVars _ _ _ := by rw [Pseudo.declareVars.eq_def]; dsimp only; bens_auto
  declareArrs _ _ _ _ := by rw [Pseudo.declareArrs.eq_def]; dsimp only; bens_auto
  outputAll _ := by rw [Pseudo.outputAll.eq_def]; dsimp only; bens_auto
  fileName _ _ := by rw [Pseudo.fileName.eq_def]; dsimp only; bens_auto
  execStmt _ := by rw [Pseudo.execStmt.eq_def]; dsimp only; bens_auto

section stepsB
variable {f : Nat}

theorem stepB_defaultVal (ih : AllB f) : ∀ t ty, EnsBV ty (defaultVal (f+1) t ty) := by
  intro t ty
  rw [Pseudo.defaultVal.eq_def]; try dsimp only
  split
  · apply EnsBV.bind_compDefOf
    intro x
    bens_auto
  · apply EnsBV.of_ens
    bens_auto

theorem stepB_defaultCells (ih : AllB f) : ∀ t ty n acc, EnsBV ty (defaultCells (f+1) t ty n acc) := by
  intro t ty n acc
  rw [Pseudo.defaultCells.eq_def]; try dsimp only
  split
  · apply EnsBV.of_ens
    bens_auto
  · apply EnsBV.of_ens
    bens_auto
  · rename_i heq
    cases heq
    exact EnsBV.bindV (ih.defaultVal _ _) fun v => ih.defaultCells _ _ _ _

theorem stepB_evalArgs (ih : AllB f) : ∀ es acc, EnsB (evalArgs (f+1) es acc) := by
  intro es acc; bens_fn evalArgs

theorem stepB_evalIndices (ih : AllB f) : ∀ es dims acc, EnsB (evalIndices (f+1) es dims acc) := by
  intro es dims acc; bens_fn evalIndices

theorem stepB_resolveRef (ih : AllB f) : ∀ r, EnsB (resolveRef (f+1) r) := by
  intro r; bens_fn resolveRef

theorem stepB_callFun (ih : AllB f) : ∀ t args, EnsB (callFun (f+1) t args) := by
  intro t args; bens_fn callFun

theorem stepB_bindParams (ih : AllB f) : ∀ t ps es vs acc, EnsB (bindParams (f+1) t ps es vs acc) := by
  intro t ps es vs acc; bens_fn bindParams

theorem stepB_evalExpr (ih : AllB f) : ∀ e, EnsB (evalExpr (f+1) e) := by
  intro e; bens_fn evalExpr

theorem stepB_execAssign (ih : AllB f) : ∀ t r rhs, EnsB (execAssign (f+1) t r rhs) := by
  intro t r rhs; bens_fn execAssign

theorem stepB_runBlock (ih : AllB f) : ∀ b, EnsB (runBlock (f+1) b) := by
  intro b; bens_fn runBlock

theorem stepB_ifChain (ih : AllB f) : ∀ t bs els, EnsB (ifChain (f+1) t bs els) := by
  intro t bs els; bens_fn ifChain

theorem stepB_caseMatch (ih : AllB f) : ∀ v cl, EnsB (caseMatch (f+1) v cl) := by
  intro v cl; bens_fn caseMatch

theorem stepB_caseClauses (ih : AllB f) : ∀ v cls, EnsB (caseClauses (f+1) v cls) := by
  intro v cls; bens_fn caseClauses

theorem stepB_loopBody (ih : AllB f) : ∀ b, EnsB (loopBody (f+1) b) := by
  intro b; bens_fn loopBody

theorem stepB_whileLoop (ih : AllB f) : ∀ t c b, EnsB (whileLoop (f+1) t c b) := by
  intro t c b; bens_fn whileLoop

theorem stepB_repeatLoop (ih : AllB f) : ∀ t b c, EnsB (repeatLoop (f+1) t b c) := by
  intro t b c; bens_fn repeatLoop

theorem stepB_forLoop (ih : AllB f) : ∀ t it stop step b, EnsB (forLoop (f+1) t it stop step b) := by
  intro t it stop step b; bens_fn forLoop

theorem stepB_callProc (ih : AllB f) : ∀ t name args, EnsB (callProc (f+1) t name args) := by
  intro t name args; bens_fn callProc

theorem stepB_resolveParams (ih : AllB f) : ∀ ps acc, EnsB (resolveParams (f+1) ps acc) := by
  intro ps acc; bens_fn resolveParams

theorem stepB_evalBounds (ih : AllB f) : ∀ bs acc, EnsB (evalBounds (f+1) bs acc) := by
  intro bs acc; bens_fn evalBounds

theorem stepB_declareVars (ih : AllB f) : ∀ t ids ty, EnsB (declareVars (f+1) t ids ty) := by
  intro t ids ty
  rw [Pseudo.declareVars.eq_def]; try dsimp only
  bens_autoV

theorem stepB_declareArrs (ih : AllB f) : ∀ t ids ty dims, EnsB (declareArrs (f+1) t ids ty dims) := by
  intro t ids ty dims
  rw [Pseudo.declareArrs.eq_def]; try dsimp only
  bens_autoV

theorem stepB_outputAll (ih : AllB f) : ∀ es, EnsB (outputAll (f+1) es) := by
  intro es; bens_fn outputAll

theorem stepB_fileName (ih : AllB f) : ∀ t e, EnsB (fileName (f+1) t e) := by
  intro t e; bens_fn fileName

set_option maxHeartbeats 1000000 in
theorem stepB_execStmt (ih : AllB f) : ∀ s, EnsB (execStmt (f+1) s) := by
  intro s; bens_fn execStmt

theorem AllB.succ (ih : AllB f) : AllB (f + 1) where
  defaultVal := stepB_defaultVal ih
  defaultCells := stepB_defaultCells ih
  evalArgs := stepB_evalArgs ih
  evalIndices := stepB_evalIndices ih
  resolveRef := stepB_resolveRef ih
  callFun := stepB_callFun ih
  bindParams := stepB_bindParams ih
  evalExpr := stepB_evalExpr ih
  execAssign := stepB_execAssign ih
  runBlock := stepB_runBlock ih
  ifChain := stepB_ifChain ih
  caseMatch := stepB_caseMatch ih
  caseClauses := stepB_caseClauses ih
  loopBody := stepB_loopBody ih
  whileLoop := stepB_whileLoop ih
  repeatLoop := stepB_repeatLoop ih
  forLoop := stepB_forLoop ih
  callProc := stepB_callProc ih
  resolveParams := stepB_resolveParams ih
  evalBounds := stepB_evalBounds ih
  declareVars := stepB_declareVars ih
  declareArrs := stepB_declareArrs ih
  outputAll := stepB_outputAll ih
  fileName := stepB_fileName ih
  execStmt := stepB_execStmt ih

end stepsB

theorem allB : ∀ fuel, AllB fuel
  | 0 => AllB.zero
  | f + 1 => (allB f).succ

/-- **C01 (`localCompositeType` unreachable), statements** -/
theorem C01_no_localCompositeType (fuel : Nat) (s : Stmt) (σ : St) (h : StackGood σ) :
    ∀ e, ((execStmt fuel s).run.run σ).1 = .error e → e ≠ .crash .localCompositeType :=
  (((allB fuel).execStmt s).run σ h).2

theorem C01_no_localCompositeType_block (fuel : Nat) (b : Block) (σ : St) (h : StackGood σ) :
    ∀ e, ((runBlock fuel b).run.run σ).1 = .error e → e ≠ .crash .localCompositeType :=
  (((allB fuel).runBlock b).run σ h).2

theorem C01_no_localCompositeType_expr (fuel : Nat) (x : Expr) (σ : St) (h : StackGood σ) :
    ∀ e, ((evalExpr fuel x).run.run σ).1 = .error e → e ≠ .crash .localCompositeType :=
  (((allB fuel).evalExpr x).run σ h).2

/-- the record-type lists only grow, whatever way a statement ends (by-product) -/
theorem C01_comps_grow (fuel : Nat) (s : Stmt) (σ : St) (h : StackGood σ) :
    R2 σ ((execStmt fuel s).run.run σ).2 :=
  (((allB fuel).execStmt s).run σ h).1

/-- **C01 (`localCompositeType` unreachable), whole programs**, for all inputs -/
theorem C01_no_localCompositeType_file (cfg : Cfg) (content : Str) (fs : List (Str × FsNode)) (stdin : Str) :
    (runFile cfg content fs stdin).crash ≠ some .localCompositeType :=
  runFile_noC .localCompositeType nofun C01_no_localCompositeType_block cfg content fs stdin

/-- **C01 (`localCompositeType` unreachable), the REPL**, for all inputs -/
theorem C01_no_localCompositeType_repl (cfg : Cfg) (fs : List (Str × FsNode)) (stdin : Str) :
    (repl cfg fs stdin).crash ≠ some .localCompositeType :=
  repl_noC .localCompositeType nofun C01_no_localCompositeType_block cfg fs stdin

/-! ### non-vacuity -/

/-- (B) the preconditions matter: `defaultVal` on a record type that is NOT visible raises the crash point … -/
example : ((defaultVal 1 default (.comp "R".toList)).run.run (St.init [] [] false false)).1
    = .error (.crash .localCompositeType) := rfl
/-- … the demo state of `NoCrashGen.lean` knows the record type `R` … -/
example : Visible DemoG.st (.comp "R".toList) := fun n h => by cases h; decide
example : ¬ Visible (St.init [] [] false false) (.comp "R".toList) := fun h => by have := h _ rfl; cases this
/-- … and `DECLARE X : R` there (which runs through `getType`, `defaultVal`, the composite activation) is an
    instance of both theorems -/
example : ∀ e, ((execStmt 10 DemoG.stmt).run.run DemoG.st).1 = .error e → e ≠ .crash .localCompositeType :=
  C01_no_localCompositeType 10 DemoG.stmt DemoG.st ⟨_, rfl, rfl⟩
example : ∀ e, ((execStmt 10 DemoG.stmt).run.run DemoG.st).1 = .error e → e ≠ .crash .badAlias :=
  C01_no_badAlias 10 DemoG.stmt DemoG.st
/-- the record-type list of the global activation really grows by a TYPE statement (`R2` is not the identity) -/
example : R2 (St.init [] [] false false)
    ((execStmt 10 (.typeRec (DemoG.kw .TYPE "TYPE") (DemoG.kw .IDENTIFIER "R") [])).run.run (St.init [] [] false false)).2 :=
  C01_comps_grow _ _ _ (StackGood.init _ _ _ _)
example : (((execStmt 10 (.typeRec (DemoG.kw .TYPE "TYPE") (DemoG.kw .IDENTIFIER "R") [])).run.run
    (St.init [] [] false false)).2.acts.map (·.comps.length)) = [1] := by decide

#print axioms C01_no_badAlias
#print axioms C01_no_badAlias_block
#print axioms C01_no_badAlias_file
#print axioms C01_no_badAlias_repl
#print axioms C01_no_localCompositeType
#print axioms C01_no_localCompositeType_block
#print axioms C01_no_localCompositeType_file
#print axioms C01_no_localCompositeType_repl

end Pseudo.NC
