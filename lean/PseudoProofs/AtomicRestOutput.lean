import PseudoProofs.AtomicLemmasStmt
/-!
# A failing `OUTPUT` of one call-free expression changes nothing but the step counter
(used for the demo session of `C12LoopDemo`, whose failing entry is `OUTPUT y`)
-/
namespace Pseudo
namespace AtomicRest

theorem execStmt_output (f : Nat) (t : Tok) (es : List Expr) :
    execStmt (f+1) (.output t es) = (do tick t; outputAll f es; emit ['\n']; pure .none) := by
  rw [execStmt.eq_def]

theorem outputAll_one (f : Nat) (e : Expr) :
    outputAll (f+1) [e] = (do
      let v ← evalExpr f e
      match ← outputText v with
      | some s => emit s; outputAll f []
      | none => rtErr e.tok .noValue) := by
  rw [outputAll.eq_def]; rfl

theorem outputAll_nil_err (f : Nat) (σ1 σ' : St) (e : Stop) (h : (outputAll f []).run.run σ1 = (.error e, σ')) : ¬ Soft e := by
  cases f with
  | zero => rw [outputAll.eq_def] at h; cases h; exact id
  | succ f => rw [outputAll.eq_def] at h; cases h

theorem failAt_emit_tail {β : Type} (s : Str) (k : M β) (σ : St)
    (hk : ∀ σ1 e σ', k.run.run σ1 = (.error e, σ') → ¬ Soft e) : FailAt Soft (emit s >>= fun _ => k) σ := by
  constructor
  intro e σ' hP hr
  have : (emit s).run.run σ = (.ok ⟨⟩, { σ with out := s :: σ.out }) := rfl
  rw [run_bind_ok _ _ _ _ _ this] at hr
  exact absurd hP (hk _ _ _ hr)

theorem failAt_outputAll1 (f : Nat) (e : Expr) (he : e.callFree = true) (σ : St) : FailAt Soft (outputAll f [e]) σ := by
  cases f with
  | zero => rw [outputAll.eq_def]; dsimp only; fne_auto
  | succ f =>
    rw [outputAll_one]
    apply FailAt.bind (Q := QAny)
    · ens_auto
    intro v _
    apply FailAt.bind (Q := QAny)
    · ens_auto
    intro o _
    split
    · exact failAt_emit_tail _ _ _ (fun σ1 e σ' h => outputAll_nil_err f σ1 σ' e h)
    · fne_auto

/-- `OUTPUT e` with one call-free expression -/
def outputOne : Stmt → Bool
  | .output _ [e] => e.callFree
  | _ => false

theorem stmtNE_outputOne (s : Stmt) (h : outputOne s = true) (f : Nat) (σ : St) : StmtNEAt Soft f s σ := by
  cases s with
  | output t es =>
    match es, h with
    | [e], h =>
      cases f with
      | zero => exact stmtNE_zero _
      | succ f =>
        intro e' σ' hP hrun
        rw [execStmt_output] at hrun
        refine SK.of_tick t ?_ e' σ' hP hrun
        refine (failAt_outputAll1 f e h _).tail ?_
        intro _ σ1 e2 σ2 hr
        cases hr
  | _ => cases h

end AtomicRest
end Pseudo
