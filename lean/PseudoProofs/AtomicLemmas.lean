import PseudoProofs.EvalInv
import PseudoProofs.FileStmt
/-!
# Helper lemmas for C12 (atomic entries): a failing call-free statement leaves nothing behind

* `Expr.callFree` / `Ref.callFree` / `callFreeL`: syntactic "no user or built-in call, no embedded assignment" predicate.
* `callFree_ens`: evaluating a call-free expression / resolving a call-free reference / evaluating call-free index lists
  respects EVERY reflexive-transitive relation on states (in particular equality: the state is not changed, whether the
  evaluation succeeds or fails). One induction on fuel over the three functions involved.
* `SK σ σ'`: `σ'` is `σ` except for the step counter.
* `FailNE P m`: when `m` ends with an exception `e` satisfying `P`, the final state is `SK`-related to the start state.
  Combinators `FailNE.bind` (a state-preserving prefix), `FailNE.tail` (an effect followed by something that cannot fail
  with a `P` exception), leaves for the primitives `addVar`, `addArr`, `writeLoc`, `doFile`.
-/
namespace Pseudo

/-! ### call-free expressions -/

mutual
/-- no call (user-defined or built-in function) and no embedded assignment anywhere in the expression,
    index expressions included -/
def Expr.callFree : Expr → Bool
  | .intLit _ _ | .realLit _ _ | .boolLit _ _ | .charLit _ _ | .strLit _ _ | .dateLit _ _ _ _ => true
  | .neg _ e => e.callFree
  | .arith _ _ l r => l.callFree && r.callFree
  | .cmp _ _ l r => l.callFree && r.callFree
  | .logic _ _ l r => l.callFree && r.callFree
  | .not _ e => e.callFree
  | .concat _ l r => l.callFree && r.callFree
  | .cast _ _ e => e.callFree
  | .call _ _ => false
  | .access _ r => r.callFree
  | .assign _ _ _ => false
  | .ptrAssign _ _ _ => false
def Ref.callFree : Ref → Bool
  | .var _ => true
  | .field _ r _ => r.callFree
  | .deref _ r => r.callFree
  | .index _ r idx => r.callFree && callFreeL idx
def callFreeL : List Expr → Bool
  | [] => true
  | e :: es => e.callFree && callFreeL es
end

/-- the statement proved by induction on fuel -/
structure CallFreeEns (R : St → St → Prop) (Q : Stop → Prop) (f : Nat) : Prop where
  expr : ∀ e, e.callFree = true → Ens R Q (evalExpr f e)
  ref : ∀ r, r.callFree = true → Ens R Q (resolveRef f r)
  indices : ∀ es dims acc, callFreeL es = true → Ens R Q (evalIndices f es dims acc)

section callfree
variable {R : St → St → Prop} {Q : Stop → Prop} [RPre R] [QBase Q]

set_option hygiene false in
macro_rules | `(tactic| ens_ih) => `(tactic| first
  | exact ih.expr _ (by assumption)
  | exact ih.ref _ (by assumption)
  | exact ih.indices _ _ _ (by assumption))

theorem callFree_zero : CallFreeEns R Q 0 := by
  refine ⟨fun e _ => ?_, fun r _ => ?_, fun es dims acc _ => ?_⟩
  · rw [evalExpr.eq_def]; dsimp only; ens_auto
  · rw [resolveRef.eq_def]; dsimp only; ens_auto
  · rw [evalIndices.eq_def]; dsimp only; ens_auto

theorem callFree_step_expr {f : Nat} (ih : CallFreeEns R Q f) (e : Expr) (hcf : e.callFree = true) :
    Ens R Q (evalExpr (f+1) e) := by
  cases e with
  | intLit t v => rw [evalExpr.eq_def]; dsimp only; ens_auto
  | realLit t v => rw [evalExpr.eq_def]; dsimp only; ens_auto
  | boolLit t v => rw [evalExpr.eq_def]; dsimp only; ens_auto
  | charLit t v => rw [evalExpr.eq_def]; dsimp only; ens_auto
  | strLit t v => rw [evalExpr.eq_def]; dsimp only; ens_auto
  | dateLit t d m y => rw [evalExpr.eq_def]; dsimp only; ens_auto
  | neg t a =>
    have ha : a.callFree = true := by simpa [Expr.callFree] using hcf
    rw [evalExpr.eq_def]; dsimp only; ens_auto
  | arith t op l r =>
    have ⟨hl, hr⟩ : l.callFree = true ∧ r.callFree = true := by simpa [Expr.callFree] using hcf
    rw [evalExpr.eq_def]; dsimp only; ens_auto
  | cmp t op l r =>
    have ⟨hl, hr⟩ : l.callFree = true ∧ r.callFree = true := by simpa [Expr.callFree] using hcf
    rw [evalExpr.eq_def]; dsimp only; ens_auto
  | logic t op l r =>
    have ⟨hl, hr⟩ : l.callFree = true ∧ r.callFree = true := by simpa [Expr.callFree] using hcf
    rw [evalExpr.eq_def]; dsimp only; ens_auto
  | not t a =>
    have ha : a.callFree = true := by simpa [Expr.callFree] using hcf
    rw [evalExpr.eq_def]; dsimp only; ens_auto
  | concat t l r =>
    have ⟨hl, hr⟩ : l.callFree = true ∧ r.callFree = true := by simpa [Expr.callFree] using hcf
    rw [evalExpr.eq_def]; dsimp only; ens_auto
  | cast t ty a =>
    have ha : a.callFree = true := by simpa [Expr.callFree] using hcf
    rw [evalExpr.eq_def]; dsimp only; ens_auto
  | call t args => simp [Expr.callFree] at hcf
  | access t r =>
    have hr : r.callFree = true := by simpa [Expr.callFree] using hcf
    rw [evalExpr.eq_def]; dsimp only; ens_auto
  | assign t r rhs => simp [Expr.callFree] at hcf
  | ptrAssign t r v => simp [Expr.callFree] at hcf

theorem callFree_step_ref {f : Nat} (ih : CallFreeEns R Q f) (r : Ref) (hcf : r.callFree = true) :
    Ens R Q (resolveRef (f+1) r) := by
  cases r with
  | var t => rw [resolveRef.eq_def]; dsimp only; ens_auto
  | field t r m =>
    have hr : r.callFree = true := by simpa [Ref.callFree] using hcf
    rw [resolveRef.eq_def]; dsimp only; ens_auto
  | deref t r =>
    have hr : r.callFree = true := by simpa [Ref.callFree] using hcf
    rw [resolveRef.eq_def]; dsimp only; ens_auto
  | index t r idx =>
    have ⟨hr, hi⟩ : r.callFree = true ∧ callFreeL idx = true := by simpa [Ref.callFree] using hcf
    rw [resolveRef.eq_def]; dsimp only; ens_auto

theorem callFree_step_indices {f : Nat} (ih : CallFreeEns R Q f) (es : List Expr) (dims : List (Int × Int)) (acc : List Int)
    (hcf : callFreeL es = true) : Ens R Q (evalIndices (f+1) es dims acc) := by
  cases es with
  | nil => rw [evalIndices.eq_def]; dsimp only; ens_auto
  | cons e rest =>
    have ⟨he, hrest⟩ : e.callFree = true ∧ callFreeL rest = true := by simpa [callFreeL] using hcf
    rw [evalIndices.eq_def]; dsimp only; ens_auto

/-- **evaluation of call-free expressions respects every reflexive-transitive relation on states** — with `R := Eq`:
    it does not change the state, whether it yields a value or fails -/
theorem callFree_ens : ∀ f, CallFreeEns R Q f
  | 0 => callFree_zero
  | f + 1 => ⟨callFree_step_expr (callFree_ens f), callFree_step_ref (callFree_ens f),
      fun es dims acc h => callFree_step_indices (callFree_ens f) es dims acc h⟩

end callfree

end Pseudo

namespace Pseudo
open FileStmt

/-! ### "nothing but the step counter" and failing computations -/

/-- `σ'` is `σ` except for the step counter -/
def SK (σ σ' : St) : Prop := ∃ n, σ' = { σ with steps := n }

instance : RPre SK := ⟨fun σ => ⟨σ.steps, rfl⟩, fun ⟨_, h1⟩ ⟨m, h2⟩ => ⟨m, by rw [h2, h1]⟩⟩

theorem SK.of_eq {σ σ' : St} (h : σ = σ') : SK σ σ' := h ▸ RPre.refl σ

/-- exceptions other than a crash point and fuel exhaustion of the model: diagnostics and the three control signals -/
def Soft : Stop → Prop
  | .crash _ => False
  | .outOfFuel => False
  | _ => True

/-- no condition on the exception (an opaque name, so that the proof search does not have to unify with a lambda) -/
def QAny (_ : Stop) : Prop := True
instance : QBase QAny := ⟨fun _ => trivial, fun _ => trivial, trivial⟩

instance : RPre (@Eq St) := ⟨fun _ => rfl, fun h1 h2 => h1.trans h2⟩

/-- started in `σ`: when `m` ends with an exception in `P`, the final state is `σ` -/
structure FailAt {α : Type} (P : Stop → Prop) (m : M α) (σ : St) : Prop where
  run : ∀ e σ', P e → m.run.run σ = (.error e, σ') → σ' = σ

section failat
variable {α β : Type} {P : Stop → Prop} {Q : Stop → Prop} {σ : St}

theorem FailAt.of_ens {m : M α} (h : Ens Eq Q m) : FailAt P m σ := by
  constructor
  intro e σ' _ hr
  have := (h.run σ).1
  rw [hr] at this
  exact this.symm

/-- a state-preserving prefix; what it returned (in the same state) is known to the continuation -/
theorem FailAt.bind {m : M α} {f : α → M β} (hm : Ens Eq Q m) (hf : ∀ a, m.run.run σ = (.ok a, σ) → FailAt P (f a) σ) :
    FailAt P (m >>= f) σ := by
  constructor
  intro e σ' hP hr
  have h1 := (hm.run σ).1
  rcases h : m.run.run σ with ⟨e1 | a, σ1⟩
  · rw [run_bind_err _ _ _ _ _ h] at hr
    rw [h] at h1
    cases hr
    exact h1.symm
  · rw [run_bind_ok _ _ _ _ _ h] at hr
    rw [h] at h1
    dsimp only at h1
    subst h1
    exact (hf a h).run e σ' hP hr

/-- an effect followed by something that cannot fail with an exception in `P` -/
theorem FailAt.tail {m : M α} {f : α → M β} (hm : FailAt P m σ)
    (hf : ∀ a σ1 e σ', (f a).run.run σ1 = (.error e, σ') → ¬ P e) : FailAt P (m >>= f) σ := by
  constructor
  intro e σ' hP hr
  rcases h : m.run.run σ with ⟨e1 | a, σ1⟩
  · rw [run_bind_err _ _ _ _ _ h] at hr
    cases hr
    exact hm.run _ _ hP h
  · rw [run_bind_ok _ _ _ _ _ h] at hr
    exact absurd hP (hf a σ1 e σ' hr)

theorem FailAt.tail_pure {m : M α} (b : β) (hm : FailAt P m σ) : FailAt P (m >>= fun _ => (pure b : M β)) σ :=
  hm.tail fun _ _ _ _ h => by cases h

theorem FailAt.weaken {P' : Stop → Prop} {m : M α} (h : FailAt P m σ) (hP : ∀ e, P' e → P e) : FailAt P' m σ :=
  ⟨fun e σ' he hr => h.run e σ' (hP e he) hr⟩

/-- the step counter: a statement `tick t; k` that fails leaves `σ` up to the step counter when `k`, started after the
    tick, fails without effect -/
theorem SK.of_tick {k : M α} (t : Tok) (hk : FailAt P k (tickSt σ)) (e : Stop) (σ' : St) (hP : P e)
    (hr : (tick t >>= fun _ => k).run.run σ = (.error e, σ')) : SK σ σ' := by
  by_cases hb : σ.steps + 1 > σ.stepLimit
  · rw [run_bind_err _ _ _ _ _ (run_tick_budget t σ hb)] at hr
    cases hr; exact RPre.refl _
  · rw [run_bind_ok _ _ _ _ _ (run_tick_ok t σ (by omega))] at hr
    exact ⟨_, hk.run e σ' hP hr⟩

/-- `addVar` fails only when there is no activation, and then changes nothing -/
theorem FailAt.addVar (s : Slot) : FailAt P (addVar s) σ := by
  constructor
  intro e σ' _ hr
  unfold Pseudo.addVar modifyCur at hr
  rw [run_bind, run_curAct] at hr
  cases hc : curActP σ with
  | error e' => rw [hc] at hr; cases hr; rfl
  | ok a => rw [hc] at hr; cases hr

theorem FailAt.addArr (s : Slot) : FailAt P (addArr s) σ := by
  constructor
  intro e σ' _ hr
  unfold Pseudo.addArr modifyCur at hr
  rw [run_bind, run_curAct] at hr
  cases hc : curActP σ with
  | error e' => rw [hc] at hr; cases hr; rfl
  | ok a => rw [hc] at hr; cases hr

/-- a failing `writeLoc` changes nothing -/
theorem FailAt.writeLoc (t : Tok) (l : Loc) (v : Val) : FailAt P (writeLoc t l v) σ := by
  constructor
  intro e σ' _ hr
  rw [run_writeLoc] at hr
  unfold writeLocP at hr
  split at hr
  · cases hr; rfl
  · split at hr
    · cases hr; rfl
    · split at hr
      · unfold errAt at hr; cases hr; rfl
      · split at hr
        · cases hr; rfl
        · cases hr

/-- a failing `doFile` changes nothing -/
theorem FailAt.doFile (t : Tok) (op : FOp) : FailAt P (doFile t op) σ := by
  constructor
  intro e σ' _ hr
  rw [run_doFile] at hr
  split at hr
  · cases hr
  · unfold errAt at hr; cases hr; rfl

end failat

macro_rules | `(tactic| ens_lib) => `(tactic| exact (callFree_ens _).expr _ (by first | assumption | with_unfolding_all assumption))
macro_rules | `(tactic| ens_lib) => `(tactic| exact (callFree_ens _).ref _ (by first | assumption | with_unfolding_all assumption))

/-- one step of the search for `FailAt` -/
macro "fne_step" : tactic => `(tactic| first
  | with_reducible exact FailAt.addVar _
  | with_reducible exact FailAt.addArr _
  | with_reducible exact FailAt.writeLoc _ _ _
  | with_reducible exact FailAt.doFile _ _
  | with_reducible exact FailAt.tail_pure _ (FailAt.addVar _)
  | with_reducible exact FailAt.tail_pure _ (FailAt.addArr _)
  | with_reducible exact FailAt.tail_pure _ (FailAt.writeLoc _ _ _)
  | with_reducible exact FailAt.tail_pure _ (FailAt.doFile _ _)
  | (with_reducible apply FailAt.bind (Q := QAny); focus (ens_auto; done))
  | intro _
  | split
  | (with_reducible apply FailAt.of_ens (Q := QAny); focus (ens_auto; done))
  | dsimp only)

macro "fne_auto" : tactic => `(tactic| repeat' fne_step)

end Pseudo
