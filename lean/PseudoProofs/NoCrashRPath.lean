import PseudoProofs.NoCrashR
namespace Pseudo.NR
open Pseudo
variable {σ : St}
open Pseudo.NC (getPath_nil setPath_nil getPath_append)

/-!
# C01 with enum / pointer / record types: paths into nested values

"The type determines the shape": two good values of the same kind have the same readable paths (`paths_agree`), and a store of a value
of the same kind at a readable path of a good value succeeds and keeps everything (`setPath_good`).

Both are proved via one-step versions of `getPath` / `setPath`: `stepVal` (follow one step) and `putStep` (replace what one step
leads to).
-/

/-! ### kinds and `isArr` -/

def Kind.isArr : Kind → Bool
  | .arr _ _ => true
  | .val _ => false

theorem isArr_eq_kind (v : Val) : v.isArr = (kind v).isArr := by cases v <;> rfl

theorem isArr_of_kind {a b : Val} (h : kind a = kind b) : a.isArr = b.isArr := by
  rw [isArr_eq_kind, isArr_eq_kind, h]

theorem kind_comp_inv {v : Val} {n : Str} (h : kind v = .val (.comp n)) : ∃ fs, v = .comp n fs := by
  cases v <;> simp_all [kind, Val.ty]

/-! ### member lookup -/

theorem findField_cons (p : Str × Val) (r : List (Str × Val)) (m : Str) (k : Bool) :
    findField (p :: r) m k = if (p.1 == m && p.2.isArr == k) = true then some p.2 else findField r m k := by
  cases h : (p.1 == m && p.2.isArr == k) <;> simp [findField, h]

theorem findField_mem {fs : List (Str × Val)} {m : Str} {k : Bool} {y : Val} (h : findField fs m k = some y) :
    ∃ x ∈ fs, x.2 = y := by
  unfold findField at h
  obtain ⟨x, hx, rfl⟩ := Option.map_eq_some_iff.1 h
  exact ⟨x, List.mem_of_find?_eq_some hx, rfl⟩

theorem findField_sig {fs fs' : List (Str × Val)} (h : fs'.map sigOf = fs.map sigOf) (m : Str) (k : Bool) :
    (findField fs' m k).map kind = (findField fs m k).map kind := by
  induction fs generalizing fs' with
  | nil =>
    cases fs' with
    | nil => rfl
    | cons _ _ => simp at h
  | cons p r ih =>
    cases fs' with
    | nil => simp at h
    | cons p' r' =>
      simp only [List.map_cons, List.cons.injEq] at h
      obtain ⟨hp, hr⟩ := h
      have hp' : (p'.1, kind p'.2) = (p.1, kind p.2) := hp
      have h1 : p'.1 = p.1 := (Prod.mk.inj hp').1
      have h2 : kind p'.2 = kind p.2 := (Prod.mk.inj hp').2
      rw [findField_cons, findField_cons, h1, isArr_of_kind h2]
      split
      · simp only [Option.map_some, h2]
      · exact ih hr

/-- field lists with the same names and kinds answer member lookups alike -/
theorem memberKind_sig {fs fs' : List (Str × Val)} (h : fs'.map sigOf = fs.map sigOf) (m : Str) :
    memberKind fs' m = memberKind fs m := by
  have hs : ∀ k, (findField fs' m k).isSome = (findField fs m k).isSome := fun k => by
    have := congrArg Option.isSome (findField_sig h m k)
    simpa using this
  unfold memberKind
  rw [hs false, hs true]

/-! ### `setField` -/

theorem setField_cons (p : Str × Val) (r : List (Str × Val)) (m : Str) (k : Bool) (y : Val) :
    setField (p :: r) m k y = if (p.1 == m && p.2.isArr == k) = true then (p.1, y) :: r else p :: setField r m k y := rfl

theorem setField_sig {fs : List (Str × Val)} {m : Str} {k : Bool} {x y : Val} (hf : findField fs m k = some x)
    (hk : kind y = kind x) : (setField fs m k y).map sigOf = fs.map sigOf := by
  induction fs with
  | nil => rfl
  | cons p r ih =>
    rw [findField_cons] at hf
    rw [setField_cons]
    split
    · rename_i hc
      rw [if_pos hc] at hf
      cases hf
      simp only [List.map_cons, sigOf, hk]
    · rename_i hc
      rw [if_neg hc] at hf
      simp only [List.map_cons, ih hf]

theorem findField_setField_self {fs : List (Str × Val)} {m : Str} {k : Bool} {x y : Val} (hf : findField fs m k = some x)
    (hi : y.isArr = x.isArr) : findField (setField fs m k y) m k = some y := by
  induction fs with
  | nil => cases hf
  | cons p r ih =>
    rw [findField_cons] at hf
    rw [setField_cons]
    split
    · rename_i hc
      rw [if_pos hc] at hf
      cases hf
      rw [findField_cons]
      dsimp only
      rw [hi, if_pos hc]
    · rename_i hc
      rw [if_neg hc] at hf
      rw [findField_cons, if_neg hc]
      exact ih hf

theorem findField_setField_ne {fs : List (Str × Val)} {m m' : Str} {k k' : Bool} {y : Val} (hne : m' ≠ m) :
    findField (setField fs m k y) m' k' = findField fs m' k' := by
  induction fs with
  | nil => rfl
  | cons p r ih =>
    rw [setField_cons]
    split
    · rename_i hc
      have hpm : p.1 = m := by
        simp only [Bool.and_eq_true, beq_iff_eq] at hc
        exact hc.1
      have hf : (p.1 == m') = false := by
        rw [hpm]; exact beq_false_of_ne (Ne.symm hne)
      rw [findField_cons, findField_cons]
      dsimp only
      rw [hf]
      simp only [Bool.false_and, Bool.false_eq_true, if_false]
    · rw [findField_cons, findField_cons, ih]

/-! ### one step of a path -/

/-- follow one step -/
def stepVal : Val → Step → Option Val
  | .comp _ fs, .field m =>
    match memberKind fs m with
    | some k => findField fs m k
    | none => none
  | .arr _ _ cells, .idx i => cells[i]?
  | _, _ => none

/-- replace what one step leads to -/
def putStep : Val → Step → Val → Option Val
  | .comp n fs, .field m, y =>
    match memberKind fs m with
    | some k => some (.comp n (setField fs m k y))
    | none => none
  | .arr e d cells, .idx i, y => some (.arr e d (cells.set i y))
  | _, _, _ => none

theorem getPath_cons (v : Val) (st : Step) (q : List Step) :
    getPath v (st :: q) = match stepVal v st with | some x => getPath x q | none => none := by
  cases v <;> cases st <;> rw [getPath.eq_def] <;> try rfl
  · rename_i n fs m
    show (match memberKind fs m with
          | some k => (match findField fs m k with | some v => getPath v q | none => none)
          | none => none) = _
    simp only [stepVal]
    cases memberKind fs m with
    | none => rfl
    | some k => rfl

theorem getPath_cons_some {v w : Val} {st : Step} {q : List Step} :
    getPath v (st :: q) = some w ↔ ∃ x, stepVal v st = some x ∧ getPath x q = some w := by
  rw [getPath_cons]
  cases stepVal v st with
  | none => simp
  | some x => simp

theorem setPath_cons (v : Val) (st : Step) (q : List Step) (nv : Val) :
    setPath v (st :: q) nv = match stepVal v st with
      | some x => (match setPath x q nv with | some x' => putStep v st x' | none => none)
      | none => none := by
  cases v <;> cases st <;> rw [setPath.eq_def] <;> try rfl
  · rename_i n fs m
    show (match memberKind fs m with
          | some k => (match findField fs m k with
            | some v => (match setPath v q nv with | some v' => some (Val.comp n (setField fs m k v')) | none => none)
            | none => none)
          | none => none) = _
    simp only [stepVal, putStep]
    cases hm : memberKind fs m with
    | none => rfl
    | some k => rfl

/-! ### good values -/

/-- a sub-value of a good value is good -/
theorem Good.sub {v w : Val} {p : List Step} (h : Good σ v) (hp : getPath v p = some w) : Good σ w := fun q u hq =>
  h (p ++ q) u (by rw [getPath_append q hp]; exact hq)

theorem Good.root {v : Val} (h : Good σ v) : Local σ v := h [] v (getPath_nil v)

theorem Good.step {v y : Val} {st : Step} (h : Good σ v) (hy : stepVal v st = some y) : Good σ y :=
  h.sub (p := [st]) (getPath_cons_some.2 ⟨y, hy, getPath_nil y⟩)

theorem good_of_steps {v : Val} (hl : Local σ v) (hs : ∀ st y, stepVal v st = some y → Good σ y) : Good σ v := by
  intro p w hp
  cases p with
  | nil => rw [getPath_nil] at hp; cases hp; exact hl
  | cons st q =>
    obtain ⟨x, hx, hq⟩ := getPath_cons_some.1 hp
    exact hs st x hx q w hq

/-- good values from good parts -/
theorem good_of_scalar {v : Val} (hv : match v with | .comp _ _ => False | .arr _ _ _ => False | _ => True)
    (hl : Local σ v) : Good σ v := by
  refine good_of_steps hl ?_
  intro st y h
  cases v <;> first | exact hv.elim | (simp [stepVal] at h)

theorem good_comp {n : Str} {fs : List (Str × Val)} (hl : Local σ (.comp n fs)) (hf : ∀ x ∈ fs, Good σ x.2) :
    Good σ (.comp n fs) := by
  refine good_of_steps hl ?_
  intro st y h
  cases st with
  | idx i => simp [stepVal] at h
  | field m =>
    simp only [stepVal] at h
    cases hm : memberKind fs m with
    | none => rw [hm] at h; cases h
    | some k =>
      rw [hm] at h
      obtain ⟨x, hx, rfl⟩ := findField_mem h
      exact hf x hx

theorem good_arr {e : Ty} {d : List (Int × Int)} {cells : List Val} (hl : Local σ (.arr e d cells))
    (hc : ∀ c ∈ cells, Good σ c) : Good σ (.arr e d cells) := by
  refine good_of_steps hl ?_
  intro st y h
  cases st with
  | field m => simp [stepVal] at h
  | idx i =>
    simp only [stepVal] at h
    exact hc y (List.mem_of_getElem? h)

/-! ### the type determines the shape -/

theorem step_agree {v v' x : Val} {st : Step} (hl : Local σ v) (hl' : Local σ v') (hk : kind v' = kind v)
    (hx : stepVal v st = some x) : ∃ x', stepVal v' st = some x' ∧ kind x' = kind x := by
  cases v with
  | comp n fs =>
    obtain ⟨fs', rfl⟩ := kind_comp_inv (hk.trans rfl)
    obtain ⟨body, hb, hs, _⟩ := hl
    obtain ⟨body', hb', hs', _⟩ := hl'
    rw [hb] at hb'; cases hb'
    have hsig : fs'.map sigOf = fs.map sigOf := hs'.trans hs.symm
    cases st with
    | idx i => simp [stepVal] at hx
    | field m =>
      simp only [stepVal] at hx ⊢
      rw [memberKind_sig hsig m]
      cases hm : memberKind fs m with
      | none => rw [hm] at hx; cases hx
      | some k =>
        rw [hm] at hx
        dsimp only at hx ⊢
        have := findField_sig hsig m k
        rw [hx] at this
        cases hf : findField fs' m k with
        | none => rw [hf] at this; cases this
        | some x' =>
          rw [hf] at this
          exact ⟨x', rfl, by simpa using this⟩
  | arr e d cells =>
    obtain ⟨cells', rfl⟩ := kind_arr_inv (hk.trans rfl)
    cases st with
    | field m => simp [stepVal] at hx
    | idx i =>
      simp only [stepVal] at hx ⊢
      obtain ⟨hi, _⟩ := List.getElem?_eq_some_iff.1 hx
      have hi' : i < cells'.length := by rw [hl'.1, ← hl.1]; exact hi
      refine ⟨cells'[i], List.getElem?_eq_getElem hi', ?_⟩
      rw [hl'.2 _ (List.getElem_mem hi'), hl.2 x (List.mem_of_getElem? hx)]
  | _ => simp [stepVal] at hx

/-- **the type determines the shape**: two good values of the same kind have the same readable paths, with the same kinds -/
theorem paths_agree : ∀ (p : List Step) {v v' : Val}, Good σ v → Good σ v' → kind v' = kind v →
    ∀ w, getPath v p = some w → ∃ w', getPath v' p = some w' ∧ kind w' = kind w
  | [], v, v', _, _, hk, w, hp => by
    rw [getPath_nil] at hp; cases hp
    exact ⟨v', getPath_nil v', hk⟩
  | st :: q, v, v', hg, hg', hk, w, hp => by
    obtain ⟨x, hx, hq⟩ := getPath_cons_some.1 hp
    obtain ⟨x', hx', hkx⟩ := step_agree hg.root hg'.root hk hx
    obtain ⟨w', hw', hkw⟩ := paths_agree q (hg.step hx) (hg'.step hx') hkx w hq
    exact ⟨w', getPath_cons_some.2 ⟨x', hx', hw'⟩, hkw⟩

/-! ### stores -/

/-- replacing what one step leads to by a value of the same kind -/
theorem putStep_good {v x y : Val} {st : Step} (hg : Good σ v) (hx : stepVal v st = some x) (hk : kind y = kind x) :
    ∃ nv, putStep v st y = some nv ∧ kind nv = kind v ∧ Local σ nv ∧ stepVal nv st = some y ∧
      ∀ st', st' ≠ st → stepVal nv st' = stepVal v st' := by
  cases v with
  | comp n fs =>
    cases st with
    | idx i => simp [stepVal] at hx
    | field m =>
      simp only [stepVal] at hx
      cases hm : memberKind fs m with
      | none => rw [hm] at hx; cases hx
      | some k =>
        rw [hm] at hx
        dsimp only at hx
        have hsig := setField_sig hx hk
        obtain ⟨body, hb, hs, hd⟩ := hg.root
        refine ⟨.comp n (setField fs m k y), by simp only [putStep, hm], rfl, ⟨body, hb, hsig.trans hs, hd⟩, ?_, ?_⟩
        · simp only [stepVal]
          rw [memberKind_sig hsig m, hm]
          exact findField_setField_self hx (isArr_of_kind hk)
        · intro st' hne
          cases st' with
          | idx j => rfl
          | field m' =>
            have hmm : m' ≠ m := fun e => hne (by rw [e])
            simp only [stepVal]
            rw [memberKind_sig hsig m']
            cases memberKind fs m' with
            | none => rfl
            | some k' => exact findField_setField_ne hmm
  | arr e d cells =>
    cases st with
    | field m => simp [stepVal] at hx
    | idx i =>
      simp only [stepVal] at hx
      obtain ⟨hi, _⟩ := List.getElem?_eq_some_iff.1 hx
      have hl := hg.root
      have hkx : kind x = .val e := hl.2 x (List.mem_of_getElem? hx)
      refine ⟨.arr e d (cells.set i y), rfl, rfl, ⟨by rw [List.length_set]; exact hl.1, ?_⟩, ?_, ?_⟩
      · intro c hc
        rcases List.mem_or_eq_of_mem_set hc with hc | rfl
        · exact hl.2 c hc
        · exact hk.trans hkx
      · simp only [stepVal]
        exact List.getElem?_set_self hi
      · intro st' hne
        cases st' with
        | field m => rfl
        | idx j =>
          have hij : i ≠ j := fun e => hne (by rw [e])
          simp only [stepVal]
          exact List.getElem?_set_ne hij
  | _ => simp [stepVal] at hx

/-- **a store of the same kind at a readable path of a good value**: it succeeds, the root keeps its kind and stays good, every
    readable path stays readable with its kind -/
theorem setPath_good : ∀ (p : List Step) {x old v : Val}, Good σ x → getPath x p = some old → kind v = kind old → Good σ v →
    ∃ nv, setPath x p v = some nv ∧ kind nv = kind x ∧ Good σ nv ∧
      ∀ p' w, getPath x p' = some w → ∃ w', getPath nv p' = some w' ∧ kind w' = kind w
  | [], x, old, v, hg, hp, hk, hv => by
    rw [getPath_nil] at hp; cases hp
    exact ⟨v, setPath_nil x v, hk, hv, fun p' w hw => paths_agree p' hg hv hk w hw⟩
  | st :: q, x, old, v, hg, hp, hk, hv => by
    obtain ⟨xm, hxm, hq⟩ := getPath_cons_some.1 hp
    obtain ⟨nxm, hset, hkn, hgn, hpaths⟩ := setPath_good q (hg.step hxm) hq hk hv
    obtain ⟨nv, hput, hknv, hlnv, hself, hother⟩ := putStep_good hg hxm hkn
    refine ⟨nv, ?_, hknv, ?_, ?_⟩
    · rw [setPath_cons, hxm]
      dsimp only
      rw [hset]
      exact hput
    · refine good_of_steps hlnv ?_
      intro st' y hy
      by_cases hst : st' = st
      · subst hst
        rw [hself] at hy; cases hy
        exact hgn
      · rw [hother st' hst] at hy
        exact hg.step hy
    · intro p' w hw
      cases p' with
      | nil =>
        rw [getPath_nil] at hw; cases hw
        exact ⟨nv, getPath_nil nv, hknv⟩
      | cons st' q' =>
        obtain ⟨y, hy, hyq⟩ := getPath_cons_some.1 hw
        by_cases hst : st' = st
        · subst hst
          rw [hxm] at hy; cases hy
          obtain ⟨w', hw', hkw⟩ := hpaths q' w hyq
          exact ⟨w', getPath_cons_some.2 ⟨nxm, hself, hw'⟩, hkw⟩
        · exact ⟨w, getPath_cons_some.2 ⟨y, by rw [hother st' hst]; exact hy, hyq⟩, rfl⟩

#print axioms paths_agree
#print axioms setPath_good

end Pseudo.NR
