import PseudoProofs.TypedInvSteps
/-!
# Typed store: the statements, and the induction over all 25 functions of the evaluator

`all : ∀ fuel, AllW fuel` — every function of the mutual block preserves `Inv` (however it ends), only extends the
state (`Ext`), and returns what the others rely on (`resolveRef`: a holder whose type is the declared type of the
root-level slot it points to; `defaultVal`: a value of the requested type; `bindParams`: typed slots).
-/
namespace Pseudo
namespace TypedInv
open C05
variable {f : Nat}

set_option linter.unusedVariables false

set_option maxHeartbeats 400000 in
theorem wstmt_readFile (ih : AllW f) (t : Tok) (fn : Expr) (id : Tok) (σ : St) (hi : Inv σ) :
    EnsAt σ (execStmt (f+1) (.readFile t fn id)) T := by
  wt_stmt
  all_goals wt_store

theorem lookupVar_err {n : Str} {σ : St} {e : Stop} (h : ((lookupVar n).run.run σ).1 = .error e) :
    e = .crash .noActivation := by
  cases hacts : σ.acts with
  | nil =>
    unfold lookupVar at h
    have h1 : curAct.run.run σ = (.error (.crash .noActivation), σ) := by rw [run_curAct, hacts]
    rw [run_bind_err _ _ _ _ _ h1] at h
    injection h with h
    exact h.symm
  | cons cur rest =>
    obtain ⟨g, _, hrun⟩ := run_lookupVar n σ cur rest hacts
    rw [hrun] at h
    cases h

theorem ens_resolveVar (fuel : Nat) (vt : Tok) : Ens SameSt QT (resolveRef fuel (.var vt)) := by
  cases fuel with
  | zero => rw [resolveRef.eq_def]; dsimp only; ens_auto
  | succ f => rw [resolveRef.eq_def]; dsimp only; ens_auto

/-- `resolveRef` of a plain name raises a diagnostic only when `lookupVar` finds nothing -/
theorem resolveVar_diag {fuel : Nat} {vt : Tok} {σ : St} {d : Diag}
    (h : ((resolveRef fuel (.var vt)).run.run σ).1 = .error (.diag d)) :
    ((lookupVar vt.val).run.run σ).1 = .ok none := by
  cases fuel with
  | zero => rw [resolveRef.eq_def] at h; cases h
  | succ f =>
    rw [resolveRef.eq_def] at h
    dsimp only at h
    rcases hl : (lookupVar vt.val).run.run σ with ⟨e | r, σ'⟩
    · rw [run_bind_err _ _ _ _ _ hl] at h
      have := lookupVar_err (by rw [hl])
      subst this
      cases h
    · rw [run_bind_ok _ _ _ _ _ hl] at h
      cases r with
      | none => rfl
      | some p =>
        obtain ⟨a, s⟩ := p
        dsimp only at h
        split at h <;> cases h

theorem target_ro (fuel : Nat) (vt : Tok) (hd : Stop → M (Option Holder)) (hro : ∀ e, Ens SameSt QT (hd e)) :
    RO (catchNotDefined (resolveRef fuel (.var vt) >>= fun h => pure (some h)) hd) :=
  RO.of_ens (Ens.l_catchNotDefined (Ens.bind (ens_resolveVar fuel vt) fun _ => Ens.pure _) fun e _ => hro e)

/-- the target of INPUT / an assignment is a plain name and resolving it gave "to be created": `lookupVar` finds nothing -/
theorem target_var_none {fuel : Nat} {vt : Tok} {hd : Stop → M (Option Holder)} {σ : St}
    (h : ((catchNotDefined (resolveRef fuel (.var vt) >>= fun h => pure (some h)) hd).run.run σ).1 = .ok none) :
    ((lookupVar vt.val).run.run σ).1 = .ok none := by
  unfold catchNotDefined at h
  rw [run_tryCatch] at h
  rcases hr : (resolveRef fuel (.var vt)).run.run σ with ⟨e | h', σ'⟩
  · rw [run_bind_err _ _ _ _ _ hr] at h
    dsimp only at h
    cases e with
    | diag d => exact resolveVar_diag (by rw [hr])
    | _ => cases h
  · rw [run_bind_ok _ _ _ _ _ hr] at h
    cases h

set_option maxHeartbeats 400000 in
theorem wstmt_input (ih : AllW f) (t : Tok) (r : Ref) (σ : St) (hi : Inv σ) :
    EnsAt σ (execStmt (f+1) (.input t r)) T := by
  rw [execStmt.eq_def]; dsimp only
  refine EnsAt.bind_triv (by wt_leaf) fun _ σ0 h0 _ => ?_
  cases r with
  | var vt =>
    dsimp only
    have hro : ∀ e : Stop, Ens SameSt QT (do
        if ← isIdentifierType vt then throw e
        else if (← get).pedantic then pedErr vt .pedInput
        else pure none : M (Option Holder)) := fun e => by have : QT e := trivial; ens_auto
    refine EnsAt.bind_ro (target_ro f vt _ hro) h0 fun o ho => ?_
    have htp : TargetPost o σ0 := by
      have hT := EnsAt.target (ih.resolveRef (.var vt) σ0 h0) (hd := fun e => (do
        if ← isIdentifierType vt then throw e
        else if (← get).pedantic then pedErr vt .pedInput
        else pure none : M (Option Holder))) (fun e σ1 h1 _ => by wt_auto)
      have := hT.post o ho
      rwa [target_ro f vt _ hro σ0] at this
    cases o with
    | none =>
      have hl := target_var_none ho
      dsimp only
      wt_auto
      all_goals wt_store
    | some h =>
      dsimp only
      wt_auto
      all_goals wt_store
  | _ =>
    wt_auto
    all_goals wt_store

theorem wstmt_expr (ih : AllW f) : ∀ e σ, Inv σ → EnsAt σ (execStmt (f+1) (.expr e)) T := by
  intro e σ hi; wt_stmt

theorem wstmt_declare (ih : AllW f) : ∀ t ids ty σ, Inv σ → EnsAt σ (execStmt (f+1) (.declare t ids ty)) T := by
  intro t ids ty σ hi; wt_stmt

theorem wstmt_declareArr (ih : AllW f) : ∀ t ids ty bounds σ, Inv σ → EnsAt σ (execStmt (f+1) (.declareArr t ids ty bounds)) T := by
  intro t ids ty bounds σ hi; wt_stmt

theorem wstmt_const (ih : AllW f) : ∀ t name e σ, Inv σ → EnsAt σ (execStmt (f+1) (.const t name e)) T := by
  intro t name e σ hi; wt_stmt

theorem wstmt_typeEnum (ih : AllW f) : ∀ t name vals σ, Inv σ → EnsAt σ (execStmt (f+1) (.typeEnum t name vals)) T := by
  intro t name vals σ hi; wt_stmt

theorem wstmt_typePtr (ih : AllW f) : ∀ t name target σ, Inv σ → EnsAt σ (execStmt (f+1) (.typePtr t name target)) T := by
  intro t name target σ hi; wt_stmt

theorem wstmt_typeRec (ih : AllW f) : ∀ t name body σ, Inv σ → EnsAt σ (execStmt (f+1) (.typeRec t name body)) T := by
  intro t name body σ hi; wt_stmt

theorem wstmt_ifs (ih : AllW f) : ∀ t branches els σ, Inv σ → EnsAt σ (execStmt (f+1) (.ifs t branches els)) T := by
  intro t branches els σ hi; wt_stmt

theorem wstmt_case (ih : AllW f) : ∀ t sel clauses σ, Inv σ → EnsAt σ (execStmt (f+1) (.case t sel clauses)) T := by
  intro t sel clauses σ hi; wt_stmt

theorem wstmt_while (ih : AllW f) : ∀ t c b σ, Inv σ → EnsAt σ (execStmt (f+1) (.while t c b)) T := by
  intro t c b σ hi; wt_stmt

theorem wstmt_repeat (ih : AllW f) : ∀ t b c σ, Inv σ → EnsAt σ (execStmt (f+1) (.repeat t b c)) T := by
  intro t b c σ hi; wt_stmt

theorem wstmt_call (ih : AllW f) : ∀ t name args σ, Inv σ → EnsAt σ (execStmt (f+1) (.call t name args)) T := by
  intro t name args σ hi; wt_stmt

theorem wstmt_ret (ih : AllW f) : ∀ t e σ, Inv σ → EnsAt σ (execStmt (f+1) (.ret t e)) T := by
  intro t e σ hi; wt_stmt

theorem wstmt_brk (ih : AllW f) : ∀ t σ, Inv σ → EnsAt σ (execStmt (f+1) (.brk t)) T := by
  intro t σ hi; wt_stmt

theorem wstmt_cont (ih : AllW f) : ∀ t σ, Inv σ → EnsAt σ (execStmt (f+1) (.cont t)) T := by
  intro t σ hi; wt_stmt

theorem wstmt_output (ih : AllW f) : ∀ t es σ, Inv σ → EnsAt σ (execStmt (f+1) (.output t es)) T := by
  intro t es σ hi; wt_stmt

theorem wstmt_openFile (ih : AllW f) : ∀ t fn mode σ, Inv σ → EnsAt σ (execStmt (f+1) (.openFile t fn mode)) T := by
  intro t fn mode σ hi; wt_stmt

theorem wstmt_writeFile (ih : AllW f) : ∀ t fn e σ, Inv σ → EnsAt σ (execStmt (f+1) (.writeFile t fn e)) T := by
  intro t fn e σ hi; wt_stmt

theorem wstmt_closeFile (ih : AllW f) : ∀ t fn σ, Inv σ → EnsAt σ (execStmt (f+1) (.closeFile t fn)) T := by
  intro t fn σ hi; wt_stmt

theorem wstmt_seek (ih : AllW f) : ∀ t fn addr σ, Inv σ → EnsAt σ (execStmt (f+1) (.seek t fn addr)) T := by
  intro t fn addr σ hi; wt_stmt

theorem wstmt_putRecord (ih : AllW f) : ∀ t fn id σ, Inv σ → EnsAt σ (execStmt (f+1) (.putRecord t fn id)) T := by
  intro t fn id σ hi; wt_stmt

theorem wstmt_procDef (ih : AllW f) : ∀ t name params body σ, Inv σ → EnsAt σ (execStmt (f+1) (.procDef t name params body)) T := by
  intro t name params body σ hi; wt_stmt

theorem wstmt_funDef (ih : AllW f) : ∀ t name params ret body σ, Inv σ → EnsAt σ (execStmt (f+1) (.funDef t name params ret body)) T := by
  intro t name params ret body σ hi; wt_stmt

theorem wstep_execStmt (ih : AllW f) : ∀ s σ, Inv σ → EnsAt σ (execStmt (f+1) s) T := by
  intro s σ hi
  cases s with
  | expr e => exact wstmt_expr ih _ σ hi
  | declare t ids ty => exact wstmt_declare ih _ _ _ σ hi
  | declareArr t ids ty bounds => exact wstmt_declareArr ih _ _ _ _ σ hi
  | const t name e => exact wstmt_const ih _ _ _ σ hi
  | typeEnum t name vals => exact wstmt_typeEnum ih _ _ _ σ hi
  | typePtr t name target => exact wstmt_typePtr ih _ _ _ σ hi
  | typeRec t name body => exact wstmt_typeRec ih _ _ _ σ hi
  | ifs t branches els => exact wstmt_ifs ih _ _ _ σ hi
  | case t sel clauses => exact wstmt_case ih _ _ _ σ hi
  | «while» t c b => exact wstmt_while ih _ _ _ σ hi
  | «repeat» t b c => exact wstmt_repeat ih _ _ _ σ hi
  | call t name args => exact wstmt_call ih _ _ _ σ hi
  | ret t e => exact wstmt_ret ih _ _ σ hi
  | brk t => exact wstmt_brk ih _ σ hi
  | cont t => exact wstmt_cont ih _ σ hi
  | output t es => exact wstmt_output ih _ _ σ hi
  | openFile t fn mode => exact wstmt_openFile ih _ _ _ σ hi
  | writeFile t fn e => exact wstmt_writeFile ih _ _ _ σ hi
  | closeFile t fn => exact wstmt_closeFile ih _ _ σ hi
  | seek t fn addr => exact wstmt_seek ih _ _ _ σ hi
  | putRecord t fn id => exact wstmt_putRecord ih _ _ _ σ hi
  | procDef t name params body => exact wstmt_procDef ih _ _ _ _ σ hi
  | funDef t name params ret body => exact wstmt_funDef ih _ _ _ _ _ σ hi
  | «for» t it start stop step b => exact wstmt_for ih t it start stop step b σ hi
  | input t r => exact wstmt_input ih t r σ hi
  | readFile t fn id => exact wstmt_readFile ih t fn id σ hi
  | getRecord t fn id => exact wstmt_getRecord ih t fn id σ hi

theorem AllW.succ (ih : AllW f) : AllW (f + 1) where
  defaultVal := wstep_defaultVal ih
  defaultCells := wstep_defaultCells ih
  evalArgs := wstep_evalArgs ih
  evalIndices := wstep_evalIndices ih
  resolveRef := wstep_resolveRef ih
  callFun := wstep_callFun ih
  bindParams := wstep_bindParams ih
  evalExpr := wstep_evalExpr ih
  execAssign := wstep_execAssign ih
  runBlock := wstep_runBlock ih
  ifChain := wstep_ifChain ih
  caseMatch := wstep_caseMatch ih
  caseClauses := wstep_caseClauses ih
  loopBody := wstep_loopBody ih
  whileLoop := wstep_whileLoop ih
  repeatLoop := wstep_repeatLoop ih
  forLoop := wstep_forLoop ih
  callProc := wstep_callProc ih
  resolveParams := wstep_resolveParams ih
  evalBounds := wstep_evalBounds ih
  declareVars := wstep_declareVars ih
  declareArrs := wstep_declareArrs ih
  outputAll := wstep_outputAll ih
  fileName := wstep_fileName ih
  execStmt := wstep_execStmt ih

/-- **all 25 functions of the evaluator preserve the typed-store invariant**, at every fuel -/
theorem all : ∀ fuel, AllW fuel
  | 0 => AllW.zero
  | f + 1 => (all f).succ

end TypedInv
end Pseudo
