import PseudoProofs.AtomicLemmas
/-!
# C12 (atomic entries): the single statements

For each atomic statement kind: the part of `execStmt` after the `tick` fails without any effect (`FailAt`), under the
syntactic side conditions (call-free expressions). Unfolding equations first, then one lemma per statement.
-/
namespace Pseudo
open FileStmt

/-! ### unfolding equations -/

theorem execStmt_expr (f : Nat) (e : Expr) : execStmt (f+1) (.expr e) = (do tick e.tok; evalExpr f e) := by
  rw [execStmt.eq_def]

theorem evalExpr_assign (f : Nat) (t : Tok) (r : Ref) (rhs : Expr) :
    evalExpr (f+1) (.assign t r rhs) = (do execAssign f t r rhs; pure .none) := by
  rw [evalExpr.eq_def]

theorem execStmt_const (f : Nat) (t name : Tok) (e : Expr) :
    execStmt (f+1) (.const t name e) = (do
      tick t
      let v ← evalExpr f e
      let a ← curAct
      if (findSlot a.vars name.val).isSome then rtErr t .redeclared
      else
        addVar { name := name.val, ty := v.ty, isConst := true, val := v }
        pure .none) := by
  rw [execStmt.eq_def]

theorem execStmt_declare (f : Nat) (t : Tok) (ids : List Tok) (ty : Tok) :
    execStmt (f+1) (.declare t ids ty) = (do tick t; declareVars f t ids ty; pure .none) := by
  rw [execStmt.eq_def]

theorem execStmt_declareArr (f : Nat) (t : Tok) (ids : List Tok) (ty : Tok) (bounds : List (Expr × Expr)) :
    execStmt (f+1) (.declareArr t ids ty bounds) = (do
      tick t
      let a ← curAct
      if ids.any (fun id => (findSlot a.arrs id.val).isSome) then rtErr t .redeclared
      else
        let dims ← evalBounds f bounds []
        declareArrs f t ids ty dims
        pure .none) := by
  rw [execStmt.eq_def]

section
variable {P : Stop → Prop} {Q : Stop → Prop} {σ : St}

/-! ### assignment -/

theorem failAt_execAssign (f : Nat) (t : Tok) (r : Ref) (rhs : Expr) (hr : r.callFree = true) (hrhs : rhs.callFree = true) :
    FailAt P (execAssign f t r rhs) σ := by
  cases f with
  | zero => rw [execAssign.eq_def]; dsimp only; fne_auto
  | succ f => rw [execAssign.eq_def]; dsimp only; fne_auto

/-- the statement `r <- rhs` after its tick -/
theorem failAt_assign (f : Nat) (t : Tok) (r : Ref) (rhs : Expr) (hr : r.callFree = true) (hrhs : rhs.callFree = true) :
    FailAt P (evalExpr f (.assign t r rhs)) σ := by
  cases f with
  | zero => rw [evalExpr.eq_def]; dsimp only; fne_auto
  | succ f => rw [evalExpr_assign]; exact FailAt.tail_pure _ (failAt_execAssign f t r rhs hr hrhs)

/-! ### CONSTANT -/

theorem failAt_const (f : Nat) (t name : Tok) (e : Expr) (he : e.callFree = true) :
    FailAt P (do
      let v ← evalExpr f e
      let a ← curAct
      if (findSlot a.vars name.val).isSome then rtErr t .redeclared
      else
        addVar { name := name.val, ty := v.ty, isConst := true, val := v }
        pure Val.none) σ := by
  fne_auto


/-! ### DECLARE -/

/-- a type that is not a record type has its default value without running anything -/
theorem ens_defaultVal_noncomp {R : St → St → Prop} [RPre R] [QBase Q] (f : Nat) (t : Tok) (ty : Ty) (h : ∀ n, ty ≠ .comp n) :
    Ens R Q (defaultVal f t ty) := by
  cases f with
  | zero => rw [defaultVal.eq_def]; dsimp only; ens_auto
  | succ f =>
    rw [defaultVal.eq_def]; dsimp only
    split
    · exact absurd rfl (h _)
    · ens_auto

theorem ens_defaultCells_noncomp {R : St → St → Prop} [RPre R] [QBase Q] (t : Tok) (ty : Ty) (h : ∀ n, ty ≠ .comp n) :
    ∀ (f n : Nat) (acc : List Val), Ens R Q (defaultCells f t ty n acc)
  | 0, _, _ => by rw [defaultCells.eq_def]; dsimp only; ens_auto
  | f + 1, 0, _ => by rw [defaultCells.eq_def]; dsimp only; ens_auto
  | f + 1, n + 1, acc => by
    rw [defaultCells.eq_def]; dsimp only
    exact Ens.bind (ens_defaultVal_noncomp f t ty h) fun v => ens_defaultCells_noncomp t ty h f n (v :: acc)

theorem declareVars_nil_err (f : Nat) (t ty : Tok) (σ1 : St) (e : Stop) (σ' : St)
    (h : (declareVars f t [] ty).run.run σ1 = (.error e, σ')) : ¬ Soft e := by
  cases f with
  | zero => rw [declareVars.eq_def] at h; cases h; exact id
  | succ f => rw [declareVars.eq_def] at h; cases h

theorem declareArrs_nil_err (f : Nat) (t ty : Tok) (dims : List (Int × Int)) (σ1 : St) (e : Stop) (σ' : St)
    (h : (declareArrs f t [] ty dims).run.run σ1 = (.error e, σ')) : ¬ Soft e := by
  cases f with
  | zero => rw [declareArrs.eq_def] at h; cases h; exact id
  | succ f => rw [declareArrs.eq_def] at h; cases h

theorem failAt_declareVars (f : Nat) (t id tyTok : Tok) (hty : ∀ n, ((getType tyTok).run.run σ).1 ≠ .ok (.comp n)) :
    FailAt Soft (declareVars f t [id] tyTok) σ := by
  cases f with
  | zero => rw [declareVars.eq_def]; dsimp only; fne_auto
  | succ f =>
    rw [declareVars.eq_def]; dsimp only
    fne_auto
    rename_i ty hg _
    have hnc : ∀ n, ty ≠ .comp n := by
      intro n hn
      apply hty n
      rw [hg, hn]
    refine FailAt.bind (Q := QAny) (ens_defaultVal_noncomp f t ty hnc) fun v _ => ?_
    exact FailAt.tail (FailAt.addVar _) fun _ σ1 e σ' h => declareVars_nil_err f t tyTok σ1 e σ' h

/-- call-free bound expressions -/
def boundsCallFree : List (Expr × Expr) → Bool
  | [] => true
  | (lo, hi) :: rest => lo.callFree && hi.callFree && boundsCallFree rest

theorem ens_evalBounds {R : St → St → Prop} [RPre R] [QBase Q] :
    ∀ (f : Nat) (bs : List (Expr × Expr)) (acc : List (Int × Int)), boundsCallFree bs = true → Ens R Q (evalBounds f bs acc)
  | 0, _, _, _ => by rw [evalBounds.eq_def]; dsimp only; ens_auto
  | f + 1, [], _, _ => by rw [evalBounds.eq_def]; dsimp only; ens_auto
  | f + 1, (lo, hi) :: rest, acc, h => by
    have ⟨⟨hlo, hhi⟩, hrest⟩ : (lo.callFree = true ∧ hi.callFree = true) ∧ boundsCallFree rest = true := by
      simpa [boundsCallFree] using h
    have ih : ∀ acc, Ens R Q (evalBounds f rest acc) := fun acc => ens_evalBounds f rest acc hrest
    rw [evalBounds.eq_def]; dsimp only
    ens_auto
    all_goals exact ih _

theorem failAt_declareArrs (f : Nat) (t id tyTok : Tok) (dims : List (Int × Int))
    (hty : ∀ n, ((getType tyTok).run.run σ).1 ≠ .ok (.comp n)) :
    FailAt Soft (declareArrs f t [id] tyTok dims) σ := by
  cases f with
  | zero => rw [declareArrs.eq_def]; dsimp only; fne_auto
  | succ f =>
    rw [declareArrs.eq_def]; dsimp only
    fne_auto
    rename_i ty hg _ _
    have hnc : ∀ n, ty ≠ .comp n := by
      intro n hn
      apply hty n
      rw [hg, hn]
    refine FailAt.bind (Q := QAny) (ens_defaultCells_noncomp t ty hnc f _ _) fun v _ => ?_
    exact FailAt.tail (FailAt.addArr _) fun _ σ1 e σ' h => declareArrs_nil_err f t tyTok dims σ1 e σ' h

/-- `DECLARE id : ARRAY[bounds] OF ty` after its tick -/
theorem failAt_declareArr (f : Nat) (t id tyTok : Tok) (bounds : List (Expr × Expr)) (hb : boundsCallFree bounds = true)
    (hty : ∀ n, ((getType tyTok).run.run σ).1 ≠ .ok (.comp n)) :
    FailAt Soft (do
      let a ← curAct
      if [id].any (fun id => (findSlot a.arrs id.val).isSome) then rtErr t .redeclared
      else
        let dims ← evalBounds f bounds []
        declareArrs f t [id] tyTok dims
        pure Val.none) σ := by
  refine FailAt.bind (Q := QAny) Ens.l_curAct fun a _ => ?_
  split
  · fne_auto
  · refine FailAt.bind (Q := QAny) (ens_evalBounds f bounds [] hb) fun dims _ => ?_
    exact FailAt.tail_pure _ (failAt_declareArrs f t id tyTok dims hty)


/-! ### file statements -/

theorem ens_fileName {R : St → St → Prop} [RPre R] [QBase Q] (f : Nat) (t : Tok) (e : Expr) (h : e.callFree = true) :
    Ens R Q (fileName f t e) := by
  cases f with
  | zero => rw [fileName.eq_def]; dsimp only; ens_auto
  | succ f => rw [fileName_succ]; ens_auto

/-- the step of GETRECORD in the file layer does not change the file component -/
theorem ens_doFile_get [QBase Q] (t : Tok) (n : Str) : Ens Eq Q (doFile t (.get n)) := by
  constructor
  intro σ
  rw [run_doFile]
  cases h : fstep (fileSt σ) (.get n) with
  | error m => exact ⟨rfl, fun e he => by cases he; exact QBase.diag _⟩
  | ok p =>
    obtain ⟨s', r⟩ := p
    obtain ⟨hs, _⟩ := fstep_get _ n s' r h
    subst hs
    exact ⟨rfl, fun e he => by cases he⟩

end

macro_rules | `(tactic| ens_lib) => `(tactic| exact ens_fileName _ _ _ (by first | assumption | with_unfolding_all assumption))
macro_rules | `(tactic| ens_lib) => `(tactic| exact ens_doFile_get _ _)

section
variable {P : Stop → Prop} {σ : St}

/-- a statement, started in `σ`, that ends with an exception in `P` leaves `σ` up to the step counter -/
def StmtNEAt (P : Stop → Prop) (f : Nat) (s : Stmt) (σ : St) : Prop :=
  ∀ e σ', P e → (execStmt f s).run.run σ = (.error e, σ') → SK σ σ'

theorem stmtNE_zero (s : Stmt) : StmtNEAt P 0 s σ := by
  intro e σ' _ hr
  rw [execStmt.eq_def] at hr
  cases hr
  exact RPre.refl _

theorem stmtNE_openFile (f : Nat) (t : Tok) (fn : Expr) (mode : FileMode) (hfn : fn.callFree = true) :
    StmtNEAt P f (.openFile t fn mode) σ := by
  cases f with
  | zero => exact stmtNE_zero _
  | succ f =>
    intro e σ' hP hr
    rw [execStmt_openFile] at hr
    exact SK.of_tick t (by fne_auto) e σ' hP hr

theorem stmtNE_closeFile (f : Nat) (t : Tok) (fn : Expr) (hfn : fn.callFree = true) :
    StmtNEAt P f (.closeFile t fn) σ := by
  cases f with
  | zero => exact stmtNE_zero _
  | succ f =>
    intro e σ' hP hr
    rw [execStmt_closeFile] at hr
    exact SK.of_tick t (by fne_auto) e σ' hP hr

theorem stmtNE_writeFile (f : Nat) (t : Tok) (fn e : Expr) (hfn : fn.callFree = true) (he : e.callFree = true) :
    StmtNEAt P f (.writeFile t fn e) σ := by
  cases f with
  | zero => exact stmtNE_zero _
  | succ f =>
    intro e' σ' hP hr
    rw [execStmt_writeFile] at hr
    exact SK.of_tick t (by fne_auto) e' σ' hP hr

theorem stmtNE_seek (f : Nat) (t : Tok) (fn addr : Expr) (hfn : fn.callFree = true) (ha : addr.callFree = true) :
    StmtNEAt P f (.seek t fn addr) σ := by
  cases f with
  | zero => exact stmtNE_zero _
  | succ f =>
    intro e' σ' hP hr
    rw [execStmt_seek] at hr
    exact SK.of_tick t (by fne_auto) e' σ' hP hr

theorem stmtNE_putRecord (f : Nat) (t : Tok) (fn : Expr) (id : Tok) (hfn : fn.callFree = true) :
    StmtNEAt P f (.putRecord t fn id) σ := by
  cases f with
  | zero => exact stmtNE_zero _
  | succ f =>
    intro e' σ' hP hr
    rw [execStmt_putRecord] at hr
    exact SK.of_tick t (by fne_auto) e' σ' hP hr

theorem stmtNE_getRecord (f : Nat) (t : Tok) (fn : Expr) (id : Tok) (hfn : fn.callFree = true) :
    StmtNEAt P f (.getRecord t fn id) σ := by
  cases f with
  | zero => exact stmtNE_zero _
  | succ f =>
    intro e' σ' hP hr
    rw [execStmt_getRecord] at hr
    exact SK.of_tick t (by fne_auto) e' σ' hP hr

theorem stmtNE_assign (f : Nat) (t : Tok) (r : Ref) (rhs : Expr) (hr : r.callFree = true) (hrhs : rhs.callFree = true) :
    StmtNEAt P f (.expr (.assign t r rhs)) σ := by
  cases f with
  | zero => exact stmtNE_zero _
  | succ f =>
    intro e' σ' hP hrun
    rw [execStmt_expr] at hrun
    exact SK.of_tick _ (failAt_assign f t r rhs hr hrhs) e' σ' hP hrun

theorem stmtNE_const (f : Nat) (t name : Tok) (e : Expr) (he : e.callFree = true) :
    StmtNEAt P f (.const t name e) σ := by
  cases f with
  | zero => exact stmtNE_zero _
  | succ f =>
    intro e' σ' hP hrun
    rw [execStmt_const] at hrun
    exact SK.of_tick _ (failAt_const f t name e he) e' σ' hP hrun

theorem stmtNE_declare (f : Nat) (t id tyTok : Tok)
    (hty : ∀ n, ((getType tyTok).run.run (tickSt σ)).1 ≠ .ok (.comp n)) :
    StmtNEAt Soft f (.declare t [id] tyTok) σ := by
  cases f with
  | zero => exact stmtNE_zero _
  | succ f =>
    intro e' σ' hP hrun
    rw [execStmt_declare] at hrun
    exact SK.of_tick _ (FailAt.tail_pure _ (failAt_declareVars f t id tyTok hty)) e' σ' hP hrun

theorem stmtNE_declareArr (f : Nat) (t id tyTok : Tok) (bounds : List (Expr × Expr)) (hb : boundsCallFree bounds = true)
    (hty : ∀ n, ((getType tyTok).run.run (tickSt σ)).1 ≠ .ok (.comp n)) :
    StmtNEAt Soft f (.declareArr t [id] tyTok bounds) σ := by
  cases f with
  | zero => exact stmtNE_zero _
  | succ f =>
    intro e' σ' hP hrun
    rw [execStmt_declareArr] at hrun
    exact SK.of_tick _ (failAt_declareArr f t id tyTok bounds hb hty) e' σ' hP hrun


/-! ### READFILE -/

/-- the tail of READFILE into a known location: a failure other than a crash point leaves the state as it was -/
theorem readInto_soft (t : Tok) (loc : Loc) (name : Str) (σ1 : St) (e : Stop) (σ' : St) (hP : Soft e)
    (hr : readInto t loc name σ1 = (.error e, σ')) : σ' = σ1 := by
  unfold readInto at hr
  cases hc : locConstP σ1 loc with
  | true => rw [hc] at hr; simp only [if_true] at hr; unfold errAt at hr; cases hr; rfl
  | false =>
    rw [hc] at hr
    simp only [Bool.false_eq_true, if_false] at hr
    cases hf : fstep (fileSt σ1) (.readLine name) with
    | error m => rw [hf] at hr; unfold errAt at hr; cases hr; rfl
    | ok p =>
      obtain ⟨s', r⟩ := p
      rw [hf] at hr
      cases r with
      | line l =>
        dsimp only at hr
        unfold thenWrite at hr
        rw [run_writeLoc] at hr
        unfold writeLocP at hr
        unfold locConstP at hc
        rw [setFile_acts] at hr
        cases hfa : σ1.acts.find? (·.id == loc.act) with
        | none => rw [hfa] at hr; cases hr; exact hP.elim
        | some a =>
          rw [hfa] at hr hc
          dsimp only at hr hc
          cases hs : slotOf a loc with
          | none => rw [hs] at hr; cases hr; exact hP.elim
          | some sl =>
            rw [hs] at hr hc
            dsimp only at hr
            have hcs : sl.isConst = false := by simpa using hc
            rw [hcs] at hr
            simp only [Bool.false_eq_true, if_false] at hr
            cases hsp : setPath sl.val loc.path (.str l) with
            | none => rw [hsp] at hr; cases hr; exact hP.elim
            | some root => rw [hsp] at hr; cases hr
      | unit => cases hr; exact hP.elim
      | bool b => cases hr; exact hP.elim
      | record s => cases hr; exact hP.elim

theorem FailAt.rtErr_bind {α β : Type} (t : Tok) (m : Msg) (k : α → M β) : FailAt P ((rtErr t m : M α) >>= k) σ := by
  constructor
  intro e σ' _ hr
  rw [run_bind_err _ _ _ _ _ (run_rtErr t m σ)] at hr
  cases hr
  rfl

theorem stmtNE_readFile (f : Nat) (t : Tok) (fn : Expr) (id : Tok) (hfn : fn.callFree = true) :
    StmtNEAt Soft f (.readFile t fn id) σ := by
  cases f with
  | zero => exact stmtNE_zero _
  | succ f =>
    intro e' σ' hP hrun
    rw [execStmt_readFile] at hrun
    refine SK.of_tick t ?_ e' σ' hP hrun
    generalize tickSt σ = σ1
    refine FailAt.bind (Q := QAny) (ens_fileName f t fn hfn) fun name _ => ?_
    refine FailAt.bind (Q := QAny) (Ens.l_lookupVar _) fun ex hex => ?_
    cases ex with
    | some p =>
      obtain ⟨a, s⟩ := p
      dsimp only
      split
      · exact FailAt.rtErr_bind _ _ _
      · refine FailAt.bind (Q := QAny) (Ens.l_filePre _ _) fun _ _ => ?_
        split
        all_goals
          refine FailAt.bind (Q := QAny) (Ens.pure _) fun loc _ => ?_
          constructor
          intro e σ2 hPe hr
          exact readInto_soft t loc name σ1 e σ2 hPe ((run_readInto t loc name σ1).symm.trans hr)
    | none =>
      dsimp only
      refine FailAt.bind (Q := QAny) (Ens.l_filePre _ _) fun _ hpre => ?_
      constructor
      intro e σ2 hPe hr
      exfalso
      rw [run_lookupVar] at hex
      have hlv : lookupVarP σ1 id.val = .ok none := congrArg Prod.fst hex
      rw [run_filePre] at hpre
      have hfp : fpre (fileSt σ1) (.readLine name) = .ok () := by
        cases hp : fpre (fileSt σ1) (.readLine name) with
        | ok u => rfl
        | error m => rw [hp] at hpre; unfold errAt at hpre; cases hpre
      cases hacts : σ1.acts with
      | nil =>
        unfold lookupVarP curActP at hlv
        rw [hacts] at hlv
        cases hlv
      | cons a rest =>
        have hno : findSlot a.vars id.val = none := by
          rw [lookupVarP_cons σ1 a rest hacts] at hlv
          injection hlv with hlv
          exact findSlot_none_of_lookup _ _ _ hlv
        have hcur : curActP σ1 = .ok a := by unfold curActP; rw [hacts]
        have hadd : (addVar { name := id.val, ty := .str, val := .str [] }).run.run σ1 =
            (.ok ⟨⟩, addStrVar σ1 a.id id.val) := by
          unfold addVar modifyCur
          rw [run_bind, run_curAct, hcur]
          rfl
        have hcur2 : curActP (addStrVar σ1 a.id id.val) =
            .ok { a with vars := a.vars ++ [{ name := id.val, ty := .str, val := .str [] }] } := by
          unfold curActP addStrVar updSt
          show (match updActs σ1.acts a.id _ with | a :: _ => Except.ok a | [] => _) = _
          rw [hacts]
          simp [updActs]
        rw [run_bind_ok _ _ _ _ _ hadd, run_bind, run_curAct, hcur2] at hr
        dsimp only at hr
        rw [run_bind_ok _ _ _ _ _ (run_pure _ _)] at hr
        have hr' := (run_readInto t _ name _).symm.trans hr
        unfold readInto at hr'
        obtain ⟨_, hc0⟩ := addStrVar_fresh σ1 a rest id.val hacts hno
        rw [hc0] at hr'
        simp only [Bool.false_eq_true, if_false] at hr'
        have hfs : fileSt (addStrVar σ1 a.id id.val) = fileSt σ1 := rfl
        rw [hfs] at hr'
        cases hf : fstep (fileSt σ1) (.readLine name) with
        | error m =>
          have := (fstep_readLine _ name).1 m hf
          rw [hfp] at this
          cases this
        | ok q =>
          obtain ⟨s', r⟩ := q
          obtain ⟨line, rfl⟩ := (fstep_readLine _ name).2 s' r hf
          rw [hf] at hr'
          dsimp only at hr'
          have hacts' : (setFile σ1 s').acts = a :: rest := hacts
          obtain ⟨hr2, hc2⟩ := addStrVar_fresh (setFile σ1 s') a rest id.val hacts' hno
          obtain ⟨root, h1, _, _⟩ := thenWrite_ok t { act := a.id, isArr := false, name := id.val, path := [] }
            (.str line) (.str []) (setFile (addStrVar σ1 a.id id.val) s') hr2 hc2 rfl
          rw [h1] at hr'
          cases hr'

end
end Pseudo
