import PseudoProofs.NoCrashSteps1
import PseudoProofs.NoCrashSteps2
import PseudoProofs.NoCrashSteps3
import PseudoProofs.NoCrashSteps4
import PseudoProofs.NoCrashSteps5
/-!
# C01: the induction over the fuel — every function of the evaluator's mutual block, at every fuel
-/
namespace Pseudo.NC
open Pseudo
variable {f : Nat}

theorem step_execStmt (ih : AllTri f) : ∀ s, okStmt s = true →
    Tri PT (execStmt (f+1) s) (fun _ v _ => simple v = true) := by
  intro s hok
  cases s with
  | expr e => exact step_execStmt_expr ih e
  | declare t ids ty => exact step_execStmt_declare ih t ids ty
  | declareArr t ids ty bounds => exact step_execStmt_declareArr ih t ids ty bounds
  | const t name e => exact step_execStmt_const ih t name e
  | typeEnum t name vals => exact step_execStmt_typeEnum ih t name vals hok
  | typePtr t name target => exact step_execStmt_typePtr ih t name target hok
  | typeRec t name body => exact step_execStmt_typeRec ih t name body hok
  | ifs t brs els => exact step_execStmt_ifs ih t brs els hok
  | case t sel cls => exact step_execStmt_case ih t sel cls hok
  | «while» t c b => exact step_execStmt_while ih t c b hok
  | «repeat» t b c => exact step_execStmt_repeat ih t b c hok
  | «for» t it start stop step b => exact step_execStmt_for ih t it start stop step b (by simpa [okStmt] using hok)
  | call t name args => exact step_execStmt_call ih t name args
  | ret t e => exact step_execStmt_ret ih t e
  | brk t => exact step_execStmt_brk ih t
  | cont t => exact step_execStmt_cont ih t
  | output t es => exact step_execStmt_output ih t es
  | input t r => exact step_execStmt_input ih t r
  | openFile t fn mode => exact step_execStmt_openFile ih t fn mode
  | readFile t fn id => exact step_execStmt_readFile ih t fn id
  | writeFile t fn e => exact step_execStmt_writeFile ih t fn e
  | closeFile t fn => exact step_execStmt_closeFile ih t fn
  | seek t fn addr => exact step_execStmt_seek ih t fn addr
  | getRecord t fn id => exact step_execStmt_getRecord ih t fn id
  | putRecord t fn id => exact step_execStmt_putRecord ih t fn id
  | procDef t name params body => exact step_execStmt_procDef ih t name params body hok
  | funDef t name params ret body => exact step_execStmt_funDef ih t name params ret body hok

/-- the induction step: every function at fuel `f+1` calls the others at fuel `f` only -/
theorem AllTri.succ (ih : AllTri f) : AllTri (f + 1) where
  defaultVal := step_defaultVal ih
  defaultCells := step_defaultCells ih
  evalArgs := step_evalArgs ih
  evalIndices := step_evalIndices ih
  resolveRef := step_resolveRef ih
  callFun := step_callFun ih
  bindParams := step_bindParams ih
  evalExpr := step_evalExpr ih
  execAssign := step_execAssign ih
  runBlock := step_runBlock ih
  ifChain := step_ifChain ih
  caseMatch := step_caseMatch ih
  caseClauses := step_caseClauses ih
  loopBody := step_loopBody ih
  whileLoop := step_whileLoop ih
  repeatLoop := step_repeatLoop ih
  forLoop := step_forLoop ih
  callProc := step_callProc ih
  resolveParams := step_resolveParams ih
  evalBounds := step_evalBounds ih
  declareVars := step_declareVars ih
  declareArrs := step_declareArrs ih
  outputAll := step_outputAll ih
  fileName := step_fileName ih
  execStmt := step_execStmt ih

/-- **no function of the evaluator reaches a crash point** on the sublanguage, from well-formed states, at every fuel -/
theorem allTri : ∀ fuel, AllTri fuel
  | 0 => AllTri.zero
  | f + 1 => (allTri f).succ

end Pseudo.NC
