import PseudoProofs.NoCrashLDefs
/-!
# What the parser guarantees about the programs it produces (support of the no-crash theorem for the full language)

`okBlock true` (the sublanguage of `PseudoProofs/NoCrashL*.lean`) = `shBlock true` (a shape that **every** parser result has:
`parse_shape`) + `bndBlock` (the one real side condition: array bounds in record TYPE bodies are integer literals).
-/
namespace Pseudo.NL
open Pseudo
open Pseudo.NR (litDims declStmt declBody)

/-- a statement of a record TYPE body: a DECLARE (of variables or of arrays, any bounds) -/
def isDecl : Stmt → Bool
  | .declare _ _ _ => true
  | .declareArr _ _ _ _ => true
  | _ => false

mutual
  /-- the shape the parser guarantees: enum types have a name, record TYPE bodies consist of DECLAREs, PROCEDURE / FUNCTION
      definitions occur at top level only (`top = true`) -/
  def shStmt (top : Bool) : Stmt → Bool
    | .typeEnum _ _ vals => !vals.isEmpty
    | .typeRec _ _ body => body.all isDecl
    | .ifs _ brs els => shBranches top brs && shOpt top els
    | .case _ _ cls => shClauses top cls
    | .while _ _ b => shBlock top b
    | .repeat _ b _ => shBlock top b
    | .for _ _ _ _ _ b => shBlock top b
    | .procDef _ _ _ b => top && shBlock false b
    | .funDef _ _ _ _ b => top && shBlock false b
    | _ => true
  def shBlock (top : Bool) : List Stmt → Bool
    | [] => true
    | s :: r => shStmt top s && shBlock top r
  def shBranches (top : Bool) : List (Expr × List Stmt) → Bool
    | [] => true
    | (_, b) :: r => shBlock top b && shBranches top r
  def shOpt (top : Bool) : Option (List Stmt) → Bool
    | none => true
    | some b => shBlock top b
  def shClause (top : Bool) : Clause → Bool
    | .eq _ b => shBlock top b
    | .range _ _ b => shBlock top b
    | .otherwise b => shBlock top b
  def shClauses (top : Bool) : List Clause → Bool
    | [] => true
    | c :: r => shClause top c && shClauses top r
end

/-- the bounds of an array DECLARE are integer literals (anything else: no condition) -/
def litBounds : Stmt → Bool
  | .declareArr _ _ _ bounds => (litDims bounds).isSome
  | _ => true

mutual
  /-- THE side condition: in every record TYPE body (anywhere in the program) the array bounds are integer literals -/
  def bndStmt : Stmt → Bool
    | .typeRec _ _ body => body.all litBounds
    | .ifs _ brs els => bndBranches brs && bndOpt els
    | .case _ _ cls => bndClauses cls
    | .while _ _ b => bndBlock b
    | .repeat _ b _ => bndBlock b
    | .for _ _ _ _ _ b => bndBlock b
    | .procDef _ _ _ b => bndBlock b
    | .funDef _ _ _ _ b => bndBlock b
    | _ => true
  def bndBlock : List Stmt → Bool
    | [] => true
    | s :: r => bndStmt s && bndBlock r
  def bndBranches : List (Expr × List Stmt) → Bool
    | [] => true
    | (_, b) :: r => bndBlock b && bndBranches r
  def bndOpt : Option (List Stmt) → Bool
    | none => true
    | some b => bndBlock b
  def bndClause : Clause → Bool
    | .eq _ b => bndBlock b
    | .range _ _ b => bndBlock b
    | .otherwise b => bndBlock b
  def bndClauses : List Clause → Bool
    | [] => true
    | c :: r => bndClause c && bndClauses r
end

/-! ## shape + literal bounds = the sublanguage -/

theorem declStmt_of (s : Stmt) (h1 : isDecl s = true) (h2 : litBounds s = true) : declStmt s = true := by
  cases s <;> first | exact h2 | exact h1

theorem declBody_of : ∀ (b : List Stmt), b.all isDecl = true → b.all litBounds = true → declBody b = true
  | [], _, _ => rfl
  | s :: r, h1, h2 => by
    simp only [List.all_cons, Bool.and_eq_true] at h1 h2
    simp only [declBody, List.all_cons, Bool.and_eq_true]
    exact ⟨declStmt_of s h1.1 h2.1, declBody_of r h1.2 h2.2⟩

mutual
  theorem ok_stmt (top : Bool) : ∀ (s : Stmt), shStmt top s = true → bndStmt s = true → okStmt top s = true
    | .typeEnum _ _ vals, h1, _ => by simpa only [shStmt, okStmt] using h1
    | .typeRec _ _ body, h1, h2 => by
      simp only [shStmt, bndStmt] at h1 h2
      simp only [okStmt]
      exact declBody_of body h1 h2
    | .ifs _ brs els, h1, h2 => by
      simp only [shStmt, bndStmt, Bool.and_eq_true] at h1 h2
      simp only [okStmt, Bool.and_eq_true]
      exact ⟨ok_branches top brs h1.1 h2.1, ok_opt top els h1.2 h2.2⟩
    | .case _ _ cls, h1, h2 => by
      simp only [shStmt, bndStmt] at h1 h2
      simp only [okStmt]
      exact ok_clauses top cls h1 h2
    | .while _ _ b, h1, h2 => by
      simp only [shStmt, bndStmt] at h1 h2
      simp only [okStmt]
      exact ok_block top b h1 h2
    | .repeat _ b _, h1, h2 => by
      simp only [shStmt, bndStmt] at h1 h2
      simp only [okStmt]
      exact ok_block top b h1 h2
    | .for _ _ _ _ _ b, h1, h2 => by
      simp only [shStmt, bndStmt] at h1 h2
      simp only [okStmt]
      exact ok_block top b h1 h2
    | .procDef _ _ _ b, h1, h2 => by
      simp only [shStmt, bndStmt, Bool.and_eq_true] at h1 h2
      simp only [okStmt, Bool.and_eq_true]
      exact ⟨h1.1, ok_block false b h1.2 h2⟩
    | .funDef _ _ _ _ b, h1, h2 => by
      simp only [shStmt, bndStmt, Bool.and_eq_true] at h1 h2
      simp only [okStmt, Bool.and_eq_true]
      exact ⟨h1.1, ok_block false b h1.2 h2⟩
    | .expr _, _, _ | .declare _ _ _, _, _ | .declareArr _ _ _ _, _, _ | .const _ _ _, _, _ | .typePtr _ _ _, _, _
    | .call _ _ _, _, _ | .ret _ _, _, _ | .brk _, _, _ | .cont _, _, _ | .output _ _, _, _ | .input _ _, _, _
    | .openFile _ _ _, _, _ | .readFile _ _ _, _, _ | .writeFile _ _ _, _, _ | .closeFile _ _, _, _ | .seek _ _ _, _, _
    | .getRecord _ _ _, _, _ | .putRecord _ _ _, _, _ => by simp only [okStmt]
  theorem ok_block (top : Bool) : ∀ (b : List Stmt), shBlock top b = true → bndBlock b = true → okBlock top b = true
    | [], _, _ => by simp only [okBlock]
    | s :: r, h1, h2 => by
      simp only [shBlock, bndBlock, Bool.and_eq_true] at h1 h2
      simp only [okBlock, Bool.and_eq_true]
      exact ⟨ok_stmt top s h1.1 h2.1, ok_block top r h1.2 h2.2⟩
  theorem ok_branches (top : Bool) : ∀ (b : List (Expr × List Stmt)), shBranches top b = true → bndBranches b = true →
      okBranches top b = true
    | [], _, _ => by simp only [okBranches]
    | (_, b) :: r, h1, h2 => by
      simp only [shBranches, bndBranches, Bool.and_eq_true] at h1 h2
      simp only [okBranches, Bool.and_eq_true]
      exact ⟨ok_block top b h1.1 h2.1, ok_branches top r h1.2 h2.2⟩
  theorem ok_opt (top : Bool) : ∀ (b : Option (List Stmt)), shOpt top b = true → bndOpt b = true → okOpt top b = true
    | none, _, _ => by simp only [okOpt]
    | some b, h1, h2 => by
      simp only [shOpt, bndOpt] at h1 h2
      simp only [okOpt]
      exact ok_block top b h1 h2
  theorem ok_clause (top : Bool) : ∀ (c : Clause), shClause top c = true → bndClause c = true → okClause top c = true
    | .eq _ b, h1, h2 => by
      simp only [shClause, bndClause] at h1 h2
      simp only [okClause]
      exact ok_block top b h1 h2
    | .range _ _ b, h1, h2 => by
      simp only [shClause, bndClause] at h1 h2
      simp only [okClause]
      exact ok_block top b h1 h2
    | .otherwise b, h1, h2 => by
      simp only [shClause, bndClause] at h1 h2
      simp only [okClause]
      exact ok_block top b h1 h2
  theorem ok_clauses (top : Bool) : ∀ (c : List Clause), shClauses top c = true → bndClauses c = true → okClauses top c = true
    | [], _, _ => by simp only [okClauses]
    | c :: r, h1, h2 => by
      simp only [shClauses, bndClauses, Bool.and_eq_true] at h1 h2
      simp only [okClauses, Bool.and_eq_true]
      exact ⟨ok_clause top c h1.1 h2.1, ok_clauses top r h1.2 h2.2⟩
end

/-- shape + literal bounds = the sublanguage of the no-crash theorem -/
theorem ok_of_shape_bounds : ∀ (top : Bool) (b : List Stmt), shBlock top b = true → bndBlock b = true → okBlock top b = true :=
  ok_block

/-! ## a postcondition calculus for the parser monad -/

theorem prun_bind {α β} (x : P α) (g : α → P β) (s : PState) :
    (x >>= g).run.run s = match x.run.run s with
      | (.ok a, s') => (g a).run.run s'
      | (.error d, s') => (.error d, s') := by
  simp only [ExceptT.run_bind, StateT.run_bind]
  rcases h : x.run.run s with ⟨r, s'⟩
  cases r <;> rfl

/-- whenever `x` succeeds, its result satisfies `Q` -/
def Post {α} (x : P α) (Q : α → Prop) : Prop := ∀ s a s', x.run.run s = (.ok a, s') → Q a

theorem Post.bind {α β} {x : P α} {g : α → P β} {Q' : α → Prop} {Q : β → Prop} (h1 : Post x Q')
    (h2 : ∀ a, Q' a → Post (g a) Q) : Post (x >>= g) Q := by
  intro s b s' h
  rw [prun_bind] at h
  rcases hx : x.run.run s with ⟨r, s1⟩
  rw [hx] at h
  cases r with
  | error d => cases h
  | ok a => exact h2 a (h1 s a s1 hx) s1 b s' h

theorem Post.bindT {α β} {x : P α} {g : α → P β} {Q : β → Prop} (h2 : ∀ a, Post (g a) Q) : Post (x >>= g) Q :=
  Post.bind (Q' := fun _ => True) (fun _ _ _ _ => trivial) (fun a _ => h2 a)

theorem Post.mono {α} {x : P α} {Q' Q : α → Prop} (h : Post x Q') (hq : ∀ a, Q' a → Q a) : Post x Q :=
  fun s a s' hr => hq a (h s a s' hr)

theorem Post.pure {α} {a : α} {Q : α → Prop} (h : Q a) : Post (Pure.pure a : P α) Q := by
  intro s b s' hr
  cases hr
  exact h

theorem Post.throw {α} {d : Diag} {Q : α → Prop} : Post (throw d : P α) Q := by
  intro s b s' hr
  cases hr

theorem Post.fail {α} {t : Tok} {m : Msg} {Q : α → Prop} : Post (P.fail t m : P α) Q := Post.throw
theorem Post.failPed {α} {t : Tok} {m : Msg} {Q : α → Prop} : Post (P.failPed t m : P α) Q := Post.throw

theorem Post.ite {α} {c : Prop} [Decidable c] {a b : P α} {Q : α → Prop}
    (h1 : c → Post a Q) (h2 : ¬ c → Post b Q) : Post (if c then a else b) Q := by
  by_cases h : c
  · rw [if_pos h]; exact h1 h
  · rw [if_neg h]; exact h2 h

/-- one step of the calculus for a callee about which nothing is needed -/
syntax "pstep" : tactic
macro_rules
  | `(tactic| pstep) => `(tactic| first
      | (with_reducible refine Post.pure ?_)
      | (with_reducible exact Post.fail)
      | (with_reducible exact Post.failPed)
      | (with_reducible exact Post.throw)
      | (with_reducible refine Post.ite (fun _ => ?_) (fun _ => ?_))
      | (with_reducible refine Post.bindT (fun _ => ?_))
      | (show Post _ _; split))

/-- all steps; the listed facts (`Post callee Q'`) are used for the callees they fit -/
syntax "pauto" "[" term,* "]" : tactic
macro_rules
  | `(tactic| pauto [$hs,*]) => do
    let alts ← hs.getElems.mapM fun h =>
      `(tactic| first | (with_reducible refine Post.bind $h (fun _ _ => ?_)) | (with_reducible exact $h))
    `(tactic| repeat' (first $[| $alts:tactic]* | pstep))

/-! ## the parsers outside the mutual block -/

theorem post_declare (cfg : PCfg) (f : Nat) : Post (parseDeclare cfg f) (fun s => isDecl s = true) := by
  unfold parseDeclare
  pauto []
  all_goals rfl

theorem post_const : Post parseConst (fun s => shStmt false s = true) := by
  unfold parseConst
  pauto []
  all_goals simp only [shStmt]

theorem post_enumVals : ∀ (f : Nat) (acc : List Str), Post (parseEnumVals f acc) (fun v => v.isEmpty = false)
  | 0, acc => by rw [parseEnumVals]; pauto []
  | f + 1, acc => by
    rw [parseEnumVals]
    pauto [(post_enumVals f _)]
    simp

theorem post_compositeBody (cfg : PCfg) : ∀ (f : Nat) (acc : List Stmt), (∀ s ∈ acc, isDecl s = true) →
    Post (parseCompositeBody cfg f acc) (fun b => b.all isDecl = true)
  | 0, acc, _ => by rw [parseCompositeBody]; pauto []
  | f + 1, acc, hacc => by
    rw [parseCompositeBody]
    pauto [(post_declare cfg f)]
    · rename_i d hd _
      exact post_compositeBody cfg f (d :: acc) (List.forall_mem_cons.2 ⟨hd, hacc⟩)
    · simp only [List.all_eq_true, List.mem_reverse]
      exact hacc

theorem post_type (cfg : PCfg) (f : Nat) : Post (parseType cfg f) (fun s => shStmt false s = true) := by
  unfold parseType
  pauto [(post_compositeBody cfg f [] (by simp)), (post_enumVals f [])]
  all_goals simp_all [shStmt]

/-! ## monotonicity in `top`, list forms -/

mutual
  theorem mono_stmt : ∀ (s : Stmt), shStmt false s = true → shStmt true s = true
    | .typeEnum _ _ _, h => by simpa only [shStmt] using h
    | .typeRec _ _ _, h => by simpa only [shStmt] using h
    | .ifs _ brs els, h => by
      simp only [shStmt, Bool.and_eq_true] at h ⊢
      exact ⟨mono_branches brs h.1, mono_opt els h.2⟩
    | .case _ _ cls, h => by
      simp only [shStmt] at h ⊢
      exact mono_clauses cls h
    | .while _ _ b, h => by
      simp only [shStmt] at h ⊢
      exact mono_block b h
    | .repeat _ b _, h => by
      simp only [shStmt] at h ⊢
      exact mono_block b h
    | .for _ _ _ _ _ b, h => by
      simp only [shStmt] at h ⊢
      exact mono_block b h
    | .procDef _ _ _ _, h => by simp [shStmt] at h
    | .funDef _ _ _ _ _, h => by simp [shStmt] at h
    | .expr _, _ | .declare _ _ _, _ | .declareArr _ _ _ _, _ | .const _ _ _, _ | .typePtr _ _ _, _
    | .call _ _ _, _ | .ret _ _, _ | .brk _, _ | .cont _, _ | .output _ _, _ | .input _ _, _
    | .openFile _ _ _, _ | .readFile _ _ _, _ | .writeFile _ _ _, _ | .closeFile _ _, _ | .seek _ _ _, _
    | .getRecord _ _ _, _ | .putRecord _ _ _, _ => by simp only [shStmt]
  theorem mono_block : ∀ (b : List Stmt), shBlock false b = true → shBlock true b = true
    | [], _ => by simp only [shBlock]
    | s :: r, h => by
      simp only [shBlock, Bool.and_eq_true] at h ⊢
      exact ⟨mono_stmt s h.1, mono_block r h.2⟩
  theorem mono_branches : ∀ (b : List (Expr × List Stmt)), shBranches false b = true → shBranches true b = true
    | [], _ => by simp only [shBranches]
    | (_, b) :: r, h => by
      simp only [shBranches, Bool.and_eq_true] at h ⊢
      exact ⟨mono_block b h.1, mono_branches r h.2⟩
  theorem mono_opt : ∀ (b : Option (List Stmt)), shOpt false b = true → shOpt true b = true
    | none, _ => by simp only [shOpt]
    | some b, h => by
      simp only [shOpt] at h ⊢
      exact mono_block b h
  theorem mono_clause : ∀ (c : Clause), shClause false c = true → shClause true c = true
    | .eq _ b, h => by
      simp only [shClause] at h ⊢
      exact mono_block b h
    | .range _ _ b, h => by
      simp only [shClause] at h ⊢
      exact mono_block b h
    | .otherwise b, h => by
      simp only [shClause] at h ⊢
      exact mono_block b h
  theorem mono_clauses : ∀ (c : List Clause), shClauses false c = true → shClauses true c = true
    | [], _ => by simp only [shClauses]
    | c :: r, h => by
      simp only [shClauses, Bool.and_eq_true] at h ⊢
      exact ⟨mono_clause c h.1, mono_clauses r h.2⟩
end

/-- the shape is monotone in `top` -/
theorem sh_mono (top : Bool) (s : Stmt) (h : shStmt false s = true) : shStmt top s = true := by
  cases top
  · exact h
  · exact mono_stmt s h

theorem shBlock_iff (top : Bool) : ∀ (b : List Stmt), shBlock top b = true ↔ ∀ s ∈ b, shStmt top s = true
  | [] => by simp [shBlock]
  | s :: r => by simp [shBlock, shBlock_iff top r]

theorem shBranches_iff (top : Bool) : ∀ (b : List (Expr × List Stmt)),
    shBranches top b = true ↔ ∀ p ∈ b, shBlock top p.2 = true
  | [] => by simp [shBranches]
  | (_, b) :: r => by simp [shBranches, shBranches_iff top r]

theorem shClauses_iff (top : Bool) : ∀ (b : List Clause), shClauses top b = true ↔ ∀ c ∈ b, shClause top c = true
  | [] => by simp [shClauses]
  | c :: r => by simp [shClauses, shClauses_iff top r]

theorem shBlock_rev {top : Bool} {acc : List Stmt} (h : ∀ s ∈ acc, shStmt top s = true) : shBlock top acc.reverse = true :=
  (shBlock_iff top _).2 fun s hs => h s (List.mem_reverse.1 hs)

theorem shBranches_rev {top : Bool} {acc : List (Expr × List Stmt)} (h : ∀ p ∈ acc, shBlock top p.2 = true) :
    shBranches top acc.reverse = true :=
  (shBranches_iff top _).2 fun s hs => h s (List.mem_reverse.1 hs)

theorem shClauses_rev {top : Bool} {acc : List Clause} (h : ∀ c ∈ acc, shClause top c = true) :
    shClauses top acc.reverse = true :=
  (shClauses_iff top _).2 fun s hs => h s (List.mem_reverse.1 hs)

/-! ## the mutual block of statement parsers -/

/-- PROCEDURE / FUNCTION definitions are accepted in the main block only -/
def topOf : BlockKind → Bool
  | .main => true
  | _ => false

structure All (cfg : PCfg) (f : Nat) : Prop where
  block : ∀ (bk : BlockKind) (acc : List Stmt) (top : Bool), top = topOf bk → (∀ s ∈ acc, shStmt top s = true) →
    Post (parseBlock cfg f bk acc) (fun b => shBlock top b = true)
  procedure : Post (parseProcedure cfg f) (fun s => shStmt true s = true)
  function : Post (parseFunction cfg f) (fun s => shStmt true s = true)
  else_ : ∀ (acc : List (Expr × List Stmt)), (∀ p ∈ acc, shBlock false p.2 = true) →
    Post (parseElse cfg f acc) (fun r => shBranches false r.1 = true ∧ shOpt false r.2 = true)
  clauses : ∀ (acc : List Clause), (∀ c ∈ acc, shClause false c = true) →
    Post (parseClauses cfg f acc) (fun r => shClauses false r = true)
  stmt : Post (parseStmt cfg f) (fun s => shStmt false s = true)

theorem all (cfg : PCfg) : ∀ f, All cfg f
  | 0 => by
    constructor
    · intro bk acc top _ _; rw [parseBlock]; pauto []
    · rw [parseProcedure]; pauto []
    · rw [parseFunction]; pauto []
    · intro acc _; rw [parseElse]; pauto []
    · intro acc _; rw [parseClauses]; pauto []
    · rw [parseStmt]; pauto []
  | f + 1 => by
    obtain ⟨h1, h2, h3, h4, h5, h6⟩ := all cfg f
    have hO := fun acc => h1 .other acc false rfl
    have hC := fun acc => h1 .case acc false rfl
    have d1 := post_declare cfg f
    have d2 := post_type cfg f
    have d3 := post_const
    constructor
    · intro bk acc top htop hacc
      rw [parseBlock]
      have hjp : ∀ node, shStmt top node = true → Post (do
          let t2 ← P.cur
          if t2.k != .LINE_END && t2.k != .EXPRESSION_END then P.fail t2
          else parseBlock cfg f bk (node :: acc)) (fun b => shBlock top b = true) := by
        intro node hnode
        refine Post.bindT (fun _ => ?_)
        refine Post.ite (fun _ => Post.fail) (fun _ => ?_)
        exact h1 bk (node :: acc) top htop (List.forall_mem_cons.2 ⟨hnode, hacc⟩)
      refine Post.bindT (fun _ => ?_)
      refine Post.bindT (fun t => ?_)
      refine Post.ite (fun _ => Post.pure (shBlock_rev hacc)) (fun _ => ?_)
      refine Post.bindT (fun _ => ?_)
      refine Post.ite (fun _ => Post.pure (shBlock_rev hacc)) (fun _ => ?_)
      dsimp only
      have hfail : ∀ (t : Tok) (g : Stmt → P (List Stmt)), Post (P.fail t >>= g) (fun b => shBlock top b = true) :=
        fun t g => Post.bind (Q' := fun _ => False) Post.fail (fun _ h => h.elim)
      refine Post.ite (fun _ => Post.ite (fun _ => hfail _ _) (fun hm => ?_))
          (fun _ => Post.ite (fun _ => Post.ite (fun _ => hfail _ _) (fun hm => ?_)) (fun _ => ?_))
      · have : bk = .main := by simpa using hm
        subst this; subst htop
        exact Post.bind h2 (fun n hn => hjp n hn)
      · have : bk = .main := by simpa using hm
        subst this; subst htop
        exact Post.bind h3 (fun n hn => hjp n hn)
      · refine Post.bind h6 (fun n hn => ?_)
        have hn' := sh_mono top n hn
        have hp : Post (Pure.pure n >>= fun node => (do
          let t2 ← P.cur
          if t2.k != .LINE_END && t2.k != .EXPRESSION_END then P.fail t2
          else parseBlock cfg f bk (node :: acc) : P (List Stmt))) (fun b => shBlock top b = true) :=
          Post.bind (Q' := fun m => shStmt top m = true) (Post.pure hn') (fun m hm => hjp m hm)
        split
        · exact Post.bindT (fun _ => hp)
        · exact hp
    · rw [parseProcedure]
      pauto [(hO [] (by simp))]
      all_goals simp_all [shStmt]
    · rw [parseFunction]
      pauto [(hO [] (by simp))]
      all_goals simp_all [shStmt]
    · intro acc hacc
      rw [parseElse]
      pauto [(hO [] (by simp)), (h4 _ (List.forall_mem_cons.2 ⟨by assumption, hacc⟩))]
      · exact ⟨shBranches_rev hacc, rfl⟩
      · exact ⟨shBranches_rev hacc, by assumption⟩
    · intro acc hacc
      rw [parseClauses]
      pauto [(hC [] (by simp)),
        (h5 _ (List.forall_mem_cons.2 ⟨(by simpa only [shClause] using (by assumption)), hacc⟩))]
      · exact shClauses_rev hacc
      · exact shClauses_rev (List.forall_mem_cons.2 ⟨(by simpa only [shClause] using (by assumption)), hacc⟩)
    · rw [parseStmt]
      refine Post.bindT (fun t => ?_)
      have d1' : Post (parseDeclare cfg f) (fun s => shStmt false s = true) :=
        Post.mono d1 (fun s hs => by cases s <;> first | rfl | cases hs)
      split <;> pauto [(hO [] (by simp)), (h4 _ (by simp [*])), (h5 [] (by simp)), d1', d2, d3]
      all_goals simp_all [shStmt]

/-- **what the parser guarantees** -/
theorem parse_shape (cfg : PCfg) (toks : List Tok) (b : Block) (w : List Tok) (h : parse cfg toks = .ok (b, w)) :
    shBlock true b = true := by
  have hm : Post (do
      let b ← parseBlock cfg (parseFuel toks) .main []
      let t ← P.cur
      if t.k != .EXPRESSION_END then P.fail t else return b : P Block) (fun b => shBlock true b = true) := by
    refine Post.bind ((all cfg (parseFuel toks)).block .main [] true rfl (by simp)) (fun b hb => ?_)
    refine Post.bindT (fun _ => ?_)
    exact Post.ite (fun _ => Post.fail) (fun _ => Post.pure hb)
  unfold parse at h
  dsimp only at h
  split at h
  · rename_i b' s hr
    cases h
    exact hm _ _ _ hr
  · cases h

end Pseudo.NL

#print axioms Pseudo.NL.parse_shape
#print axioms Pseudo.NL.ok_of_shape_bounds
