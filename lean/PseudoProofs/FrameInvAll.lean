import PseudoProofs.FrameInvStmt1
import PseudoProofs.FrameInvStmt2
import PseudoProofs.FrameInvStmt3
/-!
# C04 frame theorem: the induction on fuel over the 25 functions of the evaluator (`frame_all`)
-/
namespace Pseudo.Frame
open Pseudo
variable {k f : Nat}

theorem step_execStmt (ih : AllF k f) : ∀ s, EnsF k (NoPtr k) (execStmt (f+1) s) := fun s =>
  match s with
  | .expr e => step_execStmt_expr ih e
  | .declare t ids ty => step_execStmt_declare ih t ids ty
  | .declareArr t ids ty bounds => step_execStmt_declareArr ih t ids ty bounds
  | .const t name e => step_execStmt_const ih t name e
  | .typeEnum t name vals => step_execStmt_typeEnum ih t name vals
  | .typePtr t name target => step_execStmt_typePtr ih t name target
  | .typeRec t name body => step_execStmt_typeRec ih t name body
  | .ifs t branches els => step_execStmt_ifs ih t branches els
  | .case t sel clauses => step_execStmt_case ih t sel clauses
  | .while t c b => step_execStmt_while ih t c b
  | .repeat t b c => step_execStmt_repeat ih t b c
  | .for t it start stop step b => step_execStmt_for ih t it start stop step b
  | .call t name args => step_execStmt_call ih t name args
  | .ret t e => step_execStmt_ret ih t e
  | .brk t => step_execStmt_brk ih t
  | .cont t => step_execStmt_cont ih t
  | .output t es => step_execStmt_output ih t es
  | .input t r => step_execStmt_input ih t r
  | .openFile t fn mode => step_execStmt_openFile ih t fn mode
  | .readFile t fn id => step_execStmt_readFile ih t fn id
  | .writeFile t fn e => step_execStmt_writeFile ih t fn e
  | .closeFile t fn => step_execStmt_closeFile ih t fn
  | .seek t fn addr => step_execStmt_seek ih t fn addr
  | .getRecord t fn id => step_execStmt_getRecord ih t fn id
  | .putRecord t fn id => step_execStmt_putRecord ih t fn id
  | .procDef t name params body => step_execStmt_procDef ih t name params body
  | .funDef t name params ret body => step_execStmt_funDef ih t name params ret body

theorem AllF.zero : AllF k 0 where
  defaultVal _ _ := by rw [Pseudo.defaultVal.eq_def]; fr_auto
  defaultCells _ _ _ _ _ := by rw [Pseudo.defaultCells.eq_def]; fr_auto
  evalArgs _ _ _ := by rw [Pseudo.evalArgs.eq_def]; fr_auto
  evalIndices _ _ _ := by rw [Pseudo.evalIndices.eq_def]; fr_auto
  resolveRef _ := by rw [Pseudo.resolveRef.eq_def]; fr_auto
  callFun _ _ := by rw [Pseudo.callFun.eq_def]; fr_auto
  bindParams _ _ _ _ _ _ _ := by rw [Pseudo.bindParams.eq_def]; fr_auto
  evalExpr _ := by rw [Pseudo.evalExpr.eq_def]; fr_auto
  execAssign _ _ _ := by rw [Pseudo.execAssign.eq_def]; fr_auto
  runBlock _ := by rw [Pseudo.runBlock.eq_def]; fr_auto
  ifChain _ _ _ := by rw [Pseudo.ifChain.eq_def]; fr_auto
  caseMatch _ _ := by rw [Pseudo.caseMatch.eq_def]; fr_auto
  caseClauses _ _ := by rw [Pseudo.caseClauses.eq_def]; fr_auto
  loopBody _ := by rw [Pseudo.loopBody.eq_def]; fr_auto
  whileLoop _ _ _ := by rw [Pseudo.whileLoop.eq_def]; fr_auto
  repeatLoop _ _ _ := by rw [Pseudo.repeatLoop.eq_def]; fr_auto
  forLoop _ _ _ _ _ _ := by rw [Pseudo.forLoop.eq_def]; fr_auto
  callProc _ _ _ := by rw [Pseudo.callProc.eq_def]; fr_auto
  resolveParams _ _ := by rw [Pseudo.resolveParams.eq_def]; fr_auto
  evalBounds _ _ := by rw [Pseudo.evalBounds.eq_def]; fr_auto
  declareVars _ _ _ := by rw [Pseudo.declareVars.eq_def]; fr_auto
  declareArrs _ _ _ _ := by rw [Pseudo.declareArrs.eq_def]; fr_auto
  outputAll _ := by rw [Pseudo.outputAll.eq_def]; fr_auto
  fileName _ _ := by rw [Pseudo.fileName.eq_def]; fr_auto
  execStmt _ := by rw [Pseudo.execStmt.eq_def]; fr_auto

/-- the induction step: every function at fuel `f+1` calls the others at fuel `f` only -/
theorem AllF.succ (ih : AllF k f) : AllF k (f + 1) where
  defaultVal := step_defaultVal ih
  defaultCells := step_defaultCells ih
  evalArgs := step_evalArgs ih
  evalIndices := step_evalIndices ih
  resolveRef := step_resolveRef ih
  callFun := step_callFun ih
  bindParams := step_bindParams ih
  evalExpr := step_evalExpr ih
  execAssign := step_execAssign ih
  runBlock := step_runBlock ih
  ifChain := step_ifChain ih
  caseMatch := step_caseMatch ih
  caseClauses := step_caseClauses ih
  loopBody := step_loopBody ih
  whileLoop := step_whileLoop ih
  repeatLoop := step_repeatLoop ih
  forLoop := step_forLoop ih
  callProc := step_callProc ih
  resolveParams := step_resolveParams ih
  evalBounds := step_evalBounds ih
  declareVars := step_declareVars ih
  declareArrs := step_declareArrs ih
  outputAll := step_outputAll ih
  fileName := step_fileName ih
  execStmt := step_execStmt ih

/-- **the frame theorem for all 25 functions of the evaluator, at every fuel** -/
theorem frame_all (k : Nat) : ∀ fuel, AllF k fuel
  | 0 => AllF.zero
  | f + 1 => (frame_all k f).succ

end Pseudo.Frame
