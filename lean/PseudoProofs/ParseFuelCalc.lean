import PseudoProofs.ParseBlankLemmas
/-!
# PseudoProofs.ParseFuelCalc — the fuel that `parse` supplies is sufficient (support of `Properties/C10Fuel.lean`)

The fuel of the parser (`PseudoModel/Parser.lean`) bounds the *depth* of the call tree: every fuelled
function passes `f` to its callees when it was called with `f + 1`.  Measure: a function `g` called with
`n` remaining tokens needs at most `12 * n + B g` units, where the constants `B` order the functions along
the calls that happen before any token is consumed (block 15 > statement 14 > call-arguments 13 > arguments
12 > level 0 = 11 > … > level 6 = 5 > factor 4 > atom 3 > reference 2 > reference loop 1), and every other
call (loop iterations, `(`, `[`, nested blocks) happens after at least one token was consumed.

"Consumed" needs that the input ends in the end marker: `P.adv` never drops the last token, so on an input
whose last token is e.g. `(` the parser does not advance and does run out of fuel (see
`Properties/C10Fuel.lean`).  Invariant `EndsEOF`: the last token, if any, is EXPRESSION_END.

`Safe x s Q`: running `x` on `s` does not end in the out-of-fuel diagnostic, and if it succeeds with
value `a` and state `s'` then `Q a s'` (a weakest-precondition calculus: `Safe.bind`, `Safe.cur`, `Safe.adv`, …).
-/
namespace Pseudo.ParseFuel
open Pseudo

/-- the last token, if any, is the end marker -/
def EndsEOF (l : List Tok) : Prop := ∀ t, l.getLast? = some t → t.k = .EXPRESSION_END

/-- the current token of a state -/
def curT (s : PState) : Tok := s.toks.headD eofTok

/-- `x` on `s` does not run out of fuel and establishes `Q` on success -/
def Safe {α} (x : P α) (s : PState) (Q : α → PState → Prop) : Prop :=
  match x.run.run s with
  | (.ok a, s') => Q a s'
  | (.error d, _) => d.msg ≠ .budget

theorem EndsEOF.nil : EndsEOF [] := by intro t h; simp at h

theorem EndsEOF.tail {t t' : Tok} {l : List Tok} (h : EndsEOF (t :: t' :: l)) : EndsEOF (t' :: l) := by
  intro x hx; apply h x; rw [List.getLast?_cons_cons]; exact hx

/-- under `EndsEOF`, a current token that is not the end marker is followed by another token -/
theorem EndsEOF.two {l : List Tok} (h : EndsEOF l) (hk : (l.headD eofTok).k ≠ .EXPRESSION_END) :
    ∃ t t' r, l = t :: t' :: r := by
  match l, h, hk with
  | [], _, hk => exact absurd rfl hk
  | [t], h, hk => exact absurd (h t rfl) hk
  | t :: t' :: r, _, _ => exact ⟨t, t', r, rfl⟩

/-! ## the calculus -/

theorem Safe.mono {α} {x : P α} {s : PState} {Q' Q : α → PState → Prop} (h : Safe x s Q')
    (hq : ∀ a s', Q' a s' → Q a s') : Safe x s Q := by
  unfold Safe at *
  rcases hx : x.run.run s with ⟨r, s'⟩
  rw [hx] at h
  cases r with
  | error d => exact h
  | ok a => exact hq a s' h

theorem Safe.bind {α β} {x : P α} {g : α → P β} {s : PState} {Q : β → PState → Prop}
    (h : Safe x s (fun a s' => Safe (g a) s' Q)) : Safe (x >>= g) s Q := by
  unfold Safe at *
  rw [run_bind]
  rcases hx : x.run.run s with ⟨r, s'⟩
  rw [hx] at h
  cases r with
  | error d => exact h
  | ok a => exact h

theorem Safe.pure {α} {a : α} {s : PState} {Q : α → PState → Prop} (h : Q a s) :
    Safe (Pure.pure a : P α) s Q := h

theorem Safe.cur {s : PState} {Q : Tok → PState → Prop} (h : Q (curT s) s) : Safe P.cur s Q := h

theorem Safe.get {s : PState} {Q : PState → PState → Prop} (h : Q s s) :
    Safe (MonadState.get : P PState) s Q := h

theorem Safe.peekIs {n : Nat} {k : TK} {s : PState} {Q : Bool → PState → Prop} (h : ∀ b, Q b s) :
    Safe (P.peekIs n k) s Q := h _

theorem Safe.fail {α} {t : Tok} {m : Msg} {s : PState} {Q : α → PState → Prop} (h : m ≠ .budget) :
    Safe (P.fail t m : P α) s Q := h

theorem Safe.failPed {α} {t : Tok} {m : Msg} {s : PState} {Q : α → PState → Prop} (h : m ≠ .budget) :
    Safe (P.failPed t m : P α) s Q := h

theorem Safe.throw {α} {d : Diag} {s : PState} {Q : α → PState → Prop} (h : d.msg ≠ .budget) :
    Safe (throw d : P α) s Q := h

theorem Safe.ite {α} {c : Prop} [Decidable c] {a b : P α} {s : PState} {Q : α → PState → Prop}
    (h1 : c → Safe a s Q) (h2 : ¬ c → Safe b s Q) : Safe (if c then a else b) s Q := by
  by_cases h : c
  · rw [if_pos h]; exact h1 h
  · rw [if_neg h]; exact h2 h

/-- the state after `P.adv` -/
def advS (s : PState) : PState :=
  match s.toks with
  | _ :: t :: rest => { s with toks := t :: rest }
  | _ => s

theorem adv_run_eq (s : PState) : (P.adv).run.run s = (.ok (), advS s) := by
  obtain ⟨l, w⟩ := s
  match l with
  | [] => rfl
  | [_] => rfl
  | _ :: _ :: _ => rfl

theorem advS_ends {s : PState} (h : EndsEOF s.toks) : EndsEOF (advS s).toks := by
  obtain ⟨l, w⟩ := s
  match l, h with
  | [], h => exact h
  | [_], h => exact h
  | _ :: _ :: _, h => exact h.tail

theorem advS_le (s : PState) : (advS s).toks.length ≤ s.toks.length := by
  obtain ⟨l, w⟩ := s
  match l with
  | [] => exact Nat.le_refl _
  | [_] => exact Nat.le_refl _
  | _ :: _ :: _ => simp [advS]

theorem advS_lt {s : PState} (h : EndsEOF s.toks) (hk : (curT s).k ≠ .EXPRESSION_END) :
    (advS s).toks.length < s.toks.length := by
  obtain ⟨l, w⟩ := s
  obtain ⟨t, t', r, rfl⟩ := h.two hk
  simp [advS]

/-- `P.adv` at a token that is not the end marker consumes it -/
theorem Safe.advLt {s : PState} {Q : Unit → PState → Prop} (he : EndsEOF s.toks)
    (hk : (curT s).k ≠ .EXPRESSION_END)
    (h : ∀ s', EndsEOF s'.toks → s'.toks.length < s.toks.length → Q () s') : Safe P.adv s Q := by
  unfold Safe; rw [adv_run_eq]; exact h _ (advS_ends he) (advS_lt he hk)

/-- `P.adv` never makes the input longer -/
theorem Safe.advLe {s : PState} {Q : Unit → PState → Prop} (he : EndsEOF s.toks)
    (h : ∀ s', EndsEOF s'.toks → s'.toks.length ≤ s.toks.length → Q () s') : Safe P.adv s Q := by
  unfold Safe; rw [adv_run_eq]; exact h _ (advS_ends he) (advS_le s)

/-- `P.expect k` for a kind other than the end marker consumes a token on success -/
theorem Safe.expect {k : TK} {s : PState} {Q : Tok → PState → Prop} (he : EndsEOF s.toks)
    (hk : k ≠ .EXPRESSION_END)
    (h : ∀ s', EndsEOF s'.toks → s'.toks.length < s.toks.length → Q (curT s) s') :
    Safe (P.expect k) s Q := by
  unfold P.expect
  refine Safe.bind (Safe.cur ?_)
  refine Safe.ite (fun hc => ?_) (fun _ => Safe.fail (by decide))
  have hk' : (curT s).k ≠ .EXPRESSION_END := by
    rw [eq_of_beq hc]; exact hk
  exact Safe.bind (Safe.advLt he hk' (fun s' h1 h2 => Safe.pure (h s' h1 h2)))

theorem Safe.skipLineEnds (n : Nat) : ∀ {s : PState} {Q : Unit → PState → Prop}, EndsEOF s.toks →
    (∀ s', EndsEOF s'.toks → s'.toks.length ≤ s.toks.length → Q () s') → Safe (P.skipLineEnds n) s Q := by
  induction n with
  | zero => intro s Q he h; exact Safe.pure (h s he (Nat.le_refl _))
  | succ n ih =>
    intro s Q he h
    rw [P.skipLineEnds]
    refine Safe.bind (Safe.cur ?_)
    refine Safe.ite (fun _ => ?_) (fun _ => Safe.pure (h s he (Nat.le_refl _)))
    refine Safe.bind (Safe.advLe he (fun s' h1 h2 => ?_))
    exact ih h1 (fun s'' h3 h4 => h s'' h3 (Nat.le_trans h4 h2))

theorem Safe.skipNL {s : PState} {Q : Unit → PState → Prop} (he : EndsEOF s.toks)
    (h : ∀ s', EndsEOF s'.toks → s'.toks.length ≤ s.toks.length → Q () s') : Safe P.skipNL s Q := by
  unfold P.skipNL
  exact Safe.bind (Safe.get (Safe.skipLineEnds _ he h))

/-- `modify` of the warnings leaves the input alone -/
theorem Safe.modifyWarns {g : PState → List Tok} {s : PState} {Q : PUnit → PState → Prop}
    (he : EndsEOF s.toks) (h : ∀ s', EndsEOF s'.toks → s'.toks.length ≤ s.toks.length → Q ⟨⟩ s') :
    Safe (modify fun s => { s with warns := g s } : P PUnit) s Q := h _ he (Nat.le_refl _)

/-- the nested pattern match of `parseBlock` that records the comparison-result-ignored warning -/
theorem Safe.warnMatch (n : Stmt) (A : Tok → P PUnit) (B : P PUnit) {s : PState} {Q : PUnit → PState → Prop}
    (hA : ∀ o, Safe (A o) s Q) (hB : Safe B s Q) :
    Safe (match n with | .expr (.cmp o _ (.access _ _) _) => A o | _ => B) s Q := by
  cases n <;> try exact hB
  rename_i e
  cases e <;> try exact hB
  rename_i o op l r
  cases l <;> first | exact hB | exact hA _

/-! ## facts about token kinds used to see that a token is consumed -/

theorem levelOp_eof (k : Nat) : levelOp k .EXPRESSION_END = none := by
  unfold levelOp; split <;> first | rfl | contradiction

theorem parseLiteral?_eof {t : Tok} (h : t.k = .EXPRESSION_END) : parseLiteral? t = none := by
  unfold parseLiteral?; rw [h]

theorem parseLiteral?_err {t : Tok} {d : Diag} (h : parseLiteral? t = some (.error d)) : d.msg ≠ .budget := by
  unfold parseLiteral? at h
  split at h
  · simp only [Option.some.injEq] at h
    split at h
    · cases h
    · cases h; exact fun h => nomatch h
  · simp only [Option.some.injEq] at h
    split at h
    · cases h
    · cases h; exact fun h => nomatch h
  all_goals first | cases h | (simp only [Option.some.injEq] at h; cases h)

theorem isTypeTok_eof {t : Tok} (h : t.k = .EXPRESSION_END) : isTypeTok t = false := by
  unfold isTypeTok; rw [h]; rfl

theorem fileModeOf_eof : fileModeOf .EXPRESSION_END = none := rfl

/-- discharger: the current token is not the end marker, from the tests on its kind in the context -/
syntax "kindfact" : tactic
macro_rules
  | `(tactic| kindfact) => `(tactic|
      focus (intro hk
             simp [hk, levelOp_eof, parseLiteral?_eof, isTypeTok_eof, fileModeOf_eof] at *
             done))

/-- one step of the calculus -/
syntax "pstep" : tactic
macro_rules
  | `(tactic| pstep) => `(tactic| first
      | (with_reducible refine Safe.cur ?_)
      | (with_reducible refine Safe.get ?_)
      | (with_reducible refine Safe.peekIs (fun _ => ?_))
      | ((with_reducible refine Safe.fail ?_); decide)
      | ((with_reducible refine Safe.failPed ?_); decide)
      | ((with_reducible refine Safe.advLt ?_ ?_ (fun _ _ _ => ?_)); assumption; kindfact)
      | ((with_reducible refine Safe.advLe ?_ (fun _ _ _ => ?_)); assumption)
      | ((with_reducible refine Safe.expect ?_ ?_ (fun _ _ _ => ?_)); assumption; decide)
      | ((with_reducible refine Safe.skipNL ?_ (fun _ _ _ => ?_)); assumption)
      | ((with_reducible refine Safe.modifyWarns ?_ (fun _ _ _ => ?_)); assumption)
      | (with_reducible refine Safe.ite (fun _ => ?_) (fun _ => ?_))
      | (with_reducible refine Safe.bind ?_)
      | (with_reducible refine Safe.pure ?_)
      | (exact ⟨by assumption, by omega⟩)
      | (exact ⟨by assumption, by omega, fun _ => by omega⟩))

end Pseudo.ParseFuel
