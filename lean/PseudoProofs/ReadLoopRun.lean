import PseudoProofs.ReadLoop
/-!
# The loop `WHILE NOT EOF(n) … READFILE n, line ; … ENDWHILE` on the evaluator, by induction on the lines read

* `whileLoop_readCount`: body `READFILE n, line ; cnt <- cnt + 1`, final state in closed form (`countFinal`).
* `whileLoop_readOutput`: body `READFILE n, line ; OUTPUT line`, final state in closed form (`outputFinal`); `output_outChunks`:
  the printed text grows by exactly the lines, each followed by a line break.
-/
namespace Pseudo.ReadLoop
open Pseudo Pseudo.FileStmt

/-- `NOT EOF("n")` as the parser builds it -/
def eofCond (tnot teof tn : Tok) (n : Str) : Expr := .not tnot (.call teof [.strLit tn n])

/-- `x <- x + 1` as the parser builds it -/
def incrStmt (ta tx tp tacc tv t1 : Tok) : Stmt :=
  .expr (.assign ta (.var tx) (.arith tp .add (.access tacc (.var tv)) (.intLit t1 1)))

/-- `OUTPUT x` as the parser builds it -/
def outStmt (to tacc tv : Tok) : Stmt := .output to [.access tacc (.var tv)]

/-- the state after the counting loop has read the lines `L`: per line three steps (round, READFILE, assignment) and one
    activation number (the call of `EOF`), plus one of each for the final test -/
def countFinal (σ : St) (a : Act) (rest : List Act) (n line cnt : Str) (v0 : Str) (c : Int) (L : List Str) : St :=
  { σ with steps := σ.steps + 3 * L.length + 1, nextId := σ.nextId + L.length + 1, handles := drain σ.handles n L,
           acts := setVar (setVar a line (.str (L.getLastD v0))) cnt (.int (c + L.length)) :: rest }

theorem wrap64_id' (x : Int) (h1 : -two63 ≤ x) (h2 : x < two63) : wrap64 x = x := by
  unfold wrap64
  have e : two64 = two63 + two63 := by decide
  rw [e]
  have h3 : 0 ≤ x + two63 := by omega
  have h4 : x + two63 < two63 + two63 := by omega
  rw [Int.emod_eq_of_lt h3 h4]
  omega

theorem isEmpty_false_of_ne {txt : Str} (h : txt ≠ []) : txt.isEmpty = false := by
  cases txt with
  | nil => exact absurd rfl h
  | cons _ _ => rfl

theorem countFinal_step (σ : St) (a : Act) (rest : List Act) (n line cnt : Str) (v0 l r : Str) (c : Int) (L : List Str)
    (hne : line ≠ cnt) (hL : L = [] → r = []) :
    countFinal { σ with steps := σ.steps + 1 + 1 + 1, nextId := σ.nextId + 1, handles := setRest σ.handles n r,
                        acts := setVar (setVar a line (.str l)) cnt (.int (c + 1)) :: rest }
      (setVar (setVar a line (.str l)) cnt (.int (c + 1))) rest n line cnt l (c + 1) L =
    countFinal σ a rest n line cnt v0 c (l :: L) := by
  have hacts : setVar (setVar (setVar (setVar a line (.str l)) cnt (.int (c + 1))) line (.str (L.getLastD l))) cnt
        (.int (c + 1 + L.length)) =
      setVar (setVar a line (.str ((l :: L).getLastD v0))) cnt (.int (c + ((l :: L).length : Nat))) := by
    rw [setVar_comm a line cnt _ _ hne, setVar_setVar_same, ← setVar_comm a line cnt _ _ hne, setVar_setVar_same]
    have e : c + 1 + (L.length : Int) = c + (((l :: L).length : Nat) : Int) := by
      simp only [List.length_cons]; omega
    rw [e, List.getLastD_cons]
  unfold countFinal
  dsimp only
  rw [hacts, drain_step σ.handles n r l L hL]
  have e1 : σ.steps + 1 + 1 + 1 + 3 * L.length + 1 = σ.steps + 3 * (l :: L).length + 1 := by
    simp only [List.length_cons]; omega
  have e2 : σ.nextId + 1 + L.length + 1 = σ.nextId + (l :: L).length + 1 := by
    simp only [List.length_cons]; omega
  rw [e1, e2]

theorem whileLoop_readCount (tw tnot teof tn1 tr tn2 idLine ta tx tp tacc tv t1 : Tok) (n : Str)
    (heof : teof.val = "EOF".toList) (htv : tv.val = tx.val) :
    ∀ (txt : Str) (L : List Str), Reads txt L →
    ∀ (σ : St) (a : Act) (rest : List Act) (h : Handle) (v0 : Str) (c : Int),
      σ.acts = a :: rest → a.switchTok = none → a.isComp = false → σ.depth + 1 ≤ σ.depthLimit →
      HasVar a idLine.val .str (.str v0) → HasVar a tx.val .int (.int c) →
      FState.handle (fileSt σ) n = some h → h.mode = .read → h.rest = txt →
      -two63 ≤ c → c + L.length < two63 →
      σ.steps + 3 * L.length + 1 ≤ σ.stepLimit →
      (whileLoop (L.length + 10) tw (eofCond tnot teof tn1 n)
          [.readFile tr (.strLit tn2 n) idLine, incrStmt ta tx tp tacc tv t1]).run.run σ =
        (.ok ⟨⟩, countFinal σ a rest n idLine.val tx.val v0 c L) := by
  intro txt L hreads
  induction hreads with
  | nil =>
    intro σ a rest h v0 c hacts hsw hcomp hd hline hcnt hh hm hrest hc1 hc2 hbud
    have hσ1 : eofSt (tickSt σ) = { σ with steps := σ.steps + 1, nextId := σ.nextId + 1 } :=
      eofSt_eq (tickSt σ) a rest hacts hsw
    have hcond := run_notEOF 4 tnot teof tn1 n (tickSt σ) a rest h heof hacts hd hh hm
    rw [hrest] at hcond
    unfold eofCond
    show (whileLoop (9 + 1) tw _ _).run.run σ = _
    rw [while_round_false 9 tw _ _ σ _ (by omega) hcond, hσ1]
    unfold countFinal drain
    simp only [List.length_nil, Nat.mul_zero, Nat.add_zero, List.getLastD_nil, Int.natCast_zero, Int.add_zero]
    rw [setVar_id a idLine.val .str _ hline, setVar_id a tx.val .int _ hcnt, ← hacts]
  | cons txt l r L hne hrl hreads ih =>
    intro σ a rest h v0 c hacts hsw hcomp hd hline hcnt hh hm hrest hc1 hc2 hbud
    simp only [List.length_cons] at hc2 hbud ⊢
    have hcast : ((L.length + 1 : Nat) : Int) = (L.length : Int) + 1 := by omega
    have hnames : idLine.val ≠ tx.val := hasVar_ne a _ _ _ _ _ _ hline hcnt (by decide)
    have hrl' : readLineOf h.rest = (l, r) := by rw [hrest]; exact hrl
    -- the test
    have hσ1 : eofSt (tickSt σ) = { σ with steps := σ.steps + 1, nextId := σ.nextId + 1 } :=
      eofSt_eq (tickSt σ) a rest hacts hsw
    have hcond := run_notEOF (L.length + 5) tnot teof tn1 n (tickSt σ) a rest h heof hacts hd hh hm
    rw [hrest, isEmpty_false_of_ne hne, hσ1] at hcond
    -- READFILE
    obtain ⟨sl, hsl, hslty, hslc, hslr, hslv⟩ := hline
    let σ1 : St := { σ with steps := σ.steps + 1, nextId := σ.nextId + 1 }
    have h1 := run_readFile_cur (L.length + 5) tr tn2 idLine n σ1 a rest sl v0 h (by show σ.steps + 1 + 1 ≤ σ.stepLimit; omega)
      hacts hsl hslty hslc hslr hslv hh hm
    rw [hrl'] at h1
    -- the counter
    let a2 : Act := setVar a idLine.val (.str l)
    let σ2 : St := { σ with steps := σ.steps + 1 + 1, nextId := σ.nextId + 1, handles := setRest σ.handles n r,
                            acts := a2 :: rest }
    obtain ⟨sc, hsc, hscty, hscc, hscr, hscv⟩ := hasVar_setVar_ne a idLine.val tx.val .int (.int c) (.str l) hnames hcnt
    have h2 := run_incr (L.length + 1) ta tx tp tacc tv t1 σ2 a2 rest sc c (by show σ.steps + 1 + 1 + 1 ≤ σ.stepLimit; omega)
      rfl hcomp htv hsc hscty hscc hscr hscv
    rw [wrap64_id' (c + 1) (by omega) (by omega)] at h2
    -- the remaining rounds
    let a3 : Act := setVar a2 tx.val (.int (c + 1))
    let σ3 : St := { σ with steps := σ.steps + 1 + 1 + 1, nextId := σ.nextId + 1, handles := setRest σ.handles n r,
                            acts := a3 :: rest }
    have hbody : (loopBody (L.length + 10) [.readFile tr (.strLit tn2 n) idLine, incrStmt ta tx tp tacc tv t1]).run.run σ1 =
        (.ok false, σ3) := run_loopBody2 (L.length + 7) _ _ σ1 σ2 σ3 h1 h2
    have hline3 : HasVar a3 idLine.val .str (.str l) :=
      hasVar_setVar_ne a2 tx.val idLine.val .str (.str l) _ (Ne.symm hnames)
        (hasVar_setVar_same a idLine.val .str (.str v0) (.str l) ⟨sl, hsl, hslty, hslc, hslr, hslv⟩)
    have hcnt3 : HasVar a3 tx.val .int (.int (c + 1)) :=
      hasVar_setVar_same a2 tx.val .int (.int c) _ ⟨sc, hsc, hscty, hscc, hscr, hscv⟩
    have hh3 : FState.handle (fileSt σ3) n = some { h with rest := r } := find_setRest σ.handles n r h hh
    have hrec := ih σ3 a3 rest { h with rest := r } l (c + 1) rfl hsw hcomp hd hline3 hcnt3 hh3 hm rfl (by omega) (by omega)
      (by show σ.steps + 1 + 1 + 1 + 3 * L.length + 1 ≤ σ.stepLimit; omega)
    unfold eofCond at ih hrec ⊢
    show (whileLoop ((L.length + 10) + 1) tw _ _).run.run σ = _
    rw [while_round_true (L.length + 10) tw _ _ σ σ1 σ3 (by omega) hcond hbody, hrec]
    exact congrArg (Prod.mk _) (countFinal_step σ a rest n idLine.val tx.val v0 l r c L hnames
      (fun hL => by subst hL; exact hreads.nil_inv))

/-! ### body `READFILE n, line ; OUTPUT line` -/

/-- the output chunks (newest first) after the lines `L` have been printed on top of `acc`: the text, then the line break -/
def outChunks : List Str → List Str → List Str
  | [], acc => acc
  | l :: L, acc => outChunks L (['\n'] :: l :: acc)

/-- the state after the printing loop has read the lines `L` -/
def outputFinal (σ : St) (a : Act) (rest : List Act) (n line : Str) (v0 : Str) (L : List Str) : St :=
  { σ with steps := σ.steps + 3 * L.length + 1, nextId := σ.nextId + L.length + 1, handles := drain σ.handles n L,
           acts := setVar a line (.str (L.getLastD v0)) :: rest, out := outChunks L σ.out }

/-- the text the chunks stand for -/
theorem flatten_outChunks : ∀ (L : List Str) (acc : List Str),
    ((outChunks L acc).reverse).foldr (· ++ ·) [] = (acc.reverse).foldr (· ++ ·) [] ++ joinLines L
  | [], acc => by simp [outChunks, joinLines]
  | l :: L, acc => by
    rw [outChunks, flatten_outChunks L]
    simp [joinLines, List.foldr_append]

/-- **the printed text grows by exactly the lines, each followed by a line break** -/
theorem output_outputFinal (σ : St) (a : Act) (rest : List Act) (n line : Str) (v0 : Str) (L : List Str) :
    (outputFinal σ a rest n line v0 L).output = σ.output ++ joinLines L :=
  flatten_outChunks L σ.out

theorem outputFinal_step (σ : St) (a : Act) (rest : List Act) (n line : Str) (v0 l r : Str) (L : List Str)
    (hL : L = [] → r = []) :
    outputFinal { σ with steps := σ.steps + 1 + 1 + 1, nextId := σ.nextId + 1, handles := setRest σ.handles n r,
                         acts := setVar a line (.str l) :: rest, out := ['\n'] :: l :: σ.out }
      (setVar a line (.str l)) rest n line l L =
    outputFinal σ a rest n line v0 (l :: L) := by
  unfold outputFinal
  dsimp only
  rw [setVar_setVar_same, drain_step σ.handles n r l L hL, List.getLastD_cons]
  have e1 : σ.steps + 1 + 1 + 1 + 3 * L.length + 1 = σ.steps + 3 * (l :: L).length + 1 := by
    simp only [List.length_cons]; omega
  have e2 : σ.nextId + 1 + L.length + 1 = σ.nextId + (l :: L).length + 1 := by
    simp only [List.length_cons]; omega
  rw [e1, e2]
  rfl

theorem whileLoop_readOutput (tw tnot teof tn1 tr tn2 idLine to tacc tv : Tok) (n : Str)
    (heof : teof.val = "EOF".toList) (htv : tv.val = idLine.val) :
    ∀ (txt : Str) (L : List Str), Reads txt L →
    ∀ (σ : St) (a : Act) (rest : List Act) (h : Handle) (v0 : Str),
      σ.acts = a :: rest → a.switchTok = none → σ.depth + 1 ≤ σ.depthLimit →
      HasVar a idLine.val .str (.str v0) →
      FState.handle (fileSt σ) n = some h → h.mode = .read → h.rest = txt →
      σ.steps + 3 * L.length + 1 ≤ σ.stepLimit →
      (whileLoop (L.length + 10) tw (eofCond tnot teof tn1 n)
          [.readFile tr (.strLit tn2 n) idLine, outStmt to tacc tv]).run.run σ =
        (.ok ⟨⟩, outputFinal σ a rest n idLine.val v0 L) := by
  intro txt L hreads
  induction hreads with
  | nil =>
    intro σ a rest h v0 hacts hsw hd hline hh hm hrest hbud
    have hσ1 : eofSt (tickSt σ) = { σ with steps := σ.steps + 1, nextId := σ.nextId + 1 } :=
      eofSt_eq (tickSt σ) a rest hacts hsw
    have hcond := run_notEOF 4 tnot teof tn1 n (tickSt σ) a rest h heof hacts hd hh hm
    rw [hrest] at hcond
    unfold eofCond
    show (whileLoop (9 + 1) tw _ _).run.run σ = _
    rw [while_round_false 9 tw _ _ σ _ (by omega) hcond, hσ1]
    unfold outputFinal drain outChunks
    simp only [List.length_nil, Nat.mul_zero, Nat.add_zero, List.getLastD_nil]
    rw [setVar_id a idLine.val .str _ hline, ← hacts]
  | cons txt l r L hne hrl hreads ih =>
    intro σ a rest h v0 hacts hsw hd hline hh hm hrest hbud
    simp only [List.length_cons] at hbud ⊢
    have hrl' : readLineOf h.rest = (l, r) := by rw [hrest]; exact hrl
    have hσ1 : eofSt (tickSt σ) = { σ with steps := σ.steps + 1, nextId := σ.nextId + 1 } :=
      eofSt_eq (tickSt σ) a rest hacts hsw
    have hcond := run_notEOF (L.length + 5) tnot teof tn1 n (tickSt σ) a rest h heof hacts hd hh hm
    rw [hrest, isEmpty_false_of_ne hne, hσ1] at hcond
    obtain ⟨sl, hsl, hslty, hslc, hslr, hslv⟩ := hline
    let σ1 : St := { σ with steps := σ.steps + 1, nextId := σ.nextId + 1 }
    have h1 := run_readFile_cur (L.length + 5) tr tn2 idLine n σ1 a rest sl v0 h (by show σ.steps + 1 + 1 ≤ σ.stepLimit; omega)
      hacts hsl hslty hslc hslr hslv hh hm
    rw [hrl'] at h1
    let a2 : Act := setVar a idLine.val (.str l)
    let σ2 : St := { σ with steps := σ.steps + 1 + 1, nextId := σ.nextId + 1, handles := setRest σ.handles n r,
                            acts := a2 :: rest }
    have hline2 : HasVar a2 idLine.val .str (.str l) :=
      hasVar_setVar_same a idLine.val .str (.str v0) (.str l) ⟨sl, hsl, hslty, hslc, hslr, hslv⟩
    obtain ⟨s2, hs2, _, _, hs2r, hs2v⟩ := hline2
    have h2 := run_outputVar (L.length + 3) to tacc tv σ2 a2 rest s2 l (by show σ.steps + 1 + 1 + 1 ≤ σ.stepLimit; omega)
      rfl (by rw [htv]; exact hs2) hs2r hs2v
    let σ3 : St := { σ with steps := σ.steps + 1 + 1 + 1, nextId := σ.nextId + 1, handles := setRest σ.handles n r,
                            acts := a2 :: rest, out := ['\n'] :: l :: σ.out }
    have hbody : (loopBody (L.length + 10) [.readFile tr (.strLit tn2 n) idLine, outStmt to tacc tv]).run.run σ1 =
        (.ok false, σ3) := run_loopBody2 (L.length + 7) _ _ σ1 σ2 σ3 h1 h2
    have hline3 : HasVar a2 idLine.val .str (.str l) :=
      hasVar_setVar_same a idLine.val .str (.str v0) (.str l) ⟨sl, hsl, hslty, hslc, hslr, hslv⟩
    have hh3 : FState.handle (fileSt σ3) n = some { h with rest := r } := find_setRest σ.handles n r h hh
    have hrec := ih σ3 a2 rest { h with rest := r } l rfl hsw hd hline3 hh3 hm rfl
      (by show σ.steps + 1 + 1 + 1 + 3 * L.length + 1 ≤ σ.stepLimit; omega)
    unfold eofCond at ih hrec ⊢
    show (whileLoop ((L.length + 10) + 1) tw _ _).run.run σ = _
    rw [while_round_true (L.length + 10) tw _ _ σ σ1 σ3 (by omega) hcond hbody, hrec]
    exact congrArg (Prod.mk _) (outputFinal_step σ a rest n idLine.val v0 l r L
      (fun hL => by subst hL; exact hreads.nil_inv))

/-! ### a block of literal file statements followed by more statements -/

/-- `run_litBlock` with a tail: the literal file statements are the history `fsteps`; the tail then runs from the state they
    leave, with the fuel that is left -/
theorem run_litBlock_append (f : Nat) (t : Tok) (tail : Block) : ∀ (ops : List FOp) (σ : St) (s' : FState),
    (∀ op ∈ ops, IsLitOp op) → σ.steps + ops.length ≤ σ.stepLimit → fsteps (fileSt σ) ops = .ok s' →
    (runBlock (f + ops.length + 3) (ops.map (litStmt t) ++ tail)).run.run σ =
      (runBlock (f + 3) tail).run.run (afterSteps σ ops.length s')
  | [], σ, s', _, _, h => by
    simp only [fsteps] at h
    injection h with h
    subst h
    rfl
  | op :: ops, σ, s', hops, hb, h => by
    simp only [fsteps] at h
    cases hs : fstep (fileSt σ) op with
    | error m => rw [hs] at h; cases h
    | ok p =>
      obtain ⟨s1, r⟩ := p
      rw [hs] at h
      dsimp only at h
      simp only [List.length_cons] at hb ⊢
      have h1 := run_litStmt (f + ops.length) t op σ s1 r (hops op (List.mem_cons_self ..)) (by omega) hs
      have e : f + (ops.length + 1) + 3 = (f + ops.length + 3) + 1 := by omega
      rw [e, List.map_cons, List.cons_append, run_runBlock_cons _ _ _ _ _ h1]
      have h2 := run_litBlock_append f t tail ops (setFile (tickSt σ) s1) s' (fun o ho => hops o (List.mem_cons_of_mem _ ho))
        (by show σ.steps + 1 + ops.length ≤ σ.stepLimit; omega) h
      rw [h2]
      unfold afterSteps setFile tickSt
      simp only [Nat.add_assoc, Nat.add_comm 1]

/-- OPENFILE … FOR READ of a closed name that is a file: a fresh READ handle with the whole content unread, at the end of the
    handle table -/
theorem fstep_open_read (s : FState) (n c : Str) (hno : s.handle n = none) (hc : s.node n = some (.file c))
    (hlen : nameTooLong n = false) :
    fstep s (.open n .read) = .ok ({ s with handles := s.handles ++ [{ name := n, mode := .read, rest := c }] }, .unit) := by
  have hp : fpre s (.open n .read) = .ok () := by simp [fpre, hno]
  simp [fstep, hp, hc, hlen]

/-! ### `line` not declared: the first READFILE creates it -/

/-- the current activation after READFILE has created the STRING variable `x` with value `v` -/
def declVar (a : Act) (x : Str) (v : Str) : Act := { a with vars := a.vars ++ [{ name := x, ty := .str, val := .str v }] }

theorem updSlot_append_new (ss : List Slot) (x : Str) (s : Slot) (f : Slot → Slot) (hno : findSlot ss x = none)
    (hs : s.name = x) : updSlot (ss ++ [s]) x f = ss ++ [f s] := by
  induction ss with
  | nil => simp [updSlot, hs]
  | cons y ys ih =>
    unfold findSlot at hno ih
    by_cases hy : (y.name == x) = true
    · simp [hy] at hno
    · simp only [List.find?_cons, hy] at hno
      simp only [List.cons_append, updSlot, hy, Bool.false_eq_true, if_false, ih hno]

theorem setVar_declVar (a : Act) (x : Str) (v w : Str) (hno : findSlot a.vars x = none) :
    setVar (declVar a x v) x (.str w) = declVar a x w := by
  unfold setVar declVar
  dsimp only
  rw [updSlot_append_new a.vars x _ (fun s => { s with val := .str w }) hno rfl]

theorem hasVar_declVar (a : Act) (x : Str) (v : Str) (hno : findSlot a.vars x = none) :
    HasVar (declVar a x v) x .str (.str v) := by
  refine ⟨{ name := x, ty := .str, val := .str v }, ?_, rfl, rfl, rfl, rfl⟩
  unfold declVar findSlot at *
  simp only [List.find?_append, hno]
  simp

/-- READFILE into a name that is not a variable yet: the STRING variable is created at the end of the current activation -/
theorem run_readFile_new_cur (f : Nat) (t tn id : Tok) (n : Str) (σ : St) (a : Act) (rest : List Act) (h : Handle)
    (hb : σ.steps + 1 ≤ σ.stepLimit) (hacts : σ.acts = a :: rest) (hlv : lookupVarP σ id.val = .ok none)
    (hh : FState.handle (fileSt σ) n = some h) (hm : h.mode = .read) :
    (execStmt (f+3) (.readFile t (.strLit tn n) id)).run.run σ =
      (.ok .none, { σ with steps := σ.steps + 1, handles := setRest σ.handles n (readLineOf h.rest).2,
                           acts := declVar a id.val (readLineOf h.rest).1 :: rest }) := by
  have hno : findSlot a.vars id.val = none := by
    rw [lookupVarP_cons σ a rest hacts] at hlv
    injection hlv with hlv
    exact findSlot_none_of_lookup _ _ _ hlv
  obtain ⟨line, hr, hrun, _⟩ :=
    (C16_exec_readFile_new (f+1) t (.strLit tn n) id σ n a rest hb (evalsTo_strLit f tn n _) hacts hlv).1
      _ _ (fstep_readLine_ok (fileSt σ) n h hh hm)
  injection hr with hr
  subst hr
  rw [hrun]
  let σa : St := { σ with steps := σ.steps + 1, handles := setRest σ.handles n (readLineOf h.rest).2 }
  let σb : St := { σa with acts := declVar a id.val [] :: rest }
  have h1 : addStrVar σa a.id id.val = σb := by
    unfold addStrVar updSt
    simp only [σa, σb, declVar, hacts, updActs, beq_self_eq_true, if_true]
  have h2 := writeLocSt_cur σb (declVar a id.val []) rest id.val (.str (readLineOf h.rest).1) rfl
  have h3 : curLoc (declVar a id.val []) id.val = { act := a.id, isArr := false, name := id.val, path := [] } := rfl
  rw [h3, setVar_declVar a id.val _ _ hno] at h2
  have e : writeLocSt (addStrVar σa a.id id.val) { act := a.id, isArr := false, name := id.val, path := [] }
      (.str (readLineOf h.rest).1) = { σa with acts := declVar a id.val (readLineOf h.rest).1 :: rest } := by
    rw [h1, h2]
  exact congrArg (Prod.mk _) e

/-- the printing loop when `line` is not a variable yet: it is created by the first READFILE (not at all on an empty file) -/
theorem whileLoop_readOutput_new (tw tnot teof tn1 tr tn2 idLine to tacc tv : Tok) (n : Str)
    (heof : teof.val = "EOF".toList) (htv : tv.val = idLine.val)
    (txt : Str) (L : List Str) (hreads : Reads txt L)
    (σ : St) (a : Act) (rest : List Act) (h : Handle)
    (hacts : σ.acts = a :: rest) (hsw : a.switchTok = none) (hd : σ.depth + 1 ≤ σ.depthLimit)
    (hlv : lookupVarP σ idLine.val = .ok none)
    (hh : FState.handle (fileSt σ) n = some h) (hm : h.mode = .read) (hrest : h.rest = txt)
    (hbud : σ.steps + 3 * L.length + 1 ≤ σ.stepLimit) :
    (whileLoop (L.length + 10) tw (eofCond tnot teof tn1 n)
        [.readFile tr (.strLit tn2 n) idLine, outStmt to tacc tv]).run.run σ =
      (.ok ⟨⟩, { σ with steps := σ.steps + 3 * L.length + 1, nextId := σ.nextId + L.length + 1, handles := drain σ.handles n L,
                        acts := (match L.getLast? with | some l => declVar a idLine.val l | none => a) :: rest,
                        out := outChunks L σ.out }) := by
  have hσ1 : eofSt (tickSt σ) = { σ with steps := σ.steps + 1, nextId := σ.nextId + 1 } :=
    eofSt_eq (tickSt σ) a rest hacts hsw
  cases hreads with
  | nil =>
    have hcond := run_notEOF 4 tnot teof tn1 n (tickSt σ) a rest h heof hacts hd hh hm
    rw [hrest] at hcond
    unfold eofCond
    show (whileLoop (9 + 1) tw _ _).run.run σ = _
    rw [while_round_false 9 tw _ _ σ _ (by omega) hcond, hσ1]
    simp only [List.length_nil, Nat.mul_zero, Nat.add_zero, List.getLast?_nil, drain, outChunks]
    rw [← hacts]
  | cons txt l r L hne hrl hreads =>
    simp only [List.length_cons] at hbud ⊢
    have hno : findSlot a.vars idLine.val = none := by
      rw [lookupVarP_cons σ a rest hacts] at hlv
      injection hlv with hlv
      exact findSlot_none_of_lookup _ _ _ hlv
    have hrl' : readLineOf h.rest = (l, r) := by rw [hrest]; exact hrl
    have hcond := run_notEOF (L.length + 5) tnot teof tn1 n (tickSt σ) a rest h heof hacts hd hh hm
    rw [hrest, isEmpty_false_of_ne hne, hσ1] at hcond
    let σ1 : St := { σ with steps := σ.steps + 1, nextId := σ.nextId + 1 }
    have h1 := run_readFile_new_cur (L.length + 5) tr tn2 idLine n σ1 a rest h (by show σ.steps + 1 + 1 ≤ σ.stepLimit; omega)
      hacts hlv hh hm
    rw [hrl'] at h1
    let a2 : Act := declVar a idLine.val l
    let σ2 : St := { σ with steps := σ.steps + 1 + 1, nextId := σ.nextId + 1, handles := setRest σ.handles n r,
                            acts := a2 :: rest }
    have hline2 : HasVar a2 idLine.val .str (.str l) := hasVar_declVar a idLine.val l hno
    obtain ⟨s2, hs2, _, _, hs2r, hs2v⟩ := hline2
    have h2 := run_outputVar (L.length + 3) to tacc tv σ2 a2 rest s2 l (by show σ.steps + 1 + 1 + 1 ≤ σ.stepLimit; omega)
      rfl (by rw [htv]; exact hs2) hs2r hs2v
    let σ3 : St := { σ with steps := σ.steps + 1 + 1 + 1, nextId := σ.nextId + 1, handles := setRest σ.handles n r,
                            acts := a2 :: rest, out := ['\n'] :: l :: σ.out }
    have hbody : (loopBody (L.length + 10) [.readFile tr (.strLit tn2 n) idLine, outStmt to tacc tv]).run.run σ1 =
        (.ok false, σ3) := run_loopBody2 (L.length + 7) _ _ σ1 σ2 σ3 h1 h2
    have hh3 : FState.handle (fileSt σ3) n = some { h with rest := r } := find_setRest σ.handles n r h hh
    have hrec := whileLoop_readOutput tw tnot teof tn1 tr tn2 idLine to tacc tv n heof htv r L hreads σ3 a2 rest
      { h with rest := r } l rfl hsw hd (hasVar_declVar a idLine.val l hno) hh3 hm rfl
      (by show σ.steps + 1 + 1 + 1 + 3 * L.length + 1 ≤ σ.stepLimit; omega)
    unfold eofCond at hrec ⊢
    show (whileLoop ((L.length + 10) + 1) tw _ _).run.run σ = _
    rw [while_round_true (L.length + 10) tw _ _ σ σ1 σ3 (by omega) hcond hbody, hrec]
    unfold outputFinal
    have hL : L = [] → r = [] := fun hL => by subst hL; exact hreads.nil_inv
    rw [setVar_declVar a idLine.val l _ hno, drain_step σ.handles n r l L hL]
    have e1 : σ.steps + 1 + 1 + 1 + 3 * L.length + 1 = σ.steps + 3 * (L.length + 1) + 1 := by omega
    have e2 : σ.nextId + 1 + L.length + 1 = σ.nextId + (L.length + 1) + 1 := by omega
    have e3 : (l :: L).getLast? = some (L.getLastD l) := by
      rw [List.getLast?_cons, List.getLastD_eq_getLast?]
    rw [e1, e2, e3]
    rfl

end Pseudo.ReadLoop
