import PseudoProofs.NoCrashLMain
/-!
# C01 with TYPE statements anywhere: the REPL

`ReplOk cfg n first r` (`replOkB … = true`): every source text that the session `replLoop cfg n first r` hands to the interpreter — the
one-line and multi-line entries and the contents of the files named in RUNFILE — is in the sublanguage (`OkSrc`).
It follows the control flow of `replLoop` (`Top.lean`) line by line. `replLoop_ok`: such a session never reports a crash point.
-/
namespace Pseudo.NL
open Pseudo

def replChkB (chk : Str → Bool) (cfg : Cfg) : Nat → Bool → ReplSt → Bool
  | 0, _, _ => true
  | n + 1, first, r =>
    if r.crash.isSome then true else
    let st0 := if first then r.st else { r.st with out := marker :: r.st.out }
    let st1 := { st0 with out := "> ".toList :: st0.out, steps := 0, depth := 0 }
    match (ExceptT.run getLine).run st1 with
    | (.ok (code, ok), st2) =>
      if !ok then true
      else if code.isEmpty then replChkB chk cfg n false { r with st := st2 }
      else if code == ['?'] then replChkB chk cfg n false { r with st := { st2 with out := helpText :: st2.out } }
      else if code == "EXIT".toList then true
      else if startsWith code "RUNFILE".toList then
        if code.length < 9 then replChkB chk cfg n false { r with st := st2, errLines := "Expected filename".toList :: r.errLines }
        else
          let fname := stripTrailingBlanks (code.drop 8)
          let st3 := { st2 with out := ("==> Running file '".toList ++ fname ++ "'\n".toList) :: st2.out }
          match st3.fs.find? (·.1 == fname) with
          | some (_, .file content) =>
            chk (content ++ ['\n']) &&
            (let (o, s) := runFileOn cfg content st3.fs st3.stdin st3.stdinEof
             let okRun := match o with | .ok => true | _ => false
             let st4 := { st3 with out := (("\n==> Program exited " ++ (if okRun then "successfully" else "with an error") ++ "\n").toList) :: (s.out ++ st3.out),
                                   fs := s.fs, stdin := s.stdin, stdinEof := s.stdinEof }
             match o with
             | .ok => replChkB chk cfg n false { r with st := st4 }
             | .diag d =>
               if isBudget d then replChkB chk cfg n false { r with st := st4, inconclusive := true }
               else replChkB chk cfg n false { r with st := st4, diags := d :: r.diags }
             | .crash _ => true
             | .fuel => replChkB chk cfg n false { r with st := st4, inconclusive := true })
          | _ =>
            let st4 := { st3 with out := "\n==> Program exited with an error\n".toList :: st3.out }
            replChkB chk cfg n false { r with st := st4, errLines := ("Error: File '".toList ++ fname ++ "' not found!".toList) :: r.errLines }
      else
        let (full?, st3) : Option Str × St :=
          if multilineStart code then collectLines (st2.stdin.length + 2) code st2 else (some code, st2)
        match full? with
        | none => true
        | some src =>
          chk src &&
          (match runSource cfg src st3 with
           | (.ok, s) => replChkB chk cfg n false { r with st := s }
           | (.diag d, s) =>
             if isBudget d then replChkB chk cfg n false { r with st := s, inconclusive := true }
             else replChkB chk cfg n false { r with st := s, diags := d :: r.diags }
           | (.crash _, _) => true
           | (.fuel, s) => replChkB chk cfg n false { r with st := s, inconclusive := true })
    | (_, _) => true

/-- every source text that the session hands to the interpreter passes the check `chk` -/
def ReplChk (chk : Str → Bool) (cfg : Cfg) (n : Nat) (first : Bool) (r : ReplSt) : Prop := replChkB chk cfg n first r = true

instance (chk : Str → Bool) (cfg : Cfg) (n : Nat) (first : Bool) (r : ReplSt) : Decidable (ReplChk chk cfg n first r) := by
  unfold ReplChk; exact inferInstance

/-- every source text that the session hands to the interpreter is in the sublanguage -/
abbrev ReplOk (cfg : Cfg) (n : Nat) (first : Bool) (r : ReplSt) : Prop := ReplChk (okSrcB cfg) cfg n first r

theorem getLine_acts (σ : St) : ((ExceptT.run getLine).run σ).2.acts = σ.acts ∧ ((ExceptT.run getLine).run σ).2.nextId = σ.nextId ∧
    ((ExceptT.run getLine).run σ).2.procs = σ.procs ∧ ((ExceptT.run getLine).run σ).2.funs = σ.funs := by
  have := (io_getLine (Q := fun _ => True)).run σ
  exact ⟨this.1.acts, this.1.nextId, this.1.procs, this.1.funs⟩

theorem collectLines_acts : ∀ (n : Nat) (code : Str) (σ : St),
    (collectLines n code σ).2.acts = σ.acts ∧ (collectLines n code σ).2.nextId = σ.nextId ∧
    (collectLines n code σ).2.procs = σ.procs ∧ (collectLines n code σ).2.funs = σ.funs
  | 0, _, σ => ⟨rfl, rfl, rfl, rfl⟩
  | n + 1, code, σ => by
    unfold collectLines
    dsimp only
    have h1 := getLine_acts { σ with out := ". ".toList :: σ.out }
    rcases hr : (ExceptT.run getLine).run { σ with out := ". ".toList :: σ.out } with ⟨o, s⟩
    rw [hr] at h1
    cases o with
    | error e => exact h1
    | ok p =>
      obtain ⟨line, ok⟩ := p
      dsimp only
      split
      · exact h1
      · split
        · exact h1
        · have h2 := collectLines_acts n (code ++ ['\n'] ++ line) s
          exact ⟨h2.1.trans h1.1, h2.2.1.trans h1.2.1, h2.2.2.1.trans h1.2.2.1, h2.2.2.2.trans h1.2.2.2⟩

/-- the invariant of a session: well-formed, top-level -/
def SessOK (σ : St) : Prop := WF σ ∧ TopLevel σ

theorem SessOK.of_acts_eq {σ σ' : St} (h : SessOK σ) (ha : σ'.acts = σ.acts) (hn : σ'.nextId = σ.nextId)
    (hp : σ'.procs = σ.procs) (hf : σ'.funs = σ.funs) : SessOK σ' :=
  ⟨h.1.of_acts_eq ha hn hp hf, h.2.of_acts_eq ha⟩

section
variable (hall : ∀ f, AllTri f)
include hall

set_option maxHeartbeats 1000000 in
/-- **a REPL session whose entries and RUNFILE'd files are in the sublanguage never reports a crash point** -/
theorem replLoop_ok (cfg : Cfg) (chk : Str → Bool) (hchk : ∀ src, chk src = true → OkSrc cfg src) :
    ∀ (n : Nat) (first : Bool) (r : ReplSt), SessOK r.st → r.crash = none →
    ReplChk chk cfg n first r → (replLoop cfg n first r).crash = none
  | 0, _, r, _, hc, _ => hc
  | n + 1, first, r, hg, hc, hok => by
    have ih := replLoop_ok cfg chk hchk n
    unfold ReplChk at hok
    unfold replChkB at hok
    unfold replLoop
    have hcs : r.crash.isSome = false := by rw [hc]; rfl
    simp only [hcs, Bool.false_eq_true, if_false] at hok ⊢
    generalize hst1 : ({ (if first = true then r.st else { r.st with out := marker :: r.st.out }) with
        out := "> ".toList :: (if first = true then r.st else { r.st with out := marker :: r.st.out }).out,
        steps := 0, depth := 0 } : St) = st1 at hok ⊢
    have hg1 : SessOK st1 := by
      subst hst1
      cases first <;> exact hg.of_acts_eq rfl rfl rfl rfl
    have hgl := getLine_acts st1
    rcases hr : (ExceptT.run getLine).run st1 with ⟨o, st2⟩
    rw [hr] at hgl hok
    have hg2 : SessOK st2 := hg1.of_acts_eq hgl.1 hgl.2.1 hgl.2.2.1 hgl.2.2.2
    clear hgl hr hst1 hg1
    cases o with
    | error e => exact hc
    | ok p =>
      obtain ⟨code, ok⟩ := p
      dsimp only at hok ⊢
      split
      · exact hc
      · rename_i h1; rw [if_neg h1] at hok
        split
        · rename_i h2; rw [if_pos h2] at hok
          exact ih _ _ hg2 hc hok
        · rename_i h2; rw [if_neg h2] at hok
          split
          · rename_i h3; rw [if_pos h3] at hok
            exact ih _ _ (hg2.of_acts_eq rfl rfl rfl rfl) hc hok
          · rename_i h3; rw [if_neg h3] at hok
            split
            · exact hc
            · rename_i h4; rw [if_neg h4] at hok
              split
              · rename_i h5; rw [if_pos h5] at hok
                split
                · rename_i h6; rw [if_pos h6] at hok
                  exact ih _ _ hg2 hc hok
                · rename_i h6; rw [if_neg h6] at hok
                  try dsimp only at hok ⊢
                  rcases hfind : List.find? (fun x => x.1 == stripTrailingBlanks (List.drop 8 code)) st2.fs with _ | ⟨nm, node⟩
                  · rw [hfind] at hok ⊢
                    exact ih _ _ (hg2.of_acts_eq rfl rfl rfl rfl) hc hok
                  · rw [hfind] at hok ⊢
                    cases node with
                    | dir => exact ih _ _ (hg2.of_acts_eq rfl rfl rfl rfl) hc hok
                    | devFull => exact ih _ _ (hg2.of_acts_eq rfl rfl rfl rfl) hc hok
                    | file content =>
                      try dsimp only at hok ⊢
                      rw [Bool.and_eq_true] at hok
                      obtain ⟨hsrc, hok⟩ := hok
                      have hnc := runFileOn_ok hall cfg content (hchk _ hsrc) st2.fs st2.stdin st2.stdinEof
                      rcases hrf : runFileOn cfg content st2.fs st2.stdin st2.stdinEof with ⟨o, s⟩
                      rw [hrf] at hok hnc
                      try dsimp only at hok hnc ⊢
                      cases o with
                      | ok => exact ih _ _ (hg2.of_acts_eq rfl rfl rfl rfl) hc hok
                      | diag d =>
                        try dsimp only at hok ⊢
                        split
                        · rename_i hb; rw [if_pos hb] at hok
                          exact ih _ _ (hg2.of_acts_eq rfl rfl rfl rfl) hc hok
                        · rename_i hb; rw [if_neg hb] at hok
                          exact ih _ _ (hg2.of_acts_eq rfl rfl rfl rfl) hc hok
                      | crash p => exact absurd rfl (hnc p)
                      | fuel => exact ih _ _ (hg2.of_acts_eq rfl rfl rfl rfl) hc hok
              · rename_i h5; rw [if_neg h5] at hok
                have h23 : SessOK (if multilineStart code = true then collectLines (st2.stdin.length + 2) code st2
                    else (some code, st2)).2 := by
                  split
                  · have := collectLines_acts (st2.stdin.length + 2) code st2
                    exact hg2.of_acts_eq this.1 this.2.1 this.2.2.1 this.2.2.2
                  · exact hg2
                generalize (if multilineStart code = true then collectLines (st2.stdin.length + 2) code st2
                    else (some code, st2)) = p at h23 hok ⊢
                obtain ⟨full?, st3⟩ := p
                try dsimp only at h23 hok ⊢
                cases full? with
                | none => exact hc
                | some src =>
                  try dsimp only at hok ⊢
                  rw [Bool.and_eq_true] at hok
                  obtain ⟨hsrc, hok⟩ := hok
                  have hrs := runSource_ok hall cfg src (hchk _ hsrc) st3 h23.1 h23.2
                  rcases hs : runSource cfg src st3 with ⟨o', s⟩
                  rw [hs] at hrs hok
                  try dsimp only at hrs hok ⊢
                  cases o' with
                  | ok => exact ih _ _ ⟨hrs.1, hrs.2.1⟩ hc hok
                  | diag d =>
                    try dsimp only at hok ⊢
                    split
                    · rename_i hb; rw [if_pos hb] at hok
                      exact ih _ _ ⟨hrs.1, hrs.2.1⟩ hc hok
                    · rename_i hb; rw [if_neg hb] at hok
                      exact ih _ _ ⟨hrs.1, hrs.2.1⟩ hc hok
                  | crash p => exact absurd rfl (hrs.2.2 p)
                  | fuel => exact ih _ _ ⟨hrs.1, hrs.2.1⟩ hc hok

/-- the initial state of a REPL session -/
def replInit (cfg : Cfg) (fs : List (Str × FsNode)) (stdin : Str) : ReplSt :=
  { st := { St.init fs stdin cfg.pedantic true with stepLimit := cfg.stepLimit, depthLimit := cfg.depthLimit } }

/-- **REPL mode**: a session whose entries and RUNFILE'd files are in the sublanguage never ends in a crash point -/
theorem repl_chk_ok (cfg : Cfg) (chk : Str → Bool) (hchk : ∀ src, chk src = true → OkSrc cfg src)
    (fs : List (Str × FsNode)) (stdin : Str)
    (hok : ReplChk chk cfg (stdin.length + 2) true (replInit cfg fs stdin)) : (repl cfg fs stdin).crash = none := by
  unfold repl
  dsimp only
  exact replLoop_ok hall cfg chk hchk _ _ _
    ⟨(WF.init fs stdin cfg.pedantic true).of_acts_eq rfl rfl rfl rfl, (TopLevel.init fs stdin cfg.pedantic true).of_acts_eq rfl⟩
    rfl hok

/-- **REPL mode**: a session whose entries and RUNFILE'd files are in the sublanguage never ends in a crash point -/
theorem repl_ok (cfg : Cfg) (fs : List (Str × FsNode)) (stdin : Str)
    (hok : ReplOk cfg (stdin.length + 2) true (replInit cfg fs stdin)) : (repl cfg fs stdin).crash = none :=
  repl_chk_ok hall cfg (okSrcB cfg) (fun _ h => (okSrc_iff _ _).2 h) fs stdin hok

end

end Pseudo.NL
