import PseudoModel.Lexer
import PseudoModel.Parser
/-!
# Helper lemmas about the lexer model (`PseudoModel/Lexer.lean`)
Used by `Properties/C10.lean` (layout / comments / line endings) and `Properties/C20.lean` (`--pedantic`).
-/
namespace Pseudo

/-! ## cursor equations -/

@[simp] theorem Cur.cur_cons (x : Char) (xs : List Char) (l k : Nat) (la : Char) :
    (Cur.mk (x :: xs) l k la).cur = x := rfl

@[simp] theorem Cur.cur_nil (l k : Nat) (la : Char) : (Cur.mk [] l k la).cur = la := rfl

@[simp] theorem Cur.atEnd_cons (x : Char) (xs : List Char) (l k : Nat) (la : Char) :
    (Cur.mk (x :: xs) l k la).atEnd = false := rfl

@[simp] theorem Cur.atEnd_nil (l k : Nat) (la : Char) : (Cur.mk [] l k la).atEnd = true := rfl

/-- advance over a character that is not a line break, with a successor -/
theorem Cur.adv_cons_cons (x d : Char) (rest : List Char) (l k : Nat) (la : Char) (hx : x ≠ '\n') :
    (Cur.mk (x :: d :: rest) l k la).adv = Cur.mk (d :: rest) l (k + 1) d := by
  simp [Cur.adv, hx]

/-- advance over the last character when it is not a line break -/
theorem Cur.adv_single (x : Char) (l k : Nat) (la : Char) (hx : x ≠ '\n') :
    (Cur.mk [x] l k la).adv = Cur.mk [] l k x := by
  simp [Cur.adv, hx]

/-- advance over a line break, with a successor -/
theorem Cur.adv_nl_cons (d : Char) (rest : List Char) (l k : Nat) (la : Char) :
    (Cur.mk ('\n' :: d :: rest) l k la).adv = Cur.mk (d :: rest) (l + 1) 1 d := by
  simp [Cur.adv]

/-- the remaining input after one advance is the tail -/
@[simp] theorem Cur.adv_cs (c : Cur) : c.adv.cs = c.cs.tail := by
  obtain ⟨cs, l, k, la⟩ := c
  match cs with
  | [] => rfl
  | [_] => rfl
  | _ :: _ :: _ => rfl

/-- advancing over a non-line-break keeps the line -/
theorem Cur.adv_line_of_ne (c : Cur) (h : c.cur ≠ '\n') : c.adv.line = c.line := by
  obtain ⟨cs, l, k, la⟩ := c
  match cs with
  | [] => simp [Cur.adv, Cur.cur] at *; simp [h]
  | [x] => simp [Cur.adv, Cur.cur] at *; simp [h]
  | x :: y :: r => simp [Cur.adv, Cur.cur] at *; simp [h]

/-- advance over a non-line-break when something follows -/
theorem Cur.adv_cons_ne_nil (x : Char) (ys : List Char) (l k : Nat) (la : Char)
    (hx : x ≠ '\n') (hy : ys ≠ []) :
    (Cur.mk (x :: ys) l k la).adv = Cur.mk ys l (k + 1) (ys.head hy) := by
  match ys, hy with
  | d :: rest, _ => simp [Cur.adv, hx]

/-! ## `advWhile` over a run of characters satisfying the predicate -/

/-- `advWhile p` over a run `w` of `p`-characters (none a line break) followed by a non-`p`
    character `x` stops exactly at `x`: same line, column moved by `w.length`. -/
theorem advWhile_run (p : Char → Bool) (x : Char) (rest : List Char) (hx : p x = false) :
    ∀ (w : List Char) (n l k : Nat) (la : Char), (∀ c ∈ w, p c = true ∧ c ≠ '\n') → w.length < n →
      advWhile p n (Cur.mk (w ++ x :: rest) l k la)
        = Cur.mk (x :: rest) l (k + w.length) (if w = [] then la else x) := by
  intro w
  induction w with
  | nil =>
    intro n l k la _ hn
    match n, hn with
    | m + 1, _ => simp [advWhile, hx]
  | cons y w ih =>
    intro n l k la hw hn
    have hy : p y = true ∧ y ≠ '\n' := hw y (by simp)
    have hw' : ∀ c ∈ w, p c = true ∧ c ≠ '\n' := fun c hc => hw c (by simp [hc])
    match n, hn with
    | m + 1, hn =>
      have hlen : w.length < m := by simp at hn; omega
      have hne : w ++ x :: rest ≠ [] := by simp
      simp only [advWhile, List.cons_append, Cur.atEnd_cons, Cur.cur_cons, Bool.not_false,
        Bool.true_and, hy.1, if_true]
      rw [Cur.adv_cons_ne_nil _ _ _ _ _ hy.2 hne, ih m l (k + 1) _ hw' hlen]
      cases w with
      | nil => simp
      | cons z w' => simp; omega

/-- `advWhile p` over a run `w` of `p`-characters (none a line break) that ends the input:
    everything is consumed, the line is unchanged. -/
theorem advWhile_run_end (p : Char → Bool) :
    ∀ (w : List Char) (n l k : Nat) (la : Char), (∀ c ∈ w, p c = true ∧ c ≠ '\n') → w.length ≤ n →
      ∃ la', advWhile p n (Cur.mk w l k la) = Cur.mk [] l (k + (w.length - 1)) la' := by
  intro w
  induction w with
  | nil =>
    intro n l k la _ _
    refine ⟨la, ?_⟩
    cases n <;> simp [advWhile]
  | cons y w ih =>
    intro n l k la hw hn
    have hy : p y = true ∧ y ≠ '\n' := hw y (by simp)
    have hw' : ∀ c ∈ w, p c = true ∧ c ≠ '\n' := fun c hc => hw c (by simp [hc])
    match n, hn with
    | m + 1, hn =>
      have hlen : w.length ≤ m := by simpa using hn
      simp only [advWhile, Cur.atEnd_cons, Cur.cur_cons, Bool.not_false, Bool.true_and, hy.1, if_true]
      cases w with
      | nil =>
        rw [Cur.adv_single _ _ _ _ hy.2]
        exact ih m l k y hw' hlen
      | cons z w' =>
        rw [Cur.adv_cons_cons _ _ _ _ _ _ hy.2]
        obtain ⟨la', h⟩ := ih m l (k + 1) z hw' hlen
        refine ⟨la', ?_⟩
        rw [h]; simp; omega

/-! ## comments: `advWhile (· != '\n')` -/

/-- Skipping comment text `t` (no line break inside) stops exactly at the line break:
    the line is unchanged, the column moves by `t.length`. -/
theorem advWhile_notnl_mid (post : List Char) (t : List Char) (n l k : Nat) (la : Char)
    (ht : '\n' ∉ t) (hn : t.length < n) :
    advWhile (fun x => x != '\n') n (Cur.mk (t ++ '\n' :: post) l k la)
      = Cur.mk ('\n' :: post) l (k + t.length) (if t = [] then la else '\n') := by
  apply advWhile_run _ _ _ (by simp) _ _ _ _ _ _ hn
  intro c hc
  have : c ≠ '\n' := fun h => ht (h ▸ hc)
  simp [this]

/-- Comment text running to the end of the input: everything is skipped, the line is unchanged. -/
theorem advWhile_notnl_end (t : List Char) (n l k : Nat) (la : Char)
    (ht : '\n' ∉ t) (hn : t.length ≤ n) :
    ∃ la', advWhile (fun x => x != '\n') n (Cur.mk t l k la) = Cur.mk [] l (k + (t.length - 1)) la' := by
  apply advWhile_run_end _ _ _ _ _ _ _ hn
  intro c hc
  have : c ≠ '\n' := fun h => ht (h ▸ hc)
  simp [this]

/-! ## numbers: `scanNumber` over a run of digits -/

theorem isDigit_ne_nl {x : Char} (h : isDigit x = true) : x ≠ '\n' := by
  intro e; subst e; revert h; decide

theorem isDigit_ne_dot {x : Char} (h : isDigit x = true) : x ≠ '.' := by
  intro e; subst e; revert h; decide

/-- Scanning digits `ds` followed by a character that is neither a digit nor `.` stops at that character. -/
theorem scanNumber_digits (x : Char) (rest : List Char) (hx : isDigit x = false) (hx' : x ≠ '.') :
    ∀ (ds : List Char) (n l k : Nat) (la : Char) (dec : Bool), (∀ d ∈ ds, isDigit d = true) → ds.length < n →
      scanNumber n (Cur.mk (ds ++ x :: rest) l k la) dec
        = (Cur.mk (x :: rest) l (k + ds.length) (if ds = [] then la else x), dec) := by
  intro ds
  induction ds with
  | nil =>
    intro n l k la dec _ hn
    match n, hn with
    | m + 1, _ => simp [scanNumber, hx, hx']
  | cons d ds ih =>
    intro n l k la dec hd hn
    have hd0 : isDigit d = true := hd d (by simp)
    have hds : ∀ e ∈ ds, isDigit e = true := fun e he => hd e (by simp [he])
    match n, hn with
    | m + 1, hn =>
      have hlen : ds.length < m := by simp at hn; omega
      have hne : ds ++ x :: rest ≠ [] := by simp
      have hdot : (d == '.') = false := by simpa using isDigit_ne_dot hd0
      simp only [scanNumber, List.cons_append, Cur.atEnd_cons, Cur.cur_cons, hdot, hd0,
        Bool.false_and, Bool.false_eq_true, if_false, if_true]
      rw [Cur.adv_cons_ne_nil _ _ _ _ _ (isDigit_ne_nl hd0) hne, ih m l (k + 1) _ dec hds hlen]
      cases ds with
      | nil => simp
      | cons y t' => simp; omega

theorem take_len_sub (w : List Char) (x : Char) (rest : List Char) :
    (w ++ x :: rest).take ((w ++ x :: rest).length - (x :: rest).length) = w := by
  have : (w ++ x :: rest).length - (x :: rest).length = w.length := by simp
  rw [this]; simp

/-- `makeNumber` on digits followed by a character that is not a digit, `.` or `/`: an INTEGER token. -/
theorem makeNumber_digits_slash_slash (ds rest : List Char) (l k : Nat) (la : Char)
    (hne : ds ≠ []) (hd : ∀ d ∈ ds, isDigit d = true) :
    makeNumber (Cur.mk (ds ++ '/' :: '/' :: rest) l k la)
      = ({ k := .INTEGER, line := l, col := k, val := ds },
         Cur.mk ('/' :: '/' :: rest) l (k + ds.length) '/') := by
  have hs := scanNumber_digits '/' ('/' :: rest) (by decide) (by decide) ds
    ((ds ++ '/' :: '/' :: rest).length) l k la false hd (by simp)
  simp only [hne, if_false] at hs
  unfold makeNumber
  simp only [hs, take_len_sub]
  simp [countDigitsFrom, show isDigit '/' = false by decide]

/-! ## words: `makeWord` -/

def isIdentChar (ch : Char) : Bool := isAlnum ch || ch == '_'

theorem isIdentChar_ne_nl {x : Char} (h : isIdentChar x = true) : x ≠ '\n' := by
  intro e; subst e; revert h; decide

/-- `makeWord` on a word `w` followed by a non-identifier character: the keyword table decides. -/
theorem makeWord_run (cfg : LexCfg) (w : List Char) (x : Char) (rest : List Char) (l k : Nat) (la : Char)
    (hw : ∀ c ∈ w, isIdentChar c = true) (hx : isIdentChar x = false) :
    makeWord cfg (Cur.mk (w ++ x :: rest) l k la) =
      let c' := Cur.mk (x :: rest) l (k + w.length) (if w = [] then la else x)
      match lookupKeyword w with
      | some kk =>
        if cfg.pedantic && kk == .BREAK then .error { kind := .pedantic, line := l, col := k, msg := .pedBreak }
        else if cfg.pedantic && kk == .CONTINUE then .error { kind := .pedantic, line := l, col := k, msg := .pedContinue }
        else .ok ({ k := kk, line := l, col := k, val := if kk == .DATA_TYPE then w else [] }, c')
      | none => .ok ({ k := .IDENTIFIER, line := l, col := k, val := w }, c') := by
  have ha := advWhile_run (fun ch => isAlnum ch || ch == '_') x rest hx w
    ((w ++ x :: rest).length) l k la (fun c hc => ⟨hw c hc, isIdentChar_ne_nl (hw c hc)⟩) (by simp)
  unfold makeWord
  simp only [ha, take_len_sub]
  rfl

/-- `makeWord` on a word `w` that ends the input. -/
theorem makeWord_run_end (cfg : LexCfg) (w : List Char) (l k : Nat) (la : Char)
    (hw : ∀ c ∈ w, isIdentChar c = true) :
    ∃ la', makeWord cfg (Cur.mk w l k la) =
      let c' := Cur.mk [] l (k + (w.length - 1)) la'
      match lookupKeyword w with
      | some kk =>
        if cfg.pedantic && kk == .BREAK then .error { kind := .pedantic, line := l, col := k, msg := .pedBreak }
        else if cfg.pedantic && kk == .CONTINUE then .error { kind := .pedantic, line := l, col := k, msg := .pedContinue }
        else .ok ({ k := kk, line := l, col := k, val := if kk == .DATA_TYPE then w else [] }, c')
      | none => .ok ({ k := .IDENTIFIER, line := l, col := k, val := w }, c') := by
  obtain ⟨la', ha⟩ := advWhile_run_end (fun ch => isAlnum ch || ch == '_') w
    (w.length) l k la (fun c hc => ⟨hw c hc, isIdentChar_ne_nl (hw c hc)⟩) (Nat.le_refl _)
  refine ⟨la', ?_⟩
  unfold makeWord
  simp only [ha, List.length_nil, Nat.sub_zero, List.take_length]
  rfl

/-! ## `--pedantic` in the lexer: the pedantic run either raises a pedantic error or agrees -/

/-- "`x` is a pedantic error, or `x = y`" -/
def PedR {α : Type} (x y : Except Diag α) : Prop :=
  (∃ d, x = .error d ∧ d.kind = .pedantic) ∨ x = y

theorem PedR.refl {α : Type} (x : Except Diag α) : PedR x x := Or.inr rfl

theorem PedR.ite {α : Type} (b : Prop) [Decidable b] {x x' y y' : Except Diag α}
    (h1 : PedR x x') (h2 : PedR y y') : PedR (if b then x else y) (if b then x' else y') := by
  by_cases h : b <;> simp [h, h1, h2]

theorem PedR.map {α β : Type} (f : α → β) {x y : Except Diag α} (h : PedR x y) :
    PedR (x.map f) (y.map f) := by
  rcases h with ⟨d, hd, hk⟩ | h
  · exact Or.inl ⟨d, by rw [hd]; rfl, hk⟩
  · exact Or.inr (by rw [h])

theorem makeWord_pedR (c : Cur) : PedR (makeWord { pedantic := true } c) (makeWord { pedantic := false } c) := by
  unfold makeWord
  simp only []
  split
  · rename_i kk _
    by_cases h1 : kk = .BREAK
    · exact Or.inl ⟨_, by simp [h1]; rfl, rfl⟩
    · by_cases h2 : kk = .CONTINUE
      · exact Or.inl ⟨_, by simp [h2]; rfl, rfl⟩
      · exact Or.inr (by simp [h1, h2])
  · exact Or.inr rfl


theorem PedR.error {α : Type} (e : Diag) : PedR (Except.error e : Except Diag α) (Except.error e) := Or.inr rfl

theorem lexLoop_pedR : ∀ (n : Nat) (c : Cur) (prev : Option Char) (acc : List Tok),
    PedR (lexLoop { pedantic := true } n c prev acc) (lexLoop { pedantic := false } n c prev acc) := by
  intro n
  induction n with
  | zero => intro c prev acc; exact Or.inr rfl
  | succ n ih =>
    intro c prev acc
    obtain ⟨cs, l, k, la⟩ := c
    cases cs with
    | nil => exact Or.inr rfl
    | cons ch rest =>
      simp only [lexLoop]
      repeat' (first | exact ih _ _ _ | exact PedR.refl _ | apply PedR.ite)
      · generalize makeChar _ = r
        match r with
        | .error e => exact PedR.refl _
        | .ok (t, c1) => exact ih _ _ _
      · generalize makeString _ = r
        match r with
        | .error e => exact PedR.refl _
        | .ok (t, c1) => exact ih _ _ _
      · rcases makeWord_pedR ⟨ch :: rest, l, k, la⟩ with ⟨d, hd, hk⟩ | h
        · rw [hd]; exact Or.inl ⟨d, rfl, hk⟩
        · rw [h]
          generalize makeWord _ _ = r
          match r with
          | .error e => exact PedR.refl _
          | .ok (t, c1) => exact ih _ _ _

/-! ## column-insensitivity of the lexer -/

/-- two cursors that differ at most in the column -/
def Cur.eqc (a b : Cur) : Prop := a.cs = b.cs ∧ a.line = b.line ∧ a.last = b.last

/-- two tokens that differ at most in the column -/
def Tok.eqc (a b : Tok) : Prop := a.k = b.k ∧ a.line = b.line ∧ a.val = b.val

/-- two diagnostics that differ at most in the column -/
def Diag.eqc (a b : Diag) : Prop := a.kind = b.kind ∧ a.line = b.line ∧ a.msg = b.msg ∧ a.trace = b.trace

/-- lifting of a relation to results: both succeed with related values, or both fail with
    diagnostics equal up to the column -/
def ExRel {α : Type} (R : α → α → Prop) : Except Diag α → Except Diag α → Prop
  | .ok a, .ok b => R a b
  | .error d, .error e => Diag.eqc d e
  | _, _ => False

theorem Cur.eqc.refl (a : Cur) : Cur.eqc a a := ⟨rfl, rfl, rfl⟩

theorem Cur.eqc.mk (cs : List Char) (l k k' : Nat) (la : Char) : Cur.eqc ⟨cs, l, k, la⟩ ⟨cs, l, k', la⟩ :=
  ⟨rfl, rfl, rfl⟩

theorem Cur.eqc.exists {a b : Cur} (h : Cur.eqc a b) :
    ∃ cs l k k' la, a = ⟨cs, l, k, la⟩ ∧ b = ⟨cs, l, k', la⟩ := by
  obtain ⟨cs, l, k, la⟩ := a
  obtain ⟨cs', l', k', la'⟩ := b
  obtain ⟨h1, h2, h3⟩ := h
  simp only at h1 h2 h3
  subst h1 h2 h3
  exact ⟨_, _, _, _, _, rfl, rfl⟩

theorem Cur.eqc.cur {a b : Cur} (h : Cur.eqc a b) : a.cur = b.cur := by
  obtain ⟨cs, l, k, k', la, rfl, rfl⟩ := h.exists; rfl

theorem Cur.eqc.atEnd {a b : Cur} (h : Cur.eqc a b) : a.atEnd = b.atEnd := by
  obtain ⟨cs, l, k, k', la, rfl, rfl⟩ := h.exists; rfl

theorem Cur.eqc.peek {a b : Cur} (h : Cur.eqc a b) (n : Nat) : a.peek n = b.peek n := by
  obtain ⟨cs, l, k, k', la, rfl, rfl⟩ := h.exists; rfl

theorem Cur.eqc.adv {a b : Cur} (h : Cur.eqc a b) : Cur.eqc a.adv b.adv := by
  obtain ⟨cs, l, k, k', la, rfl, rfl⟩ := h.exists
  match cs with
  | [] => exact ⟨rfl, rfl, rfl⟩
  | [_] => exact ⟨rfl, rfl, rfl⟩
  | _ :: _ :: _ => exact ⟨rfl, rfl, rfl⟩

theorem advWhile_eqc (p : Char → Bool) : ∀ (n : Nat) {a b : Cur}, Cur.eqc a b →
    Cur.eqc (advWhile p n a) (advWhile p n b)
  | 0, _, _, h => h
  | n + 1, a, b, h => by
    simp only [advWhile, h.atEnd, h.cur]
    split
    · exact advWhile_eqc p n h.adv
    · exact h

theorem advN_eqc : ∀ (n : Nat) {a b : Cur}, Cur.eqc a b → Cur.eqc (advN n a) (advN n b)
  | 0, _, _, h => h
  | n + 1, _, _, h => advN_eqc n h.adv

theorem scanNumber_eqc : ∀ (n : Nat) {a b : Cur} (d : Bool), Cur.eqc a b →
    Cur.eqc (scanNumber n a d).1 (scanNumber n b d).1 ∧ (scanNumber n a d).2 = (scanNumber n b d).2
  | 0, _, _, _, h => ⟨h, rfl⟩
  | n + 1, a, b, d, h => by
    simp only [scanNumber, h.atEnd, h.cur]
    split
    · exact ⟨h, rfl⟩
    · split
      · exact scanNumber_eqc n true h.adv
      · split
        · exact scanNumber_eqc n d h.adv
        · exact ⟨h, rfl⟩

/-- relation on (token, cursor) results -/
def TokCur.eqc (p q : Tok × Cur) : Prop := Tok.eqc p.1 q.1 ∧ Cur.eqc p.2 q.2

theorem makeWord_eqc (cfg : LexCfg) {a b : Cur} (h : Cur.eqc a b) :
    ExRel TokCur.eqc (makeWord cfg a) (makeWord cfg b) := by
  have h' := advWhile_eqc (fun ch => isAlnum ch || ch == '_') a.cs.length h
  unfold makeWord
  simp only [← h.1]
  generalize advWhile _ _ a = a' at h'
  generalize advWhile _ _ b = b' at h'
  simp only [← h'.1, ← h'.2.1]
  split
  · split
    · exact ⟨rfl, rfl, rfl, rfl⟩
    · split
      · exact ⟨rfl, rfl, rfl, rfl⟩
      · exact ⟨⟨rfl, rfl, rfl⟩, h'⟩
  · exact ⟨⟨rfl, rfl, rfl⟩, h'⟩

theorem makeNumber_eqc {a b : Cur} (h : Cur.eqc a b) : TokCur.eqc (makeNumber a) (makeNumber b) := by
  obtain ⟨h1, h2⟩ := scanNumber_eqc a.cs.length false h
  unfold makeNumber
  simp only [← h.1]
  generalize scanNumber _ a false = r at h1 h2
  generalize scanNumber _ b false = r' at h1 h2
  obtain ⟨a1, d⟩ := r
  obtain ⟨b1, d'⟩ := r'
  simp only at h1 h2
  subst h2
  simp only [h1.atEnd, h1.cur, h1.peek, countDigitsFrom, ← h1.1, ← h1.2.1]
  split
  · exact ⟨⟨rfl, rfl, rfl⟩, h1⟩
  · split
    · exact ⟨⟨rfl, rfl, rfl⟩, h1⟩
    · split
      · exact ⟨⟨rfl, rfl, rfl⟩, h1⟩
      · split
        · exact ⟨⟨rfl, rfl, rfl⟩, h1⟩
        · have h3 := advWhile_eqc isDigit (advN (2 + ((a1.cs.drop 1).takeWhile isDigit).length) a1).cs.length
            (advN_eqc (2 + ((a1.cs.drop 1).takeWhile isDigit).length) h1)
          rw [← (advN_eqc (2 + ((a1.cs.drop 1).takeWhile isDigit).length) h1).1]
          exact ⟨⟨rfl, h3.2.1, by simp only [h3.1]⟩, h3⟩

theorem lexErr_eqc (l k k' : Nat) : Diag.eqc (lexErr l k) (lexErr l k') := ⟨rfl, rfl, rfl, rfl⟩

theorem makeChar_tail_eqc (ch : Char) (k k' : Nat) {a b : Cur} (h : Cur.eqc a b) :
    ExRel TokCur.eqc
      (if a.cs.length ≤ 1 || a.peek 1 != '\'' then .error (lexErr a.line a.col)
       else .ok ({ k := .CHAR, line := a.adv.adv.line, col := k, val := [ch] }, a.adv.adv))
      (if b.cs.length ≤ 1 || b.peek 1 != '\'' then .error (lexErr b.line b.col)
       else .ok ({ k := .CHAR, line := b.adv.adv.line, col := k', val := [ch] }, b.adv.adv)) := by
  simp only [← h.1, h.peek, ← h.2.1]
  split
  · exact lexErr_eqc _ _ _
  · exact ⟨⟨rfl, h.adv.adv.2.1, rfl⟩, h.adv.adv⟩

theorem makeChar_eqc {a b : Cur} (h : Cur.eqc a b) : ExRel TokCur.eqc (makeChar a) (makeChar b) := by
  have h1 := h.adv
  have h2 := h1.adv
  unfold makeChar
  simp only [← h.1, h1.cur, h2.cur]
  by_cases hl : a.cs.length ≤ 2
  · simp only [hl, if_true, ← h.2.1]; exact lexErr_eqc _ _ _
  · simp only [hl, if_false]
    by_cases e1 : (b.adv.cur == '\\') = true
    · simp only [e1, if_true]
      cases escSeq b.adv.adv.cur with
      | none => simp only [← h2.2.1]; exact lexErr_eqc _ _ _
      | some ch => exact makeChar_tail_eqc ch _ _ h2
    · simp only [e1]
      by_cases e2 : (b.adv.cur == '\'') = true
      · simp only [e2, if_true, ← h1.2.1]; exact lexErr_eqc _ _ _
      · simp only [e2]
        exact makeChar_tail_eqc _ _ _ h1

/-- relation on `scanString` results -/
def CurStr.eqc (p q : Cur × List Char) : Prop := Cur.eqc p.1 q.1 ∧ p.2 = q.2

theorem scanString_eqc : ∀ (n : Nat) {a b : Cur} (acc : List Char), Cur.eqc a b →
    ExRel CurStr.eqc (scanString n a acc) (scanString n b acc)
  | 0, _, _, _, h => ⟨h, rfl⟩
  | n + 1, a, b, acc, h => by
    have h1 := h.adv
    simp only [scanString, h.atEnd, h.cur, h1.cur]
    split
    · exact ⟨h, rfl⟩
    · split
      · split
        · exact scanString_eqc n _ h1.adv
        · simp only [← h1.2.1]; exact lexErr_eqc _ _ _
      · exact scanString_eqc n _ h1

theorem makeString_eqc {a b : Cur} (h : Cur.eqc a b) : ExRel TokCur.eqc (makeString a) (makeString b) := by
  have h1 := h.adv
  have h2 := scanString_eqc (a.adv.cs.length + 1) [] h1
  unfold makeString
  simp only [← h1.1]
  generalize scanString _ a.adv [] = r at h2
  generalize scanString _ b.adv [] = r' at h2
  match r, r', h2 with
  | .error d, .error e, h2 => exact h2
  | .ok (a2, s), .ok (b2, s'), h2 =>
    obtain ⟨h3, h4⟩ := h2
    simp only at h3 h4
    subst h4
    simp only [h3.atEnd, h3.cur]
    split
    · simp only [← h3.2.1]; exact lexErr_eqc _ _ _
    · exact ⟨⟨rfl, h3.adv.2.1, rfl⟩, h3.adv⟩

theorem ExRel.ite {α : Type} {R : α → α → Prop} (c : Prop) [Decidable c] {x x' y y' : Except Diag α}
    (h1 : ExRel R x x') (h2 : ExRel R y y') : ExRel R (if c then x else y) (if c then x' else y') := by
  by_cases h : c <;> simp [h, h1, h2]

theorem ExRel.error {α : Type} {R : α → α → Prop} {d e : Diag} (h : Diag.eqc d e) :
    ExRel R (.error d) (.error e) := h

theorem lexErr_eqc' {l l' : Nat} (k k' : Nat) (h : l = l') : Diag.eqc (lexErr l k) (lexErr l' k') :=
  ⟨rfl, h, rfl, rfl⟩

/-- a token with its column forgotten: kind, line, value -/
def Tok.noCol (t : Tok) : TK × Nat × Str := (t.k, t.line, t.val)

/-- two token lists that differ at most in the columns -/
def ToksEqc (a b : List Tok) : Prop := a.map Tok.noCol = b.map Tok.noCol

theorem ToksEqc.cons {t t' : Tok} {a b : List Tok} (hk : t.k = t'.k) (hl : t.line = t'.line)
    (hv : t.val = t'.val) (h : ToksEqc a b) : ToksEqc (t :: a) (t' :: b) := by
  unfold ToksEqc at *
  simp only [List.map_cons, h, Tok.noCol, hk, hl, hv]

theorem ToksEqc.cases {a b : List Tok} (h : ToksEqc a b) :
    (a = [] ∧ b = []) ∨ ∃ t t' a' b', a = t :: a' ∧ b = t' :: b' ∧ t.k = t'.k := by
  unfold ToksEqc at h
  match a, b, h with
  | [], [], _ => exact Or.inl ⟨rfl, rfl⟩
  | t :: a', t' :: b', h =>
    simp only [List.map_cons, List.cons.injEq, Tok.noCol, Prod.mk.injEq] at h
    exact Or.inr ⟨t, t', a', b', rfl, rfl, h.1.1⟩

/-- Column-insensitivity of the main loop. The previous character only matters for the `KEYWORD(`
    check, which needs a previous token; so it may differ when no token has been produced yet. -/
theorem lexLoop_eqc (cfg : LexCfg) : ∀ (n : Nat) {c c' : Cur} {prev prev' : Option Char} {acc acc' : List Tok},
    Cur.eqc c c' → ToksEqc acc acc' → (prev = prev' ∨ acc = []) →
    ExRel ToksEqc (lexLoop cfg n c prev acc) (lexLoop cfg n c' prev' acc') := by
  intro n
  induction n with
  | zero =>
    intro c c' prev prev' acc acc' h hacc _
    exact ToksEqc.cons rfl h.2.1 rfl hacc
  | succ n ih =>
    intro c c' prev prev' acc acc' h hacc hp
    have ih : ∀ {c c' : Cur} (prev : Option Char) {acc acc' : List Tok},
        Cur.eqc c c' → ToksEqc acc acc' →
        ExRel ToksEqc (lexLoop cfg n c prev acc) (lexLoop cfg n c' prev acc') :=
      fun prev _ _ hc ha => ih hc ha (Or.inl rfl)
    have h1 := h.adv
    have h2 := h1.adv
    obtain ⟨cs, l, k, k', la, rfl, rfl⟩ := h.exists
    cases cs with
    | nil => exact ToksEqc.cons rfl rfl rfl hacc
    | cons ch rest =>
      simp only [lexLoop]
      simp only [h1.atEnd, h1.cur, ← h1.1]
      repeat' (first
        | apply ExRel.ite
        | exact ih _ h1 (ToksEqc.cons rfl rfl rfl hacc)
        | exact ih _ h1 (ToksEqc.cons rfl h1.2.1 rfl hacc)
        | exact ih _ h2 (ToksEqc.cons rfl h1.2.1 rfl hacc)
        | exact ih _ h1 hacc
        | exact ExRel.error (lexErr_eqc' _ _ rfl)
        | exact ExRel.error (lexErr_eqc' _ _ h1.2.1))
      · exact ih _ (advWhile_eqc _ _ h1) hacc
      · rcases hacc.cases with ⟨rfl, rfl⟩ | ⟨t, t', a', b', rfl, rfl, hk⟩
        · cases prev <;> cases prev' <;> exact ih _ h1 (ToksEqc.cons rfl rfl rfl hacc)
        · have hp' : prev = prev' := hp.resolve_right (by simp)
          subst hp'
          cases prev with
          | none => exact ih _ h1 (ToksEqc.cons rfl rfl rfl hacc)
          | some p =>
            simp only [hk]
            exact ExRel.ite _ (ExRel.error (lexErr_eqc' _ _ rfl)) (ih _ h1 (ToksEqc.cons rfl rfl rfl hacc))
      · have hm := makeChar_eqc h
        generalize makeChar _ = r at hm
        generalize makeChar _ = r' at hm
        match r, r', hm with
        | .error d, .error e, hm => exact ExRel.error hm
        | .ok (t, c1), .ok (t', c1'), hm => exact ih _ hm.2 (ToksEqc.cons hm.1.1 hm.1.2.1 hm.1.2.2 hacc)
        | .ok _, .error _, hm => exact hm.elim
        | .error _, .ok _, hm => exact hm.elim
      · have hm := makeString_eqc h
        generalize makeString _ = r at hm
        generalize makeString _ = r' at hm
        match r, r', hm with
        | .error d, .error e, hm => exact ExRel.error hm
        | .ok (t, c1), .ok (t', c1'), hm => exact ih _ hm.2 (ToksEqc.cons hm.1.1 hm.1.2.1 hm.1.2.2 hacc)
        | .ok _, .error _, hm => exact hm.elim
        | .error _, .ok _, hm => exact hm.elim
      · have hm := makeWord_eqc cfg h
        generalize makeWord _ _ = r at hm
        generalize makeWord _ _ = r' at hm
        match r, r', hm with
        | .error d, .error e, hm => exact ExRel.error hm
        | .ok (t, c1), .ok (t', c1'), hm => exact ih _ hm.2 (ToksEqc.cons hm.1.1 hm.1.2.1 hm.1.2.2 hacc)
        | .ok _, .error _, hm => exact hm.elim
        | .error _, .ok _, hm => exact hm.elim
      · have hm := makeNumber_eqc h
        exact ih _ hm.2 (ToksEqc.cons hm.1.1 hm.1.2.1 hm.1.2.2 hacc)

theorem ToksEqc.reverse {a b : List Tok} (h : ToksEqc a b) : ToksEqc a.reverse b.reverse := by
  unfold ToksEqc at *
  simp only [List.map_reverse, h]

theorem ExRel.map_reverse {x y : Except Diag (List Tok)} (h : ExRel ToksEqc x y) :
    ExRel ToksEqc (x.map List.reverse) (y.map List.reverse) := by
  match x, y, h with
  | .ok a, .ok b, h => exact ToksEqc.reverse h
  | .error d, .error e, h => exact h

theorem ExRel.refl_toks (x : Except Diag (List Tok)) : ExRel ToksEqc x x := by
  match x with
  | .ok a => exact (rfl : a.map Tok.noCol = a.map Tok.noCol)
  | .error d => exact ⟨rfl, rfl, rfl, rfl⟩

theorem ExRel.trans_toks {x y z : Except Diag (List Tok)} (h1 : ExRel ToksEqc x y) (h2 : ExRel ToksEqc y z) :
    ExRel ToksEqc x z := by
  match x, y, z, h1, h2 with
  | .ok a, .ok b, .ok c, h1, h2 => exact (Eq.trans h1 h2 : a.map Tok.noCol = c.map Tok.noCol)
  | .error d, .error e, .error f, h1, h2 =>
    exact ⟨h1.1.trans h2.1, h1.2.1.trans h2.2.1, h1.2.2.1.trans h2.2.2.1, h1.2.2.2.trans h2.2.2.2⟩
  | .ok _, .error _, _, h1, _ => exact h1.elim
  | .error _, .ok _, _, h1, _ => exact h1.elim
  | .ok _, .ok _, .error _, _, h2 => exact h2.elim
  | .error _, .error _, .ok _, _, h2 => exact h2.elim

/-! ## `--pedantic` in the parser: simulation relation on the parser monad `P` -/

/-- "the pedantic run is a pedantic error, or both runs agree (result and state)" -/
def PedSim {α : Type} (mt mf : P α) : Prop :=
  ∀ s, (∃ d s', mt.run.run s = (.error d, s') ∧ d.kind = .pedantic) ∨ mt.run.run s = mf.run.run s

theorem PedSim.refl {α : Type} (m : P α) : PedSim m m := fun _ => Or.inr rfl

theorem PedSim.failPed {α : Type} (t : Tok) (msg : Msg) (m : P α) : PedSim (P.failPed t msg) m :=
  fun s => Or.inl ⟨_, s, rfl, rfl⟩

theorem PedSim.bind {α β : Type} {m m' : P α} {f f' : α → P β}
    (h : PedSim m m') (hf : ∀ a, PedSim (f a) (f' a)) : PedSim (m >>= f) (m' >>= f') := by
  intro s
  simp only [ExceptT.run_bind, StateT.run_bind]
  rcases h s with ⟨d, s', hd, hk⟩ | he
  · left
    refine ⟨d, s', ?_, hk⟩
    rw [hd]; rfl
  · rw [he]
    generalize (m'.run.run s) = r
    obtain ⟨r, s'⟩ := r
    cases r with
    | error e => right; rfl
    | ok a => exact hf a s'

theorem PedSim.ite {α : Type} (c : Prop) [Decidable c] {a a' b b' : P α}
    (h1 : PedSim a a') (h2 : PedSim b b') : PedSim (if c then a else b) (if c then a' else b') := by
  by_cases h : c <;> simp [h, h1, h2]

def cT : PCfg := { pedantic := true }
def cF : PCfg := { pedantic := false }
@[simp] theorem cT_ped : cT.pedantic = true := rfl
@[simp] theorem cF_ped : cF.pedantic = false := rfl

structure ExprSim (f : Nat) : Prop where
  level : ∀ k, PedSim (parseLevel cT f k) (parseLevel cF f k)
  loop : ∀ k l, PedSim (loopLevel cT f k l) (loopLevel cF f k l)
  factor : PedSim (parseFactor cT f) (parseFactor cF f)
  args : ∀ a, PedSim (parseArgs cT f a) (parseArgs cF f a)
  callArgs : PedSim (parseCallArgs cT f) (parseCallArgs cF f)
  atom : PedSim (parseAtom cT f) (parseAtom cF f)
  indices : ∀ a, PedSim (parseIndices cT f a) (parseIndices cF f a)
  ref : PedSim (parseRef cT f) (parseRef cF f)
  refLoop : ∀ r, PedSim (refLoop cT f r) (refLoop cF f r)

theorem exprSim_zero : ExprSim 0 := by
  constructor <;> intros <;> simp only [parseLevel, loopLevel, parseFactor, parseArgs, parseCallArgs, parseAtom, parseIndices, parseRef, refLoop] <;> exact PedSim.refl _

macro "pedsim_step" : tactic => `(tactic| first
  | exact PedSim.failPed _ _ _
  | with_reducible exact PedSim.refl _
  | refine PedSim.bind ?_ (fun _ => ?_)
  | split)

theorem exprSim_succ (f : Nat) (ih : ExprSim f) : ExprSim (f + 1) := by
  obtain ⟨ih1, ih2, ih3, ih4, ih5, ih6, ih7, ih8, ih9⟩ := ih
  constructor <;> intros <;>
    simp only [parseLevel, loopLevel, parseFactor, parseArgs, parseCallArgs, parseAtom, parseIndices,
      parseRef, refLoop, cT_ped, cF_ped, if_true, Bool.false_eq_true, if_false] <;>
    repeat' (first
      | with_reducible exact ih1 _ | with_reducible exact ih2 _ _ | with_reducible exact ih3
      | with_reducible exact ih4 _ | with_reducible exact ih5 | with_reducible exact ih6
      | with_reducible exact ih7 _ | with_reducible exact ih8 | with_reducible exact ih9 _
      | pedsim_step)

theorem exprSim : ∀ f, ExprSim f
  | 0 => exprSim_zero
  | f + 1 => exprSim_succ f (exprSim f)

theorem evalSim (f : Nat) : PedSim (parseEval cT f) (parseEval cF f) := (exprSim f).level 0
theorem arithSim (f : Nat) : PedSim (parseArithE cT f) (parseArithE cF f) := (exprSim f).level 4
theorem strSim (f : Nat) : PedSim (parseStrE cT f) (parseStrE cF f) := (exprSim f).level 3

theorem boundsSim : ∀ f acc, PedSim (parseBounds cT f acc) (parseBounds cF f acc)
  | 0, acc => by simp only [parseBounds]; exact PedSim.refl _
  | f + 1, acc => by
    have ih := boundsSim f
    simp only [parseBounds]
    repeat' (first
      | with_reducible exact ih _ | with_reducible exact arithSim _
      | pedsim_step)

theorem declareSim (f : Nat) : PedSim (parseDeclare cT f) (parseDeclare cF f) := by
  simp only [parseDeclare]
  repeat' (first
    | with_reducible exact boundsSim _ _
    | pedsim_step)

theorem compositeSim : ∀ f acc, PedSim (parseCompositeBody cT f acc) (parseCompositeBody cF f acc)
  | 0, acc => by simp only [parseCompositeBody]; exact PedSim.refl _
  | f + 1, acc => by
    have ih := compositeSim f
    simp only [parseCompositeBody]
    repeat' (first
      | with_reducible exact ih _ | with_reducible exact declareSim _
      | pedsim_step)

theorem typeSim (f : Nat) : PedSim (parseType cT f) (parseType cF f) := by
  simp only [parseType]
  repeat' (first
    | with_reducible exact compositeSim _ _
    | pedsim_step)

structure StmtSim (f : Nat) : Prop where
  block : ∀ bk acc, PedSim (parseBlock cT f bk acc) (parseBlock cF f bk acc)
  proc : PedSim (parseProcedure cT f) (parseProcedure cF f)
  func : PedSim (parseFunction cT f) (parseFunction cF f)
  els : ∀ acc, PedSim (parseElse cT f acc) (parseElse cF f acc)
  clauses : ∀ acc, PedSim (parseClauses cT f acc) (parseClauses cF f acc)
  stmt : PedSim (parseStmt cT f) (parseStmt cF f)

theorem stmtSim_zero : StmtSim 0 := by
  constructor <;> intros <;>
    simp only [parseBlock, parseProcedure, parseFunction, parseElse, parseClauses, parseStmt] <;>
    exact PedSim.refl _

theorem stmtSim_succ (f : Nat) (ih : StmtSim f) : StmtSim (f + 1) := by
  obtain ⟨ih1, ih2, ih3, ih4, ih5, ih6⟩ := ih
  have e := exprSim f
  constructor <;> intros <;>
    simp only [parseBlock, parseProcedure, parseFunction, parseElse, parseClauses, parseStmt,
      cT_ped, cF_ped, if_true, Bool.false_eq_true, if_false] <;>
    repeat' (first
      | with_reducible exact ih1 _ _ | with_reducible exact ih2 | with_reducible exact ih3
      | with_reducible exact ih4 _ | with_reducible exact ih5 _ | with_reducible exact ih6
      | with_reducible exact evalSim _ | with_reducible exact arithSim _ | with_reducible exact strSim _
      | with_reducible exact e.args _ | with_reducible exact e.callArgs | with_reducible exact e.ref
      | with_reducible exact declareSim _ | with_reducible exact typeSim _
      | pedsim_step)

theorem stmtSim : ∀ f, StmtSim f
  | 0 => stmtSim_zero
  | f + 1 => stmtSim_succ f (stmtSim f)

/-- the whole-program parser body -/
theorem parseMain_sim (toks : List Tok) :
    PedSim (do let b ← parseBlock cT (parseFuel toks) .main []
               let t ← P.cur
               if t.k != .EXPRESSION_END then P.fail t else return b)
           (do let b ← parseBlock cF (parseFuel toks) .main []
               let t ← P.cur
               if t.k != .EXPRESSION_END then P.fail t else return b) :=
  PedSim.bind ((stmtSim _).block _ _) (fun _ => PedSim.refl _)

theorem parse_pedSim (toks : List Tok) :
    (∃ d w, parse { pedantic := true } toks = .error (d, w) ∧ d.kind = .pedantic)
      ∨ parse { pedantic := true } toks = parse { pedantic := false } toks := by
  rcases parseMain_sim toks { toks := toks } with ⟨d, s', hd, hk⟩ | he
  · left
    refine ⟨d, s'.warns.reverse, ?_, hk⟩
    unfold parse
    simp only []
    rw [show ({ pedantic := true } : PCfg) = cT from rfl, hd]
  · right
    unfold parse
    simp only []
    rw [show ({ pedantic := true } : PCfg) = cT from rfl, he]
    rfl

end Pseudo
