import PseudoProofs.NoCrashSpec
/-!
# C01 step lemmas, part 2: `evalIndices`, `resolveRef`, `execAssign`
-/
namespace Pseudo.NC
open Pseudo
variable {f : Nat}

theorem inBounds_iff (d : Int × Int) (i : Int) : inBounds d i = true ↔ d.1 ≤ i ∧ i ≤ d.2 := by
  simp [inBounds]

theorem step_evalIndices (ih : AllTri f) : ∀ es dims acc, es.length = dims.length →
    Tri PT (evalIndices (f+1) es dims acc) (fun _ r _ => ∃ is', r = acc.reverse ++ is' ∧ InBoundsAll dims is') := by
  intro es dims acc hlen σ hW _
  cases es with
  | nil =>
    cases dims with
    | cons d ds => simp at hlen
    | nil =>
      rw [evalIndices.eq_def]
      exact Run.pure hW (Ext.refl σ) ⟨[], by simp, trivial⟩
  | cons e rest =>
    cases dims with
    | nil => simp at hlen
    | cons d ds =>
      rw [evalIndices.eq_def]
      dsimp only
      refine Run.bind (Ext.refl σ) (ih.evalExpr e σ hW trivial) fun v σ1 hW1 hE1 hE01 hv => ?_
      split
      · rename_i i d' ds' heq
        cases heq
        split
        · exact Run.rtErr hW1 hE01 _ _
        · rename_i hb
          have hb' : inBounds d i = true := by simpa using hb
          refine Run.of_tri hE01 (ih.evalIndices rest ds (i :: acc) (by simpa using hlen) σ1 hW1 trivial) ?_
          rintro r σ2 _ _ ⟨is', rfl, hin⟩
          exact ⟨i :: is', by simp, (inBounds_iff d i).1 hb', hin⟩
      · rename_i heq; cases heq
      · exact Run.rtErr hW1 hE01 _ _


theorem lin_bound : ∀ (dims : List (Int × Int)) (idx : List Int), InBoundsAll dims idx → lin dims idx < totalCells dims
  | [], [], _ => by simp [lin, totalCells]
  | [], _ :: _, h => by simp [InBoundsAll] at h
  | _ :: _, [], h => by simp [InBoundsAll] at h
  | d :: ds, i :: is, h => by
    obtain ⟨⟨h1, h2⟩, h3⟩ := h
    have ih := lin_bound ds is h3
    have hd : (i - d.1).toNat < dimSize d := by unfold dimSize; omega
    show (i - d.1).toNat + dimSize d * lin ds is < dimSize d * totalCells ds
    calc (i - d.1).toNat + dimSize d * lin ds is
        < dimSize d + dimSize d * lin ds is := by omega
      _ = dimSize d * (lin ds is + 1) := by rw [Nat.mul_add, Nat.mul_one, Nat.add_comm]
      _ ≤ dimSize d * totalCells ds := Nat.mul_le_mul_left _ ih

theorem step_resolveRef (ih : AllTri f) : ∀ r, Tri PT (resolveRef (f+1) r) (fun _ h σ' => HolderOK σ' h) := by
  intro r σ hW _
  have hE0 := Ext.refl σ
  cases r with
  | var t =>
    rw [resolveRef.eq_def]; dsimp only
    refine Run.ro hW hE0 (ro_lookupVar hW t.val) fun res ⟨a, rest, g, ha, hg, hres⟩ => ?_
    have hamem : a ∈ σ.acts := top_mem ha
    have hgmem : g ∈ σ.acts := getLast?_mem hg
    cases res with
    | some p =>
      obtain ⟨b, s⟩ := p
      dsimp only
      obtain ⟨hb, hs⟩ := lookupVarIn_some hres.symm
      have hbmem : b ∈ σ.acts := by rcases hb with rfl | rfl <;> assumption
      have hty := var_tyloc hW hbmem hs
      cases hr : s.ref with
      | some l =>
        rw [hr] at hty
        obtain ⟨v, hv, h1, h2⟩ := hty
        exact Run.pure hW hE0 ⟨v, hv, by simp [h1, h2]⟩
      | none =>
        rw [hr] at hty
        obtain ⟨v, hv, h1, h2⟩ := hty
        exact Run.pure hW hE0 ⟨v, hv, by simp [h1, h2]⟩
    | none =>
      dsimp only
      refine Run.ro hW hE0 (ro_lookupArr hW t.val) fun res ⟨a', rest', g', ha', hg', hres'⟩ => ?_
      cases res with
      | some p =>
        obtain ⟨b, s⟩ := p
        dsimp only
        obtain ⟨hb, hs⟩ := lookupArrIn_some hres'.symm
        have hbmem : b ∈ σ.acts := by
          rcases hb with rfl | rfl
          · exact top_mem ha'
          · exact getLast?_mem hg'
        obtain ⟨hrd, hok⟩ := arr_holder hW hbmem hs
        exact Run.pure hW hE0 ⟨s.val, hrd, by simp [hok]⟩
      | none => exact Run.rtErr hW hE0 _ _
  | field t r m =>
    rw [resolveRef.eq_def]; dsimp only
    refine Run.bind hE0 (ih.resolveRef r σ hW trivial) fun h σ1 hW1 hE1 hE01 hh => ?_
    split
    · exact Run.rtErr hW1 hE01 _ _
    · rename_i harr
      obtain ⟨v, hv, hk⟩ := hh
      rw [if_neg harr] at hk
      refine Run.ro hW1 hE01 (ro_readLoc hv) fun v' hv' => ?_
      subst hv'
      split
      · simp [simple] at hk
      · exact Run.rtErr hW1 hE01 _ _
  | deref t r =>
    rw [resolveRef.eq_def]; dsimp only
    refine Run.bind hE0 (ih.resolveRef r σ hW trivial) fun h σ1 hW1 hE1 hE01 hh => ?_
    split
    · exact Run.rtErr hW1 hE01 _ _
    · rename_i harr
      obtain ⟨v, hv, hk⟩ := hh
      rw [if_neg harr] at hk
      refine Run.ro hW1 hE01 (ro_readLoc hv) fun v' hv' => ?_
      subst hv'
      split
      · simp [simple] at hk
      · exact Run.rtErr hW1 hE01 _ _
  | index t r idx =>
    rw [resolveRef.eq_def]; dsimp only
    refine Run.bind hE0 (ih.resolveRef r σ hW trivial) fun h σ1 hW1 hE1 hE01 hh => ?_
    split
    · exact Run.rtErr hW1 hE01 _ _
    · rename_i harr
      have harr' : h.isArr = true := by simpa using harr
      obtain ⟨v, hv, hk⟩ := hh
      rw [if_pos harr'] at hk
      obtain ⟨dims, cells, rfl, hlen, hcells⟩ := hk
      refine Run.ro hW1 hE01 (ro_readLoc hv) fun v' hv' => ?_
      subst hv'
      dsimp only
      split
      · exact Run.rtErr hW1 hE01 _ _
      · rename_i hl
        have hl' : idx.length = dims.length := by simpa using hl
        refine Run.bind hE01 (ih.evalIndices idx dims [] hl' σ1 hW1 trivial) fun is σ2 hW2 hE2 hE02 his => ?_
        obtain ⟨is', his', hin⟩ := his
        have hisEq : is = is' := by simpa using his'
        subst hisEq
        obtain ⟨v2, hv2, k2⟩ := hE2.reads _ _ hv
        obtain ⟨cs', rfl, hlen', hcells'⟩ := k2.arr_inv hlen hcells
        have hlt : lin dims is < cs'.length := by
          rw [hlen']; exact lin_bound dims is hin
        obtain ⟨a, s, h1, h2, h3⟩ := hv2
        have hc := hcells' _ (List.getElem_mem hlt)
        refine Run.pure hW2 hE02 ⟨cs'[lin dims is], ⟨a, s, h1, h2, ?_⟩, by simpa using hc⟩
        show getPath s.val (h.loc.path ++ [Step.idx (lin dims is)]) = _
        rw [getPath_append _ h3, getPath_arr_cons, List.getElem?_eq_getElem hlt]
        exact getPath_nil _


/-- the block `catchNotDefined (resolveRef f r >>= pure ∘ some) handler` of `Expr.access`: without enum types the handler
    always rethrows, so the block yields a holder -/
theorem run_access_block (ih : AllTri f) (t : Tok) (r : Ref) {σ0 σ : St} (hW : WF σ) (hE : Ext σ0 σ) :
    Run (catchNotDefined (resolveRef f r >>= fun h => pure (some h)) fun e => do
          match ← getEnumElement t.val with
          | some _ => pure none
          | none => throw e) σ (ResE σ0 (fun o σ' => ∃ h, o = some h ∧ HolderOK σ' h) ErrOK) := by
  refine Run.catchND hE ?_ fun e σ1 hW1 hE1 hE01 he => ?_
  · refine Run.bind (Ext.refl σ) (ih.resolveRef r σ hW trivial) fun h σ1 hW1 hE1 hE01 hh => ?_
    exact Run.pure hW1 hE01 ⟨h, rfl, hh⟩
  · refine Run.ro hW1 hE01 (ro_getEnumElement hW1 _ _) fun o ho => ?_
    subst ho
    exact Run.throw hW1 hE01 he

theorem step_evalExpr (ih : AllTri f) : ∀ e, Tri PT (evalExpr (f+1) e) (fun _ v _ => simple v = true) := by
  intro e σ hW _
  have hE0 := Ext.refl σ
  cases e with
  | intLit t v => rw [evalExpr.eq_def]; exact Run.pure hW hE0 rfl
  | realLit t txt => rw [evalExpr.eq_def]; exact Run.pure hW hE0 rfl
  | boolLit t b => rw [evalExpr.eq_def]; exact Run.pure hW hE0 rfl
  | charLit t c => rw [evalExpr.eq_def]; exact Run.pure hW hE0 rfl
  | strLit t s => rw [evalExpr.eq_def]; exact Run.pure hW hE0 rfl
  | dateLit t d m y =>
    rw [evalExpr.eq_def]; dsimp only
    split
    · exact Run.pure hW hE0 rfl
    · exact Run.rtErr hW hE0 _ _
  | neg t a =>
    rw [evalExpr.eq_def]; dsimp only
    refine Run.bind hE0 (ih.evalExpr a σ hW trivial) fun v σ1 hW1 hE1 hE01 hv => ?_
    exact Run.ro_tail hW1 hE01 (ro_liftMsg t _) fun x hx => simple_evalNeg _ _ hx
  | arith t op l r =>
    rw [evalExpr.eq_def]; dsimp only
    refine Run.bind hE0 (ih.evalExpr l σ hW trivial) fun lv σ1 hW1 hE1 hE01 hlv => ?_
    refine Run.bind hE01 (ih.evalExpr r σ1 hW1 trivial) fun rv σ2 hW2 hE2 hE02 hrv => ?_
    refine Run.ro hW2 hE02 (ro_scopeAct hW2) fun a _ => ?_
    refine Run.ro hW2 hE02 (ro_globalAct hW2) fun g _ => ?_
    exact Run.ro_tail hW2 hE02 (ro_liftMsg t _) fun x hx => simple_evalArith _ _ _ _ _ hlv hrv hx
  | cmp t op l r =>
    rw [evalExpr.eq_def]; dsimp only
    refine Run.bind hE0 (ih.evalExpr l σ hW trivial) fun lv σ1 hW1 hE1 hE01 hlv => ?_
    refine Run.bind hE01 (ih.evalExpr r σ1 hW1 trivial) fun rv σ2 hW2 hE2 hE02 hrv => ?_
    exact Run.ro_tail hW2 hE02 (ro_liftMsg t _) fun x hx => simple_evalCmp _ _ _ _ hx
  | logic t op l r =>
    rw [evalExpr.eq_def]; dsimp only
    refine Run.bind hE0 (ih.evalExpr l σ hW trivial) fun lv σ1 hW1 hE1 hE01 hlv => ?_
    split
    · exact Run.pure hW1 hE01 rfl
    · refine Run.bind hE01 (ih.evalExpr r σ1 hW1 trivial) fun rv σ2 hW2 hE2 hE02 hrv => ?_
      exact Run.ro_tail hW2 hE02 (ro_liftMsg t _) fun x hx => simple_evalLogic _ _ _ _ hx
  | not t a =>
    rw [evalExpr.eq_def]; dsimp only
    refine Run.bind hE0 (ih.evalExpr a σ hW trivial) fun v σ1 hW1 hE1 hE01 hv => ?_
    exact Run.ro_tail hW1 hE01 (ro_liftMsg t _) fun x hx => simple_evalNot _ _ hx
  | concat t l r =>
    rw [evalExpr.eq_def]; dsimp only
    refine Run.bind hE0 (ih.evalExpr l σ hW trivial) fun lv σ1 hW1 hE1 hE01 hlv => ?_
    refine Run.bind hE01 (ih.evalExpr r σ1 hW1 trivial) fun rv σ2 hW2 hE2 hE02 hrv => ?_
    exact Run.ro_tail hW2 hE02 (ro_liftMsg t _) fun x hx => simple_evalConcat _ _ _ hx
  | cast t ty a =>
    rw [evalExpr.eq_def]; dsimp only
    refine Run.bind hE0 (ih.evalExpr a σ hW trivial) fun v σ1 hW1 hE1 hE01 hv => ?_
    exact Run.ro_tail hW1 hE01 (ro_liftMsg t _) fun x hx => simple_castTo _ _ _ hx
  | call t args =>
    rw [evalExpr.eq_def]; dsimp only
    exact Run.of_tri hE0 (ih.callFun t args σ hW trivial) fun _ _ _ _ h => h
  | access t r =>
    rw [evalExpr.eq_def]; dsimp only
    refine Run.bind hE0 (run_access_block ih t r hW (Ext.refl σ)) fun o σ1 hW1 hE1 hE01 ho => ?_
    obtain ⟨h, rfl, hh⟩ := ho
    dsimp only
    split
    · exact Run.rtErr hW1 hE01 _ _
    · rename_i harr
      obtain ⟨v, hv, hk⟩ := hh
      rw [if_neg harr] at hk
      exact Run.ro_tail hW1 hE01 (ro_readLoc hv) fun x hx => by subst hx; exact hk.1
  | assign t r rhs =>
    rw [evalExpr.eq_def]; dsimp only
    refine Run.bind hE0 (ih.execAssign t r rhs σ hW trivial) fun _ σ1 hW1 hE1 hE01 _ => ?_
    exact Run.pure hW1 hE01 rfl
  | ptrAssign t r v =>
    rw [evalExpr.eq_def]; dsimp only
    refine Run.bind hE0 (ih.resolveRef r σ hW trivial) fun ph σ1 hW1 hE1 hE01 hph => ?_
    split
    · exact Run.rtErr hW1 hE01 _ _
    · rename_i harr
      obtain ⟨pv, _, hk⟩ := hph
      rw [if_neg harr] at hk
      refine Run.bind hE01 (ih.resolveRef v σ1 hW1 trivial) fun vh σ2 hW2 hE2 hE02 hvh => ?_
      split
      · exact Run.rtErr hW2 hE02 _ _
      · split
        · rename_i pn hpn
          exact absurd (hk.2.trans hpn) (simple_ty_not_ptr hk.1 pn)
        · exact Run.rtErr hW2 hE02 _ _


theorem arrOK_inv {ty : Ty} {e : Ty} {d : List (Int × Int)} {c : List Val} (h : ArrOK ty (.arr e d c)) :
    e = ty ∧ c.length = totalCells d ∧ CellsOK ty c := by
  obtain ⟨dims, cells, heq, hl, hc⟩ := h
  cases heq
  exact ⟨rfl, hl, hc⟩

theorem step_execAssign (ih : AllTri f) : ∀ t r rhs, Tri PT (execAssign (f+1) t r rhs) QT := by
  intro t r rhs σ hW _
  have hE0 := Ext.refl σ
  rw [execAssign.eq_def]; dsimp only
  refine Run.ro hW hE0 (ro_curAct hW) fun cur _ => ?_
  refine Run.get_bind ?_
  -- the right-hand side: a value, or `none` for a whole-array source
  have hrhs : Run (tryCatch (evalExpr f rhs >>= fun v => pure (some v)) fun e =>
        match e with
        | .diag d =>
          if d.kind == .runtime && d.msg == .arrayDirect && (d.trace.head?.map (·.name)) == some cur.name
             && d.trace.length == σ.acts.length then
            match rhs with
            | .access _ _ => pure none
            | _ => throw e
          else throw e
        | _ => throw e) σ
      (ResE σ (fun o _ => (∀ v, o = some v → simple v = true) ∧ (o = none → ∃ t' r', rhs = .access t' r')) ErrOK) := by
    refine Run.tryCatch (E' := ErrOK) hE0 ?_ fun e σ1 hW1 hE1 hE01 he => ?_
    · refine Run.bind hE0 (ih.evalExpr rhs σ hW trivial) fun v σ1 hW1 hE1 hE01 hv => ?_
      exact Run.pure hW1 hE01 ⟨fun x hx => (by cases hx; exact hv), fun h => (by cases h)⟩
    · cases e with
      | diag d =>
        dsimp only
        split
        · split
          · exact Run.pure hW1 hE01 ⟨fun x hx => (by cases hx), fun _ => ⟨_, _, rfl⟩⟩
          · exact Run.throw hW1 hE01 he
        · exact Run.throw hW1 hE01 he
      | _ => exact Run.throw hW1 hE01 he
  refine Run.bind hE0 hrhs fun rv? σ1 hW1 hE1 hE01 hrv => ?_
  cases rv? with
  | none =>
    obtain ⟨at', sr, rfl⟩ := hrv.2 rfl
    dsimp only
    refine Run.bind hE01 (ih.resolveRef sr σ1 hW1 trivial) fun sh σ2 hW2 hE2 hE02 hsh => ?_
    split
    · exact Run.rtErr hW2 hE02 _ _
    · rename_i hsarr
      have hsarr' : sh.isArr = true := by simpa using hsarr
      refine Run.bind hE02 (ih.resolveRef r σ2 hW2 trivial) fun th σ3 hW3 hE3 hE03 hth => ?_
      have hsh3 := hsh.ext hE3
      split
      · exact Run.rtErr hW3 hE03 _ _
      · rename_i htarr
        have htarr' : th.isArr = true := by simpa using htarr
        obtain ⟨sv, hsv, hsk⟩ := hsh3
        rw [if_pos hsarr'] at hsk
        obtain ⟨tv, htv, htk⟩ := hth
        rw [if_pos htarr'] at htk
        refine Run.ro hW3 hE03 (ro_readLoc hsv) fun x hx => ?_
        subst hx
        refine Run.ro hW3 hE03 (ro_readLoc htv) fun y hy => ?_
        subst hy
        obtain ⟨sd, sc, rfl, hsl, hsc⟩ := hsk
        obtain ⟨td, tc, rfl, htl, htc⟩ := htk
        dsimp only
        split
        · exact Run.rtErr hW3 hE03 _ _
        · rename_i hty
          have hty' : sh.ty = th.ty := by simpa using hty
          split
          · exact Run.rtErr hW3 hE03 _ _
          · rename_i hdims
            have hdims' : sd = td := by simpa using hdims
            subst hdims'
            refine Run.of_tri hE03 (run_writeLoc hW3 t _ htv ?_) fun _ _ _ _ _ => trivial
            exact SameKind.of_arrOK rfl (by rw [hty']) (hsl.trans htl.symm) (by rw [← hty']; exact hsc)
  | some rv =>
    have hrvs : simple rv = true := hrv.1 rv rfl
    dsimp only
    -- the target: a holder, or `none` for a new variable
    have htgt : Run (catchNotDefined (resolveRef f r >>= fun h => pure (some h)) fun e => do
          match r with
          | .var vt =>
            if ← isIdentifierType vt then throw e
            else if (← get).pedantic then pedErr t .pedAssign
            else pure none
          | _ => throw e) σ1
        (ResE σ1 (fun o σ' => (∀ h, o = some h → HolderOK σ' h) ∧ (o = none → ∃ vt, r = .var vt)) ErrOK) := by
      refine Run.catchND (Ext.refl σ1) ?_ fun e σ2 hW2 hE2 hE02 he => ?_
      · refine Run.bind (Ext.refl σ1) (ih.resolveRef r σ1 hW1 trivial) fun h σ2 hW2 hE2 hE02 hh => ?_
        exact Run.pure hW2 hE02 ⟨fun x hx => (by cases hx; exact hh), fun h => (by cases h)⟩
      · split
        · rename_i vt
          refine Run.ro hW2 hE02 (ro_isIdentifierType hW2 vt true) fun b _ => ?_
          split
          · exact Run.throw hW2 hE02 he
          · refine Run.get_bind ?_
            split
            · exact Run.pedErr hW2 hE02 _ _
            · exact Run.pure hW2 hE02 ⟨fun x hx => (by cases hx), fun _ => ⟨vt, rfl⟩⟩
        · exact Run.throw hW2 hE02 he
    refine Run.bind hE01 htgt fun target σ2 hW2 hE2 hE02 htg => ?_
    cases target with
    | some h =>
      have hh := htg.1 h rfl
      dsimp only
      split
      · exact Run.rtErr hW2 hE02 _ _
      · rename_i harr
        obtain ⟨old, hold, hk⟩ := hh
        rw [if_neg harr] at hk
        refine Run.ro hW2 hE02 (ro_locIsConst h.loc) fun c _ => ?_
        have hrest : Run (if (implicitCast h.ty rv).ty != h.ty then rtErr t .typeMismatch
              else writeLoc t h.loc (implicitCast h.ty rv)) σ2 (ResE σ (QT σ) ErrOK) := by
          split
          · exact Run.rtErr hW2 hE02 _ _
          · rename_i hty
            have hty' : (implicitCast h.ty rv).ty = h.ty := by simpa using hty
            refine Run.of_tri hE02 (run_writeLoc hW2 t _ hold ?_) fun _ _ _ _ _ => trivial
            exact SameKind.of_simple hk.1 (simple_implicitCast _ _ hrvs) (hty'.trans hk.2.symm)
        split
        · refine Run.ro hW2 hE02 (ro_rtErr t .constAssign (fun _ => False)) fun _ hf => hf.elim
        · exact hrest
    | none =>
      obtain ⟨vt, rfl⟩ := htg.2 rfl
      dsimp only
      split
      · exact Run.rtErr hW2 hE02 _ _
      · exact Run.of_tri hE02 (run_addVar hW2 _ rfl hrvs rfl) fun _ _ _ _ _ => trivial

end Pseudo.NC
