import PseudoProofs.NoCrashLMain
import PseudoProofs.NoCrashLCounter
import PseudoProofs.NoCrashCounter
/-!
# C01 with TYPE statements anywhere: the former counterexamples are programs of the sublanguage (lexer and parser run by the kernel)
-/
namespace Pseudo
namespace NL

/-- the former counterexamples with procedure-level types are programs of the sublanguage -/
theorem progByrefReresolve_ok : OkSrc {} (C01.progByrefReresolve.toList ++ ['\n']) := by decide +kernel
theorem progEnum_ok : OkSrc {} (C01.progEnum.toList ++ ['\n']) := by decide +kernel
theorem progDangling_ok : OkSrc {} (C01.progDangling.toList ++ ['\n']) := by decide +kernel
theorem progPtr_ok : OkSrc {} (C01.progPtr.toList ++ ['\n']) := by decide +kernel
/-- … but the model-only counterexample (array bounds of a record member read from a variable) is not -/
theorem progRecordCopy_not_ok : ¬ OkSrc {} (C01.progRecordCopy.toList ++ ['\n']) := by decide +kernel

end NL
end Pseudo
