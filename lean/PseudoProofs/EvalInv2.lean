import PseudoProofs.EvalInv
/-!
# Generic preservation theorem, part 2: finer frames

`EvalInv.lean` builds `PrimOK` for relations that contain `SameActs` (only `acts` / `nextId` matter). Here:

* `IOStep`: what `emit`, `tick`, `getLine` and the depth counter do (only `out`, `steps`, `depth`, `stdin`, `stdinEof` change);
* `io_*` / `file_*`: exact description of the non-activation primitives;
* `primOK_build2`: `PrimOK R Q` from facts about states for relations that also look at `fs`, `handles`, `procs`, `funs`;
* `ReplFrame`, `runSource_rel2`, `collectLines_rel2`, `replLoop_rel2`: a whole REPL session respects every reflexive,
  transitive `R` that contains `ReplFrame` (everything but `out`, `steps`, `depth`, `stdin`, `stdinEof`, `fs` equal)
  and is respected by `runMain`.
-/
namespace Pseudo

/-- only the output, the step / depth counters and the standard input change -/
structure IOStep (σ σ' : St) : Prop where
  acts : σ'.acts = σ.acts
  nextId : σ'.nextId = σ.nextId
  procs : σ'.procs = σ.procs
  funs : σ'.funs = σ.funs
  fs : σ'.fs = σ.fs
  handles : σ'.handles = σ.handles
  pedantic : σ'.pedantic = σ.pedantic
  repl : σ'.repl = σ.repl
  stepLimit : σ'.stepLimit = σ.stepLimit
  depthLimit : σ'.depthLimit = σ.depthLimit

macro "io_step" : tactic => `(tactic| exact ⟨rfl, rfl, rfl, rfl, rfl, rfl, rfl, rfl, rfl, rfl⟩)

instance : RPre IOStep where
  refl _ := by io_step
  trans h1 h2 := ⟨h2.1.trans h1.1, h2.2.trans h1.2, h2.3.trans h1.3, h2.4.trans h1.4, h2.5.trans h1.5, h2.6.trans h1.6,
    h2.7.trans h1.7, h2.8.trans h1.8, h2.9.trans h1.9, h2.10.trans h1.10⟩

set_option linter.unusedSectionVars false

section io
variable {Q : Stop → Prop} [QBase Q]

theorem io_emit (x : Str) : Ens IOStep Q (emit x) := Ens.modify _ fun _ => by io_step

theorem io_tick (t : Tok) : Ens IOStep Q (tick t) := by
  unfold tick
  apply Ens.get_bind
  intro σ
  split
  · exact (Ens.l_rtErr t .budget).run σ
  · exact ⟨by io_step, fun e h => by cases h⟩

theorem io_getLine : Ens IOStep Q getLine := by
  unfold getLine
  apply Ens.get_bind
  intro σ
  split
  · exact ⟨by io_step, fun e h => by cases h⟩
  · dsimp only
    split
    · exact ⟨by io_step, fun e h => by cases h⟩
    · exact ⟨by io_step, fun e h => by cases h⟩

end io

theorem mkRuntime_run (l c : Nat) (msg : Msg) (σ : St) :
    ∃ d, (mkRuntime l c msg).run.run σ = (.ok d, σ) ∧ d.msg = msg ∧ d.kind = .runtime ∧ d.line = l ∧ d.col = c := by
  unfold mkRuntime
  rw [run_bind_ok _ _ _ _ _ (run_get σ)]
  cases hacts : σ.acts with
  | nil => exact ⟨_, rfl, rfl, rfl, rfl, rfl⟩
  | cons a parents => exact ⟨_, rfl, rfl, rfl, rfl, rfl⟩

/-- `rtErr` changes nothing and raises a runtime diagnostic with the given message at the token -/
theorem rtErr_run {α : Type} (t : Tok) (msg : Msg) (σ : St) :
    ∃ d, (rtErr t msg : M α).run.run σ = (.error (.diag d), σ) ∧ d.msg = msg ∧ d.kind = .runtime ∧
      d.line = t.line ∧ d.col = t.col := by
  obtain ⟨d, hd, h⟩ := mkRuntime_run t.line t.col msg σ
  refine ⟨d, ?_, h⟩
  unfold rtErr
  rw [run_bind_ok _ _ _ _ _ hd]
  rfl

theorem rtErr0_run {α : Type} (msg : Msg) (σ : St) :
    ∃ d, (rtErr0 msg : M α).run.run σ = (.error (.diag d), σ) ∧ d.msg = msg ∧ d.kind = .runtime := by
  obtain ⟨d, hd, h1, h2, _⟩ := mkRuntime_run 0 0 msg σ
  refine ⟨d, ?_, h1, h2⟩
  unfold rtErr0
  rw [run_bind_ok _ _ _ _ _ hd]
  rfl

/-- the state after a successful file step -/
def fileSt (σ : St) (f : FState) : St := { σ with fs := f.fs, handles := f.handles }

/-- one file statement: nothing happens (error), or the pure file layer makes one step -/
def FileStep (σ σ' : St) : Prop :=
  σ' = σ ∨ ∃ op f r, fstep { fs := σ.fs, handles := σ.handles } op = .ok (f, r) ∧ σ' = fileSt σ f

/-- `doFile` is exactly one `FileStep` -/
theorem file_doFile (t : Tok) (op : FOp) (σ : St) :
    FileStep σ ((doFile t op).run.run σ).2 ∧ ∀ e, ((doFile t op).run.run σ).1 = .error e → ∃ d, e = .diag d := by
  unfold doFile
  rw [run_bind_ok _ _ _ _ _ (run_get σ)]
  split
  · rename_i f r heq
    exact ⟨Or.inr ⟨op, f, r, heq, rfl⟩, fun e h => by cases h⟩
  · rename_i m _
    obtain ⟨d, hd, _⟩ := rtErr_run (α := FRes) t m σ
    rw [hd]
    exact ⟨Or.inl rfl, fun e h => by cases h; exact ⟨d, rfl⟩⟩

theorem file_doFile0 (op : FOp) (σ : St) :
    FileStep σ ((doFile0 op).run.run σ).2 ∧ ∀ e, ((doFile0 op).run.run σ).1 = .error e → ∃ d, e = .diag d := by
  unfold doFile0
  rw [run_bind_ok _ _ _ _ _ (run_get σ)]
  split
  · rename_i f r heq
    exact ⟨Or.inr ⟨op, f, r, heq, rfl⟩, fun e h => by cases h⟩
  · rename_i m _
    obtain ⟨d, hd, _⟩ := rtErr0_run (α := FRes) m σ
    rw [hd]
    exact ⟨Or.inl rfl, fun e h => by cases h; exact ⟨d, rfl⟩⟩

section builders2
variable {R : St → St → Prop} {Q : Stop → Prop} [RPre R] [QBase Q]

/-- `PrimOK` from facts about states, for relations that look at more than `acts` / `nextId`.
    `U` is a class of activation updates that `R` tolerates (at any position of the stack); the update functions
    used in `Eval.lean` must be in it. -/
theorem primOK_build2 (hIO : ∀ σ σ', IOStep σ σ' → R σ σ')
    (hfile : ∀ σ op f r, fstep { fs := σ.fs, handles := σ.handles } op = .ok (f, r) → R σ (fileSt σ f))
    (haddProc : ∀ σ p, R σ { σ with procs := σ.procs ++ [p] })
    (haddFun : ∀ σ p, R σ { σ with funs := σ.funs ++ [p] })
    (U : (Act → Act) → Prop) (hU : ∀ σ id f, U f → R σ (updSt σ id f))
    (hsw : ∀ v, U fun a => { a with switchTok := v }) (hret : ∀ v, U fun a => { a with retVal := v })
    (henum : ∀ x, U fun a => { a with enums := a.enums ++ [x] }) (hptr : ∀ x, U fun a => { a with ptrs := a.ptrs ++ [x] })
    (hcomp : ∀ x, U fun a => { a with comps := a.comps ++ [x] })
    (hvar : ∀ s, U fun a => { a with vars := a.vars ++ [s] }) (harr : ∀ s, U fun a => { a with arrs := a.arrs ++ [s] })
    (hwrite : ∀ t l v, Ens R Q (writeLoc t l v))
    (hbr : ∀ mk σ σ2, (∀ i, (mk i).id = i) → R (pushSt mk σ) σ2 → R σ (popSt σ2)) : PrimOK R Q where
  emit x := (io_emit x).mono hIO fun _ h => h
  tick t := (io_tick t).mono hIO fun _ h => h
  setSwitchTok id v := Ens.modifyAct_of _ _ fun σ => hU σ id _ (hsw v)
  setRetVal id v := Ens.modifyAct_of _ _ fun σ => hU σ id _ (hret v)
  addVar s := Ens.modifyCur_of _ fun σ id => hU σ id _ (hvar s)
  addArr s := Ens.modifyCur_of _ fun σ id => hU σ id _ (harr s)
  addEnum x := Ens.modifyCur_of _ fun σ id => hU σ id _ (henum x)
  addPtr x := Ens.modifyCur_of _ fun σ id => hU σ id _ (hptr x)
  addComp x := Ens.modifyCur_of _ fun σ id => hU σ id _ (hcomp x)
  writeLoc := hwrite
  withAct mk body hmk hb := Ens.withAct_of hbr mk body hmk hb
  getLine := io_getLine.mono hIO fun _ h => h
  doFile t op := ⟨fun σ => by
    obtain ⟨h1, h2⟩ := file_doFile t op σ
    refine ⟨?_, fun e he => by obtain ⟨d, rfl⟩ := h2 e he; exact QBase.diag d⟩
    rcases h1 with h | ⟨op', f, r, hf, h⟩
    · rw [h]; exact RPre.refl σ
    · rw [h]; exact hfile σ op' f r hf⟩
  doFile0 op := ⟨fun σ => by
    obtain ⟨h1, h2⟩ := file_doFile0 op σ
    refine ⟨?_, fun e he => by obtain ⟨d, rfl⟩ := h2 e he; exact QBase.diag d⟩
    rcases h1 with h | ⟨op', f, r, hf, h⟩
    · rw [h]; exact RPre.refl σ
    · rw [h]; exact hfile σ op' f r hf⟩
  depthInc := Ens.modify _ fun _ => hIO _ _ (by io_step)
  depthDec := Ens.modify _ fun _ => hIO _ _ (by io_step)
  addProc p := Ens.modify _ fun σ => haddProc σ p
  addFun p := Ens.modify _ fun σ => haddFun σ p

end builders2

/-! ### the REPL again -/

/-- between two entries of a REPL session: everything but the output, the counters, the standard input and the
    file system (RUNFILE brings back the file system of the finished program) is as before -/
structure ReplFrame (σ σ' : St) : Prop where
  acts : σ'.acts = σ.acts
  nextId : σ'.nextId = σ.nextId
  procs : σ'.procs = σ.procs
  funs : σ'.funs = σ.funs
  handles : σ'.handles = σ.handles
  pedantic : σ'.pedantic = σ.pedantic
  repl : σ'.repl = σ.repl
  stepLimit : σ'.stepLimit = σ.stepLimit
  depthLimit : σ'.depthLimit = σ.depthLimit

macro "repl_frame" : tactic => `(tactic| exact ⟨rfl, rfl, rfl, rfl, rfl, rfl, rfl, rfl, rfl⟩)

theorem ReplFrame.of_io {σ σ' : St} (h : IOStep σ σ') : ReplFrame σ σ' :=
  ⟨h.acts, h.nextId, h.procs, h.funs, h.handles, h.pedantic, h.repl, h.stepLimit, h.depthLimit⟩

section repl2
variable {R : St → St → Prop} [RPre R] (hF : ∀ σ σ', ReplFrame σ σ' → R σ σ')
  (hmain : ∀ fuel b, Ens R (fun _ => True) (runMain fuel b))

theorem getLine_rel2 (hF : ∀ σ σ', ReplFrame σ σ' → R σ σ') (σ : St) : R σ ((ExceptT.run getLine).run σ).2 :=
  hF _ _ (ReplFrame.of_io ((io_getLine (Q := fun _ => True)).run σ).1)

theorem runOn_rel2 (hmain : ∀ fuel b, Ens R (fun _ => True) (runMain fuel b)) (fuel : Nat) (b : Block) (σ : St) :
    R σ (runOn fuel b σ).2 := by
  rw [runOn_state]
  exact ((hmain fuel b).run σ).1

include hF hmain

theorem runSource_rel2 (cfg : Cfg) (src : Str) (σ : St) : R σ (runSource cfg src σ).2 := by
  unfold runSource
  split
  · exact hF _ _ (by repl_frame)
  · split
    · dsimp only
      split <;> exact hF _ _ (by repl_frame)
    · rename_i b warns _
      dsimp only
      have h0 : R σ { σ with out := (List.map warningText warns).reverse ++ σ.out } := hF _ _ (by repl_frame)
      have h1 := runOn_rel2 hmain cfg.fuel b { σ with out := (List.map warningText warns).reverse ++ σ.out }
      rcases hr : runOn cfg.fuel b { σ with out := (List.map warningText warns).reverse ++ σ.out } with ⟨o, s⟩
      rw [hr] at h1
      cases o with
      | diag d => exact RPre.trans h0 (RPre.trans h1 (hF _ _ (by repl_frame)))
      | ok => exact RPre.trans h0 h1
      | crash p => exact RPre.trans h0 h1
      | fuel => exact RPre.trans h0 h1

theorem collectLines_rel2 : ∀ (n : Nat) (code : Str) (σ : St), R σ (collectLines n code σ).2
  | 0, _, σ => RPre.refl σ
  | n + 1, code, σ => by
    unfold collectLines
    dsimp only
    have h0 : R σ { σ with out := ". ".toList :: σ.out } := hF _ _ (by repl_frame)
    have h1 := getLine_rel2 hF { σ with out := ". ".toList :: σ.out }
    rcases hr : (ExceptT.run getLine).run { σ with out := ". ".toList :: σ.out } with ⟨o, s⟩
    rw [hr] at h1
    have h01 := RPre.trans h0 h1
    cases o with
    | error e => exact h01
    | ok p =>
      obtain ⟨line, ok⟩ := p
      dsimp only
      split
      · exact h01
      · split
        · exact h01
        · exact RPre.trans h01 (collectLines_rel2 n _ s)


set_option maxHeartbeats 1000000 in
/-- **a whole REPL session respects `R`**: from the session state before to the session state after any number of
    entries (one-line and multi-line entries, `?`, RUNFILE, entries that fail to lex / parse / run) -/
theorem replLoop_rel2 (cfg : Cfg) : ∀ (n : Nat) (first : Bool) (r : ReplSt), R r.st (replLoop cfg n first r).st
  | 0, _, r => RPre.refl _
  | n + 1, first, r => by
    have ih := replLoop_rel2 cfg n
    unfold replLoop
    split
    · exact RPre.refl _
    · dsimp only
      generalize hst1 : ({ (if first = true then r.st else { r.st with out := marker :: r.st.out }) with
          out := "> ".toList :: (if first = true then r.st else { r.st with out := marker :: r.st.out }).out,
          steps := 0, depth := 0 } : St) = st1
      have h01 : R r.st st1 := by
        subst hst1
        cases first <;> exact hF _ _ (by repl_frame)
      have h12 := getLine_rel2 hF st1
      rcases hr : (ExceptT.run getLine).run st1 with ⟨o, st2⟩
      rw [hr] at h12
      have h02 := RPre.trans h01 h12
      dsimp only at h02
      clear h12 h01 hr hst1
      have step : ∀ (first' : Bool) (r' : ReplSt), R r.st r'.st → R r.st (replLoop cfg n first' r').st :=
        fun f r' h => RPre.trans h (ih f r')
      split
      · rename_i code ok st2' heq
        cases heq
        split
        · exact h02
        split
        · exact step _ _ h02
        split
        · exact step _ _ (RPre.trans h02 (hF _ _ (by repl_frame)))
        split
        · exact h02
        split
        · -- RUNFILE
          split
          · exact step _ _ h02
          split
          · split
            · exact step _ _ (RPre.trans h02 (hF _ _ (by repl_frame)))
            · split <;> exact step _ _ (RPre.trans h02 (hF _ _ (by repl_frame)))
            · exact RPre.trans h02 (hF _ _ (by repl_frame))
            · exact step _ _ (RPre.trans h02 (hF _ _ (by repl_frame)))
          · exact step _ _ (RPre.trans h02 (hF _ _ (by repl_frame)))
        · -- an entry: (possibly) more lines, then lex + parse + run
          have h23 : R st2 (if multilineStart code = true then collectLines (st2.stdin.length + 2) code st2
              else (some code, st2)).2 := by
            split
            · exact collectLines_rel2 hF hmain _ _ _
            · exact RPre.refl _
          generalize (if multilineStart code = true then collectLines (st2.stdin.length + 2) code st2
              else (some code, st2)) = p at h23 ⊢
          obtain ⟨full?, st3⟩ := p
          have h03 : R r.st st3 := RPre.trans h02 h23
          dsimp only
          split
          · exact h03
          · rename_i src
            have h34 := runSource_rel2 hF hmain cfg src st3
            rcases hs : runSource cfg src st3 with ⟨o', s⟩
            rw [hs] at h34
            have h04 : R r.st s := RPre.trans h03 h34
            cases o' with
            | ok => exact step _ _ h04
            | diag d => dsimp only; split <;> exact step _ _ h04
            | crash p => exact h04
            | fuel => exact step _ _ h04
      · rename_i st2' _ heq
        cases heq
        exact h02

end repl2

end Pseudo
