import PseudoModel.Top
import PseudoProofs.NoCrashMain
/-!
# C01: concrete programs, evaluated by the kernel (`decide +kernel`)

The programs quoted in `Properties/C01Exec.lean` and the facts about them that need a full run of the model
(lexer, parser, evaluator); kept in a file of their own because each evaluation takes 10–20 s.
-/
namespace Pseudo

/-- a BYREF alias of `l.f.a`; the callee replaces `l` by a record whose `f` has no member `a` (its own `U`) -/
def C01.progDangling : String :=
  "TYPE T\nDECLARE f : U\nENDTYPE\nPROCEDURE P3(BYREF y : INTEGER, BYREF x : T)\nTYPE U\nDECLARE b : INTEGER\nENDTYPE\nDECLARE l2 : T\nx <- l2\ny <- 1\nENDPROCEDURE\nPROCEDURE P1\nTYPE U\nDECLARE a : INTEGER\nENDTYPE\nDECLARE l : T\nCALL P3(l.f.a, l)\nENDPROCEDURE\nCALL P1"

/-- the callee stores the third name of *its* enum `E` into a record member whose `E` (in the caller) has two names -/
def C01.progEnum : String :=
  "TYPE T\nDECLARE e : E\nENDTYPE\nPROCEDURE P2(BYREF x : T)\nTYPE E = (c, d, third)\nx.e <- third\nENDPROCEDURE\nPROCEDURE P1\nTYPE E = (a, b)\nDECLARE l : T\nCALL P2(l)\nOUTPUT l.e\nENDPROCEDURE\nCALL P1"

/-- a record member of a pointer type that only the caller knows; the callee assigns through it -/
def C01.progPtr : String :=
  "TYPE T\nDECLARE q : PL\nENDTYPE\nPROCEDURE P2(BYREF x : T)\nDECLARE i : INTEGER\nx.q <- ^i\nENDPROCEDURE\nPROCEDURE P1\nTYPE PL = ^INTEGER\nDECLARE l : T\nCALL P2(l)\nENDPROCEDURE\nCALL P1"

/-- a local TYPE `T` with the name of the global `T` (refused as a redefinition by the C++ at HEAD and by the model) -/
def C01.progShadow : String :=
  "TYPE T\nDECLARE a : INTEGER\nENDTYPE\nDECLARE g : T\nPROCEDURE Q(BYREF x : INTEGER)\nTYPE T\nDECLARE b : INTEGER\nENDTYPE\nDECLARE l : T\ng <- l\nx <- 1\nENDPROCEDURE\nCALL Q(g.a)"

/-- model only: two records of one type with array members of different length (bounds read from `n`) -/
def C01.progRecordCopy : String :=
  "TYPE PI = ^INTEGER\nDECLARE p : PI\nn <- 3\nTYPE T\nDECLARE arr : ARRAY[1:n] OF INTEGER\nENDTYPE\nDECLARE r1 : T\nn <- 5\nDECLARE r2 : T\nr2.arr[5] <- 42\np <- ^r2.arr[5]\nr2 <- r1\nOUTPUT p^"

/-- a program of the sublanguage: array, procedures (BYVAL and BYREF), function, FOR, INPUT, a built-in -/
def C01.progOk : String :=
  "DECLARE a : ARRAY[1:3] OF INTEGER\nPROCEDURE Fill(n : INTEGER)\nFOR i <- 1 TO n\na[i] <- i * i\nNEXT i\nENDPROCEDURE\nPROCEDURE Swap(BYREF p : INTEGER, BYREF q : INTEGER)\nt <- p\np <- q\nq <- t\nENDPROCEDURE\nFUNCTION Sum(n : INTEGER) RETURNS INTEGER\ns <- 0\nFOR i <- 1 TO n\ns <- s + a[i]\nNEXT i\nRETURN s\nENDFUNCTION\nCALL Fill(3)\nCALL Swap(a[1], a[3])\nOUTPUT a[1]\nOUTPUT Sum(3)\nINPUT x\nOUTPUT LENGTH(x)"


/-- model and C++ differ (the C++ at 85c4143 ends in a heap-use-after-free, the model prints `5` and `0`): a pointer to a member of
    a nested record, then assignment of the whole outer record — the C++ replaces the nested record object -/
def C01.progNestedCopy : String :=
  "TYPE PI = ^INTEGER\nDECLARE gp : PI\nTYPE U\nDECLARE k : INTEGER\nENDTYPE\nTYPE L\nDECLARE f : U\nENDTYPE\nDECLARE l : L\nDECLARE m : L\nl.f.k <- 5\ngp <- ^l.f.k\nOUTPUT gp^\nl <- m\nOUTPUT gp^"

namespace NC

/-- a run that exits with status 1 did not report a crash point (a crash exits with 134) -/
theorem runFile_exit1_no_crash (cfg : Cfg) (content : Str) (fs : List (Str × FsNode)) (stdin : Str)
    (h : (runFile cfg content fs stdin).exitCode = 1) : (runFile cfg content fs stdin).crash = none := by
  unfold runFile at h ⊢
  rcases hr : runFileOn cfg content fs stdin false with ⟨o, s⟩
  rw [hr] at h
  dsimp only at h ⊢
  unfold resultOf at h ⊢
  cases o with
  | ok => rfl
  | diag d => dsimp only; split <;> rfl
  | crash p => simp at h
  | fuel => rfl


theorem cx_dangling_exit : (runFile {} C01.progDangling.toList [] []).exitCode = 1 := by decide +kernel
theorem cx_dangling_refused :
    (runFile {} C01.progDangling.toList [] []).crash = none ∧ (runFile {} C01.progDangling.toList [] []).exitCode = 1 :=
  ⟨runFile_exit1_no_crash _ _ _ _ cx_dangling_exit, cx_dangling_exit⟩
theorem cx_enum_exit : (runFile {} C01.progEnum.toList [] []).exitCode = 1 := by decide +kernel
theorem cx_enum_refused :
    (runFile {} C01.progEnum.toList [] []).crash = none ∧ (runFile {} C01.progEnum.toList [] []).exitCode = 1 :=
  ⟨runFile_exit1_no_crash _ _ _ _ cx_enum_exit, cx_enum_exit⟩
theorem cx_ptr_exit : (runFile {} C01.progPtr.toList [] []).exitCode = 1 := by decide +kernel
theorem cx_ptr_refused :
    (runFile {} C01.progPtr.toList [] []).crash = none ∧ (runFile {} C01.progPtr.toList [] []).exitCode = 1 :=
  ⟨runFile_exit1_no_crash _ _ _ _ cx_ptr_exit, cx_ptr_exit⟩
theorem cx_recordCopy : (runFile {} C01.progRecordCopy.toList [] []).crash = some .danglingLoc := by decide +kernel
theorem cx_shadow_exit : (runFile {} C01.progShadow.toList [] []).exitCode = 1 := by decide +kernel
theorem cx_shadow_refused :
    (runFile {} C01.progShadow.toList [] []).crash = none ∧ (runFile {} C01.progShadow.toList [] []).exitCode = 1 :=
  ⟨runFile_exit1_no_crash _ _ _ _ cx_shadow_exit, cx_shadow_exit⟩
theorem nestedCopy_model : (runFile {} C01.progNestedCopy.toList [] []).out = "5\n0\n".toList := by decide +kernel
theorem progOk_ok : OkSrc {} (C01.progOk.toList ++ ['\n']) := by decide +kernel
theorem progOk_runs : (runFile {} C01.progOk.toList [] "abc\n".toList).out = "9\n14\n3\n".toList := by decide +kernel
theorem progEnum_not_ok : ¬ OkSrc {} (C01.progEnum.toList ++ ['\n']) := by decide +kernel

end NC
end Pseudo
