import PseudoProofs.FuelMono
import PseudoProofs.EvalStep
/-!
# `out` is write-only: a two-run simulation of the evaluator for states that differ in `out` only

`τ.wo o` is the state `τ` with the output chunks `o`. `OAlt m1 m2 τ o1 o2`: the run of `m1` from `τ.wo o1` and the run of `m2`
from `τ.wo o2` end with the same result (value or exception — the same diagnostic with the same traceback, the same crash
point, fuel) in states that are again equal up to `out`, and both have appended the same chunks `a` to their `out`.
No exception: budget stops, reading from the standard input, crash points — everything is in lockstep, because no function
of the evaluator ever reads `out`.

The framework (combinators, tactic `osim_auto`) follows `PseudoProofs/ReplLoopSim.lean`; the relation is simpler (equality of
everything but `out`), so there is no `budget` / `reads` alternative.
-/
namespace Pseudo
namespace OutSim

def _root_.Pseudo.St.wo (τ : St) (o : List Str) : St := { τ with out := o }

theorem wo_out (σ : St) : σ.wo σ.out = σ := rfl

inductive OAlt {α : Type} (m1 m2 : M α) (τ : St) (o1 o2 : List Str) : Prop
  | same (r : Except Stop α) (τ' : St) (a : List Str)
      (h1 : m1.run.run (τ.wo o1) = (r, τ'.wo (a ++ o1)))
      (h2 : m2.run.run (τ.wo o2) = (r, τ'.wo (a ++ o2)))

structure OSimAt {α : Type} (m1 m2 : M α) (τ : St) (o1 o2 : List Str) : Prop where
  alt : OAlt m1 m2 τ o1 o2

structure OSim {α : Type} (m : M α) : Prop where
  run : ∀ τ o1 o2, OSimAt m m τ o1 o2

section combinators
variable {α β : Type} {τ : St} {o1 o2 : List Str}

theorem OSimAt.pure (a : α) (τ : St) (o1 o2 : List Str) : OSimAt (pure a : M α) (pure a) τ o1 o2 :=
  ⟨.same (.ok a) τ [] rfl rfl⟩

theorem OSimAt.throw (e : Stop) (τ : St) (o1 o2 : List Str) : OSimAt (throw e : M α) (throw e) τ o1 o2 :=
  ⟨.same (.error e) τ [] rfl rfl⟩

theorem OSimAt.bind {m1 m2 : M α} {k1 k2 : α → M β} (hm : OSimAt m1 m2 τ o1 o2)
    (hk : ∀ a τ o1 o2, OSimAt (k1 a) (k2 a) τ o1 o2) : OSimAt (m1 >>= k1) (m2 >>= k2) τ o1 o2 := by
  obtain ⟨r, τ', a, h1, h2⟩ := hm.alt
  cases r with
  | error e => exact ⟨.same (.error e) τ' a (run_bind_err _ _ _ _ _ h1) (run_bind_err _ _ _ _ _ h2)⟩
  | ok x =>
    obtain ⟨r', τ'', b, h1', h2'⟩ := (hk x τ' (a ++ o1) (a ++ o2)).alt
    refine ⟨.same r' τ'' (b ++ a) ?_ ?_⟩
    · rw [run_bind_ok _ _ _ _ _ h1, h1', List.append_assoc]
    · rw [run_bind_ok _ _ _ _ _ h2, h2', List.append_assoc]

theorem OSimAt.tryCatch {m1 m2 : M α} {hd1 hd2 : Stop → M α} (hm : OSimAt m1 m2 τ o1 o2)
    (hh : ∀ e τ o1 o2, OSimAt (hd1 e) (hd2 e) τ o1 o2) :
    OSimAt (tryCatch m1 hd1) (tryCatch m2 hd2) τ o1 o2 := by
  obtain ⟨r, τ', a, h1, h2⟩ := hm.alt
  cases r with
  | ok x => exact ⟨.same (.ok x) τ' a (run_tryCatch_ok _ _ _ _ _ h1) (run_tryCatch_ok _ _ _ _ _ h2)⟩
  | error e =>
    obtain ⟨r', τ'', b, h1', h2'⟩ := (hh e τ' (a ++ o1) (a ++ o2)).alt
    refine ⟨.same r' τ'' (b ++ a) ?_ ?_⟩
    · rw [run_tryCatch_err _ _ _ _ _ h1, h1', List.append_assoc]
    · rw [run_tryCatch_err _ _ _ _ _ h2, h2', List.append_assoc]

/-- after `get`: the two continuations, on the two states read -/
theorem OSimAt.get_bind {f1 f2 : St → M α} (h : OSimAt (f1 (τ.wo o1)) (f2 (τ.wo o2)) τ o1 o2) :
    OSimAt ((MonadState.get : M St) >>= f1) ((MonadState.get : M St) >>= f2) τ o1 o2 := by
  have e1 : ((MonadState.get : M St) >>= f1).run.run (τ.wo o1) = (f1 (τ.wo o1)).run.run (τ.wo o1) :=
    run_bind_ok _ _ _ _ _ (run_get _)
  have e2 : ((MonadState.get : M St) >>= f2).run.run (τ.wo o2) = (f2 (τ.wo o2)).run.run (τ.wo o2) :=
    run_bind_ok _ _ _ _ _ (run_get _)
  obtain ⟨r, τ', a, h1, h2⟩ := h.alt
  exact ⟨.same r τ' a (by rw [e1]; exact h1) (by rw [e2]; exact h2)⟩

/-- a modification that does not look at `out` -/
theorem OSimAt.modc (f : St → St) (τ : St) (o1 o2 : List Str) (h : ∀ o, f (τ.wo o) = (f τ).wo o) :
    OSimAt (modify f : M PUnit) (modify f) τ o1 o2 :=
  ⟨.same (.ok ⟨⟩) (f τ) [] (by rw [run_modify, h]; rfl) (by rw [run_modify, h]; rfl)⟩

theorem OSimAt.emitc (x : Str) (τ : St) (o1 o2 : List Str) : OSimAt (emit x) (emit x) τ o1 o2 :=
  ⟨.same (.ok ⟨⟩) τ [x] rfl rfl⟩

theorem OSimAt.setc (s1 s2 : St) (τ τ' : St) (o1 o2 : List Str) (h1 : s1 = τ'.wo o1) (h2 : s2 = τ'.wo o2) :
    OSimAt (set s1 : M PUnit) (set s2) τ o1 o2 :=
  ⟨.same (.ok ⟨⟩) τ' [] (by rw [run_set, h1]; rfl) (by rw [run_set, h2]; rfl)⟩

theorem OSimAt.withAct {mk : Nat → Act} {b1 b2 : M α} (h : ∀ τ o1 o2, OSimAt b1 b2 τ o1 o2) :
    OSimAt (withAct mk b1) (withAct mk b2) τ o1 o2 := by
  have e1 : pushSt mk (τ.wo o1) = (pushSt mk τ).wo o1 := rfl
  have e2 : pushSt mk (τ.wo o2) = (pushSt mk τ).wo o2 := rfl
  obtain ⟨r, τ', a, h1, h2⟩ := (h (pushSt mk τ) o1 o2).alt
  refine ⟨.same r (popSt τ') a ?_ ?_⟩
  · rw [run_withAct, e1, h1]; rfl
  · rw [run_withAct, e2, h2]; rfl

theorem OSim.of_run {m : M α} (h : ∀ τ o1 o2, OSimAt m m τ o1 o2) : OSim m := ⟨h⟩

end combinators

/-! #### automation -/

syntax "osim_lib" : tactic
macro_rules | `(tactic| osim_lib) => `(tactic| fail "osim_lib: no lemma")
syntax "osim_ih" : tactic
macro_rules | `(tactic| osim_ih) => `(tactic| fail "osim_ih: no hypothesis")
syntax "osim_step" : tactic

macro_rules | `(tactic| osim_step) => `(tactic| first
  | cases ‹_ + 1 = Nat.succ _›
  | with_reducible exact OSimAt.pure _ _ _ _
  | with_reducible exact OSimAt.throw _ _ _ _
  | (with_reducible apply OSim.run; with_reducible first | osim_lib | osim_ih)
  | (with_reducible apply OSimAt.get_bind; dsimp only [St.wo])
  | with_reducible apply OSimAt.bind
  | with_reducible apply OSimAt.withAct
  | exact OSimAt.modc _ _ _ _ (fun _ => rfl)
  | intro _
  | split
  | dsimp only)

macro "osim_auto" : tactic => `(tactic| repeat' osim_step)

macro "osim_def " id:ident : tactic => `(tactic| (apply OSim.of_run; intro τ o1 o2; unfold $id; osim_auto))

/-! #### primitives -/

theorem OSim.l_emit (x : Str) : OSim (emit x) := ⟨fun τ o1 o2 => OSimAt.emitc x τ o1 o2⟩
macro_rules | `(tactic| osim_lib) => `(tactic| exact OSim.l_emit _)
theorem OSim.l_curAct : OSim (curAct) := by osim_def curAct
macro_rules | `(tactic| osim_lib) => `(tactic| exact OSim.l_curAct )
theorem OSim.l_globalAct : OSim (globalAct) := by osim_def globalAct
macro_rules | `(tactic| osim_lib) => `(tactic| exact OSim.l_globalAct )
theorem OSim.l_findAct (id : Nat) : OSim (findAct id) := by osim_def findAct
macro_rules | `(tactic| osim_lib) => `(tactic| exact OSim.l_findAct _)
theorem OSim.l_mkRuntime (l c : Nat) (m : Msg) : OSim (mkRuntime l c m) := by osim_def mkRuntime
macro_rules | `(tactic| osim_lib) => `(tactic| exact OSim.l_mkRuntime _ _ _)
theorem OSim.l_rtErr {α : Type} (t : Tok) (m : Msg) : OSim ((rtErr t m : M α)) := by osim_def rtErr
macro_rules | `(tactic| osim_lib) => `(tactic| exact OSim.l_rtErr _ _)
theorem OSim.l_rtErr0 {α : Type} (m : Msg) : OSim ((rtErr0 m : M α)) := by osim_def rtErr0
macro_rules | `(tactic| osim_lib) => `(tactic| exact OSim.l_rtErr0 _)
theorem OSim.l_pedErr {α : Type} (t : Tok) (m : Msg) : OSim ((pedErr t m : M α)) := by osim_def pedErr
macro_rules | `(tactic| osim_lib) => `(tactic| exact OSim.l_pedErr _ _)
theorem OSim.l_lookupVar (n : Str) : OSim (lookupVar n) := by osim_def lookupVar
macro_rules | `(tactic| osim_lib) => `(tactic| exact OSim.l_lookupVar _)
theorem OSim.l_lookupArr (n : Str) : OSim (lookupArr n) := by osim_def lookupArr
macro_rules | `(tactic| osim_lib) => `(tactic| exact OSim.l_lookupArr _)
theorem OSim.l_scopeAct : OSim (scopeAct) := by osim_def scopeAct
macro_rules | `(tactic| osim_lib) => `(tactic| exact OSim.l_scopeAct )
theorem OSim.l_typeScopeAct : OSim (typeScopeAct) := by osim_def typeScopeAct
macro_rules | `(tactic| osim_lib) => `(tactic| exact OSim.l_typeScopeAct )
theorem OSim.l_lookupList {β : Type} (sel : Act → List (Str × β)) (n : Str) (g : Bool) : OSim (lookupList sel n g) := by osim_def lookupList
macro_rules | `(tactic| osim_lib) => `(tactic| exact OSim.l_lookupList _ _ _)
theorem OSim.l_enumDefOf (n : Str) (g : Bool) : OSim (enumDefOf n g) := by osim_def enumDefOf
macro_rules | `(tactic| osim_lib) => `(tactic| exact OSim.l_enumDefOf _ _)
theorem OSim.l_ptrDefOf (n : Str) (g : Bool) : OSim (ptrDefOf n g) := by osim_def ptrDefOf
macro_rules | `(tactic| osim_lib) => `(tactic| exact OSim.l_ptrDefOf _ _)
theorem OSim.l_compDefOf (n : Str) (g : Bool) : OSim (compDefOf n g) := by osim_def compDefOf
macro_rules | `(tactic| osim_lib) => `(tactic| exact OSim.l_compDefOf _ _)
theorem OSim.l_getType (t : Tok) (g : Bool) : OSim (getType t g) := by osim_def getType
macro_rules | `(tactic| osim_lib) => `(tactic| exact OSim.l_getType _ _)
theorem OSim.l_getEnumElement (v : Str) (g : Bool) : OSim (getEnumElement v g) := by osim_def getEnumElement
macro_rules | `(tactic| osim_lib) => `(tactic| exact OSim.l_getEnumElement _ _)
theorem OSim.l_isIdentifierType (t : Tok) (g : Bool) : OSim (isIdentifierType t g) := by osim_def isIdentifierType
macro_rules | `(tactic| osim_lib) => `(tactic| exact OSim.l_isIdentifierType _ _)
theorem OSim.l_readLoc (l : Loc) : OSim (readLoc l) := by osim_def readLoc
macro_rules | `(tactic| osim_lib) => `(tactic| exact OSim.l_readLoc _)
theorem OSim.l_locIsConst (l : Loc) : OSim (locIsConst l) := by osim_def locIsConst
macro_rules | `(tactic| osim_lib) => `(tactic| exact OSim.l_locIsConst _)
theorem OSim.l_isLive (id : Nat) : OSim (isLive id) := by osim_def isLive
macro_rules | `(tactic| osim_lib) => `(tactic| exact OSim.l_isLive _)
theorem OSim.l_liftMsg {α : Type} (t : Tok) (x : Except Msg α) : OSim (liftMsg t x) := by osim_def liftMsg
macro_rules | `(tactic| osim_lib) => `(tactic| exact OSim.l_liftMsg _ _)
theorem OSim.l_liftMsg0 {α : Type} (x : Except Msg α) : OSim (liftMsg0 x) := by osim_def liftMsg0
macro_rules | `(tactic| osim_lib) => `(tactic| exact OSim.l_liftMsg0 _)
theorem OSim.l_outputText (v : Val) : OSim (outputText v) := by osim_def outputText
macro_rules | `(tactic| osim_lib) => `(tactic| exact OSim.l_outputText _)
theorem OSim.l_replEcho (v : Val) : OSim (replEcho v) := by osim_def replEcho
macro_rules | `(tactic| osim_lib) => `(tactic| exact OSim.l_replEcho _)
theorem OSim.l_filePre (t : Tok) (op : FOp) : OSim (filePre t op) := by osim_def filePre
macro_rules | `(tactic| osim_lib) => `(tactic| exact OSim.l_filePre _ _)
theorem OSim.l_codecDefs : OSim (codecDefs) := by osim_def codecDefs
macro_rules | `(tactic| osim_lib) => `(tactic| exact OSim.l_codecDefs )
theorem OSim.l_writeText (t : Tok) (v : Val) : OSim (writeText t v) := by osim_def writeText
macro_rules | `(tactic| osim_lib) => `(tactic| exact OSim.l_writeText _ _)
theorem OSim.l_modifyAct (id : Nat) (f : Act → Act) : OSim (modifyAct id f) := by osim_def modifyAct
macro_rules | `(tactic| osim_lib) => `(tactic| exact OSim.l_modifyAct _ _)
theorem OSim.l_modifyCur (f : Act → Act) : OSim (modifyCur f) := by osim_def modifyCur
macro_rules | `(tactic| osim_lib) => `(tactic| exact OSim.l_modifyCur _)
theorem OSim.l_addVar (s : Slot) : OSim (addVar s) := by osim_def addVar
macro_rules | `(tactic| osim_lib) => `(tactic| exact OSim.l_addVar _)
theorem OSim.l_addArr (s : Slot) : OSim (addArr s) := by osim_def addArr
macro_rules | `(tactic| osim_lib) => `(tactic| exact OSim.l_addArr _)
theorem OSim.l_writeLoc (t : Tok) (l : Loc) (v : Val) : OSim (writeLoc t l v) := by osim_def writeLoc
macro_rules | `(tactic| osim_lib) => `(tactic| exact OSim.l_writeLoc _ _ _)

theorem OSim.l_tick (t : Tok) : OSim (tick t) := by
  apply OSim.of_run; intro τ o1 o2; unfold tick
  apply OSimAt.get_bind
  dsimp only [St.wo]
  split
  · exact (OSim.l_rtErr t .budget).run τ o1 o2
  · exact OSimAt.setc _ _ τ { τ with steps := τ.steps + 1 } o1 o2 rfl rfl
macro_rules | `(tactic| osim_lib) => `(tactic| exact OSim.l_tick _)

theorem OSim.l_getLine : OSim getLine := by
  apply OSim.of_run; intro τ o1 o2; unfold getLine
  apply OSimAt.get_bind
  dsimp only [St.wo]
  split
  · exact OSimAt.pure _ τ o1 o2
  · split
    · exact OSimAt.bind (OSimAt.setc _ _ τ { τ with stdin := [], stdinEof := true } o1 o2 rfl rfl)
        fun _ τ o1 o2 => OSimAt.pure _ τ o1 o2
    · rename_i c rest' _
      exact OSimAt.bind (OSimAt.setc _ _ τ { τ with stdin := rest' } o1 o2 rfl rfl)
        fun _ τ o1 o2 => OSimAt.pure _ τ o1 o2
macro_rules | `(tactic| osim_lib) => `(tactic| exact OSim.l_getLine)

theorem OSim.l_doFile (t : Tok) (op : FOp) : OSim (doFile t op) := by
  apply OSim.of_run; intro τ o1 o2; unfold doFile
  apply OSimAt.get_bind
  dsimp only [St.wo]
  split
  · rename_i f r _
    exact OSimAt.bind (OSimAt.setc _ _ τ { τ with fs := f.fs, handles := f.handles } o1 o2 rfl rfl) fun _ τ o1 o2 => OSimAt.pure _ τ o1 o2
  · exact (OSim.l_rtErr t _).run τ o1 o2
macro_rules | `(tactic| osim_lib) => `(tactic| exact OSim.l_doFile _ _)

theorem OSim.l_doFile0 (op : FOp) : OSim (doFile0 op) := by
  apply OSim.of_run; intro τ o1 o2; unfold doFile0
  apply OSimAt.get_bind
  dsimp only [St.wo]
  split
  · rename_i f r _
    exact OSimAt.bind (OSimAt.setc _ _ τ { τ with fs := f.fs, handles := f.handles } o1 o2 rfl rfl) fun _ τ o1 o2 => OSimAt.pure _ τ o1 o2
  · exact (OSim.l_rtErr0 _).run τ o1 o2
macro_rules | `(tactic| osim_lib) => `(tactic| exact OSim.l_doFile0 _)

theorem OSim.l_runBuiltin (id : Str) (args : List Val) : OSim (runBuiltin id args) := by osim_def runBuiltin
macro_rules | `(tactic| osim_lib) => `(tactic| exact OSim.l_runBuiltin _ _)

theorem OSimAt.catchNotDefined {α : Type} {m1 m2 : M α} {hd1 hd2 : Stop → M α} {τ : St} {o1 o2 : List Str}
    (hm : OSimAt m1 m2 τ o1 o2) (hh : ∀ e τ o1 o2, OSimAt (hd1 e) (hd2 e) τ o1 o2) :
    OSimAt (Pseudo.catchNotDefined m1 hd1) (Pseudo.catchNotDefined m2 hd2) τ o1 o2 := by
  unfold Pseudo.catchNotDefined
  apply OSimAt.tryCatch hm
  intro e τ o1 o2
  osim_auto
  exact hh _ _ _ _

end OutSim
end Pseudo
