import PseudoProofs.CallLemmas
/-!
# Helper lemmas for C07 at the level of the evaluator (`Properties/C07Exec.lean`)

* unfolding equation `resolveRef_field`; the outcome of one field step / one index step on an already resolved base
  reference: `run_resolveRef_field_of` (`fieldResult`, `fieldHolder`, `fieldTy`), `run_resolveRef_index_of`
  (`indexResult`, `idxHolder`), and the error propagation `run_resolveRef_field_err`, `run_resolveRef_index_err`;
* `varOwner σ n` / `HasVar σ n id ty v`: the name `n` denotes, in state `σ`, the plain (not BYREF) variable slot `n`
  of activation `id` (the current one or the global one), declared type `ty`, holding `v`, not a constant —
  the analogue of `ArrayLemmas.HasArray`; constructors `HasVar.of_current`, `HasVar.of_global`; preservation
  `HasVar.tick`, `HasVar.write_same`, `HasVar.write_other`; `run_resolveRef_hasVar`, `pureAt_hasVar`;
* `Rooted σ f₀ bt r n`: `r` is the name `bt` followed by field steps and index steps with index expressions pure in
  `σ` (no dereference), `n` the fuel it needs; `resolve_rooted`: such a reference resolves — or fails — without
  changing the state, and a resulting holder lies in the root variable of `bt`;
* `assignTail`, `run_execAssign_eval`, `run_assignTail_resolved`, `run_assignTail_array`, `run_assignTail_err_nonvar`:
  the part of `execAssign` after the evaluation of the right-hand side (which may change the state);
* `run_writeLoc_cases`, `run_writeLoc_path`, `readLocP_path` (`pathRead`);
* `run_execAssign_rooted`: an assignment whose target is a rooted reference either fails and leaves the state as it is
  or performs exactly one `writeLoc` under the root.
-/
namespace Pseudo

namespace RecordLemmas

open ArrayLemmas C07Copy CallLemmas

/-! ## one field step -/

theorem resolveRef_field (f : Nat) (t : Tok) (r : Ref) (m : Tok) :
    resolveRef (f+1) (.field t r m) = (do
      let h ← resolveRef f r
      if h.isArr then rtErr t .typeMismatch
      else
        let v ← readLoc h.loc
        match v with
        | .comp _ fs =>
          match memberKind fs m.val with
          | none => rtErr t .noMember
          | some k =>
            match findField fs m.val k with
            | none => rtErr t .noMember
            | some fv =>
              let ety := match fv with | .arr e _ _ => e | x => x.ty
              pure { loc := { h.loc with path := h.loc.path ++ [.field m.val] }, isArr := k, ty := ety, name := m.val }
        | _ => rtErr t .typeMismatch) := by
  rw [resolveRef.eq_def]; rfl

/-- the type a holder of a record member carries: the element type for an array member, the type of the current
    value otherwise -/
def fieldTy : Val → Ty
  | .arr e _ _ => e
  | x => x.ty

/-- the holder of member `m` (kind `k`, current value `fv`) of the record held at `h` -/
def fieldHolder (h : Holder) (m : Str) (k : Bool) (fv : Val) : Holder :=
  { loc := { h.loc with path := h.loc.path ++ [.field m] }, isArr := k, ty := fieldTy fv, name := m }

/-- the outcome of the field step `.m` at token `t` on the non-array holder `h`, as a function of what `h` reads -/
def fieldResult (σ : St) (t : Tok) (h : Holder) (m : Str) : Except Stop Val → Except Stop Holder
  | .ok (.comp _ fs) =>
    match memberKind fs m with
    | none => .error (.diag (rtDiag σ t.line t.col .noMember))
    | some k =>
      match findField fs m k with
      | none => .error (.diag (rtDiag σ t.line t.col .noMember))
      | some fv => .ok (fieldHolder h m k fv)
  | .ok _ => .error (.diag (rtDiag σ t.line t.col .typeMismatch))
  | .error e => .error e

/-- a member found by `memberKind` is found by `findField` -/
theorem memberKind_some_findField (fs : List (Str × Val)) (n : Str) (k : Bool) (h : memberKind fs n = some k) :
    ∃ fv, findField fs n k = some fv := by
  unfold memberKind at h
  cases h0 : findField fs n false with
  | some fv =>
    rw [h0] at h
    simp only [Option.isSome_some, if_true, Option.some.injEq] at h
    subst h
    exact ⟨fv, h0⟩
  | none =>
    rw [h0] at h
    simp only [Option.isSome_none, Bool.false_eq_true, if_false] at h
    cases h1 : findField fs n true with
    | some fv =>
      rw [h1] at h
      simp only [Option.isSome_some, if_true, Option.some.injEq] at h
      subst h
      exact ⟨fv, h1⟩
    | none =>
      rw [h1] at h
      simp only [Option.isSome_none, Bool.false_eq_true, if_false] at h
      cases h

/-- **one field step on a resolved base**: `r` resolves (state unchanged) to `h`; then `r.m` is a `typeMismatch` when
    `h` holds a whole array, and otherwise what `fieldResult` says about the value `h` reads; the state is unchanged -/
theorem run_resolveRef_field_of (σ : St) (t : Tok) (r : Ref) (m : Tok) (h : Holder) (f : Nat)
    (hr : (resolveRef f r).run.run σ = (.ok h, σ)) :
    (resolveRef (f+1) (.field t r m)).run.run σ =
      (if h.isArr then .error (.diag (rtDiag σ t.line t.col .typeMismatch))
       else fieldResult σ t h m.val (readLocP σ h.loc), σ) := by
  rw [resolveRef_field, run_bind_ok _ _ _ _ _ hr]
  cases hi : h.isArr with
  | true => simp only [if_true]; exact run_rtErr t .typeMismatch σ
  | false =>
    simp only [Bool.false_eq_true, if_false]
    rcases hv : readLocP σ h.loc with e | v
    · have : (readLoc h.loc).run.run σ = (.error e, σ) := by rw [run_readLoc, hv]
      rw [run_bind_err _ _ _ _ _ this]
      rfl
    · have : (readLoc h.loc).run.run σ = (.ok v, σ) := by rw [run_readLoc, hv]
      rw [run_bind_ok _ _ _ _ _ this]
      cases v with
      | comp ty fs =>
        simp only [fieldResult]
        cases hm : memberKind fs m.val with
        | none => simp only; exact run_rtErr t .noMember σ
        | some k =>
          simp only
          cases hf : findField fs m.val k with
          | none => simp only; exact run_rtErr t .noMember σ
          | some fv =>
            simp only
            cases fv <;> rfl
      | _ => exact run_rtErr t .typeMismatch σ

theorem run_resolveRef_field_err (σ σ' : St) (t : Tok) (r : Ref) (m : Tok) (x : Stop) (f : Nat)
    (hr : (resolveRef f r).run.run σ = (.error x, σ')) :
    (resolveRef (f+1) (.field t r m)).run.run σ = (.error x, σ') := by
  rw [resolveRef_field]; exact run_bind_err _ _ _ _ _ hr

/-! ## one index step -/

/-- the holder of cell `i` of the array held at `h` -/
def idxHolder (h : Holder) (e : Ty) (i : Nat) : Holder :=
  { loc := { h.loc with path := h.loc.path ++ [.idx i] }, isArr := false, ty := e, name := h.name }

/-- the holder of `r[…]`, or the diagnostic of the first offending index -/
def indexResult (σ : St) (h : Holder) (e : Ty) (dims : List (Int × Int)) :
    Except (Tok × Msg) (List Int) → Except Stop Holder
  | .ok ks => .ok (idxHolder h e (lin dims ks))
  | .error (t, m) => .error (.diag (rtDiag σ t.line t.col m))

theorem run_resolveRef_index_err (σ σ' : St) (t : Tok) (r : Ref) (es : List Expr) (x : Stop) (f : Nat)
    (hr : (resolveRef f r).run.run σ = (.error x, σ')) :
    (resolveRef (f+1) (.index t r es)).run.run σ = (.error x, σ') := by
  rw [resolveRef_index]; exact run_bind_err _ _ _ _ _ hr

/-- index step on a base that is not a whole array: `typeMismatch` -/
theorem run_resolveRef_index_nonarr (σ : St) (t : Tok) (r : Ref) (es : List Expr) (h : Holder) (f : Nat)
    (hr : (resolveRef f r).run.run σ = (.ok h, σ)) (harr : h.isArr = false) :
    (resolveRef (f+1) (.index t r es)).run.run σ = (.error (.diag (rtDiag σ t.line t.col .typeMismatch)), σ) := by
  rw [resolveRef_index, run_bind_ok _ _ _ _ _ hr]
  simp only [harr, Bool.not_false, if_true]
  exact run_rtErr t .typeMismatch σ

/-- **one index step on a resolved base** holding the array `.arr e dims cells`, pure index expressions, right
    number of them: the outcome of the index checks decides; the state is unchanged -/
theorem run_resolveRef_index_of (σ : St) (t : Tok) (r : Ref) (es : List Expr) (vs : List Val) (h : Holder) (e : Ty)
    (dims : List (Int × Int)) (cells : List Val) (f₀ f : Nat)
    (hr : (resolveRef f r).run.run σ = (.ok h, σ)) (harr : h.isArr = true)
    (hread : readLocP σ h.loc = .ok (.arr e dims cells))
    (hp : PureAll σ f₀ es vs) (hlen : es.length = dims.length) (hf : f₀ + es.length + 1 ≤ f) :
    (resolveRef (f+1) (.index t r es)).run.run σ = (indexResult σ h e dims (idxOutcome dims es vs), σ) := by
  have hrd : (readLoc h.loc).run.run σ = (.ok (.arr e dims cells), σ) := by rw [run_readLoc, hread]
  rw [resolveRef_index, run_bind_ok _ _ _ _ _ hr]
  simp only [harr, Bool.not_true, Bool.false_eq_true, if_false]
  rw [run_bind_ok _ _ _ _ _ hrd]
  have : (es.length != dims.length) = false := by simpa using hlen
  simp only [this, Bool.false_eq_true, if_false]
  have hi := run_evalIndices σ f₀ es vs dims [] f hp hlen hf
  cases ho : idxOutcome dims es vs with
  | ok ks =>
    rw [ho] at hi
    rw [run_bind_ok _ _ _ _ _ hi]
    simp only [List.reverse_nil, List.nil_append, indexResult]
    rfl
  | error x =>
    obtain ⟨tk, m⟩ := x
    rw [ho] at hi
    rw [run_bind_err _ _ _ _ _ hi]
    rfl

/-- wrong number of indices on a resolved array base: `badIndex`, no index evaluated -/
theorem run_resolveRef_index_arity (σ : St) (t : Tok) (r : Ref) (es : List Expr) (h : Holder) (e : Ty)
    (dims : List (Int × Int)) (cells : List Val) (f : Nat)
    (hr : (resolveRef f r).run.run σ = (.ok h, σ)) (harr : h.isArr = true)
    (hread : readLocP σ h.loc = .ok (.arr e dims cells)) (hne : es.length ≠ dims.length) :
    (resolveRef (f+1) (.index t r es)).run.run σ = (.error (.diag (rtDiag σ t.line t.col .badIndex)), σ) := by
  have hrd : (readLoc h.loc).run.run σ = (.ok (.arr e dims cells), σ) := by rw [run_readLoc, hread]
  rw [resolveRef_index, run_bind_ok _ _ _ _ _ hr]
  simp only [harr, Bool.not_true, Bool.false_eq_true, if_false]
  rw [run_bind_ok _ _ _ _ _ hrd]
  have : (es.length != dims.length) = true := by simpa using hne
  simp only [this, if_true]
  exact run_rtErr t .badIndex σ

/-- whatever the base holds: an index step with pure index expressions does not change the state, and a resulting
    holder extends the location of the base holder by one step -/
theorem run_resolveRef_index_any (σ : St) (t : Tok) (r : Ref) (es : List Expr) (vs : List Val) (h : Holder)
    (f₀ f : Nat) (hr : (resolveRef f r).run.run σ = (.ok h, σ))
    (hp : PureAll σ f₀ es vs) (hf : f₀ + es.length + 1 ≤ f) :
    ∃ res, (resolveRef (f+1) (.index t r es)).run.run σ = (res, σ) ∧
      ∀ h', res = .ok h' → ∃ s, h'.loc = { h.loc with path := h.loc.path ++ [s] } := by
  cases harr : h.isArr with
  | false =>
    exact ⟨_, run_resolveRef_index_nonarr σ t r es h f hr harr, fun _ hh => by cases hh⟩
  | true =>
    rcases hv : readLocP σ h.loc with e | v
    · refine ⟨.error e, ?_, fun _ hh => by cases hh⟩
      have : (readLoc h.loc).run.run σ = (.error e, σ) := by rw [run_readLoc, hv]
      rw [resolveRef_index, run_bind_ok _ _ _ _ _ hr]
      simp only [harr, Bool.not_true, Bool.false_eq_true, if_false]
      exact run_bind_err _ _ _ _ _ this
    · cases v with
      | arr e dims cells =>
        by_cases hlen : es.length = dims.length
        · refine ⟨_, run_resolveRef_index_of σ t r es vs h e dims cells f₀ f hr harr hv hp hlen hf, ?_⟩
          intro h' hh
          cases ho : idxOutcome dims es vs with
          | ok ks =>
            rw [ho] at hh
            simp only [indexResult, Except.ok.injEq] at hh
            subst hh
            exact ⟨_, rfl⟩
          | error x =>
            obtain ⟨tk, m⟩ := x
            rw [ho] at hh
            cases hh
        · exact ⟨_, run_resolveRef_index_arity σ t r es h e dims cells f hr harr hv hlen, fun _ hh => by cases hh⟩
      | _ =>
        refine ⟨.error (.crash .other), ?_, fun _ hh => by cases hh⟩
        rw [resolveRef_index, run_bind_ok _ _ _ _ _ hr]
        simp only [harr, Bool.not_true, Bool.false_eq_true, if_false]
        have := run_readLoc h.loc σ
        rw [hv] at this
        rw [run_bind_ok _ _ _ _ _ this]
        rfl

/-- whatever the base holds: a field step does not change the state, and a resulting holder extends the location of
    the base holder by one step -/
theorem run_resolveRef_field_any (σ : St) (t : Tok) (r : Ref) (m : Tok) (h : Holder) (f : Nat)
    (hr : (resolveRef f r).run.run σ = (.ok h, σ)) :
    ∃ res, (resolveRef (f+1) (.field t r m)).run.run σ = (res, σ) ∧
      ∀ h', res = .ok h' → ∃ s, h'.loc = { h.loc with path := h.loc.path ++ [s] } := by
  refine ⟨_, run_resolveRef_field_of σ t r m h f hr, ?_⟩
  intro h' hh
  cases hi : h.isArr with
  | true => rw [hi] at hh; simp only [if_true] at hh; cases hh
  | false =>
    rw [hi] at hh
    simp only [Bool.false_eq_true, if_false] at hh
    rcases hv : readLocP σ h.loc with e | v
    · rw [hv] at hh; cases hh
    · rw [hv] at hh
      cases v with
      | comp ty fs =>
        simp only [fieldResult] at hh
        cases hm : memberKind fs m.val with
        | none => rw [hm] at hh; cases hh
        | some k =>
          rw [hm] at hh
          simp only at hh
          cases hf : findField fs m.val k with
          | none => rw [hf] at hh; cases hh
          | some fv =>
            rw [hf] at hh
            simp only [Except.ok.injEq] at hh
            subst hh
            exact ⟨_, rfl⟩
      | _ => cases hh

/-! ## `n` denotes a plain variable -/

/-- id of the owner, declared type and "is a BYREF alias" of the variable the name `n` denotes from activation `a`
    (global activation `g`) -/
def varInfo (a g : Act) (n : Str) : Option (Nat × Ty × Bool) :=
  (lookupVarIn a g n).map fun p => (p.1.id, p.2.ty, p.2.ref.isSome)

/-- what `varInfo` looks at in a slot -/
def slotInfo (s : Slot) : Ty × Bool := (s.ty, s.ref.isSome)

theorem varInfo_eq (a g : Act) (n : Str) :
    varInfo a g n =
      match (findSlot a.vars n).map slotInfo with
      | some i => some (a.id, i)
      | none => if a.id == g.id then none else ((findSlot g.vars n).map slotInfo).map fun i => (g.id, i) := by
  unfold varInfo lookupVarIn
  cases findSlot a.vars n with
  | some s => rfl
  | none =>
    simp only [Option.map_none]
    cases a.id == g.id with
    | true => rfl
    | false => cases findSlot g.vars n <;> rfl

/-- The activation that owns the variable the name `n` denotes in state `σ`, and the declared type of that variable:
    variables of the current activation first, then those of the global one (`resolveRef` on `Ref.var`); `none` if no
    variable of that name is visible or if it is a BYREF formal (an alias of a location of the caller). -/
def varOwner (σ : St) (n : Str) : Option (Nat × Ty) :=
  match σ.acts, σ.acts.getLast? with
  | cur :: _, some g =>
    match varInfo cur g n with
    | some (id, ty, false) => some (id, ty)
    | _ => none
  | _, _ => none

/-- the root location of the variable `n` of activation `id` -/
abbrev varLoc (id : Nat) (n : Str) : Loc := ⟨id, false, n, []⟩

/-- the holder `resolveRef` yields for the plain variable `n` of activation `id` -/
abbrev varHolder (id : Nat) (n : Str) (ty : Ty) : Holder := { loc := varLoc id n, isArr := false, ty := ty, name := n }

/-- **`n` denotes a plain variable.**  In state `σ` the name `n` resolves to the variable slot `n` of the activation
    with id `id` (the current one or the global one), which is not a BYREF alias and has the declared type `ty`; that
    slot holds the value `v`; it is not a constant. -/
structure HasVar (σ : St) (n : Str) (id : Nat) (ty : Ty) (v : Val) : Prop where
  resolves : varOwner σ n = some (id, ty)
  reads : readLocP σ (varLoc id n) = .ok v
  notConst : locConstP σ (varLoc id n) = false

theorem HasVar.acts_ne {σ : St} {n : Str} {id : Nat} {ty : Ty} {v : Val} (h : HasVar σ n id ty v) : σ.acts ≠ [] := by
  intro h0
  have := h.resolves
  unfold varOwner at this
  rw [h0] at this
  cases this

theorem HasVar.tick {σ : St} {n : Str} {id : Nat} {ty : Ty} {v : Val} (h : HasVar σ n id ty v) :
    HasVar (tickSt σ) n id ty v := ⟨h.resolves, h.reads, h.notConst⟩

/-- the slot `lookupVarIn` returns is the slot of that name among the variables of the activation it returns -/
theorem lookupVarIn_slot (a g b : Act) (n : Str) (s : Slot) (h : lookupVarIn a g n = some (b, s)) :
    findSlot b.vars n = some s := by
  unfold lookupVarIn at h
  cases ha : findSlot a.vars n with
  | some s' =>
    rw [ha] at h
    simp only [Option.some.injEq, Prod.mk.injEq] at h
    obtain ⟨rfl, rfl⟩ := h
    exact ha
  | none =>
    rw [ha] at h
    simp only at h
    cases hid : a.id == g.id with
    | true => rw [hid] at h; cases h
    | false =>
      rw [hid] at h
      simp only [Bool.false_eq_true, if_false] at h
      cases hg : findSlot g.vars n with
      | none => rw [hg] at h; cases h
      | some s' =>
        rw [hg] at h
        simp only [Option.map_some, Option.some.injEq, Prod.mk.injEq] at h
        obtain ⟨rfl, rfl⟩ := h
        exact hg

/-- a name that denotes a plain variable resolves to its holder, with every fuel `≥ 1`; the state is unchanged -/
theorem run_resolveRef_hasVar (σ : St) (t : Tok) (id : Nat) (ty : Ty) (f : Nat) (h : varOwner σ t.val = some (id, ty)) :
    (resolveRef (f+1) (.var t)).run.run σ = (.ok (varHolder id t.val ty), σ) := by
  unfold varOwner at h
  cases hacts : σ.acts with
  | nil => rw [hacts] at h; cases h
  | cons cur rest =>
    cases hg : σ.acts.getLast? with
    | none => rw [hacts] at hg; simp at hg
    | some g =>
      rw [hg, hacts] at h
      simp only at h
      unfold varInfo at h
      cases hl : lookupVarIn cur g t.val with
      | none => rw [hl] at h; cases h
      | some p =>
        obtain ⟨a, s⟩ := p
        rw [hl] at h
        simp only [Option.map_some] at h
        cases href : s.ref with
        | some l => rw [href] at h; cases h
        | none =>
          rw [href] at h
          simp only [Option.isSome_none, Option.some.injEq, Prod.mk.injEq] at h
          obtain ⟨rfl, rfl⟩ := h
          have hname : s.name = t.val := findSlot_name _ _ _ (lookupVarIn_slot _ _ _ _ _ hl)
          rw [run_resolveRef_var σ cur g rest t f a s hacts hg hl]
          unfold holderOf
          rw [href, hname]

/-- a plain variable that reads `v` is a pure expression -/
theorem pureAt_hasVar {σ : St} {id : Nat} {ty : Ty} {v : Val} (xt x : Tok) (h : HasVar σ x.val id ty v) :
    PureAt σ 2 (.access xt (.var x)) v := by
  intro f hf
  obtain ⟨f', rfl⟩ : ∃ f', f = f' + 2 := ⟨f - 2, by omega⟩
  rw [run_evalExpr_access_resolved σ xt (.var x) (varHolder id x.val ty) (f'+1)
    (run_resolveRef_hasVar σ x id ty f' h.resolves) rfl, h.reads]

/-- the location of a variable is constant or not whatever the path -/
theorem locConstP_path (σ : St) (id : Nat) (k : Bool) (n : Str) (p : List Step) :
    locConstP σ ⟨id, k, n, p⟩ = locConstP σ ⟨id, k, n, []⟩ := rfl

theorem locConstP_sameRoot (σ : St) (l l' : Loc) (h : SameRoot l l') : locConstP σ l' = locConstP σ l := by
  obtain ⟨h1, h2, h3⟩ := h
  unfold locConstP slotOf
  rw [h1, h2, h3]

/-- what a location reads when the root cell holds `v` -/
def pathRead (v : Val) (p : List Step) : Except Stop Val :=
  match getPath v p with
  | some x => .ok x
  | none => .error (.crash .danglingLoc)

/-- the locations below a root cell that holds `v` read the parts of `v` -/
theorem readLocP_path (σ : St) (id : Nat) (k : Bool) (n : Str) (v : Val) (p : List Step)
    (h : readLocP σ ⟨id, k, n, []⟩ = .ok v) : readLocP σ ⟨id, k, n, p⟩ = pathRead v p := by
  unfold readLocP at h ⊢
  cases hf : σ.acts.find? (·.id == id) with
  | none => simp only [hf] at h; cases h
  | some a =>
    simp only [hf] at h ⊢
    have h1 : slotOf a ⟨id, k, n, p⟩ = slotOf a ⟨id, k, n, []⟩ := rfl
    rw [h1]
    cases hs : slotOf a ⟨id, k, n, []⟩ with
    | none => rw [hs] at h; cases h
    | some s =>
      rw [hs] at h
      simp only [getPath] at h ⊢
      injection h with h
      rw [h]
      rfl

/-! ### preservation of `HasVar` under writes -/

/-- two activations with the same id and the same variable declarations (name, type, alias or not) -/
structure VSim (a a' : Act) : Prop where
  id : a'.id = a.id
  vars : ∀ n, (findSlot a'.vars n).map slotInfo = (findSlot a.vars n).map slotInfo

theorem VSim.refl (a : Act) : VSim a a := ⟨rfl, fun _ => rfl⟩

theorem findSlot_updSlot_info (n m : Str) (nv : Val) (ss : List Slot) :
    (findSlot (updSlot ss n (fun s => { s with val := nv })) m).map slotInfo = (findSlot ss m).map slotInfo := by
  by_cases h : m = n
  · subst h
    rw [findSlot_updSlot m (fun s => { s with val := nv }) (fun _ => rfl)]
    cases findSlot ss m <;> rfl
  · rw [findSlot_updSlot_ne n m (fun s => { s with val := nv }) h (fun _ => rfl)]

theorem vsim_writeF (l : Loc) (nv : Val) (a : Act) : VSim a (writeF l nv a) := by
  unfold writeF
  cases l.isArr
  · simp only [Bool.false_eq_true, if_false]
    exact ⟨rfl, fun n => findSlot_updSlot_info l.name n nv a.vars⟩
  · simp only [if_true]
    exact ⟨rfl, fun _ => rfl⟩

theorem varInfo_sim {a a' g g' : Act} (ha : VSim a a') (hg : VSim g g') (n : Str) : varInfo a' g' n = varInfo a g n := by
  rw [varInfo_eq, varInfo_eq, ha.id, hg.id, ha.vars, hg.vars]

/-- `varOwner` only looks at ids and variable declarations of the current and the global activation -/
theorem varOwner_updSt (σ : St) (id : Nat) (F : Act → Act) (hF : ∀ a, VSim a (F a)) (m : Str) :
    varOwner (updSt σ id F) m = varOwner σ m := by
  unfold varOwner
  simp only [updSt]
  cases hacts : σ.acts with
  | nil => rfl
  | cons cur rest =>
    cases hg : (cur :: rest).getLast? with
    | none => simp at hg
    | some g =>
      obtain ⟨g', hg', hor⟩ := getLast?_updActs id F (cur :: rest) g hg
      have hgs : VSim g g' := by
        rcases hor with rfl | rfl
        · exact VSim.refl _
        · exact hF g
      rw [hg']
      unfold updActs
      by_cases hc : (cur.id == id) = true
      · simp only [hc, if_true]
        rw [varInfo_sim (hF cur) hgs]
      · simp only [hc, Bool.false_eq_true, if_false]
        rw [varInfo_sim (VSim.refl cur) hgs]

/-- a write does not change which variable a name denotes -/
theorem varOwner_updSt_writeF (σ : St) (l : Loc) (nv : Val) (m : Str) :
    varOwner (updSt σ l.act (writeF l nv)) m = varOwner σ m :=
  varOwner_updSt σ l.act _ (vsim_writeF l nv) m

/-- after the root cell of the variable got the value `nv`, the name denotes the same variable, holding `nv` -/
theorem HasVar.write_same {σ : St} {n : Str} {id : Nat} {ty : Ty} {v : Val} (h : HasVar σ n id ty v) (nv : Val) :
    HasVar (updSt σ id (writeF (varLoc id n) nv)) n id ty nv where
  resolves := by rw [varOwner_updSt_writeF σ (varLoc id n)]; exact h.resolves
  reads := by
    have := readLocP_updSt_writeF_same σ (varLoc id n) nv _ [] h.reads
    simpa [getPath] using this
  notConst := by rw [locConstP_updSt_writeF σ (varLoc id n)]; exact h.notConst

/-- a write to another root cell leaves the variable as it is -/
theorem HasVar.write_other {σ : St} {m : Str} {id' : Nat} {ty' : Ty} {v' : Val} (h : HasVar σ m id' ty' v')
    (l : Loc) (nv : Val) (hd : DiffRoot l (varLoc id' m)) : HasVar (updSt σ l.act (writeF l nv)) m id' ty' v' where
  resolves := by rw [varOwner_updSt_writeF]; exact h.resolves
  reads := by rw [readLocP_updSt_writeF_other σ l _ nv hd]; exact h.reads
  notConst := by rw [locConstP_updSt_writeF]; exact h.notConst

/-- a write to a variable cell does not change which array a name denotes, nor the array -/
theorem hasArray_write_var {σ : St} {m : Str} {id' : Nat} {e' : Ty} {dims' : List (Int × Int)} {cells' : List Val}
    (h : HasArray σ m id' e' dims' cells') (l : Loc) (nv : Val) (hl : l.isArr = false) :
    HasArray (updSt σ l.act (writeF l nv)) m id' e' dims' cells' :=
  h.write_other l nv (.inr (.inl (by rw [hl]; exact Bool.noConfusion)))

/-- a write to an array cell leaves every variable as it is -/
theorem HasVar.write_arr {σ : St} {m : Str} {id' : Nat} {ty' : Ty} {v' : Val} (h : HasVar σ m id' ty' v')
    (l : Loc) (nv : Val) (hl : l.isArr = true) : HasVar (updSt σ l.act (writeF l nv)) m id' ty' v' :=
  h.write_other l nv (.inr (.inl (by rw [hl]; exact Bool.noConfusion)))

/-! ### `HasVar` from the shape of the state -/

/-- a plain variable slot of the current activation -/
theorem HasVar.of_current (σ : St) (cur : Act) (rest : List Act) (n : Str) (s : Slot)
    (h : σ.acts = cur :: rest) (hs : findSlot cur.vars n = some s) (href : s.ref = none) (hc : s.isConst = false) :
    HasVar σ n cur.id s.ty s.val := by
  obtain ⟨g, hg⟩ := exists_getLast cur rest
  refine ⟨?_, ?_, ?_⟩
  · unfold varOwner
    rw [h, hg]
    simp only [varInfo, lookupVarIn_own cur g n s hs, Option.map_some, href, Option.isSome_none]
  · unfold readLocP
    simp only [h, List.find?_cons, beq_self_eq_true, slotOf, Bool.false_eq_true, if_false, hs, getPath]
  · unfold locConstP
    simp only [h, List.find?_cons, beq_self_eq_true, slotOf, Bool.false_eq_true, if_false, hs, Option.map_some,
      Option.getD_some, hc]

/-- a plain variable slot of the global activation seen from another activation that has no variable of that name -/
theorem HasVar.of_global (σ : St) (cur g : Act) (rest : List Act) (n : Str) (s : Slot)
    (h : σ.acts = cur :: rest) (hg : σ.acts.getLast? = some g) (hcur : findSlot cur.vars n = none)
    (hid : (cur.id == g.id) = false) (hfind : σ.acts.find? (·.id == g.id) = some g)
    (hs : findSlot g.vars n = some s) (href : s.ref = none) (hc : s.isConst = false) :
    HasVar σ n g.id s.ty s.val := by
  refine ⟨?_, ?_, ?_⟩
  · unfold varOwner
    rw [hg, h]
    simp only [varInfo, lookupVarIn, hcur, hid, Bool.false_eq_true, if_false, hs, Option.map_some, href,
      Option.isSome_none]
  · unfold readLocP
    simp only [hfind, slotOf, Bool.false_eq_true, if_false, hs, getPath]
  · unfold locConstP
    simp only [hfind, slotOf, Bool.false_eq_true, if_false, hs, Option.map_some, Option.getD_some, hc]

/-! ## references below a root variable -/

/-- `Rooted σ f₀ bt r n`: the reference `r` is the name `bt` followed by any number of field steps `.m` and index steps
    `[e₁,…]` whose index expressions are pure in `σ` (`PureAll σ f₀`); no dereference.  `n` is a fuel with which
    `resolveRef` gets through `r`. -/
inductive Rooted (σ : St) (f₀ : Nat) (bt : Tok) : Ref → Nat → Prop
  | var : Rooted σ f₀ bt (.var bt) 1
  | field (t m : Tok) {r : Ref} {n : Nat} : Rooted σ f₀ bt r n → Rooted σ f₀ bt (.field t r m) (n+1)
  | index (t : Tok) {r : Ref} {n : Nat} (es : List Expr) (vs : List Val) : Rooted σ f₀ bt r n → PureAll σ f₀ es vs →
      Rooted σ f₀ bt (.index t r es) (max n (f₀ + es.length + 1) + 1)

theorem Rooted.pos {σ : St} {f₀ : Nat} {bt : Tok} {r : Ref} {n : Nat} (h : Rooted σ f₀ bt r n) : 1 ≤ n := by
  cases h <;> omega

/-- a rooted reference is the root name itself or not a plain name at all -/
theorem Rooted.var_or_nonvar {σ : St} {f₀ : Nat} {bt : Tok} {r : Ref} {n : Nat} (h : Rooted σ f₀ bt r n) :
    r = .var bt ∨ ∀ vt, r ≠ .var vt := by
  cases h with
  | var => exact .inl rfl
  | field t m _ => exact .inr fun _ h => by cases h
  | index t es vs _ _ => exact .inr fun _ h => by cases h

theorem SameRoot.refl (l : Loc) : SameRoot l l := ⟨rfl, rfl, rfl⟩

theorem SameRoot.extend {l l' : Loc} (h : SameRoot l l') (p : List Step) : SameRoot l { l' with path := p } := h

/-- **a rooted reference stays in its root variable.**  The root name `bt` resolves (with every fuel `≥ 1`, state
    unchanged) to a holder whose location is `root`.  Then the rooted reference `r` resolves or fails without changing
    the state, and if it resolves, the location of the holder has the root of `root` (same activation, same variable
    or array, same name — whatever the path). -/
theorem resolve_rooted (σ : St) (f₀ : Nat) (bt : Tok) (root : Loc)
    (hbase : ∀ f, 1 ≤ f → ∃ h0, (resolveRef f (.var bt)).run.run σ = (.ok h0, σ) ∧ h0.loc = root) :
    ∀ {r : Ref} {n : Nat}, Rooted σ f₀ bt r n → ∀ f, n ≤ f →
      ∃ res, (resolveRef f r).run.run σ = (res, σ) ∧ ∀ h, res = .ok h → SameRoot root h.loc := by
  intro r n hr
  induction hr with
  | var =>
    intro f hf
    obtain ⟨h0, h1, h2⟩ := hbase f hf
    refine ⟨.ok h0, h1, ?_⟩
    intro h hh
    injection hh with hh
    subst hh
    rw [h2]
    exact SameRoot.refl _
  | field t m _ ih =>
    intro f hf
    obtain ⟨f', rfl⟩ : ∃ f', f = f' + 1 := ⟨f - 1, by omega⟩
    obtain ⟨res0, h1, h2⟩ := ih f' (by omega)
    cases res0 with
    | error x => exact ⟨.error x, run_resolveRef_field_err σ σ t _ m x f' h1, fun _ hh => by cases hh⟩
    | ok h =>
      obtain ⟨res, h3, h4⟩ := run_resolveRef_field_any σ t _ m h f' h1
      refine ⟨res, h3, ?_⟩
      intro h' hh
      obtain ⟨s, hs⟩ := h4 h' hh
      rw [hs]
      exact SameRoot.extend (h2 h rfl) _
  | index t es vs _ hp ih =>
    intro f hf
    obtain ⟨f', rfl⟩ : ∃ f', f = f' + 1 := ⟨f - 1, by omega⟩
    obtain ⟨res0, h1, h2⟩ := ih f' (by omega)
    cases res0 with
    | error x => exact ⟨.error x, run_resolveRef_index_err σ σ t _ es x f' h1, fun _ hh => by cases hh⟩
    | ok h =>
      obtain ⟨res, h3, h4⟩ := run_resolveRef_index_any σ t _ es vs h f₀ f' h1 hp (by omega)
      refine ⟨res, h3, ?_⟩
      intro h' hh
      obtain ⟨s, hs⟩ := h4 h' hh
      rw [hs]
      exact SameRoot.extend (h2 h rfl) _

/-- the root of a `HasVar` variable, in the form `resolve_rooted` wants it -/
theorem HasVar.base {σ : St} {id : Nat} {ty : Ty} {v : Val} (bt : Tok) (h : HasVar σ bt.val id ty v) :
    ∀ f, 1 ≤ f → ∃ h0, (resolveRef f (.var bt)).run.run σ = (.ok h0, σ) ∧ h0.loc = varLoc id bt.val := by
  intro f hf
  obtain ⟨f', rfl⟩ : ∃ f', f = f' + 1 := ⟨f - 1, by omega⟩
  exact ⟨_, run_resolveRef_hasVar σ bt id ty f' h.resolves, rfl⟩

/-- the root of a `HasArray` array -/
theorem hasArray_base {σ : St} {id : Nat} {e : Ty} {dims : List (Int × Int)} {cells : List Val} (bt : Tok)
    (h : HasArray σ bt.val id e dims cells) :
    ∀ f, 1 ≤ f → ∃ h0, (resolveRef f (.var bt)).run.run σ = (.ok h0, σ) ∧ h0.loc = arrLoc id bt.val := by
  intro f hf
  obtain ⟨f', rfl⟩ : ∃ f', f = f' + 1 := ⟨f - 1, by omega⟩
  obtain ⟨ty, hr⟩ := run_resolveRef_arrVar σ bt id f' h.resolves
  exact ⟨_, hr, rfl⟩

/-! ## `writeLoc` -/

/-- a `writeLoc` either fails and leaves the state as it is, or replaces the value of the root cell -/
theorem run_writeLoc_cases (t : Tok) (l : Loc) (v : Val) (σ : St) :
    (∃ e, (writeLoc t l v).run.run σ = (.error e, σ)) ∨
    (∃ nv, (writeLoc t l v).run.run σ = (.ok ⟨⟩, updSt σ l.act (writeF l nv))) := by
  unfold writeLoc
  rw [run_bind_ok _ _ _ _ _ (run_findAct _ σ)]
  cases ha : σ.acts.find? (·.id == l.act) with
  | none => exact .inl ⟨_, rfl⟩
  | some a =>
    simp only
    have haid : a.id = l.act := by simpa using List.find?_some ha
    cases hs : slotOf a l with
    | none => exact .inl ⟨_, rfl⟩
    | some s =>
      simp only
      cases hc : s.isConst with
      | true => simp only [if_true]; exact .inl ⟨_, run_rtErr t .constAssign σ⟩
      | false =>
        simp only [Bool.false_eq_true, if_false]
        cases hp : setPath s.val l.path v with
        | none => exact .inl ⟨_, rfl⟩
        | some nv =>
          simp only
          refine .inr ⟨nv, ?_⟩
          rw [haid]
          rfl

/-- a successful write at path `p` below a root cell (variable or array) that holds `old` -/
theorem run_writeLoc_path (σ : St) (t : Tok) (id : Nat) (k : Bool) (n : Str) (p : List Step) (old v nv : Val)
    (hr : readLocP σ ⟨id, k, n, []⟩ = .ok old) (hc : locConstP σ ⟨id, k, n, []⟩ = false)
    (hset : setPath old p v = some nv) :
    (writeLoc t ⟨id, k, n, p⟩ v).run.run σ = (.ok ⟨⟩, updSt σ id (writeF ⟨id, k, n, []⟩ nv)) := by
  unfold readLocP at hr
  unfold locConstP at hc
  cases ha : σ.acts.find? (·.id == id) with
  | none => simp only [ha] at hr; cases hr
  | some a =>
    simp only [ha] at hr hc
    have haid : a.id = id := by simpa using List.find?_some ha
    have h1 : slotOf a ⟨id, k, n, p⟩ = slotOf a ⟨id, k, n, []⟩ := rfl
    cases hs : slotOf a ⟨id, k, n, []⟩ with
    | none => rw [hs] at hr; cases hr
    | some s =>
      rw [hs] at hr hc
      simp only [Option.map_some, Option.getD_some, getPath] at hr hc
      injection hr with hr
      subst hr
      unfold writeLoc
      rw [run_bind_ok _ _ _ _ _ (run_findAct _ σ)]
      simp only [ha, h1, hs, hc, Bool.false_eq_true, if_false, hset]
      rw [haid]
      rfl

/-- `writeF` only looks at the root of its location -/
theorem writeF_sameRoot (l l' : Loc) (nv : Val) (h : SameRoot l l') : writeF l' nv = writeF l nv := by
  obtain ⟨_, h2, h3⟩ := h
  funext a
  unfold writeF
  rw [h2, h3]

/-! ## the assignment after the evaluation of its right-hand side -/

/-- what `execAssign` does once the right-hand side has the value `rv` -/
def assignTail (f : Nat) (t : Tok) (r : Ref) (rv : Val) : M Unit := do
  let target ← catchNotDefined (resolveRef f r >>= fun h => pure (some h)) fun e => do
    match r with
    | .var vt =>
      if ← isIdentifierType vt then throw e
      else if (← get).pedantic then pedErr t .pedAssign
      else pure none
    | _ => throw e
  match target with
  | some h =>
    if h.isArr then rtErr t .arrayDirect
    else
      if ← locIsConst h.loc then rtErr t .constAssign
      let v' := implicitCast h.ty rv
      if v'.ty != h.ty then rtErr t .typeMismatch
      else writeLoc t h.loc v'
  | none =>
    match r with
    | .var vt =>
      if rv.ty == .none then rtErr t .noValue
      else addVar { name := vt.val, ty := rv.ty, val := rv }
    | _ => throw (.crash .other)

/-- the right-hand side evaluates to `rv` (possibly changing the state: a function call): the assignment goes on
    with `assignTail` in the state the evaluation left -/
theorem run_execAssign_eval (σ σ1 : St) (t : Tok) (r : Ref) (rhs : Expr) (rv : Val) (f : Nat) (hacts : σ.acts ≠ [])
    (hrhs : (evalExpr f rhs).run.run σ = (.ok rv, σ1)) :
    (execAssign (f+1) t r rhs).run.run σ = (assignTail f t r rv).run.run σ1 := by
  cases hσ : σ.acts with
  | nil => exact absurd hσ hacts
  | cons cur rest =>
    rw [execAssign_succ, run_bind_ok _ _ _ _ _ (run_curAct_cons σ cur rest hσ), run_bind_ok _ _ _ _ _ (run_get σ)]
    have h1 : (evalExpr f rhs >>= fun v => (pure (some v) : M (Option Val))).run.run σ = (.ok (some rv), σ1) := by
      rw [run_bind_ok _ _ _ _ _ hrhs]; rfl
    rw [run_bind_ok _ _ _ _ _ (run_tryCatch_ok _ _ _ _ _ h1)]
    rfl

/-- the target resolves (state unchanged) to a non-array holder: constant check, type check, one `writeLoc` -/
theorem run_assignTail_resolved (σ : St) (t : Tok) (r : Ref) (rv : Val) (h : Holder) (f : Nat)
    (hr : (resolveRef f r).run.run σ = (.ok h, σ)) (harr : h.isArr = false) :
    (assignTail f t r rv).run.run σ =
      ((if locConstP σ h.loc then (rtErr t .constAssign : M Unit)
        else if (implicitCast h.ty rv).ty != h.ty then rtErr t .typeMismatch
        else writeLoc t h.loc (implicitCast h.ty rv)).run.run σ) := by
  have h2 : (resolveRef f r >>= fun h => (pure (some h) : M (Option Holder))).run.run σ = (.ok (some h), σ) := by
    rw [run_bind_ok _ _ _ _ _ hr]; rfl
  unfold assignTail catchNotDefined
  rw [run_bind_ok _ _ _ _ _ (run_tryCatch_ok _ _ _ _ _ h2)]
  simp only [harr, Bool.false_eq_true, if_false]
  rw [run_bind_ok _ _ _ _ _ (run_locIsConst h.loc σ)]
  cases hc : locConstP σ h.loc with
  | true =>
    simp only [if_true]
    rw [run_rtErr t .constAssign σ]
    exact run_bind_err _ _ _ _ _ (run_rtErr t .constAssign σ)
  | false => simp only [Bool.false_eq_true, if_false]

/-- the target resolves to a whole array (and the right-hand side was a value): `arrayDirect` -/
theorem run_assignTail_array (σ : St) (t : Tok) (r : Ref) (rv : Val) (h : Holder) (f : Nat)
    (hr : (resolveRef f r).run.run σ = (.ok h, σ)) (harr : h.isArr = true) :
    (assignTail f t r rv).run.run σ = (.error (.diag (rtDiag σ t.line t.col .arrayDirect)), σ) := by
  have h2 : (resolveRef f r >>= fun h => (pure (some h) : M (Option Holder))).run.run σ = (.ok (some h), σ) := by
    rw [run_bind_ok _ _ _ _ _ hr]; rfl
  unfold assignTail catchNotDefined
  rw [run_bind_ok _ _ _ _ _ (run_tryCatch_ok _ _ _ _ _ h2)]
  simp only [harr, if_true]
  exact run_rtErr t .arrayDirect σ

/-- the target is not a plain name and its resolution fails: that failure, nothing written -/
theorem run_assignTail_err_nonvar (σ σ' : St) (t : Tok) (r : Ref) (rv : Val) (x : Stop) (f : Nat)
    (hnv : ∀ vt, r ≠ .var vt) (hr : (resolveRef f r).run.run σ = (.error x, σ')) :
    (assignTail f t r rv).run.run σ = (.error x, σ') := by
  have h2 : (resolveRef f r >>= fun h => (pure (some h) : M (Option Holder))).run.run σ = (.error x, σ') :=
    run_bind_err _ _ _ _ _ hr
  unfold assignTail catchNotDefined
  apply run_bind_err
  rw [run_tryCatch_err _ _ _ _ _ h2]
  cases r with
  | var vt => exact absurd rfl (hnv vt)
  | field _ _ _ | deref _ _ | index _ _ _ =>
    cases x with
    | diag d =>
      simp only
      split
      · rw [run_bind_ok _ _ _ _ _ (run_get σ')]
        split <;> rfl
      · rfl
    | _ => rfl

/-- **an assignment to a rooted reference** (right-hand side pure): it either fails — the state is then unchanged —
    or it performs exactly one successful `writeLoc` at a location in the root variable of `bt` -/
theorem run_execAssign_rooted (σ : St) (t bt : Tok) (r : Ref) (rhs : Expr) (rv : Val) (root : Loc) (f₀ n f : Nat)
    (hacts : σ.acts ≠ [])
    (hbase : ∀ f, 1 ≤ f → ∃ h0, (resolveRef f (.var bt)).run.run σ = (.ok h0, σ) ∧ h0.loc = root)
    (hroot : Rooted σ f₀ bt r n) (hrhs : PureAt σ f₀ rhs rv) (hf : max f₀ n + 1 ≤ f) :
    (∃ e, (execAssign f t r rhs).run.run σ = (.error e, σ)) ∨
    (∃ l v nv, SameRoot root l ∧ (writeLoc t l v).run.run σ = (.ok ⟨⟩, updSt σ l.act (writeF l nv)) ∧
      (execAssign f t r rhs).run.run σ = (.ok ⟨⟩, updSt σ l.act (writeF l nv))) := by
  obtain ⟨f', rfl⟩ : ∃ f', f = f' + 1 := ⟨f - 1, by omega⟩
  rw [run_execAssign_eval σ σ t r rhs rv f' hacts (hrhs f' (by omega))]
  obtain ⟨res, h1, h2⟩ := resolve_rooted σ f₀ bt root hbase hroot f' (by omega)
  cases res with
  | error x =>
    rcases hroot.var_or_nonvar with rfl | hnv
    · obtain ⟨h0, h3, _⟩ := hbase f' (by have := hroot.pos; omega)
      rw [h3] at h1
      cases h1
    · exact .inl ⟨x, run_assignTail_err_nonvar σ σ t r rv x f' hnv h1⟩
  | ok h =>
    have hsr := h2 h rfl
    cases harr : h.isArr with
    | true => exact .inl ⟨_, run_assignTail_array σ t r rv h f' h1 harr⟩
    | false =>
      rw [run_assignTail_resolved σ t r rv h f' h1 harr]
      cases hc : locConstP σ h.loc with
      | true => simp only [if_true]; exact .inl ⟨_, run_rtErr t .constAssign σ⟩
      | false =>
        simp only [Bool.false_eq_true, if_false]
        cases hty : (implicitCast h.ty rv).ty != h.ty with
        | true => simp only [if_true]; exact .inl ⟨_, run_rtErr t .typeMismatch σ⟩
        | false =>
          simp only [Bool.false_eq_true, if_false]
          rcases run_writeLoc_cases t h.loc (implicitCast h.ty rv) σ with ⟨e, he⟩ | ⟨nv, hnv⟩
          · exact .inl ⟨e, he⟩
          · exact .inr ⟨h.loc, _, nv, hsr, hnv, hnv⟩

/-- the same for the statement `r <- rhs` (one tick first; purity and rootedness are assumed in the ticked state):
    the final state is the start state, the ticked start state, or the ticked start state after one write under the root -/
theorem run_execStmt_assign_rooted (σ : St) (t bt : Tok) (r : Ref) (rhs : Expr) (rv : Val) (root : Loc) (f₀ n f : Nat)
    (hacts : σ.acts ≠ [])
    (hbase : ∀ f, 1 ≤ f → ∃ h0, (resolveRef f (.var bt)).run.run (tickSt σ) = (.ok h0, tickSt σ) ∧ h0.loc = root)
    (hroot : Rooted (tickSt σ) f₀ bt r n) (hrhs : PureAt (tickSt σ) f₀ rhs rv) (hf : max f₀ n + 3 ≤ f) :
    (∃ e, (execStmt f (.expr (.assign t r rhs))).run.run σ = (.error e, σ)) ∨
    (∃ e, (execStmt f (.expr (.assign t r rhs))).run.run σ = (.error e, tickSt σ)) ∨
    (∃ l v nv, SameRoot root l ∧ (writeLoc t l v).run.run (tickSt σ) = (.ok ⟨⟩, updSt (tickSt σ) l.act (writeF l nv)) ∧
      (execStmt f (.expr (.assign t r rhs))).run.run σ = (.ok .none, updSt (tickSt σ) l.act (writeF l nv))) := by
  obtain ⟨f', rfl⟩ : ∃ f', f = f' + 2 := ⟨f - 2, by omega⟩
  by_cases hsteps : σ.steps + 1 ≤ σ.stepLimit
  · rw [run_execStmt_assign σ t r rhs f' hsteps]
    rcases run_execAssign_rooted (tickSt σ) t bt r rhs rv root f₀ n f' hacts hbase hroot hrhs (by omega) with
      ⟨e, he⟩ | ⟨l, v, nv, h1, h2, h3⟩
    · rw [he]; exact .inr (.inl ⟨e, rfl⟩)
    · rw [h3]; exact .inr (.inr ⟨l, v, nv, h1, h2, rfl⟩)
  · refine .inl ⟨.diag (rtDiag σ t.line t.col .budget), ?_⟩
    rw [execStmt_expr]
    exact run_bind_err _ _ _ _ _ (run_tick_budget _ σ (by omega))

/-! ## reading through the evaluator when the reference does not resolve -/

/-- the resolution of `r` ends in a diagnostic other than `notDefined`: the expression `r` ends in that diagnostic -/
theorem run_evalExpr_access_resolve_error (σ : St) (t : Tok) (r : Ref) (d : Diag) (f : Nat)
    (hr : (resolveRef f r).run.run σ = (.error (.diag d), σ)) (hmsg : (d.msg == .notDefined) = false) :
    (evalExpr (f+1) (.access t r)).run.run σ = (.error (.diag d), σ) := by
  have h2 : (resolveRef f r >>= fun h => (pure (some h) : M (Option Holder))).run.run σ = (.error (.diag d), σ) :=
    run_bind_err _ _ _ _ _ hr
  rw [evalExpr_access]
  unfold catchNotDefined
  apply run_bind_err
  rw [run_tryCatch_err _ _ _ _ _ h2]
  simp only [hmsg, Bool.and_false, Bool.false_eq_true, if_false]
  rfl

/-- a record-typed target stores the value as it is -/
theorem implicitCast_comp (T : Str) (v : Val) : implicitCast (.comp T) v = v := by
  cases v <;> rfl

/-- a value whose type is the record type `T` is a record value of type `T` -/
theorem val_of_ty_comp (v : Val) (T : Str) (h : v.ty = .comp T) : ∃ fs, v = .comp T fs := by
  cases v <;> simp only [Val.ty] at h <;> try cases h
  exact ⟨_, rfl⟩

/-- the holder type of a scalar member is the type of its current value -/
theorem fieldTy_nonarr (v : Val) (h : v.isArr = false) : fieldTy v = v.ty := by
  cases v <;> first | rfl | cases h

/-- a successful write keeps the activation ids -/
theorem updSt_ids (σ : St) (id : Nat) (F : Act → Act) (hF : ∀ a, (F a).id = a.id) :
    (updSt σ id F).acts.map (·.id) = σ.acts.map (·.id) := by
  simp only [updSt]
  generalize σ.acts = acts
  induction acts with
  | nil => rfl
  | cons a rest ih =>
    unfold updActs
    by_cases hc : (a.id == id) = true
    · simp only [hc, if_true, List.map_cons, hF]
    · simp only [hc, Bool.false_eq_true, if_false, List.map_cons, ih]

/-- the implicit cast never turns a value into a whole array or back -/
theorem implicitCast_isArr (ty : Ty) (v : Val) : (implicitCast ty v).isArr = v.isArr := by
  unfold implicitCast
  split <;> rfl

/-- writing the scalar member `m` of a record value -/
theorem setPath_field (T : Str) (fs : List (Str × Val)) (m : Str) (k : Bool) (old v : Val)
    (hm : memberKind fs m = some k) (hfv : findField fs m k = some old) :
    setPath (.comp T fs) [.field m] v = some (.comp T (setField fs m k v)) := by
  simp only [setPath, hm, hfv]

/-- the written member reads the new value, at any depth below it -/
theorem pathRead_setField_same (T : Str) (fs : List (Str × Val)) (m : Str) (k : Bool) (old v : Val) (p : List Step)
    (hm : memberKind fs m = some k) (hfv : findField fs m k = some old) (hk : v.isArr = k) :
    pathRead (.comp T (setField fs m k v)) (.field m :: p) = pathRead v p := by
  simp only [pathRead, getPath, memberKind_setField fs m k v hk m, hm, findField_setField_same m k old v hk fs hfv]

/-- every other member reads as before -/
theorem pathRead_setField_ne (T : Str) (fs : List (Str × Val)) (m m' : Str) (k : Bool) (v : Val) (p : List Step)
    (hne : m' ≠ m) :
    pathRead (.comp T (setField fs m k v)) (.field m' :: p) = pathRead (.comp T fs) (.field m' :: p) := by
  simp only [pathRead, getPath, memberKind_setField_ne m m' k v hne fs]
  cases memberKind fs m' with
  | none => rfl
  | some k' => simp only [findField_setField_ne m m' k k' v hne fs]

/-! ## `HasVar` under bookkeeping updates -/

/-- `HasVar` only depends on the activation list -/
theorem HasVar.congr {σ σ' : St} {n : Str} {id : Nat} {ty : Ty} {v : Val} (h : HasVar σ n id ty v) (ha : σ'.acts = σ.acts) :
    HasVar σ' n id ty v where
  resolves := by have := h.resolves; unfold varOwner at this ⊢; rw [ha]; exact this
  reads := by rw [readLocP_congr σ σ' _ ha]; exact h.reads
  notConst := by rw [locConstP_congr σ σ' _ ha]; exact h.notConst

/-- an update that keeps id, variables and arrays of the activation it touches (the caller's note of the call
    position, a recorded return value) keeps every `HasVar` -/
theorem HasVar.meta {σ : St} {n : Str} {id : Nat} {ty : Ty} {v : Val} (h : HasVar σ n id ty v) (id' : Nat) (F : Act → Act)
    (hF : ∀ a, (F a).id = a.id ∧ (F a).vars = a.vars ∧ (F a).arrs = a.arrs) : HasVar (updSt σ id' F) n id ty v where
  resolves := by
    rw [varOwner_updSt σ id' F (fun a => ⟨(hF a).1, fun m => by rw [(hF a).2.1]⟩)]
    exact h.resolves
  reads := by rw [readLocP_meta σ id' F _ hF]; exact h.reads
  notConst := by rw [locConstP_meta σ id' F _ hF]; exact h.notConst

end RecordLemmas

end Pseudo
