import PseudoProofs.NoCrashL
import PseudoProofs.NoCrashRPath
/-!
# C01 with TYPE statements anywhere: paths into nested values (the analogue of `NoCrashRPath.lean`)

The state-independent part (`stepVal`, `putStep`, `findField_*`, `setField_*`, `getPath_cons`, …) is reused from `Pseudo.NR`; here
are the facts about the value predicate relative to a scope `k`: "the type determines the shape" (`paths_agree`) and stores of a
value of the same kind at a readable path (`setPath_good`).
-/
namespace Pseudo.NL
open Pseudo
open Pseudo.NC (getPath_nil setPath_nil getPath_append)
open Pseudo.NR (Kind kind SameKind NArr sigOf SigDefined kind_arr_inv isArr_eq_kind isArr_of_kind kind_comp_inv findField_cons
  findField_mem findField_sig memberKind_sig setField_cons setField_sig findField_setField_self findField_setField_ne stepVal putStep
  getPath_cons getPath_cons_some setPath_cons)

variable {σ : St} {k : Nat}

/-! ### good values -/

/-- a sub-value of a good value is good -/
theorem Good.sub {v w : Val} {p : List Step} (h : Good σ k v) (hp : getPath v p = some w) : Good σ k w := fun q u hq =>
  h (p ++ q) u (by rw [getPath_append q hp]; exact hq)

theorem Good.root {v : Val} (h : Good σ k v) : Local σ k v := h [] v (getPath_nil v)

theorem Good.step {v y : Val} {st : Step} (h : Good σ k v) (hy : stepVal v st = some y) : Good σ k y :=
  h.sub (p := [st]) (getPath_cons_some.2 ⟨y, hy, getPath_nil y⟩)

theorem good_of_steps {v : Val} (hl : Local σ k v) (hs : ∀ st y, stepVal v st = some y → Good σ k y) : Good σ k v := by
  intro p w hp
  cases p with
  | nil => rw [getPath_nil] at hp; cases hp; exact hl
  | cons st q =>
    obtain ⟨x, hx, hq⟩ := getPath_cons_some.1 hp
    exact hs st x hx q w hq

/-- good values from good parts -/
theorem good_of_scalar {v : Val} (hv : match v with | .comp _ _ => False | .arr _ _ _ => False | _ => True)
    (hl : Local σ k v) : Good σ k v := by
  refine good_of_steps hl ?_
  intro st y h
  cases v <;> first | exact hv.elim | (simp [stepVal] at h)

theorem good_comp {n : Str} {fs : List (Str × Val)} (hl : Local σ k (.comp n fs)) (hf : ∀ x ∈ fs, Good σ k x.2) :
    Good σ k (.comp n fs) := by
  refine good_of_steps hl ?_
  intro st y h
  cases st with
  | idx i => simp [stepVal] at h
  | field m =>
    simp only [stepVal] at h
    cases hm : memberKind fs m with
    | none => rw [hm] at h; cases h
    | some kd =>
      rw [hm] at h
      obtain ⟨x, hx, rfl⟩ := findField_mem h
      exact hf x hx

theorem good_arr {e : Ty} {d : List (Int × Int)} {cells : List Val} (hl : Local σ k (.arr e d cells))
    (hc : ∀ c ∈ cells, Good σ k c) : Good σ k (.arr e d cells) := by
  refine good_of_steps hl ?_
  intro st y h
  cases st with
  | field m => simp [stepVal] at h
  | idx i =>
    simp only [stepVal] at h
    exact hc y (List.mem_of_getElem? h)

/-! ### the type determines the shape -/

theorem step_agree {v v' x : Val} {st : Step} (hl : Local σ k v) (hl' : Local σ k v') (hk : kind v' = kind v)
    (hx : stepVal v st = some x) : ∃ x', stepVal v' st = some x' ∧ kind x' = kind x := by
  cases v with
  | comp n fs =>
    obtain ⟨fs', rfl⟩ := kind_comp_inv (hk.trans rfl)
    obtain ⟨body, k1, hb, hs, _⟩ := hl
    obtain ⟨body', k1', hb', hs', _⟩ := hl'
    rw [hb] at hb'; cases hb'
    have hsig : fs'.map sigOf = fs.map sigOf := hs'.trans hs.symm
    cases st with
    | idx i => simp [stepVal] at hx
    | field m =>
      simp only [stepVal] at hx ⊢
      rw [memberKind_sig hsig m]
      cases hm : memberKind fs m with
      | none => rw [hm] at hx; cases hx
      | some kd =>
        rw [hm] at hx
        dsimp only at hx ⊢
        have := findField_sig hsig m kd
        rw [hx] at this
        cases hf : findField fs' m kd with
        | none => rw [hf] at this; cases this
        | some x' =>
          rw [hf] at this
          exact ⟨x', rfl, by simpa using this⟩
  | arr e d cells =>
    obtain ⟨cells', rfl⟩ := kind_arr_inv (hk.trans rfl)
    cases st with
    | field m => simp [stepVal] at hx
    | idx i =>
      simp only [stepVal] at hx ⊢
      obtain ⟨hi, _⟩ := List.getElem?_eq_some_iff.1 hx
      have hi' : i < cells'.length := by rw [hl'.1, ← hl.1]; exact hi
      refine ⟨cells'[i], List.getElem?_eq_getElem hi', ?_⟩
      rw [hl'.2 _ (List.getElem_mem hi'), hl.2 x (List.mem_of_getElem? hx)]
  | _ => simp [stepVal] at hx

/-- **the type determines the shape**: two values that are good in the same scope and have the same kind have the same readable
    paths, with the same kinds -/
theorem paths_agree : ∀ (p : List Step) {v v' : Val}, Good σ k v → Good σ k v' → kind v' = kind v →
    ∀ w, getPath v p = some w → ∃ w', getPath v' p = some w' ∧ kind w' = kind w
  | [], v, v', _, _, hk, w, hp => by
    rw [getPath_nil] at hp; cases hp
    exact ⟨v', getPath_nil v', hk⟩
  | st :: q, v, v', hg, hg', hk, w, hp => by
    obtain ⟨x, hx, hq⟩ := getPath_cons_some.1 hp
    obtain ⟨x', hx', hkx⟩ := step_agree hg.root hg'.root hk hx
    obtain ⟨w', hw', hkw⟩ := paths_agree q (hg.step hx) (hg'.step hx') hkx w hq
    exact ⟨w', getPath_cons_some.2 ⟨x', hx', hw'⟩, hkw⟩

/-! ### stores -/

/-- replacing what one step leads to by a value of the same kind -/
theorem putStep_good {v x y : Val} {st : Step} (hg : Good σ k v) (hx : stepVal v st = some x) (hk : kind y = kind x) :
    ∃ nv, putStep v st y = some nv ∧ kind nv = kind v ∧ Local σ k nv ∧ stepVal nv st = some y ∧
      ∀ st', st' ≠ st → stepVal nv st' = stepVal v st' := by
  cases v with
  | comp n fs =>
    cases st with
    | idx i => simp [stepVal] at hx
    | field m =>
      simp only [stepVal] at hx
      cases hm : memberKind fs m with
      | none => rw [hm] at hx; cases hx
      | some kd =>
        rw [hm] at hx
        dsimp only at hx
        have hsig := setField_sig hx hk
        obtain ⟨body, k1, hb, hs, hd⟩ := hg.root
        refine ⟨.comp n (setField fs m kd y), by simp only [putStep, hm], rfl, ⟨body, k1, hb, hsig.trans hs, hd⟩, ?_, ?_⟩
        · simp only [stepVal]
          rw [memberKind_sig hsig m, hm]
          exact findField_setField_self hx (isArr_of_kind hk)
        · intro st' hne
          cases st' with
          | idx j => rfl
          | field m' =>
            have hmm : m' ≠ m := fun e => hne (by rw [e])
            simp only [stepVal]
            rw [memberKind_sig hsig m']
            cases memberKind fs m' with
            | none => rfl
            | some k' => exact findField_setField_ne hmm
  | arr e d cells =>
    cases st with
    | field m => simp [stepVal] at hx
    | idx i =>
      simp only [stepVal] at hx
      obtain ⟨hi, _⟩ := List.getElem?_eq_some_iff.1 hx
      have hl := hg.root
      have hkx : kind x = .val e := hl.2 x (List.mem_of_getElem? hx)
      refine ⟨.arr e d (cells.set i y), rfl, rfl, ⟨by rw [List.length_set]; exact hl.1, ?_⟩, ?_, ?_⟩
      · intro c hc
        rcases List.mem_or_eq_of_mem_set hc with hc | rfl
        · exact hl.2 c hc
        · exact hk.trans hkx
      · simp only [stepVal]
        exact List.getElem?_set_self hi
      · intro st' hne
        cases st' with
        | field m => rfl
        | idx j =>
          have hij : i ≠ j := fun e => hne (by rw [e])
          simp only [stepVal]
          exact List.getElem?_set_ne hij
  | _ => simp [stepVal] at hx

/-- **a store of the same kind at a readable path of a good value**: it succeeds, the root keeps its kind and stays good (in the
    same scope), every readable path stays readable with its kind -/
theorem setPath_good : ∀ (p : List Step) {x old v : Val}, Good σ k x → getPath x p = some old → kind v = kind old → Good σ k v →
    ∃ nv, setPath x p v = some nv ∧ kind nv = kind x ∧ Good σ k nv ∧
      ∀ p' w, getPath x p' = some w → ∃ w', getPath nv p' = some w' ∧ kind w' = kind w
  | [], x, old, v, hg, hp, hk, hv => by
    rw [getPath_nil] at hp; cases hp
    exact ⟨v, setPath_nil x v, hk, hv, fun p' w hw => paths_agree p' hg hv hk w hw⟩
  | st :: q, x, old, v, hg, hp, hk, hv => by
    obtain ⟨xm, hxm, hq⟩ := getPath_cons_some.1 hp
    obtain ⟨nxm, hset, hkn, hgn, hpaths⟩ := setPath_good q (hg.step hxm) hq hk hv
    obtain ⟨nv, hput, hknv, hlnv, hself, hother⟩ := putStep_good hg hxm hkn
    refine ⟨nv, ?_, hknv, ?_, ?_⟩
    · rw [setPath_cons, hxm]
      dsimp only
      rw [hset]
      exact hput
    · refine good_of_steps hlnv ?_
      intro st' y hy
      by_cases hst : st' = st
      · subst hst
        rw [hself] at hy; cases hy
        exact hgn
      · rw [hother st' hst] at hy
        exact hg.step hy
    · intro p' w hw
      cases p' with
      | nil =>
        rw [getPath_nil] at hw; cases hw
        exact ⟨nv, getPath_nil nv, hknv⟩
      | cons st' q' =>
        obtain ⟨y, hy, hyq⟩ := getPath_cons_some.1 hw
        by_cases hst : st' = st
        · subst hst
          rw [hxm] at hy; cases hy
          obtain ⟨w', hw', hkw⟩ := hpaths q' w hyq
          exact ⟨w', getPath_cons_some.2 ⟨nxm, hself, hw'⟩, hkw⟩
        · exact ⟨w, getPath_cons_some.2 ⟨y, by rw [hother st' hst]; exact hy, hyq⟩, rfl⟩

#print axioms paths_agree
#print axioms setPath_good

end Pseudo.NL
