import PseudoProofs.NoCrashSpec
/-!
# C01 with enum, pointer and record types (defined at top level): definitions

Third sublanguage: all three kinds of TYPE statements are allowed **at top level** (executed in the global activation); the body of a
record type consists of DECLAREs whose array bounds are integer literals (`declBody`).
Values are now nested: records of scalars / records / arrays, arrays of scalars / records.

* `kind v`: the type of a non-array value (`.val v.ty`), resp. element type and dimensions of an array — a store replaces a value by one
  of the same kind (`SameKind`, state-independent);
* `Local σ w`: what the invariant says about ONE node of a value: an enum index is below the size of its type, a pointer's type is
  defined and its target (if set) is fine (`TgtOK`), the members of a record of type `T` are, in order, named and of the kinds that the
  body of `T` declares (`memSig`), an array has as many cells as its dimensions say, all of the kind of its element type;
* `Good σ v`: every node of `v` that a path can reach is `Local` — the state-dependent value predicate;
* "the type name determines the shape": two good values of the same kind have the same readable paths, with the same kinds.
-/
namespace Pseudo.NR
open Pseudo
open Pseudo.NC (ReadsIn ActRead ErrOK ErrNR NoCrash)

/-! ### the sublanguage -/

/-- literal array bounds -/
def litDims : List (Expr × Expr) → Option (List (Int × Int))
  | [] => some []
  | (.intLit _ a, .intLit _ b) :: r => if b < a then none else (litDims r).map ((a, b) :: ·)
  | _ => none

/-- the body of a record type: DECLAREs, array bounds are integer literals -/
def declStmt : Stmt → Bool
  | .declare _ _ _ => true
  | .declareArr _ _ _ bounds => (litDims bounds).isSome
  | _ => false

def declBody (b : List Stmt) : Bool := b.all declStmt

mutual
  /-- `top = true`: the statement runs in the global activation, where TYPE statements are allowed -/
  def okStmt (top : Bool) : Stmt → Bool
    | .typeEnum _ _ vals => top && !vals.isEmpty
    | .typePtr _ _ _ => top
    | .typeRec _ _ body => top && declBody body
    | .ifs _ brs els => okBranches top brs && okOpt top els
    | .case _ _ cls => okClauses top cls
    | .while _ _ b => okBlock top b
    | .repeat _ b _ => okBlock top b
    | .for _ _ _ _ _ b => okBlock top b
    | .procDef _ _ _ b => okBlock false b
    | .funDef _ _ _ _ b => okBlock false b
    | _ => true
  def okBlock (top : Bool) : List Stmt → Bool
    | [] => true
    | s :: r => okStmt top s && okBlock top r
  def okBranches (top : Bool) : List (Expr × List Stmt) → Bool
    | [] => true
    | (_, b) :: r => okBlock top b && okBranches top r
  def okOpt (top : Bool) : Option (List Stmt) → Bool
    | none => true
    | some b => okBlock top b
  def okClause (top : Bool) : Clause → Bool
    | .eq _ b => okBlock top b
    | .range _ _ b => okBlock top b
    | .otherwise b => okBlock top b
  def okClauses (top : Bool) : List Clause → Bool
    | [] => true
    | c :: r => okClause top c && okClauses top r
end

/-- the side condition that goes with `top`: only the global activation is on the stack -/
def TopCond (top : Bool) (σ : St) : Prop := top = true → ∃ g, σ.acts = [g]

/-! ### kinds -/

/-- not an array -/
def NArr : Val → Bool
  | .arr _ _ _ => false
  | _ => true

inductive Kind
  | val (ty : Ty)
  | arr (e : Ty) (d : List (Int × Int))
deriving DecidableEq

def kind : Val → Kind
  | .arr e d _ => .arr e d
  | v => .val v.ty

/-- what a store may replace a value by -/
def SameKind (v v' : Val) : Prop := kind v' = kind v

/-! ### the global definitions -/

def genums (σ : St) : List (Str × List Str) := match σ.acts.getLast? with | some g => g.enums | none => []
def gptrs (σ : St) : List (Str × Ty) := match σ.acts.getLast? with | some g => g.ptrs | none => []
def gcomps (σ : St) : List (Str × Block) := match σ.acts.getLast? with | some g => g.comps | none => []

def enumLk (σ : St) (n : Str) : Option (List Str) := ((genums σ).find? (·.1 == n)).map (·.2)
def ptrLk (σ : St) (n : Str) : Option Ty := ((gptrs σ).find? (·.1 == n)).map (·.2)
def compLk (σ : St) (n : Str) : Option Block := ((gcomps σ).find? (·.1 == n)).map (·.2)

/-- the type a token denotes, given the global definitions -/
def typeOfTok (σ : St) (t : Tok) : Ty :=
  if t.k == .DATA_TYPE then
    if t.val == "INTEGER".toList then .int
    else if t.val == "REAL".toList then .real
    else if t.val == "BOOLEAN".toList then .bool
    else if t.val == "CHAR".toList then .chr
    else if t.val == "STRING".toList then .str
    else .date
  else
    match (genums σ).find? (·.1 == t.val) with
    | some (n, _) => .enum n
    | none => match (gptrs σ).find? (·.1 == t.val) with
      | some (n, _) => .ptr n
      | none => match (gcomps σ).find? (·.1 == t.val) with
        | some (n, _) => .comp n
        | none => .none

/-- the members a record body declares, in the order in which they appear in a record value: scalars, then arrays -/
def scalSig (σ : St) : List Stmt → List (Str × Kind)
  | [] => []
  | .declare _ ids tyTok :: r => ids.map (fun id => (id.val, Kind.val (typeOfTok σ tyTok))) ++ scalSig σ r
  | _ :: r => scalSig σ r

def arrSig (σ : St) : List Stmt → List (Str × Kind)
  | [] => []
  | .declareArr _ ids tyTok bounds :: r =>
    (match litDims bounds with
     | some d => ids.map (fun id => (id.val, Kind.arr (typeOfTok σ tyTok) d))
     | none => []) ++ arrSig σ r
  | _ :: r => arrSig σ r

def memSig (σ : St) (body : List Stmt) : List (Str × Kind) := scalSig σ body ++ arrSig σ body

/-- no member of undefined type -/
def SigDefined (sig : List (Str × Kind)) : Prop := ∀ s ∈ sig, s.2 ≠ .val .none ∧ ∀ d, s.2 ≠ .arr .none d

def sigOf (p : Str × Val) : Str × Kind := (p.1, kind p.2)

/-! ### values -/

def Live (σ : St) (id : Nat) : Prop := ∃ a ∈ σ.acts, a.id = id

/-- the target of a pointer: its activation was created and, while it lives, the location is readable and holds a value of the
    pointer's target type -/
def TgtOK (σ : St) (l : Loc) (tg : Ty) : Prop :=
  l.act < σ.nextId ∧ (Live σ l.act → ∃ w, ReadsIn σ.acts l w ∧ kind w = .val tg)

/-- what the invariant says about one node of a value -/
def Local (σ : St) : Val → Prop
  | .enum n i => ∃ vals, enumLk σ n = some vals ∧ i < vals.length
  | .ptr n tgt => ∃ tg, ptrLk σ n = some tg ∧ ∀ l, tgt = some l → TgtOK σ l tg
  | .comp n fs => ∃ body, compLk σ n = some body ∧ fs.map sigOf = memSig σ body ∧ SigDefined (memSig σ body)
  | .arr e d cells => cells.length = totalCells d ∧ ∀ c ∈ cells, kind c = .val e
  | _ => True

/-- **the state-dependent value predicate**: every reachable node is fine -/
def Good (σ : St) (v : Val) : Prop := ∀ p w, getPath v p = some w → Local σ w

/-- a type that a declaration can use -/
def TyWF (σ : St) : Ty → Prop
  | .enum n => ∃ vals, enumLk σ n = some vals ∧ vals ≠ []
  | .ptr n => ∃ tg, ptrLk σ n = some tg
  | .comp n => ∃ body, compLk σ n = some body
  | _ => True

/-- a non-array value of type `ty` that is fine in `σ` -/
def CellOK (σ : St) (ty : Ty) (c : Val) : Prop := kind c = .val ty ∧ Good σ c

/-- a fine array of element type `ty` -/
def ArrOK (σ : St) (ty : Ty) (v : Val) : Prop := (∃ d, kind v = .arr ty d) ∧ Good σ v

/-! ### states -/

def SlotOK (σ : St) (deeper : List Act) (s : Slot) : Prop :=
  match s.ref with
  | none => CellOK σ s.ty s.val
  | some l => s.val = .none ∧ ∃ v, ReadsIn deeper l v ∧ kind v = .val s.ty

def ArrSlotOK (σ : St) (s : Slot) : Prop := ArrOK σ s.ty s.val

structure ActOK (σ : St) (deeper : List Act) (a : Act) : Prop where
  vars : ∀ s ∈ a.vars, SlotOK σ deeper s
  arrs : ∀ s ∈ a.arrs, ArrSlotOK σ s
  enums : deeper ≠ [] → a.enums = []
  ptrs : deeper ≠ [] → a.ptrs = []
  comps : deeper ≠ [] → a.comps = []
  /-- the members of a record under construction are plain cells -/
  compRef : a.isComp = true → ∀ s ∈ a.vars, s.ref = none
  /-- the global activation is not a record context -/
  glob : deeper = [] → a.isComp = false
  retVal : ∀ v, a.retVal = some v → NArr v = true ∧ Good σ v

def StackOK (σ : St) : List Act → Prop
  | [] => True
  | a :: rest => ActOK σ rest a ∧ (∀ b ∈ rest, b.id ≠ a.id) ∧ StackOK σ rest

/-- the global definitions are well-formed -/
structure GlobOK (σ : St) : Prop where
  enums : ∀ e ∈ genums σ, (genums σ).find? (·.1 == e.1) = some e ∧ e.2 ≠ []
  ptrs : ∀ p ∈ gptrs σ, TyWF σ p.2
  comps : ∀ c ∈ gcomps σ, declBody c.2 = true

def ParamsOK (σ : St) (ps : List (Str × Ty × Bool)) : Prop := ∀ p ∈ ps, TyWF σ p.2.1

def ProcOK (σ : St) (pd : ProcDef) : Prop := ParamsOK σ pd.params ∧ okBlock false pd.body = true

def FunOK (σ : St) (fd : FunDef) : Prop := ParamsOK σ fd.params ∧ ∃ b t, fd.body = .user b t ∧ okBlock false b = true

/-- **the invariant** -/
structure WF (σ : St) : Prop where
  ne : σ.acts ≠ []
  stack : StackOK σ σ.acts
  below : ∀ a ∈ σ.acts, a.id < σ.nextId
  procs : ∀ p ∈ σ.procs, ProcOK σ p
  funs : ∀ f ∈ σ.funs, FunOK σ f
  glob : GlobOK σ

/-- **before / after** -/
structure Ext (σ σ' : St) : Prop where
  ids : σ'.acts.map (fun a => (a.id, a.isFn)) = σ.acts.map (fun a => (a.id, a.isFn))
  nextId : σ.nextId ≤ σ'.nextId
  reads : ∀ l v, ReadsIn σ.acts l v → ∃ v', ReadsIn σ'.acts l v' ∧ SameKind v v'
  enums : genums σ <+: genums σ'
  ptrs : gptrs σ <+: gptrs σ'
  comps : gcomps σ <+: gcomps σ'
  /-- a token that denotes a type keeps denoting it (new definitions use fresh names) -/
  toks : ∀ t, typeOfTok σ t ≠ .none → typeOfTok σ' t = typeOfTok σ t

/-- a resolved reference -/
def HolderOK (σ : St) (h : Holder) : Prop :=
  ∃ v, ReadsIn σ.acts h.loc v ∧ (if h.isArr = true then ∃ d, kind v = .arr h.ty d else kind v = .val h.ty)

end Pseudo.NR
