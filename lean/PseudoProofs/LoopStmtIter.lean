import PseudoProofs.LoopStmt
/-!
# Loop statements on runs: `n` passes of WHILE / REPEAT, the head of FOR

* `WhilePasses` / `RepeatPasses`: `n` complete passes of a loop (each: budget for the step, the test, the body
  ending normally or with CONTINUE), `whileLoop_passes` / `repeatLoop_passes`: the loop run through them;
* `StepPure`, `run_forRest_pure`: the FOR statement after the iterator has been found;
* `run_forIter_var`, `run_forIter_ref`, `run_forIter_new`: how the iterator is found.
-/
namespace Pseudo
namespace LoopStmt

open ArrayLemmas TraceChain TraceChain2

/-! ## WHILE -/

/-- `n` passes of `WHILE c … ENDWHILE` from `σ` (the state at a test, before its step is counted) to `σ'` (the state at
    the test after them): each pass has budget for the step of the test, the condition is TRUE, the body ends normally
    or with CONTINUE. Condition and body are given with fuel `f`. -/
inductive WhilePasses (f : Nat) (c : Expr) (b : Block) : Nat → St → St → Prop
  | zero (σ : St) : WhilePasses f c b 0 σ σ
  | succ (n : Nat) (σ σ1 σ2 σ' : St) : σ.steps + 1 ≤ σ.stepLimit →
      (evalExpr f c).run.run (tickSt σ) = (.ok (.bool true), σ1) → BodyPass f b σ1 σ2 →
      WhilePasses f c b n σ2 σ' → WhilePasses f c b (n+1) σ σ'

theorem whileLoop_passes (f : Nat) (t : Tok) (c : Expr) (b : Block) {n : Nat} {σ σ' : St}
    (h : WhilePasses f c b n σ σ') :
    ∀ g, f + 1 ≤ g → (whileLoop (g + n) t c b).run.run σ = (whileLoop g t c b).run.run σ' := by
  induction h with
  | zero σ => intro g _; rfl
  | succ n σ σ1 σ2 σ' hb hc hp _ ih =>
    intro g hg
    show (whileLoop ((g + n) + 1) t c b).run.run σ = _
    rw [C03_while_run _ t c b σ hb, ok_mono ((fuel_mono_all (by omega : f ≤ g + n)).evalExpr c) hc]
    obtain ⟨m, hm⟩ : ∃ m, g + n = m + 1 := ⟨g + n - 1, by omega⟩
    have hbody : (loopBody (g + n) b).run.run σ1 = (.ok false, σ2) := by
      rw [hm]; exact (hp.mono (by omega : f ≤ m)).loopBody
    simp only [hbody]
    exact ih g hg

/-- the passes can be given as sequences of states: `S i` at the test number `i`, `C i` after that test -/
theorem WhilePasses.of_seq (f : Nat) (c : Expr) (b : Block) : ∀ (n : Nat) (S C : Nat → St),
    (∀ i, i < n → (S i).steps + 1 ≤ (S i).stepLimit) →
    (∀ i, i < n → (evalExpr f c).run.run (tickSt (S i)) = (.ok (.bool true), C i)) →
    (∀ i, i < n → BodyPass f b (C i) (S (i+1))) → WhilePasses f c b n (S 0) (S n) := by
  intro n
  induction n with
  | zero => intro S _ _ _ _; exact .zero _
  | succ n ih =>
    intro S C hb hc hp
    exact .succ n _ _ _ _ (hb 0 (by omega)) (hc 0 (by omega)) (hp 0 (by omega))
      (ih (fun i => S (i+1)) (fun i => C (i+1)) (fun i hi => hb (i+1) (by omega)) (fun i hi => hc (i+1) (by omega))
        (fun i hi => hp (i+1) (by omega)))

/-! ## REPEAT -/

/-- `n` passes of `REPEAT … UNTIL c` after each of which the loop goes on: budget for the step of the pass, the body
    ends normally or with CONTINUE, then the UNTIL test is evaluated and is FALSE -/
inductive RepeatPasses (f : Nat) (b : Block) (c : Expr) : Nat → St → St → Prop
  | zero (σ : St) : RepeatPasses f b c 0 σ σ
  | succ (n : Nat) (σ σ1 σ2 σ' : St) : σ.steps + 1 ≤ σ.stepLimit →
      BodyPass f b (tickSt σ) σ1 → (evalExpr f c).run.run σ1 = (.ok (.bool false), σ2) →
      RepeatPasses f b c n σ2 σ' → RepeatPasses f b c (n+1) σ σ'

theorem repeatLoop_passes (f : Nat) (t : Tok) (b : Block) (c : Expr) {n : Nat} {σ σ' : St}
    (h : RepeatPasses f b c n σ σ') :
    ∀ g, f + 1 ≤ g → (repeatLoop (g + n) t b c).run.run σ = (repeatLoop g t b c).run.run σ' := by
  induction h with
  | zero σ => intro g _; rfl
  | succ n σ σ1 σ2 σ' hb hp hc _ ih =>
    intro g hg
    show (repeatLoop ((g + n) + 1) t b c).run.run σ = _
    obtain ⟨m, hm⟩ : ∃ m, g + n = m + 1 := ⟨g + n - 1, by omega⟩
    have hbody : (loopBody (g + n) b).run.run (tickSt σ) = (.ok false, σ1) := by
      rw [hm]; exact (hp.mono (by omega : f ≤ m)).loopBody
    rw [C03_repeat_run _ t b c σ hb, hbody]
    simp only [ok_mono ((fuel_mono_all (by omega : f ≤ g + n)).evalExpr c) hc]
    exact ih g hg

theorem RepeatPasses.of_seq (f : Nat) (b : Block) (c : Expr) : ∀ (n : Nat) (S B : Nat → St),
    (∀ i, i < n → (S i).steps + 1 ≤ (S i).stepLimit) →
    (∀ i, i < n → BodyPass f b (tickSt (S i)) (B i)) →
    (∀ i, i < n → (evalExpr f c).run.run (B i) = (.ok (.bool false), S (i+1))) → RepeatPasses f b c n (S 0) (S n) := by
  intro n
  induction n with
  | zero => intro S _ _ _ _; exact .zero _
  | succ n ih =>
    intro S B hb hp hc
    exact .succ n _ _ _ _ (hb 0 (by omega)) (hp 0 (by omega)) (hc 0 (by omega))
      (ih (fun i => S (i+1)) (fun i => B (i+1)) (fun i hi => hb (i+1) (by omega)) (fun i hi => hp (i+1) (by omega))
        (fun i hi => hc (i+1) (by omega)))

/-! ## the head of FOR -/

/-- the step of a FOR statement: `1` without `STEP`, otherwise the pure INTEGER value of the expression -/
def StepPure (σ : St) (f0 : Nat) (step : Option Expr) (k : Int) : Prop :=
  match step with
  | none => k = 1
  | some se => PureAt σ f0 se (.int k)

/-- the FOR statement after its iterator `l` has been found, start / bound / step pure in `σ`: all three are evaluated
    in `σ`; then the start value is written to the iterator and the iterations run -/
theorem run_forRest_pure (f f0 : Nat) (t : Tok) (l : Loc) (start stop : Expr) (step : Option Expr) (b : Block) (a bnd k : Int)
    (σ : St) (hf : f0 ≤ f) (hs : PureAt σ f0 start (.int a)) (he : PureAt σ f0 stop (.int bnd)) (hk : StepPure σ f0 step k) :
    (forRest f t l start stop step b).run.run σ =
      match (writeLoc t l (.int a)).run.run σ with
      | (.ok _, σ2) =>
        (match (forLoop f t l bnd k b).run.run σ2 with
         | (.ok _, σ3) => (.ok .none, σ3)
         | (.error e, σ3) => (.error e, σ3))
      | (.error e, σ2) => (.error e, σ2) := by
  have tail : ∀ k', k' = k → ((do writeLoc t l (.int a); forLoop f t l bnd k' b; pure Val.none) : M Val).run.run σ =
      match (writeLoc t l (.int a)).run.run σ with
      | (.ok _, σ2) =>
        (match (forLoop f t l bnd k b).run.run σ2 with
         | (.ok _, σ3) => (.ok .none, σ3)
         | (.error e, σ3) => (.error e, σ3))
      | (.error e, σ2) => (.error e, σ2) := by
    intro k' hk'
    subst hk'
    rw [run_bind]
    rcases (writeLoc t l (.int a)).run.run σ with ⟨e | u, σ2⟩
    · rfl
    · simp only
      rw [run_bind]
      rcases (forLoop f t l bnd k' b).run.run σ2 with ⟨e | u, σ3⟩ <;> rfl
  unfold forRest
  rw [run_bind_ok _ _ _ _ _ (hs f hf)]
  dsimp only
  rw [run_bind_ok _ _ _ _ _ (he f hf)]
  cases step with
  | none =>
    have hk' : k = 1 := hk
    dsimp only
    rw [run_bind_ok _ _ _ _ _ (show (pure (1 : Int) : M Int).run.run σ = (.ok 1, σ) from rfl)]
    exact tail 1 hk'.symm
  | some se =>
    have hk' : (evalExpr f se).run.run σ = (.ok (.int k), σ) := hk f hf
    dsimp only
    rw [run_bind_ok _ _ _ _ _ hk']
    dsimp only
    rw [run_bind_ok _ _ _ _ _ (show (pure k : M Int).run.run σ = (.ok k, σ) from rfl)]
    exact tail k rfl

/-- start value pure but not an INTEGER: `typeMismatch` at the FOR token; bound and step are not evaluated -/
theorem run_forRest_start_bad (f f0 : Nat) (t : Tok) (l : Loc) (start stop : Expr) (step : Option Expr) (b : Block) (v : Val)
    (σ : St) (hf : f0 ≤ f) (hs : PureAt σ f0 start v) (hv : ∀ a, v ≠ .int a) :
    (forRest f t l start stop step b).run.run σ = (.error (.diag (rtDiag σ t.line t.col .typeMismatch)), σ) := by
  unfold forRest
  rw [run_bind_ok _ _ _ _ _ (hs f hf)]
  cases v with
  | int a => exact absurd rfl (hv a)
  | _ => exact run_rtErr t .typeMismatch σ

/-- bound pure but not an INTEGER: `typeMismatch` at the FOR token; the step is not evaluated -/
theorem run_forRest_stop_bad (f f0 : Nat) (t : Tok) (l : Loc) (start stop : Expr) (step : Option Expr) (b : Block) (a : Int) (v : Val)
    (σ : St) (hf : f0 ≤ f) (hs : PureAt σ f0 start (.int a)) (he : PureAt σ f0 stop v) (hv : ∀ a, v ≠ .int a) :
    (forRest f t l start stop step b).run.run σ = (.error (.diag (rtDiag σ t.line t.col .typeMismatch)), σ) := by
  unfold forRest
  rw [run_bind_ok _ _ _ _ _ (hs f hf)]
  dsimp only
  rw [run_bind_ok _ _ _ _ _ (he f hf)]
  cases v with
  | int a => exact absurd rfl (hv a)
  | _ => exact run_rtErr t .typeMismatch σ

/-- step pure but not an INTEGER: `typeMismatch` at the FOR token; the iterator is not assigned -/
theorem run_forRest_step_bad (f f0 : Nat) (t : Tok) (l : Loc) (start stop se : Expr) (b : Block) (a bnd : Int) (v : Val)
    (σ : St) (hf : f0 ≤ f) (hs : PureAt σ f0 start (.int a)) (he : PureAt σ f0 stop (.int bnd)) (hk : PureAt σ f0 se v)
    (hv : ∀ a, v ≠ .int a) :
    (forRest f t l start stop (some se) b).run.run σ = (.error (.diag (rtDiag σ t.line t.col .typeMismatch)), σ) := by
  unfold forRest
  rw [run_bind_ok _ _ _ _ _ (hs f hf)]
  dsimp only
  rw [run_bind_ok _ _ _ _ _ (he f hf)]
  dsimp only
  rw [run_bind_ok _ _ _ _ _ (hk f hf)]
  cases v with
  | int a => exact absurd rfl (hv a)
  | _ => exact run_bind_err _ _ _ _ _ (run_rtErr t .typeMismatch σ)

/-! ## the iterator -/

/-- the iterator names a plain variable (of the current activation, else of the global one): its own cell -/
theorem run_forIter_var (σ : St) (cur g : Act) (rest : List Act) (it : Tok) (a : Act) (s : Slot)
    (h : σ.acts = cur :: rest) (hg : σ.acts.getLast? = some g) (hl : lookupVarIn cur g it.val = some (a, s))
    (href : s.ref = none) :
    (forIter it).run.run σ = (.ok ({ act := a.id, isArr := false, name := s.name, path := [] }, s.ty), σ) := by
  unfold forIter
  rw [run_bind_ok _ _ _ _ _ (run_lookupVar σ cur g rest it.val h hg), hl]
  dsimp only
  rw [href]
  rfl

/-- the iterator names a BYREF parameter: the cell it refers to -/
theorem run_forIter_ref (σ : St) (cur g : Act) (rest : List Act) (it : Tok) (a : Act) (s : Slot) (l : Loc)
    (h : σ.acts = cur :: rest) (hg : σ.acts.getLast? = some g) (hl : lookupVarIn cur g it.val = some (a, s))
    (href : s.ref = some l) :
    (forIter it).run.run σ = (.ok (l, s.ty), σ) := by
  unfold forIter
  rw [run_bind_ok _ _ _ _ _ (run_lookupVar σ cur g rest it.val h hg), hl]
  dsimp only
  rw [href]
  rfl

/-- the state after an undeclared iterator has been created: a new INTEGER variable 0 at the end of the variables of the
    CURRENT activation (the procedure / function being run, not the global one) -/
def newIterSt (σ : St) (cur : Act) (rest : List Act) (it : Tok) : St :=
  { σ with acts := { cur with vars := cur.vars ++ [{ name := it.val, ty := .int, val := .int 0 }] } :: rest }

/-- the iterator is not declared (neither in the current nor in the global activation): it is created in the current
    activation, before start / bound / step are evaluated -/
theorem run_forIter_new (σ : St) (cur g : Act) (rest : List Act) (it : Tok)
    (h : σ.acts = cur :: rest) (hg : σ.acts.getLast? = some g) (hl : lookupVarIn cur g it.val = none) :
    (forIter it).run.run σ =
      (.ok ({ act := cur.id, isArr := false, name := it.val, path := [] }, .int), newIterSt σ cur rest it) := by
  have hadd : (addVar { name := it.val, ty := .int, val := .int 0 }).run.run σ = (.ok ⟨⟩, newIterSt σ cur rest it) := by
    unfold addVar modifyCur
    rw [run_bind_ok _ _ _ _ _ (run_curAct_cons σ cur rest h), run_modifyAct]
    simp only [updSt, newIterSt, h, updActs, beq_self_eq_true, if_true]
  unfold forIter
  rw [run_bind_ok _ _ _ _ _ (run_lookupVar σ cur g rest it.val h hg), hl]
  dsimp only
  rw [run_bind_ok _ _ _ _ _ hadd, run_bind_ok _ _ _ _ _ (run_curAct_cons (newIterSt σ cur rest it) _ rest rfl)]
  rfl

end LoopStmt
end Pseudo
