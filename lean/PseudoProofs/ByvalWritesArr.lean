import PseudoProofs.ByvalWritesDefs
/-!
# BYVAL parameter writes: `r <- sr` with rooted references on both sides

`RO m σ P`: the run of `m` from `σ` leaves the state as it is, and a normal result satisfies `P`.
`KP root m σ`: however the run of `m` from `σ` ends, the final state `Keeps root`.
`run_evalExpr_access_rooted`: a rooted reference used as an expression leaves the state as it is.
`assign_access_rooted_keeps`: the statement `r <- sr` (element / field copy or whole-array copy) keeps every location
outside the root variable of `r`.
-/
namespace Pseudo
namespace ByvalWrites

open ArrayLemmas C07Copy CallLemmas RecordLemmas RecordReturn

/-- the run of `m` from `σ` leaves the state as it is; a normal result satisfies `P` -/
def RO {α : Type} (m : M α) (σ : St) (P : α → Prop) : Prop :=
  ∃ res, m.run.run σ = (res, σ) ∧ ∀ a, res = .ok a → P a

theorem RO.pure {α : Type} {σ : St} {P : α → Prop} (a : α) (h : P a) : RO (pure a : M α) σ P :=
  ⟨.ok a, rfl, fun _ hh => by injection hh with hh; subst hh; exact h⟩

theorem RO.throw {α : Type} {σ : St} {P : α → Prop} (e : Stop) : RO (throw e : M α) σ P :=
  ⟨.error e, rfl, fun _ hh => by cases hh⟩

theorem RO.of_run {α : Type} {m : M α} {σ : St} {res : Except Stop α} (h : m.run.run σ = (res, σ)) :
    RO m σ (fun _ => True) := ⟨res, h, fun _ _ => trivial⟩

theorem RO.mono {α : Type} {m : M α} {σ : St} {P P' : α → Prop} (h : RO m σ P) (hp : ∀ a, P a → P' a) : RO m σ P' := by
  obtain ⟨res, h1, h2⟩ := h
  exact ⟨res, h1, fun a ha => hp a (h2 a ha)⟩

theorem RO.bind {α β : Type} {m : M α} {k : α → M β} {σ : St} {P : α → Prop} {Q : β → Prop}
    (hm : RO m σ P) (hk : ∀ a, P a → RO (k a) σ Q) : RO (m >>= k) σ Q := by
  obtain ⟨res, h1, h2⟩ := hm
  cases res with
  | error e => exact ⟨.error e, run_bind_err _ _ _ _ _ h1, fun _ hh => by cases hh⟩
  | ok a =>
    obtain ⟨res', h3, h4⟩ := hk a (h2 a rfl)
    exact ⟨res', by rw [run_bind_ok _ _ _ _ _ h1]; exact h3, h4⟩

theorem RO.tryCatch {α : Type} {m : M α} {hd : Stop → M α} {σ : St} {P : α → Prop}
    (hm : RO m σ P) (hh : ∀ e, RO (hd e) σ P) : RO (tryCatch m hd) σ P := by
  obtain ⟨res, h1, h2⟩ := hm
  cases res with
  | error e =>
    obtain ⟨res', h3, h4⟩ := hh e
    exact ⟨res', by rw [run_tryCatch_err _ _ _ _ _ h1]; exact h3, h4⟩
  | ok a => exact ⟨.ok a, run_tryCatch_ok _ _ _ _ _ h1, h2⟩

theorem rpre_same : RPre (fun σ σ' : St => σ' = σ) := ⟨fun _ => rfl, fun h1 h2 => h2.trans h1⟩

theorem qbase_true : QBase (fun _ : Stop => True) := ⟨fun _ => trivial, fun _ => trivial, trivial⟩

theorem RO.of_ens {α : Type} {m : M α} (h : Ens (fun σ σ' : St => σ' = σ) (fun _ : Stop => True) m) (σ : St) :
    RO m σ (fun _ => True) :=
  ⟨(m.run.run σ).1, Prod.ext rfl (h.run σ).1, fun _ _ => trivial⟩

theorem RO.getEnumElement (v : Str) (g : Bool) (σ : St) : RO (getEnumElement v g) σ (fun _ => True) :=
  RO.of_ens (@Ens.l_getEnumElement _ _ rpre_same qbase_true v g) σ

theorem RO.isIdentifierType (t : Tok) (g : Bool) (σ : St) : RO (isIdentifierType t g) σ (fun _ => True) :=
  RO.of_ens (@Ens.l_isIdentifierType _ _ rpre_same qbase_true t g) σ

theorem RO.curAct (σ : St) : RO curAct σ (fun _ => True) :=
  RO.of_ens (@Ens.l_curAct _ _ rpre_same qbase_true) σ

theorem RO.get (σ : St) : RO (get : M St) σ (fun _ => True) := RO.of_run (run_get σ)

theorem RO.rtErr {α : Type} {P : α → Prop} (t : Tok) (m : Msg) (σ : St) : RO (rtErr t m : M α) σ P :=
  ⟨_, run_rtErr t m σ, fun _ hh => by cases hh⟩

theorem RO.readLoc (l : Loc) (σ : St) : RO (readLoc l) σ (fun _ => True) := RO.of_run (run_readLoc l σ)

/-- the resolution of a rooted reference, as an `RO` fact -/
theorem RO.resolve_rooted (σ : St) (f₀ : Nat) (bt : Tok) (root : Loc)
    (hbase : ∀ f, 1 ≤ f → ∃ h0, (resolveRef f (.var bt)).run.run σ = (.ok h0, σ) ∧ h0.loc = root)
    {r : Ref} {n : Nat} (hr : Rooted σ f₀ bt r n) (f : Nat) (hf : n ≤ f) :
    RO (resolveRef f r) σ (fun h => SameRoot root h.loc) := by
  obtain ⟨res, h1, h2⟩ := RecordLemmas.resolve_rooted σ f₀ bt root hbase hr f hf
  exact ⟨res, h1, h2⟩

/-- the handler of `catchNotDefined`: when the inner handler leaves the state, so does the whole thing -/
theorem RO.catchNotDefined {α : Type} {m : M α} {hd : Stop → M α} {σ : St} {P : α → Prop}
    (hm : RO m σ P) (hh : ∀ e, RO (hd e) σ P) : RO (catchNotDefined m hd) σ P := by
  unfold Pseudo.catchNotDefined
  refine RO.tryCatch hm ?_
  intro e
  cases e with
  | diag d =>
    dsimp only
    split
    · refine RO.bind (RO.get σ) ?_
      intro s _
      split
      · exact hh _
      · exact RO.throw _
    · exact RO.throw _
  | _ => exact RO.throw _

/-- evaluating a rooted reference as an expression leaves the state as it is, whatever the result -/
theorem run_evalExpr_access_rooted (σ : St) (at' st : Tok) (sr : Ref) (sroot : Loc) (f₀ m f : Nat)
    (hsbase : ∀ f, 1 ≤ f → ∃ h0, (resolveRef f (.var st)).run.run σ = (.ok h0, σ) ∧ h0.loc = sroot)
    (hsroot : Rooted σ f₀ st sr m) (hf : m + 1 ≤ f) :
    ∃ res, (evalExpr f (.access at' sr)).run.run σ = (res, σ) := by
  obtain ⟨f', rfl⟩ : ∃ f', f = f' + 1 := ⟨f - 1, by omega⟩
  have hres := RO.resolve_rooted σ f₀ st sroot hsbase hsroot f' (by omega)
  suffices h : RO (evalExpr (f'+1) (.access at' sr)) σ (fun _ => True) by
    obtain ⟨res, h1, _⟩ := h
    exact ⟨res, h1⟩
  rw [evalExpr_access]
  refine RO.bind (P := fun _ => True) ?_ ?_
  · refine RO.catchNotDefined ?_ ?_
    · exact RO.bind hres (fun h _ => RO.pure _ trivial)
    · intro e
      refine RO.bind (RO.getEnumElement _ _ σ) ?_
      intro o _
      cases o with
      | none => exact RO.throw _
      | some _ => exact RO.pure _ trivial
  · intro o _
    cases o with
    | none =>
      refine RO.bind (RO.getEnumElement _ _ σ) ?_
      intro o _
      cases o with
      | none => exact RO.throw _
      | some _ => exact RO.pure _ trivial
    | some h =>
      dsimp only
      split
      · exact RO.rtErr _ _ σ
      · exact RO.readLoc _ σ

/-! ## runs that keep everything outside the root -/

/-- however the run of `m` from `σ` ends, every location outside the root variable of `root` reads the same -/
def KP {α : Type} (root : Loc) (m : M α) (σ : St) : Prop :=
  ∀ res σ₂, m.run.run σ = (res, σ₂) → Keeps root σ σ₂

theorem KP.of_ro {α : Type} {root : Loc} {m : M α} {σ : St} {P : α → Prop} (h : RO m σ P) : KP root m σ := by
  intro res σ₂ hrun
  obtain ⟨res', h1, _⟩ := h
  rw [state_of_run hrun h1]
  exact Keeps.refl _ _

theorem KP.bind_ro {α β : Type} {root : Loc} {m : M α} {k : α → M β} {σ : St} {P : α → Prop}
    (hm : RO m σ P) (hk : ∀ a, P a → KP root (k a) σ) : KP root (m >>= k) σ := by
  intro res σ₂ hrun
  obtain ⟨res', h1, h2⟩ := hm
  rcases bind_cases m k σ σ₂ res hrun with ⟨e, he, _⟩ | ⟨a, σ1, ha, hk'⟩
  · rw [state_of_run he h1]
    exact Keeps.refl _ _
  · have hσ1 := state_of_run ha h1
    subst hσ1
    rw [h1] at ha
    injection ha with ha _
    exact hk a (h2 a ha) res σ₂ hk'

theorem KP.writeLoc (root : Loc) (t : Tok) (l : Loc) (v : Val) (σ : St) (hs : SameRoot root l) :
    KP root (writeLoc t l v) σ :=
  fun res σ₂ h => keeps_writeLoc root t l v σ σ₂ res hs h

/-- the rest of an assignment to a rooted reference, once the right-hand side has a value -/
theorem assignTail_keeps (σ : St) (t bt : Tok) (r : Ref) (rv : Val) (root : Loc) (f₀ n f : Nat)
    (hbase : ∀ f, 1 ≤ f → ∃ h0, (resolveRef f (.var bt)).run.run σ = (.ok h0, σ) ∧ h0.loc = root)
    (hroot : Rooted σ f₀ bt r n) (hf : n ≤ f) : KP root (assignTail f t r rv) σ := by
  intro res σ₂ hrun
  obtain ⟨res0, h1, h2⟩ := RecordLemmas.resolve_rooted σ f₀ bt root hbase hroot f hf
  cases res0 with
  | error x =>
    rcases hroot.var_or_nonvar with rfl | hnv
    · obtain ⟨h0, h3, _⟩ := hbase f (by have := hroot.pos; omega)
      rw [h3] at h1
      cases h1
    · rw [run_assignTail_err_nonvar σ σ t r rv x f hnv h1] at hrun
      injection hrun with _ hs
      subst hs
      exact Keeps.refl _ _
  | ok h =>
    have hsr := h2 h rfl
    cases harr : h.isArr with
    | true =>
      rw [run_assignTail_array σ t r rv h f h1 harr] at hrun
      injection hrun with _ hs
      subst hs
      exact Keeps.refl _ _
    | false =>
      rw [run_assignTail_resolved σ t r rv h f h1 harr] at hrun
      revert hrun
      split
      · exact fun hrun => KP.of_ro (RO.rtErr (P := fun _ => True) t .constAssign σ) res σ₂ hrun
      · split
        · exact fun hrun => KP.of_ro (RO.rtErr (P := fun _ => True) t .typeMismatch σ) res σ₂ hrun
        · exact fun hrun => KP.writeLoc root t h.loc _ σ hsr res σ₂ hrun

/-- `execAssign` with rooted references on both sides -/
theorem execAssign_access_rooted_keeps (σ : St) (t bt st at' : Tok) (r sr : Ref) (root sroot : Loc) (f₀ n m f : Nat)
    (hbase : ∀ f, 1 ≤ f → ∃ h0, (resolveRef f (.var bt)).run.run σ = (.ok h0, σ) ∧ h0.loc = root)
    (hsbase : ∀ f, 1 ≤ f → ∃ h0, (resolveRef f (.var st)).run.run σ = (.ok h0, σ) ∧ h0.loc = sroot)
    (hroot : Rooted σ f₀ bt r n) (hsroot : Rooted σ f₀ st sr m) (hf : max n (m + 1) ≤ f) :
    KP root (execAssign (f+1) t r (.access at' sr)) σ := by
  obtain ⟨ev, hev⟩ := run_evalExpr_access_rooted σ at' st sr sroot f₀ m f hsbase hsroot (by omega)
  rw [execAssign_succ]
  refine KP.bind_ro (RO.curAct σ) ?_
  intro cur _
  refine KP.bind_ro (RO.get σ) ?_
  intro s _
  refine KP.bind_ro (P := fun _ => True) ?_ ?_
  · refine RO.tryCatch (RO.bind (RO.of_run hev) (fun v _ => RO.pure _ trivial)) ?_
    intro e
    cases e with
    | diag d =>
      dsimp only
      split
      · exact RO.pure _ trivial
      · exact RO.throw _
    | _ => exact RO.throw _
  · intro rv? _
    cases rv? with
    | some rv => exact assignTail_keeps σ t bt r rv root f₀ n f hbase hroot (by omega)
    | none =>
      dsimp only
      refine KP.bind_ro (RO.resolve_rooted σ f₀ st sroot hsbase hsroot f (by omega)) ?_
      intro sh _
      split
      · exact KP.of_ro (RO.rtErr (P := fun _ => True) _ _ σ)
      · refine KP.bind_ro (RO.resolve_rooted σ f₀ bt root hbase hroot f (by omega)) ?_
        intro th hth
        split
        · exact KP.of_ro (RO.rtErr (P := fun _ => True) _ _ σ)
        · refine KP.bind_ro (RO.readLoc _ σ) ?_
          intro sv _
          refine KP.bind_ro (RO.readLoc _ σ) ?_
          intro tv _
          split
          · split
            · exact KP.of_ro (RO.rtErr (P := fun _ => True) _ _ σ)
            · split
              · exact KP.of_ro (RO.rtErr (P := fun _ => True) _ _ σ)
              · exact KP.writeLoc root t th.loc _ σ hth
          · exact KP.of_ro (RO.throw (P := fun _ => True) _)

set_option linter.unusedVariables false in
/-- **`r <- sr` where both sides are rooted references** (`r` rooted at the name `bt` whose root location is `root`, `sr`
    rooted at `st`): this covers the whole-array assignment `p.xs <- q.ys` / `p.xs <- arr` (the right-hand side denotes a
    whole array: the evaluator takes the array-copy path of `execAssign`) as well as `p.f <- q.g`.  However the
    statement ends, every location outside the root variable of `r` reads what it read before.
    Fuel: the statement spends three units before it resolves `r` and four before it resolves `sr` (the source is
    first evaluated as an expression), hence `max n (m + 1) + 3 ≤ f`.  (`hacts` is kept for uniformity with the
    sibling lemmas; the proof does not need it.) -/
theorem assign_access_rooted_keeps (σ σ₂ : St) (t bt st at' : Tok) (r sr : Ref) (root sroot : Loc) (f₀ n m f : Nat)
    (res : Except Stop Val) (hacts : σ.acts ≠ [])
    (hbase : ∀ f, 1 ≤ f → ∃ h0, (resolveRef f (.var bt)).run.run (tickSt σ) = (.ok h0, tickSt σ) ∧ h0.loc = root)
    (hsbase : ∀ f, 1 ≤ f → ∃ h0, (resolveRef f (.var st)).run.run (tickSt σ) = (.ok h0, tickSt σ) ∧ h0.loc = sroot)
    (hroot : Rooted (tickSt σ) f₀ bt r n) (hsroot : Rooted (tickSt σ) f₀ st sr m) (hf : max n (m + 1) + 3 ≤ f)
    (hrun : (execStmt f (.expr (.assign t r (.access at' sr)))).run.run σ = (res, σ₂)) :
    Keeps root σ σ₂ := by
  obtain ⟨f', rfl⟩ : ∃ f', f = f' + 3 := ⟨f - 3, by omega⟩
  rw [execStmt_expr] at hrun
  rcases tick_cases _ _ σ σ₂ res hrun with h | h
  · rw [h]
    exact Keeps.refl _ _
  · refine (tickSt_keeps root σ).trans ?_
    rw [evalExpr_assign] at h
    rcases bind_cases _ _ _ _ _ h with ⟨e, he, _⟩ | ⟨a, σ1, ha, hk⟩
    · exact execAssign_access_rooted_keeps (tickSt σ) t bt st at' r sr root sroot f₀ n m f' hbase hsbase hroot hsroot
        (by omega) _ _ he
    · have hσ : σ₂ = σ1 := by
        injection hk with _ hk
        exact hk.symm
      rw [hσ]
      exact execAssign_access_rooted_keeps (tickSt σ) t bt st at' r sr root sroot f₀ n m f' hbase hsbase hroot hsroot
        (by omega) _ _ ha

/-! ## instances: the hypotheses can be met (the example state of `Properties/C07Exec.lean`) -/
section instances
open C07ExecEx

/-- `b.xs <- a.xs`: a whole-array copy between two record variables -/
def exArrStmt : Stmt :=
  .expr (.assign (tk "<-") (.field (tk ".") (.var (tk "b")) (tk "xs"))
    (.access (tk "a") (.field (tk ".") (.var (tk "a")) (tk "xs"))))

/-- `b.f <- a.f`: a field copy -/
def exFldStmt : Stmt :=
  .expr (.assign (tk "<-") (.field (tk ".") (.var (tk "b")) (tk "f"))
    (.access (tk "a") (.field (tk ".") (.var (tk "a")) (tk "f"))))

example : Keeps (varLoc 0 (tk "b").val) exSt ((execStmt 8 exArrStmt).run.run exSt).2 :=
  assign_access_rooted_keeps exSt _ (tk "<-") (tk "b") (tk "a") (tk "a") _ _ (varLoc 0 (tk "b").val)
    (varLoc 0 (tk "a").val) 0 2 2 8 _ (by decide) (hasB.tick.base (tk "b")) (hasA.tick.base (tk "a"))
    (.field (tk ".") (tk "xs") .var) (.field (tk ".") (tk "xs") .var) (by decide) rfl

example : Keeps (varLoc 0 (tk "b").val) exSt ((execStmt 8 exFldStmt).run.run exSt).2 :=
  assign_access_rooted_keeps exSt _ (tk "<-") (tk "b") (tk "a") (tk "a") _ _ (varLoc 0 (tk "b").val)
    (varLoc 0 (tk "a").val) 0 2 2 8 _ (by decide) (hasB.tick.base (tk "b")) (hasA.tick.base (tk "a"))
    (.field (tk ".") (tk "f") .var) (.field (tk ".") (tk "f") .var) (by decide) rfl

/-- both statements succeed and do write (the run of the model, evaluated by the kernel) -/
example : (isOk ((execStmt 8 exArrStmt).run.run exSt).1 &&
    readsInt ((execStmt 8 exArrStmt).run.run exSt).2 (locB [F "xs", .idx 1]) 20 &&
    isOk ((execStmt 8 exFldStmt).run.run exSt).1 &&
    readsInt ((execStmt 8 exFldStmt).run.run exSt).2 (locB [F "f"]) 1) = true := by decide +kernel

end instances

end ByvalWrites
end Pseudo
