import PseudoProofs.ByvalWritesStmts
import PseudoProofs.ByvalWritesRefSk
/-!
# BYVAL parameter writes: passing a part of the parameter on BYREF

`bind_byref_rooted`: binding a BYREF parameter to an argument rooted at `bt` makes it an alias of a location under the root of `bt`
(state unchanged).  `alias_base`: in the procedure that got the alias, the formal's name resolves to that location.
-/
namespace Pseudo
namespace ByvalWrites
open ArrayLemmas C07Copy CallLemmas RecordLemmas RecordReturn

/-- a BYREF formal of the innermost activation resolves to the location it is an alias of -/
theorem alias_base (σq : St) (cur : Act) (rest : List Act) (qt : Tok) (s : Slot) (l : Loc)
    (hacts : σq.acts = cur :: rest) (hs : findSlot cur.vars qt.val = some s) (href : s.ref = some l) :
    ∀ f, 1 ≤ f → ∃ h0, (resolveRef f (.var qt)).run.run σq = (.ok h0, σq) ∧ h0.loc = l := by
  intro f hf
  obtain ⟨f', rfl⟩ : ∃ f', f = f' + 1 := ⟨f - 1, by omega⟩
  obtain ⟨g, hg⟩ := exists_getLast cur rest
  rw [← hacts] at hg
  refine ⟨_, run_resolveRef_var σq cur g rest qt f' cur s hacts hg (lookupVarIn_own cur g _ s hs), ?_⟩
  unfold holderOf
  rw [href]

/-- **binding a BYREF parameter to an argument rooted at `bt`**: the binding fails and leaves the state as it is, or the
    parameter becomes an alias (`byrefSlot`) of a location under the root of `bt`, the state is unchanged and the remaining
    parameters are bound -/
theorem bind_byref_rooted (σ : St) (t bt at' : Tok) (pn : Str) (pty : Ty) (ps : List (Str × Ty × Bool)) (r : Ref)
    (es : List Expr) (v : Val) (vs : List Val) (acc : List Slot) (root : Loc) (f₀ n f : Nat)
    (hbase : ∀ f, 1 ≤ f → ∃ h0, (resolveRef f (.var bt)).run.run σ = (.ok h0, σ) ∧ h0.loc = root)
    (hroot : Rooted σ f₀ bt r n) (hf : n ≤ f) :
    (∃ e, (bindParams (f+1) t ((pn, pty, true) :: ps) (.access at' r :: es) (v :: vs) acc).run.run σ = (.error e, σ)) ∨
    (∃ h, SameRoot root h.loc ∧ h.isArr = false ∧ h.ty = pty ∧ (resolveRef f r).run.run σ = (.ok h, σ) ∧
      (bindParams (f+1) t ((pn, pty, true) :: ps) (.access at' r :: es) (v :: vs) acc).run.run σ =
        (bindParams f t ps es vs (byrefSlot pn h (locConstP σ h.loc) :: acc)).run.run σ) := by
  by_cases hty : v.ty = pty
  · obtain ⟨res0, h1, h2⟩ := resolve_rooted σ f₀ bt root hbase hroot f hf
    cases res0 with
    | error x => exact .inl ⟨x, run_bindParams_byref_err f t pn pty ps at' r es v vs acc σ σ x hty h1⟩
    | ok h =>
      have hb := run_bindParams_byref f t pn pty ps at' r es v vs acc σ σ h hty h1
      cases harr : h.isArr with
      | true => rw [harr] at hb; simp only [if_true] at hb; exact .inl ⟨_, hb⟩
      | false =>
        rw [harr] at hb
        simp only [Bool.false_eq_true, if_false] at hb
        by_cases hh : h.ty = pty
        · rw [if_pos hh] at hb
          exact .inr ⟨h, h2 h rfl, harr, hh, h1, hb⟩
        · rw [if_neg hh] at hb
          exact .inl ⟨_, hb⟩
  · exact .inl ⟨_, run_bindParams_byref_type f t pn pty ps _ es v vs acc σ hty⟩

end ByvalWrites
end Pseudo
