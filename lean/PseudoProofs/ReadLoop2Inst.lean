import PseudoProofs.ReadLoop2Loop
import PseudoProofs.RandomFile2
/-!
# Helpers for C15 (`Properties/C15Files.lean`), part 4: instances of the generic reading loop

* `loopFinal_simple`: closed form of the final state when the second statement touches only `steps`, `out`, `fs`;
* `s2_output` (OUTPUT line), `s2_copy` (WRITEFILE b, line), `s2_incr` (cnt <- cnt + 1): the specifications `S2`;
* `node_foldl_copy`: the content of the target file after the copying loop.
-/
namespace Pseudo.ReadLoop2
open Pseudo Pseudo.FileStmt Pseudo.ReadLoop Pseudo.ArrayLemmas Pseudo.C07Copy

/-! ### closed form for simple second statements -/

/-- a second statement that uses one step and changes only the output chunks and the file system, as functions of the line -/
def simplePost (po : Str → List Str → List Str) (pf : Str → List (Str × FsNode) → List (Str × FsNode)) (l : Str) (τ : St) : St :=
  { τ with steps := τ.steps + 1, out := po l τ.out, fs := pf l τ.fs }

/-- the activation list after the lines `Ls` have been stored, one after the other, in the variable at `L` -/
def lastActs (acts : List Act) (L : Loc) (Ls : List Str) : List Act :=
  match Ls.getLast? with
  | none => acts
  | some l => updActs acts L.act (writeF L (.str l))

theorem updActs_updActs (id : Nat) (F G : Act → Act) (hF : ∀ a, (F a).id = a.id) :
    ∀ acts : List Act, updActs (updActs acts id F) id G = updActs acts id (fun a => G (F a)) := by
  intro acts
  induction acts with
  | nil => rfl
  | cons a rest ih =>
    by_cases ha : (a.id == id) = true
    · have : ((F a).id == id) = true := by rw [hF]; exact ha
      simp only [updActs, ha, if_true, this]
    · simp only [updActs, ha, Bool.false_eq_true, if_false, ih]

theorem writeF_writeF (l : Loc) (v w : Val) (a : Act) : writeF l w (writeF l v a) = writeF l w a := by
  unfold writeF
  cases l.isArr
  · simp only [Bool.false_eq_true, if_false]
    rw [updSlot_updSlot_same l.name (fun s => { s with val := v }) (fun s => { s with val := w }) (fun _ => rfl)]
  · simp only [if_true]
    rw [updSlot_updSlot_same l.name (fun s => { s with val := v }) (fun s => { s with val := w }) (fun _ => rfl)]

theorem lastActs_step (acts : List Act) (L : Loc) (l : Str) (Ls : List Str) :
    lastActs (updActs acts L.act (writeF L (.str l))) L Ls = lastActs acts L (l :: Ls) := by
  cases Ls with
  | nil => rfl
  | cons l' Ls' =>
    unfold lastActs
    rw [List.getLast?_cons_cons]
    cases hx : (l' :: Ls').getLast? with
    | none => cases List.getLast?_eq_none_iff.mp hx
    | some x =>
      dsimp only
      rw [updActs_updActs _ _ _ (writeF_id L (.str l))]
      congr 1
      funext a
      exact writeF_writeF L _ _ a

theorem loopFinal_simple (po : Str → List Str → List Str) (pf : Str → List (Str × FsNode) → List (Str × FsNode))
    (n : Str) (L : Loc) : ∀ (txt : Str) (Ls : List Str), Reads txt Ls → ∀ σ : St,
    loopFinal (simplePost po pf) n L txt Ls σ =
      { σ with steps := σ.steps + (3 * Ls.length + 1), nextId := σ.nextId + (Ls.length + 1),
               handles := drain σ.handles n Ls, acts := lastActs σ.acts L Ls,
               out := Ls.foldl (fun o l => po l o) σ.out, fs := Ls.foldl (fun s l => pf l s) σ.fs } := by
  intro txt Ls hreads
  induction hreads with
  | nil => intro σ; rfl
  | cons txt l r Ls hne hrl hreads ih =>
    intro σ
    have hr2 : (readLineOf txt).2 = r := by rw [hrl]
    show loopFinal (simplePost po pf) n L (readLineOf txt).2 Ls (simplePost po pf l (rdSt σ n L l (readLineOf txt).2)) = _
    rw [hr2, ih]
    have hL : Ls = [] → r = [] := fun hL => by subst hL; exact hreads.nil_inv
    have e1 : σ.steps + 1 + 1 + 1 + (3 * Ls.length + 1) = σ.steps + (3 * (l :: Ls).length + 1) := by
      simp only [List.length_cons]; omega
    have e2 : σ.nextId + 1 + (Ls.length + 1) = σ.nextId + ((l :: Ls).length + 1) := by
      simp only [List.length_cons]; omega
    show ({ σ with steps := σ.steps + 1 + 1 + 1 + (3 * Ls.length + 1), nextId := σ.nextId + 1 + (Ls.length + 1),
                   handles := drain (setRest σ.handles n r) n Ls,
                   acts := lastActs (updActs σ.acts L.act (writeF L (.str l))) L Ls,
                   out := Ls.foldl (fun o l => po l o) (po l σ.out), fs := Ls.foldl (fun s l => pf l s) (pf l σ.fs) } : St) = _
    rw [e1, e2, drain_step σ.handles n r l Ls hL, lastActs_step]
    rfl

/-! ### OUTPUT line -/

def outPost : Str → St → St := simplePost (fun l o => ['\n'] :: l :: o) (fun _ fs => fs)

theorem s2_output (to tacc tv : Tok) (n x : Str) (L : Loc) (htv : tv.val = x) :
    S2 (outStmt to tacc tv) n x L outPost (fun _ _ => True) := by
  intro f l r ls σ v0 h c _ hb hc2
  have ht : Tgt (rdSt σ n L l r) tv.val .str L (.str l) := by rw [htv]; exact hc2.tgt
  have h2 := run_outputTgt (f+3) to tacc tv (rdSt σ n L l r) L l (by show σ.steps + 1 + 1 + 1 ≤ σ.stepLimit; omega) ht
  refine ⟨h2, ⟨hc2.acts, hc2.depth, hc2.tgt.of_acts rfl, hc2.hh, hc2.hm⟩, trivial, rfl, rfl⟩

theorem foldl_outChunks : ∀ (Ls : List Str) (acc : List Str),
    Ls.foldl (fun o l => ['\n'] :: l :: o) acc = outChunks Ls acc
  | [], _ => rfl
  | l :: Ls, acc => by rw [List.foldl_cons, outChunks, foldl_outChunks Ls]

theorem foldl_const {α β : Type} (Ls : List α) (x : β) : Ls.foldl (fun s _ => s) x = x := by
  induction Ls with
  | nil => rfl
  | cons _ _ ih => rw [List.foldl_cons, ih]

/-! ### WRITEFILE b, line -/

/-- appending the line `l` to the file `b` -/
def appendLine (b : Str) (l : Str) (fs : List (Str × FsNode)) : List (Str × FsNode) :=
  setNode fs b (.file (contentOf fs b ++ l ++ ['\n']))

def copyPost (b : Str) : Str → St → St := simplePost (fun _ o => o) (appendLine b)

/-- `b` is open FOR WRITE / APPEND and is a file -/
def Writable (b : Str) (σ : St) : Prop :=
  ∃ hb c, FState.handle (fileSt σ) b = some hb ∧ (hb.mode = .write ∨ hb.mode = .append) ∧
    FState.node (fileSt σ) b = some (.file c)

theorem s2_copy (t tn tacc tv : Tok) (n b x : Str) (L : Loc) (htv : tv.val = x) :
    S2 (.writeFile t (.strLit tn b) (.access tacc (.var tv))) n x L (copyPost b) (fun _ σ => Writable b σ) := by
  intro f l r ls σ v0 h c hw hbud hc2
  obtain ⟨hb, cb, hhb, hmb, hnb⟩ := hw
  have hne : b ≠ n := by
    intro e
    subst e
    have := c.hh.symm.trans hhb
    injection this with this
    subst this
    rcases hmb with hmb | hmb <;> rw [c.hm] at hmb <;> cases hmb
  have ht : Tgt (rdSt σ n L l r) tv.val .str L (.str l) := by rw [htv]; exact hc2.tgt
  have hhb' : FState.handle (fileSt (rdSt σ n L l r)) b = some hb := by
    show (setRest σ.handles n r).find? (·.name == b) = some hb
    unfold setRest
    rw [RandomFile.handle_upd_other σ.handles n b (fun h => { h with rest := r }) (fun _ => rfl) hne]
    exact hhb
  have hnb' : FState.node (fileSt (rdSt σ n L l r)) b = some (.file cb) := hnb
  have h2 := run_writeFileTgt (f+3) t tn tacc tv b (rdSt σ n L l r) L l cb hb
    (by show σ.steps + 1 + 1 + 1 ≤ σ.stepLimit; omega) ht hhb' hmb hnb'
  have hcont : contentOf (rdSt σ n L l r).fs b = cb := by
    unfold contentOf
    have : FState.node { fs := (rdSt σ n L l r).fs } b = some (.file cb) := hnb
    rw [this]
  have hpost : copyPost b l (rdSt σ n L l r) =
      { rdSt σ n L l r with steps := (rdSt σ n L l r).steps + 1,
                            fs := setNode (rdSt σ n L l r).fs b (.file (cb ++ l ++ ['\n'])) } := by
    unfold copyPost simplePost appendLine
    rw [hcont]
  rw [hpost]
  refine ⟨h2, ⟨hc2.acts, hc2.depth, hc2.tgt.of_acts rfl, hc2.hh, hc2.hm⟩, ⟨hb, cb ++ l ++ ['\n'], hhb', hmb, ?_⟩, rfl, rfl⟩
  exact node_setNode_same _ _ _

/-- the file system after the lines `Ls` have been appended to `b`: `b` holds the old content followed by the lines, every
    other name is untouched -/
theorem node_foldl_copy (b : Str) : ∀ (Ls : List Str) (fs : List (Str × FsNode)) (c : Str),
    FState.node { fs := fs } b = some (.file c) →
    FState.node { fs := Ls.foldl (fun s l => appendLine b l s) fs } b = some (.file (c ++ joinLines Ls)) ∧
    ∀ m, m ≠ b → FState.node { fs := Ls.foldl (fun s l => appendLine b l s) fs } m = FState.node { fs := fs } m
  | [], fs, c, h => ⟨by simpa [joinLines] using h, fun _ _ => rfl⟩
  | l :: Ls, fs, c, h => by
    have hc : contentOf fs b = c := by unfold contentOf; rw [h]
    have h1 : FState.node { fs := appendLine b l fs } b = some (.file (c ++ l ++ ['\n'])) := by
      unfold appendLine; rw [hc]; exact node_setNode_same _ _ _
    obtain ⟨ih1, ih2⟩ := node_foldl_copy b Ls (appendLine b l fs) _ h1
    rw [List.foldl_cons]
    refine ⟨?_, ?_⟩
    · rw [ih1]; simp [joinLines, List.append_assoc]
    · intro m hm
      rw [ih2 m hm]
      unfold appendLine
      exact node_setNode_other fs b m _ (Ne.symm hm)

/-! ### cnt <- cnt + 1 -/

/-- the INTEGER held at `Lc` (0 if there is none) -/
def cntOf (τ : St) (Lc : Loc) : Int :=
  match readLocP τ Lc with
  | .ok (.int c) => c
  | _ => 0

def incrPost (Lc : Loc) : Str → St → St :=
  fun _ τ => writeLocSt { τ with steps := τ.steps + 1 } Lc (.int (wrap64 (cntOf τ Lc + 1)))

/-- the invariant of the counting loop: `y` resolves to an assignable INTEGER variable at `Lc` whose value plus the number of
    lines still to be read is `cfin`; the current activation is not a record context -/
def CntInv (y : Str) (Lc : Loc) (cfin : Int) (ls : List Str) (σ : St) : Prop :=
  (∃ c : Int, Tgt σ y .int Lc (.int c) ∧ c + ls.length = cfin ∧ -two63 ≤ c) ∧
  ∃ a rest, σ.acts = a :: rest ∧ a.isComp = false

theorem s2_incr (ta tx tp tacc tv t1 : Tok) (n x : Str) (L Lc : Loc) (cfin : Int) (htv : tv.val = tx.val)
    (hfin : cfin < two63) :
    S2 (incrStmt ta tx tp tacc tv t1) n x L (incrPost Lc) (CntInv tx.val Lc cfin) := by
  intro f l r ls σ v0 h c hinv hbud hc2
  obtain ⟨⟨k, htk, hk, hk1⟩, a, rest, hacts, hcomp⟩ := hinv
  have hd : DiffRoot L Lc := Tgt.diffRoot c.tgt htk (by intro e; cases e)
  let σ' : St := { σ with steps := σ.steps + 1 + 1, nextId := σ.nextId + 1, handles := setRest σ.handles n r }
  have htk2 : Tgt (rdSt σ n L l r) tx.val .int Lc (.int k) := (htk.of_acts (σ' := σ') rfl).write_other L (.str l) hd
  obtain ⟨a2, rest2, hacts2, _, hcomp2⟩ := head_writeLocSt σ' L (.str l) a rest hacts
  have h2 := run_incrTgt (f+1) ta tx tp tacc tv t1 (rdSt σ n L l r) Lc k (by show σ.steps + 1 + 1 + 1 ≤ σ.stepLimit; omega)
    ⟨a2, rest2, hacts2, hcomp2.trans hcomp⟩ htv htk2
  have hcnt : cntOf (rdSt σ n L l r) Lc = k := by unfold cntOf; rw [htk2.val]
  have hlen : ((l :: ls).length : Int) = (ls.length : Int) + 1 := by simp
  have hw : wrap64 (k + 1) = k + 1 := wrap64_id' (k + 1) (by omega) (by omega)
  have hpost : incrPost Lc l (rdSt σ n L l r) =
      writeLocSt { rdSt σ n L l r with steps := (rdSt σ n L l r).steps + 1 } Lc (.int (k + 1)) := by
    unfold incrPost; rw [hcnt, hw]
  rw [hw] at h2
  rw [hpost]
  let τ' : St := { rdSt σ n L l r with steps := (rdSt σ n L l r).steps + 1 }
  obtain ⟨a3, rest3, hacts3, hsw3, hcomp3⟩ := head_writeLocSt τ' Lc (.int (k + 1)) a2 rest2 hacts2
  obtain ⟨a2', rest2', hacts2', hsw2'⟩ := hc2.acts
  have hsw2 : a2.switchTok = none := by
    have hacts2'' : (writeLocSt σ' L (.str l)).acts = a2' :: rest2' := hacts2'
    rw [hacts2] at hacts2''
    injection hacts2'' with e1 _
    rw [e1]; exact hsw2'
  refine ⟨h2, ⟨⟨a3, rest3, hacts3, hsw3.trans hsw2⟩, hc2.depth, ?_, hc2.hh, hc2.hm⟩,
    ⟨⟨k + 1, ?_, by omega, by omega⟩, a3, rest3, hacts3, hcomp3.trans (hcomp2.trans hcomp)⟩, rfl, rfl⟩
  · exact (hc2.tgt.of_acts (σ' := τ') rfl).write_other Lc _ hd.symm
  · exact (htk2.of_acts (σ' := τ') rfl).write_same _

end Pseudo.ReadLoop2
