import PseudoProofs.NoCrashLSpec
import PseudoProofs.NoCrashRSteps2
/-!
# C01 with TYPE statements anywhere, step lemmas, part 2: `evalIndices`, `resolveRef`, `evalExpr`, `execAssign`
(the port of `NoCrashRSteps2.lean` to the namespace `Pseudo.NL`)

The state-independent helpers `NR.ro_isLive'`, `NR.live_of_any`, `NR.findField_isArr`, `NR.member_kind` are those of
`NoCrashRSteps2.lean`; `run_access_block` is restated relative to the current scope.
-/
namespace Pseudo.NL
open Pseudo
open Pseudo.NC (ReadsIn ActRead ErrOK ErrNR NoCrash RO EOK errOK_diag errNR_diag errOK_fuel errNR_fuel errOK_brk errOK_cont
  getLast?_mem ro_findAct ro_isLive ro_rtErr ro_rtErr0 ro_pedErr ro_liftMsg ro_liftMsg0 ro_readLoc ro_locIsConst ro_filePre
  ro_writeText ro_get getPath_nil findSlot_name findSlot_mem lookupVarIn_some lookupArrIn_some lookupVarIn_none top_mem
  getPath_append)
open Pseudo.NR (litDims declStmt declBody NArr Kind kind SameKind sigOf SigDefined Live genums gptrs gcomps kind_val_narr
  kind_of_narr kind_arr_inv kind_int kind_str kind_ptr kind_comp kind_prim_simple narr_implicitCast)
variable {f : Nat}

theorem step_evalIndices (ih : AllTri f) : ∀ es dims acc, es.length = dims.length →
    Tri NTop (evalIndices (f+1) es dims acc) (fun _ r _ => ∃ is', r = acc.reverse ++ is' ∧ InBoundsAll dims is') := by
  intro es dims acc hlen σ hW hN
  cases es with
  | nil =>
    cases dims with
    | cons d ds => simp at hlen
    | nil =>
      rw [evalIndices.eq_def]
      exact Run.pure hW (Ext.refl σ) ⟨[], by simp, trivial⟩
  | cons e rest =>
    cases dims with
    | nil => simp at hlen
    | cons d ds =>
      rw [evalIndices.eq_def]
      dsimp only
      refine Run.bind (Ext.refl σ) (ih.evalExpr e σ hW hN) fun v σ1 hW1 hE1 hE01 hv => ?_
      split
      · rename_i i d' ds' heq
        cases heq
        split
        · exact Run.rtErr hW1 hE01 _ _
        · rename_i hb
          have hb' : inBounds d i = true := by simpa using hb
          refine Run.of_tri hE01 (ih.evalIndices rest ds (i :: acc) (by simpa using hlen) σ1 hW1 (hN.ext hE1)) ?_
          rintro r σ2 _ _ ⟨is', rfl, hin⟩
          exact ⟨i :: is', by simp, (NC.inBounds_iff d i).1 hb', hin⟩
      · rename_i heq; cases heq
      · exact Run.rtErr hW1 hE01 _ _

/-- the cross condition of the member of a record that a holder points to -/
theorem member_cross {σ : St} (hW : WF σ) {h : Holder} (hh : HolderOK σ (tscope σ) h) {n : Str} {fs : List (Str × Val)}
    (hc : CellOK σ (tscope σ) h.ty (.comp n fs)) {m : Str} {k : Bool} {fv : Val} (hfv : findField fs m k = some fv) {ety : Ty}
    (hmk : if fv.isArr = true then ∃ d, kind fv = .arr ety d else kind fv = .val ety) :
    TyG σ ety ∨ scopeAt σ h.loc.act = tscope σ := by
  rcases hh.2 with hg | hs
  · refine Or.inl ?_
    have hty : Ty.comp n = h.ty := Kind.val.inj hc.1
    obtain ⟨x, hxm, hx2⟩ := NR.findField_mem hfv
    have hkg := field_cross hW (tscope_sv σ) hc.2.root hxm (by rw [hty]; exact hg)
    rw [hx2] at hkg
    by_cases hia : fv.isArr = true
    · rw [if_pos hia] at hmk
      obtain ⟨d, hd⟩ := hmk
      rw [hd] at hkg; exact hkg
    · rw [if_neg hia] at hmk
      rw [hmk] at hkg; exact hkg
  · exact Or.inr hs

theorem step_resolveRef (ih : AllTri f) : ∀ r, Tri NTop (resolveRef (f+1) r) (fun _ h σ' => HolderOK σ' (tscope σ') h) := by
  intro r σ hW hN
  have hE0 := Ext.refl σ
  cases r with
  | var t =>
    rw [resolveRef.eq_def]; dsimp only
    refine Run.ro hW hE0 (ro_lookupVar hW t.val) fun res ⟨a, rest, g, ha, hg, hres⟩ => ?_
    have hamem : a ∈ σ.acts := top_mem ha
    have hgmem : g ∈ σ.acts := getLast?_mem hg
    cases res with
    | some p =>
      obtain ⟨b, s⟩ := p
      dsimp only
      obtain ⟨hb, hs⟩ := lookupVarIn_some hres.symm
      have hbmem : b ∈ σ.acts := by rcases hb with rfl | rfl <;> assumption
      have hty := var_tyloc hW hbmem hs
      have hcr := var_cross hW ha hg hb hs
      cases hr : s.ref with
      | some l =>
        rw [hr] at hty hcr
        exact Run.pure hW hE0 (TyLoc.holder hty hcr)
      | none =>
        rw [hr] at hty hcr
        exact Run.pure hW hE0 (TyLoc.holder hty hcr)
    | none =>
      dsimp only
      refine Run.ro hW hE0 (ro_lookupArr hW t.val) fun res ⟨a', rest', g', ha', hg', hres'⟩ => ?_
      cases res with
      | some p =>
        obtain ⟨b, s⟩ := p
        dsimp only
        obtain ⟨hb, hs⟩ := lookupArrIn_some hres'.symm
        have hbmem : b ∈ σ.acts := by
          rcases hb with rfl | rfl
          · exact top_mem ha'
          · exact getLast?_mem hg'
        obtain ⟨hrd, hok⟩ := arr_holder hW hbmem hs
        have hcr := arr_cross hW ha' hg' hb hs
        exact Run.pure hW hE0 ⟨⟨s.val, hrd, by simpa using hok.1⟩, hcr⟩
      | none => exact Run.rtErr hW hE0 _ _
  | field t r m =>
    rw [resolveRef.eq_def]; dsimp only
    refine Run.bind hE0 (ih.resolveRef r σ hW hN) fun h σ1 hW1 hE1 hE01 hh => ?_
    split
    · exact Run.rtErr hW1 hE01 _ _
    · rename_i harr
      obtain ⟨v, hv, hc⟩ := hh.cell hW1 (tscope_sv σ1) harr
      refine Run.ro hW1 hE01 (ro_readLoc hv) fun v' hv' => ?_
      subst hv'
      split
      · rename_i n fs
        split
        · exact Run.rtErr hW1 hE01 _ _
        · rename_i k hmk
          split
          · exact Run.rtErr hW1 hE01 _ _
          · rename_i fv hfv
            have hcross := member_cross hW1 hh hc hfv (NR.member_kind fv)
            obtain ⟨a, s, h1, h2, h3⟩ := hv
            refine Run.pure hW1 hE01 ⟨⟨fv, ⟨a, s, h1, h2, ?_⟩, ?_⟩, hcross⟩
            · show getPath s.val (h.loc.path ++ [Step.field m.val]) = some fv
              rw [getPath_append _ h3]
              exact NR.getPath_cons_some.2 ⟨fv, by simp only [NR.stepVal, hmk, hfv], getPath_nil _⟩
            · have := NR.member_kind fv
              rw [NR.findField_isArr hfv] at this
              exact this
      · exact Run.rtErr hW1 hE01 _ _
  | deref t r =>
    rw [resolveRef.eq_def]; dsimp only
    refine Run.bind hE0 (ih.resolveRef r σ hW hN) fun h σ1 hW1 hE1 hE01 hh => ?_
    split
    · exact Run.rtErr hW1 hE01 _ _
    · rename_i harr
      obtain ⟨v, hv, hc⟩ := hh.cell hW1 (tscope_sv σ1) harr
      refine Run.ro hW1 hE01 (ro_readLoc hv) fun v' hv' => ?_
      subst hv'
      split
      · rename_i pn tgt
        obtain ⟨tg, hlk, htgt⟩ := hc.2.root
        split
        · exact Run.rtErr hW1 hE01 _ _
        · rename_i l
          refine Run.ro hW1 hE01 (NR.ro_isLive' l.act) fun b hb => ?_
          split
          · exact Run.rtErr hW1 hE01 _ _
          · rename_i hlive
            have hb' : σ1.acts.any (·.id == l.act) = true := by
              rw [← hb]; simpa using hlive
            obtain ⟨⟨w, hr, hkw⟩, hcr⟩ := (htgt l rfl).2 (NR.live_of_any hb')
            refine Run.ro hW1 hE01 (ro_readLoc hr) fun tv htv => ?_
            subst htv
            have hn := kind_val_narr hkw
            refine Run.pure hW1 hE01 ⟨⟨tv, hr, by simpa using kind_of_narr hn.1⟩, ?_⟩
            show TyG σ1 tv.ty ∨ scopeAt σ1 l.act = tscope σ1
            rw [hn.2]; exact hcr
      · exact Run.rtErr hW1 hE01 _ _
  | index t r idx =>
    rw [resolveRef.eq_def]; dsimp only
    refine Run.bind hE0 (ih.resolveRef r σ hW hN) fun h σ1 hW1 hE1 hE01 hh => ?_
    split
    · exact Run.rtErr hW1 hE01 _ _
    · rename_i harr
      have harr' : h.isArr = true := by simpa using harr
      obtain ⟨v, hv, hk⟩ := hh.arr hW1 (tscope_sv σ1) harr'
      obtain ⟨dims, cells, rfl, hlen, hcells⟩ := hk.cells
      refine Run.ro hW1 hE01 (ro_readLoc hv) fun v' hv' => ?_
      subst hv'
      dsimp only
      split
      · exact Run.rtErr hW1 hE01 _ _
      · rename_i hl
        have hl' : idx.length = dims.length := by simpa using hl
        refine Run.bind hE01 (ih.evalIndices idx dims [] hl' σ1 hW1 (hN.ext hE1)) fun is σ2 hW2 hE2 hE02 his => ?_
        obtain ⟨is', his', hin⟩ := his
        have hisEq : is = is' := by simpa using his'
        subst hisEq
        obtain ⟨v2, hv2, k2⟩ := hE2.reads _ _ hv
        have hk2 : kind v2 = .arr h.ty dims := k2
        have harr2 : ArrOK σ2 (scopeAt σ2 h.loc.act) h.ty v2 := ⟨⟨dims, hk2⟩, hW2.reads_good hv2⟩
        obtain ⟨dims', cs', rfl, hlen', hcells'⟩ := harr2.cells
        have hdd : dims' = dims := by simpa [kind] using hk2
        subst hdd
        have hlt : lin dims' is < cs'.length := by
          rw [hlen']; exact NC.lin_bound dims' is hin
        have hcr : TyG σ2 h.ty ∨ scopeAt σ2 h.loc.act = tscope σ2 := by
          have := (hh.ext hE2).2
          rw [← hE2.tscope] at this; exact this
        obtain ⟨a, s, h1, h2, h3⟩ := hv2
        have hc := hcells' _ (List.getElem_mem hlt)
        refine Run.pure hW2 hE02 ⟨⟨cs'[lin dims' is], ⟨a, s, h1, h2, ?_⟩, by simpa using hc.1⟩, hcr⟩
        show getPath s.val (h.loc.path ++ [Step.idx (lin dims' is)]) = _
        rw [getPath_append _ h3, NC.getPath_arr_cons, List.getElem?_eq_getElem hlt]
        exact getPath_nil _


/-- the block `catchNotDefined (resolveRef f r >>= pure ∘ some) handler` of `Expr.access`: it yields a holder, or `none`
    when the name is an enum element -/
theorem run_access_block (ih : AllTri f) (t : Tok) (r : Ref) {σ0 σ : St} (hW : WF σ) (hN : NTop σ) (hE : Ext σ0 σ) :
    Run (catchNotDefined (resolveRef f r >>= fun h => pure (some h)) fun e => do
          match ← getEnumElement t.val with
          | some _ => pure none
          | none => throw e) σ
      (ResE σ0 (fun o σ' => (∀ h, o = some h → HolderOK σ' (tscope σ') h) ∧
        (o = none → ∃ x, enumElemS σ' (tscope σ') t.val = some x)) ErrOK) := by
  refine Run.catchND hE ?_ fun e σ1 hW1 hE1 hE01 he => ?_
  · refine Run.bind (Ext.refl σ) (ih.resolveRef r σ hW hN) fun h σ1 hW1 hE1 hE01 hh => ?_
    exact Run.pure hW1 hE01 ⟨fun x hx => (by cases hx; exact hh), fun h => (by cases h)⟩
  · refine Run.ro hW1 hE01 (ro_getEnumElement hW1 t.val) fun o ho => ?_
    cases o with
    | some x => exact Run.pure hW1 hE01 ⟨fun x hx => (by cases hx), fun _ => ⟨x, ho.symm⟩⟩
    | none => exact Run.throw hW1 hE01 he

theorem step_evalExpr (ih : AllTri f) : ∀ e, Tri NTop (evalExpr (f+1) e) QV := by
  intro e σ hW hN
  have hE0 := Ext.refl σ
  cases e with
  | intLit t v => rw [evalExpr.eq_def]; exact Run.pure hW hE0 ⟨rfl, good_of_scalar trivial trivial⟩
  | realLit t txt => rw [evalExpr.eq_def]; exact Run.pure hW hE0 ⟨rfl, good_of_scalar trivial trivial⟩
  | boolLit t b => rw [evalExpr.eq_def]; exact Run.pure hW hE0 ⟨rfl, good_of_scalar trivial trivial⟩
  | charLit t c => rw [evalExpr.eq_def]; exact Run.pure hW hE0 ⟨rfl, good_of_scalar trivial trivial⟩
  | strLit t s => rw [evalExpr.eq_def]; exact Run.pure hW hE0 ⟨rfl, good_of_scalar trivial trivial⟩
  | dateLit t d m y =>
    rw [evalExpr.eq_def]; dsimp only
    split
    · exact Run.pure hW hE0 ⟨rfl, good_of_scalar trivial trivial⟩
    · exact Run.rtErr hW hE0 _ _
  | neg t a =>
    rw [evalExpr.eq_def]; dsimp only
    refine Run.bind hE0 (ih.evalExpr a σ hW hN) fun v σ1 hW1 hE1 hE01 hv => ?_
    exact Run.ro_tail hW1 hE01 (ro_liftMsg t _) fun x hx => ok_of_simple (NC.simple_evalNeg _ _ hx)
  | arith t op l r =>
    rw [evalExpr.eq_def]; dsimp only
    refine Run.bind hE0 (ih.evalExpr l σ hW hN) fun lv σ1 hW1 hE1 hE01 hlv => ?_
    refine Run.bind hE01 (ih.evalExpr r σ1 hW1 (hN.ext hE1)) fun rv σ2 hW2 hE2 hE02 hrv => ?_
    obtain ⟨a, rest, hσ, hc, _⟩ := ntop_inv (hN.ext hE02)
    refine Run.ro hW2 hE02 (ro_scopeAct_top hW2 hσ hc) fun a' ha' => ?_
    subst ha'
    refine Run.ro hW2 hE02 (ro_globalAct hW2) fun g hg => ?_
    refine Run.ro_tail hW2 hE02 (ro_liftMsg t _) fun x hx => ok_evalArith _ ?_ _ _ _ _ hx
    intro ty n hsz
    exact size_ok hW2 hσ hc hg ty n hsz
  | cmp t op l r =>
    rw [evalExpr.eq_def]; dsimp only
    refine Run.bind hE0 (ih.evalExpr l σ hW hN) fun lv σ1 hW1 hE1 hE01 hlv => ?_
    refine Run.bind hE01 (ih.evalExpr r σ1 hW1 (hN.ext hE1)) fun rv σ2 hW2 hE2 hE02 hrv => ?_
    exact Run.ro_tail hW2 hE02 (ro_liftMsg t _) fun x hx => ok_of_simple (NC.simple_evalCmp _ _ _ _ hx)
  | logic t op l r =>
    rw [evalExpr.eq_def]; dsimp only
    refine Run.bind hE0 (ih.evalExpr l σ hW hN) fun lv σ1 hW1 hE1 hE01 hlv => ?_
    split
    · exact Run.pure hW1 hE01 ⟨rfl, good_of_scalar trivial trivial⟩
    · refine Run.bind hE01 (ih.evalExpr r σ1 hW1 (hN.ext hE1)) fun rv σ2 hW2 hE2 hE02 hrv => ?_
      exact Run.ro_tail hW2 hE02 (ro_liftMsg t _) fun x hx => ok_of_simple (NC.simple_evalLogic _ _ _ _ hx)
  | not t a =>
    rw [evalExpr.eq_def]; dsimp only
    refine Run.bind hE0 (ih.evalExpr a σ hW hN) fun v σ1 hW1 hE1 hE01 hv => ?_
    exact Run.ro_tail hW1 hE01 (ro_liftMsg t _) fun x hx => ok_of_simple (NC.simple_evalNot _ _ hx)
  | concat t l r =>
    rw [evalExpr.eq_def]; dsimp only
    refine Run.bind hE0 (ih.evalExpr l σ hW hN) fun lv σ1 hW1 hE1 hE01 hlv => ?_
    refine Run.bind hE01 (ih.evalExpr r σ1 hW1 (hN.ext hE1)) fun rv σ2 hW2 hE2 hE02 hrv => ?_
    exact Run.ro_tail hW2 hE02 (ro_liftMsg t _) fun x hx => ok_of_simple (NC.simple_evalConcat _ _ _ hx)
  | cast t ty a =>
    rw [evalExpr.eq_def]; dsimp only
    refine Run.bind hE0 (ih.evalExpr a σ hW hN) fun v σ1 hW1 hE1 hE01 hv => ?_
    exact Run.ro_tail hW1 hE01 (ro_liftMsg t _) fun x hx => ok_of_simple (NC.simple_castTo _ _ _ hx)
  | call t args =>
    rw [evalExpr.eq_def]; dsimp only
    exact Run.of_tri hE0 (ih.callFun t args σ hW hN) fun _ _ _ _ h => h
  | access t r =>
    rw [evalExpr.eq_def]; dsimp only
    refine Run.bind hE0 (run_access_block ih t r hW hN (Ext.refl σ)) fun o σ1 hW1 hE1 hE01 ho => ?_
    cases o with
    | none =>
      obtain ⟨x, hx⟩ := ho.2 rfl
      dsimp only
      refine Run.ro hW1 hE01 (ro_getEnumElement hW1 t.val) fun o' ho' => ?_
      rw [hx] at ho'
      subst ho'
      obtain ⟨⟨n, i, hxe⟩, hl⟩ := enumElemS_local hW1 (tscope_sv σ1) hx
      subst hxe
      exact Run.pure hW1 hE01 ⟨rfl, good_of_scalar trivial hl⟩
    | some h =>
      have hh := ho.1 h rfl
      dsimp only
      split
      · exact Run.rtErr hW1 hE01 _ _
      · rename_i harr
        obtain ⟨v, hv, hc⟩ := hh.cell hW1 (tscope_sv σ1) harr
        exact Run.ro_tail hW1 hE01 (ro_readLoc hv) fun x hx => by subst hx; exact ⟨(kind_val_narr hc.1).1, hc.2⟩
  | assign t r rhs =>
    rw [evalExpr.eq_def]; dsimp only
    refine Run.bind hE0 (ih.execAssign t r rhs σ hW hN) fun _ σ1 hW1 hE1 hE01 _ => ?_
    exact Run.pure hW1 hE01 ⟨rfl, good_none⟩
  | ptrAssign t r v =>
    rw [evalExpr.eq_def]; dsimp only
    refine Run.bind hE0 (ih.resolveRef r σ hW hN) fun ph σ1 hW1 hE1 hE01 hph => ?_
    split
    · exact Run.rtErr hW1 hE01 _ _
    · rename_i harr
      refine Run.bind hE01 (ih.resolveRef v σ1 hW1 (hN.ext hE1)) fun vh σ2 hW2 hE2 hE02 hvh => ?_
      split
      · exact Run.rtErr hW2 hE02 _ _
      · rename_i hvarr
        split
        · rename_i pn hpn
          have hph2 : HolderOK σ2 (tscope σ2) ph := by rw [hE2.tscope]; exact hph.ext hE2
          obtain ⟨pv, hpr, hpk, hpg⟩ := hph2.cell hW2 (tscope_sv σ2) harr
          have hpcr := hph2.cross (v := pv) (Or.inl hpk)
          rw [hpn] at hpk
          obtain ⟨tgt, hpve⟩ := kind_ptr hpk
          subst hpve
          obtain ⟨tg, hlk, _⟩ := hpg.root
          obtain ⟨⟨w, hwr, hwk⟩, hvcr⟩ := hvh
          rw [if_neg hvarr] at hwk
          obtain ⟨b, hb, hbid⟩ := hwr.mem
          have hlt : vh.loc.act < σ2.nextId := by rw [← hbid]; exact hW2.below b hb
          refine Run.ro hW2 hE02 (ro_ptrDefOf hW2 pn) fun d hd => ?_
          have hlk' := hlk
          unfold ptrLk at hlk'
          cases hf : ptrDef σ2 (tscope σ2) pn with
          | none => rw [hf] at hlk'; cases hlk'
          | some x =>
            rw [hf] at hlk' hd
            subst hd
            obtain ⟨n', tg'⟩ := x
            simp only [Option.map_some, Option.some.injEq] at hlk'
            subst hlk'
            dsimp only
            split
            · exact Run.rtErr hW2 hE02 _ _
            · rename_i hty
              have hty' : tg' = vh.ty := by simpa using hty
              have hgood : Good σ2 (tscope σ2) (.ptr pn (some vh.loc)) :=
                good_of_scalar trivial ⟨tg', hlk, fun l hl => by
                  cases hl
                  exact ⟨hlt, fun _ => ⟨⟨w, hwr, by rw [hty']; exact hwk⟩, by rw [hty']; exact hvcr⟩⟩⟩
              refine Run.bind hE02 (run_writeAt hW2 (tscope_sv σ2) t (.ptr pn (some vh.loc)) hpr
                (show kind _ = kind _ from rfl) hgood hpcr) fun _ σ3 hW3 hE3 hE03 _ => ?_
              exact Run.pure hW3 hE03 ⟨rfl, good_none⟩
        · exact Run.rtErr hW2 hE02 _ _

theorem step_execAssign (ih : AllTri f) : ∀ t r rhs, Tri NTop (execAssign (f+1) t r rhs) QT := by
  intro t r rhs σ hW hN
  have hE0 := Ext.refl σ
  rw [execAssign.eq_def]; dsimp only
  refine Run.ro hW hE0 (ro_curAct hW) fun cur _ => ?_
  refine Run.get_bind ?_
  -- the right-hand side: a value, or `none` for a whole-array source
  have hrhs : Run (tryCatch (evalExpr f rhs >>= fun v => pure (some v)) fun e =>
        match e with
        | .diag d =>
          if d.kind == .runtime && d.msg == .arrayDirect && (d.trace.head?.map (·.name)) == some cur.name
             && d.trace.length == σ.acts.length then
            match rhs with
            | .access _ _ => pure none
            | _ => throw e
          else throw e
        | _ => throw e) σ
      (ResE σ (fun o σ' => (∀ v, o = some v → NArr v = true ∧ Good σ' (tscope σ') v) ∧
        (o = none → ∃ t' r', rhs = .access t' r')) ErrOK) := by
    refine Run.tryCatch (E' := ErrOK) hE0 ?_ fun e σ1 hW1 hE1 hE01 he => ?_
    · refine Run.bind hE0 (ih.evalExpr rhs σ hW hN) fun v σ1 hW1 hE1 hE01 hv => ?_
      exact Run.pure hW1 hE01 ⟨fun x hx => (by cases hx; exact hv), fun h => (by cases h)⟩
    · cases e with
      | diag d =>
        dsimp only
        split
        · split
          · exact Run.pure hW1 hE01 ⟨fun x hx => (by cases hx), fun _ => ⟨_, _, rfl⟩⟩
          · exact Run.throw hW1 hE01 he
        · exact Run.throw hW1 hE01 he
      | _ => exact Run.throw hW1 hE01 he
  refine Run.bind hE0 hrhs fun rv? σ1 hW1 hE1 hE01 hrv => ?_
  have hN1 : NTop σ1 := hN.ext hE1
  cases rv? with
  | none =>
    obtain ⟨at', sr, rfl⟩ := hrv.2 rfl
    dsimp only
    refine Run.bind hE01 (ih.resolveRef sr σ1 hW1 hN1) fun sh σ2 hW2 hE2 hE02 hsh => ?_
    split
    · exact Run.rtErr hW2 hE02 _ _
    · rename_i hsarr
      have hsarr' : sh.isArr = true := by simpa using hsarr
      refine Run.bind hE02 (ih.resolveRef r σ2 hW2 (hN1.ext hE2)) fun th σ3 hW3 hE3 hE03 hth => ?_
      have hsh3 : HolderOK σ3 (tscope σ3) sh := by rw [hE3.tscope]; exact hsh.ext hE3
      split
      · exact Run.rtErr hW3 hE03 _ _
      · rename_i htarr
        have htarr' : th.isArr = true := by simpa using htarr
        obtain ⟨sv, hsv, hsk⟩ := hsh3.arr hW3 (tscope_sv σ3) hsarr'
        obtain ⟨tv, htv, htk⟩ := hth.arr hW3 (tscope_sv σ3) htarr'
        refine Run.ro hW3 hE03 (ro_readLoc hsv) fun x hx => ?_
        subst hx
        refine Run.ro hW3 hE03 (ro_readLoc htv) fun y hy => ?_
        subst hy
        have hsg : Good σ3 (tscope σ3) x := hsk.2
        have htc := hth.cross (v := y) (Or.inr htk.1)
        obtain ⟨sd, sc, rfl, hsl, hsc⟩ := hsk.cells
        obtain ⟨td, tc, rfl, htl, htc'⟩ := htk.cells
        dsimp only
        split
        · exact Run.rtErr hW3 hE03 _ _
        · rename_i hty
          have hty' : sh.ty = th.ty := by simpa using hty
          split
          · exact Run.rtErr hW3 hE03 _ _
          · rename_i hdims
            have hdims' : sd = td := by simpa using hdims
            subst hdims'
            refine Run.of_tri hE03 (run_writeAt hW3 (tscope_sv σ3) t _ htv ?_ hsg htc) fun _ _ _ _ _ => trivial
            show Kind.arr sh.ty sd = Kind.arr th.ty sd
            rw [hty']
  | some rv =>
    obtain ⟨hrvs, hrvok1⟩ := hrv.1 rv rfl
    dsimp only
    -- the target: a holder, or `none` for a new variable
    have htgt : Run (catchNotDefined (resolveRef f r >>= fun h => pure (some h)) fun e => do
          match r with
          | .var vt =>
            if ← isIdentifierType vt then throw e
            else if (← get).pedantic then pedErr t .pedAssign
            else pure none
          | _ => throw e) σ1
        (ResE σ1 (fun o σ' => (∀ h, o = some h → HolderOK σ' (tscope σ') h) ∧ (o = none → ∃ vt, r = .var vt)) ErrOK) := by
      refine Run.catchND (Ext.refl σ1) ?_ fun e σ2 hW2 hE2 hE02 he => ?_
      · refine Run.bind (Ext.refl σ1) (ih.resolveRef r σ1 hW1 hN1) fun h σ2 hW2 hE2 hE02 hh => ?_
        exact Run.pure hW2 hE02 ⟨fun x hx => (by cases hx; exact hh), fun h => (by cases h)⟩
      · split
        · rename_i vt
          refine Run.ro hW2 hE02 (ro_isIdentifierType hW2 vt) fun b _ => ?_
          split
          · exact Run.throw hW2 hE02 he
          · refine Run.get_bind ?_
            split
            · exact Run.pedErr hW2 hE02 _ _
            · exact Run.pure hW2 hE02 ⟨fun x hx => (by cases hx), fun _ => ⟨vt, rfl⟩⟩
        · exact Run.throw hW2 hE02 he
    refine Run.bind hE01 htgt fun target σ2 hW2 hE2 hE02 htg => ?_
    have hrvok : Good σ2 (tscope σ2) rv := by rw [hE2.tscope]; exact hrvok1.ext hE2
    cases target with
    | some h =>
      have hh := htg.1 h rfl
      dsimp only
      split
      · exact Run.rtErr hW2 hE02 _ _
      · rename_i harr
        obtain ⟨old, hold, hk⟩ := hh.1
        rw [if_neg harr] at hk
        have hcr := hh.cross (v := old) (Or.inl hk)
        refine Run.ro hW2 hE02 (ro_locIsConst h.loc) fun c _ => ?_
        have hrest : Run (if (implicitCast h.ty rv).ty != h.ty then rtErr t .typeMismatch
              else writeLoc t h.loc (implicitCast h.ty rv)) σ2 (ResE σ (QT σ) ErrOK) := by
          split
          · exact Run.rtErr hW2 hE02 _ _
          · rename_i hty
            have hty' : (implicitCast h.ty rv).ty = h.ty := by simpa using hty
            have hn := narr_implicitCast h.ty hrvs
            refine Run.of_tri hE02 (run_writeAt hW2 (tscope_sv σ2) t _ hold ?_ (good_implicitCast _ hrvok) hcr)
              fun _ _ _ _ _ => trivial
            show kind _ = kind _
            rw [hk, kind_of_narr hn, hty']
        split
        · refine Run.ro hW2 hE02 (ro_rtErr t .constAssign (fun _ => False)) fun _ hf => hf.elim
        · exact hrest
    | none =>
      obtain ⟨vt, rfl⟩ := htg.2 rfl
      dsimp only
      split
      · exact Run.rtErr hW2 hE02 _ _
      · exact Run.of_tri hE02 (run_addVar hW2 _ rfl ⟨kind_of_narr hrvs, hrvok⟩) fun _ _ _ _ _ => trivial

#print axioms step_evalIndices
#print axioms step_resolveRef
#print axioms step_evalExpr
#print axioms step_execAssign

end Pseudo.NL
