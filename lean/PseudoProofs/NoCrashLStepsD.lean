import PseudoProofs.NoCrashLSpec
import PseudoProofs.NoCrashRStepsD
/-!
# C01 with TYPE statements anywhere: the declaration path
`defaultVal` (builds a record value by running the TYPE body in a record context whose type names are resolved in the scope that
declared the record type, or globally for a global record type), `defaultCells`, `declareVars`, `declareArrs`, `runBlock`, and
`execStmt` on DECLARE statements — with their frames.
-/
namespace Pseudo.NL
open Pseudo
open Pseudo.NC (ReadsIn ActRead ErrOK ErrNR NoCrash RO EOK errOK_diag errNR_diag errOK_fuel errNR_fuel errOK_brk errOK_cont
  getLast?_mem ro_findAct ro_isLive ro_rtErr ro_rtErr0 ro_pedErr ro_liftMsg ro_liftMsg0 ro_readLoc ro_locIsConst ro_filePre
  ro_writeText ro_get getPath_nil findSlot_name findSlot_mem lookupVarIn_some lookupArrIn_some lookupVarIn_none top_mem
  getPath_append findSlot_append)
open Pseudo.NR (litDims declStmt declBody NArr Kind kind SameKind sigOf SigDefined Live genums gptrs gcomps kind_val_narr
  kind_of_narr kind_arr_inv evalBounds_lit)
variable {f : Nat}

set_option linter.unusedSectionVars false
set_option linter.unusedVariables false

section prims
variable {α : Type} {σ : St} {E : St → Stop → Prop} [EOK E]

theorem defsSame_of_top {σ σ' : St} {a a' : Act} {rest : List Act} (hσ : σ.acts = a :: rest) (hσ' : σ'.acts = a' :: rest)
    (h : dh a' = dh a) : DefsSame σ σ' := by
  unfold DefsSame; rw [hσ, hσ']; simp [h]

/-- appending a variable: the frame -/
theorem run_addVar_frame (hW : WF σ) (s : Slot) (h1 : s.ref = none) (h2 : CellOK σ (tscope σ) s.ty s.val) (hty : s.ty ≠ .none) :
    Run (addVar s) σ (ResE σ (fun _ σ' => Frame σ σ' [(s.name, Kind.val s.ty)] []) E) := by
  refine (run_addVar (E := E) hW s h1 h2).mono fun r σ' h => h.weaken (fun _ hq => ?_) (fun _ e => e)
  obtain ⟨a, rest, hσ⟩ := hW.top
  have hσ' := (hq a rest hσ).1
  refine ⟨defsSame_of_top hσ hσ' rfl, ?_, fun _ h => (by cases h), a, rest, _, rest, hσ, hσ', ?_, by simp [arrsSig], rfl, rfl⟩
  · intro e he
    simp only [List.mem_singleton] at he
    subst he
    exact ⟨fun h => hty (by simpa using h), fun d h => by cases h⟩
  · simp [varsSig]

/-- appending an array: the frame -/
theorem run_addArr_frame (hW : WF σ) (s : Slot) (hs : ArrSlotOK σ (tscope σ) s) (hty : s.ty ≠ .none) :
    Run (addArr s) σ (ResE σ (fun _ σ' => Frame σ σ' [] [(s.name, kind s.val)]) E) := by
  refine (run_addArr (E := E) hW s hs).mono fun r σ' h => h.weaken (fun _ hq => ?_) (fun _ e => e)
  obtain ⟨a, rest, hσ⟩ := hW.top
  have hσ' := hq a rest hσ
  refine ⟨defsSame_of_top hσ hσ' rfl, fun _ h => (by cases h), ?_, a, rest, _, rest, hσ, hσ', by simp [varsSig], ?_, rfl, rfl⟩
  · intro e he
    simp only [List.mem_singleton] at he
    subst he
    obtain ⟨d, hd⟩ := hs.1.1
    refine ⟨fun h => ?_, fun d' h => ?_⟩
    · rw [hd] at h; cases h
    · rw [hd] at h
      exact hty (by injection h)
  · simp [arrsSig]

/-- a body that runs in an activation which is not a function activation cannot end with the RETURN signal -/
theorem run_noret {m : M α} {Q : α → St → Prop} (hm : Run m σ (ResE σ Q ErrOK))
    (htop : ∀ a rest, σ.acts = a :: rest → a.isFn = false) : Run m σ (ResE σ Q ErrNR) := by
  unfold Run at *
  obtain ⟨h1, h2, h3⟩ := hm
  refine ⟨h1, h2, ?_⟩
  rcases hr : (m.run.run σ).1 with e | a
  · rw [hr] at h3
    refine ⟨h3, fun he => ?_⟩
    subst he
    obtain ⟨a', rest', hacts, hfn⟩ := h3.2 rfl
    have hids := h2.ids
    rw [hacts] at hids
    cases hσ : σ.acts with
    | nil => rw [hσ] at hids; simp at hids
    | cons a rest =>
      rw [hσ] at hids
      simp only [List.map_cons, List.cons.injEq] at hids
      rw [hdr_isFn hids.1, htop a rest hσ] at hfn
      cases hfn
  · rw [hr] at h3; exact h3

/-- push – declare – pop: the frame of the caller is untouched -/
theorem Frame.pop {mk : Nat → Act} {σ2 : St} {nv na : List (Str × Kind)} (hne : σ.acts ≠ [])
    (h : Frame (pushSt mk σ) σ2 nv na) : Frame σ (popSt σ2) [] [] := by
  obtain ⟨hd, _, _, a, rest, a', rest', hx, hx', _, _, _, hr⟩ := h
  have hrest : rest = σ.acts := by
    simp only [pushSt, List.cons.injEq] at hx
    exact hx.2.symm
  subst hrest
  have hpop : (popSt σ2).acts = rest' := by simp [popSt, hx']
  cases hσ : σ.acts with
  | nil => exact absurd hσ hne
  | cons b r =>
    rw [hσ] at hr
    cases rest' with
    | nil => simp at hr
    | cons b' r' =>
      simp only [List.map_cons, List.cons.injEq] at hr
      have hdefs : DefsSame σ (popSt σ2) := by
        unfold DefsSame at hd ⊢
        rw [hpop]
        rw [hx'] at hd
        have : (pushSt mk σ).acts = mk σ.nextId :: σ.acts := rfl
        rw [this] at hd
        simp only [List.map_cons, List.cons.injEq] at hd
        exact hd.2
      have h3 : varsSig b' = varsSig b ∧ arrsSig b' = arrsSig b ∧ b'.isComp = b.isComp := by
        have := hr.1; simpa [sigs] using this
      exact ⟨hdefs, fun _ h => (by cases h), fun _ h => (by cases h), b, r, b', r', hσ, hpop, by simp [h3.1], by simp [h3.2.1],
        h3.2.2, hr.2⟩

end prims

theorem scalSig_cons (σ : St) (k : Nat) (s : Stmt) (r : List Stmt) : scalSig σ k (s :: r) = scalSig σ k [s] ++ scalSig σ k r := by
  cases s <;> simp [scalSig]
theorem arrSig_cons (σ : St) (k : Nat) (s : Stmt) (r : List Stmt) : arrSig σ k (s :: r) = arrSig σ k [s] ++ arrSig σ k r := by
  cases s <;> simp [arrSig]

/-- the field list of a record value built from the slots of a record context has the signature of that context -/
theorem fields_sig {σ : St} {k : Nat} {d : List Act} {a : Act} (hok : ActOK σ k d a) (hc : a.isComp = true) :
    ((a.vars.map fun s => (s.name, s.val)) ++ (a.arrs.map fun s => (s.name, s.val))).map sigOf = varsSig a ++ arrsSig a := by
  rw [List.map_append, List.map_map, List.map_map]
  congr 1
  unfold varsSig
  apply List.map_congr_left
  intro s hs
  have hso := hok.vars s hs
  unfold SlotOK at hso
  rw [hok.compRef hc s hs] at hso
  simp only [Function.comp, sigOf]
  rw [hso.1]

/-- the record bodies of a scope are DECLAREs -/
theorem WF.lcomps_ok {σ : St} (hW : WF σ) {k : Nat} (hk : SV σ k) : ∀ c ∈ lcomps σ k, declBody c.2 = true := by
  rcases hk with rfl | ⟨a, ha, rfl, _⟩
  · obtain ⟨g, _, hg, hid, _⟩ := hW.glast
    rw [← hid, hW.lcomps_of hg]; exact (hW.defsOK hg).comps
  · rw [hW.lcomps_of ha]; exact (hW.defsOK ha).comps

theorem WF.gcomps_ok {σ : St} (hW : WF σ) : ∀ c ∈ gcomps σ, declBody c.2 = true := by
  rw [← hW.lcomps_gid]; exact hW.lcomps_ok (Or.inl rfl)

theorem tscope_push_comp {σ : St} (hW : WF σ) {mk : Nat → Act} (hmk : MkOK mk) (hc : (mk σ.nextId).isComp = true) :
    tscope (pushSt mk σ) = if (mk σ.nextId).typeGlobal = true then gid σ else tscope σ := by
  unfold tscope
  rw [(lists_push hW hmk).2.2.2.2]
  show (if (mk σ.nextId).isComp = true then (if (mk σ.nextId).typeGlobal = true then gid σ else scopeOfL (gid σ) σ.acts)
    else (mk σ.nextId).id) = _
  rw [if_pos hc]

theorem step_defaultVal (ih : AllTri f) : ∀ t ty, Tri (fun σ => TyDef σ (tscope σ) ty) (defaultVal (f+1) t ty)
    (fun σ v σ' => CellOK σ' (tscope σ') ty v ∧ Frame σ σ' [] []) := by
  intro t ty σ hW hP
  have hE0 := Ext.refl σ
  have hk : SV σ (tscope σ) := tscope_sv σ
  rw [defaultVal.eq_def]; dsimp only
  split
  · rename_i n
    obtain ⟨⟨body, k'⟩, hlk⟩ := hP
    refine Run.ro hW hE0 (ro_compDefOf hW n) fun r hr => ?_
    subst hr
    -- the definition that is found, its body and the scope of the body
    have hfound : ∃ x, compDef σ (tscope σ) n = some x ∧ x.2 = body ∧ declBody body = true ∧
        (((lcomps σ (tscope σ)).find? (·.1 == n)).isNone = true → k' = gid σ) ∧
        (((lcomps σ (tscope σ)).find? (·.1 == n)).isNone = false → k' = tscope σ) := by
      unfold compLk at hlk
      unfold compDef lk
      cases hl : (lcomps σ (tscope σ)).find? (·.1 == n) with
      | some x =>
        rw [hl] at hlk
        simp only [Option.some.injEq, Prod.mk.injEq] at hlk
        refine ⟨x, rfl, hlk.1, ?_, fun h => (by cases h), fun _ => hlk.2.symm⟩
        rw [← hlk.1]; exact hW.lcomps_ok hk x (List.mem_of_find?_eq_some hl)
      | none =>
        rw [hl] at hlk
        cases hg : (gcomps σ).find? (·.1 == n) with
        | none => rw [hg] at hlk; cases hlk
        | some y =>
          rw [hg] at hlk
          simp only [Option.map_some, Option.some.injEq, Prod.mk.injEq] at hlk
          refine ⟨y, rfl, hlk.1, ?_, fun _ => hlk.2.symm, fun h => (by cases h)⟩
          rw [← hlk.1]; exact hW.gcomps_ok y (List.mem_of_find?_eq_some hg)
    obtain ⟨x, hx, hxb, hdecl, hkg, hkl⟩ := hfound
    rw [hx]
    obtain ⟨n', body'⟩ := x
    simp only at hxb
    subst hxb
    dsimp only
    refine Run.ro hW hE0 (ro_compDefOf_local hW n) fun loc hloc => ?_
    have hkg' : loc.isNone = true → k' = gid σ := by rw [hloc]; exact hkg
    have hkl' : loc.isNone = false → k' = tscope σ := by rw [hloc]; exact hkl
    clear hkg hkl hloc
    have hmk : MkOK (fun id => ({ id := id, name := n, isComp := true, typeGlobal := loc.isNone } : Act)) := fun _ => ⟨rfl, rfl, rfl, rfl⟩
    have hts : tscope (pushSt (fun id => ({ id := id, name := n, isComp := true, typeGlobal := loc.isNone } : Act)) σ) = k' := by
      rw [tscope_push_comp hW hmk rfl]
      dsimp only
      cases hb : loc.isNone with
      | true => simp [hkg' hb]
      | false => simp [hkl' hb]
    have hkk : k' = tscope σ ∨ k' = gid σ := compLk_scope hlk
    have hne : tscope σ ≠ σ.nextId := SV.ne_next hW hk
    refine Run.withAct' (Qb := fun v σ2 => CellOK σ2 (tscope σ) (.comp n) v ∧ ∃ nv na, Frame (pushSt (fun id => ({ id := id, name := n, isComp := true, typeGlobal := loc.isNone } : Act)) σ) σ2 nv na)
      hW hE0 hmk ?_ ?_ ?_
    · exact ⟨fun s hs => (by cases hs), fun s hs => (by cases hs),
        ⟨fun s hs => (by cases hs), fun s hs => (by cases hs), fun s hs => (by cases hs)⟩,
        fun _ m hm => (by unfold Defines at hm; simp at hm), fun _ => ⟨rfl, rfl, rfl⟩, fun _ s hs => (by cases hs),
        fun h => absurd h hW.ne, fun v hv => (by cases hv)⟩
    · intro hWp
      have hrb := ih.runBlock false body' (declBody_ok false hdecl) _ hWp ⟨TopCond.false _, Or.inr hdecl⟩
      refine Run.bind (Ext.refl _) (run_noret hrb ?_) fun _ σ2 hW2 hE2 hE02 hfr => ?_
      · intro a rest ha
        simp only [pushSt, List.cons.injEq] at ha
        rw [← ha.1]
      · have hfr := hfr hdecl
        rw [hts] at hfr
        refine Run.ro hW2 hE02 (ro_curAct hW2) fun a ⟨rest, ha⟩ => ?_
        have haok := hW2.topOK ha
        have hts2 : tscope σ2 = k' := by rw [hE2.tscope, hts]
        rw [hts2] at haok
        -- the top activation is the record context that was pushed
        obtain ⟨hds, hsd1, hsd2, a0, rest0, a', rest', hx0, hx', hvs, has, hcp, hrs⟩ := hfr
        rw [ha] at hx'; cases hx'
        simp only [pushSt, List.cons.injEq] at hx0
        obtain ⟨hx1, hx2⟩ := hx0
        subst hx1
        subst hx2
        have hac : a.isComp = true := hcp
        have hvs' : varsSig a = scalSig σ2 k' body' := by rw [hvs, hds.scalSig]; rfl
        have has' : arrsSig a = arrSig σ2 k' body' := by rw [has, hds.arrSig]; rfl
        have hpl := lists_push hW hmk
        have hlk1 : compLk (pushSt (fun id => ({ id := id, name := n, isComp := true, typeGlobal := loc.isNone } : Act)) σ) (tscope σ) n = some (body', k') := by
          rw [(lookups_at (hpl.1 _).1 (hpl.1 _).2.1 (hpl.1 _).2.2 hpl.2.1 hpl.2.2.1 hpl.2.2.2.1 hpl.2.2.2.2).2.2.1]; exact hlk
        have hlk2 : compLk σ2 (tscope σ) n = some (body', k') := hE2.comps _ _ _ hlk1
        have hk2 : SV σ2 (tscope σ) := (hk.push hW hmk).ext hE2
        have hmove : ∀ w, Good σ2 k' w → Good σ2 (tscope σ) w := by
          intro w hw
          rcases hkk with h | h
          · rw [← h]; exact hw
          · have hg2 : gid σ2 = gid σ := by rw [hE2.gid, hpl.2.2.2.2]
            rw [h, ← hg2] at hw
            exact hw.of_global hW2 hk2
        have hgood : Good σ2 (tscope σ) (.comp n ((a.vars.map fun s => (s.name, s.val)) ++ (a.arrs.map fun s => (s.name, s.val)))) := by
          refine good_comp ⟨body', k', hlk2, ?_, ?_⟩ ?_
          · rw [fields_sig haok hac, hvs', has']; rfl
          · unfold memSig
            intro e he
            rcases List.mem_append.1 he with he | he
            · rw [hds.scalSig] at he; exact hsd1 e he
            · rw [hds.arrSig] at he; exact hsd2 e he
          · intro x hx
            rcases List.mem_append.1 hx with hx | hx
            · obtain ⟨s, hs, rfl⟩ := List.mem_map.1 hx
              exact hmove _ (haok.vars s hs).good
            · obtain ⟨s, hs, rfl⟩ := List.mem_map.1 hx
              exact hmove _ (haok.arrs s hs).1.2
        exact Run.pure hW2 hE02 ⟨⟨rfl, hgood⟩, _, _, ⟨hds, hsd1, hsd2, _, _, a, rest, rfl, ha, hvs, has, hcp, hrs⟩⟩
    · intro v σ2 hW2 hE2 hm hWp hEp ⟨hcell, nv, na, hfr⟩
      rw [hEp.tscope]
      exact ⟨⟨hcell.1, hm.good _ hne _ hcell.2⟩, hfr.pop hW.ne⟩
  · rename_i hnc
    exact Run.pure hW hE0 ⟨ok_defaultPrim hP (fun n vals _ h => hW.enum_nonempty hk h) (fun n e => hnc n e), Frame.refl hW.ne⟩

theorem step_defaultCells (ih : AllTri f) : ∀ t ty n acc,
    Tri (fun σ => TyDef σ (tscope σ) ty ∧ CellsOK σ (tscope σ) ty acc) (defaultCells (f+1) t ty n acc)
      (fun σ r σ' => r.length = acc.length + n ∧ CellsOK σ' (tscope σ') ty r ∧ Frame σ σ' [] []) := by
  intro t ty n acc σ hW hP
  obtain ⟨hty, hacc⟩ := hP
  cases n with
  | zero =>
    rw [defaultCells.eq_def]
    refine Run.pure hW (Ext.refl σ) ⟨by simp, ?_, Frame.refl hW.ne⟩
    intro c hc; exact hacc c (List.mem_reverse.1 hc)
  | succ n =>
    rw [defaultCells.eq_def]; dsimp only
    refine Run.bind (Ext.refl σ) (ih.defaultVal t ty σ hW hty) fun v σ1 hW1 hE1 hE01 hv => ?_
    refine Run.of_tri hE01 (ih.defaultCells t ty n (v :: acc) σ1 hW1 ⟨by rw [hE1.tscope]; exact hty.ext hE1.defs, ?_⟩) ?_
    · intro c hc; rcases List.mem_cons.1 hc with rfl | hc
      · exact hv.1
      · rw [hE1.tscope]; exact (hacc c hc).ext hE1
    · intro r σ2 _ _ ⟨h1, h2, h3⟩
      exact ⟨by simp at h1 ⊢; omega, h2, (hv.2.trans h3).mono_sig rfl rfl⟩

theorem step_declareVars (ih : AllTri f) : ∀ t ids ty, Tri PT (declareVars (f+1) t ids ty)
    (fun σ _ σ' => Frame σ σ' (ids.map fun id => (id.val, Kind.val (typeOfTok σ (tscope σ) ty))) []) := by
  intro t ids tyTok σ hW _
  have hE0 := Ext.refl σ
  cases ids with
  | nil => rw [declareVars.eq_def]; exact Run.pure hW hE0 (Frame.refl hW.ne)
  | cons id rest =>
    rw [declareVars.eq_def]; dsimp only
    refine Run.ro hW hE0 (ro_curAct hW) fun a _ => ?_
    split
    · exact Run.rtErr hW hE0 _ _
    · refine Run.ro hW hE0 (ro_isIdentifierType hW id) fun b _ => ?_
      split
      · exact Run.rtErr hW hE0 _ _
      · refine Run.ro hW hE0 (ro_getType hW tyTok) fun ty hty => ?_
        split
        · exact Run.rtErr hW hE0 _ _
        · rename_i hne
          have hne' : ty ≠ .none := by simpa using hne
          have htywf : TyDef σ (tscope σ) ty := by rw [hty]; exact typeOfTok_def _ tyTok
          refine Run.bind hE0 (ih.defaultVal t ty σ hW htywf) fun v σ1 hW1 hE1 hE01 hv => ?_
          refine Run.bind hE01 (run_addVar_frame hW1 { name := id.val, ty := ty, val := v } rfl hv.1 hne')
            fun _ σ2 hW2 hE2 hE02 hfr => ?_
          refine Run.of_tri hE02 (ih.declareVars t rest tyTok σ2 hW2 trivial) fun _ σ3 _ _ hfr3 => ?_
          have hds : DefsSame σ σ2 := hv.2.1.trans hfr.1
          refine ((hv.2.trans hfr).trans hfr3).mono_sig ?_ rfl
          simp only [List.map_cons, List.nil_append, List.singleton_append, hds.lookups.2.2.2.1, hE02.tscope, hty]

theorem step_declareArrs (ih : AllTri f) : ∀ t ids ty dims, Tri PT (declareArrs (f+1) t ids ty dims)
    (fun σ _ σ' => Frame σ σ' [] (ids.map fun id => (id.val, Kind.arr (typeOfTok σ (tscope σ) ty) dims))) := by
  intro t ids tyTok dims σ hW _
  have hE0 := Ext.refl σ
  cases ids with
  | nil => rw [declareArrs.eq_def]; exact Run.pure hW hE0 (Frame.refl hW.ne)
  | cons id rest =>
    rw [declareArrs.eq_def]; dsimp only
    refine Run.ro hW hE0 (ro_getType hW tyTok) fun ty hty => ?_
    split
    · exact Run.rtErr hW hE0 _ _
    · rename_i hne
      have hne' : ty ≠ .none := by simpa using hne
      have htywf : TyDef σ (tscope σ) ty := by rw [hty]; exact typeOfTok_def _ tyTok
      split
      · exact Run.rtErr hW hE0 _ _
      · refine Run.bind hE0 (ih.defaultCells t ty (totalCells dims) [] σ hW ⟨htywf, fun c hc => by cases hc⟩)
          fun cells σ1 hW1 hE1 hE01 hc => ?_
        have harr : ArrOK σ1 (tscope σ1) ty (.arr ty dims cells) := ArrOK.mk' (by simpa using hc.1) hc.2.1
        have htd1 : TyDef σ1 (tscope σ1) ty := by rw [hE1.tscope]; exact htywf.ext hE1.defs
        refine Run.bind hE01 (run_addArr_frame hW1 { name := id.val, ty := ty, val := .arr ty dims cells } ⟨harr, htd1⟩ hne')
          fun _ σ2 hW2 hE2 hE02 hfr => ?_
        refine Run.of_tri hE02 (ih.declareArrs t rest tyTok dims σ2 hW2 trivial) fun _ σ3 _ _ hfr3 => ?_
        have hds : DefsSame σ σ2 := hc.2.2.1.trans hfr.1
        refine ((hc.2.2.trans hfr).trans hfr3).mono_sig rfl ?_
        simp only [List.map_cons, List.nil_append, List.singleton_append, hds.lookups.2.2.2.1, hE02.tscope, hty, kind]

theorem step_execStmt_declare (ih : AllTri f) (top : Bool) (t : Tok) (ids : List Tok) (ty : Tok)
    (hok : okStmt top (.declare t ids ty) = true) :
    Tri (fun σ => TopCond top σ ∧ (NTop σ ∨ declStmt (.declare t ids ty) = true)) (execStmt (f+1) (.declare t ids ty))
      (fun σ v σ' => (NArr v = true ∧ Good σ' (tscope σ') v) ∧ (declStmt (.declare t ids ty) = true →
        Frame σ σ' (scalSig σ (tscope σ) [.declare t ids ty]) (arrSig σ (tscope σ) [.declare t ids ty]))) := by
  intro σ hW _; have hE0 := Ext.refl σ; rw [execStmt.eq_def]; dsimp only
  refine Run.bind hE0 (run_tick hW _) fun _ σ1 hW1 hE1 hE01 hacts => ?_
  refine Run.bind hE01 (ih.declareVars t ids ty σ1 hW1 trivial) fun _ σ2 hW2 hE2 hE02 hfr => ?_
  refine Run.pure hW2 hE02 ⟨⟨rfl, good_of_scalar trivial trivial⟩, fun _ => ?_⟩
  have h01 : Frame σ σ1 [] [] := Frame.of_acts_eq hW.ne hacts
  refine (h01.trans hfr).mono_sig ?_ ?_
  · simp [scalSig, h01.1.lookups.2.2.2.1, hE01.tscope]
  · simp [arrSig]

theorem step_execStmt_declareArr (ih : AllTri f) (top : Bool) (t : Tok) (ids : List Tok) (ty : Tok)
    (bounds : List (Expr × Expr)) (hok : okStmt top (.declareArr t ids ty bounds) = true) :
    Tri (fun σ => TopCond top σ ∧ (NTop σ ∨ declStmt (.declareArr t ids ty bounds) = true))
      (execStmt (f+1) (.declareArr t ids ty bounds))
      (fun σ v σ' => (NArr v = true ∧ Good σ' (tscope σ') v) ∧ (declStmt (.declareArr t ids ty bounds) = true →
        Frame σ σ' (scalSig σ (tscope σ) [.declareArr t ids ty bounds]) (arrSig σ (tscope σ) [.declareArr t ids ty bounds]))) := by
  intro σ hW hP; have hE0 := Ext.refl σ; rw [execStmt.eq_def]; dsimp only
  refine Run.bind hE0 (run_tick hW _) fun _ σ1 hW1 hE1 hE01 hacts => ?_
  have h01 : Frame σ σ1 [] [] := Frame.of_acts_eq hW.ne hacts
  refine Run.ro hW1 hE01 (ro_curAct hW1) fun a ⟨rest, ha⟩ => ?_
  split
  · exact Run.rtErr hW1 hE01 _ _
  · cases hl : litDims bounds with
    | none =>
      have hN : NTop σ := hP.2.resolve_right (by simp [declStmt, hl])
      refine Run.bind hE01 (ih.evalBounds bounds [] σ1 hW1 (hN.ext hE01)) fun dims σ2 hW2 hE2 hE02 _ => ?_
      refine Run.bind hE02 (ih.declareArrs t ids ty dims σ2 hW2 trivial) fun _ σ3 hW3 hE3 hE03 _ => ?_
      refine Run.pure hW3 hE03 ⟨⟨rfl, good_of_scalar trivial trivial⟩, fun h => ?_⟩
      simp [declStmt, hl] at h
    | some d =>
      refine Run.ro hW1 hE01 (evalBounds_lit bounds d hl f [] σ1) fun dims hdims => ?_
      have hdims' : dims = d := by simpa using hdims
      subst hdims'
      refine Run.bind hE01 (ih.declareArrs t ids ty dims σ1 hW1 trivial) fun _ σ3 hW3 hE3 hE03 hfr => ?_
      refine Run.pure hW3 hE03 ⟨⟨rfl, good_of_scalar trivial trivial⟩, fun _ => ?_⟩
      refine (h01.trans hfr).mono_sig ?_ ?_
      · simp [scalSig]
      · simp [arrSig, hl, h01.1.lookups.2.2.2.1, hE01.tscope]

theorem step_runBlock (ih : AllTri f) : ∀ top b, okBlock top b = true →
    Tri (fun σ => TopCond top σ ∧ (NTop σ ∨ declBody b = true)) (runBlock (f+1) b)
    (fun σ _ σ' => declBody b = true → Frame σ σ' (scalSig σ (tscope σ) b) (arrSig σ (tscope σ) b)) := by
  intro top b hok σ hW hP
  obtain ⟨hTop, hND⟩ := hP
  have hE0 := Ext.refl σ
  cases b with
  | nil => rw [runBlock.eq_def]; exact Run.pure hW hE0 fun _ => Frame.refl hW.ne
  | cons s rest =>
    rw [runBlock.eq_def]; dsimp only
    simp only [okBlock, Bool.and_eq_true] at hok
    have hsplit : declBody (s :: rest) = true → declStmt s = true ∧ declBody rest = true := fun hd => by
      simpa [declBody] using hd
    have hND1 : NTop σ ∨ declStmt s = true := hND.imp id fun hd => (hsplit hd).1
    refine Run.bind hE0 (ih.execStmt top s hok.1 σ hW ⟨hTop, hND1⟩) fun v σ1 hW1 hE1 hE01 hv => ?_
    have hfin : ∀ {σ2 σ3 : St}, tscope σ2 = tscope σ →
        (declBody (s :: rest) = true → Frame σ σ2 (scalSig σ (tscope σ) [s]) (arrSig σ (tscope σ) [s])) →
        (declBody rest = true → Frame σ2 σ3 (scalSig σ2 (tscope σ2) rest) (arrSig σ2 (tscope σ2) rest)) →
        declBody (s :: rest) = true → Frame σ σ3 (scalSig σ (tscope σ) (s :: rest)) (arrSig σ (tscope σ) (s :: rest)) := by
      intro σ2 σ3 hts h1 h2 hd
      have f1 := h1 hd
      have f2 := h2 (hsplit hd).2
      refine (f1.trans f2).mono_sig ?_ ?_
      · rw [scalSig_cons, hts, f1.1.scalSig]
      · rw [arrSig_cons, hts, f1.1.arrSig]
    have hs1 : declBody (s :: rest) = true → Frame σ σ1 (scalSig σ (tscope σ) [s]) (arrSig σ (tscope σ) [s]) := by
      intro hd
      exact hv.2 (hsplit hd).1
    refine Run.get_bind ?_
    split
    · refine Run.bind hE01 (run_replEcho hW1 hv.1.2) fun _ σ2 hW2 hE2 hE02 hacts => ?_
      have hND2 : NTop σ2 ∨ declBody rest = true := hND.imp (fun h => h.ext hE02) fun hd => (hsplit hd).2
      refine Run.of_tri hE02 (ih.runBlock top rest hok.2 σ2 hW2 ⟨hTop.ext hE02, hND2⟩) fun _ σ3 _ _ hr => ?_
      have h12 : Frame σ1 σ2 [] [] := Frame.of_acts_eq hW1.ne hacts
      refine hfin (σ2 := σ2) hE02.tscope (fun hd => ((hs1 hd).trans h12).mono_sig (by simp) (by simp)) hr
    · have hND2 : NTop σ1 ∨ declBody rest = true := hND.imp (fun h => h.ext hE01) fun hd => (hsplit hd).2
      exact Run.of_tri hE01 (ih.runBlock top rest hok.2 σ1 hW1 ⟨hTop.ext hE01, hND2⟩) fun _ σ3 _ _ hr =>
        hfin hE01.tscope hs1 hr

end Pseudo.NL
