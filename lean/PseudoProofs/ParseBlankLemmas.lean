import PseudoProofs.ParseLemmas
/-!
# PseudoProofs.ParseBlankLemmas — more fuel never changes a parse that did not run out of fuel
(support of `Properties/C10Lines.lean`)

Every function of the fuelled parser (`PseudoModel/Parser.lean`) fails with the message `.budget`
exactly when its fuel argument reaches 0.  `Below x y` says: on every state where `x` does not end in
such a budget failure, `y` returns the same result and the same state.  It is a congruence for `>>=`,
`if` and `match`, `p 0 ⊑ anything`, hence by induction on the fuel `p f ⊑ p (f+1)` for every parser
function, and by transitivity `p f ⊑ p (f+d)`.
-/
namespace Pseudo

/-- the result is the out-of-fuel failure of the fuelled parser -/
def IsBudget {α} : Except Diag α → Prop
  | .error d => d.msg = .budget
  | .ok _ => False

/-- `x ⊑ y`: on every state where `x` does not run out of fuel, `y` gives the same result and state -/
def Below {α} (x y : P α) : Prop := ∀ s, IsBudget (x.run.run s).1 ∨ y.run.run s = x.run.run s

/-- reflexivity -/
theorem Below.refl {α} (x : P α) : Below x x := fun _ => Or.inr rfl

/-- transitivity: a result of `x` that is no budget failure is also the result of `y`, hence of `z` -/
theorem Below.trans {α} {x y z : P α} (h1 : Below x y) (h2 : Below y z) : Below x z := by
  intro s
  rcases h1 s with h | h
  · exact Or.inl h
  · rcases h2 s with h' | h'
    · rw [h] at h'; exact Or.inl h'
    · exact Or.inr (h'.trans h)

/-- congruence for `>>=` -/
theorem Below.bind {α β} {x x' : P α} {g g' : α → P β} (h1 : Below x x') (h2 : ∀ a, Below (g a) (g' a)) :
    Below (x >>= g) (x' >>= g') := by
  intro s
  rw [run_bind, run_bind]
  rcases h1 s with h | h
  · left
    rcases hx : x.run.run s with ⟨r, s'⟩
    rw [hx] at h
    cases r with
    | error d => exact h
    | ok a => exact h.elim
  · rw [h]
    rcases hx : x.run.run s with ⟨r, s'⟩
    cases r with
    | error d => exact Or.inr rfl
    | ok a => exact h2 a s'

/-- congruence for `if` -/
theorem Below.ite {α} (c : Prop) [Decidable c] {a a' b b' : P α} (h1 : Below a a') (h2 : Below b b') :
    Below (if c then a else b) (if c then a' else b') := by
  by_cases h : c <;> simp only [h, if_true, if_false] <;> assumption

/-- the fuel-0 case of every parser function is below everything -/
theorem Below.budget {α} (y : P α) : Below (do P.fail (← P.cur) .budget) y := fun _ => Or.inl rfl

/-- structural congruence steps: both sides come from the same `do` block and differ only in the fuel
    of the recursive calls -/
local syntax "mono" "[" term,* "]" : tactic
macro_rules
  | `(tactic| mono [$hs,*]) => do
    let alts ← hs.getElems.mapM fun h => `(tactic| with_reducible apply $h)
    `(tactic| repeat' (first
      | (with_reducible exact Below.refl _)
      | (first $[| $alts:tactic]*)
      | (refine Below.bind ?_ (fun _ => ?_))
      | refine Below.ite _ ?_ ?_
      | dsimp only
      | split))

/-- one more unit of fuel, for the nine mutually recursive expression parsers -/
structure ExprMono (cfg : PCfg) (f : Nat) : Prop where
  level : ∀ k, Below (parseLevel cfg f k) (parseLevel cfg (f+1) k)
  loop : ∀ k l, Below (loopLevel cfg f k l) (loopLevel cfg (f+1) k l)
  factor : Below (parseFactor cfg f) (parseFactor cfg (f+1))
  args : ∀ acc, Below (parseArgs cfg f acc) (parseArgs cfg (f+1) acc)
  callArgs : Below (parseCallArgs cfg f) (parseCallArgs cfg (f+1))
  atom : Below (parseAtom cfg f) (parseAtom cfg (f+1))
  indices : ∀ acc, Below (parseIndices cfg f acc) (parseIndices cfg (f+1) acc)
  ref : Below (parseRef cfg f) (parseRef cfg (f+1))
  refLoop : ∀ r, Below (refLoop cfg f r) (refLoop cfg (f+1) r)

/-- fuel monotonicity of the expression parsers, by induction on the fuel -/
theorem exprMono (cfg : PCfg) : ∀ f, ExprMono cfg f
  | 0 => by
    constructor <;> intros
    · rw [parseLevel]; exact Below.budget _
    · rw [loopLevel]; exact Below.budget _
    · rw [parseFactor]; exact Below.budget _
    · rw [parseArgs]; exact Below.budget _
    · rw [parseCallArgs]; exact Below.budget _
    · rw [parseAtom]; exact Below.budget _
    · rw [parseIndices]; exact Below.budget _
    · rw [parseRef]; exact Below.budget _
    · rw [refLoop]; exact Below.budget _
  | f + 1 => by
    obtain ⟨h1, h2, h3, h4, h5, h6, h7, h8, h9⟩ := exprMono cfg f
    constructor <;> intros
    · conv => lhs; rw [parseLevel]
      conv => rhs; rw [parseLevel]
      mono [h1, h2, h3, h4, h5, h6, h7, h8, h9]
    · conv => lhs; rw [loopLevel]
      conv => rhs; rw [loopLevel]
      mono [h1, h2, h3, h4, h5, h6, h7, h8, h9]
    · conv => lhs; rw [parseFactor]
      conv => rhs; rw [parseFactor]
      mono [h1, h2, h3, h4, h5, h6, h7, h8, h9]
    · conv => lhs; rw [parseArgs]
      conv => rhs; rw [parseArgs]
      mono [h1, h2, h3, h4, h5, h6, h7, h8, h9]
    · conv => lhs; rw [parseCallArgs]
      conv => rhs; rw [parseCallArgs]
      mono [h1, h2, h3, h4, h5, h6, h7, h8, h9]
    · conv => lhs; rw [parseAtom]
      conv => rhs; rw [parseAtom]
      mono [h1, h2, h3, h4, h5, h6, h7, h8, h9]
    · conv => lhs; rw [parseIndices]
      conv => rhs; rw [parseIndices]
      mono [h1, h2, h3, h4, h5, h6, h7, h8, h9]
    · conv => lhs; rw [parseRef]
      conv => rhs; rw [parseRef]
      mono [h1, h2, h3, h4, h5, h6, h7, h8, h9]
    · conv => lhs; rw [refLoop]
      conv => rhs; rw [refLoop]
      mono [h1, h2, h3, h4, h5, h6, h7, h8, h9]

/-- `parseEval`, `parseArithE`, `parseStrE` are `parseLevel` at levels 0, 4, 3 -/
theorem parseEval_mono (cfg : PCfg) (f : Nat) : Below (parseEval cfg f) (parseEval cfg (f+1)) :=
  (exprMono cfg f).level 0
theorem parseArithE_mono (cfg : PCfg) (f : Nat) : Below (parseArithE cfg f) (parseArithE cfg (f+1)) :=
  (exprMono cfg f).level 4
theorem parseStrE_mono (cfg : PCfg) (f : Nat) : Below (parseStrE cfg f) (parseStrE cfg (f+1)) :=
  (exprMono cfg f).level 3

/-- fuel monotonicity of the DECLARE / TYPE / parameter-list parsers -/
theorem parseIdentList_mono : ∀ f acc, Below (parseIdentList f acc) (parseIdentList (f+1) acc)
  | 0, acc => by rw [parseIdentList]; exact Below.budget _
  | f + 1, acc => by
    have ih := parseIdentList_mono f
    conv => lhs; rw [parseIdentList]
    conv => rhs; rw [parseIdentList]
    mono [ih]

theorem parseBounds_mono (cfg : PCfg) : ∀ f acc, Below (parseBounds cfg f acc) (parseBounds cfg (f+1) acc)
  | 0, acc => by rw [parseBounds]; exact Below.budget _
  | f + 1, acc => by
    have ih := parseBounds_mono cfg f
    have h1 := parseArithE_mono cfg f
    conv => lhs; rw [parseBounds]
    conv => rhs; rw [parseBounds]
    mono [ih, h1]

theorem parseDeclare_mono (cfg : PCfg) (f : Nat) : Below (parseDeclare cfg f) (parseDeclare cfg (f+1)) := by
  have h1 := parseIdentList_mono f
  have h2 := parseBounds_mono cfg f
  unfold parseDeclare
  mono [h1, h2]

theorem parseEnumVals_mono : ∀ f acc, Below (parseEnumVals f acc) (parseEnumVals (f+1) acc)
  | 0, acc => by rw [parseEnumVals]; exact Below.budget _
  | f + 1, acc => by
    have ih := parseEnumVals_mono f
    conv => lhs; rw [parseEnumVals]
    conv => rhs; rw [parseEnumVals]
    mono [ih]

theorem parseCompositeBody_mono (cfg : PCfg) :
    ∀ f acc, Below (parseCompositeBody cfg f acc) (parseCompositeBody cfg (f+1) acc)
  | 0, acc => by rw [parseCompositeBody]; exact Below.budget _
  | f + 1, acc => by
    have ih := parseCompositeBody_mono cfg f
    have h1 := parseDeclare_mono cfg f
    conv => lhs; rw [parseCompositeBody]
    conv => rhs; rw [parseCompositeBody]
    mono [ih, h1]

theorem parseType_mono (cfg : PCfg) (f : Nat) : Below (parseType cfg f) (parseType cfg (f+1)) := by
  have h1 := parseCompositeBody_mono cfg f
  have h2 := parseEnumVals_mono f
  unfold parseType
  mono [h1, h2]

theorem parseParams_mono : ∀ f a, Below (parseParams f a) (parseParams (f+1) a)
  | 0, a => by rw [parseParams]; exact Below.budget _
  | f + 1, a => by
    have ih := parseParams_mono f
    conv => lhs; rw [parseParams]
    conv => rhs; rw [parseParams]
    mono [ih]


/-- congruence for the nested pattern match of `parseBlock` that records the
    comparison-result-ignored warning (`split` is too slow on it) -/
theorem Below.warnMatch {β} (n : Stmt) (A A' : Tok → P β) (B B' : P β)
    (hA : ∀ o, Below (A o) (A' o)) (hB : Below B B') :
    Below (match n with | .expr (.cmp o _ (.access _ _) _) => A o | _ => B)
          (match n with | .expr (.cmp o _ (.access _ _) _) => A' o | _ => B') := by
  cases n <;> try exact hB
  rename_i e
  cases e <;> try exact hB
  rename_i o op l r
  cases l <;> first | exact hB | exact hA _

/-- one more unit of fuel, for the six mutually recursive statement parsers -/
structure StmtMono (cfg : PCfg) (f : Nat) : Prop where
  block : ∀ bk acc, Below (parseBlock cfg f bk acc) (parseBlock cfg (f+1) bk acc)
  procedure : Below (parseProcedure cfg f) (parseProcedure cfg (f+1))
  function : Below (parseFunction cfg f) (parseFunction cfg (f+1))
  else_ : ∀ acc, Below (parseElse cfg f acc) (parseElse cfg (f+1) acc)
  clauses : ∀ acc, Below (parseClauses cfg f acc) (parseClauses cfg (f+1) acc)
  stmt : Below (parseStmt cfg f) (parseStmt cfg (f+1))

/-- fuel monotonicity of the statement parsers, by induction on the fuel; `parseStmt` by cases on
    the kind of the first token -/
theorem stmtMono (cfg : PCfg) : ∀ f, StmtMono cfg f
  | 0 => by
    constructor <;> intros
    · rw [parseBlock]; exact Below.budget _
    · rw [parseProcedure]; exact Below.budget _
    · rw [parseFunction]; exact Below.budget _
    · rw [parseElse]; exact Below.budget _
    · rw [parseClauses]; exact Below.budget _
    · rw [parseStmt]; exact Below.budget _
  | f + 1 => by
    obtain ⟨h1, h2, h3, h4, h5, h6⟩ := stmtMono cfg f
    have e1 := parseEval_mono cfg f
    have e2 := parseArithE_mono cfg f
    have e3 := parseStrE_mono cfg f
    have e4 := (exprMono cfg f).args
    have e5 := (exprMono cfg f).callArgs
    have e6 := (exprMono cfg f).ref
    have d1 := parseDeclare_mono cfg f
    have d2 := parseType_mono cfg f
    have d3 := parseParams_mono f
    constructor <;> intros
    · conv => lhs; rw [parseBlock]
      conv => rhs; rw [parseBlock]
      refine Below.bind (Below.refl _) (fun _ => ?_)
      refine Below.bind (Below.refl _) (fun t => ?_)
      refine Below.ite _ (Below.refl _) ?_
      refine Below.bind (Below.refl _) (fun s => ?_)
      refine Below.ite _ (Below.refl _) ?_
      dsimp only
      refine Below.ite _ ?_ ?_
      · mono [h1, h2, h3, h4, h5, h6, e1, e2, e3, e4, e5, e6, d1, d2, d3]
      refine Below.ite _ ?_ ?_
      · mono [h1, h2, h3, h4, h5, h6, e1, e2, e3, e4, e5, e6, d1, d2, d3]
      refine Below.bind h6 (fun n => ?_)
      refine Below.warnMatch _ _ _ _ _ (fun _ => ?_) ?_ <;> mono [h1, h2, h3, h4, h5, h6, e1, e2, e3, e4, e5, e6, d1, d2, d3]
    · conv => lhs; rw [parseProcedure]
      conv => rhs; rw [parseProcedure]
      mono [h1, h2, h3, h4, h5, h6, e1, e2, e3, e4, e5, e6, d1, d2, d3]
    · conv => lhs; rw [parseFunction]
      conv => rhs; rw [parseFunction]
      mono [h1, h2, h3, h4, h5, h6, e1, e2, e3, e4, e5, e6, d1, d2, d3]
    · conv => lhs; rw [parseElse]
      conv => rhs; rw [parseElse]
      mono [h1, h2, h3, h4, h5, h6, e1, e2, e3, e4, e5, e6, d1, d2, d3]
    · conv => lhs; rw [parseClauses]
      conv => rhs; rw [parseClauses]
      mono [h1, h2, h3, h4, h5, h6, e1, e2, e3, e4, e5, e6, d1, d2, d3]
    · conv => lhs; rw [parseStmt]
      conv => rhs; rw [parseStmt]
      refine Below.bind (Below.refl _) (fun t => ?_)
      generalize t.k = k
      cases k <;> dsimp only <;> mono [h1, h2, h3, h4, h5, h6, e1, e2, e3, e4, e5, e6, d1, d2, d3]

/-- `parseBlock` with `d` more units of fuel -/
theorem parseBlock_mono_add (cfg : PCfg) (f : Nat) (bk : BlockKind) (acc : List Stmt) :
    ∀ d, Below (parseBlock cfg f bk acc) (parseBlock cfg (f + d) bk acc)
  | 0 => Below.refl _
  | d + 1 => (parseBlock_mono_add cfg f bk acc d).trans ((stmtMono cfg (f + d)).block bk acc)

end Pseudo
