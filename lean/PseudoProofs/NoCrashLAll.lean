import PseudoProofs.NoCrashLRet
import PseudoProofs.NoCrashLSteps1
import PseudoProofs.NoCrashLSteps2
import PseudoProofs.NoCrashLSteps3
import PseudoProofs.NoCrashLSteps4
import PseudoProofs.NoCrashLSteps5
import PseudoProofs.NoCrashLStepsD
/-!
# C01 with TYPE statements anywhere: the induction over the fuel
-/
namespace Pseudo.NL
open Pseudo
variable {f : Nat}

theorem step_execStmt (ih : AllTri f) : ∀ top s, okStmt top s = true →
    Tri (fun σ => TopCond top σ ∧ (NTop σ ∨ NR.declStmt s = true)) (execStmt (f+1) s)
    (fun σ v σ' => (NR.NArr v = true ∧ Good σ' (tscope σ') v) ∧
      (NR.declStmt s = true → Frame σ σ' (scalSig σ (tscope σ) [s]) (arrSig σ (tscope σ) [s]))) := by
  intro top s hok
  cases s with
  | expr e => exact step_execStmt_expr ih top e hok
  | declare t ids ty => exact step_execStmt_declare ih top t ids ty hok
  | declareArr t ids ty bounds => exact step_execStmt_declareArr ih top t ids ty bounds hok
  | const t name e => exact step_execStmt_const ih top t name e hok
  | typeEnum t name vals => exact step_execStmt_typeEnum ih top t name vals hok
  | typePtr t name target => exact step_execStmt_typePtr ih top t name target hok
  | typeRec t name body => exact step_execStmt_typeRec ih top t name body hok
  | ifs t brs els => exact step_execStmt_ifs ih top t brs els hok
  | case t sel cls => exact step_execStmt_case ih top t sel cls hok
  | «while» t c b => exact step_execStmt_while ih top t c b hok
  | «repeat» t b c => exact step_execStmt_repeat ih top t b c hok
  | «for» t it start stop step b => exact step_execStmt_for ih top t it start stop step b hok
  | call t name args => exact step_execStmt_call ih top t name args hok
  | ret t e => exact step_execStmt_ret ih top t e hok
  | brk t => exact step_execStmt_brk ih top t hok
  | cont t => exact step_execStmt_cont ih top t hok
  | output t es => exact step_execStmt_output ih top t es hok
  | input t r => exact step_execStmt_input ih top t r hok
  | openFile t fn mode => exact step_execStmt_openFile ih top t fn mode hok
  | readFile t fn id => exact step_execStmt_readFile ih top t fn id hok
  | writeFile t fn e => exact step_execStmt_writeFile ih top t fn e hok
  | closeFile t fn => exact step_execStmt_closeFile ih top t fn hok
  | seek t fn addr => exact step_execStmt_seek ih top t fn addr hok
  | getRecord t fn id => exact step_execStmt_getRecord ih top t fn id hok
  | putRecord t fn id => exact step_execStmt_putRecord ih top t fn id hok
  | procDef t name params body => exact step_execStmt_procDef ih top t name params body hok
  | funDef t name params ret body => exact step_execStmt_funDef ih top t name params ret body hok

theorem AllTri.succ (ih : AllTri f) : AllTri (f + 1) where
  defaultVal := step_defaultVal ih
  defaultCells := step_defaultCells ih
  evalArgs := step_evalArgs ih
  evalIndices := step_evalIndices ih
  resolveRef := step_resolveRef ih
  callFun := step_callFun ih fun_body_ret
  bindParams := step_bindParams ih
  evalExpr := step_evalExpr ih
  execAssign := step_execAssign ih
  runBlock := step_runBlock ih
  ifChain := step_ifChain ih
  caseMatch := step_caseMatch ih
  caseClauses := step_caseClauses ih
  loopBody := step_loopBody ih
  whileLoop := step_whileLoop ih
  repeatLoop := step_repeatLoop ih
  forLoop := step_forLoop ih
  callProc := step_callProc ih
  resolveParams := step_resolveParams ih
  evalBounds := step_evalBounds ih
  declareVars := step_declareVars ih
  declareArrs := step_declareArrs ih
  outputAll := step_outputAll ih
  fileName := step_fileName ih
  execStmt := step_execStmt ih

/-- **no function of the evaluator reaches a crash point** on the sublanguage with enum, pointer and record types defined in any
    activation (record bodies: DECLAREs with literal array bounds) -/
theorem allTri : ∀ fuel, AllTri fuel
  | 0 => AllTri.zero
  | f + 1 => (allTri f).succ

end Pseudo.NL
