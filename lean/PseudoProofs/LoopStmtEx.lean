import PseudoProofs.LoopStmtIter
/-!
# Loop statements: concrete states and evaluation helpers for the non-vacuity examples of `Properties/C03Stmt.lean`

`Except Stop Val` has no decidable equality; `okBool` / `okInt` / `sigOf` project a run result to a decidable type, so
that concrete runs can be checked by `decide +kernel` and turned back into run equations (`run_okBool`, `run_cont`,
`run_brk`). The states of the examples are DEFINED as the states the concrete runs leave (`stC`, `stB`).
-/
namespace Pseudo
namespace C03StmtEx
open ArrayLemmas TraceChain TraceChain2 LoopStmt C03LoopsEx CallLemmas

def iSlot : Slot := { name := "i".toList, ty := .int, val := .int 1 }
def gAct : Act := { id := 0, name := "Program".toList, vars := [iSlot] }
def iExpr : Expr := .access exT (.var exT)
/-- `i < 3` -/
def wCond : Expr := .cmp exT .lt iExpr (.intLit exT 3)
/-- `i ← i + 1` -/
def wBody : Block := [.expr (.assign exT (.var exT) (.arith exT .add iExpr (.intLit exT 1)))]
/-- `i ← i + 1 ; CONTINUE ; BREAK` -/
def wBodyC : Block := wBody ++ [.cont exT, .brk exT]

def stC (σ : St) : St := ((evalExpr 12 wCond).run.run (tickSt σ)).2
def stB (b : Block) (σ : St) : St := ((runBlock 12 b).run.run σ).2

/-- the states at the tests of `WHILE i < 3 … ENDWHILE` run from `exLoopSt` (`i = 1`) -/
def wS (b : Block) : Nat → St
  | 0 => tickSt exLoopSt
  | n + 1 => stB b (stC (wS b n))
def wC (b : Block) (n : Nat) : St := stC (wS b n)

def okBool : Except Stop Val → Option Bool
  | .ok (.bool x) => some x
  | _ => none
def sigOf : Except Stop Unit → Option (Bool × Tok)
  | .error (.brk t) => some (true, t)
  | .error (.cont t) => some (false, t)
  | _ => none

def okInt : Except Stop Val → Option Int
  | .ok (.int x) => some x
  | _ => none

theorem run_okBool {m : M Val} {σ : St} {x : Bool} (h : okBool (m.run.run σ).1 = some x) :
    m.run.run σ = (.ok (.bool x), (m.run.run σ).2) := by
  rcases hr : m.run.run σ with ⟨r, σ'⟩
  rw [hr] at h
  cases r with
  | error e => cases h
  | ok v =>
    cases v with
    | bool y => simp only [okBool, Option.some.injEq] at h; subst h; rfl
    | _ => cases h

theorem run_cont {m : M Unit} {σ : St} {t : Tok} (h : sigOf (m.run.run σ).1 = some (false, t)) :
    m.run.run σ = (.error (.cont t), (m.run.run σ).2) := by
  rcases hr : m.run.run σ with ⟨r, σ'⟩
  rw [hr] at h
  cases r with
  | ok v => cases h
  | error e =>
    cases e with
    | cont t' => simp only [sigOf, Option.some.injEq, Prod.mk.injEq, true_and] at h; subst h; rfl
    | _ => cases h

theorem run_brk {m : M Unit} {σ : St} {t : Tok} (h : sigOf (m.run.run σ).1 = some (true, t)) :
    m.run.run σ = (.error (.brk t), (m.run.run σ).2) := by
  rcases hr : m.run.run σ with ⟨r, σ'⟩
  rw [hr] at h
  cases r with
  | ok v => cases h
  | error e =>
    cases e with
    | brk t' => simp only [sigOf, Option.some.injEq, Prod.mk.injEq, true_and] at h; subst h; rfl
    | _ => cases h


/-- `i >= 3` -/
def rCond : Expr := .cmp exT .ge iExpr (.intLit exT 3)
/-- the states before the passes of `REPEAT b UNTIL i >= 3` run from `exLoopSt`, and after the bodies -/
def rS (b : Block) : Nat → St
  | 0 => tickSt exLoopSt
  | n + 1 => ((evalExpr 12 rCond).run.run (stB b (tickSt (rS b n)))).2
def rB (b : Block) (n : Nat) : St := stB b (tickSt (rS b n))

theorem pureAt_boolLit (σ : St) (t : Tok) (b : Bool) : PureAt σ 1 (.boolLit t b) (.bool b) := by
  intro f hf
  obtain ⟨f', rfl⟩ : ∃ f', f = f' + 1 := ⟨f - 1, by omega⟩
  rw [evalExpr.eq_def]; rfl

theorem ex_iter : (forIter exT).run.run (tickSt exLoopSt) = (.ok (exIt, .int), tickSt exLoopSt) :=
  run_forIter_var (tickSt exLoopSt) gAct gAct [] exT gAct iSlot rfl rfl rfl rfl

theorem ex_pure_i : PureAt (tickSt exLoopSt) 2 iExpr (.int 1) :=
  pureAt_var (tickSt exLoopSt) gAct gAct [] exT exT gAct iSlot (.int 1) rfl rfl rfl rfl

end C03StmtEx
end Pseudo
