import PseudoProofs.NoCrashLSpec
import PseudoProofs.NoCrashSteps3
/-!
# C01 with TYPE statements anywhere, step lemmas, part 3: `forLoop`, `bindParams`, `callProc`, `callFun`
(the port of `NoCrashRSteps3.lean`)
-/
namespace Pseudo.NL
open Pseudo
open Pseudo.NC (ReadsIn ActRead ErrOK ErrNR NoCrash RO EOK errOK_diag errNR_diag errOK_fuel errNR_fuel errOK_brk errOK_cont
  getLast?_mem ro_findAct ro_isLive ro_rtErr ro_rtErr0 ro_pedErr ro_liftMsg ro_liftMsg0 ro_readLoc ro_locIsConst ro_filePre
  ro_writeText ro_get getPath_nil findSlot_name findSlot_mem lookupVarIn_some lookupArrIn_some lookupVarIn_none top_mem
  getPath_append)
open Pseudo.NR (litDims declStmt declBody NArr Kind kind SameKind sigOf SigDefined Live genums gptrs gcomps kind_val_narr
  kind_of_narr kind_arr_inv kind_int kind_str kind_ptr kind_comp kind_prim_simple narr_implicitCast)
variable {f : Nat}

theorem step_forLoop (ih : AllTri f) : ∀ top t it stop step b, okBlock top b = true →
    Tri (fun σ => TopCond top σ ∧ NTop σ ∧ IntLoc σ it) (forLoop (f+1) t it stop step b) QT := by
  intro top t it stop step b hok σ hW hP
  have hE0 := Ext.refl σ
  rw [forLoop.eq_def]; dsimp only
  obtain ⟨hT, hN, v, hr, hk⟩ := hP
  refine Run.ro hW hE0 (ro_readLoc hr) fun cur hcur => ?_
  subst hcur
  obtain ⟨i, rfl⟩ := kind_int hk
  dsimp only
  split
  · refine Run.bind hE0 (run_tick hW t) fun _ σ1 hW1 hE1 hE01 _ => ?_
    refine Run.bind hE01 (ih.loopBody top b hok σ1 hW1 ⟨hT.ext hE1, hN.ext hE1⟩) fun br σ2 hW2 hE2 hE02 _ => ?_
    split
    · exact Run.pure hW2 hE02 trivial
    · have hI2 : IntLoc σ2 it := IntLoc.ext hE02 ⟨_, hr, hk⟩
      obtain ⟨v2, hr2, hk2⟩ := hI2
      refine Run.ro hW2 hE02 (ro_readLoc hr2) fun cur2 hcur2 => ?_
      subst hcur2
      obtain ⟨j, rfl⟩ := kind_int hk2
      dsimp only
      refine Run.bind hE02 (run_writeAt hW2 (tscope_sv σ2) t _ hr2 (show kind (Val.int _) = kind (Val.int j) from rfl)
        (good_of_scalar trivial trivial) (Or.inl trivial)) fun _ σ3 hW3 hE3 hE03 _ => ?_
      refine Run.of_tri hE03 (ih.forLoop top t it stop step b hok σ3 hW3
        ⟨hT.ext hE03, hN.ext hE03, IntLoc.ext hE3 ⟨_, hr2, hk2⟩⟩) ?_
      exact fun _ _ _ _ _ => trivial
  · exact Run.pure hW hE0 trivial

theorem step_bindParams (ih : AllTri f) : ∀ t ps es vs acc, es.length = ps.length → vs.length = ps.length →
    Tri (fun σ => NTop σ ∧ ParamsOK σ ps ∧ AllOK σ vs ∧ SlotsOK σ acc) (bindParams (f+1) t ps es vs acc)
      (fun _ r σ' => SlotsOK σ' r ∧
      ∃ new, r = acc.reverse ++ new ∧
        ((∀ p ∈ ps, p.2.2 = false) → new.map (·.ty) = ps.map (·.2.1) ∧ ∀ s ∈ new, s.ref = none)) := by
  intro t ps es vs acc hle hlv σ hW hP
  obtain ⟨hN, hps, hvs, hP⟩ := hP
  have hE0 := Ext.refl σ
  cases ps with
  | nil =>
    cases es with
    | cons _ _ => simp at hle
    | nil =>
    cases vs with
    | cons _ _ => simp at hlv
    | nil =>
      rw [bindParams.eq_def]; dsimp only
      refine Run.pure hW hE0 ⟨?_, [], by simp, fun _ => ⟨rfl, by simp⟩⟩
      intro s hs; exact hP s (List.mem_reverse.1 hs)
  | cons p ps' =>
    obtain ⟨pn, pty, byRef⟩ := p
    cases es with
    | nil => simp at hle
    | cons e es' =>
    cases vs with
    | nil => simp at hlv
    | cons v vs' =>
      have hps' : ParamsOK σ ps' := fun q hq => hps q (List.mem_cons_of_mem _ hq)
      have hvs' : AllOK σ vs' := fun x hx => hvs x (List.mem_cons_of_mem _ hx)
      have hle' : es'.length = ps'.length := by simpa using hle
      have hlv' : vs'.length = ps'.length := by simpa using hlv
      have hTyG : TyG σ pty := hps (pn, pty, byRef) List.mem_cons_self
      rw [bindParams.eq_def]; dsimp only
      cases byRef with
      | false =>
        simp only [Bool.false_eq_true, if_false]
        split
        · exact Run.rtErr hW hE0 _ _
        · rename_i hty
          have hty' : (implicitCast pty v).ty = pty := by simpa using hty
          have hv := hvs v List.mem_cons_self
          have hkind : kind (implicitCast pty v) = .val pty := by
            rw [kind_of_narr (narr_implicitCast pty hv.1), hty']
          have hgood : Good σ (gid σ) (implicitCast pty v) :=
            (good_implicitCast pty hv.2).toG hW (tscope_sv σ) (by rw [hkind]; exact hTyG)
          have hP' : SlotsOK σ ({ name := pn, ty := pty, val := implicitCast pty v } :: acc) := by
            intro s hs
            rcases List.mem_cons.1 hs with rfl | hs
            · unfold SlotG; exact ⟨hkind, hgood⟩
            · exact hP s hs
          refine Run.of_tri hE0 (ih.bindParams t ps' es' vs' _ hle' hlv' σ hW ⟨hN, hps', hvs', hP'⟩) ?_
          rintro r σ' _ _ ⟨hso, new, rfl, hcond⟩
          refine ⟨hso, { name := pn, ty := pty, val := implicitCast pty v } :: new, by simp, fun hall => ?_⟩
          obtain ⟨hmap, href⟩ := hcond (fun q hq => hall q (List.mem_cons_of_mem _ hq))
          refine ⟨by simp [hmap], ?_⟩
          intro s hs
          rcases List.mem_cons.1 hs with rfl | hs
          · rfl
          · exact href s hs
      | true =>
        simp only [if_true]
        split
        · exact Run.rtErr hW hE0 _ _
        · split
          · rename_i at' r
            refine Run.bind hE0 (ih.resolveRef r σ hW hN) fun h σ1 hW1 hE1 hE01 hh => ?_
            split
            · exact Run.rtErr hW1 hE01 _ _
            · rename_i harr
              split
              · exact Run.rtErr hW1 hE01 _ _
              rename_i hne
              have hty : h.ty = pty := by simpa using hne
              refine Run.ro hW1 hE01 (ro_locIsConst h.loc) fun c _ => ?_
              obtain ⟨⟨hv, hrd, hk⟩, _⟩ := hh
              rw [if_neg harr] at hk
              have hTyG' : TyG σ1 h.ty := by rw [hty]; exact TyG.ext hE1 hTyG
              have hP' : SlotsOK σ1 ({ name := pn, ty := h.ty, isConst := c, val := .none, ref := some h.loc } :: acc) := by
                intro s hs
                rcases List.mem_cons.1 hs with rfl | hs
                · unfold SlotG; exact ⟨rfl, ⟨hv, hrd, hk⟩, hTyG'⟩
                · exact (hP s hs).ext hE1
              refine Run.of_tri hE01 (ih.bindParams t ps' es' vs' _ hle' hlv' σ1 hW1
                ⟨hN.ext hE1, hps'.ext hE1, hvs'.ext hE1, hP'⟩) ?_
              rintro r σ' _ _ ⟨hso, new, rfl, _⟩
              refine ⟨hso, { name := pn, ty := h.ty, isConst := c, val := .none, ref := some h.loc } :: new, by simp,
                fun hall => ?_⟩
              have := hall (pn, pty, true) List.mem_cons_self
              cases this
          · exact Run.rtErr hW hE0 _ _

theorem step_callProc (ih : AllTri f) : ∀ t name args, Tri NTop (callProc (f+1) t name args) QT := by
  intro t name args σ hW hN
  have hE0 := Ext.refl σ
  rw [callProc.eq_def]; dsimp only
  refine Run.get_bind ?_
  split
  · exact Run.rtErr hW hE0 _ _
  · rename_i pd hfind
    refine Run.bind hE0 (ih.evalArgs args [] σ hW ⟨hN, fun v hv => by cases hv⟩) fun vals σ1 hW1 hE1 hE01 hv => ?_
    obtain ⟨hvals, hlen⟩ := hv
    split
    · exact Run.rtErr hW1 hE01 _ _
    · rename_i hl
      have hl' : vals.length = pd.params.length := by simpa using hl
      have hpd : ProcOK σ pd := hW.procs pd (List.mem_of_find?_eq_some hfind)
      refine Run.get_bind ?_
      refine Run.get_bind ?_
      have main : Run (do
          let caller ← curAct
          let slots ← bindParams f t pd.params args vals []
          modifyAct caller.id fun a => { a with switchTok := some (t.line, t.col) }
          modify fun s => { s with depth := s.depth + 1 }
          withAct (fun id => { id := id, name := pd.name, vars := slots }) do
            tryCatch (runBlock f pd.body) fun e =>
              match e with
              | .brk bt => rtErr bt .breakOutside
              | .cont ct => rtErr ct .breakOutside
              | e => throw e
          modify fun s => { s with depth := s.depth - 1 }
          modifyAct caller.id fun a => { a with switchTok := none }) σ1 (ResE σ (QT σ) ErrOK) := by
        refine Run.ro hW1 hE01 (ro_curAct hW1) fun caller _ => ?_
        refine Run.bind hE01 (ih.bindParams t pd.params args vals [] (by simp at hlen; omega) hl' σ1 hW1
          ⟨hN.ext hE01, hpd.1.ext hE01, hvals, fun s hs => by cases hs⟩) fun slots σ2 hW2 hE2 hE02 hsl0 => ?_
        refine Run.bind hE02 (run_setSwitchTok hW2 caller.id _) fun _ σ3 hW3 hE3 hE03 _ => ?_
        have hsl := And.intro (hsl0.1.ext hE3) hsl0.2
        obtain ⟨hso, -⟩ := hsl
        refine Run.bind hE03 (run_modify_frame hW3 _ rfl rfl rfl rfl) fun _ σ4 hW4 hE4 hE04 _ => ?_
        have hso4 : SlotsOK σ4 slots := hso.ext hE4
        refine Run.bind hE04 (Run.withAct (E := ErrOK) (Q := fun _ _ => True) (Qb := fun _ _ => True)
          (mk := fun id => { id := id, name := pd.name, vars := slots })
          hW4 (Ext.refl σ4) (fun _ => ⟨rfl, rfl, rfl, rfl⟩) ?_ ?_ ?_) fun _ σ5 hW5 hE5 hE05 _ => ?_
        · rw [pushScope_noncomp rfl rfl]
          exact actOK_new hW4 hso4 _ rfl rfl rfl rfl rfl rfl rfl rfl
        · intro hWp
          have hNb : NTop (pushSt (fun id => { id := id, name := pd.name, vars := slots }) σ4) :=
            ⟨_, σ4.acts, rfl, rfl⟩
          refine Run.tryCatch (Ext.refl _) ((ih.runBlock false pd.body hpd.2 _ hWp
            ⟨TopCond.false _, Or.inl hNb⟩).weakenQ fun _ _ _ _ _ => trivial)
            fun e σ' hW' hE' hE0' he => ?_
          cases e with
          | brk bt => exact Run.rtErr hW' hE0' _ _
          | cont ct => exact Run.rtErr hW' hE0' _ _
          | ret =>
            exfalso
            obtain ⟨a, rest, hacts, hfn⟩ := he.2 rfl
            have hids := hE'.ids
            rw [hacts] at hids
            simp only [pushSt, List.map_cons, List.cons.injEq] at hids
            rw [hdr_isFn hids.1] at hfn
            cases hfn
          | diag d => exact Run.throw hW' hE0' ⟨he, fun h => nomatch h⟩
          | outOfFuel => exact Run.throw hW' hE0' ⟨he, fun h => nomatch h⟩
          | crash p => exact Run.throw hW' hE0' ⟨he, fun h => nomatch h⟩
        · exact fun _ _ _ _ _ _ _ => trivial
        refine Run.bind hE05 (run_modify_frame hW5 _ rfl rfl rfl rfl) fun _ σ6 hW6 hE6 hE06 _ => ?_
        exact Run.of_tri hE06 (run_setSwitchTok hW6 caller.id none) fun _ _ _ _ _ => trivial
      split
      · exact Run.ro hW1 hE01 (ro_rtErr t _ (fun _ => False)) fun _ h => h.elim
      · exact main

/-- a primitive type is global in every state -/
theorem tyG_of_prim {σ : St} {ty : Ty} (h : ty.isPrimitive = true) : TyG σ ty := by
  cases ty <;> first | trivial | cases h

theorem paramsOK_of_prim {σ : St} {ps : List (Str × Ty × Bool)} (h : NC.ParamsOK ps) : ParamsOK σ ps :=
  fun p hp => tyG_of_prim (h p hp)

theorem builtinFuns_ok (σ : St) : ∀ fd ∈ builtinFuns, ParamsOK σ fd.params ∧ ∃ n ps rt, (n, ps, rt) ∈ builtinTable ∧
    fd.body = .builtin n.toList ∧ fd.params.map (·.2.1) = ps.map (·.2) ∧ ∀ p ∈ fd.params, p.2.2 = false := by
  intro fd hfd
  obtain ⟨h1, h2⟩ := NC.builtinFuns_ok fd hfd
  exact ⟨paramsOK_of_prim h1, h2⟩

theorem slots_val_ty {σ : St} : ∀ ss : List Slot, SlotsOK σ ss → (∀ s ∈ ss, s.ref = none) →
    (ss.map (·.val)).map Val.ty = ss.map (·.ty)
  | [], _, _ => rfl
  | s :: ss, h1, h2 => by
    have hs := h1 s List.mem_cons_self
    unfold SlotG at hs
    rw [h2 s List.mem_cons_self] at hs
    simp only [List.map_cons, (kind_val_narr hs.1).2]
    rw [slots_val_ty ss (fun x hx => h1 x (List.mem_cons_of_mem _ hx)) (fun x hx => h2 x (List.mem_cons_of_mem _ hx))]

/-- a primitive value has a global type -/
theorem kg_of_simple {σ : St} {v : Val} (h : NC.simple v = true) : KG σ (kind v) := by
  cases v <;> first | trivial | (simp [NC.simple] at h)

/-- what the RETURN protocol says about the top activation after the body of a function whose activation was `a` -/
def RetInfo (a : Act) (σ' : St) : Prop :=
  ∃ a' rest', σ'.acts = a' :: rest' ∧ hdr a' = hdr a ∧ ∀ v, a'.retVal = some v → v.ty = a'.retTy

/-- the outcome of a function body: the `Run` fact of the induction hypothesis combined with the RETURN protocol -/
theorem run_body_ret (hret : FunBodyRet) {body : Block} {σb : St} {a : Act} {rest : List Act} (hσ : σb.acts = a :: rest)
    (hrv : a.retVal = none) {Q : Unit → St → Prop} {E : St → Stop → Prop}
    (h : Run (runBlock f body) σb (ResE σb Q E)) :
    Run (runBlock f body) σb (ResE σb (fun _ σ' => RetInfo a σ') (fun σ' e => E σ' e ∧ (e = .ret → RetInfo a σ'))) := by
  have hr := hret f body σb a rest hσ hrv
  unfold Run at *
  rcases hrun : (runBlock f body).run.run σb with ⟨e | u, σ'⟩
  · rw [hrun] at h hr
    refine ⟨h.1, h.2.1, h.2.2, fun he => ?_⟩
    subst he
    obtain ⟨a', rest', h1, ⟨v0, hv0, hty0⟩, h3⟩ := hr
    refine ⟨a', rest', h1, h3, fun v hv => ?_⟩
    rw [hv0] at hv; cases hv; exact hty0
  · rw [hrun] at h hr
    obtain ⟨a', rest', h1, h2, h3⟩ := hr
    refine ⟨h.1, h.2.1, a', rest', h1, h3, fun v hv => ?_⟩
    rw [h2] at hv; cases hv

theorem step_callFun (ih : AllTri f) (hret : FunBodyRet) : ∀ t args, Tri NTop (callFun (f+1) t args) QV := by
  intro t args σ hW hN
  have hE0 := Ext.refl σ
  rw [callFun.eq_def]; dsimp only
  refine Run.get_bind ?_
  split
  · exact Run.rtErr hW hE0 _ _
  · rename_i fd hfd
    have hshape : ParamsOK σ fd.params ∧
        ((∃ n ps rt, (n, ps, rt) ∈ builtinTable ∧ fd.body = .builtin n.toList ∧ fd.params.map (·.2.1) = ps.map (·.2) ∧
            ∀ p ∈ fd.params, p.2.2 = false) ∨
         (TyG σ fd.ret ∧ ∃ b tok, fd.body = .user b tok ∧ okBlock false b = true)) := by
      split at hfd
      · rename_i b hb
        cases hfd
        obtain ⟨h1, h2⟩ := builtinFuns_ok σ _ (List.mem_of_find?_eq_some hb)
        exact ⟨h1, Or.inl h2⟩
      · obtain ⟨h1, h2⟩ := hW.funs fd (List.mem_of_find?_eq_some hfd)
        exact ⟨h1, Or.inr h2⟩
    obtain ⟨hpok, hbody⟩ := hshape
    refine Run.bind hE0 (ih.evalArgs args [] σ hW ⟨hN, fun v hv => by cases hv⟩) fun vals σ1 hW1 hE1 hE01 hv => ?_
    obtain ⟨hvals, hlen⟩ := hv
    split
    · exact Run.rtErr hW1 hE01 _ _
    · rename_i hl
      have hl' : vals.length = fd.params.length := by simpa using hl
      refine Run.get_bind ?_
      refine Run.get_bind ?_
      have main : Run (do
          let caller ← curAct
          let slots ← bindParams f t fd.params args vals []
          modifyAct caller.id fun a => { a with switchTok := some (t.line, t.col) }
          modify fun s => { s with depth := s.depth + 1 }
          let r ← withAct (fun id => { id := id, name := fd.name, isFn := true, retTy := fd.ret, vars := slots }) do
            match fd.body with
            | .builtin id =>
              let a ← curAct
              let argv := a.vars.map (·.val)
              let v ← runBuiltin id argv
              pure (some v)
            | .user body defTok =>
              tryCatch (runBlock f body) fun e =>
                match e with
                | .ret => pure ()
                | .brk bt => rtErr bt .breakOutside
                | .cont ct => rtErr ct .breakOutside
                | e => throw e
              let a ← curAct
              match a.retVal with
              | some v => pure (some v)
              | none => rtErr defTok .missingReturn
          modify fun s => { s with depth := s.depth - 1 }
          modifyAct caller.id fun a => { a with switchTok := none }
          match r with
          | some v => pure v
          | none => throw (.crash .other)) σ1 (ResE σ (QV σ) ErrOK) := by
        refine Run.ro hW1 hE01 (ro_curAct hW1) fun caller _ => ?_
        refine Run.bind hE01 (ih.bindParams t fd.params args vals [] (by simp at hlen; omega) hl' σ1 hW1
          ⟨hN.ext hE01, hpok.ext hE01, hvals, fun s hs => by cases hs⟩) fun slots σ2 hW2 hE2 hE02 hsl0 => ?_
        refine Run.bind hE02 (run_setSwitchTok hW2 caller.id _) fun _ σ3 hW3 hE3 hE03 _ => ?_
        have hsl := And.intro (hsl0.1.ext hE3) hsl0.2
        obtain ⟨hso, new, hnew, hcond⟩ := hsl
        have hnew' : slots = new := by simpa using hnew
        subst hnew'
        refine Run.bind hE03 (run_modify_frame hW3 _ rfl rfl rfl rfl) fun _ σ4 hW4 hE4 hE04 _ => ?_
        have hso4 : SlotsOK σ4 slots := hso.ext hE4
        have hmk : MkOK (fun id => ({ id := id, name := fd.name, isFn := true, retTy := fd.ret, vars := slots } : Act)) :=
          fun _ => ⟨rfl, rfl, rfl, rfl⟩
        refine Run.bind hE04 (Run.withAct (E := ErrOK)
          (Q := fun r σ' => ∃ v, r = some v ∧ NArr v = true ∧ Good σ' (tscope σ') v)
          (Qb := fun r σ2 => ∃ v, r = some v ∧ NArr v = true ∧ Good σ2 (tscope σ2) v ∧ KG σ2 (kind v))
          hW4 (Ext.refl σ4) hmk ?_ ?_ ?_) fun r σ5 hW5 hE5 hE05 hr => ?_
        · rw [pushScope_noncomp rfl rfl]
          exact actOK_new hW4 hso4 _ rfl rfl rfl rfl rfl rfl rfl rfl
        · intro hWp
          rcases hbody with ⟨n, ps, rt, hmem, hb, hpm, hbv⟩ | ⟨hrt, b, tok, hb, hokb⟩
          · obtain ⟨hmap, href⟩ := hcond hbv
            rw [hb]; dsimp only
            refine Run.ro hWp (Ext.refl _) (ro_curAct hWp) fun a ⟨rest, ha⟩ => ?_
            have ha' : a = { id := σ4.nextId, name := fd.name, isFn := true, retTy := fd.ret, vars := slots } := by
              simp only [pushSt, List.cons.injEq] at ha
              exact ha.1.symm
            subst ha'
            dsimp only
            have hty : (slots.map (·.val)).map Val.ty = ps.map (·.2) := by
              rw [slots_val_ty slots hso4 href, hmap, hpm]
            refine Run.ro hWp (Ext.refl _) (NC.ro_runBuiltin n ps rt hmem _ hty) fun v hv => ?_
            refine Run.pure hWp (Ext.refl _) ⟨v, rfl, ?_, ?_, kg_of_simple hv⟩
            · exact (ok_of_simple (σ := σ) (k := 0) hv).1
            · exact (ok_of_simple hv).2
          · rw [hb]; dsimp only
            have hNb : NTop (pushSt (fun id => ({ id := id, name := fd.name, isFn := true, retTy := fd.ret, vars := slots } : Act)) σ4) :=
              ⟨_, σ4.acts, rfl, rfl⟩
            have hrt4 : TyG (pushSt (fun id => ({ id := id, name := fd.name, isFn := true, retTy := fd.ret, vars := slots } : Act)) σ4)
                fd.ret := (Mono.push hW4 hmk).tyG (TyG.ext hE04 hrt)
            refine Run.bind (Qa := fun _ σ' => RetInfo
                ({ id := σ4.nextId, name := fd.name, isFn := true, retTy := fd.ret, vars := slots } : Act) σ')
              (Ext.refl _) ?_ fun _ σ' hW' hE' hE0' hinfo => ?_
            · refine Run.tryCatch (Ext.refl _) (run_body_ret hret (σb := pushSt _ σ4) rfl rfl
                (ih.runBlock false b hokb _ hWp ⟨TopCond.false _, Or.inl hNb⟩))
                fun e σ' hW' hE' hE0' he => ?_
              cases e with
              | ret => exact Run.pure hW' hE0' (he.2 rfl)
              | brk bt => exact Run.rtErr hW' hE0' _ _
              | cont ct => exact Run.rtErr hW' hE0' _ _
              | diag d => exact Run.throw hW' hE0' ⟨he.1, fun h => nomatch h⟩
              | outOfFuel => exact Run.throw hW' hE0' ⟨he.1, fun h => nomatch h⟩
              | crash p => exact Run.throw hW' hE0' ⟨he.1, fun h => nomatch h⟩
            · refine Run.ro hW' hE0' (ro_curAct hW') fun a ⟨rest, ha⟩ => ?_
              split
              · rename_i v heq
                obtain ⟨a', rest', ha2, hh, hvt⟩ := hinfo
                rw [ha] at ha2
                simp only [List.cons.injEq] at ha2
                obtain ⟨rfl, -⟩ := ha2
                obtain ⟨hnarr, hgood⟩ := (hW'.topOK ha).retVal v heq
                refine Run.pure hW' hE0' ⟨v, rfl, hnarr, hgood, ?_⟩
                rw [kind_of_narr hnarr, hvt v heq, hdr_retTy hh]
                exact TyG.ext hE' hrt4
              · exact Run.rtErr hW' hE0' _ _
        · rintro r σ' hW2 _ hm hWp ⟨v, hrv, hs, hv, hkg⟩
          exact ⟨v, hrv, hs, good_after_pop hW2 hWp hm (tscope_sv _) hv hkg⟩
        refine Run.bind hE05 (run_modify_frame hW5 _ rfl rfl rfl rfl) fun _ σ6 hW6 hE6 hE06 _ => ?_
        refine Run.bind hE06 (run_setSwitchTok hW6 caller.id none) fun _ σ7 hW7 hE7 hE07 _ => ?_
        obtain ⟨v, hrv, hs, hv⟩ := hr
        subst hrv
        refine Run.pure hW7 hE07 ⟨hs, ?_⟩
        rw [hE7.tscope, hE6.tscope]
        exact (hv.ext hE6).ext hE7
      split
      · exact Run.ro hW1 hE01 (ro_rtErr t _ (fun _ => False)) fun _ h => h.elim
      · exact main

#print axioms step_forLoop
#print axioms step_bindParams
#print axioms step_callProc
#print axioms step_callFun

end Pseudo.NL
