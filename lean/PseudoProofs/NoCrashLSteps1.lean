import PseudoProofs.NoCrashLSpec
namespace Pseudo.NL
open Pseudo
open Pseudo.NC (ReadsIn ActRead ErrOK ErrNR NoCrash RO EOK errOK_diag errNR_diag errOK_fuel errNR_fuel errOK_brk errOK_cont
  getLast?_mem ro_findAct ro_isLive ro_rtErr ro_rtErr0 ro_pedErr ro_liftMsg ro_liftMsg0 ro_readLoc ro_locIsConst ro_filePre
  ro_writeText ro_get getPath_nil findSlot_name findSlot_mem lookupVarIn_some lookupArrIn_some lookupVarIn_none top_mem
  getPath_append)
open Pseudo.NR (litDims declStmt declBody NArr Kind kind SameKind sigOf SigDefined Live genums gptrs gcomps kind_val_narr
  kind_of_narr kind_arr_inv kind_int kind_str kind_ptr kind_comp kind_prim_simple narr_implicitCast)
variable {f : Nat}

/-!
# C01 with TYPE statements anywhere: step lemmas, part 1 (eleven of the "small" functions of the evaluator's mutual block)
(the analogue of `NoCrashRSteps1.lean`)
-/

theorem step_evalArgs (ih : AllTri f) : ∀ es acc,
    Tri (fun σ => NTop σ ∧ AllOK σ acc) (evalArgs (f+1) es acc)
      (fun _ r σ' => AllOK σ' r ∧ r.length = acc.length + es.length) := by
  intro es acc σ hW hP
  obtain ⟨hN, hacc⟩ := hP
  cases es with
  | nil =>
    rw [evalArgs.eq_def]
    refine Run.pure hW (Ext.refl σ) ⟨?_, by simp⟩
    intro v hv; exact hacc v (List.mem_reverse.1 hv)
  | cons e rest =>
    rw [evalArgs.eq_def]; dsimp only
    refine Run.bind (Ext.refl σ) (ih.evalExpr e σ hW hN) fun v σ' hW' hE' hE0' hv => ?_
    refine Run.of_tri hE0' (ih.evalArgs rest (v :: acc) σ' hW' ⟨hN.ext hE', ?_⟩) ?_
    · intro x hx; rcases List.mem_cons.1 hx with rfl | hx
      · exact hv
      · exact hacc.ext hE' x hx
    · intro r σ'' _ _ ⟨h1, h2⟩
      exact ⟨h1, by simp at h2 ⊢; omega⟩

theorem step_ifChain (ih : AllTri f) : ∀ top t bs els, okBranches top bs = true → okOpt top els = true →
    Tri (fun σ => TopCond top σ ∧ NTop σ) (ifChain (f+1) t bs els) QT := by
  intro top t bs els hbs hels σ hW hP
  obtain ⟨hTop, hN⟩ := hP
  have hE0 := Ext.refl σ
  cases bs with
  | nil =>
    rw [ifChain.eq_def]; dsimp only
    cases els with
    | some b =>
      dsimp only
      simp only [okOpt] at hels
      exact Run.of_tri hE0 (ih.runBlock top b hels σ hW ⟨hTop, Or.inl hN⟩) fun _ _ _ _ _ => trivial
    | none => exact Run.pure hW hE0 trivial
  | cons cb rest =>
    obtain ⟨c, b⟩ := cb
    rw [ifChain.eq_def]; dsimp only
    simp only [okBranches, Bool.and_eq_true] at hbs
    refine Run.bind hE0 (ih.evalExpr c σ hW hN) fun v σ1 hW1 hE1 hE01 hv => ?_
    split
    · exact Run.of_tri hE01 (ih.runBlock top b hbs.1 σ1 hW1 ⟨hTop.ext hE01, Or.inl (hN.ext hE01)⟩) fun _ _ _ _ _ => trivial
    · exact Run.of_tri hE01 (ih.ifChain top t rest els hbs.2 hels σ1 hW1 ⟨hTop.ext hE01, hN.ext hE01⟩) fun _ _ _ _ _ => trivial
    · exact Run.rtErr hW1 hE01 _ _

theorem ite_some_eq {α : Type} {c : Prop} [Decidable c] {b b' : α} (h : (if c then some b else none) = some b') :
    b' = b := by
  split at h
  · cases h; rfl
  · cases h

theorem step_caseMatch (ih : AllTri f) : ∀ top v cl, okClause top cl = true →
    Tri NTop (caseMatch (f+1) v cl) (fun _ r _ => ∀ b, r = some b → okBlock top b = true) := by
  intro top v cl hok σ hW hN
  have hE0 := Ext.refl σ
  cases cl with
  | otherwise b =>
    rw [caseMatch.eq_def]; dsimp only
    simp only [okClause] at hok
    exact Run.pure hW hE0 (fun b' hb' => by cases hb'; exact hok)
  | eq e b =>
    rw [caseMatch.eq_def]; dsimp only
    simp only [okClause] at hok
    refine Run.bind hE0 (ih.evalExpr e σ hW hN) fun r σ1 hW1 hE1 hE01 hr => ?_
    refine Run.pure hW1 hE01 ?_
    intro b' hb'
    rw [ite_some_eq hb']; exact hok
  | range lo hi b =>
    rw [caseMatch.eq_def]; dsimp only
    simp only [okClause] at hok
    split
    · exact Run.pure hW hE0 (fun b' hb' => by cases hb')
    · refine Run.bind hE0 (ih.evalExpr lo σ hW hN) fun l σ1 hW1 hE1 hE01 hl => ?_
      split <;> first
        | exact Run.ro (E := ErrOK) hW1 hE01 (ro_rtErr _ _ (fun _ => False)) fun _ h => h.elim
        | (refine Run.ro (E := ErrOK) hW1 hE01 (NC.RO.pure _) fun lv _ => ?_
           refine Run.bind hE01 (ih.evalExpr hi σ1 hW1 (hN.ext hE01)) fun h σ2 hW2 hE2 hE02 hh => ?_
           split <;> first
             | exact Run.ro (E := ErrOK) hW2 hE02 (ro_rtErr _ _ (fun _ => False)) fun _ h => h.elim
             | (refine Run.ro (E := ErrOK) hW2 hE02 (NC.RO.pure _) fun hv _ => ?_
                exact Run.pure hW2 hE02 (fun b' hb' => by rw [ite_some_eq hb']; exact hok)))

theorem step_caseClauses (ih : AllTri f) : ∀ top v cls, okClauses top cls = true →
    Tri (fun σ => TopCond top σ ∧ NTop σ) (caseClauses (f+1) v cls) QT := by
  intro top v cls hok σ hW hP
  obtain ⟨hTop, hN⟩ := hP
  have hE0 := Ext.refl σ
  cases cls with
  | nil => rw [caseClauses.eq_def]; exact Run.pure hW hE0 trivial
  | cons cl rest =>
    rw [caseClauses.eq_def]; dsimp only
    simp only [okClauses, Bool.and_eq_true] at hok
    refine Run.bind hE0 (ih.caseMatch top v cl hok.1 σ hW hN) fun r σ1 hW1 hE1 hE01 hr => ?_
    cases r with
    | some b =>
      dsimp only
      exact Run.of_tri hE01 (ih.runBlock top b (hr b rfl) σ1 hW1 ⟨hTop.ext hE01, Or.inl (hN.ext hE01)⟩) fun _ _ _ _ _ => trivial
    | none =>
      dsimp only
      exact Run.of_tri hE01 (ih.caseClauses top v rest hok.2 σ1 hW1 ⟨hTop.ext hE01, hN.ext hE01⟩) fun _ _ _ _ _ => trivial

theorem step_loopBody (ih : AllTri f) : ∀ top b, okBlock top b = true →
    Tri (fun σ => TopCond top σ ∧ NTop σ) (loopBody (f+1) b) QT := by
  intro top b hok σ hW hP
  obtain ⟨hTop, hN⟩ := hP
  have hE0 := Ext.refl σ
  rw [loopBody.eq_def]; dsimp only
  refine Run.tryCatch (E' := ErrOK) hE0 ?_ fun e σ1 hW1 hE1 hE01 he => ?_
  · refine Run.bind hE0 (ih.runBlock top b hok σ hW ⟨hTop, Or.inl hN⟩) fun _ σ1 hW1 hE1 hE01 _ => ?_
    exact Run.pure hW1 hE01 trivial
  · cases e with
    | brk t => exact Run.pure hW1 hE01 trivial
    | cont t => exact Run.pure hW1 hE01 trivial
    | _ => exact Run.throw hW1 hE01 he

theorem step_whileLoop (ih : AllTri f) : ∀ top t c b, okBlock top b = true →
    Tri (fun σ => TopCond top σ ∧ NTop σ) (whileLoop (f+1) t c b) QT := by
  intro top t c b hok σ hW hP
  obtain ⟨hTop, hN⟩ := hP
  have hE0 := Ext.refl σ
  rw [whileLoop.eq_def]; dsimp only
  refine Run.bind hE0 (run_tick hW t) fun _ σ1 hW1 hE1 hE01 _ => ?_
  refine Run.bind hE01 (ih.evalExpr c σ1 hW1 (hN.ext hE01)) fun v σ2 hW2 hE2 hE02 hv => ?_
  split
  · refine Run.bind hE02 (ih.loopBody top b hok σ2 hW2 ⟨hTop.ext hE02, hN.ext hE02⟩) fun br σ3 hW3 hE3 hE03 _ => ?_
    split
    · exact Run.pure hW3 hE03 trivial
    · exact Run.of_tri hE03 (ih.whileLoop top t c b hok σ3 hW3 ⟨hTop.ext hE03, hN.ext hE03⟩) fun _ _ _ _ _ => trivial
  · exact Run.pure hW2 hE02 trivial
  · exact Run.rtErr hW2 hE02 _ _

theorem step_repeatLoop (ih : AllTri f) : ∀ top t b c, okBlock top b = true →
    Tri (fun σ => TopCond top σ ∧ NTop σ) (repeatLoop (f+1) t b c) QT := by
  intro top t b c hok σ hW hP
  obtain ⟨hTop, hN⟩ := hP
  have hE0 := Ext.refl σ
  rw [repeatLoop.eq_def]; dsimp only
  refine Run.bind hE0 (run_tick hW t) fun _ σ1 hW1 hE1 hE01 _ => ?_
  refine Run.bind hE01 (ih.loopBody top b hok σ1 hW1 ⟨hTop.ext hE01, hN.ext hE01⟩) fun br σ2 hW2 hE2 hE02 _ => ?_
  split
  · exact Run.pure hW2 hE02 trivial
  · refine Run.bind hE02 (ih.evalExpr c σ2 hW2 (hN.ext hE02)) fun v σ3 hW3 hE3 hE03 hv => ?_
    split
    · exact Run.pure hW3 hE03 trivial
    · exact Run.of_tri hE03 (ih.repeatLoop top t b c hok σ3 hW3 ⟨hTop.ext hE03, hN.ext hE03⟩) fun _ _ _ _ _ => trivial
    · exact Run.rtErr hW3 hE03 _ _

/-- when only the global activation is on the stack the current scope is the global one -/
theorem tscope_single {σ : St} (hW : WF σ) {g : Act} (hσ : σ.acts = [g]) : tscope σ = gid σ := by
  have hc : g.isComp = false := hW.last_noncomp (gl := g) (by rw [hσ]; rfl)
  unfold tscope gid
  rw [hσ]
  simp [scopeOfL, hc]

theorem step_resolveParams (ih : AllTri f) : ∀ ps acc,
    Tri (fun σ => TopCond true σ ∧ ParamsOK σ acc) (resolveParams (f+1) ps acc) (fun _ r σ' => ParamsOK σ' r) := by
  intro ps acc σ hW hP
  obtain ⟨hTop, hacc⟩ := hP
  have hE0 := Ext.refl σ
  cases ps with
  | nil =>
    rw [resolveParams.eq_def]
    refine Run.pure hW hE0 ?_
    intro p hp; exact hacc p (List.mem_reverse.1 hp)
  | cons p ps =>
    rw [resolveParams.eq_def]; dsimp only
    refine Run.ro hW hE0 (ro_getType hW p.ty) fun ty hty => ?_
    split
    · exact Run.rtErr hW hE0 _ _
    · refine Run.of_tri hE0 (ih.resolveParams ps _ σ hW ⟨hTop, ?_⟩) fun _ _ _ _ h => h
      intro q hq
      rcases List.mem_cons.1 hq with rfl | hq
      · obtain ⟨g, hg⟩ := hTop rfl
        have hs := tscope_single hW hg
        show TyDef σ (gid σ) ty
        rw [hty, ← hs]; exact typeOfTok_def (tscope σ) p.ty
      · exact hacc q hq

theorem step_evalBounds (ih : AllTri f) : ∀ bs acc, Tri NTop (evalBounds (f+1) bs acc) QT := by
  intro bs acc σ hW hN
  have hE0 := Ext.refl σ
  cases bs with
  | nil => rw [evalBounds.eq_def]; exact Run.pure hW hE0 trivial
  | cons lh rest =>
    obtain ⟨lo, hi⟩ := lh
    rw [evalBounds.eq_def]; dsimp only
    refine Run.bind hE0 (ih.evalExpr lo σ hW hN) fun l σ1 hW1 hE1 hE01 _ => ?_
    split
    · refine Run.bind hE01 (ih.evalExpr hi σ1 hW1 (hN.ext hE01)) fun h σ2 hW2 hE2 hE02 _ => ?_
      split
      · split
        · exact Run.rtErr hW2 hE02 _ _
        · exact Run.of_tri hE02 (ih.evalBounds rest _ σ2 hW2 (hN.ext hE02)) fun _ _ _ _ _ => trivial
      · exact Run.rtErr hW2 hE02 _ _
    · exact Run.rtErr hW1 hE01 _ _

theorem step_outputAll (ih : AllTri f) : ∀ es, Tri NTop (outputAll (f+1) es) QT := by
  intro es σ hW hN
  have hE0 := Ext.refl σ
  cases es with
  | nil => rw [outputAll.eq_def]; exact Run.pure hW hE0 trivial
  | cons e rest =>
    rw [outputAll.eq_def]; dsimp only
    refine Run.bind hE0 (ih.evalExpr e σ hW hN) fun v σ1 hW1 hE1 hE01 hv => ?_
    refine Run.ro hW1 hE01 (ro_outputText hW1 hv.2.root) fun o _ => ?_
    cases o with
    | some s =>
      dsimp only
      refine Run.bind hE01 (run_emit hW1 s) fun _ σ2 hW2 hE2 hE02 _ => ?_
      exact Run.of_tri hE02 (ih.outputAll rest σ2 hW2 (hN.ext hE02)) fun _ _ _ _ _ => trivial
    | none => exact Run.rtErr hW1 hE01 _ _

theorem step_fileName (ih : AllTri f) : ∀ t e, Tri NTop (fileName (f+1) t e) QT := by
  intro t e σ hW hN
  have hE0 := Ext.refl σ
  rw [fileName.eq_def]; dsimp only
  refine Run.bind hE0 (ih.evalExpr e σ hW hN) fun v σ1 hW1 hE1 hE01 hv => ?_
  split
  · exact Run.pure hW1 hE01 trivial
  · exact Run.rtErr hW1 hE01 _ _

end Pseudo.NL
