import PseudoProofs.AtomicRestIO
/-!
# The simulation for states that differ in `out` and the standard input holds for the whole evaluator (`iosim_all`) and `runMain`
-/
namespace Pseudo
namespace IOSim

macro_rules | `(tactic| iosim_step) => `(tactic| with_reducible apply IOSimAt.catchNotDefined)
macro_rules | `(tactic| iosim_step) => `(tactic| contradiction)
macro_rules | `(tactic| iosim_step) => `(tactic| with_reducible apply IOSimAt.tryCatch)

structure AllIOSim (f : Nat) : Prop where
  defaultVal : ∀ t ty, IOSim (defaultVal f t ty)
  defaultCells : ∀ t ty n acc, IOSim (defaultCells f t ty n acc)
  evalArgs : ∀ es acc, IOSim (evalArgs f es acc)
  evalIndices : ∀ es dims acc, IOSim (evalIndices f es dims acc)
  resolveRef : ∀ r, IOSim (resolveRef f r)
  callFun : ∀ t args, IOSim (callFun f t args)
  bindParams : ∀ t ps es vs acc, IOSim (bindParams f t ps es vs acc)
  evalExpr : ∀ e, IOSim (evalExpr f e)
  execAssign : ∀ t r rhs, IOSim (execAssign f t r rhs)
  runBlock : ∀ b, IOSim (runBlock f b)
  ifChain : ∀ t bs els, IOSim (ifChain f t bs els)
  caseMatch : ∀ v cl, IOSim (caseMatch f v cl)
  caseClauses : ∀ v cls, IOSim (caseClauses f v cls)
  loopBody : ∀ b, IOSim (loopBody f b)
  whileLoop : ∀ t c b, IOSim (whileLoop f t c b)
  repeatLoop : ∀ t b c, IOSim (repeatLoop f t b c)
  forLoop : ∀ t it stop step b, IOSim (forLoop f t it stop step b)
  callProc : ∀ t name args, IOSim (callProc f t name args)
  resolveParams : ∀ ps acc, IOSim (resolveParams f ps acc)
  evalBounds : ∀ bs acc, IOSim (evalBounds f bs acc)
  declareVars : ∀ t ids ty, IOSim (declareVars f t ids ty)
  declareArrs : ∀ t ids ty dims, IOSim (declareArrs f t ids ty dims)
  outputAll : ∀ es, IOSim (outputAll f es)
  fileName : ∀ t e, IOSim (fileName f t e)
  execStmt : ∀ s, IOSim (execStmt f s)

set_option hygiene false in
macro_rules | `(tactic| iosim_ih) => `(tactic| first
  | apply ih.evalExpr | apply ih.resolveRef | apply ih.evalArgs | apply ih.evalIndices | apply ih.callFun
  | apply ih.bindParams | apply ih.execAssign | apply ih.runBlock | apply ih.ifChain | apply ih.caseMatch
  | apply ih.caseClauses | apply ih.loopBody | apply ih.whileLoop | apply ih.repeatLoop | apply ih.forLoop
  | apply ih.callProc | apply ih.resolveParams | apply ih.evalBounds | apply ih.declareVars | apply ih.declareArrs
  | apply ih.outputAll | apply ih.fileName | apply ih.execStmt | apply ih.defaultVal | apply ih.defaultCells)

open Lean in
macro "iosim_fn " id:ident : tactic =>
  `(tactic| (apply IOSim.of_run; intro τ p1 p2; rw [$(mkIdent (id.getId ++ `eq_def)):ident]; try dsimp only
             iosim_auto))

section induction
variable {f : Nat}

theorem AllIOSim.zero : AllIOSim 0 where
  defaultVal _ _ := by iosim_fn defaultVal
  defaultCells _ _ _ _ := by iosim_fn defaultCells
  evalArgs _ _ := by iosim_fn evalArgs
  evalIndices _ _ _ := by iosim_fn evalIndices
  resolveRef _ := by iosim_fn resolveRef
  callFun _ _ := by iosim_fn callFun
  bindParams _ _ _ _ _ := by iosim_fn bindParams
  evalExpr _ := by iosim_fn evalExpr
  execAssign _ _ _ := by iosim_fn execAssign
  runBlock _ := by iosim_fn runBlock
  ifChain _ _ _ := by iosim_fn ifChain
  caseMatch _ _ := by iosim_fn caseMatch
  caseClauses _ _ := by iosim_fn caseClauses
  loopBody _ := by iosim_fn loopBody
  whileLoop _ _ _ := by iosim_fn whileLoop
  repeatLoop _ _ _ := by iosim_fn repeatLoop
  forLoop _ _ _ _ _ := by iosim_fn forLoop
  callProc _ _ _ := by iosim_fn callProc
  resolveParams _ _ := by iosim_fn resolveParams
  evalBounds _ _ := by iosim_fn evalBounds
  declareVars _ _ _ := by iosim_fn declareVars
  declareArrs _ _ _ _ := by iosim_fn declareArrs
  outputAll _ := by iosim_fn outputAll
  fileName _ _ := by iosim_fn fileName
  execStmt _ := by iosim_fn execStmt

theorem iostep_defaultVal (ih : AllIOSim f) : ∀ t ty, IOSim (defaultVal (f+1) t ty) := by
  intro t ty; iosim_fn defaultVal

theorem iostep_defaultCells (ih : AllIOSim f) : ∀ t ty n acc, IOSim (defaultCells (f+1) t ty n acc) := by
  intro t ty n acc; iosim_fn defaultCells

theorem iostep_evalArgs (ih : AllIOSim f) : ∀ es acc, IOSim (evalArgs (f+1) es acc) := by
  intro es acc; iosim_fn evalArgs

theorem iostep_evalIndices (ih : AllIOSim f) : ∀ es dims acc, IOSim (evalIndices (f+1) es dims acc) := by
  intro es dims acc; iosim_fn evalIndices

theorem iostep_resolveRef (ih : AllIOSim f) : ∀ r, IOSim (resolveRef (f+1) r) := by
  intro r; iosim_fn resolveRef

set_option maxHeartbeats 2000000 in
theorem iostep_callFun (ih : AllIOSim f) : ∀ t args, IOSim (callFun (f+1) t args) := by
  intro t args; iosim_fn callFun

theorem iostep_bindParams (ih : AllIOSim f) : ∀ t ps es vs acc, IOSim (bindParams (f+1) t ps es vs acc) := by
  intro t ps es vs acc; iosim_fn bindParams

theorem iostep_evalExpr (ih : AllIOSim f) : ∀ e, IOSim (evalExpr (f+1) e) := by
  intro e; iosim_fn evalExpr

theorem iostep_execAssign (ih : AllIOSim f) : ∀ t r rhs, IOSim (execAssign (f+1) t r rhs) := by
  intro t r rhs; iosim_fn execAssign

theorem iostep_ifChain (ih : AllIOSim f) : ∀ t bs els, IOSim (ifChain (f+1) t bs els) := by
  intro t bs els; iosim_fn ifChain

theorem iostep_caseMatch (ih : AllIOSim f) : ∀ v cl, IOSim (caseMatch (f+1) v cl) := by
  intro v cl; iosim_fn caseMatch

theorem iostep_caseClauses (ih : AllIOSim f) : ∀ v cls, IOSim (caseClauses (f+1) v cls) := by
  intro v cls; iosim_fn caseClauses

theorem iostep_loopBody (ih : AllIOSim f) : ∀ b, IOSim (loopBody (f+1) b) := by
  intro b; iosim_fn loopBody

theorem iostep_whileLoop (ih : AllIOSim f) : ∀ t c b, IOSim (whileLoop (f+1) t c b) := by
  intro t c b; iosim_fn whileLoop

theorem iostep_repeatLoop (ih : AllIOSim f) : ∀ t b c, IOSim (repeatLoop (f+1) t b c) := by
  intro t b c; iosim_fn repeatLoop

theorem iostep_forLoop (ih : AllIOSim f) : ∀ t it stop step b, IOSim (forLoop (f+1) t it stop step b) := by
  intro t it stop step b; iosim_fn forLoop

set_option maxHeartbeats 2000000 in
theorem iostep_callProc (ih : AllIOSim f) : ∀ t name args, IOSim (callProc (f+1) t name args) := by
  intro t name args; iosim_fn callProc

theorem iostep_resolveParams (ih : AllIOSim f) : ∀ ps acc, IOSim (resolveParams (f+1) ps acc) := by
  intro ps acc; iosim_fn resolveParams

theorem iostep_evalBounds (ih : AllIOSim f) : ∀ bs acc, IOSim (evalBounds (f+1) bs acc) := by
  intro bs acc; iosim_fn evalBounds

theorem iostep_declareVars (ih : AllIOSim f) : ∀ t ids ty, IOSim (declareVars (f+1) t ids ty) := by
  intro t ids ty; iosim_fn declareVars

theorem iostep_declareArrs (ih : AllIOSim f) : ∀ t ids ty dims, IOSim (declareArrs (f+1) t ids ty dims) := by
  intro t ids ty dims; iosim_fn declareArrs

theorem iostep_outputAll (ih : AllIOSim f) : ∀ es, IOSim (outputAll (f+1) es) := by
  intro es; iosim_fn outputAll

theorem iostep_fileName (ih : AllIOSim f) : ∀ t e, IOSim (fileName (f+1) t e) := by
  intro t e; iosim_fn fileName

set_option maxHeartbeats 2000000 in
theorem iostep_execStmt (ih : AllIOSim f) : ∀ s, IOSim (execStmt (f+1) s) := by
  intro s; iosim_fn execStmt

theorem iostep_runBlock (ih : AllIOSim f) : ∀ b, IOSim (runBlock (f+1) b) := by
  intro b; iosim_fn runBlock

theorem AllIOSim.succ (ih : AllIOSim f) : AllIOSim (f + 1) where
  defaultVal := iostep_defaultVal ih
  defaultCells := iostep_defaultCells ih
  evalArgs := iostep_evalArgs ih
  evalIndices := iostep_evalIndices ih
  resolveRef := iostep_resolveRef ih
  callFun := iostep_callFun ih
  bindParams := iostep_bindParams ih
  evalExpr := iostep_evalExpr ih
  execAssign := iostep_execAssign ih
  runBlock := iostep_runBlock ih
  ifChain := iostep_ifChain ih
  caseMatch := iostep_caseMatch ih
  caseClauses := iostep_caseClauses ih
  loopBody := iostep_loopBody ih
  whileLoop := iostep_whileLoop ih
  repeatLoop := iostep_repeatLoop ih
  forLoop := iostep_forLoop ih
  callProc := iostep_callProc ih
  resolveParams := iostep_resolveParams ih
  evalBounds := iostep_evalBounds ih
  declareVars := iostep_declareVars ih
  declareArrs := iostep_declareArrs ih
  outputAll := iostep_outputAll ih
  fileName := iostep_fileName ih
  execStmt := iostep_execStmt ih

end induction

/-- all 25 functions of the evaluator, every fuel: from two states that differ in `out` and the standard input, either the
    first run reads input, or the two runs are in lockstep and append the same chunks -/
theorem iosim_all : ∀ fuel, AllIOSim fuel
  | 0 => AllIOSim.zero
  | f + 1 => (iosim_all f).succ

/-- whole programs / REPL entries (`MainBlock::run`) -/
theorem iosim_runMain (f : Nat) (b : Block) : IOSim (runMain f b) := by
  apply IOSim.of_run
  intro τ p1 p2
  unfold runMain
  refine IOSimAt.tryCatch (((iosim_all f).runBlock b).run τ p1 p2) ?_
  intro e τ p1 p2
  iosim_auto

end IOSim
end Pseudo
