import PseudoProofs.NoCrashSpec
namespace Pseudo.NC
open Pseudo
variable {f : Nat}

theorem step_execStmt_expr (ih : AllTri f) (e : Expr) :
    Tri PT (execStmt (f+1) (.expr e)) (fun _ v _ => simple v = true) := by
  intro σ hW _; have hE0 := Ext.refl σ; rw [execStmt.eq_def]; dsimp only
  refine Run.bind hE0 (run_tick hW _) fun _ σ1 hW1 hE1 hE01 _ => ?_
  exact Run.of_tri hE01 (ih.evalExpr e σ1 hW1 trivial) fun _ _ _ _ h => h

theorem step_execStmt_declare (ih : AllTri f) (t : Tok) (ids : List Tok) (ty : Tok) :
    Tri PT (execStmt (f+1) (.declare t ids ty)) (fun _ v _ => simple v = true) := by
  intro σ hW _; have hE0 := Ext.refl σ; rw [execStmt.eq_def]; dsimp only
  refine Run.bind hE0 (run_tick hW _) fun _ σ1 hW1 hE1 hE01 _ => ?_
  refine Run.bind hE01 (ih.declareVars t ids ty σ1 hW1 trivial) fun _ σ2 hW2 hE2 hE02 _ => ?_
  exact Run.pure hW2 hE02 rfl

theorem step_execStmt_declareArr (ih : AllTri f) (t : Tok) (ids : List Tok) (ty : Tok) (bounds : List (Expr × Expr)) :
    Tri PT (execStmt (f+1) (.declareArr t ids ty bounds)) (fun _ v _ => simple v = true) := by
  intro σ hW _; have hE0 := Ext.refl σ; rw [execStmt.eq_def]; dsimp only
  refine Run.bind hE0 (run_tick hW _) fun _ σ1 hW1 hE1 hE01 _ => ?_
  refine Run.ro hW1 hE01 (ro_curAct hW1) fun a ⟨rest, ha⟩ => ?_
  split
  · exact Run.rtErr hW1 hE01 _ _
  · refine Run.bind hE01 (ih.evalBounds bounds [] σ1 hW1 trivial) fun dims σ2 hW2 hE2 hE02 _ => ?_
    refine Run.bind hE02 (ih.declareArrs t ids ty dims σ2 hW2 trivial) fun _ σ3 hW3 hE3 hE03 _ => ?_
    exact Run.pure hW3 hE03 rfl

theorem step_execStmt_const (ih : AllTri f) (t : Tok) (name : Tok) (e : Expr) :
    Tri PT (execStmt (f+1) (.const t name e)) (fun _ v _ => simple v = true) := by
  intro σ hW _; have hE0 := Ext.refl σ; rw [execStmt.eq_def]; dsimp only
  refine Run.bind hE0 (run_tick hW _) fun _ σ1 hW1 hE1 hE01 _ => ?_
  refine Run.bind hE01 (ih.evalExpr e σ1 hW1 trivial) fun v σ2 hW2 hE2 hE02 hv => ?_
  refine Run.ro hW2 hE02 (ro_curAct hW2) fun a ⟨rest, ha⟩ => ?_
  split
  · exact Run.rtErr hW2 hE02 _ _
  · refine Run.bind hE02 (run_addVar hW2 { name := name.val, ty := v.ty, isConst := true, val := v } rfl hv rfl)
      fun _ σ3 hW3 hE3 hE03 _ => ?_
    exact Run.pure hW3 hE03 rfl

set_option linter.unusedVariables false in
theorem step_execStmt_typeEnum (ih : AllTri f) (t : Tok) (name : Tok) (vals : List Str)
    (hok : okStmt (.typeEnum t name vals) = true) :
    Tri PT (execStmt (f+1) (.typeEnum t name vals)) (fun _ v _ => simple v = true) := by
  simp [okStmt] at hok

set_option linter.unusedVariables false in
theorem step_execStmt_typePtr (ih : AllTri f) (t : Tok) (name : Tok) (target : Tok)
    (hok : okStmt (.typePtr t name target) = true) :
    Tri PT (execStmt (f+1) (.typePtr t name target)) (fun _ v _ => simple v = true) := by
  simp [okStmt] at hok

set_option linter.unusedVariables false in
theorem step_execStmt_typeRec (ih : AllTri f) (t : Tok) (name : Tok) (body : List Stmt)
    (hok : okStmt (.typeRec t name body) = true) :
    Tri PT (execStmt (f+1) (.typeRec t name body)) (fun _ v _ => simple v = true) := by
  simp [okStmt] at hok

theorem step_execStmt_ifs (ih : AllTri f) (t : Tok) (brs : List (Expr × List Stmt)) (els : Option (List Stmt))
    (hok : okStmt (.ifs t brs els) = true) :
    Tri PT (execStmt (f+1) (.ifs t brs els)) (fun _ v _ => simple v = true) := by
  simp [okStmt] at hok
  intro σ hW _; have hE0 := Ext.refl σ; rw [execStmt.eq_def]; dsimp only
  refine Run.bind hE0 (run_tick hW _) fun _ σ1 hW1 hE1 hE01 _ => ?_
  refine Run.bind hE01 (ih.ifChain t brs els hok.1 hok.2 σ1 hW1 trivial) fun _ σ2 hW2 hE2 hE02 _ => ?_
  exact Run.pure hW2 hE02 rfl

theorem step_execStmt_case (ih : AllTri f) (t : Tok) (sel : Tok) (cls : List Clause)
    (hok : okStmt (.case t sel cls) = true) :
    Tri PT (execStmt (f+1) (.case t sel cls)) (fun _ v _ => simple v = true) := by
  simp [okStmt] at hok
  intro σ hW _; have hE0 := Ext.refl σ; rw [execStmt.eq_def]; dsimp only
  refine Run.bind hE0 (run_tick hW _) fun _ σ1 hW1 hE1 hE01 _ => ?_
  refine Run.bind hE01 (ih.evalExpr (.access sel (.var sel)) σ1 hW1 trivial) fun v σ2 hW2 hE2 hE02 _ => ?_
  refine Run.bind hE02 (ih.caseClauses v cls hok σ2 hW2 trivial) fun _ σ3 hW3 hE3 hE03 _ => ?_
  exact Run.pure hW3 hE03 rfl

theorem step_execStmt_while (ih : AllTri f) (t : Tok) (c : Expr) (b : Block) (hok : okStmt (.while t c b) = true) :
    Tri PT (execStmt (f+1) (.while t c b)) (fun _ v _ => simple v = true) := by
  simp [okStmt] at hok
  intro σ hW _; have hE0 := Ext.refl σ; rw [execStmt.eq_def]; dsimp only
  refine Run.bind hE0 (run_tick hW _) fun _ σ1 hW1 hE1 hE01 _ => ?_
  refine Run.bind hE01 (ih.whileLoop t c b hok σ1 hW1 trivial) fun _ σ2 hW2 hE2 hE02 _ => ?_
  exact Run.pure hW2 hE02 rfl

theorem step_execStmt_repeat (ih : AllTri f) (t : Tok) (b : Block) (c : Expr) (hok : okStmt (.repeat t b c) = true) :
    Tri PT (execStmt (f+1) (.repeat t b c)) (fun _ v _ => simple v = true) := by
  simp [okStmt] at hok
  intro σ hW _; have hE0 := Ext.refl σ; rw [execStmt.eq_def]; dsimp only
  refine Run.bind hE0 (run_tick hW _) fun _ σ1 hW1 hE1 hE01 _ => ?_
  refine Run.bind hE01 (ih.repeatLoop t b c hok σ1 hW1 trivial) fun _ σ2 hW2 hE2 hE02 _ => ?_
  exact Run.pure hW2 hE02 rfl

theorem step_execStmt_call (ih : AllTri f) (t : Tok) (name : Str) (args : List Expr) :
    Tri PT (execStmt (f+1) (.call t name args)) (fun _ v _ => simple v = true) := by
  intro σ hW _; have hE0 := Ext.refl σ; rw [execStmt.eq_def]; dsimp only
  refine Run.bind hE0 (run_tick hW _) fun _ σ1 hW1 hE1 hE01 _ => ?_
  refine Run.bind hE01 (ih.callProc t name args σ1 hW1 trivial) fun _ σ2 hW2 hE2 hE02 _ => ?_
  exact Run.pure hW2 hE02 rfl

theorem step_execStmt_ret (ih : AllTri f) (t : Tok) (e : Expr) :
    Tri PT (execStmt (f+1) (.ret t e)) (fun _ v _ => simple v = true) := by
  intro σ hW _; have hE0 := Ext.refl σ; rw [execStmt.eq_def]; dsimp only
  refine Run.bind hE0 (run_tick hW _) fun _ σ1 hW1 hE1 hE01 _ => ?_
  refine Run.ro hW1 hE01 (ro_curAct hW1) fun a ⟨rest, ha⟩ => ?_
  split
  · exact Run.rtErr hW1 hE01 _ _
  · rename_i hfn
    have hfn' : a.isFn = true := by simpa using hfn
    have hret1 : ErrOK σ1 .ret := ⟨fun _ h => (nomatch h), fun _ => ⟨a, rest, ha, hfn'⟩⟩
    refine Run.bind hE01 (ih.evalExpr e σ1 hW1 trivial) fun v σ2 hW2 hE2 hE02 hv => ?_
    refine Run.bind hE02 (run_setRetVal hW2 a.id _ (simple_implicitCast _ _ hv)) fun _ σ3 hW3 hE3 hE03 _ => ?_
    split
    · exact Run.rtErr hW3 hE03 _ _
    · exact Run.throw hW3 hE03 (ErrOK.ext (hE2.trans hE3) hret1)

set_option linter.unusedVariables false in
theorem step_execStmt_brk (ih : AllTri f) (t : Tok) :
    Tri PT (execStmt (f+1) (.brk t)) (fun _ v _ => simple v = true) := by
  intro σ hW _; have hE0 := Ext.refl σ; rw [execStmt.eq_def]; dsimp only
  refine Run.bind hE0 (run_tick hW _) fun _ σ1 hW1 hE1 hE01 _ => ?_
  exact Run.throw hW1 hE01 (errOK_brk _ _)

set_option linter.unusedVariables false in
theorem step_execStmt_cont (ih : AllTri f) (t : Tok) :
    Tri PT (execStmt (f+1) (.cont t)) (fun _ v _ => simple v = true) := by
  intro σ hW _; have hE0 := Ext.refl σ; rw [execStmt.eq_def]; dsimp only
  refine Run.bind hE0 (run_tick hW _) fun _ σ1 hW1 hE1 hE01 _ => ?_
  exact Run.throw hW1 hE01 (errOK_cont _ _)

theorem step_execStmt_output (ih : AllTri f) (t : Tok) (es : List Expr) :
    Tri PT (execStmt (f+1) (.output t es)) (fun _ v _ => simple v = true) := by
  intro σ hW _; have hE0 := Ext.refl σ; rw [execStmt.eq_def]; dsimp only
  refine Run.bind hE0 (run_tick hW _) fun _ σ1 hW1 hE1 hE01 _ => ?_
  refine Run.bind hE01 (ih.outputAll es σ1 hW1 trivial) fun _ σ2 hW2 hE2 hE02 _ => ?_
  refine Run.bind hE02 (run_emit hW2 _) fun _ σ3 hW3 hE3 hE03 _ => ?_
  exact Run.pure hW3 hE03 rfl

theorem step_execStmt_procDef (ih : AllTri f) (t : Tok) (name : Str) (params : List Param) (body : List Stmt)
    (hok : okStmt (.procDef t name params body) = true) :
    Tri PT (execStmt (f+1) (.procDef t name params body)) (fun _ v _ => simple v = true) := by
  have hbody : okBlock body = true := by simpa [okStmt] using hok
  intro σ hW _; have hE0 := Ext.refl σ; rw [execStmt.eq_def]; dsimp only
  refine Run.bind hE0 (run_tick hW _) fun _ σ1 hW1 hE1 hE01 _ => ?_
  refine Run.get_bind ?_
  split
  · exact Run.rtErr hW1 hE01 _ _
  · refine Run.bind hE01 (ih.resolveParams params [] (by intro p hp; cases hp) σ1 hW1 trivial)
      fun ps σ2 hW2 hE2 hE02 hps => ?_
    refine Run.bind hE02 (run_addProc hW2 _ ⟨hps, hbody⟩) fun _ σ3 hW3 hE3 hE03 _ => ?_
    exact Run.pure hW3 hE03 rfl

theorem step_execStmt_funDef (ih : AllTri f) (t : Tok) (name : Str) (params : List Param) (ret : Tok) (body : List Stmt)
    (hok : okStmt (.funDef t name params ret body) = true) :
    Tri PT (execStmt (f+1) (.funDef t name params ret body)) (fun _ v _ => simple v = true) := by
  have hbody : okBlock body = true := by simpa [okStmt] using hok
  intro σ hW _; have hE0 := Ext.refl σ; rw [execStmt.eq_def]; dsimp only
  refine Run.bind hE0 (run_tick hW _) fun _ σ1 hW1 hE1 hE01 _ => ?_
  refine Run.get_bind ?_
  split
  · exact Run.rtErr hW1 hE01 _ _
  · refine Run.ro hW1 hE01 (ro_getType hW1 ret _) fun rty _ => ?_
    split
    · exact Run.rtErr hW1 hE01 _ _
    · refine Run.bind hE01 (ih.resolveParams params [] (by intro p hp; cases hp) σ1 hW1 trivial)
        fun ps σ2 hW2 hE2 hE02 hps => ?_
      refine Run.bind hE02 (run_addFun hW2 _ ⟨hps, body, t, rfl, hbody⟩) fun _ σ3 hW3 hE3 hE03 _ => ?_
      exact Run.pure hW3 hE03 rfl

end Pseudo.NC
