import Properties.C15Exec
import PseudoProofs.ArrayLemmas
/-!
# Helpers for C15 (`Properties/C15Files.lean`): variables anywhere on the activation stack

`PseudoProofs/ReadLoop.lean` treats `line` / `cnt` as plain variables of the current activation. Here the target of READFILE
(and the operand of OUTPUT / WRITEFILE / `x <- x + 1`) is any name that the evaluator's look-up (current activation, then the
global one; a BYREF formal stands for the caller's location) resolves to a whole, assignable variable somewhere on the
activation stack:

* `Tgt σ x ty L v`: in `σ` the name `x` resolves to the location `L` (a whole variable, not an array, not a constant) of
  declared type `ty`, which holds `v`. (Constructors `Tgt.of_cur`, `Tgt.of_global`, `Tgt.of_byref` and the runs of the
  statements are in `PseudoProofs/ReadLoop2Run.lean`.)
* `lookupVarP_write`: a write into any root cell changes the result of a look-up at most in the stored value.
* preservation: `Tgt.of_acts` (states with the same activation list), `Tgt.write_same`, `Tgt.write_other`; `Tgt.diffRoot`.
-/
namespace Pseudo.ReadLoop2
open Pseudo Pseudo.FileStmt Pseudo.ReadLoop Pseudo.ArrayLemmas Pseudo.C07Copy

/-- in `σ` the name `x` resolves to the whole variable at `L` (type `ty`, assignable) holding `v` -/
structure Tgt (σ : St) (x : Str) (ty : Ty) (L : Loc) (v : Val) : Prop where
  look : ∃ a s, lookupVarP σ x = .ok (some (a, s)) ∧ s.ty = ty ∧ varLoc a s = L
  path : L.path = []
  notArr : L.isArr = false
  nconst : locConstP σ L = false
  val : readLocP σ L = .ok v

theorem writeLocSt_eq (σ : St) (l : Loc) (root : Val) : writeLocSt σ l root = updSt σ l.act (writeF l root) := rfl

/-! ### the look-up after a write -/

/-- `a'` is `a`, possibly after a write into one of its root cells -/
def Upd (l : Loc) (nv : Val) (a a' : Act) : Prop := a' = a ∨ a' = writeF l nv a

theorem Upd.id {l : Loc} {nv : Val} {a a' : Act} (h : Upd l nv a a') : a'.id = a.id := by
  rcases h with rfl | rfl
  · rfl
  · exact writeF_id l nv a

/-- the slot found under a name after a write: the same up to the stored value -/
theorem Upd.slot {l : Loc} {nv : Val} {a a' : Act} (h : Upd l nv a a') (x : Str) :
    ∃ G : Slot → Slot, (∀ s, (G s).ty = s.ty ∧ (G s).ref = s.ref ∧ (G s).name = s.name) ∧
      findSlot a'.vars x = (findSlot a.vars x).map G := by
  rcases h with rfl | rfl
  · exact ⟨fun s => s, fun _ => ⟨rfl, rfl, rfl⟩, by cases findSlot a'.vars x <;> rfl⟩
  · unfold writeF
    cases hl : l.isArr
    · simp only [Bool.false_eq_true, if_false]
      by_cases hx : x = l.name
      · subst hx
        exact ⟨fun s => { s with val := nv }, fun _ => ⟨rfl, rfl, rfl⟩,
          findSlot_updSlot l.name (fun s => { s with val := nv }) (fun _ => rfl) a.vars⟩
      · refine ⟨fun s => s, fun _ => ⟨rfl, rfl, rfl⟩, ?_⟩
        rw [findSlot_updSlot_ne l.name x (fun s => { s with val := nv }) (fun _ => rfl) (Ne.symm hx)]
        cases findSlot a.vars x <;> rfl
    · simp only [if_true]
      exact ⟨fun s => s, fun _ => ⟨rfl, rfl, rfl⟩, by cases findSlot a.vars x <;> rfl⟩

theorem varLoc_congr (a a' : Act) (s s' : Slot) (hid : a'.id = a.id) (hr : s'.ref = s.ref) (hn : s'.name = s.name) :
    varLoc a' s' = varLoc a s := by
  unfold varLoc
  rw [hr, hn, hid]

theorem lookupVarIn_upd {l : Loc} {nv : Val} {a a' g g' : Act} (ha : Upd l nv a a') (hg : Upd l nv g g') (x : Str)
    (b : Act) (s : Slot) (h : lookupVarIn a g x = some (b, s)) :
    ∃ b' s', lookupVarIn a' g' x = some (b', s') ∧ s'.ty = s.ty ∧ varLoc b' s' = varLoc b s := by
  obtain ⟨G, hG, hfa⟩ := ha.slot x
  obtain ⟨G', hG', hfg⟩ := hg.slot x
  unfold lookupVarIn at h ⊢
  rw [hfa, ha.id, hg.id, hfg]
  cases hs : findSlot a.vars x with
  | some s0 =>
    rw [hs] at h
    injection h with h
    injection h with h1 h2
    subst h1; subst h2
    exact ⟨a', G s0, rfl, (hG s0).1, varLoc_congr _ _ _ _ ha.id (hG s0).2.1 (hG s0).2.2⟩
  | none =>
    rw [hs] at h
    dsimp only [Option.map] at h ⊢
    by_cases hid : (a.id == g.id) = true
    · simp only [hid, if_true] at h; cases h
    · simp only [hid, Bool.false_eq_true, if_false] at h ⊢
      cases hs' : findSlot g.vars x with
      | none => rw [hs'] at h; cases h
      | some s0 =>
        rw [hs'] at h
        injection h with h
        injection h with h1 h2
        subst h1; subst h2
        exact ⟨g', G' s0, rfl, (hG' s0).1, varLoc_congr _ _ _ _ hg.id (hG' s0).2.1 (hG' s0).2.2⟩

theorem head_updActs (id : Nat) (F : Act → Act) (a : Act) (rest : List Act) :
    ∃ a' rest', updActs (a :: rest) id F = a' :: rest' ∧ (a' = a ∨ a' = F a) := by
  unfold updActs
  by_cases ha : (a.id == id) = true
  · simp only [ha, if_true]; exact ⟨_, _, rfl, .inr rfl⟩
  · simp only [ha, Bool.false_eq_true, if_false]; exact ⟨_, _, rfl, .inl rfl⟩

theorem lookupVarP_write (σ : St) (l : Loc) (nv : Val) (x : Str) (b : Act) (s : Slot)
    (h : lookupVarP σ x = .ok (some (b, s))) :
    ∃ b' s', lookupVarP (writeLocSt σ l nv) x = .ok (some (b', s')) ∧ s'.ty = s.ty ∧ varLoc b' s' = varLoc b s := by
  cases hacts : σ.acts with
  | nil =>
    unfold lookupVarP curActP at h
    rw [hacts] at h
    cases h
  | cons a rest =>
    rw [lookupVarP_cons σ a rest hacts] at h
    injection h with h
    obtain ⟨a', rest', hu, ha'⟩ := head_updActs l.act (writeF l nv) a rest
    have hgl : (a :: rest).getLast? = some ((a :: rest).getLast (List.cons_ne_nil a rest)) :=
      List.getLast?_eq_some_getLast (List.cons_ne_nil a rest)
    obtain ⟨g', hg', hor⟩ := getLast?_updActs l.act (writeF l nv) (a :: rest) _ hgl
    obtain ⟨b', s', hl, h1, h2⟩ := lookupVarIn_upd (l := l) (nv := nv) ha' hor x b s h
    refine ⟨b', s', ?_, h1, h2⟩
    have hacts' : (writeLocSt σ l nv).acts = a' :: rest' := by
      rw [writeLocSt_eq]; show updActs σ.acts _ _ = _; rw [hacts, hu]
    rw [lookupVarP_cons _ a' rest' hacts']
    have : (a' :: rest').getLast (List.cons_ne_nil a' rest') = g' := by
      rw [hu, List.getLast?_eq_some_getLast (List.cons_ne_nil a' rest')] at hg'
      injection hg'
    rw [this, hl]

/-! ### preservation of `Tgt` -/

theorem Tgt.of_acts {σ σ' : St} {x : Str} {ty : Ty} {L : Loc} {v : Val} (h : Tgt σ x ty L v) (hacts : σ'.acts = σ.acts) :
    Tgt σ' x ty L v := by
  have e1 : lookupVarP σ' x = lookupVarP σ x := by unfold lookupVarP curActP globalActP; rw [hacts]
  have e2 : locConstP σ' L = locConstP σ L := by unfold locConstP; rw [hacts]
  have e3 : readLocP σ' L = readLocP σ L := by unfold readLocP; rw [hacts]
  exact ⟨by rw [e1]; exact h.look, h.path, h.notArr, by rw [e2]; exact h.nconst, by rw [e3]; exact h.val⟩

theorem loc_eta (L : Loc) (h : L.path = []) : ({ L with path := [] } : Loc) = L := by
  cases L; simp only at h; subst h; rfl

/-- after the variable itself has been given the value `w` -/
theorem Tgt.write_same {σ : St} {x : Str} {ty : Ty} {L : Loc} {v : Val} (h : Tgt σ x ty L v) (w : Val) :
    Tgt (writeLocSt σ L w) x ty L w := by
  obtain ⟨a, s, hl, hty, hloc⟩ := h.look
  obtain ⟨b', s', hl', hty', hloc'⟩ := lookupVarP_write σ L w x a s hl
  refine ⟨⟨b', s', hl', hty'.trans hty, hloc'.trans hloc⟩, h.path, h.notArr, ?_, ?_⟩
  · rw [writeLocSt_eq, locConstP_updSt_writeF]; exact h.nconst
  · have h0 : readLocP σ { L with path := [] } = .ok v := by rw [loc_eta L h.path]; exact h.val
    have := readLocP_updSt_writeF_same σ L w v [] h0
    rw [loc_eta L h.path] at this
    rw [writeLocSt_eq, this]
    rfl

/-- after another root cell has been written -/
theorem Tgt.write_other {σ : St} {x : Str} {ty : Ty} {L : Loc} {v : Val} (h : Tgt σ x ty L v) (L' : Loc) (w : Val)
    (hd : DiffRoot L' L) : Tgt (writeLocSt σ L' w) x ty L v := by
  obtain ⟨a, s, hl, hty, hloc⟩ := h.look
  obtain ⟨b', s', hl', hty', hloc'⟩ := lookupVarP_write σ L' w x a s hl
  refine ⟨⟨b', s', hl', hty'.trans hty, hloc'.trans hloc⟩, h.path, h.notArr, ?_, ?_⟩
  · rw [writeLocSt_eq, locConstP_updSt_writeF]; exact h.nconst
  · rw [writeLocSt_eq, readLocP_updSt_writeF_other σ L' L w hd]; exact h.val

/-- two names that resolve to variables of different declared types resolve to different root cells -/
theorem Tgt.diffRoot {σ : St} {x y : Str} {tx ty : Ty} {L L' : Loc} {v w : Val} (hx : Tgt σ x tx L v) (hy : Tgt σ y ty L' w)
    (hne : v.ty ≠ w.ty) : DiffRoot L L' := by
  by_cases h : L' = L
  · subst h
    have := hx.val.symm.trans hy.val
    injection this with this
    subst this
    exact absurd rfl hne
  · unfold DiffRoot
    by_cases h1 : L'.act = L.act
    · by_cases h2 : L'.isArr = L.isArr
      · by_cases h3 : L'.name = L.name
        · exfalso
          apply h
          cases L; cases L'
          simp only at h1 h2 h3
          have p1 := hx.path
          have p2 := hy.path
          simp only at p1 p2
          subst h1; subst h2; subst h3; subst p1; subst p2
          rfl
        · exact .inr (.inr h3)
      · exact .inr (.inl h2)
    · exact .inl h1

end Pseudo.ReadLoop2
