import Properties.C07Return
import PseudoProofs.FileStmt
import PseudoProofs.RejectLemmas
/-!
# BYVAL parameter writes: vocabulary

`Keeps root σ σ'`: every location whose root variable is not the root variable of `root` reads in `σ'` what it read in `σ`
(so, in particular, every location of every activation other than `root.act`).  The relation is reflexive and transitive,
holds when the activation stack is the same, and holds for every run of `writeLoc` at a location under `root` — however
that run ends.  `bind_cases` splits the run of `m >>= k` into the run of `m` and the run of `k`.
-/
namespace Pseudo
namespace ByvalWrites

open ArrayLemmas C07Copy CallLemmas RecordLemmas RecordReturn

/-- every location outside the root variable of `root` reads in `σ'` what it read in `σ` -/
def Keeps (root : Loc) (σ σ' : St) : Prop := ∀ l', DiffRoot root l' → readLocP σ' l' = readLocP σ l'

theorem Keeps.refl (root : Loc) (σ : St) : Keeps root σ σ := fun _ _ => rfl

theorem Keeps.trans {root : Loc} {σ σ' σ'' : St} (h1 : Keeps root σ σ') (h2 : Keeps root σ' σ'') : Keeps root σ σ'' :=
  fun l hd => (h2 l hd).trans (h1 l hd)

/-- same activation stack: same readings -/
theorem keeps_of_acts (root : Loc) (σ σ' : St) (h : σ'.acts = σ.acts) : Keeps root σ σ' :=
  fun l _ => readLocP_congr σ σ' l h

/-- locations of other activations are among the kept ones -/
theorem Keeps.out {root : Loc} {σ σ' : St} (h : Keeps root σ σ') (l : Loc) (hl : l.act ≠ root.act) :
    readLocP σ' l = readLocP σ l := h l (.inl hl)

/-- `Keeps` only looks at the root -/
theorem Keeps.of_sameRoot {root root' : Loc} {σ σ' : St} (h : Keeps root σ σ') (hs : SameRoot root root') :
    Keeps root' σ σ' := by
  intro l hd
  refine h l ?_
  obtain ⟨h1, h2, h3⟩ := hs
  rcases hd with hd | hd | hd
  · exact .inl (by rw [← h1]; exact hd)
  · exact .inr (.inl (by rw [← h2]; exact hd))
  · exact .inr (.inr (by rw [← h3]; exact hd))

/-- one successful write under the root -/
theorem keeps_write (root : Loc) (σ : St) (l : Loc) (nv : Val) (hs : SameRoot root l) :
    Keeps root σ (updSt σ l.act (writeF l nv)) :=
  fun l' hd => readLocP_updSt_writeF_other σ l l' nv (hd.of_sameRoot hs)

/-- **any run of `writeLoc` at a location under `root`**, however it ends -/
theorem keeps_writeLoc (root : Loc) (t : Tok) (l : Loc) (v : Val) (σ σ' : St) (res : Except Stop Unit)
    (hs : SameRoot root l) (h : (writeLoc t l v).run.run σ = (res, σ')) : Keeps root σ σ' := by
  rcases run_writeLoc_cases t l v σ with ⟨e, he⟩ | ⟨nv, hnv⟩
  · rw [he] at h
    injection h with _ h2
    subst h2
    exact Keeps.refl _ _
  · rw [hnv] at h
    injection h with _ h2
    subst h2
    exact keeps_write root σ l nv hs

/-- the run of `m >>= k`: `m` fails, or `m` yields `a` and `k a` runs from the state `m` left -/
theorem bind_cases {α β : Type} (m : M α) (k : α → M β) (σ σ₂ : St) (res : Except Stop β)
    (h : (m >>= k).run.run σ = (res, σ₂)) :
    (∃ e, m.run.run σ = (.error e, σ₂) ∧ res = .error e) ∨
    (∃ a σ1, m.run.run σ = (.ok a, σ1) ∧ (k a).run.run σ1 = (res, σ₂)) := by
  rw [run_bind] at h
  rcases hm : m.run.run σ with ⟨e | a, σ1⟩
  · rw [hm] at h
    injection h with h1 h2
    subst h2
    exact .inl ⟨e, rfl, h1.symm⟩
  · rw [hm] at h
    exact .inr ⟨a, σ1, rfl, h⟩

/-- a run that is known to leave the state as it is -/
theorem state_of_run {α : Type} {m : M α} {σ σ1 : St} {r r' : Except Stop α} (h : m.run.run σ = (r, σ1))
    (h' : m.run.run σ = (r', σ)) : σ1 = σ := by
  rw [h'] at h
  injection h with _ h2
  exact h2.symm

theorem afterLine_keeps (root : Loc) (σ : St) : Keeps root σ (RejectLemmas.afterLine σ) :=
  keeps_of_acts root σ _ (RejectLemmas.afterLine_acts σ)

theorem tickSt_keeps (root : Loc) (σ : St) : Keeps root σ (tickSt σ) := keeps_of_acts root σ _ rfl

/-- the statement starts with a tick: either the step budget is exhausted (nothing changes) or the rest runs in `tickSt σ` -/
theorem tick_cases {β : Type} (t : Tok) (k : Unit → M β) (σ σ₂ : St) (res : Except Stop β)
    (h : (tick t >>= k).run.run σ = (res, σ₂)) :
    σ₂ = σ ∨ (k ⟨⟩).run.run (tickSt σ) = (res, σ₂) := by
  by_cases hsteps : σ.steps + 1 ≤ σ.stepLimit
  · rw [run_bind_ok _ _ _ _ _ (run_tick_ok t σ hsteps)] at h
    exact .inr h
  · rw [run_bind_err _ _ _ _ _ (run_tick_budget t σ (by omega))] at h
    injection h with _ h2
    exact .inl h2.symm

/-- a failing resolution of a reference that is not a plain name passes through `catchNotDefined` with any handler
    of the shape used by assignment and INPUT -/
theorem run_catch_nonvar (σ σ' : St) (r : Ref) (x : Stop) (f : Nat) (hd : Stop → M (Option Holder))
    (hhd : ∀ e, hd e = throw e)
    (hr : (resolveRef f r).run.run σ = (.error x, σ')) :
    (catchNotDefined (resolveRef f r >>= fun h => pure (some h)) hd).run.run σ = (.error x, σ') := by
  have h2 : (resolveRef f r >>= fun h => (pure (some h) : M (Option Holder))).run.run σ = (.error x, σ') :=
    run_bind_err _ _ _ _ _ hr
  unfold catchNotDefined
  rw [run_tryCatch_err _ _ _ _ _ h2]
  cases x with
  | diag d =>
    simp only
    split
    · rw [run_bind_ok _ _ _ _ _ (run_get σ')]
      split
      · rw [hhd]; rfl
      · rfl
    · rfl
  | _ => rfl

end ByvalWrites
end Pseudo
