import PseudoProofs.NoCrashDefs
import PseudoProofs.EvalInv2
namespace Pseudo.NC
open Pseudo

/-! ### 1. file results -/

/-- File results have the shape the evaluator expects. -/
theorem C01_fres_shape (s s' : FState) (op : FOp) (r : FRes) (h : fstep s op = .ok (s', r)) :
    match op with
    | .readLine _ => ∃ l, r = .line l
    | .eof _ => ∃ b, r = .bool b
    | .get _ => ∃ x, r = .record x
    | _ => r = .unit := by
  unfold fstep at h
  split at h
  · cases h
  · cases op <;> dsimp only at h ⊢
    all_goals (repeat' split at h)
    all_goals first | (cases h; first | rfl | exact ⟨_, rfl⟩) | (cases h)

/-- non-vacuity of `C01_fres_shape`: EOF on a file opened for reading with no unread text answers TRUE -/
example : fstep { fs := [], handles := [{ name := ['f'], mode := .read }] } (.eof ['f'])
    = .ok ({ fs := [], handles := [{ name := ['f'], mode := .read }] }, .bool true) ∧
    ∃ b, FRes.bool true = .bool b :=
  ⟨rfl, C01_fres_shape { fs := [], handles := [{ name := ['f'], mode := .read }] } _ (.eof ['f']) _ rfl⟩

/-- EOF() does not change the file state and answers a boolean. -/
theorem fstep_eof_state (s s' : FState) (n : Str) (r : FRes) (h : fstep s (.eof n) = .ok (s', r)) :
    s' = s ∧ ∃ b, r = .bool b := by
  unfold fstep at h
  split at h
  · cases h
  · dsimp only at h
    split at h
    · cases h
    · cases h; exact ⟨rfl, _, rfl⟩

/-! ### 2. value-level operations keep values `simple` -/

/-- The implicit cast of a scalar is a scalar. -/
theorem simple_implicitCast (ty : Ty) (v : Val) (h : simple v = true) : simple (implicitCast ty v) = true := by
  unfold implicitCast
  split <;> first | rfl | exact h

/-- Arithmetic on scalars gives a scalar. -/
theorem simple_evalArith (sz : Str → Option Nat) (op : ArOp) (l r v : Val) (hl : simple l = true) (hr : simple r = true)
    (h : evalArith sz op l r = .ok v) : simple v = true := by
  cases l <;> try (cases hl)
  all_goals cases r <;> try (cases hr)
  all_goals
    simp only [evalArith] at h
    try (split at h)
    all_goals first
      | (cases h; done)
      | (cases h; cases op <;> rfl)

/-- Unary minus gives a scalar. -/
theorem simple_evalNeg (a v : Val) (h : evalNeg a = .ok v) : simple v = true := by
  unfold evalNeg at h
  split at h <;> cases h <;> rfl

/-- A comparison gives a scalar (a boolean). -/
theorem simple_evalCmp (op : CmpOp) (l r v : Val) (h : evalCmp op l r = .ok v) : simple v = true := by
  unfold evalCmp at h
  dsimp only at h
  repeat' split at h
  all_goals first | (cases h; done) | (cases h; rfl)

/-- AND / OR give a scalar (a boolean). -/
theorem simple_evalLogic (op : LogOp) (l r v : Val) (h : evalLogic op l r = .ok v) : simple v = true := by
  unfold evalLogic at h
  split at h <;> cases h <;> rfl

/-- NOT gives a scalar (a boolean). -/
theorem simple_evalNot (a v : Val) (h : evalNot a = .ok v) : simple v = true := by
  unfold evalNot at h
  split at h <;> cases h <;> rfl

/-- Concatenation gives a scalar (a string). -/
theorem simple_evalConcat (l r v : Val) (h : evalConcat l r = .ok v) : simple v = true := by
  unfold evalConcat at h
  split at h <;> cases h <;> rfl

/-- An explicit cast gives a scalar. -/
theorem simple_castTo (ty : PrimTy) (a v : Val) (h : castTo ty a = .ok v) : simple v = true := by
  unfold castTo at h
  repeat' split at h
  all_goals first | (cases h; done) | (cases h; rfl)

/-- The default value of a primitive type is a scalar of that type. -/
theorem simple_defaultPrim (ty : Ty) (h : ty.isPrimitive = true) :
    simple (defaultPrim ty) = true ∧ (defaultPrim ty).ty = ty := by
  cases ty <;> first | exact ⟨rfl, rfl⟩ | cases h

/-- INPUT conversion gives a scalar of the requested type. -/
theorem simple_inputConvert (ty : Ty) (line : Str) (v : Val) (h : inputConvert ty line = some v) :
    simple v = true ∧ v.ty = ty := by
  cases ty <;> simp only [inputConvert] at h <;> first | (cases h; exact ⟨rfl, rfl⟩) | cases h

/-- A value of primitive type is a scalar. -/
theorem simple_of_ty_prim (v : Val) (h : v.ty.isPrimitive = true) : simple v = true := by
  cases v <;> first | rfl | cases h

/-- An array is not a scalar. -/
theorem not_simple_arr (e : Ty) (d : List (Int × Int)) (c : List Val) : simple (.arr e d c) = false := rfl

/-! ### 3. paths -/

/-- A scalar has no components: every non-empty path fails. -/
theorem getPath_simple (v : Val) (st : Step) (p : List Step) (h : simple v = true) : getPath v (st :: p) = none := by
  cases v <;> first | (cases h; done) | simp [getPath]

/-- A path that can be read can be written. -/
theorem setPath_of_getPath (v : Val) (p : List Step) (x nv : Val) (h : getPath v p = some x) :
    ∃ v', setPath v p nv = some v' := by
  induction p generalizing v x with
  | nil => exact ⟨nv, by unfold setPath; rfl⟩
  | cons st rest ih =>
    unfold getPath at h
    split at h
    · cases ‹_ :: _ = []›
    · rename_i heq
      cases heq
      unfold setPath
      split at h
      · rename_i k hk
        split at h
        · rename_i w hw
          obtain ⟨v', hv'⟩ := ih _ _ h
          simp only [hv']
          exact ⟨_, rfl⟩
        · cases h
      · cases h
    · rename_i heq
      cases heq
      unfold setPath
      split at h
      · rename_i w hw
        obtain ⟨v', hv'⟩ := ih _ _ h
        simp only [hv']
        exact ⟨_, rfl⟩
      · cases h
    · cases h

/-- Reading cell `i` of an array. -/
theorem getPath_arr_idx (e : Ty) (d : List (Int × Int)) (cells : List Val) (i : Nat) :
    getPath (.arr e d cells) [.idx i] = cells[i]? := by
  unfold getPath
  cases cells[i]? <;> simp [getPath]

/-- Writing cell `i` of an array. -/
theorem setPath_arr_idx (e : Ty) (d : List (Int × Int)) (cells : List Val) (i : Nat) (nv : Val) (h : i < cells.length) :
    setPath (.arr e d cells) [.idx i] nv = some (.arr e d (cells.set i nv)) := by
  unfold setPath
  simp [List.getElem?_eq_getElem h, setPath]

/-! ### 4. random-file load -/

/-- Loading into a scalar gives a scalar of the same type. -/
theorem load_simple (defs : Codec.Defs) (cur nv : Val) (s r : Str) (hc : simple cur = true)
    (h : Codec.load defs cur s = some (nv, r)) : simple nv = true ∧ nv.ty = cur.ty := by
  cases cur <;> try (cases hc; done)
  all_goals
    simp only [Codec.load, bind, Option.bind, pure] at h
    repeat' (first | split at h | (dsimp only at h; split at h))
  all_goals first | (cases h; done) | (cases h; exact ⟨rfl, rfl⟩)

/-- Loading a list of scalars of type `ty` gives as many scalars of type `ty`. -/
theorem loadList_simple (defs : Codec.Defs) (ty : Ty) : ∀ (cells cs : List Val) (s r : Str),
    (∀ c ∈ cells, simple c = true ∧ c.ty = ty) → Codec.loadList defs cells s = some (cs, r) →
    cs.length = cells.length ∧ ∀ c ∈ cs, simple c = true ∧ c.ty = ty := by
  intro cells
  induction cells with
  | nil =>
    intro cs s r _ h
    simp only [Codec.loadList] at h
    cases h
    exact ⟨rfl, fun c hc => by cases hc⟩
  | cons v rest ih =>
    intro cs s r hall h
    simp only [Codec.loadList, bind, Option.bind, pure] at h
    split at h
    · cases h
    · rename_i p hp
      dsimp only at h
      split at h
      · cases h
      · rename_i q hq
        cases h
        obtain ⟨v', s1⟩ := p
        obtain ⟨rest', s2⟩ := q
        have hv := load_simple defs v v' s s1 (hall v (List.mem_cons_self ..)).1 hp
        have hr := ih rest' s1 s2 (fun c hc => hall c (List.mem_cons_of_mem _ hc)) hq
        refine ⟨by simp [hr.1], ?_⟩
        intro c hc
        rcases List.mem_cons.1 hc with rfl | hc
        · exact ⟨hv.1, hv.2.trans (hall v (List.mem_cons_self ..)).2⟩
        · exact hr.2 c hc

/-- Loading keeps the kind of a value: a scalar stays a scalar of the same type, a well-formed array stays an array
    of the same element type and dimensions with as many scalar cells. -/
theorem load_sameKind (defs : Codec.Defs) (cur nv : Val) (s r : Str) (hc : simple cur = true ∨ ∃ ty, ArrOK ty cur)
    (h : Codec.load defs cur s = some (nv, r)) : SameKind cur nv := by
  rcases hc with hc | ⟨ty, dims, cells, rfl, _, hall⟩
  · exact Or.inr (Or.inl ⟨hc, load_simple defs cur nv s r hc h⟩)
  · simp only [Codec.load, bind, Option.bind, pure] at h
    split at h
    · cases h
    · dsimp only at h
      split at h
      · cases h
      · dsimp only at h
        split at h
        · cases h
        · split at h
          · cases h
          · rename_i q hq
            dsimp only at h
            cases h
            have hr := loadList_simple defs ty cells q.1 _ q.2 hall hq
            exact Or.inr (Or.inr ⟨ty, dims, cells, q.1, rfl, rfl, hr.1, hr.2⟩)

/-! ### 5. built-in functions -/

/-- `m` leaves the state `σ` alone and ends with a scalar or a diagnostic (never a crash point) -/
abbrev Good (m : M Val) (σ : St) : Prop :=
  (m.run.run σ).2 = σ ∧
  match (m.run.run σ).1 with
  | .ok v => simple v = true
  | .error e => ∃ d, e = .diag d

/-- `Good` from a computed successful run -/
theorem good_of_ok {m : M Val} {σ : St} {v : Val} (h : m.run.run σ = (.ok v, σ)) (hv : simple v = true) : Good m σ := by
  unfold Good; rw [h]; exact ⟨rfl, hv⟩

/-- `Good` from a computed run that ends in a diagnostic -/
theorem good_of_diag {m : M Val} {σ : St} {d : Diag} (h : m.run.run σ = (.error (.diag d), σ)) : Good m σ := by
  unfold Good; rw [h]; exact ⟨rfl, d, rfl⟩

/-- LEFT / RIGHT / MID: a string, or the diagnostic of `rtErr0` -/
theorem good_liftStr (x : Except Msg Str) (σ : St) :
    Good (do let r ← liftMsg0 x; pure (Val.str r)) σ := by
  cases x with
  | ok a => exact good_of_ok (v := .str a) rfl rfl
  | error m =>
    obtain ⟨d, hd, _⟩ := rtErr0_run (α := Str) m σ
    exact good_of_diag (d := d) (by
      show ((rtErr0 m : M Str) >>= fun r => pure (Val.str r)).run.run σ = _
      rw [run_bind_err _ _ _ _ _ hd])

/-- SETDATE: a date, or the diagnostic of `rtErr0` -/
theorem good_setdate (d m y : Int) (σ : St) :
    Good (match Calendar.setDate d m y with
      | some t => pure (Val.date t)
      | none => rtErr0 .invalidDate) σ := by
  cases Calendar.setDate d m y with
  | some t => exact good_of_ok (v := .date t) rfl rfl
  | none =>
    obtain ⟨d, hd, _⟩ := rtErr0_run (α := Val) .invalidDate σ
    exact good_of_diag hd

/-- the file step of EOF(): a boolean and the same state, or the diagnostic of `rtErr0` -/
theorem doFile0_eof_run (f : Str) (σ : St) :
    (∃ b, (doFile0 (.eof f)).run.run σ = (.ok (.bool b), σ)) ∨
    (∃ d, (doFile0 (.eof f)).run.run σ = (.error (.diag d), σ)) := by
  unfold doFile0
  rw [run_bind_ok _ _ _ _ _ (run_get σ)]
  split
  · rename_i s' r heq
    obtain ⟨rfl, b, rfl⟩ := fstep_eof_state _ _ _ _ heq
    exact Or.inl ⟨b, rfl⟩
  · rename_i m _
    obtain ⟨d, hd, _⟩ := rtErr0_run (α := FRes) m σ
    exact Or.inr ⟨d, hd⟩

/-- EOF: a boolean, or the diagnostic of `rtErr0`; the crash branch is never taken -/
theorem good_eof (f : Str) (σ : St) :
    Good (do
      match ← doFile0 (.eof f) with
      | .bool b => pure (Val.bool b)
      | _ => throw (.crash .other)) σ := by
  rcases doFile0_eof_run f σ with ⟨b, hb⟩ | ⟨d, hd⟩
  · exact good_of_ok (v := .bool b) (by rw [run_bind_ok _ _ _ _ _ hb]; rfl) rfl
  · exact good_of_diag (d := d) (by rw [run_bind_err _ _ _ _ _ hd])

/-- a value of type STRING is built with `.str` -/
theorem ty_str (v : Val) (h : v.ty = .str) : ∃ x, v = .str x := by cases v <;> first | exact ⟨_, rfl⟩ | cases h
/-- a value of type INTEGER is built with `.int` -/
theorem ty_int (v : Val) (h : v.ty = .int) : ∃ x, v = .int x := by cases v <;> first | exact ⟨_, rfl⟩ | cases h
/-- a value of type REAL is built with `.real` -/
theorem ty_real (v : Val) (h : v.ty = .real) : ∃ x, v = .real x := by cases v <;> first | exact ⟨_, rfl⟩ | cases h
/-- a value of type CHAR is built with `.chr` -/
theorem ty_chr (v : Val) (h : v.ty = .chr) : ∃ x, v = .chr x := by cases v <;> first | exact ⟨_, rfl⟩ | cases h
/-- a value of type DATE is built with `.date` -/
theorem ty_date (v : Val) (h : v.ty = .date) : ∃ x, v = .date x := by cases v <;> first | exact ⟨_, rfl⟩ | cases h

/-- no parameter types: no arguments -/
theorem map_ty_nil (args : List Val) (h : args.map Val.ty = []) : args = [] := by
  cases args with
  | nil => rfl
  | cons a r => cases h

/-- one more parameter type: one more argument, of that type -/
theorem map_ty_cons (args : List Val) (t : Ty) (ts : List Ty) (h : args.map Val.ty = t :: ts) :
    ∃ x rest, args = x :: rest ∧ x.ty = t ∧ rest.map Val.ty = ts := by
  cases args with
  | nil => cases h
  | cons a r =>
    simp only [List.map, List.cons.injEq] at h
    exact ⟨a, r, rfl, h.1, h.2⟩

/-- the statement of `C01_builtin_total` for one table entry -/
abbrev BuiltinOK (e : String × List (String × Ty) × Ty) : Prop :=
  ∀ (args : List Val), args.map Val.ty = e.2.1.map (·.2) → ∀ σ : St, Good (runBuiltin e.1.toList args) σ

set_option hygiene false in
/-- one table entry: bring the arguments into constructor form, then the call reduces by computation -/
macro "builtin_case" : tactic => `(tactic| (
  intro args hty σ
  try simp only [List.map] at hty
  repeat
    obtain ⟨_, _, rfl, hh, hty2⟩ := map_ty_cons _ _ _ hty
    clear hty
    have hty := hty2
    clear hty2
    first
      | obtain ⟨_, rfl⟩ := ty_str _ hh
      | obtain ⟨_, rfl⟩ := ty_int _ hh
      | obtain ⟨_, rfl⟩ := ty_real _ hh
      | obtain ⟨_, rfl⟩ := ty_chr _ hh
      | obtain ⟨_, rfl⟩ := ty_date _ hh
    clear hh
  cases map_ty_nil _ hty
  first
    | exact ⟨rfl, rfl⟩
    | exact good_liftStr _ _
    | exact good_setdate _ _ _ _
    | exact good_eof _ _))

/-- every entry of `builtinTable` is total on well-typed arguments -/
theorem builtin_all : ∀ e ∈ builtinTable, BuiltinOK e := by
  simp only [builtinTable, List.forall_mem_cons, BuiltinOK]
  refine ⟨?_, ?_, ?_, ?_, ?_, ?_, ?_, ?_, ?_, ?_, ?_, ?_, ?_, ?_, ?_, ?_, ?_, ?_, ?_, ?_, ?_, ?_, ?_, ?_, ?_, ?_, ?_,
    ?_, ?_, ?_, ?_, ?_, ?_, ?_, ?_, ?_, ?_, ?_, fun _ h => by cases h⟩
  all_goals builtin_case

/-- Built-in functions never reach a crash point when their arguments have the declared parameter types:
    the state is unchanged, and the result is a scalar or a diagnostic. -/
theorem C01_builtin_total (n : String) (ps : List (String × Ty)) (rt : Ty) (hmem : (n, ps, rt) ∈ builtinTable)
    (args : List Val) (hty : args.map Val.ty = ps.map (·.2)) (σ : St) :
    ((runBuiltin n.toList args).run.run σ).2 = σ ∧
    match ((runBuiltin n.toList args).run.run σ).1 with
    | .ok v => simple v = true
    | .error e => ∃ d, e = .diag d :=
  builtin_all (n, ps, rt) hmem args hty σ

/-- non-vacuity of `C01_builtin_total`: LEFT("abc", 2) gives "ab", and LEFT("abc", 5) a diagnostic -/
example (σ : St) :
    ((runBuiltin "LEFT".toList [.str "abc".toList, .int 2]).run.run σ) = (.ok (.str "ab".toList), σ) ∧
    (∃ d, ((runBuiltin "LEFT".toList [.str "abc".toList, .int 5]).run.run σ).1 = .error (.diag d)) ∧
    ((runBuiltin "LEFT".toList [.str "abc".toList, .int 5]).run.run σ).2 = σ := by
  refine ⟨rfl, ?_, ?_⟩
  · obtain ⟨d, hd, _⟩ := rtErr0_run (α := Str) .strRange σ
    refine ⟨d, ?_⟩
    show (((rtErr0 .strRange : M Str) >>= fun r => pure (Val.str r)).run.run σ).1 = _
    rw [run_bind_err _ _ _ _ _ hd]
  · exact (C01_builtin_total "LEFT" [("String", .str), ("x", .int)] .str (by decide)
      [.str "abc".toList, .int 5] rfl σ).1

#print axioms C01_fres_shape
#print axioms C01_builtin_total
#print axioms load_sameKind
#print axioms setPath_of_getPath

end Pseudo.NC
