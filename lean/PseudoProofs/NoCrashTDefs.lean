import PseudoProofs.NoCrashPrims
/-!
# C01 with user-defined enum and pointer types (defined at top level): definitions

Second sublanguage: TYPE statements that define enum types (with at least one name) and pointer types are allowed **at top level**
(executed in the global activation; also inside IF / loops / CASE there), record types are not. Everything else as in
`NoCrashDefs.lean`. The value predicate becomes state-dependent: `ValOK σ v` — an enum value's index is below the number of
names of the (global) definition of its type; a pointer value's type is defined and its target, if set, lies in an activation
whose id is below the id counter and, while that activation lives, is a readable location holding a scalar of the pointer's
target type. Definitions only grow (`Ext.enums`, `Ext.ptrs`), enum names are unique (`GlobOK`).
-/
namespace Pseudo.NT
open Pseudo
open Pseudo.NC (ReadsIn ActRead ErrOK ErrNR NoCrash)

/-! ### the sublanguage -/

mutual
  /-- `top = true`: the statement runs in the global activation, where enum / pointer TYPE statements are allowed;
      the bodies of procedures and functions are checked with `top = false`; no record types -/
  def okStmt (top : Bool) : Stmt → Bool
    | .typeEnum _ _ vals => top && !vals.isEmpty
    | .typePtr _ _ _ => top
    | .typeRec _ _ _ => false
    | .ifs _ brs els => okBranches top brs && okOpt top els
    | .case _ _ cls => okClauses top cls
    | .while _ _ b => okBlock top b
    | .repeat _ b _ => okBlock top b
    | .for _ _ _ _ _ b => okBlock top b
    | .procDef _ _ _ b => okBlock false b
    | .funDef _ _ _ _ b => okBlock false b
    | _ => true
  def okBlock (top : Bool) : List Stmt → Bool
    | [] => true
    | s :: r => okStmt top s && okBlock top r
  def okBranches (top : Bool) : List (Expr × List Stmt) → Bool
    | [] => true
    | (_, b) :: r => okBlock top b && okBranches top r
  def okOpt (top : Bool) : Option (List Stmt) → Bool
    | none => true
    | some b => okBlock top b
  def okClause (top : Bool) : Clause → Bool
    | .eq _ b => okBlock top b
    | .range _ _ b => okBlock top b
    | .otherwise b => okBlock top b
  def okClauses (top : Bool) : List Clause → Bool
    | [] => true
    | c :: r => okClause top c && okClauses top r
end

/-- the side condition that goes with `top`: only the global activation is on the stack -/
def TopCond (top : Bool) (σ : St) : Prop := top = true → ∃ g, σ.acts = [g]

/-! ### values -/

/-- not a record, not an array -/
def Scal : Val → Bool
  | .comp _ _ | .arr _ _ _ => false
  | _ => true

/-- the enum / pointer definitions of the global activation -/
def genums (σ : St) : List (Str × List Str) := match σ.acts.getLast? with | some g => g.enums | none => []
def gptrs (σ : St) : List (Str × Ty) := match σ.acts.getLast? with | some g => g.ptrs | none => []

def enumLk (σ : St) (n : Str) : Option (List Str) := ((genums σ).find? (·.1 == n)).map (·.2)
def ptrLk (σ : St) (n : Str) : Option Ty := ((gptrs σ).find? (·.1 == n)).map (·.2)

/-- a type that a declaration can use: primitive, a defined enum type with at least one name, a defined pointer type -/
def TyWF (σ : St) : Ty → Prop
  | .enum n => ∃ vals, enumLk σ n = some vals ∧ vals ≠ []
  | .ptr n => ∃ tg, ptrLk σ n = some tg
  | .comp _ => False
  | _ => True

def Live (σ : St) (id : Nat) : Prop := ∃ a ∈ σ.acts, a.id = id

/-- the target of a pointer: its activation was created (id below the counter) and, while it lives, the location is readable
    and holds a scalar of the pointer's target type -/
def TgtOK (σ : St) (l : Loc) (tg : Ty) : Prop :=
  l.act < σ.nextId ∧ (Live σ l.act → ∃ w, ReadsIn σ.acts l w ∧ Scal w = true ∧ w.ty = tg)

/-- **the state-dependent value predicate** -/
def ValOK (σ : St) : Val → Prop
  | .enum n i => ∃ vals, enumLk σ n = some vals ∧ i < vals.length
  | .ptr n tgt => ∃ tg, ptrLk σ n = some tg ∧ ∀ l, tgt = some l → TgtOK σ l tg
  | .comp _ _ => False
  | .arr _ _ _ => False
  | _ => True

/-- a scalar of type `ty` that is well-formed in `σ` -/
def CellOK (σ : St) (ty : Ty) (c : Val) : Prop := Scal c = true ∧ c.ty = ty ∧ ValOK σ c

/-- a well-formed array of element type `ty` -/
def ArrOK (σ : St) (ty : Ty) (v : Val) : Prop :=
  ∃ dims cells, v = .arr ty dims cells ∧ cells.length = totalCells dims ∧ ∀ c ∈ cells, CellOK σ ty c

/-- what a store may replace a value by: a scalar by a scalar of the same type, an array by an array of the same
    element type and dimensions (whose cells are scalars of the element type) -/
def SameKind (v v' : Val) : Prop :=
  v' = v ∨ (Scal v = true ∧ Scal v' = true ∧ v'.ty = v.ty) ∨
  (∃ ty dims cs cs', v = .arr ty dims cs ∧ v' = .arr ty dims cs' ∧ cs'.length = cs.length ∧
      ∀ c ∈ cs', Scal c = true ∧ c.ty = ty)

/-! ### states -/

def SlotOK (σ : St) (deeper : List Act) (s : Slot) : Prop :=
  match s.ref with
  | none => CellOK σ s.ty s.val
  | some l => s.val = .none ∧ ∃ v, ReadsIn deeper l v ∧ Scal v = true ∧ v.ty = s.ty

def ArrSlotOK (σ : St) (s : Slot) : Prop := ArrOK σ s.ty s.val

structure ActOK (σ : St) (deeper : List Act) (a : Act) : Prop where
  vars : ∀ s ∈ a.vars, SlotOK σ deeper s
  arrs : ∀ s ∈ a.arrs, ArrSlotOK σ s
  enums : deeper ≠ [] → a.enums = []
  ptrs : deeper ≠ [] → a.ptrs = []
  comps : a.comps = []
  isComp : a.isComp = false
  retVal : ∀ v, a.retVal = some v → Scal v = true ∧ ValOK σ v

def StackOK (σ : St) : List Act → Prop
  | [] => True
  | a :: rest => ActOK σ rest a ∧ (∀ b ∈ rest, b.id ≠ a.id) ∧ StackOK σ rest

/-- the global definitions: an enum type has at least one name and is the first entry of its name; a pointer type's target is
    a usable type -/
structure GlobOK (σ : St) : Prop where
  enums : ∀ e ∈ genums σ, (genums σ).find? (·.1 == e.1) = some e ∧ e.2 ≠ []
  ptrs : ∀ p ∈ gptrs σ, TyWF σ p.2

def ParamsOK (σ : St) (ps : List (Str × Ty × Bool)) : Prop := ∀ p ∈ ps, TyWF σ p.2.1

def ProcOK (σ : St) (pd : ProcDef) : Prop := ParamsOK σ pd.params ∧ okBlock false pd.body = true

def FunOK (σ : St) (fd : FunDef) : Prop := ParamsOK σ fd.params ∧ ∃ b t, fd.body = .user b t ∧ okBlock false b = true

/-- **the invariant** -/
structure WF (σ : St) : Prop where
  ne : σ.acts ≠ []
  stack : StackOK σ σ.acts
  below : ∀ a ∈ σ.acts, a.id < σ.nextId
  procs : ∀ p ∈ σ.procs, ProcOK σ p
  funs : ∀ f ∈ σ.funs, FunOK σ f
  glob : GlobOK σ

/-- **before / after** -/
structure Ext (σ σ' : St) : Prop where
  ids : σ'.acts.map (fun a => (a.id, a.isFn)) = σ.acts.map (fun a => (a.id, a.isFn))
  nextId : σ.nextId ≤ σ'.nextId
  reads : ∀ l v, ReadsIn σ.acts l v → ∃ v', ReadsIn σ'.acts l v' ∧ SameKind v v'
  enums : genums σ <+: genums σ'
  ptrs : gptrs σ <+: gptrs σ'

/-- the shape of a well-formed array of element type `ty` (state-independent part of `ArrOK`) -/
def ArrSh (ty : Ty) (v : Val) : Prop :=
  ∃ dims cells, v = .arr ty dims cells ∧ cells.length = totalCells dims ∧ ∀ c ∈ cells, Scal c = true ∧ c.ty = ty

/-- a resolved reference: its location can be read; an array holder holds an array of its element type, a scalar holder a
    scalar of its type (that the value is `ValOK` follows from the invariant: `WF.reads_ok`) -/
def HolderOK (σ : St) (h : Holder) : Prop :=
  ∃ v, ReadsIn σ.acts h.loc v ∧ (if h.isArr = true then ArrSh h.ty v else Scal v = true ∧ v.ty = h.ty)

end Pseudo.NT
