import PseudoModel.Lexer
import PseudoProofs.ParseFuel
/-!
# PseudoProofs.ParseFuelLex — every token list produced by the lexer ends in the end marker
(the hypothesis `EndsEOF` of the fuel bound of `PseudoProofs/ParseFuel.lean`)
-/
namespace Pseudo.ParseFuel
open Pseudo

/-- a lexer result that, if it is a token list (newest first), starts with the end marker -/
def HeadEOF : Except Diag (List Tok) → Prop
  | .ok l => ∃ t rest, l = t :: rest ∧ t.k = .EXPRESSION_END
  | .error _ => True

theorem HeadEOF.ite (c : Prop) [Decidable c] {x y : Except Diag (List Tok)} (h1 : HeadEOF x) (h2 : HeadEOF y) :
    HeadEOF (if c then x else y) := by
  by_cases h : c <;> simp only [h, if_true, if_false] <;> assumption

theorem lexLoop_headEOF (cfg : LexCfg) : ∀ (n : Nat) (c : Cur) (prev : Option Char) (acc : List Tok),
    HeadEOF (lexLoop cfg n c prev acc) := by
  intro n
  induction n with
  | zero => intro c prev acc; exact ⟨_, _, rfl, rfl⟩
  | succ n ih =>
    intro c prev acc
    obtain ⟨cs, l, k, la⟩ := c
    cases cs with
    | nil => exact ⟨_, _, rfl, rfl⟩
    | cons ch rest =>
      simp only [lexLoop]
      repeat' (first | exact ih _ _ _ | exact True.intro | apply HeadEOF.ite)
      · generalize makeChar _ = r
        match r with
        | .error e => exact True.intro
        | .ok (t, c1) => exact ih _ _ _
      · generalize makeString _ = r
        match r with
        | .error e => exact True.intro
        | .ok (t, c1) => exact ih _ _ _
      · generalize makeWord _ _ = r
        match r with
        | .error e => exact True.intro
        | .ok (t, c1) => exact ih _ _ _

/-- **every token list produced by the lexer ends in the end marker** -/
theorem lex_endsEOF (cfg : LexCfg) (src : List Char) (toks : List Tok) (h : lex cfg src = .ok toks) :
    EndsEOF toks := by
  unfold lex at h
  dsimp only at h
  have h1 := lexLoop_headEOF cfg ((src.filter (· != '\r')).length + 1) (Cur.init (src.filter (· != '\r'))) none []
  revert h h1
  generalize lexLoop cfg _ _ _ _ = r
  intro h h1
  cases r with
  | error e => cases h
  | ok l =>
    obtain ⟨t, rest, rfl, hk⟩ := h1
    cases h
    intro x hx
    simp at hx
    rw [← hx]; exact hk

/-- ... and hence is not empty -/
theorem lex_ne_nil (cfg : LexCfg) (src : List Char) (toks : List Tok) (h : lex cfg src = .ok toks) :
    toks ≠ [] := by
  unfold lex at h
  dsimp only at h
  have h1 := lexLoop_headEOF cfg ((src.filter (· != '\r')).length + 1) (Cur.init (src.filter (· != '\r'))) none []
  revert h h1
  generalize lexLoop cfg _ _ _ _ = r
  intro h h1
  cases r with
  | error e => cases h
  | ok l =>
    obtain ⟨t, rest, rfl, hk⟩ := h1
    cases h
    simp

end Pseudo.ParseFuel
