import PseudoProofs.NoCrashL
import PseudoProofs.NoCrashRPath
/-!
# C01 with TYPE statements anywhere: values of global types move between scopes

* `Local.of_global` / `Good.of_global`: a value that is fine in the global scope is fine in every scope (local names are disjoint
  from the global ones);
* `Good.to_global`: a value that is fine in some scope and whose type is global is fine in the global scope (the members of a
  global record type have global types, and so on down every path).
-/
namespace Pseudo.NL
open Pseudo
open Pseudo.NC (ReadsIn ActRead getPath_nil)
open Pseudo.NR (litDims declStmt declBody NArr Kind kind SameKind sigOf SigDefined Live genums gptrs gcomps kind_val_narr
  kind_of_narr kind_arr_inv stepVal getPath_cons_some)

variable {σ : St}

/-! ### the stack -/

theorem StackOK.find_mem {acts : List Act} {b : Act} (h : StackOK σ acts) (hb : b ∈ acts) :
    acts.find? (·.id == b.id) = some b := by
  induction acts with
  | nil => cases hb
  | cons c rest ih =>
    rcases List.mem_cons.1 hb with rfl | hb
    · simp [List.find?]
    · have : (c.id == b.id) = false := by
        have := h.2.1 b hb
        simpa using fun e => this e.symm
      rw [List.find?, this]
      exact ih h.2.2 hb

theorem WF.actOf_mem (hW : WF σ) {a : Act} (ha : a ∈ σ.acts) : actOf σ a.id = some a := hW.stack.find_mem ha

theorem WF.lenums_of (hW : WF σ) {a : Act} (ha : a ∈ σ.acts) : lenums σ a.id = a.enums := by unfold NL.lenums; rw [hW.actOf_mem ha]
theorem WF.lptrs_of (hW : WF σ) {a : Act} (ha : a ∈ σ.acts) : lptrs σ a.id = a.ptrs := by unfold NL.lptrs; rw [hW.actOf_mem ha]
theorem WF.lcomps_of (hW : WF σ) {a : Act} (ha : a ∈ σ.acts) : lcomps σ a.id = a.comps := by unfold NL.lcomps; rw [hW.actOf_mem ha]

/-- an activation of a well-formed stack with the activations below it -/
theorem StackOK.split {acts : List Act} {a : Act} (h : StackOK σ acts) (ha : a ∈ acts) :
    ∃ pre deeper, acts = pre ++ a :: deeper ∧ ActOK σ (scopeOfL (gid σ) (a :: deeper)) deeper a := by
  induction acts with
  | nil => cases ha
  | cons c rest ih =>
    rcases List.mem_cons.1 ha with rfl | ha
    · exact ⟨[], rest, rfl, h.1⟩
    · obtain ⟨pre, deeper, h1, h2⟩ := ih h.2.2 ha
      exact ⟨c :: pre, deeper, by rw [h1]; rfl, h2⟩

theorem WF.glast (hW : WF σ) : ∃ g, σ.acts.getLast? = some g ∧ g ∈ σ.acts ∧ g.id = gid σ ∧ genums σ = g.enums ∧ gptrs σ = g.ptrs ∧
    gcomps σ = g.comps := by
  cases h : σ.acts.getLast? with
  | none => exact absurd (List.getLast?_eq_none_iff.1 h) hW.ne
  | some g =>
    refine ⟨g, rfl, List.mem_of_getLast? h, ?_, ?_, ?_, ?_⟩
    · unfold NL.gid; rw [h]
    · unfold NR.genums; rw [h]
    · unfold NR.gptrs; rw [h]
    · unfold NR.gcomps; rw [h]

theorem WF.lenums_gid (hW : WF σ) : lenums σ (gid σ) = genums σ := by
  obtain ⟨g, _, hg, hid, he, _, _⟩ := hW.glast; rw [← hid, hW.lenums_of hg, he]
theorem WF.lptrs_gid (hW : WF σ) : lptrs σ (gid σ) = gptrs σ := by
  obtain ⟨g, _, hg, hid, _, hp, _⟩ := hW.glast; rw [← hid, hW.lptrs_of hg, hp]
theorem WF.lcomps_gid (hW : WF σ) : lcomps σ (gid σ) = gcomps σ := by
  obtain ⟨g, _, hg, hid, _, _, hc⟩ := hW.glast; rw [← hid, hW.lcomps_of hg, hc]

/-- the invariant of the global activation -/
theorem WF.globOK (hW : WF σ) : ∃ g, σ.acts.getLast? = some g ∧ g ∈ σ.acts ∧ g.id = gid σ ∧ ActOK σ (gid σ) [] g := by
  obtain ⟨g, hl, hg, hid, _⟩ := hW.glast
  obtain ⟨pre, deeper, h1, h2⟩ := hW.stack.split hg
  have hd : deeper = [] := by
    cases deeper with
    | nil => rfl
    | cons b r =>
      exfalso
      rw [h1] at hl
      have hl' : (pre ++ g :: b :: r).getLast? = (b :: r).getLast? := by
        rw [List.getLast?_append, List.getLast?_cons_cons]
        cases h : (b :: r).getLast? with
        | none => simp at h
        | some z => rfl
      rw [hl'] at hl
      have hbm : g ∈ b :: r := List.mem_of_getLast? hl
      -- ids are distinct
      have hst : StackOK σ (g :: b :: r) := by
        have := hW.stack
        rw [h1] at this
        clear h1 h2 hl hl' hg
        induction pre with
        | nil => exact this
        | cons p ps ih => exact ih this.2.2
      exact hst.2.1 g hbm rfl
  subst hd
  refine ⟨g, hl, hg, hid, ?_⟩
  have hc : g.isComp = false := h2.glob rfl
  have : scopeOfL (gid σ) [g] = gid σ := by unfold scopeOfL; simp [hc, hid]
  rw [this] at h2; exact h2

/-- the names defined in a live activation other than the global one are not names of global types -/
theorem WF.disj (hW : WF σ) {a : Act} (ha : a ∈ σ.acts) (hne : a.id ≠ gid σ) : ∀ n, Defines a n → GFresh σ n := by
  obtain ⟨pre, deeper, h1, h2⟩ := hW.stack.split ha
  refine h2.disj ?_
  rintro rfl
  obtain ⟨g, hl, _, hid, _⟩ := hW.glast
  rw [h1] at hl
  simp at hl
  exact hne (by rw [← hid, hl])

theorem WF.defsOK (hW : WF σ) {a : Act} (ha : a ∈ σ.acts) : DefsOK σ a := by
  obtain ⟨_, _, _, h2⟩ := hW.stack.split ha
  exact h2.defs

/-! ### lookups of global names -/

theorem lk_self {γ : Type} (l : List (Str × γ)) (n : Str) : lk l l n = l.find? (·.1 == n) := by
  unfold lk; cases h : l.find? (·.1 == n) <;> rfl

theorem WF.enumDef_gid (hW : WF σ) (n : Str) : enumDef σ (gid σ) n = (genums σ).find? (·.1 == n) := by
  unfold enumDef; rw [hW.lenums_gid, lk_self]
theorem WF.ptrDef_gid (hW : WF σ) (n : Str) : ptrDef σ (gid σ) n = (gptrs σ).find? (·.1 == n) := by
  unfold ptrDef; rw [hW.lptrs_gid, lk_self]
theorem WF.compDef_gid (hW : WF σ) (n : Str) : compDef σ (gid σ) n = (gcomps σ).find? (·.1 == n) := by
  unfold compDef; rw [hW.lcomps_gid, lk_self]

theorem WF.compLk_gid (hW : WF σ) (n : Str) :
    compLk σ (gid σ) n = ((gcomps σ).find? (·.1 == n)).map fun x => (x.2, gid σ) := by
  unfold compLk; rw [hW.lcomps_gid]
  cases (gcomps σ).find? (·.1 == n) <;> rfl

/-- in a scope, a name that some global definition carries is not defined locally -/
theorem WF.local_none (hW : WF σ) {k : Nat} (hk : SV σ k) (hne : k ≠ gid σ) {n : Str} (hg : ¬ GFresh σ n) :
    (lenums σ k).find? (·.1 == n) = none ∧ (lptrs σ k).find? (·.1 == n) = none ∧ (lcomps σ k).find? (·.1 == n) = none := by
  rcases hk with hk | ⟨a, ha, rfl, _⟩
  · exact absurd hk hne
  · rw [hW.lenums_of ha, hW.lptrs_of ha, hW.lcomps_of ha]
    have hd := hW.disj ha hne n
    refine ⟨?_, ?_, ?_⟩
    · cases h : a.enums.find? (·.1 == n) with
      | none => rfl
      | some x => exact absurd (hd (Or.inl (by rw [h]; rfl))) hg
    · cases h : a.ptrs.find? (·.1 == n) with
      | none => rfl
      | some x => exact absurd (hd (Or.inr (Or.inl (by rw [h]; rfl)))) hg
    · cases h : a.comps.find? (·.1 == n) with
      | none => rfl
      | some x => exact absurd (hd (Or.inr (Or.inr (by rw [h]; rfl)))) hg

theorem WF.enumDef_global (hW : WF σ) {k : Nat} (hk : SV σ k) {n : Str} {x : Str × List Str}
    (hg : (genums σ).find? (·.1 == n) = some x) : enumDef σ k n = some x := by
  by_cases hne : k = gid σ
  · rw [hne, hW.enumDef_gid]; exact hg
  · have := (hW.local_none hk hne (n := n) (fun hf => by rw [hf.1] at hg; cases hg)).1
    unfold enumDef lk; rw [this]; exact hg

theorem WF.ptrDef_global (hW : WF σ) {k : Nat} (hk : SV σ k) {n : Str} {x : Str × Ty}
    (hg : (gptrs σ).find? (·.1 == n) = some x) : ptrDef σ k n = some x := by
  by_cases hne : k = gid σ
  · rw [hne, hW.ptrDef_gid]; exact hg
  · have := (hW.local_none hk hne (n := n) (fun hf => by rw [hf.2.1] at hg; cases hg)).2.1
    unfold ptrDef lk; rw [this]; exact hg

theorem WF.compLk_global (hW : WF σ) {k : Nat} (hk : SV σ k) {n : Str} {x : Str × Block}
    (hg : (gcomps σ).find? (·.1 == n) = some x) : compLk σ k n = some (x.2, gid σ) := by
  by_cases hne : k = gid σ
  · rw [hne, hW.compLk_gid, hg]; rfl
  · have := (hW.local_none hk hne (n := n) (fun hf => by rw [hf.2.2] at hg; cases hg)).2.2
    unfold compLk; rw [this, hg]; rfl

theorem WF.compDef_global (hW : WF σ) {k : Nat} (hk : SV σ k) {n : Str} {x : Str × Block}
    (hg : (gcomps σ).find? (·.1 == n) = some x) : compDef σ k n = some x := by
  by_cases hne : k = gid σ
  · rw [hne, hW.compDef_gid]; exact hg
  · have := (hW.local_none hk hne (n := n) (fun hf => by rw [hf.2.2] at hg; cases hg)).2.2
    unfold compDef lk; rw [this]; exact hg

theorem tyG_enum (hW : WF σ) {n : Str} (h : TyG σ (.enum n)) : ∃ x, (genums σ).find? (·.1 == n) = some x := by
  obtain ⟨vals, h⟩ := h
  unfold enumLk at h
  rw [hW.enumDef_gid] at h
  cases hf : (genums σ).find? (·.1 == n) with
  | none => rw [hf] at h; cases h
  | some x => exact ⟨x, rfl⟩

theorem tyG_ptr (hW : WF σ) {n : Str} (h : TyG σ (.ptr n)) : ∃ x, (gptrs σ).find? (·.1 == n) = some x := by
  obtain ⟨vals, h⟩ := h
  unfold ptrLk at h
  rw [hW.ptrDef_gid] at h
  cases hf : (gptrs σ).find? (·.1 == n) with
  | none => rw [hf] at h; cases h
  | some x => exact ⟨x, rfl⟩

theorem tyG_comp (hW : WF σ) {n : Str} (h : TyG σ (.comp n)) : ∃ x, (gcomps σ).find? (·.1 == n) = some x := by
  obtain ⟨vals, h⟩ := h
  rw [hW.compLk_gid] at h
  cases hf : (gcomps σ).find? (·.1 == n) with
  | none => rw [hf] at h; cases h
  | some x => exact ⟨x, rfl⟩

/-- the target type of a global pointer type is global -/
theorem WF.gptr_target (hW : WF σ) {x : Str × Ty} (hx : x ∈ gptrs σ) : TyG σ x.2 := by
  obtain ⟨g, _, hg, hid, _, hp, _⟩ := hW.glast
  have := (hW.defsOK hg).ptrs x (hp ▸ hx)
  rw [hid] at this; exact this

/-- a global type is defined in every scope -/
theorem TyG.tyDef (hW : WF σ) {k : Nat} (hk : SV σ k) {ty : Ty} (h : TyG σ ty) : TyDef σ k ty := by
  cases ty <;> try exact h
  · obtain ⟨x, hx⟩ := tyG_enum hW h
    exact ⟨x.2, by unfold enumLk; rw [hW.enumDef_global hk hx]; rfl⟩
  · obtain ⟨x, hx⟩ := tyG_ptr hW h
    exact ⟨x.2, by unfold ptrLk; rw [hW.ptrDef_global hk hx]; rfl⟩
  · obtain ⟨x, hx⟩ := tyG_comp hW h
    exact ⟨_, hW.compLk_global hk hx⟩

/-! ### from the global scope to any scope -/

theorem TgtOK.of_global (_hW : WF σ) {k : Nat} {l : Loc} {tg : Ty} (hg : TyG σ tg) (h : TgtOK σ (gid σ) l tg) :
    TgtOK σ k l tg := ⟨h.1, fun hl => ⟨(h.2 hl).1, Or.inl hg⟩⟩

/-- **a node that is fine in the global scope is fine in every scope** -/
theorem Local.of_global (hW : WF σ) {k : Nat} (hk : SV σ k) {w : Val} (h : Local σ (gid σ) w) : Local σ k w := by
  cases w <;> try exact h
  · rename_i n i
    obtain ⟨vals, h1, h2⟩ := h
    unfold enumLk at h1
    rw [hW.enumDef_gid] at h1
    cases hf : (genums σ).find? (·.1 == n) with
    | none => rw [hf] at h1; cases h1
    | some x =>
      rw [hf] at h1
      exact ⟨vals, by unfold enumLk; rw [hW.enumDef_global hk hf]; exact h1, h2⟩
  · rename_i n tgt
    obtain ⟨tg, h1, h2⟩ := h
    unfold ptrLk at h1
    rw [hW.ptrDef_gid] at h1
    cases hf : (gptrs σ).find? (·.1 == n) with
    | none => rw [hf] at h1; cases h1
    | some x =>
      rw [hf] at h1
      have htg : TyG σ tg := by
        have := hW.gptr_target (List.mem_of_find?_eq_some hf)
        simp only [Option.map_some, Option.some.injEq] at h1
        rw [← h1]; exact this
      exact ⟨tg, by unfold ptrLk; rw [hW.ptrDef_global hk hf]; exact h1, fun l hl => (h2 l hl).of_global hW htg⟩
  · rename_i n fs
    obtain ⟨body, k', h1, h2, h3⟩ := h
    rw [hW.compLk_gid] at h1
    cases hf : (gcomps σ).find? (·.1 == n) with
    | none => rw [hf] at h1; cases h1
    | some x =>
      rw [hf] at h1
      exact ⟨body, k', by rw [hW.compLk_global hk hf]; exact h1, h2, h3⟩

theorem Good.of_global (hW : WF σ) {k : Nat} (hk : SV σ k) {v : Val} (h : Good σ (gid σ) v) : Good σ k v :=
  fun p w hp => (h p w hp).of_global hW hk

/-! ### from a scope to the global scope -/

theorem typeOfTok_def (k : Nat) (t : Tok) : TyDef σ k (typeOfTok σ k t) := by
  unfold typeOfTok
  split
  · repeat' split
    all_goals trivial
  · cases hf : enumDef σ k t.val with
    | some x =>
      obtain ⟨n, vals⟩ := x
      have hk : n = t.val := lk_key hf
      subst hk
      exact ⟨vals, by unfold enumLk; rw [hf]; rfl⟩
    | none =>
      dsimp only
      cases hp : ptrDef σ k t.val with
      | some x =>
        obtain ⟨n, tg⟩ := x
        have hk : n = t.val := lk_key hp
        subst hk
        exact ⟨tg, by unfold ptrLk; rw [hp]; rfl⟩
      | none =>
        dsimp only
        cases hc : compDef σ k t.val with
        | some x =>
          obtain ⟨n, b⟩ := x
          have hk : n = t.val := lk_key hc
          unfold compDef lk at hc
          show ∃ b, compLk σ k n = some b
          rw [hk]
          unfold compLk
          cases hl : (lcomps σ k).find? (·.1 == t.val) with
          | some y => exact ⟨_, rfl⟩
          | none =>
            rw [hl] at hc
            dsimp only at hc ⊢
            rw [hc]; exact ⟨_, rfl⟩
        | none => trivial

/-- a kind over a type that is defined in scope `k` -/
def KD (σ : St) (k : Nat) : Kind → Prop
  | .val ty => TyDef σ k ty
  | .arr e _ => TyDef σ k e

theorem scalSig_kd (k : Nat) : ∀ body : List Stmt, ∀ s ∈ scalSig σ k body, KD σ k s.2
  | [], _, h => by cases h
  | st :: r, s, h => by
    cases st with
    | declare t ids tyTok =>
      simp only [scalSig] at h
      rcases List.mem_append.1 h with h | h
      · obtain ⟨id, _, rfl⟩ := List.mem_map.1 h
        exact typeOfTok_def k tyTok
      · exact scalSig_kd k r s h
    | _ => simp only [scalSig] at h; exact scalSig_kd k r s h

theorem arrSig_kd (k : Nat) : ∀ body : List Stmt, ∀ s ∈ arrSig σ k body, KD σ k s.2
  | [], _, h => by cases h
  | st :: r, s, h => by
    cases st with
    | declareArr t ids tyTok bounds =>
      simp only [arrSig] at h
      rcases List.mem_append.1 h with h | h
      · cases hb : litDims bounds with
        | none => rw [hb] at h; cases h
        | some d =>
          rw [hb] at h
          obtain ⟨id, _, rfl⟩ := List.mem_map.1 h
          exact typeOfTok_def k tyTok
      · exact arrSig_kd k r s h
    | _ => simp only [arrSig] at h; exact arrSig_kd k r s h

theorem memSig_kd (k : Nat) (body : List Stmt) : ∀ s ∈ memSig σ k body, KD σ k s.2 := by
  intro s h
  unfold memSig at h
  rcases List.mem_append.1 h with h | h
  · exact scalSig_kd k body s h
  · exact arrSig_kd k body s h

theorem kd_gid {kd : Kind} (h : KD σ (gid σ) kd) : KG σ kd := by cases kd <;> exact h

/-- the children of a node of a global type have global types -/
theorem child_kg (hW : WF σ) {k : Nat} (hk : SV σ k) {v y : Val} {st : Step} (hl : Local σ k v) (hg : KG σ (kind v))
    (hy : stepVal v st = some y) : KG σ (kind y) := by
  cases v with
  | comp n fs =>
    cases st with
    | idx i => simp [stepVal] at hy
    | field m =>
      obtain ⟨body, k', h1, h2, h3⟩ := hl
      obtain ⟨x, hx⟩ := tyG_comp hW (show TyG σ (.comp n) from hg)
      rw [hW.compLk_global hk hx] at h1
      simp only [Option.some.injEq, Prod.mk.injEq] at h1
      obtain ⟨_, rfl⟩ := h1
      simp only [stepVal] at hy
      cases hm : memberKind fs m with
      | none => rw [hm] at hy; cases hy
      | some b =>
        rw [hm] at hy
        obtain ⟨x, hmem, rfl⟩ := NR.findField_mem hy
        have : sigOf x ∈ fs.map sigOf := List.mem_map.2 ⟨_, hmem, rfl⟩
        rw [h2] at this
        exact kd_gid (memSig_kd _ body _ this)
  | arr e d cells =>
    cases st with
    | field m => simp [stepVal] at hy
    | idx i =>
      simp only [stepVal] at hy
      have hmem : y ∈ cells := List.mem_of_getElem? hy
      rw [hl.2 y hmem]
      exact hg
  | _ => cases st <;> simp [stepVal] at hy

/-- a node of a global type that is fine in scope `k` is fine in the global scope -/
theorem Local.to_global (hW : WF σ) {k : Nat} (hk : SV σ k) {w : Val} (h : Local σ k w) (hg : KG σ (kind w)) :
    Local σ (gid σ) w := by
  cases w <;> try exact h
  · rename_i n i
    obtain ⟨vals, h1, h2⟩ := h
    obtain ⟨x, hx⟩ := tyG_enum hW (show TyG σ (.enum n) from hg)
    unfold enumLk at h1
    rw [hW.enumDef_global hk hx] at h1
    exact ⟨vals, by unfold enumLk; rw [hW.enumDef_gid, hx]; exact h1, h2⟩
  · rename_i n tgt
    obtain ⟨tg, h1, h2⟩ := h
    obtain ⟨x, hx⟩ := tyG_ptr hW (show TyG σ (.ptr n) from hg)
    unfold ptrLk at h1
    rw [hW.ptrDef_global hk hx] at h1
    have htg : TyG σ tg := by
      have := hW.gptr_target (List.mem_of_find?_eq_some hx)
      simp only [Option.map_some, Option.some.injEq] at h1
      rw [← h1]; exact this
    exact ⟨tg, by unfold ptrLk; rw [hW.ptrDef_gid, hx]; exact h1, fun l hl => ⟨(h2 l hl).1, fun hL => ⟨((h2 l hl).2 hL).1, Or.inl htg⟩⟩⟩
  · rename_i n fs
    obtain ⟨body, k', h1, h2, h3⟩ := h
    obtain ⟨x, hx⟩ := tyG_comp hW (show TyG σ (.comp n) from hg)
    rw [hW.compLk_global hk hx] at h1
    exact ⟨body, k', by rw [hW.compLk_gid, hx]; exact h1, h2, h3⟩

/-- **a value of a global type that is fine in scope `k` is fine in the global scope** -/
theorem Good.to_global (hW : WF σ) {k : Nat} (hk : SV σ k) : ∀ (p : List Step) {v w : Val}, Good σ k v → KG σ (kind v) →
    getPath v p = some w → Local σ (gid σ) w ∧ KG σ (kind w)
  | [], v, w, hv, hg, hp => by
    rw [getPath_nil] at hp; cases hp
    exact ⟨(hv [] v (getPath_nil v)).to_global hW hk hg, hg⟩
  | st :: q, v, w, hv, hg, hp => by
    obtain ⟨y, hy, hq⟩ := getPath_cons_some.1 hp
    have hvy : Good σ k y := fun q' u hu => hv (st :: q') u (getPath_cons_some.2 ⟨y, hy, hu⟩)
    exact Good.to_global hW hk q hvy (child_kg hW hk (hv [] v (getPath_nil v)) hg hy) hq

theorem Good.toG (hW : WF σ) {k : Nat} (hk : SV σ k) {v : Val} (hv : Good σ k v) (hg : KG σ (kind v)) : Good σ (gid σ) v :=
  fun p _ hp => (Good.to_global hW hk p hv hg hp).1

/-- a value of a global type moves between scopes -/
theorem Good.move (hW : WF σ) {k k' : Nat} (hk : SV σ k) (hk' : SV σ k') {v : Val} (hv : Good σ k v) (hg : KG σ (kind v)) :
    Good σ k' v := (hv.toG hW hk hg).of_global hW hk'

/-- the root of a value that is fine in the global scope has a global type -/
theorem Local.kg_root (_hW : WF σ) {w : Val} (h : Local σ (gid σ) w) (hn : NArr w = true) : KG σ (kind w) := by
  cases w <;> try trivial
  · obtain ⟨vals, h1, _⟩ := h; exact ⟨vals, h1⟩
  · obtain ⟨tg, h1, _⟩ := h; exact ⟨tg, h1⟩
  · obtain ⟨body, k', h1, _⟩ := h; exact ⟨_, h1⟩

end Pseudo.NL
