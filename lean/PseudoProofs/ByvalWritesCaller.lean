import Properties.C04Frame
import PseudoProofs.ByvalWritesDefs
/-!
# BYVAL: a non-global caller's variables after an all-BYVAL call — the pointer-free case

`ptrFree v` (executable): the value contains no pointer at any depth; `actPtrFree a`: no variable / array of `a` is a BYREF alias
or holds a pointer, no pending RETURN value holds one.  Such values and activations satisfy the `NoPtr k` / `ActClosed k`
hypotheses of `C04_frame_byval_call_vars` for every `k` (`noPtr_of_ptrFree`, `actClosed_of_ptrFree`).
`call_byval_caller_reads`: then every location of the caller's activation reads after the call what it read before.
-/
namespace Pseudo
namespace ByvalWrites
open ArrayLemmas C07Copy CallLemmas RecordLemmas RecordReturn Frame

mutual
/-- the value contains no pointer at all (at any depth) -/
def ptrFree : Val → Bool
  | .ptr _ _ => false
  | .comp _ fs => ptrFreeFs fs
  | .arr _ _ cs => ptrFreeL cs
  | _ => true
def ptrFreeFs : List (Str × Val) → Bool
  | [] => true
  | (_, v) :: r => ptrFree v && ptrFreeFs r
def ptrFreeL : List Val → Bool
  | [] => true
  | v :: r => ptrFree v && ptrFreeL r
end

mutual
theorem noPtr_of_ptrFree (k : Nat) : ∀ v : Val, ptrFree v = true → NoPtr k v
  | .ptr _ _, h => by simp [ptrFree] at h
  | .comp ty fs, h => by
    rw [ptrFree] at h
    exact noPtr_comp (noPtr_of_ptrFreeFs k fs h)
  | .arr e d cs, h => by
    rw [ptrFree] at h
    exact noPtr_arr (noPtr_of_ptrFreeL k cs h)
  | .none, _ => noPtr_none
  | .int _, _ => noPtr_int _
  | .real _, _ => noPtr_real _
  | .bool _, _ => noPtr_bool _
  | .chr _, _ => noPtr_chr _
  | .str _, _ => noPtr_str _
  | .date _, _ => noPtr_date _
  | .enum _ _, _ => noPtr_enum _ _
theorem noPtr_of_ptrFreeFs (k : Nat) : ∀ fs : List (Str × Val), ptrFreeFs fs = true → ∀ p ∈ fs, NoPtr k p.2
  | [], _, p, hp => by cases hp
  | (n, v) :: r, h, p, hp => by
    rw [ptrFreeFs, Bool.and_eq_true] at h
    rcases List.mem_cons.1 hp with hp | hp
    · rw [hp]; exact noPtr_of_ptrFree k v h.1
    · exact noPtr_of_ptrFreeFs k r h.2 p hp
theorem noPtr_of_ptrFreeL (k : Nat) : ∀ cs : List Val, ptrFreeL cs = true → ∀ v ∈ cs, NoPtr k v
  | [], _, v, hv => by cases hv
  | c :: r, h, v, hv => by
    rw [ptrFreeL, Bool.and_eq_true] at h
    rcases List.mem_cons.1 hv with hv | hv
    · rw [hv]; exact noPtr_of_ptrFree k c h.1
    · exact noPtr_of_ptrFreeL k r h.2 v hv
end

/-- no variable / array of `a` is a BYREF alias or holds a pointer; no pending RETURN value holds one -/
def actPtrFree (a : Act) : Bool :=
  a.vars.all (fun s => s.ref.isNone && ptrFree s.val) && a.arrs.all (fun s => s.ref.isNone && ptrFree s.val) &&
  (match a.retVal with
   | some v => ptrFree v
   | none => true)

theorem slotClosed_of_ptrFree (k : Nat) (s : Slot) (h : (s.ref.isNone && ptrFree s.val) = true) : SlotClosed k s := by
  rw [Bool.and_eq_true] at h
  refine ⟨fun l hl => ?_, noPtr_of_ptrFree k _ h.2⟩
  rw [hl] at h
  exact absurd h.1 (by simp)

theorem actClosed_of_ptrFree (k : Nat) (a : Act) (h : actPtrFree a = true) : ActClosed k a := by
  unfold actPtrFree at h
  rw [Bool.and_eq_true, Bool.and_eq_true, List.all_eq_true, List.all_eq_true] at h
  refine ⟨fun s hs => slotClosed_of_ptrFree k s (h.1.1 s hs), fun s hs => slotClosed_of_ptrFree k s (h.1.2 s hs), ?_⟩
  intro v hv
  have h3 := h.2
  rw [hv] at h3
  exact noPtr_of_ptrFree k v h3

/-- two states whose innermost activations have the same id, variables and arrays read the same at every location of it -/
theorem readLocP_of_head (σ σ' : St) (c c' : Act) (rest rest' : List Act) (h : σ.acts = c :: rest) (h' : σ'.acts = c' :: rest')
    (hid : c'.id = c.id) (hv : c'.vars = c.vars) (ha : c'.arrs = c.arrs) (l : Loc) (hl : l.act = c.id) :
    readLocP σ' l = readLocP σ l ∧ locConstP σ' l = locConstP σ l := by
  unfold readLocP locConstP
  have e1 : σ.acts.find? (·.id == l.act) = some c := by
    rw [h, List.find?_cons, hl]; simp
  have e2 : σ'.acts.find? (·.id == l.act) = some c' := by
    rw [h', List.find?_cons, hl, hid]; simp
  have e3 : slotOf c' l = slotOf c l := by
    unfold slotOf; rw [hv, ha]
  rw [e1, e2]
  simp only [e3]
  trivial

/-- **an all-BYVAL procedure call from a non-global caller in a pointer-free state**: every location of the caller's
    activation reads, after the call (any body, however it ends), what it read when the arguments had been evaluated -/
theorem call_byval_caller_reads (f : Nat) (t : Tok) (name : Str) (args : List Expr) (σ σ1 : St) (pd : ProcDef)
    (vals : List Val) (cur : Act) (rest : List Act)
    (hpd : σ.procs.find? (·.name == name) = some pd)
    (hbyval : ∀ p ∈ pd.params, p.2.2 = false)
    (hargs : (evalArgs f args []).run.run σ = (.ok vals, σ1))
    (hcur : σ1.acts = cur :: rest)
    (hne : rest ≠ [])
    (hglob : ∀ g, rest.getLast? = some g → g.id ≠ cur.id)
    (hbelow : cur.id < σ1.nextId)
    (hvals : ∀ v ∈ vals, ptrFree v = true)
    (hrest : ∀ a ∈ rest, actPtrFree a = true) :
    (∃ c' rest', ((callProc (f+1) t name args).run.run σ).2.acts = c' :: rest' ∧ c'.id = cur.id ∧ c'.vars = cur.vars ∧
      c'.arrs = cur.arrs) ∧
    ∀ l : Loc, l.act = cur.id →
      readLocP ((callProc (f+1) t name args).run.run σ).2 l = readLocP σ1 l ∧
      locConstP ((callProc (f+1) t name args).run.run σ).2 l = locConstP σ1 l := by
  obtain ⟨c', rest', h1, hid, hv, ha⟩ := C04_frame_byval_call_vars f t name args σ σ1 pd vals cur rest hpd hbyval hargs hcur hne
    hglob hbelow (fun v hv => noPtr_of_ptrFree _ v (hvals v hv)) (fun a ha _ => actClosed_of_ptrFree _ a (hrest a ha))
  exact ⟨⟨c', rest', h1, hid, hv, ha⟩, fun l hl => readLocP_of_head σ1 _ cur c' rest rest' hcur h1 hid hv ha l hl⟩

end ByvalWrites
end Pseudo
