import PseudoModel.Lexer
import PseudoProofs.ParseBlankLemmas
/-!
# C10 (parser half) — blank lines between statements do not change the parse

Property C10: "... inserting blank lines or full-line comments between statements ... never changes
[a program's] output, exit status or the kind of any error".  The lexer turns every line break into
one LINE_END token (`Properties/C10.lean`: blanks and comments produce no token), so `k` blank or
comment-only lines in front of a statement are `k` extra LINE_END tokens in front of the first token
of that statement.  Here: the parser does not see them.

Model: `P.skipNL`, `parseBlock`, `parse` of `PseudoModel/Parser.lean`.  `parseBlock` starts every
round of its loop with `P.skipNL`, which consumes a whole run of LINE_END tokens.

* `C10_skipNL_blank_lines` / `C10_skipNL_idem`: `P.skipNL` on `nls ++ toks` = `P.skipNL` on `toks`
  (result *and* state, i.e. remaining input and warnings).
* `C10_block_leading_blank_lines`: the same for one call of `parseBlock` with any positive fuel, any
  block kind (including the CASE look-ahead: it runs after `P.skipNL`), any accumulator (so: at
  *every* round of the statement loop, not only in front of the first statement).
* `C10_block_trailing_blank_lines`: blank lines in front of a block terminator (ENDIF, ELSE, UNTIL,
  NEXT, ENDCASE, OTHERWISE, ENDWHILE, ENDPROCEDURE, ENDFUNCTION, end of input) — the same lemma, with
  the value spelled out.
* `C10_parseWith_leading_blank_lines`: whole program, same explicit fuel on both sides, unconditional.
* `C10_parseWith_more_fuel`: more fuel does not change a parse that did not run out of fuel
  (from the fuel-monotonicity of every parser function, `PseudoProofs/ParseBlankLemmas.lean`).
* `C10_leading_blank_lines`: `parse cfg (nls ++ toks) = parse cfg toks`, for the real `parse`, whose
  fuel `parseFuel` grows with the number of tokens; hypothesis: `parse cfg toks` is not the
  out-of-fuel diagnostic.

The extra tokens are any list `nls` of tokens of kind LINE_END (blank lines in a real source have
different line numbers); `List.replicate k nl` is the special case `C10_*_replicate`.

Side condition `toks ≠ []`: `P.adv` never moves past the last token, so a LINE_END that is the *last*
token is not consumed, and on `nls ++ []` the parser is left looking at a LINE_END while on `[]` it sees
the end of input (`eofTok`): see the `example`s at the end.  Every token list produced by the lexer ends
in EXPRESSION_END, so the condition always holds there.

What is *not* claimed (and is false in the model as for the C++): the two *sources* give equal ASTs.
Blank lines shift the `line` field of all later tokens, tokens are stored in the AST, so the ASTs differ
in those fields (and diagnostics move by exactly the number of inserted lines, as C10 says).  The
statements here are at token level: the same `toks` on both sides.
-/
namespace Pseudo

/-! ## running the token-stream primitives -/

/-- `P.adv` on an input whose tail is non-empty drops the head -/
theorem adv_run_ne (t : Tok) (l : List Tok) (w) (h : l ≠ []) :
    (P.adv).run.run ⟨t :: l, w⟩ = (.ok (), ⟨l, w⟩) := by
  obtain ⟨t', ts', rfl⟩ := List.exists_cons_of_ne_nil h
  rfl

/-- `P.skipNL` is `P.skipLineEnds` with the input length as fuel -/
theorem skipNL_run (l : List Tok) (w) :
    (P.skipNL).run.run ⟨l, w⟩ = (P.skipLineEnds l.length).run.run ⟨l, w⟩ := rfl

/-- `nls.length` rounds of `P.skipLineEnds` consume `nls` -/
theorem skipLineEnds_blank (nls : List Tok) (hnl : ∀ t ∈ nls, t.k = .LINE_END) (n : Nat)
    (toks : List Tok) (hne : toks ≠ []) (w) :
    (P.skipLineEnds (nls.length + n)).run.run ⟨nls ++ toks, w⟩
      = (P.skipLineEnds n).run.run ⟨toks, w⟩ := by
  induction nls with
  | nil => simp
  | cons a nls ih =>
    have ha : a.k = .LINE_END := hnl a (by simp)
    rw [show (a :: nls).length + n = (nls.length + n) + 1 by simp; omega]
    rw [P.skipLineEnds]
    simp only [run_bind, cur_run, List.cons_append, List.headD_cons, ha, beq_self_eq_true, if_true]
    rw [adv_run_ne _ _ _ (by simp [hne])]
    exact ih (fun t ht => hnl t (by simp [ht]))

/-- `P.skipNL` stops at once at a token that is no LINE_END -/
theorem skipNL_stop (t : Tok) (ts : List Tok) (w) (ht : t.k ≠ .LINE_END) :
    (P.skipNL).run.run ⟨t :: ts, w⟩ = (.ok (), ⟨t :: ts, w⟩) := by
  rw [skipNL_run, List.length_cons, P.skipLineEnds]
  have hc : (t.k == TK.LINE_END) = false := beq_eq_false_iff_ne.mpr ht
  simp only [run_bind, cur_run, List.headD_cons, hc, Bool.false_eq_true, if_false, run_pure]

/-! ## 1. `P.skipNL` -/

/-- **Blank lines are skipped as one run.**  On an input that starts with extra LINE_END tokens `nls`
    followed by a non-empty rest `toks`, `P.skipNL` returns the same result and leaves the same state
    (remaining input, warnings) as on `toks` alone.  No assumption on how `toks` starts (it may start
    with further LINE_END tokens). -/
theorem C10_skipNL_blank_lines (nls toks : List Tok) (w : List Tok)
    (hnl : ∀ t ∈ nls, t.k = .LINE_END) (hne : toks ≠ []) :
    (P.skipNL).run.run ⟨nls ++ toks, w⟩ = (P.skipNL).run.run ⟨toks, w⟩ := by
  rw [skipNL_run, skipNL_run, List.length_append]
  exact skipLineEnds_blank nls hnl toks.length toks hne w

/-- the same for `k` copies of one LINE_END token -/
theorem C10_skipNL_idem (nl : Tok) (hnl : nl.k = .LINE_END) (k : Nat) (toks : List Tok) (w : List Tok)
    (hne : toks ≠ []) :
    (P.skipNL).run.run ⟨List.replicate k nl ++ toks, w⟩ = (P.skipNL).run.run ⟨toks, w⟩ :=
  C10_skipNL_blank_lines _ toks w (fun t ht => by rw [List.eq_of_mem_replicate ht]; exact hnl) hne

/-- ... with the value spelled out when the rest starts with a token that is no LINE_END: `.ok ()`,
    the input is exactly the rest, the warnings are untouched. -/
theorem C10_skipNL_value (nls : List Tok) (t : Tok) (ts : List Tok) (w : List Tok)
    (hnl : ∀ t ∈ nls, t.k = .LINE_END) (ht : t.k ≠ .LINE_END) :
    (P.skipNL).run.run ⟨nls ++ t :: ts, w⟩ = (.ok (), ⟨t :: ts, w⟩) := by
  rw [C10_skipNL_blank_lines nls (t :: ts) w hnl (List.cons_ne_nil _ _)]
  exact skipNL_stop t ts w ht

/-! ## 2. `parseBlock` -/

/-- one round of the statement loop, as a function of what `P.skipNL` did -/
theorem parseBlock_run_of_skipNL (cfg : PCfg) (f : Nat) (bk : BlockKind) (acc : List Stmt)
    (s s' : PState) (h : (P.skipNL).run.run s = (P.skipNL).run.run s') :
    (parseBlock cfg (f + 1) bk acc).run.run s = (parseBlock cfg (f + 1) bk acc).run.run s' := by
  rw [parseBlock]
  rw [run_bind, run_bind, h]

/-- **Blank lines in front of a statement do not change the block.**  Wherever the statement loop
    `parseBlock` is about to read the next statement (any positive fuel, any block kind `bk` —
    main program, CASE branch, other —, any list `acc` of statements already read), extra LINE_END
    tokens `nls` in front of the non-empty rest `toks` change neither the result (block or diagnostic)
    nor the final state (remaining input, warnings). -/
theorem C10_block_leading_blank_lines (cfg : PCfg) (f : Nat) (bk : BlockKind) (acc : List Stmt)
    (nls toks : List Tok) (w : List Tok)
    (hnl : ∀ t ∈ nls, t.k = .LINE_END) (hne : toks ≠ []) :
    (parseBlock cfg (f + 1) bk acc).run.run ⟨nls ++ toks, w⟩
      = (parseBlock cfg (f + 1) bk acc).run.run ⟨toks, w⟩ :=
  parseBlock_run_of_skipNL cfg f bk acc _ _ (C10_skipNL_blank_lines nls toks w hnl hne)

/-- the same for `k` copies of one LINE_END token -/
theorem C10_block_leading_blank_lines_replicate (cfg : PCfg) (f : Nat) (bk : BlockKind)
    (acc : List Stmt) (nl : Tok) (hnl : nl.k = .LINE_END) (k : Nat) (toks : List Tok) (w : List Tok)
    (hne : toks ≠ []) :
    (parseBlock cfg (f + 1) bk acc).run.run ⟨List.replicate k nl ++ toks, w⟩
      = (parseBlock cfg (f + 1) bk acc).run.run ⟨toks, w⟩ :=
  C10_block_leading_blank_lines cfg f bk acc _ toks w
    (fun t ht => by rw [List.eq_of_mem_replicate ht]; exact hnl) hne

/-- every block terminator is a token kind different from LINE_END -/
theorem isBlockEnd_ne_lineEnd (k : TK) (h : isBlockEnd k = true) : k ≠ .LINE_END := by
  intro hk; subst hk; revert h; decide

/-- **Trailing blank lines of a block** (blank lines between the last statement and ENDIF, ELSE,
    OTHERWISE, ENDCASE, ENDWHILE, UNTIL, NEXT, ENDPROCEDURE, ENDFUNCTION or the end of input) are the
    same lemma: the loop skips them, sees the terminator `t`, and returns the statements read so far,
    leaving the terminator as the current token. -/
theorem C10_block_trailing_blank_lines (cfg : PCfg) (f : Nat) (bk : BlockKind) (acc : List Stmt)
    (nls : List Tok) (t : Tok) (ts : List Tok) (w : List Tok)
    (hnl : ∀ t ∈ nls, t.k = .LINE_END) (ht : isBlockEnd t.k = true) :
    (parseBlock cfg (f + 1) bk acc).run.run ⟨nls ++ t :: ts, w⟩ = (.ok acc.reverse, ⟨t :: ts, w⟩) := by
  rw [C10_block_leading_blank_lines cfg f bk acc nls (t :: ts) w hnl (List.cons_ne_nil _ _)]
  rw [parseBlock]
  simp only [run_bind, skipNL_stop t ts w (isBlockEnd_ne_lineEnd _ ht), cur_run, List.headD_cons, ht,
    if_true, run_pure]

/-! ## 3. whole programs -/

/-- the monadic body of `parse` with the fuel as a parameter -/
def parseM (cfg : PCfg) (fuel : Nat) : P Block := do
  let b ← parseBlock cfg fuel .main []
  let t ← P.cur
  if t.k != .EXPRESSION_END then P.fail t else return b

/-- what `parse` makes of the final result and state: the warnings in source order -/
def parseFinish : Except Diag Block × PState → Except (Diag × List Tok) (Block × List Tok)
  | (.ok b, s) => .ok (b, s.warns.reverse)
  | (.error d, s) => .error (d, s.warns.reverse)

/-- `parse` with the fuel as a parameter -/
def parseWith (cfg : PCfg) (fuel : Nat) (toks : List Tok) : Except (Diag × List Tok) (Block × List Tok) :=
  parseFinish ((parseM cfg fuel).run.run { toks := toks })

/-- `parse` is `parseWith` at the fuel `parseFuel toks = 12 * toks.length + 64` -/
theorem parse_eq_parseWith (cfg : PCfg) (toks : List Tok) :
    parse cfg toks = parseWith cfg (parseFuel toks) toks := rfl

/-- the parse result is the out-of-fuel diagnostic of the model (`Msg.budget`; the C++ parser has no
    such limit, the harness treats it as "model gives no verdict") -/
def OutOfFuel : Except (Diag × List Tok) (Block × List Tok) → Prop
  | .error (d, _) => d.msg = .budget
  | .ok _ => False

theorem outOfFuel_finish (r : Except Diag Block) (s : PState) :
    OutOfFuel (parseFinish (r, s)) ↔ IsBudget r := by
  cases r <;> exact Iff.rfl

/-- **Whole program, explicit fuel.**  With the same positive fuel on both sides, blank lines in
    front of the program change nothing: same block and warnings, or same diagnostic and warnings. -/
theorem C10_parseWith_leading_blank_lines (cfg : PCfg) (f : Nat) (nls toks : List Tok)
    (hnl : ∀ t ∈ nls, t.k = .LINE_END) (hne : toks ≠ []) :
    parseWith cfg (f + 1) (nls ++ toks) = parseWith cfg (f + 1) toks := by
  unfold parseWith parseM
  rw [run_bind, run_bind]
  rw [C10_block_leading_blank_lines cfg f .main [] nls toks [] hnl hne]

/-- `parseM` with more fuel -/
theorem parseM_mono_add (cfg : PCfg) (f d : Nat) : Below (parseM cfg f) (parseM cfg (f + d)) :=
  Below.bind (parseBlock_mono_add cfg f .main [] d) (fun _ => Below.refl _)

/-- **More fuel does not change a parse that did not run out of fuel** (whole program; the
    per-function statements are `exprMono`, `stmtMono`, … of `PseudoProofs/ParseBlankLemmas.lean`). -/
theorem C10_parseWith_more_fuel (cfg : PCfg) (f d : Nat) (toks : List Tok)
    (h : ¬ OutOfFuel (parseWith cfg f toks)) :
    parseWith cfg (f + d) toks = parseWith cfg f toks := by
  unfold parseWith at *
  rcases parseM_mono_add cfg f d { toks := toks } with hb | he
  · exact absurd ((outOfFuel_finish _ _).mpr hb) h
  · rw [he]

/-- the same at block level, spelled out without `Below`: if `parseBlock` with fuel `f` returns `r`
    (a block or a diagnostic other than out-of-fuel) and the state `s'`, then so it does with fuel
    `f + d` -/
theorem C10_parseBlock_more_fuel (cfg : PCfg) (f d : Nat) (bk : BlockKind) (acc : List Stmt)
    (s s' : PState) (r : Except Diag (List Stmt))
    (h : (parseBlock cfg f bk acc).run.run s = (r, s')) (hr : ¬ IsBudget r) :
    (parseBlock cfg (f + d) bk acc).run.run s = (r, s') := by
  rcases parseBlock_mono_add cfg f bk acc d s with hb | he
  · rw [h] at hb; exact absurd hb hr
  · rw [he, h]

/-- **Blank lines in front of a program do not change its parse** — the real `parse`, whose fuel
    grows with the number of tokens (so the longer input is parsed with 12 more units of fuel per
    extra token).  Hypothesis `hf`: the parse of the shorter input is not the out-of-fuel
    diagnostic; `toks ≠ []` as everywhere (lexer output ends in EXPRESSION_END). -/
theorem C10_leading_blank_lines (cfg : PCfg) (nls toks : List Tok)
    (hnl : ∀ t ∈ nls, t.k = .LINE_END) (hne : toks ≠ []) (hf : ¬ OutOfFuel (parse cfg toks)) :
    parse cfg (nls ++ toks) = parse cfg toks := by
  rw [parse_eq_parseWith, parse_eq_parseWith] at *
  have e : parseFuel (nls ++ toks) = (parseFuel toks + 12 * nls.length - 1) + 1 := by
    simp only [parseFuel, List.length_append]; omega
  rw [e, C10_parseWith_leading_blank_lines cfg _ nls toks hnl hne]
  rw [show parseFuel toks + 12 * nls.length - 1 + 1 = parseFuel toks + 12 * nls.length by
    simp only [parseFuel]; omega]
  exact C10_parseWith_more_fuel cfg _ _ toks hf

/-- the same for `k` copies of one LINE_END token -/
theorem C10_leading_blank_lines_replicate (cfg : PCfg) (nl : Tok) (hnl : nl.k = .LINE_END) (k : Nat)
    (toks : List Tok) (hne : toks ≠ []) (hf : ¬ OutOfFuel (parse cfg toks)) :
    parse cfg (List.replicate k nl ++ toks) = parse cfg toks :=
  C10_leading_blank_lines cfg _ toks (fun t ht => by rw [List.eq_of_mem_replicate ht]; exact hnl) hne hf

/-- without the fuel hypothesis: either the two parses agree or the shorter input ran out of fuel -/
theorem C10_leading_blank_lines_or (cfg : PCfg) (nls toks : List Tok)
    (hnl : ∀ t ∈ nls, t.k = .LINE_END) (hne : toks ≠ []) :
    parse cfg (nls ++ toks) = parse cfg toks ∨ OutOfFuel (parse cfg toks) := by
  rcases Classical.em (OutOfFuel (parse cfg toks)) with h | h
  · exact Or.inr h
  · exact Or.inl (C10_leading_blank_lines cfg nls toks hnl hne h)

/-! ## 4. non-vacuity: concrete token lists -/

/-- `OUTPUT 1 ⏎ OUTPUT 2` as the lexer produces it -/
def C10_prog : List Tok :=
  [⟨.OUTPUT, 1, 1, []⟩, ⟨.INTEGER, 1, 8, ['1']⟩, ⟨.LINE_END, 1, 9, []⟩,
   ⟨.OUTPUT, 2, 1, []⟩, ⟨.INTEGER, 2, 8, ['2']⟩, ⟨.EXPRESSION_END, 2, 8, []⟩]

/-- the second statement and the end marker -/
def C10_rest : List Tok := [⟨.OUTPUT, 2, 1, []⟩, ⟨.INTEGER, 2, 8, ['2']⟩, ⟨.EXPRESSION_END, 2, 8, []⟩]

/-- two LINE_END tokens with different positions -/
def C10_nls : List Tok := [⟨.LINE_END, 7, 1, []⟩, ⟨.LINE_END, 8, 3, []⟩]

example : lex {} "OUTPUT 1\nOUTPUT 2".toList = .ok C10_prog := by rfl
example : ∀ t ∈ C10_nls, t.k = .LINE_END := by decide
example : C10_prog ≠ [] ∧ C10_rest ≠ [] := by decide

/-- the program parses (to two statements, no warnings): the hypothesis of `C10_leading_blank_lines`
    holds and both sides of the theorems are successful parses -/
example : (match parse {} C10_prog with | .ok (b, w) => some (b.length, w.length) | .error _ => none)
    = some (2, 0) := by rfl
example : ¬ OutOfFuel (parse {} C10_prog) := by
  have h : parse {} C10_prog = .ok ([.output ⟨.OUTPUT, 1, 1, []⟩ [.intLit ⟨.INTEGER, 1, 8, ['1']⟩ 1],
      .output ⟨.OUTPUT, 2, 1, []⟩ [.intLit ⟨.INTEGER, 2, 8, ['2']⟩ 2]], []) := by rfl
  rw [h]; exact fun h => h

/-- two extra LINE_END tokens in front of the first statement: same parse (instance of
    `C10_leading_blank_lines`, here checked by evaluation) -/
example : parse {} (C10_nls ++ C10_prog) = parse {} C10_prog := by rfl

/-- two extra LINE_END tokens between the first and the second statement (after the LINE_END that
    ends the first one): same parse — `parseBlock` is at the start of a round there, with
    `acc = [first statement]` (instance of `C10_block_leading_blank_lines`) -/
example : parse {} (C10_prog.take 3 ++ C10_nls ++ C10_rest) = parse {} (C10_prog.take 3 ++ C10_rest) := by rfl
example : C10_prog.take 3 ++ C10_rest = C10_prog := by rfl
example (acc : List Stmt) (w : List Tok) :
    (parseBlock {} 100 .main acc).run.run ⟨C10_nls ++ C10_rest, w⟩
      = (parseBlock {} 100 .main acc).run.run ⟨C10_rest, w⟩ :=
  C10_block_leading_blank_lines {} 99 .main acc C10_nls C10_rest w (by decide) (by decide)

/-- trailing blank lines before the end of input and before ENDIF -/
example : parse {} (C10_prog.take 5 ++ C10_nls ++ C10_prog.drop 5) = parse {} C10_prog := by rfl
example (w : List Tok) :
    (parseBlock {} 5 .other [Stmt.brk ⟨.BREAK, 1, 1, []⟩]).run.run
        ⟨C10_nls ++ [⟨.ENDIF, 9, 1, []⟩, ⟨.EXPRESSION_END, 9, 6, []⟩], w⟩
      = (.ok [Stmt.brk ⟨.BREAK, 1, 1, []⟩], ⟨[⟨.ENDIF, 9, 1, []⟩, ⟨.EXPRESSION_END, 9, 6, []⟩], w⟩) :=
  C10_block_trailing_blank_lines {} 4 .other _ C10_nls _ _ w (by decide) (by decide)

/-- CASE branches: the look-ahead for the next `value :` label runs after the blank lines were
    skipped.  Two LINE_END tokens in front of the label `2:` (token 9) of a CASE statement that parses. -/
def C10_case : List Tok := (lex {} "CASE OF x\n1: OUTPUT 1\n2: OUTPUT 2\nENDCASE".toList).toOption.getD []

example : (C10_case.map (·.k)).take 11 = [.CASE, .OF, .IDENTIFIER, .LINE_END, .INTEGER, .COLON, .OUTPUT,
    .INTEGER, .LINE_END, .INTEGER, .COLON] := by decide +kernel
example : (match parse {} C10_case with | .ok (b, _) => some b.length | .error _ => none) = some 1 := by
  decide +kernel
set_option maxRecDepth 100000 in
example : parse {} (C10_case.take 9 ++ C10_nls ++ C10_case.drop 9) = parse {} C10_case := by rfl

/-- the side condition `toks ≠ []` is needed: `P.adv` never moves past the last token, so a final
    LINE_END stays the current token, while the empty input reads as end of input -/
example : (P.skipNL).run.run ⟨[⟨.LINE_END, 1, 1, []⟩] ++ [], []⟩ = (.ok (), ⟨[⟨.LINE_END, 1, 1, []⟩], []⟩)
    ∧ (P.skipNL).run.run ⟨[], []⟩ = (.ok (), ⟨[], []⟩) := ⟨rfl, rfl⟩
example : (match parse {} ([⟨.LINE_END, 1, 1, []⟩] ++ []) with | .ok _ => true | .error _ => false) = false
    ∧ (match parse {} [] with | .ok _ => true | .error _ => false) = true := ⟨rfl, rfl⟩

/-- at source level blank lines do shift the line numbers of the later tokens (and with them the
    token fields of the AST and the positions of diagnostics): only the token kinds and values are
    those of the program without the blank lines plus LINE_END tokens -/
example : (lex {} "OUTPUT 1\n\n\nOUTPUT 2".toList).toOption.map (·.map fun t => (t.k, t.line))
    = some [(.OUTPUT, 1), (.INTEGER, 1), (.LINE_END, 1), (.LINE_END, 2), (.LINE_END, 3),
            (.OUTPUT, 4), (.INTEGER, 4), (.EXPRESSION_END, 4)] := by rfl

end Pseudo
