import Properties.C10Lines
import PseudoProofs.ParseFuelLex
/-!
# C10 (parser half, continued) — the parser never runs out of the fuel that `parse` gives it

The model parser (`PseudoModel/Parser.lean`) is recursive descent with a fuel argument that bounds the
depth of the call tree (every function called with `f + 1` passes `f` to its callees; the loops —
statements of a block, operators of a level, arguments, indices, clauses, parameters — are tail calls
and cost one unit per round).  `parse` supplies `parseFuel toks = 12 * toks.length + 64`.  The C++ has
no such limit, so a run of the model that ends in the diagnostic `Msg.budget` says nothing about the
C++ (`Properties/C01.lean`: "or the nesting budget"; `Properties/C10Lines.lean`: hypothesis `hf`).

Here: **that diagnostic is unreachable on every token list that ends in the end marker
EXPRESSION_END** (`C10_parse_fuel_sufficient`), in particular on every token list the lexer produces
(`C10_parse_fuel_sufficient_lex`).  Sharper: fuel `12 * n + 15` is enough for `n` tokens
(`C10_parseWith_fuel_sufficient`), and from there on the result does not depend on the fuel
(`C10_parseWith_fuel_independent`).  Proof (`PseudoProofs/ParseFuel*.lean`): a function `g` started on
`n` remaining tokens needs at most `12 * n + B g` units; the constants `B` decrease along the calls
made before a token is consumed (block 15, statement 14, call arguments 13, arguments 12, level 0 … 6:
11 … 5, factor 4, atom 3, reference 2, reference loop 1), every other call is made after at least one
token was consumed, and every loop consumes a token per round; 22 functions, induction on the fuel.

**The hypothesis on the last token cannot be dropped** (`C10_parse_fuel_needs_end_marker`): `P.adv`
never moves past the last token, so on the one-token inputs `(`, `NOT`, `REPEAT` (and `x ^`) the parser
"consumes" the last token for ever and does end in the out-of-fuel diagnostic.  The statement asked for
(`∀ toks, ¬ OutOfFuel (parse cfg toks)`) is therefore false as it stands; it is true of everything
`parse` is ever applied to (`runSource` parses lexer output only).

Corollary: `C10_leading_blank_lines_total` — `Properties/C10Lines.lean`'s `C10_leading_blank_lines`
without the hypothesis `hf`.
-/
namespace Pseudo
open Pseudo.ParseFuel

/-- the token list ends in the end marker EXPRESSION_END (or is empty: the parser reads the end marker
    `eofTok` on an empty input) -/
abbrev C10_EndsInEndMarker (toks : List Tok) : Prop := EndsEOF toks

theorem C10_endsInEndMarker_iff (toks : List Tok) :
    C10_EndsInEndMarker toks ↔ ∀ t, toks.getLast? = some t → t.k = .EXPRESSION_END := Iff.rfl

/-- every token list produced by the lexer ends in the end marker and is not empty -/
theorem C10_lex_endsInEndMarker (lcfg : LexCfg) (src : List Char) (toks : List Tok)
    (h : lex lcfg src = .ok toks) : C10_EndsInEndMarker toks ∧ toks ≠ [] :=
  ⟨lex_endsEOF lcfg src toks h, lex_ne_nil lcfg src toks h⟩

/-- **Progress of the statement loop** (the other 21 functions: `ExprFuel`, `StmtFuel`, `declareFuel`, …
    of `PseudoProofs/ParseFuel*.lean`, each with its own constant): started with fuel `12 * n + 15` on
    `n` remaining tokens that end in the end marker, `parseBlock` either fails with a diagnostic other
    than the budget, or succeeds and leaves a token list that is not longer and still ends in the end
    marker. -/
theorem C10_parseBlock_fuel_sufficient (cfg : PCfg) (f : Nat) (bk : BlockKind) (acc : List Stmt) (s : PState)
    (hend : C10_EndsInEndMarker s.toks) (hf : 12 * s.toks.length + 15 ≤ f)
    (r : Except Diag (List Stmt)) (s' : PState) (hr : (parseBlock cfg f bk acc).run.run s = (r, s')) :
    (∀ d, r = .error d → d.msg ≠ .budget) ∧
    (∀ b, r = .ok b → C10_EndsInEndMarker s'.toks ∧ s'.toks.length ≤ s.toks.length) :=
  (parseBlock_safe cfg f bk acc s hend hf).out hr

/-- a statement consumes at least one token: `parseStmt` with fuel `12 * n + 14` -/
theorem C10_parseStmt_fuel_sufficient (cfg : PCfg) (f : Nat) (s : PState)
    (hend : C10_EndsInEndMarker s.toks) (hf : 12 * s.toks.length + 14 ≤ f)
    (r : Except Diag Stmt) (s' : PState) (hr : (parseStmt cfg f).run.run s = (r, s')) :
    (∀ d, r = .error d → d.msg ≠ .budget) ∧
    (∀ n, r = .ok n → C10_EndsInEndMarker s'.toks ∧ s'.toks.length < s.toks.length) :=
  ((stmtFuel cfg f).stmt hend hf).out hr

/-- an expression consumes at least one token: `parseLevel k` with fuel `12 * n + 11 - k` (`k ≤ 6`) -/
theorem C10_parseLevel_fuel_sufficient (cfg : PCfg) (f k : Nat) (s : PState)
    (hend : C10_EndsInEndMarker s.toks) (hf : 12 * s.toks.length + (5 + (6 - k)) ≤ f)
    (r : Except Diag Expr) (s' : PState) (hr : (parseLevel cfg f k).run.run s = (r, s')) :
    (∀ d, r = .error d → d.msg ≠ .budget) ∧
    (∀ e, r = .ok e → C10_EndsInEndMarker s'.toks ∧ s'.toks.length < s.toks.length) :=
  ((exprFuel cfg f).level hend hf).out hr

/-- **Fuel `12 * n + 15` is enough for `n` tokens** (explicit fuel): on a token list that ends in the
    end marker the parse is not the out-of-fuel diagnostic. -/
theorem C10_parseWith_fuel_sufficient (cfg : PCfg) (f : Nat) (toks : List Tok)
    (hend : C10_EndsInEndMarker toks) (hf : 12 * toks.length + 15 ≤ f) :
    ¬ OutOfFuel (parseWith cfg f toks) := by
  intro h
  exact parseMain_not_budget cfg f { toks := toks } hend hf
    ((outOfFuel_finish ((parseM cfg f).run.run { toks := toks }).1 ((parseM cfg f).run.run { toks := toks }).2).mp h)

/-- **The parser never runs out of the fuel that `parse` gives it** (`12 * n + 64`), on every token
    list that ends in the end marker. -/
theorem C10_parse_fuel_sufficient (cfg : PCfg) (toks : List Tok) (hend : C10_EndsInEndMarker toks) :
    ¬ OutOfFuel (parse cfg toks) := by
  rw [parse_eq_parseWith]
  exact C10_parseWith_fuel_sufficient cfg _ toks hend (by simp only [parseFuel]; omega)

/-- ... in particular on every token list the lexer produces: for every source text that lexes, the
    parse is a block or a proper diagnostic, never the out-of-fuel diagnostic. -/
theorem C10_parse_fuel_sufficient_lex (lcfg : LexCfg) (cfg : PCfg) (src : List Char) (toks : List Tok)
    (h : lex lcfg src = .ok toks) : ¬ OutOfFuel (parse cfg toks) :=
  C10_parse_fuel_sufficient cfg toks (lex_endsEOF lcfg src toks h)

/-- from `12 * n + 15` on the result does not depend on the fuel: it is the result of `parse` -/
theorem C10_parseWith_fuel_independent (cfg : PCfg) (f : Nat) (toks : List Tok)
    (hend : C10_EndsInEndMarker toks) (hf : 12 * toks.length + 15 ≤ f) :
    parseWith cfg f toks = parse cfg toks := by
  have h0 := C10_parseWith_fuel_sufficient cfg (12 * toks.length + 15) toks hend (Nat.le_refl _)
  have h1 := C10_parseWith_more_fuel cfg (12 * toks.length + 15) (f - (12 * toks.length + 15)) toks h0
  have h2 := C10_parseWith_more_fuel cfg (12 * toks.length + 15) 49 toks h0
  rw [show 12 * toks.length + 15 + (f - (12 * toks.length + 15)) = f by omega] at h1
  rw [parse_eq_parseWith, h1]
  exact h2.symm

/-- `OutOfFuel` as a Boolean, for evaluation -/
def C10_outOfFuelB : Except (Diag × List Tok) (Block × List Tok) → Bool
  | .error (d, _) => d.msg == .budget
  | .ok _ => false

theorem C10_outOfFuelB_iff (r : Except (Diag × List Tok) (Block × List Tok)) :
    C10_outOfFuelB r = true ↔ OutOfFuel r := by
  cases r with
  | ok a => simp [C10_outOfFuelB, OutOfFuel]
  | error e => obtain ⟨d, w⟩ := e; simp [C10_outOfFuelB, OutOfFuel]

/-- one-token inputs `(`, `NOT`, `REPEAT`, and `x ^`, without end marker -/
def C10_stuck1 : List Tok := [⟨.LPAREN, 1, 1, []⟩]
def C10_stuck2 : List Tok := [⟨.NOT, 1, 1, []⟩]
def C10_stuck3 : List Tok := [⟨.REPEAT, 1, 1, []⟩]
def C10_stuck4 : List Tok := [⟨.IDENTIFIER, 1, 1, ['x']⟩, ⟨.CARET, 1, 2, []⟩]

/-- **The hypothesis on the last token is needed.**  `P.adv` never drops the last token; on an input
    whose last token is `(`, `NOT` or `REPEAT` (or `^` after an identifier) the parser does not advance
    and ends in the out-of-fuel diagnostic.  So `∀ toks, ¬ OutOfFuel (parse cfg toks)` is false. -/
theorem C10_parse_fuel_needs_end_marker : OutOfFuel (parse {} C10_stuck1) := by
  rw [← C10_outOfFuelB_iff]; decide +kernel
theorem C10_parse_fuel_needs_end_marker_not : OutOfFuel (parse {} C10_stuck2) := by
  rw [← C10_outOfFuelB_iff]; decide +kernel
theorem C10_parse_fuel_needs_end_marker_repeat : OutOfFuel (parse {} C10_stuck3) := by
  rw [← C10_outOfFuelB_iff]; decide +kernel
theorem C10_parse_fuel_needs_end_marker_caret : OutOfFuel (parse {} C10_stuck4) := by
  rw [← C10_outOfFuelB_iff]; decide +kernel

/-- the statement without the hypothesis on the last token is false -/
theorem C10_parse_fuel_unconditional_false :
    ¬ ∀ (cfg : PCfg) (toks : List Tok), ¬ OutOfFuel (parse cfg toks) := by
  intro h
  have h1 := h {} C10_stuck1
  rw [← C10_outOfFuelB_iff] at h1
  exact h1 (by decide +kernel)

/-- **Blank lines in front of a program do not change its parse** — `C10_leading_blank_lines` without
    the fuel hypothesis, for every token list that ends in the end marker. -/
theorem C10_leading_blank_lines_total (cfg : PCfg) (nls toks : List Tok)
    (hnl : ∀ t ∈ nls, t.k = .LINE_END) (hne : toks ≠ []) (hend : C10_EndsInEndMarker toks) :
    parse cfg (nls ++ toks) = parse cfg toks :=
  C10_leading_blank_lines cfg nls toks hnl hne (C10_parse_fuel_sufficient cfg toks hend)

/-- the same for `k` copies of one LINE_END token -/
theorem C10_leading_blank_lines_total_replicate (cfg : PCfg) (nl : Tok) (hnl : nl.k = .LINE_END) (k : Nat)
    (toks : List Tok) (hne : toks ≠ []) (hend : C10_EndsInEndMarker toks) :
    parse cfg (List.replicate k nl ++ toks) = parse cfg toks :=
  C10_leading_blank_lines_replicate cfg nl hnl k toks hne (C10_parse_fuel_sufficient cfg toks hend)

/-- for lexer output, unconditionally: LINE_END tokens in front of the tokens of any source text that
    lexes do not change the parse -/
theorem C10_leading_blank_lines_lex (lcfg : LexCfg) (cfg : PCfg) (src : List Char) (nls toks : List Tok)
    (h : lex lcfg src = .ok toks) (hnl : ∀ t ∈ nls, t.k = .LINE_END) :
    parse cfg (nls ++ toks) = parse cfg toks :=
  C10_leading_blank_lines_total cfg nls toks hnl (lex_ne_nil lcfg src toks h) (lex_endsEOF lcfg src toks h)

/-! ## non-vacuity and sharpness -/

example : C10_EndsInEndMarker C10_prog := by
  intro t h; cases h; rfl
example : parse {} (C10_nls ++ C10_prog) = parse {} C10_prog :=
  C10_leading_blank_lines_total {} C10_nls C10_prog (by decide) (by decide) (by intro t h; cases h; rfl)

/-- twenty unclosed `(`: a proper syntax error with the fuel of `parse` … -/
def C10_parens : List Tok := List.replicate 20 ⟨.LPAREN, 1, 1, []⟩ ++ [⟨.EXPRESSION_END, 1, 21, []⟩]

example : ¬ OutOfFuel (parse {} C10_parens) :=
  C10_parse_fuel_sufficient {} C10_parens (by intro t h; simp [C10_parens] at h; rw [← h])
example : (match parse {} C10_parens with | .error (d, _) => d.msg == .other | .ok _ => false) = true := by
  decide +kernel
/-- … but each `(` costs nine units (levels 0–6, factor, atom): a coefficient of 8 instead of 12 would
    not be enough -/
example : OutOfFuel (parseWith {} (8 * C10_parens.length + 15) C10_parens) := by
  rw [← C10_outOfFuelB_iff]; decide +kernel

end Pseudo
