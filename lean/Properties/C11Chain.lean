import PseudoProofs.TraceChain
/-!
# C11 (traceback) — the chain of call sites for general procedures

Informal clause: *"A runtime error's traceback names the line of the failing statement in its own frame and then the
line of each active call site, innermost first, ending at the main program."*

`Properties/C11Trace.lean` proves the chain (`C11_trace_call_chain`, `C11_trace_program`) for PARAMETERLESS procedures
whose body STARTS with the next `CALL`.  This file removes both restrictions and adds the call sites that are nested
in other statements or stand inside expressions.

The path from a block to the statement that fails is a `TraceChain.Descent N σ c calls σl last`
(`PseudoProofs/TraceChain.lean`): from the code `c` started in the state `σ`, through the calls
`calls = [(t₀, P₁), (t₁, P₂), …, (t_{k-1}, P_k)]` (token of the call, name of the callee; outermost first), to the block
`last` started in the state `σl`.  Its constructors are the steps of the evaluator; what is executed before a step goes
down is given by the hypothesis that its run ends normally (ANY statements, ANY state change):

* `pre` / `seq`: a block `pre ++ rest` whose prefix `pre` runs normally (the CALL is at an arbitrary position of the body);
  `head`: into the first statement;
* `call`: `CALL P(args)` of a procedure WITH parameters (arguments evaluated, arity and depth fine, `bindParams` ends
  normally — BYVAL and BYREF parameters alike); `callF`: a call `F(args)` of a user-defined function inside an expression;
* `ifS` / `ifTrue` / `ifFalse` / `ifElse`, `whileS` / `whileBody` / `whileNext`, `repeatS` / `repeatBody` / `repeatNext`,
  `forBody` / `forNext` (the iterations of a FOR loop), `caseS` / `caseHit` / `caseMiss`, `loopBody`: the call site nested in
  IF / WHILE / REPEAT / FOR / CASE, in any iteration;
* `exprS`, `assignRhs`, `arithL` / `arithR`, `cmpL` / `cmpR`, `outputS` / `outHead` / `outNext`, `callArgs` / `callFArgs` / `argHead` /
  `argNext`, `ifCond`, `retS`: the expression positions through which a function call inside an expression is reached.

Main theorems: `C11_chain_code` (any code), `C11_chain_call_chain` (blocks; the generalisation of
`C11_trace_call_chain`), `C11_chain_program` (`runMain`), `C11_chain_runFile` (a program file), the step rule
`C11_chain_body_step` (body `pre ++ [CALL P(args)] ++ post`), the spelled-out depth 3 instance `C11_chain_depth3`, and a
concrete program (`C11ChainEx`).

Not covered: the step from the statement `FOR` to its iterations (the iterations themselves are), call sites inside
index expressions, `NOT` / unary minus / `&` / `AND` / `OR` / casts, conditions of WHILE / UNTIL, CASE labels, file statements.
-/
namespace Pseudo

open ArrayLemmas C07Copy TraceLemmas TraceChain

/-- **C11 (chain of call sites, any code, any depth).**  `hc`: the path from the code `c` (started in `σ`, activations
    `cur :: rest`) through the nested calls `calls` to the block `last` (started in `σl`); `N`: the fuel the path needs.
    `hfail`: `last`, run from `σl` with fuel `F`, raises a runtime error by `rtErr t m` at its own level (`σe`: the state
    in which the diagnostic was built = the state in which that run ends).  Then `c`, run from `σ` with any fuel
    `≥ F + N`, ends with the diagnostic whose traceback is
    `(P_k, t) :: (P_{k-1}, t_{k-1}) :: … :: (P₁, t₁) :: (cur.name, t₀) :: ` the entries `rest` had
    (`chainName` / `chainFrames` spell this list out; `C11_chain_depth3` is the instance with three calls).
    Hypotheses: `hacts` names the stack at the start (needed to say whose name the outermost frame carries); `hfail`
    is the failure itself; `hfuel` excludes the model's own fuel exhaustion; step and depth budgets are hypotheses of
    the single steps inside `hc`. -/
theorem C11_chain_code {N : Nat} {σ : St} {c : Code} {calls : List (Tok × Str)} {σl : St} {last : Block}
    (hc : Descent N σ c calls σl last) (F fuel : Nat) (σe : St) (cur : Act) (rest : List Act) (t : Tok) (m : Msg)
    (hacts : σ.acts = cur :: rest)
    (hfail : (runBlock F last).run.run σl = (.error (.diag (rtDiag σe t.line t.col m)), σe))
    (hfuel : F + N ≤ fuel) :
    ∃ d, c.err fuel σ = some (.diag d) ∧ d.kind = .runtime ∧ d.msg = m ∧ d.line = t.line ∧ d.col = t.col ∧
      d.trace = { name := chainName cur.name calls, line := t.line, col := t.col } ::
        chainFrames cur.name calls (rest.map frameOf) := by
  obtain ⟨a, parents, hin, hname, hframes⟩ := hc.acts cur rest hacts
  have hR : RTrace σl σe := by
    have := runBlock_RTrace F last σl
    rw [hfail] at this
    exact this
  obtain ⟨a', parents', hacts_e, _, hn, hf, hl⟩ := RTrace_cons hR a parents hin
  have htrace := rtDiag_trace σe a' parents' hacts_e t.line t.col m
  have hdeep : σl.acts.length ≤ (rtDiag σe t.line t.col m).trace.length := by
    rw [htrace, hin]
    simp only [List.length_cons, List.length_map]
    omega
  refine ⟨rtDiag σe t.line t.col m, Code.err_mono c hfuel (hc.sound F _ (errOf_of_run hfail) hdeep),
    rtDiag_kind _ _ _ _, rtDiag_msg _ _ _ _, rtDiag_line _ _ _ _, rtDiag_col _ _ _ _, ?_⟩
  rw [htrace, hn, hname, hf, hframes]

/-- **C11 (chain of call sites, blocks): the generalisation of `C11_trace_call_chain`.**  The block `b`, run from `σ`
    (activations `cur :: rest`) with enough fuel, ends with the runtime diagnostic of the innermost failing statement;
    its traceback is the failing position under the name of the innermost procedure / function, then the call
    positions under the names of the callers, innermost first, then what `rest` had.  See `C11_chain_code` for the
    hypotheses; the procedures may have parameters, the calls may stand anywhere in the bodies (after statements that run
    normally, inside IF / WHILE / REPEAT / FOR / CASE, inside expressions). -/
theorem C11_chain_call_chain {N : Nat} {σ : St} {b : Block} {calls : List (Tok × Str)} {σl : St} {last : Block}
    (hc : Descent N σ (.block b) calls σl last) (F fuel : Nat) (σe : St) (cur : Act) (rest : List Act) (t : Tok) (m : Msg)
    (hacts : σ.acts = cur :: rest)
    (hfail : (runBlock F last).run.run σl = (.error (.diag (rtDiag σe t.line t.col m)), σe))
    (hfuel : F + N ≤ fuel) :
    ∃ d σ', (runBlock fuel b).run.run σ = (.error (.diag d), σ') ∧
      d.kind = .runtime ∧ d.msg = m ∧ d.line = t.line ∧ d.col = t.col ∧
      d.trace = { name := chainName cur.name calls, line := t.line, col := t.col } ::
        chainFrames cur.name calls (rest.map frameOf) := by
  obtain ⟨d, herr, h1, h2, h3, h4, h5⟩ := C11_chain_code hc F fuel σe cur rest t m hacts hfail hfuel
  obtain ⟨σ', hrun⟩ := run_of_errOf (show errOf (runBlock fuel b) σ = some (.diag d) from herr)
  exact ⟨d, σ', hrun, h1, h2, h3, h4, h5⟩

/-- **C11 (one level of the chain): body `pre ++ [CALL P(args)] ++ post`.**  The rule by which a chain is extended at
    its outer end.  The block is `pre ++ .call t name args :: post`; `pre` (ANY statements) runs normally from `σ` to `σ0`
    (fuel `f₁`); `name` is the procedure `pd` (any parameters); from `σ0` the CALL is counted, the arguments evaluate to
    `vals` (`σ1`), their number is that of the parameters, the depth budget is not exhausted, the caller is `cur`, the
    parameters are bound (`σ2`; fuel `f₂`).  If from the state in which the body of `pd` starts there is a path to `last`
    through `calls`, then from `σ` there is a path through `(t, pd.name) :: calls`. -/
theorem C11_chain_body_step {N : Nat} {calls : List (Tok × Str)} {σl : St} {last : Block} (f₁ f₂ : Nat) (pre post : Block) (t : Tok)
    (name : Str) (args : List Expr) (σ σ0 σ1 σ2 : St) (pd : ProcDef) (vals : List Val) (cur : Act) (rest : List Act) (slots : List Slot)
    (hpre : (runBlock f₁ pre).run.run σ = (.ok ⟨⟩, σ0))
    (hsteps : σ0.steps + 1 ≤ σ0.stepLimit) (hpd : σ0.procs.find? (·.name == name) = some pd)
    (hargs : (evalArgs f₂ args []).run.run (tickSt σ0) = (.ok vals, σ1)) (hlen : vals.length = pd.params.length)
    (hdepth : σ1.depth + 1 ≤ σ1.depthLimit) (hcur : σ1.acts = cur :: rest)
    (hbind : (bindParams f₂ t pd.params args vals []).run.run σ1 = (.ok slots, σ2))
    (hc : Descent N (calleeSt (procAct pd slots) (setSwitch σ2 cur.id t)) (.block pd.body) calls σl last) :
    Descent (N + f₂ + 2 + 1 + f₁ + pre.length) σ (.block (pre ++ .call t name args :: post)) ((t, pd.name) :: calls) σl last :=
  .pre f₁ pre _ σ σ0 hpre (.head _ post σ0 (.call f₂ t name args σ0 σ1 σ2 pd vals cur rest slots hsteps hpd hargs hlen hdepth hcur hbind hc))

/-- the same rule for a call site inside `IF c THEN pre' ++ [CALL P(args)] ++ … ENDIF` (first branch, condition true)
    that stands after the statements `pre` -/
theorem C11_chain_body_step_if {N : Nat} {calls : List (Tok × Str)} {σl : St} {last : Block} (f₁ f₂ f₃ f₄ : Nat) (pre post pre' post' : Block)
    (it t : Tok) (c : Expr) (more : List (Expr × Block)) (els : Option Block)
    (name : Str) (args : List Expr) (σ σ0 σc σ0' σ1 σ2 : St) (pd : ProcDef) (vals : List Val) (cur : Act) (rest : List Act) (slots : List Slot)
    (hpre : (runBlock f₁ pre).run.run σ = (.ok ⟨⟩, σ0))
    (hsteps0 : σ0.steps + 1 ≤ σ0.stepLimit)
    (hcond : (evalExpr f₃ c).run.run (tickSt σ0) = (.ok (.bool true), σc))
    (hpre' : (runBlock f₄ pre').run.run σc = (.ok ⟨⟩, σ0'))
    (hsteps : σ0'.steps + 1 ≤ σ0'.stepLimit) (hpd : σ0'.procs.find? (·.name == name) = some pd)
    (hargs : (evalArgs f₂ args []).run.run (tickSt σ0') = (.ok vals, σ1)) (hlen : vals.length = pd.params.length)
    (hdepth : σ1.depth + 1 ≤ σ1.depthLimit) (hcur : σ1.acts = cur :: rest)
    (hbind : (bindParams f₂ t pd.params args vals []).run.run σ1 = (.ok slots, σ2))
    (hc : Descent N (calleeSt (procAct pd slots) (setSwitch σ2 cur.id t)) (.block pd.body) calls σl last) :
    Descent (N + f₂ + 2 + 1 + f₄ + pre'.length + f₃ + 1 + 1 + 1 + f₁ + pre.length) σ
      (.block (pre ++ .ifs it ((c, pre' ++ .call t name args :: post') :: more) els :: post)) ((t, pd.name) :: calls) σl last :=
  .pre f₁ pre _ σ σ0 hpre (.head _ post σ0 (.ifS it _ els σ0 hsteps0 (.ifTrue f₃ it c _ more els (tickSt σ0) σc hcond
    (C11_chain_body_step f₄ f₂ pre' post' t name args σc σ0' σ1 σ2 pd vals cur rest slots hpre' hsteps hpd hargs hlen hdepth hcur hbind hc))))

/-- **depth 3, spelled out**: the calls `CALL/… P₁` at `t₀`, `P₂` at `t₁` (inside `P₁`), `P₃` at `t₂` (inside `P₂`), made from
    the main program (`σ.acts = [g]`); `last` (inside `P₃`) fails at `t`: four frames -/
theorem C11_chain_depth3 {N : Nat} {σ : St} {b : Block} {σl : St} {last : Block} (t₀ t₁ t₂ : Tok) (n₁ n₂ n₃ : Str)
    (hc : Descent N σ (.block b) [(t₀, n₁), (t₁, n₂), (t₂, n₃)] σl last) (F fuel : Nat) (σe : St) (g : Act) (t : Tok) (m : Msg)
    (hacts : σ.acts = [g])
    (hfail : (runBlock F last).run.run σl = (.error (.diag (rtDiag σe t.line t.col m)), σe))
    (hfuel : F + N ≤ fuel) :
    ∃ d σ', (runBlock fuel b).run.run σ = (.error (.diag d), σ') ∧ d.kind = .runtime ∧ d.msg = m ∧
      d.trace = [{ name := n₃, line := t.line, col := t.col }, { name := n₂, line := t₂.line, col := t₂.col },
        { name := n₁, line := t₁.line, col := t₁.col }, { name := g.name, line := t₀.line, col := t₀.col }] := by
  obtain ⟨d, σ', h, hk, hm, _, _, ht⟩ := C11_chain_call_chain hc F fuel σe g [] t m hacts hfail hfuel
  exact ⟨d, σ', h, hk, hm, ht⟩

/-- **C11 (whole program, `runMain`).**  The program `b` (definitions of procedures and functions are ordinary
    statements of the prefixes that run normally) ends with the diagnostic whose traceback is the chain. -/
theorem C11_chain_program {N : Nat} {σ : St} {b : Block} {calls : List (Tok × Str)} {σl : St} {last : Block}
    (hc : Descent N σ (.block b) calls σl last) (F fuel : Nat) (σe : St) (cur : Act) (rest : List Act) (t : Tok) (m : Msg)
    (hacts : σ.acts = cur :: rest)
    (hfail : (runBlock F last).run.run σl = (.error (.diag (rtDiag σe t.line t.col m)), σe))
    (hfuel : F + N ≤ fuel) :
    ∃ d σ', (runMain fuel b).run.run σ = (.error (.diag d), σ') ∧
      d.kind = .runtime ∧ d.msg = m ∧ d.line = t.line ∧ d.col = t.col ∧
      d.trace = { name := chainName cur.name calls, line := t.line, col := t.col } ::
        chainFrames cur.name calls (rest.map frameOf) := by
  obtain ⟨d, σ', hrun, h⟩ := C11_chain_call_chain hc F fuel σe cur rest t m hacts hfail hfuel
  exact ⟨d, σ', C11_trace_propagates_runMain fuel b σ σ' d hrun, h⟩

/-- the state in which the block of a program file is run: `fileSt` with the parser's warnings printed -/
def fileStW (cfg : Cfg) (fs : List (Str × FsNode)) (stdin : Str) (warns : List Tok) : St :=
  { fileSt cfg fs stdin with out := (warns.map warningText).reverse ++ (fileSt cfg fs stdin).out }

/-- **C11 (whole program file).**  The text `content` lexes and parses to the block `b`; from the start state of a file
    run there is a path through the nested calls `calls` to the block `last`, which raises a runtime error `m` (other
    than the model's own budget message) at `t`.  Then the run of the file reports exactly one diagnostic, ends with
    status 1, and the traceback is
    `(P_k, t) :: (P_{k-1}, t_{k-1}) :: … :: (P₁, t₁) :: [("Program", t₀)]` — the failing line in its own frame, the line of
    each active call site, innermost first, ending at the main program. -/
theorem C11_chain_runFile (cfg : Cfg) (content : Str) (fs : List (Str × FsNode)) (stdin : Str) (toks : List Tok) (b : Block)
    (warns : List Tok) {N : Nat} {calls : List (Tok × Str)} {σl : St} {last : Block} (F : Nat) (σe : St) (t : Tok) (m : Msg)
    (hl : lex { pedantic := cfg.pedantic } (content ++ ['\n']) = .ok toks)
    (hp : parse { pedantic := cfg.pedantic } toks = .ok (b, warns))
    (hc : Descent N (fileStW cfg fs stdin warns) (.block b) calls σl last)
    (hfail : (runBlock F last).run.run σl = (.error (.diag (rtDiag σe t.line t.col m)), σe))
    (hfuel : F + N ≤ cfg.fuel) (hm : m ≠ .budget) :
    ∃ d, (runFile cfg content fs stdin).diags = [d] ∧ (runFile cfg content fs stdin).exitCode = 1 ∧
      d.kind = .runtime ∧ d.msg = m ∧ d.line = t.line ∧ d.col = t.col ∧
      d.trace = { name := chainName "Program".toList calls, line := t.line, col := t.col } ::
        chainFrames "Program".toList calls [] := by
  obtain ⟨d, σ', hrun, hk, hmsg, hline, hcol, htr⟩ :=
    C11_chain_program hc F cfg.fuel σe mkGlobal [] t m rfl hfail hfuel
  have hb : isBudget d = false := by
    unfold isBudget
    rw [hmsg]
    cases m <;> first | rfl | exact absurd rfl hm
  have hrep := C11_trace_runFile_reports cfg content fs stdin σ' toks b warns d hl hp hrun hb
  exact ⟨d, hrep.1, hrep.2, hk, hmsg, hline, hcol, htr⟩

/-! ## non-vacuity: a concrete program, by the theorem and by evaluation -/

namespace C11ChainEx

def tk (k : TK) (l c : Nat) (v : String := "") : Tok := { k := k, line := l, col := c, val := v.toList }
def idt (l c : Nat) (v : String) : Tok := tk .IDENTIFIER l c v
def intT (l c : Nat) : Tok := tk .DATA_TYPE l c "INTEGER"
def acc (l c : Nat) (v : String) : Expr := .access (idt l c v) (.var (idt l c v))

def outN : Stmt := .output (tk .OUTPUT 2 5) [acc 2 12 "n"]
def divTok : Tok := tk .DIV 3 14
def outDiv : Stmt := .output (tk .OUTPUT 3 5) [.arith divTok .idiv (.intLit (tk .INTEGER 3 12 "1") 1) (.intLit (tk .INTEGER 3 18 "0") 0)]
def body3 : Block := [outN, outDiv]
def par3 : List Param := [{ name := "n".toList, ty := intT 1 18, byRef := false }]
def asgB : Stmt := .expr (.assign (tk .ASSIGNMENT 6 8) (.var (idt 6 5 "b")) (.arith (tk .PLUS 6 12) .add (acc 6 10 "a") (.intLit (tk .INTEGER 6 14 "1") 1)))
def t₂ : Tok := tk .CALL 8 9
def call3 : Stmt := .call t₂ "P3".toList [acc 8 17 "b"]
def ifTok : Tok := tk .IF 7 5
def cond2 : Expr := .cmp (tk .GREATER 7 11) .gt (acc 7 8 "b") (.intLit (tk .INTEGER 7 12 "0") 0)
def if2 : Stmt := .ifs ifTok [(cond2, [call3])] none
def outNR : Stmt := .output (tk .OUTPUT 10 5) [.strLit (tk .STRING 10 12 "not reached") "not reached".toList]
def body2 : Block := [asgB, if2, outNR]
def par2 : List Param := [{ name := "a".toList, ty := intT 5 18, byRef := false }, { name := "b".toList, ty := intT 5 37, byRef := true }]
def declY : Stmt := .declare (tk .DECLARE 13 5) [idt 13 13 "y"] (intT 13 17)
def asgY : Stmt := .expr (.assign (tk .ASSIGNMENT 14 8) (.var (idt 14 5 "y")) (acc 14 10 "x"))
def t₁ : Tok := tk .CALL 15 5
def call2 : Stmt := .call t₁ "P2".toList [acc 15 13 "x", acc 15 16 "y"]
def body1 : Block := [declY, asgY, call2]
def par1 : List Param := [{ name := "x".toList, ty := intT 12 18, byRef := false }]
def def3 : Stmt := .procDef (tk .PROCEDURE 1 1) "P3".toList par3 body3
def def2 : Stmt := .procDef (tk .PROCEDURE 5 1) "P2".toList par2 body2
def def1 : Stmt := .procDef (tk .PROCEDURE 12 1) "P1".toList par1 body1
def declZ : Stmt := .declare (tk .DECLARE 17 1) [idt 17 9 "z"] (intT 17 13)
def asgZ : Stmt := .expr (.assign (tk .ASSIGNMENT 18 4) (.var (idt 18 1 "z")) (.intLit (tk .INTEGER 18 6 "5") 5))
def t₀ : Tok := tk .CALL 19 1
def call1 : Stmt := .call t₀ "P1".toList [acc 19 9 "z"]
def pre₀ : Block := [def3, def2, def1, declZ, asgZ]
def main : Block := pre₀ ++ [call1]


/-- a three-level program: procedures WITH parameters (by value and BYREF), statements BEFORE each call, the innermost
    call inside an IF, statements after the calls -/
def src : String :=
  "PROCEDURE P3(n : INTEGER)\n    OUTPUT n\n    OUTPUT 1 DIV 0\nENDPROCEDURE\n" ++
  "PROCEDURE P2(a : INTEGER, BYREF b : INTEGER)\n    b <- a + 1\n    IF b > 0 THEN\n        CALL P3(b)\n    ENDIF\n    OUTPUT \"not reached\"\nENDPROCEDURE\n" ++
  "PROCEDURE P1(x : INTEGER)\n    DECLARE y : INTEGER\n    y <- x\n    CALL P2(x, y)\nENDPROCEDURE\n" ++
  "DECLARE z : INTEGER\nz <- 5\nCALL P1(z)\n"

def toks : List Tok :=
  match lex {} (src.toList ++ ['\n']) with
  | .ok t => t
  | .error _ => []

theorem lexEq : lex {} (src.toList ++ ['\n']) = .ok toks := by
  have h : (match lex {} (src.toList ++ ['\n']) with | .ok _ => true | .error _ => false) = true := by decide +kernel
  unfold toks
  cases hl : lex {} (src.toList ++ ['\n']) with
  | ok t => rfl
  | error d => rw [hl] at h; cases h


/-! ### the states along the run (defined by running the pieces; every fact below is an evaluation) -/
def getOk {α : Type} (dflt : α) : Except Stop α → α
  | .ok a => a
  | .error _ => dflt

def σ₀ : St := fileStW {} [] [] []
def pd1 : ProcDef := { name := "P1".toList, params := [("x".toList, .int, false)], body := body1 }
def pd2 : ProcDef := { name := "P2".toList, params := [("a".toList, .int, false), ("b".toList, .int, true)], body := body2 }
def pd3 : ProcDef := { name := "P3".toList, params := [("n".toList, .int, false)], body := body3 }
def args₀ : List Expr := [acc 19 9 "z"]
def args₁ : List Expr := [acc 15 13 "x", acc 15 16 "y"]
def args₂ : List Expr := [acc 8 17 "b"]

-- main program
def σA : St := ((runBlock 20 pre₀).run.run σ₀).2
def σB : St := ((evalArgs 10 args₀ []).run.run (tickSt σA)).2
def valsB : List Val := getOk [] ((evalArgs 10 args₀ []).run.run (tickSt σA)).1
def curB : Act := σB.acts.headD default
def slotsB : List Slot := getOk [] ((bindParams 10 t₀ pd1.params args₀ valsB []).run.run σB).1
def σB2 : St := ((bindParams 10 t₀ pd1.params args₀ valsB []).run.run σB).2
def σC : St := calleeSt (procAct pd1 slotsB) (setSwitch σB2 curB.id t₀)
-- P1
def σD : St := ((runBlock 20 [declY, asgY]).run.run σC).2
def σE : St := ((evalArgs 10 args₁ []).run.run (tickSt σD)).2
def valsE : List Val := getOk [] ((evalArgs 10 args₁ []).run.run (tickSt σD)).1
def curE : Act := σE.acts.headD default
def slotsE : List Slot := getOk [] ((bindParams 10 t₁ pd2.params args₁ valsE []).run.run σE).1
def σE2 : St := ((bindParams 10 t₁ pd2.params args₁ valsE []).run.run σE).2
def σF : St := calleeSt (procAct pd2 slotsE) (setSwitch σE2 curE.id t₁)
-- P2
def σG : St := ((runBlock 20 [asgB]).run.run σF).2
def σH : St := ((evalExpr 10 cond2).run.run (tickSt σG)).2
def σI : St := ((evalArgs 10 args₂ []).run.run (tickSt σH)).2
def valsI : List Val := getOk [] ((evalArgs 10 args₂ []).run.run (tickSt σH)).1
def curI : Act := σI.acts.headD default
def slotsI : List Slot := getOk [] ((bindParams 10 t₂ pd3.params args₂ valsI []).run.run σI).1
def σI2 : St := ((bindParams 10 t₂ pd3.params args₂ valsI []).run.run σI).2
def σJ : St := calleeSt (procAct pd3 slotsI) (setSwitch σI2 curI.id t₂)
-- P3
def σK : St := ((runBlock 20 [outN]).run.run σJ).2
def aK : Act := σK.acts.headD default

set_option maxRecDepth 1000000

def isOkB {α : Type} : Except Stop α → Bool
  | .ok _ => true
  | .error _ => false

def isTrueB : Except Stop Val → Bool
  | .ok (.bool true) => true
  | _ => false

theorem run_of_isOk {α : Type} (dflt : α) (m : M α) (σ : St) (h : isOkB (m.run.run σ).1 = true) :
    m.run.run σ = (.ok (getOk dflt (m.run.run σ).1), (m.run.run σ).2) := by
  rcases hr : m.run.run σ with ⟨e | a, σ'⟩
  · rw [hr] at h; cases h
  · rfl

theorem run_of_isOk_unit (m : M Unit) (σ : St) (h : isOkB (m.run.run σ).1 = true) :
    m.run.run σ = (.ok ⟨⟩, (m.run.run σ).2) := by
  rcases hr : m.run.run σ with ⟨e | a, σ'⟩
  · rw [hr] at h; cases h
  · rfl

theorem run_of_isTrue (m : M Val) (σ : St) (h : isTrueB (m.run.run σ).1 = true) :
    m.run.run σ = (.ok (.bool true), (m.run.run σ).2) := by
  rcases hr : m.run.run σ with ⟨e | a, σ'⟩
  · rw [hr] at h; cases h
  · rw [hr] at h
    cases a with
    | bool b => cases b with
      | true => rfl
      | false => cases h
    | _ => cases h

theorem acts_head_tail (l : List Act) (h : l.isEmpty = false) : l = l.headD default :: l.tail := by
  cases l with
  | nil => cases h
  | cons a r => rfl

theorem hpre₀ : (runBlock 20 pre₀).run.run σ₀ = (.ok ⟨⟩, σA) := run_of_isOk_unit _ _ (by decide +kernel)
theorem hstepsA : σA.steps + 1 ≤ σA.stepLimit := by decide +kernel
set_option maxHeartbeats 4000000 in
theorem hpd1 : σA.procs.find? (·.name == "P1".toList) = some pd1 := by rfl
theorem hargsB : (evalArgs 10 args₀ []).run.run (tickSt σA) = (.ok valsB, σB) := run_of_isOk [] _ _ (by decide +kernel)
theorem hlenB : valsB.length = pd1.params.length := by decide +kernel
theorem hdepthB : σB.depth + 1 ≤ σB.depthLimit := by decide +kernel
theorem hcurB : σB.acts = curB :: σB.acts.tail := acts_head_tail _ (by decide +kernel)
theorem hbindB : (bindParams 10 t₀ pd1.params args₀ valsB []).run.run σB = (.ok slotsB, σB2) := run_of_isOk [] _ _ (by decide +kernel)

theorem hpre₁ : (runBlock 20 [declY, asgY]).run.run σC = (.ok ⟨⟩, σD) := run_of_isOk_unit _ _ (by decide +kernel)
theorem hstepsD : σD.steps + 1 ≤ σD.stepLimit := by decide +kernel
set_option maxHeartbeats 4000000 in
theorem hpd2 : σD.procs.find? (·.name == "P2".toList) = some pd2 := by rfl
theorem hargsE : (evalArgs 10 args₁ []).run.run (tickSt σD) = (.ok valsE, σE) := run_of_isOk [] _ _ (by decide +kernel)
theorem hlenE : valsE.length = pd2.params.length := by decide +kernel
theorem hdepthE : σE.depth + 1 ≤ σE.depthLimit := by decide +kernel
theorem hcurE : σE.acts = curE :: σE.acts.tail := acts_head_tail _ (by decide +kernel)
theorem hbindE : (bindParams 10 t₁ pd2.params args₁ valsE []).run.run σE = (.ok slotsE, σE2) := run_of_isOk [] _ _ (by decide +kernel)

theorem hpre₂ : (runBlock 20 [asgB]).run.run σF = (.ok ⟨⟩, σG) := run_of_isOk_unit _ _ (by decide +kernel)
theorem hstepsG : σG.steps + 1 ≤ σG.stepLimit := by decide +kernel
theorem hcondH : (evalExpr 10 cond2).run.run (tickSt σG) = (.ok (.bool true), σH) := run_of_isTrue _ _ (by decide +kernel)
theorem hpreH : (runBlock 1 []).run.run σH = (.ok ⟨⟩, σH) := by rw [runBlock_nil]; rfl
theorem hstepsH : σH.steps + 1 ≤ σH.stepLimit := by decide +kernel
set_option maxHeartbeats 4000000 in
theorem hpd3 : σH.procs.find? (·.name == "P3".toList) = some pd3 := by rfl
theorem hargsI : (evalArgs 10 args₂ []).run.run (tickSt σH) = (.ok valsI, σI) := run_of_isOk [] _ _ (by decide +kernel)
theorem hlenI : valsI.length = pd3.params.length := by decide +kernel
theorem hdepthI : σI.depth + 1 ≤ σI.depthLimit := by decide +kernel
theorem hcurI : σI.acts = curI :: σI.acts.tail := acts_head_tail _ (by decide +kernel)
theorem hbindI : (bindParams 10 t₂ pd3.params args₂ valsI []).run.run σI = (.ok slotsI, σI2) := run_of_isOk [] _ _ (by decide +kernel)

theorem hpre₃ : (runBlock 20 [outN]).run.run σJ = (.ok ⟨⟩, σK) := run_of_isOk_unit _ _ (by decide +kernel)
theorem hactsK : σK.acts = aK :: σK.acts.tail := acts_head_tail _ (by decide +kernel)
theorem hcompK : aK.isComp = false := by decide +kernel
theorem hstepsK : σK.steps + 1 ≤ σK.stepLimit := by decide +kernel

/-- the parser's output for `src` is `main` (checked by unfolding the parser) -/
theorem parseEq : parse {} toks = .ok (main, []) := by rfl

/-- the four frames the theorem predicts -/
def frames : List Frame :=
  [{ name := "P3".toList, line := 3, col := 14 }, { name := "P2".toList, line := 8, col := 9 },
   { name := "P1".toList, line := 15, col := 5 }, { name := "Program".toList, line := 19, col := 1 }]

/-- the run of the model, by evaluation -/
theorem run_by_evaluation : (runFile {} src.toList [] []).diags.map (·.trace) = [frames] := by decide +kernel

/-- the path: main program → `CALL P1(z)` → `CALL P2(x, y)` → (inside IF) `CALL P3(b)` → `OUTPUT 1 DIV 0` -/
theorem path : ∃ N, N + 5 ≤ 100000 ∧
    Descent N σ₀ (.block main) [(t₀, "P1".toList), (t₁, "P2".toList), (t₂, "P3".toList)] σK [outDiv] := by
  have h3 := Descent.pre 20 [outN] [outDiv] σJ σK hpre₃ (.here σK [outDiv])
  have h2 := C11_chain_body_step_if 20 10 10 1 [asgB] [outNR] [] [] ifTok t₂ cond2 [] none "P3".toList args₂ σF σG σH σH σI σI2 pd3 valsI
    curI σI.acts.tail slotsI hpre₂ hstepsG hcondH hpreH hstepsH hpd3 hargsI hlenI hdepthI hcurI hbindI h3
  have h1 := C11_chain_body_step 20 10 [declY, asgY] [] t₁ "P2".toList args₁ σC σD σE σE2 pd2 valsE curE σE.acts.tail slotsE
    hpre₁ hstepsD hpd2 hargsE hlenE hdepthE hcurE hbindE h2
  have h0 := C11_chain_body_step 20 10 pre₀ [] t₀ "P1".toList args₀ σ₀ σA σB σB2 pd1 valsB curB σB.acts.tail slotsB
    hpre₀ hstepsA hpd1 hargsB hlenB hdepthB hcurB hbindB h1
  exact ⟨_, by decide, h0⟩

/-- **the theorem's instance**: the program text `src`, run as a file, ends with exactly one diagnostic, `divZero` at line 3,
    whose traceback is `P3, line 3` / `P2, line 8` / `P1, line 15` / `Program, line 19` — derived from `C11_chain_runFile` with the
    path `path` (every hypothesis of the theorem and of the steps of the path is discharged for this program), not by
    running the whole program; `run_by_evaluation` is the same fact by evaluation. -/
theorem run_by_theorem : ∃ d, (runFile {} src.toList [] []).diags = [d] ∧ (runFile {} src.toList [] []).exitCode = 1 ∧
    d.kind = .runtime ∧ d.msg = .divZero ∧ d.line = 3 ∧ d.col = 14 ∧ d.trace = frames := by
  obtain ⟨N, hN, hc⟩ := path
  have hfail := C11TraceAux.run_output_div0 0 (tk .OUTPUT 3 5) divTok (tk .INTEGER 3 12 "1") (tk .INTEGER 3 18 "0") 1 [] σK aK
    σK.acts.tail hactsK hcompK hstepsK
  obtain ⟨d, h1, h2, h3, h4, h5, h6, h7⟩ := C11_chain_runFile {} src.toList [] [] toks main [] 5 (tickSt σK) divTok .divZero
    lexEq parseEq hc hfail (by show 5 + N ≤ 100000; omega) (by intro h; cases h)
  exact ⟨d, h1, h2, h3, h4, h5, h6, h7⟩

/-- a call site that is a FUNCTION call inside an expression (`x <- 1 + F(7)`, line 14), and a `CALL` nested in a WHILE inside
    the second iteration of a FOR (line 8) -/
def srcF : String :=
  "PROCEDURE P(n : INTEGER)\n    OUTPUT n DIV 0\nENDPROCEDURE\n" ++
  "FUNCTION F(k : INTEGER) RETURNS INTEGER\n    DECLARE i : INTEGER\n    FOR i <- 1 TO 2\n        WHILE i = 2 DO\n            CALL P(k)\n        ENDWHILE\n    NEXT i\n    RETURN k\nENDFUNCTION\n" ++
  "DECLARE x : INTEGER\nx <- 1 + F(7)\n"

/-- by evaluation only (no path was constructed for this program): the traceback has the shape `C11_chain_runFile` gives
    for the calls `[(F at 14:10, F), (CALL at 8:13, P)]` — `P, line 2` / `F, line 8` / `Program, line 14` -/
theorem runF_by_evaluation : (runFile {} srcF.toList [] []).diags.map (fun d => (d.line, d.col, d.trace)) =
    [(2, 14, [{ name := "P".toList, line := 2, col := 14 }, { name := "F".toList, line := 8, col := 13 },
      { name := "Program".toList, line := 14, col := 10 }])] := by decide +kernel

end C11ChainEx

end Pseudo
