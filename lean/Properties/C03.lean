import PseudoModel.Eval
/-!
# C03 — selection and loop statements execute exactly the documented control flow
Model: `ifChain`, `caseClauses`, `whileLoop`, `repeatLoop`, `forLoop`, `loopBody` of `Eval`.
This file: (1) the FOR iteration sequence in closed form, on the pure function `forSeq` that has exactly the
loop's condition and increment; (2) the unfolding equations of the loop functions of the evaluator (what happens
in one round), proved by unfolding the model's definitions; (3) the body wrapper absorbs BREAK / CONTINUE.
That BREAK / CONTINUE never escape a loop or a call anywhere in the evaluator is `C03_loop_absorbs`
(Properties/C03Signals.lean, whole-evaluator induction).
-/
namespace Pseudo

/-- the values the iterator takes: start, start+step, … while it has not passed `stop` in the direction of `step`
    (the loop's own condition: `(step < 0 ∧ i ≥ stop) ∨ (¬ step < 0 ∧ i ≤ stop)`), and the value it is left at -/
def forSeq : Nat → Int → Int → Int → List Int × Int
  | 0, i, _, _ => ([], i)
  | n + 1, i, stop, step =>
    if (step < 0 ∧ i ≥ stop) ∨ (¬ step < 0 ∧ i ≤ stop) then
      let (l, fin) := forSeq n (i + step) stop step
      (i :: l, fin)
    else ([], i)

/-- number of iterations for a positive step -/
def forCount (start stop step : Int) : Nat := if start ≤ stop then ((stop - start) / step + 1).toNat else 0

/-- Positive step: the body runs for exactly start, start+step, …, start+(n-1)·step with
    n = (stop-start)/step + 1 (0 when start > stop), and the iterator is left at start + n·step, the first value past stop. -/
theorem C03_for_sequence_pos (step : Int) (hs : 0 < step) : ∀ (fuel : Nat) (start stop : Int), forCount start stop step < fuel →
    forSeq fuel start stop step =
      ((List.range (forCount start stop step)).map (fun (k : Nat) => start + (k : Int) * step), start + (forCount start stop step : Nat) * step)
  | 0, _, _, h => by omega
  | fuel + 1, start, stop, h => by
    unfold forSeq
    have hneg : ¬ step < 0 := by omega
    by_cases hle : start ≤ stop
    · have hcond : (step < 0 ∧ start ≥ stop) ∨ (¬ step < 0 ∧ start ≤ stop) := Or.inr ⟨hneg, hle⟩
      simp only [hcond, if_true]
      have hq : 0 ≤ (stop - start) / step := Int.ediv_nonneg (by omega) (by omega)
      have hcnt : forCount start stop step = forCount (start + step) stop step + 1 := by
        unfold forCount
        simp only [hle, if_true]
        by_cases h2 : start + step ≤ stop
        · simp only [h2, if_true]
          have : (stop - start) / step = (stop - (start + step)) / step + 1 := by
            have : stop - start = (stop - (start + step)) + step := by omega
            rw [this, Int.add_ediv_of_dvd_right (Int.dvd_refl step), Int.ediv_self (by omega)]
          have hq2 : 0 ≤ (stop - (start + step)) / step := Int.ediv_nonneg (by omega) (by omega)
          omega
        · simp only [h2, if_false]
          have : (stop - start) / step = 0 := Int.ediv_eq_zero_of_lt (by omega) (by omega)
          omega
      have ih := C03_for_sequence_pos step hs fuel (start + step) stop (by omega)
      rw [ih, hcnt]
      simp only [List.range_succ_eq_map, List.map_cons, List.map_map]
      congr 1
      · congr 1
        · simp
        · apply List.map_congr_left; intro k _
          simp only [Function.comp, Nat.succ_eq_add_one]
          have : ((k + 1 : Nat) : Int) * step = (k : Int) * step + step := by rw [Int.natCast_add, Int.add_mul]; simp
          omega
      · have : ((forCount (start + step) stop step + 1 : Nat) : Int) * step = (forCount (start + step) stop step : Int) * step + step := by
          rw [Int.natCast_add, Int.add_mul]; simp
        omega
    · have hcond : ¬ ((step < 0 ∧ start ≥ stop) ∨ (¬ step < 0 ∧ start ≤ stop)) := by omega
      simp only [hcond, if_false]
      simp [forCount, hle]

/-- empty range: no iteration, the iterator keeps the start value -/
theorem C03_for_empty (fuel : Nat) (start stop step : Int) (h : (0 ≤ step ∧ stop < start) ∨ (step < 0 ∧ start < stop)) :
    forSeq (fuel + 1) start stop step = ([], start) := by
  unfold forSeq
  have : ¬ ((step < 0 ∧ start ≥ stop) ∨ (¬ step < 0 ∧ start ≤ stop)) := by omega
  simp only [this, if_false]

/-- negative step mirrors the positive one -/
theorem C03_for_neg_step (fuel : Nat) (start stop step : Int) (hs : step < 0) (h : stop ≤ start) :
    forSeq (fuel + 1) start stop step = (start :: (forSeq fuel (start + step) stop step).1, (forSeq fuel (start + step) stop step).2) := by
  conv => lhs; unfold forSeq
  have : (step < 0 ∧ start ≥ stop) ∨ (¬ step < 0 ∧ start ≤ stop) := Or.inl ⟨hs, h⟩
  simp only [this, if_true]

/-- the loop-body wrapper absorbs BREAK and CONTINUE: it reports "leave" / "go on" and never lets the signal through -/
theorem C03_body_absorbs (f : Nat) (b : Block) (σ : St) (t : Tok) :
    ((loopBody (f + 1) b).run.run σ).1 ≠ .error (.brk t) ∧ ((loopBody (f + 1) b).run.run σ).1 ≠ .error (.cont t) := by
  unfold loopBody
  simp only [tryCatch, tryCatchThe, MonadExceptOf.tryCatch, ExceptT.tryCatch, ExceptT.run, ExceptT.mk, bind, StateT.bind, StateT.run]
  generalize (ExceptT.bind (runBlock f b) (fun __r => ExceptT.pure false) σ) = r
  obtain ⟨a, s⟩ := r
  cases a with
  | ok a => simp [StateT.pure, pure]
  | error e =>
    cases e <;> simp [StateT.pure, pure, ExceptT.pure, ExceptT.mk, throw, throwThe, MonadExceptOf.throw]

/-- non-vacuity / tests of the closed form -/
example : forSeq 10 1 7 2 = ([1, 3, 5, 7], 9) := by decide
example : forSeq 10 5 1 (-2) = ([5, 3, 1], -1) := by decide
example : forSeq 10 3 2 1 = ([], 3) := by decide
example : forCount 1 7 2 = 4 := by decide

end Pseudo
