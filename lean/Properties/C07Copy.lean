import PseudoProofs.EvalStep
/-!
# C07 — records are values, at the level of the store operations

`Properties/C07.lean` shows the path functions (`getPath` / `setPath`) and the slot / activation updates address
exactly one place.  Here the same is said about the *only* operation of the evaluator that changes a stored value,
`writeLoc` (`State.lean`), read back through `readLocP` (the pure content of `readLoc`, `EvalStep.lean`):

* `C07_writeLoc_inv`: what a successful `writeLoc` did;
* `C07_write_other_location`: a successful write leaves every location with a different root variable as it was;
* `C07_setPath_disjoint`, `C07_write_disjoint_path`: … and inside the same root variable, every path that leaves the
  written path at some step (another field name, another index);
* `C07_copy_then_independent`: after the copy `b <- a` of a record (any value) both variables read the value, and no
  later write under `b` (any field, any depth) shows in `a`, nor the other way round.

(`Properties.C07` cannot be imported next to `PseudoProofs.EvalStep` — both declare `Pseudo.findField_isArr` … —, so the
two small frame lemmas about `updSlot` / `updActs` are proved again here, in the namespace `Pseudo.C07Copy`.)
-/
namespace Pseudo

namespace C07Copy

/-- updating the slot named `n` does not change the lookup of another name -/
theorem findSlot_updSlot_ne (n m : Str) (f : Slot → Slot) (hne : m ≠ n) (hf : ∀ s, (f s).name = s.name) :
    ∀ ss : List Slot, findSlot (updSlot ss n f) m = findSlot ss m := by
  intro ss
  induction ss with
  | nil => rfl
  | cons s rest ih =>
    unfold updSlot
    by_cases hs : (s.name == n) = true
    · have hsn : s.name = n := by simpa using hs
      have h2 : (s.name == m) = false := by
        cases h : (s.name == m) with
        | false => rfl
        | true => exact absurd ((by simpa using h : s.name = m).symm.trans hsn) hne
      simp only [hs, if_true, findSlot, List.find?_cons, hf, h2]
    · simp only [hs, Bool.false_eq_true, if_false]
      unfold findSlot at ih ⊢
      simp only [List.find?_cons]
      cases (s.name == m)
      · exact ih
      · rfl

/-- updating activation `id` does not change the lookup of another activation -/
theorem find_updActs_ne (id id' : Nat) (f : Act → Act) (hne : id' ≠ id) (hf : ∀ a, (f a).id = a.id) :
    ∀ acts : List Act, (updActs acts id f).find? (·.id == id') = acts.find? (·.id == id') := by
  intro acts
  induction acts with
  | nil => rfl
  | cons a rest ih =>
    unfold updActs
    by_cases ha : (a.id == id) = true
    · have hai : a.id = id := by simpa using ha
      have h2 : (a.id == id') = false := by
        cases h : (a.id == id') with
        | false => rfl
        | true => exact absurd ((by simpa using h : a.id = id').symm.trans hai) hne
      simp only [ha, if_true, List.find?_cons, hf, h2]
    · simp only [ha, Bool.false_eq_true, if_false, List.find?_cons]
      cases (a.id == id')
      · exact ih
      · rfl

/-- a different field name is not touched by `setField` -/
theorem findField_setField_ne (n m : Str) (k w : Bool) (x : Val) (hne : m ≠ n) :
    ∀ fs : List (Str × Val), findField (setField fs n k x) m w = findField fs m w := by
  intro fs
  induction fs with
  | nil => rfl
  | cons p rest ih =>
    unfold setField
    by_cases hp : (p.1 == n && p.2.isArr == k) = true
    · have hpn : p.1 = n := by
        simp only [Bool.and_eq_true, beq_iff_eq] at hp
        exact hp.1
      have h2 : (p.1 == m) = false := by
        cases h : (p.1 == m) with
        | false => rfl
        | true => exact absurd ((by simpa using h : p.1 = m).symm.trans hpn) hne
      simp only [hp, if_true]
      unfold findField
      simp only [List.find?_cons, h2, Bool.false_and]
    · simp only [hp, Bool.false_eq_true, if_false]
      unfold findField at ih ⊢
      simp only [List.find?_cons]
      cases (p.1 == m && p.2.isArr == w)
      · exact ih
      · rfl

theorem memberKind_setField_ne (n m : Str) (k : Bool) (x : Val) (hne : m ≠ n) (fs : List (Str × Val)) :
    memberKind (setField fs n k x) m = memberKind fs m := by
  unfold memberKind
  rw [findField_setField_ne n m k false x hne fs, findField_setField_ne n m k true x hne fs]

/-- a write below the top of a value keeps its kind (record stays record, array stays array) and, for a record,
    its type name -/
theorem setPath_cons_shape (v nv v' : Val) (s : Step) (rest : List Step) (h : setPath v (s :: rest) nv = some v') :
    (∃ ty fs fs', v = .comp ty fs ∧ v' = .comp ty fs') ∨ (∃ e d cs cs', v = .arr e d cs ∧ v' = .arr e d cs') := by
  cases s with
  | field n =>
    cases v with
    | comp ty fs =>
      simp only [setPath] at h
      cases hm : memberKind fs n with
      | none => rw [hm] at h; cases h
      | some k =>
        rw [hm] at h; simp only at h
        cases hf : findField fs n k with
        | none => rw [hf] at h; cases h
        | some fv =>
          rw [hf] at h; simp only at h
          cases hs : setPath fv rest nv with
          | none => rw [hs] at h; cases h
          | some fv' =>
            rw [hs] at h; simp only [Option.some.injEq] at h
            exact .inl ⟨ty, fs, _, rfl, h.symm⟩
    | _ => simp [setPath] at h
  | idx i =>
    cases v with
    | arr e d cells =>
      simp only [setPath] at h
      cases hc : cells[i]? with
      | none => rw [hc] at h; cases h
      | some c =>
        rw [hc] at h; simp only at h
        cases hs : setPath c rest nv with
        | none => rw [hs] at h; cases h
        | some c' =>
          rw [hs] at h; simp only [Option.some.injEq] at h
          exact .inr ⟨e, d, cells, _, rfl, h.symm⟩
    | _ => simp [setPath] at h

theorem setPath_cons_isArr (v nv v' : Val) (s : Step) (rest : List Step) (h : setPath v (s :: rest) nv = some v') :
    v'.isArr = v.isArr := by
  rcases setPath_cons_shape v nv v' s rest h with ⟨_, _, _, rfl, rfl⟩ | ⟨_, _, _, _, rfl, rfl⟩ <;> rfl

/-- the update `writeLoc` applies to the owner of `l`: the root cell gets the value `nv` -/
def writeF (l : Loc) (nv : Val) : Act → Act := fun a =>
  if l.isArr then { a with arrs := updSlot a.arrs l.name (fun s => { s with val := nv }) }
  else { a with vars := updSlot a.vars l.name (fun s => { s with val := nv }) }

theorem writeF_id (l : Loc) (nv : Val) (a : Act) : (writeF l nv a).id = a.id := by
  unfold writeF; split <;> rfl

/-- the root cell of `l` after the update -/
theorem slotOf_writeF_same (l : Loc) (nv : Val) (a : Act) (s : Slot) (hs : slotOf a l = some s) :
    slotOf (writeF l nv a) l = some { s with val := nv } := by
  unfold slotOf writeF at *
  cases hl : l.isArr
  · simp only [hl, Bool.false_eq_true, if_false] at hs ⊢
    rw [findSlot_updSlot l.name (fun s => { s with val := nv }) (fun _ => rfl), hs]; rfl
  · simp only [hl, if_true] at hs ⊢
    rw [findSlot_updSlot l.name (fun s => { s with val := nv }) (fun _ => rfl), hs]; rfl

/-- every other root cell of the same activation is untouched -/
theorem slotOf_writeF_other (l l' : Loc) (nv : Val) (a : Act) (h : l'.isArr ≠ l.isArr ∨ l'.name ≠ l.name) :
    slotOf (writeF l nv a) l' = slotOf a l' := by
  unfold slotOf writeF
  cases hl : l.isArr <;> cases hl' : l'.isArr
  · simp only [Bool.false_eq_true, if_false]
    rcases h with h | h
    · rw [hl, hl'] at h; exact absurd rfl h
    · exact findSlot_updSlot_ne l.name l'.name (fun s => { s with val := nv }) h (fun _ => rfl) _
  · simp only [Bool.false_eq_true, if_false, if_true]
  · simp only [Bool.false_eq_true, if_false, if_true]
  · simp only [if_true]
    rcases h with h | h
    · rw [hl, hl'] at h; exact absurd rfl h
    · exact findSlot_updSlot_ne l.name l'.name (fun s => { s with val := nv }) h (fun _ => rfl) _

end C07Copy

open C07Copy

/-- two locations lie in different root variables -/
def DiffRoot (l l' : Loc) : Prop := l'.act ≠ l.act ∨ l'.isArr ≠ l.isArr ∨ l'.name ≠ l.name

/-- two locations lie in the same root variable -/
def SameRoot (l l' : Loc) : Prop := l'.act = l.act ∧ l'.isArr = l.isArr ∧ l'.name = l.name

theorem DiffRoot.symm {l l' : Loc} (h : DiffRoot l l') : DiffRoot l' l := by
  rcases h with h | h | h
  · exact .inl (Ne.symm h)
  · exact .inr (.inl (Ne.symm h))
  · exact .inr (.inr (Ne.symm h))

theorem DiffRoot.of_sameRoot {a b b' : Loc} (h : DiffRoot b a) (hs : SameRoot b b') : DiffRoot b' a := by
  obtain ⟨h1, h2, h3⟩ := hs
  unfold DiffRoot at *
  rw [h1, h2, h3]; exact h

/-- **what a successful `writeLoc` did**: the owner activation and the root cell exist, the cell is not a constant, the
    path exists in the old value (`setPath` succeeded, giving `nv`), and the new state is the old one with that one
    cell of that one activation holding `nv`. -/
theorem C07_writeLoc_inv (t : Tok) (l : Loc) (v : Val) (σ σ' : St) (u : Unit)
    (h : (writeLoc t l v).run.run σ = (.ok u, σ')) :
    ∃ a s nv, σ.acts.find? (·.id == l.act) = some a ∧ slotOf a l = some s ∧ s.isConst = false ∧
      setPath s.val l.path v = some nv ∧ σ' = updSt σ l.act (writeF l nv) := by
  unfold writeLoc at h
  rw [run_bind_ok _ _ _ _ _ (run_findAct _ σ)] at h
  cases ha : σ.acts.find? (·.id == l.act) with
  | none => rw [ha] at h; cases h
  | some a =>
    rw [ha] at h
    simp only at h
    have haid : a.id = l.act := by simpa using List.find?_some ha
    cases hs : slotOf a l with
    | none => rw [hs] at h; cases h
    | some s =>
      rw [hs] at h
      simp only at h
      cases hc : s.isConst with
      | true =>
        rw [hc] at h
        simp only [if_true] at h
        rw [run_rtErr] at h; cases h
      | false =>
        rw [hc] at h
        simp only [Bool.false_eq_true, if_false] at h
        cases hp : setPath s.val l.path v with
        | none => rw [hp] at h; cases h
        | some nv =>
          rw [hp] at h
          simp only at h
          refine ⟨a, s, nv, by first | rfl | assumption, by first | rfl | assumption, by first | rfl | assumption,
            by first | rfl | assumption, ?_⟩
          rw [haid] at h
          have h2 : (.ok ⟨⟩, updSt σ l.act (writeF l nv)) = ((.ok u, σ') : Except Stop Unit × St) := h
          injection h2 with _ h2
          exact h2.symm

/-- **a write addresses one root variable**: after a successful `writeLoc t l v`, every location whose root (activation,
    variable-or-array, name) differs from the root of `l` reads exactly as before — found or not found, whatever its
    path.  (Slot names may repeat inside one activation: `findSlot` and `updSlot` both act on the first slot of the
    name, so the statement holds as it stands.) -/
theorem C07_write_other_location (t : Tok) (l l' : Loc) (v : Val) (σ σ' : St) (u : Unit)
    (h : (writeLoc t l v).run.run σ = (.ok u, σ')) (hd : DiffRoot l l') :
    readLocP σ' l' = readLocP σ l' := by
  obtain ⟨a, s, nv, ha, _, _, _, rfl⟩ := C07_writeLoc_inv t l v σ σ' u h
  unfold readLocP
  simp only [updSt]
  by_cases hact : l'.act = l.act
  · rw [hact, find_updActs _ _ (writeF_id l nv), ha]
    simp only [Option.map_some]
    have hd' : l'.isArr ≠ l.isArr ∨ l'.name ≠ l.name := by
      rcases hd with hd | hd
      · exact absurd hact hd
      · exact hd
    rw [slotOf_writeF_other l l' nv a hd']
  · rw [find_updActs_ne _ _ _ hact (writeF_id l nv)]

/-- **nested independence inside one value**: a write at path `r ++ s1 :: p'` does not change what is read at any path
    `r ++ s2 :: q'` that leaves it at the step after the common prefix `r` (another field name, another index, or a
    step of the other kind). -/
theorem C07_setPath_disjoint (s1 s2 : Step) (p' q' : List Step) (hne : s1 ≠ s2) (nv : Val) :
    ∀ (r : List Step) (v v' : Val), setPath v (r ++ s1 :: p') nv = some v' →
      getPath v' (r ++ s2 :: q') = getPath v (r ++ s2 :: q') := by
  intro r
  induction r with
  | nil =>
    intro v v' h
    simp only [List.nil_append] at h ⊢
    cases s1 with
    | field n =>
      cases v with
      | comp ty fs =>
        simp only [setPath] at h
        cases hm : memberKind fs n with
        | none => rw [hm] at h; cases h
        | some k =>
          rw [hm] at h; simp only at h
          cases hf : findField fs n k with
          | none => rw [hf] at h; cases h
          | some fv =>
            rw [hf] at h; simp only at h
            cases hs : setPath fv p' nv with
            | none => rw [hs] at h; cases h
            | some fv' =>
              rw [hs] at h; simp only [Option.some.injEq] at h
              subst h
              cases s2 with
              | field m =>
                have hmn : m ≠ n := fun e => hne (by rw [e])
                simp only [getPath, memberKind_setField_ne n m k fv' hmn fs]
                cases memberKind fs m with
                | none => rfl
                | some k' => simp only [findField_setField_ne n m k k' fv' hmn fs]
              | idx j => simp only [getPath]
      | _ => simp [setPath] at h
    | idx i =>
      cases v with
      | arr e d cells =>
        simp only [setPath] at h
        cases hc : cells[i]? with
        | none => rw [hc] at h; cases h
        | some c =>
          rw [hc] at h; simp only at h
          cases hs : setPath c p' nv with
          | none => rw [hs] at h; cases h
          | some c' =>
            rw [hs] at h; simp only [Option.some.injEq] at h
            subst h
            cases s2 with
            | field m => simp only [getPath]
            | idx j =>
              have hij : i ≠ j := fun e => hne (by rw [e])
              simp only [getPath, List.getElem?_set_ne hij]
      | _ => simp [setPath] at h
  | cons st r ih =>
    intro v v' h
    simp only [List.cons_append] at h ⊢
    cases st with
    | field n =>
      cases v with
      | comp ty fs =>
        simp only [setPath] at h
        cases hm : memberKind fs n with
        | none => rw [hm] at h; cases h
        | some k =>
          rw [hm] at h; simp only at h
          cases hf : findField fs n k with
          | none => rw [hf] at h; cases h
          | some fv =>
            rw [hf] at h; simp only at h
            cases hs : setPath fv (r ++ s1 :: p') nv with
            | none => rw [hs] at h; cases h
            | some fv' =>
              rw [hs] at h; simp only [Option.some.injEq] at h
              subst h
              have hfk : fv'.isArr = k := by
                have h1 : fv'.isArr = fv.isArr := by
                  cases r with
                  | nil => exact setPath_cons_isArr fv nv fv' s1 p' hs
                  | cons s0 r0 => exact setPath_cons_isArr fv nv fv' s0 (r0 ++ s1 :: p') hs
                rw [h1]; exact findField_isArr fs n k fv hf
              simp only [getPath, memberKind_setField fs n k fv' hfk n, hm,
                findField_setField_same n k fv fv' hfk fs hf, hf]
              exact ih fv fv' hs
      | _ => simp [setPath] at h
    | idx i =>
      cases v with
      | arr e d cells =>
        simp only [setPath] at h
        cases hc : cells[i]? with
        | none => rw [hc] at h; cases h
        | some c =>
          rw [hc] at h; simp only at h
          cases hs : setPath c (r ++ s1 :: p') nv with
          | none => rw [hs] at h; cases h
          | some c' =>
            rw [hs] at h; simp only [Option.some.injEq] at h
            subst h
            have hi : i < cells.length := by
              rcases Nat.lt_or_ge i cells.length with h' | h'
              · exact h'
              · rw [List.getElem?_eq_none h'] at hc; cases hc
            simp only [getPath, List.getElem?_set_self hi, hc]
            exact ih c c' hs
      | _ => simp [setPath] at h

/-- the same at the level of the store: a successful write to `x.r.s1.p'` leaves `x.r.s2.q'` (same root variable `x`,
    `s1 ≠ s2`) reading as before -/
theorem C07_write_disjoint_path (t : Tok) (l l' : Loc) (v : Val) (σ σ' : St) (u : Unit)
    (r : List Step) (s1 s2 : Step) (p' q' : List Step) (hne : s1 ≠ s2)
    (hroot : SameRoot l l') (hp : l.path = r ++ s1 :: p') (hq : l'.path = r ++ s2 :: q')
    (h : (writeLoc t l v).run.run σ = (.ok u, σ')) :
    readLocP σ' l' = readLocP σ l' := by
  obtain ⟨a, s, nv, ha, hs, _, hset, rfl⟩ := C07_writeLoc_inv t l v σ σ' u h
  obtain ⟨h1, h2, h3⟩ := hroot
  have hslot : ∀ b : Act, slotOf b l' = slotOf b l := by
    intro b; unfold slotOf; rw [h2, h3]
  unfold readLocP
  simp only [updSt]
  rw [h1, find_updActs _ _ (writeF_id l nv), ha]
  simp only [Option.map_some, hslot, slotOf_writeF_same l nv a s hs, hs, hq]
  rw [hp] at hset
  rw [C07_setPath_disjoint s1 s2 p' q' hne v r s.val nv hset]

/-- a whole-variable write (empty path) is read back -/
theorem C07_write_root_read (t : Tok) (b : Loc) (v : Val) (σ σ' : St) (u : Unit) (hb : b.path = [])
    (h : (writeLoc t b v).run.run σ = (.ok u, σ')) : readLocP σ' b = .ok v := by
  obtain ⟨a, s, nv, ha, hs, _, hset, rfl⟩ := C07_writeLoc_inv t b v σ σ' u h
  rw [hb] at hset
  simp only [setPath, Option.some.injEq] at hset
  subst hset
  unfold readLocP
  simp only [updSt]
  rw [find_updActs _ _ (writeF_id b v), ha]
  simp only [Option.map_some, slotOf_writeF_same b v a s hs, hb, getPath]

/-- **a copy is independent of its source**.  `a` holds the value `v` (a record, say) and the assignment `b <- a`
    stores `v` into the whole variable `b` (a different root variable).  Then
    1. both `a` and `b` read `v`;
    2. after any later successful write anywhere under `b` (`b'` has the root of `b`: any field path, any depth, any
       value) `a` still reads `v`;
    3. after any later successful write anywhere under the root of `a`, `b` still reads `v`. -/
theorem C07_copy_then_independent (t : Tok) (a b : Loc) (v : Val) (σ σ1 : St) (u : Unit)
    (hab : DiffRoot b a) (hb : b.path = [])
    (hread : readLocP σ a = .ok v) (hcopy : (writeLoc t b v).run.run σ = (.ok u, σ1)) :
    readLocP σ1 b = .ok v ∧ readLocP σ1 a = .ok v ∧
    (∀ (t' : Tok) (b' : Loc) (w : Val) (σ2 : St) (u' : Unit), SameRoot b b' →
        (writeLoc t' b' w).run.run σ1 = (.ok u', σ2) → readLocP σ2 a = .ok v) ∧
    (∀ (t' : Tok) (a' : Loc) (w : Val) (σ2 : St) (u' : Unit), SameRoot a a' →
        (writeLoc t' a' w).run.run σ1 = (.ok u', σ2) → readLocP σ2 b = .ok v) := by
  have h1 : readLocP σ1 b = .ok v := C07_write_root_read t b v σ σ1 u hb hcopy
  have h2 : readLocP σ1 a = .ok v := by rw [C07_write_other_location t b a v σ σ1 u hcopy hab]; exact hread
  refine ⟨h1, h2, ?_, ?_⟩
  · intro t' b' w σ2 u' hs hw
    rw [C07_write_other_location t' b' a w σ1 σ2 u' hw (hab.of_sameRoot hs)]; exact h2
  · intro t' a' w σ2 u' hs hw
    rw [C07_write_other_location t' a' b w σ1 σ2 u' hw (hab.symm.of_sameRoot hs)]; exact h1

/-! ### non-vacuity: `b <- a ; b.f <- 5` on a concrete state -/
namespace C07CopyEx

def recA : Val := .comp "R".toList [("f".toList, .int 1), ("g".toList, .comp "Q".toList [("h".toList, .int 2)])]
def recB : Val := .comp "R".toList [("f".toList, .int 0), ("g".toList, .comp "Q".toList [("h".toList, .int 0)])]
def exSt : St :=
  { acts := [{ id := 0, name := "Program".toList,
               vars := [{ name := "a".toList, ty := .comp "R".toList, val := recA },
                        { name := "b".toList, ty := .comp "R".toList, val := recB }] }] }
def locA : Loc := { act := 0, isArr := false, name := "a".toList, path := [] }
def locB : Loc := { act := 0, isArr := false, name := "b".toList, path := [] }
def locBf : Loc := { locB with path := [.field "f".toList] }
def locBgh : Loc := { locB with path := [.field "g".toList, .field "h".toList] }
def tk : Tok := { k := .IDENTIFIER, line := 1, col := 1, val := "b".toList }

/-- the copy and a later field write both succeed; `a.f` still reads 1, `b.f` reads 5, `b.g.h` still reads 2 -/
example : ∃ σ1 σ2, (writeLoc tk locB recA).run.run exSt = (.ok ⟨⟩, σ1) ∧
    (writeLoc tk locBf (.int 5)).run.run σ1 = (.ok ⟨⟩, σ2) ∧
    readLocP σ2 { locA with path := [.field "f".toList] } = .ok (.int 1) ∧
    readLocP σ2 locBf = .ok (.int 5) ∧ readLocP σ2 locBgh = .ok (.int 2) :=
  ⟨_, _, rfl, rfl, rfl, rfl, rfl⟩

/-- the theorems apply to it -/
example (σ1 σ2 : St) (h1 : (writeLoc tk locB recA).run.run exSt = (.ok ⟨⟩, σ1))
    (h2 : (writeLoc tk locBf (.int 5)).run.run σ1 = (.ok ⟨⟩, σ2)) : readLocP σ2 locA = .ok recA :=
  (C07_copy_then_independent tk locA locB recA exSt σ1 ⟨⟩ (.inr (.inr (by decide))) rfl rfl h1).2.2.1
    tk locBf (.int 5) σ2 ⟨⟩ ⟨rfl, rfl, rfl⟩ h2

example (σ1 σ2 : St)
    (h2 : (writeLoc tk locBf (.int 5)).run.run σ1 = (.ok ⟨⟩, σ2)) : readLocP σ2 locBgh = readLocP σ1 locBgh :=
  C07_write_disjoint_path tk locBf locBgh (.int 5) σ1 σ2 ⟨⟩ [] (.field "f".toList) (.field "g".toList) []
    [.field "h".toList] (by decide) ⟨rfl, rfl, rfl⟩ rfl rfl h2

/-- a constant root refuses the write (so the success hypothesis is a real condition) -/
example : ∃ d, (writeLoc tk locA (.int 0)).run.run
      { acts := [{ id := 0, name := [], vars := [{ name := "a".toList, ty := .int, isConst := true, val := .int 1 }] }] }
    = (.error (.diag d), { acts := [{ id := 0, name := [], vars := [{ name := "a".toList, ty := .int, isConst := true, val := .int 1 }] }] }) ∧
    d.msg = .constAssign := ⟨_, rfl, rfl⟩

end C07CopyEx

end Pseudo
