import Properties.C04Exec

/-!
# C04, several parameters in one call

`C04Exec` states BYVAL isolation / BYREF visibility for procedures with ONE parameter.  This module closes part of the
recorded gap "BYREF visibility for several parameters at once is stated per parameter":

* `C04_multi_bind_byref2`, `C04_multi_bind_byref_byval`, `C04_multi_bind_byval_byref` — GENERAL (any state, names,
  types, values): the binding phase of a call with TWO parameters (both BYREF — the two arguments may be the same
  variable —, BYREF then BYVAL, BYVAL then BYREF) produces the two slots one expects, each BYREF slot an alias of the
  location of its own argument, the BYVAL slot a copy; state unchanged.
* `C04_multi_*_partial` — run-level (`(execStmt fuel (call …)).run.run σ`) statements for a FIXED concrete caller state
  and fixed two/three-assignment bodies (proved by evaluation of the model): two distinct BYREF variables, two BYREF
  parameters aliasing the same variable, mixed BYREF/BYVAL in both orders.  What is missing in these: generality over
  the state, names, values and bodies.
-/

namespace Pseudo

open ArrayLemmas C07Copy CallLemmas

/-- **Binding two BYREF parameters.**  Parameters `p1 : ty1`, `p2 : ty2`, both BYREF; the arguments are the names `x`
    and `y` (NOT assumed distinct: `x = y` is the aliasing case), which denote the variable slots `sx` of activation
    `ax` and `sy` of `ay`; the argument values and the variables have exactly the parameter types.  Then the callee
    gets two slots without a value of their own, the first an alias of the location of `x`, the second of the location
    of `y`, in this order; the state is unchanged. -/
theorem C04_multi_bind_byref2 (f : Nat) (t a1 a2 x y : Tok) (p1 p2 : Str) (ty1 ty2 : Ty) (v1 v2 : Val) (σ : St)
    (cur g : Act) (rest : List Act) (ax ay : Act) (sx sy : Slot)
    (hacts : σ.acts = cur :: rest) (hg : σ.acts.getLast? = some g)
    (hx : lookupVarIn cur g x.val = some (ax, sx)) (hy : lookupVarIn cur g y.val = some (ay, sy))
    (hv1 : v1.ty = ty1) (hv2 : v2.ty = ty2) (hs1 : sx.ty = ty1) (hs2 : sy.ty = ty2) :
    (bindParams (f+3) t [(p1, ty1, true), (p2, ty2, true)] [.access a1 (.var x), .access a2 (.var y)] [v1, v2] []).run.run σ =
      (.ok [byrefSlot p1 (holderOf ax sx) (locConstP σ (holderOf ax sx).loc),
            byrefSlot p2 (holderOf ay sy) (locConstP σ (holderOf ay sy).loc)], σ) := by
  rw [run_bindParams_byref (f+2) t p1 ty1 _ a1 (.var x) _ v1 _ [] σ σ (holderOf ax sx) hv1
    (run_resolveRef_var σ cur g rest x (f+1) ax sx hacts hg hx)]
  simp only [holderOf_isArr, Bool.false_eq_true, if_false]
  rw [if_pos (by rw [holderOf_ty]; exact hs1)]
  rw [run_bindParams_byref (f+1) t p2 ty2 _ a2 (.var y) _ v2 _ _ σ σ (holderOf ay sy) hv2
    (run_resolveRef_var σ cur g rest y f ay sy hacts hg hy)]
  simp only [holderOf_isArr, Bool.false_eq_true, if_false]
  rw [if_pos (by rw [holderOf_ty]; exact hs2), run_bindParams_done]
  rfl

/-- **Binding BYREF then BYVAL.**  First parameter BYREF bound to the variable `x`, second parameter BYVAL with any
    argument expression `e` whose value `v2` casts to the parameter type: the first slot is an alias of the location of
    `x`, the second slot holds a copy of `v2`; state unchanged. -/
theorem C04_multi_bind_byref_byval (f : Nat) (t a1 x : Tok) (p1 p2 : Str) (ty1 ty2 : Ty) (e : Expr) (v1 v2 : Val) (σ : St)
    (cur g : Act) (rest : List Act) (ax : Act) (sx : Slot)
    (hacts : σ.acts = cur :: rest) (hg : σ.acts.getLast? = some g)
    (hx : lookupVarIn cur g x.val = some (ax, sx))
    (hv1 : v1.ty = ty1) (hs1 : sx.ty = ty1) (hc : (implicitCast ty2 v2).ty = ty2) :
    (bindParams (f+3) t [(p1, ty1, true), (p2, ty2, false)] [.access a1 (.var x), e] [v1, v2] []).run.run σ =
      (.ok [byrefSlot p1 (holderOf ax sx) (locConstP σ (holderOf ax sx).loc), byvalSlot p2 ty2 v2], σ) := by
  rw [run_bindParams_byref (f+2) t p1 ty1 _ a1 (.var x) _ v1 _ [] σ σ (holderOf ax sx) hv1
    (run_resolveRef_var σ cur g rest x (f+1) ax sx hacts hg hx)]
  simp only [holderOf_isArr, Bool.false_eq_true, if_false]
  rw [if_pos (by rw [holderOf_ty]; exact hs1)]
  rw [run_bindParams_byval (f+1), if_pos hc, run_bindParams_done]
  rfl

/-- **Binding BYVAL then BYREF.**  The mirror image of `C04_multi_bind_byref_byval`. -/
theorem C04_multi_bind_byval_byref (f : Nat) (t a2 y : Tok) (p1 p2 : Str) (ty1 ty2 : Ty) (e : Expr) (v1 v2 : Val) (σ : St)
    (cur g : Act) (rest : List Act) (ay : Act) (sy : Slot)
    (hacts : σ.acts = cur :: rest) (hg : σ.acts.getLast? = some g)
    (hy : lookupVarIn cur g y.val = some (ay, sy))
    (hc : (implicitCast ty1 v1).ty = ty1) (hv2 : v2.ty = ty2) (hs2 : sy.ty = ty2) :
    (bindParams (f+3) t [(p1, ty1, false), (p2, ty2, true)] [e, .access a2 (.var y)] [v1, v2] []).run.run σ =
      (.ok [byvalSlot p1 ty1 v1, byrefSlot p2 (holderOf ay sy) (locConstP σ (holderOf ay sy).loc)], σ) := by
  rw [run_bindParams_byval (f+2), if_pos hc]
  rw [run_bindParams_byref (f+1) t p2 ty2 _ a2 (.var y) _ v2 _ _ σ σ (holderOf ay sy) hv2
    (run_resolveRef_var σ cur g rest y f ay sy hacts hg hy)]
  simp only [holderOf_isArr, Bool.false_eq_true, if_false]
  rw [if_pos (by rw [holderOf_ty]; exact hs2), run_bindParams_done]
  rfl

/-! ## run-level statements on a concrete caller state (proved by evaluating the model) -/
namespace C04MultiEx
open C04Ex

/-- `a <- 5` / `b <- 6` / `y <- b` (`y` is the caller's global, visible in the callee) -/
def asg (n : String) (e : Expr) (l : Nat) : Stmt := .expr (.assign (tk "<-" l 3) (.var (tk n l 1)) e)

/-- `PROCEDURE RR(BYREF a : INTEGER, b : INTEGER)  a <- 5  b <- 6` — both BYREF (carried-over mode) -/
def procRR : ProcDef := { name := "RR".toList, params := [("a".toList, .int, true), ("b".toList, .int, true)],
                          body := [asg "a" (lit 5) 2, asg "b" (lit 6) 3] }
/-- `PROCEDURE AL(BYREF a : INTEGER, b : INTEGER)  a <- 5  y <- b  b <- 9` -/
def procAL : ProcDef := { name := "AL".toList, params := [("a".toList, .int, true), ("b".toList, .int, true)],
                          body := [asg "a" (lit 5) 2, asg "y" (var "b") 3, asg "b" (lit 9) 4] }
/-- `PROCEDURE RV(BYREF a : INTEGER, BYVAL b : INTEGER)  a <- 5  b <- 6` -/
def procRV : ProcDef := { name := "RV".toList, params := [("a".toList, .int, true), ("b".toList, .int, false)],
                          body := [asg "a" (lit 5) 2, asg "b" (lit 6) 3] }
/-- `PROCEDURE VR(BYVAL a : INTEGER, BYREF b : INTEGER)  a <- 5  b <- 6` -/
def procVR : ProcDef := { name := "VR".toList, params := [("a".toList, .int, false), ("b".toList, .int, true)],
                          body := [asg "a" (lit 5) 2, asg "b" (lit 6) 3] }

def slotZ : Slot := { name := "z".toList, ty := .int, val := .int 3 }
def globM : Act := { id := 0, name := "Program".toList, vars := [slotX, slotY, slotZ] }
/-- caller state: globals `x = 1`, `y = 7`, `z = 3` -/
def stM : St := { acts := [globM], procs := [procRR, procAL, procRV, procVR] }
def locZ : Loc := ⟨0, false, "z".toList, []⟩
def callS (name : String) (args : List Expr) : Stmt := .call callT name.toList args

/-- the hypotheses of the general binding theorem are satisfiable: `CALL RR(x, y)` binds `a` to `x` and `b` to `y` -/
example : (bindParams 5 callT procRR.params [var "x", var "y"] [.int 1, .int 7] []).run.run stM =
    (.ok [byrefSlot "a".toList (holderOf globM slotX) false, byrefSlot "b".toList (holderOf globM slotY) false], stM) :=
  C04_multi_bind_byref2 2 callT (tk "x") (tk "y") (tk "x") (tk "y") "a".toList "b".toList .int .int (.int 1) (.int 7) stM
    globM globM [] globM globM slotX slotY rfl rfl rfl rfl rfl rfl rfl rfl
/-- … and `CALL RR(x, x)` binds both to `x` (aliasing) -/
example : (bindParams 5 callT procRR.params [var "x", var "x"] [.int 1, .int 1] []).run.run stM =
    (.ok [byrefSlot "a".toList (holderOf globM slotX) false, byrefSlot "b".toList (holderOf globM slotX) false], stM) :=
  C04_multi_bind_byref2 2 callT (tk "x") (tk "x") (tk "x") (tk "x") "a".toList "b".toList .int .int (.int 1) (.int 1) stM
    globM globM [] globM globM slotX slotX rfl rfl rfl rfl rfl rfl rfl rfl
example : (bindParams 5 callT procRV.params [var "x", var "y"] [.int 1, .int 7] []).run.run stM =
    (.ok [byrefSlot "a".toList (holderOf globM slotX) false, byvalSlot "b".toList .int (.int 7)], stM) :=
  C04_multi_bind_byref_byval 2 callT (tk "x") (tk "x") "a".toList "b".toList .int .int (var "y") (.int 1) (.int 7) stM
    globM globM [] globM slotX rfl rfl rfl rfl rfl rfl
example : (bindParams 5 callT procVR.params [var "x", var "y"] [.int 1, .int 7] []).run.run stM =
    (.ok [byvalSlot "a".toList .int (.int 1), byrefSlot "b".toList (holderOf globM slotY) false], stM) :=
  C04_multi_bind_byval_byref 2 callT (tk "y") (tk "y") "a".toList "b".toList .int .int (var "x") (.int 1) (.int 7) stM
    globM globM [] globM slotY rfl rfl rfl rfl rfl rfl

/-- **Two BYREF parameters, two distinct variables (partial: fixed state and body).**  `CALL RR(x, y)` with body
    `a <- 5; b <- 6` ends normally with `x = 5` and `y = 6` in the caller's activation, the third variable `z` keeps 3,
    and the caller's activation (id 0) is the only one left.
    Missing: generality over state, names, values, right-hand sides. -/
theorem C04_multi_byref2_distinct_partial :
    ((execStmt 20 (callS "RR" [var "x", var "y"])).run.run stM).1 = .ok Val.none ∧
    readLocP ((execStmt 20 (callS "RR" [var "x", var "y"])).run.run stM).2 locX = .ok (.int 5) ∧
    readLocP ((execStmt 20 (callS "RR" [var "x", var "y"])).run.run stM).2 locY = .ok (.int 6) ∧
    readLocP ((execStmt 20 (callS "RR" [var "x", var "y"])).run.run stM).2 locZ = .ok (.int 3) ∧
    ((execStmt 20 (callS "RR" [var "x", var "y"])).run.run stM).2.acts.map (·.id) = [0] := ⟨rfl, rfl, rfl, rfl, rfl⟩

set_option maxHeartbeats 2000000 in
/-- **Two BYREF parameters aliasing the SAME variable (partial: fixed state and body).**  `CALL AL(x, x)` with body
    `a <- 5; y <- b; b <- 9`: the read of `b` after the write to `a` yields 5 (the write through `a` is immediately
    visible through `b`: the global `y` ends as 5), and the caller sees the last write, `x = 9`; `z` unchanged. -/
theorem C04_multi_byref2_alias_partial :
    ((execStmt 20 (callS "AL" [var "x", var "x"])).run.run stM).1 = .ok Val.none ∧
    readLocP ((execStmt 20 (callS "AL" [var "x", var "x"])).run.run stM).2 locY = .ok (.int 5) ∧
    readLocP ((execStmt 20 (callS "AL" [var "x", var "x"])).run.run stM).2 locX = .ok (.int 9) ∧
    readLocP ((execStmt 20 (callS "AL" [var "x", var "x"])).run.run stM).2 locZ = .ok (.int 3) := ⟨rfl, rfl, rfl, rfl⟩

/-- **BYREF then BYVAL in one call (partial: fixed state and body).**  `CALL RV(x, y)` with body `a <- 5; b <- 6`:
    the BYREF write is visible (`x = 5`), the BYVAL write is not (`y` keeps 7). -/
theorem C04_multi_byref_byval_partial :
    ((execStmt 20 (callS "RV" [var "x", var "y"])).run.run stM).1 = .ok Val.none ∧
    readLocP ((execStmt 20 (callS "RV" [var "x", var "y"])).run.run stM).2 locX = .ok (.int 5) ∧
    readLocP ((execStmt 20 (callS "RV" [var "x", var "y"])).run.run stM).2 locY = .ok (.int 7) ∧
    readLocP ((execStmt 20 (callS "RV" [var "x", var "y"])).run.run stM).2 locZ = .ok (.int 3) := ⟨rfl, rfl, rfl, rfl⟩

/-- **BYVAL then BYREF in one call (partial: fixed state and body).**  `CALL VR(x, y)` with body `a <- 5; b <- 6`:
    the BYVAL write is invisible (`x` keeps 1), the BYREF write is visible (`y = 6`). -/
theorem C04_multi_byval_byref_partial :
    ((execStmt 20 (callS "VR" [var "x", var "y"])).run.run stM).1 = .ok Val.none ∧
    readLocP ((execStmt 20 (callS "VR" [var "x", var "y"])).run.run stM).2 locX = .ok (.int 1) ∧
    readLocP ((execStmt 20 (callS "VR" [var "x", var "y"])).run.run stM).2 locY = .ok (.int 6) ∧
    readLocP ((execStmt 20 (callS "VR" [var "x", var "y"])).run.run stM).2 locZ = .ok (.int 3) := ⟨rfl, rfl, rfl, rfl⟩

/-- **The same variable passed BYREF and BYVAL in one call (partial).**  `CALL RV(x, x)`: the BYVAL copy was taken
    from `x` before the body ran, the BYREF write lands in `x` (5), the write to the copy (6) is lost. -/
theorem C04_multi_same_var_mixed_partial :
    ((execStmt 20 (callS "RV" [var "x", var "x"])).run.run stM).1 = .ok Val.none ∧
    readLocP ((execStmt 20 (callS "RV" [var "x", var "x"])).run.run stM).2 locX = .ok (.int 5) := ⟨rfl, rfl⟩

/-- **Carried-over passing mode, whole program** (lexer, parser, evaluator): `BYREF a : INTEGER, b : INTEGER` makes
    BOTH parameters BYREF; `BYREF a : INTEGER, BYVAL b : INTEGER` only the first; aliasing `CALL AL(x, x)`. -/
def progM : String :=
  "PROCEDURE RR(BYREF a : INTEGER, b : INTEGER)\n    a <- 5\n    b <- 6\nENDPROCEDURE\n" ++
  "PROCEDURE RV(BYREF a : INTEGER, BYVAL b : INTEGER)\n    a <- 5\n    b <- 6\nENDPROCEDURE\n" ++
  "PROCEDURE VR(BYVAL a : INTEGER, BYREF b : INTEGER)\n    a <- 5\n    b <- 6\nENDPROCEDURE\n" ++
  "PROCEDURE AL(BYREF a : INTEGER, b : INTEGER)\n    a <- 5\n    OUTPUT b\n    b <- 9\nENDPROCEDURE\n" ++
  "x <- 1\ny <- 7\nCALL RR(x, y)\nOUTPUT x, y\n" ++
  "x <- 1\ny <- 7\nCALL RV(x, y)\nOUTPUT x, y\n" ++
  "x <- 1\ny <- 7\nCALL VR(x, y)\nOUTPUT x, y\n" ++
  "x <- 1\nCALL AL(x, x)\nOUTPUT x\n"
theorem C04_multi_program_partial : (runFile {} progM.toList [] []).out = "56\n57\n16\n5\n9\n".toList := by decide +kernel

end C04MultiEx

end Pseudo
