import PseudoModel.Calendar
/-!
# C18 — DATE values are real calendar dates in chronological order

Model: `Pseudo.Calendar` (what `SETDATE`, date literals, `DAY/MONTH/YEAR`, `DAYINDEX`, the comparison key and
the printer compute, with the `std::chrono` narrowing made explicit and range-checked as the repaired code does).
All statements are for **all** integers `d m y` (no bound).
-/
namespace Pseudo.Calendar

/-- SETDATE / a literal yields a DATE exactly when (d, m, y) is a Gregorian date within the range of
    `std::chrono::year`; never for components that a narrowing conversion would have wrapped. -/
theorem C18_valid_iff (d m y : Int) :
    (∃ t, setDate d m y = some t) ↔ (ValidGregorian y m d ∧ -32767 ≤ y ∧ y ≤ 32767) := by
  unfold setDate validYMD yearOk ValidGregorian
  constructor
  · intro ⟨t, h⟩
    split at h
    · rename_i hv
      simp only [Bool.and_eq_true, decide_eq_true_eq] at hv
      omega
    · simp at h
  · intro h
    refine ⟨⟨y, m, d⟩, ?_⟩
    have : (decide (-32767 ≤ y) && decide (y ≤ 32767) && decide (1 ≤ m) && decide (m ≤ 12) && decide (1 ≤ d) &&
        decide (d ≤ daysInMonth y m)) = true := by
      simp only [Bool.and_eq_true, decide_eq_true_eq]; omega
    simp [this]

/-- DAY, MONTH and YEAR of the constructed date are the arguments themselves. -/
theorem C18_components (d m y : Int) (t : Date) (h : setDate d m y = some t) :
    t.d = d ∧ t.m = m ∧ t.y = y := by
  unfold setDate at h
  split at h
  · cases h; exact ⟨rfl, rfl, rfl⟩
  · simp at h

/-- components outside the calendar (where `unsigned char` / `short` narrowing would wrap) never yield a date -/
theorem C18_no_narrowing (d m y : Int) (h : d > 31 ∨ m > 12 ∨ d < 1 ∨ m < 1 ∨ y > 32767) : setDate d m y = none := by
  unfold setDate validYMD yearOk
  have hd : daysInMonth y m ≤ 31 := by unfold daysInMonth; split <;> (try split) <;> (try split) <;> omega
  have : (decide (-32767 ≤ y) && decide (y ≤ 32767) && decide (1 ≤ m) && decide (m ≤ 12) && decide (1 ≤ d) &&
        decide (d ≤ daysInMonth y m)) = false := by
    apply Bool.eq_false_iff.mpr
    simp only [ne_eq, Bool.and_eq_true, decide_eq_true_eq]
    omega
  simp [this]

theorem daysInMonth_pos (y m : Int) : 28 ≤ daysInMonth y m ∧ daysInMonth y m ≤ 31 := by
  unfold daysInMonth; split <;> (try split) <;> (try split) <;> omega

/-- the anchor: 1 January 1970 is day 0 and a Thursday (Sunday = 1 … → 5) -/
theorem C18_epoch : daysFromCivil 1970 1 1 = 0 ∧ dayIndex ⟨1970, 1, 1⟩ = 5 := by decide

/-- `daysFromCivil` advances by exactly one from any valid date to the next one (all years ≥ 1):
    within a month, across a month end, across a year end, leap years included. -/
theorem C18_next_day (t : Date) (hy : 1 ≤ t.y) (hv : ValidGregorian t.y t.m t.d) :
    daysFromCivil (next t).y (next t).m (next t).d = daysFromCivil t.y t.m t.d + 1 := by
  obtain ⟨y, m, d⟩ := t
  simp only at hy hv
  unfold ValidGregorian at hv
  obtain ⟨hm1, hm12, hd1, hdn⟩ := hv
  have hmcases : m = 1 ∨ m = 2 ∨ m = 3 ∨ m = 4 ∨ m = 5 ∨ m = 6 ∨ m = 7 ∨ m = 8 ∨ m = 9 ∨ m = 10 ∨ m = 11 ∨ m = 12 := by omega
  unfold next
  simp only
  by_cases hlt : d < daysInMonth y m
  · simp only [hlt, if_true]
    unfold daysFromCivil
    simp only
    rcases hmcases with h | h | h | h | h | h | h | h | h | h | h | h <;> subst h <;> simp <;> omega
  · simp only [hlt, if_false]
    have hde : d = daysInMonth y m := by omega
    by_cases hm : m < 12
    · simp only [hm, if_true]
      unfold daysFromCivil daysInMonth isLeap at *
      simp only at *
      rcases hmcases with h | h | h | h | h | h | h | h | h | h | h | h <;> subst h <;> simp at hde ⊢ <;>
        (try omega) <;> (split at hde <;> omega)
    · have hm' : m = 12 := by omega
      subst hm'
      simp only [show ¬ ((12 : Int) < 12) by omega, if_false]
      unfold daysFromCivil daysInMonth at *
      simp at hde ⊢
      omega

/-- hence the weekday index moves cyclically by one per day: together with the anchor, DAYINDEX is the true
    day of the week for every date reachable from 1/1/1970 (both directions, by `C18_next_day`). -/
theorem C18_dayindex_step (t : Date) (hy : 1 ≤ t.y) (hv : ValidGregorian t.y t.m t.d) :
    dayIndex (next t) = dayIndex t % 7 + 1 := by
  unfold dayIndex weekdayIdx
  rw [C18_next_day t hy hv]
  omega

theorem C18_dayindex_range (t : Date) : 1 ≤ dayIndex t ∧ dayIndex t ≤ 7 := by
  unfold dayIndex weekdayIdx; omega

/-- the comparison key is strictly monotone in chronological (lexicographic y, m, d) order on valid dates,
    so `<`, `<=`, `>`, `>=`, `=`, `<>` on the keys agree with chronological order. -/
theorem C18_key_mono (a b : Date) (ha : ValidGregorian a.y a.m a.d) (hb : ValidGregorian b.y b.m b.d) :
    key a < key b ↔ before a b := by
  unfold key before ValidGregorian at *
  have h1 := (daysInMonth_pos a.y a.m).2
  have h2 := (daysInMonth_pos b.y b.m).2
  constructor <;> intro h <;> omega

theorem C18_key_eq (a b : Date) (ha : ValidGregorian a.y a.m a.d) (hb : ValidGregorian b.y b.m b.d) :
    key a = key b ↔ a = b := by
  unfold key ValidGregorian at *
  have h1 := (daysInMonth_pos a.y a.m).2
  have h2 := (daysInMonth_pos b.y b.m).2
  constructor
  · intro h
    obtain ⟨ay, am, ad⟩ := a; obtain ⟨by', bm, bd⟩ := b
    simp only at *
    have : ay = by' := by omega
    have : am = bm := by omega
    have : ad = bd := by omega
    subst_vars; rfl
  · intro h; subst h; rfl

/-- a date prints as d/m/y -/
theorem C18_print (t : Date) : text t = intToStr t.d ++ ['/'] ++ intToStr t.m ++ ['/'] ++ intToStr t.y := rfl

/-! non-vacuity: a leap day is valid, the 29th of February 1900 is not, 257/1/2020 is rejected -/
example : setDate 29 2 2024 = some ⟨2024, 2, 29⟩ := by decide
example : setDate 29 2 1900 = none := by decide
example : setDate 257 1 2020 = none := by decide
example : ValidGregorian 2024 2 29 ∧ (1 : Int) ≤ 2024 := by unfold ValidGregorian; decide

end Pseudo.Calendar
