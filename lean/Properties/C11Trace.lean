import PseudoProofs.TraceLemmas
import PseudoProofs.FuelMono
/-!
# C11 (traceback) — a runtime error names the failing line in its own frame, then the line of each active call site

Informal clause: *"A runtime error's traceback names the line of the failing statement in its own frame and then the
line of each active call site, innermost first, ending at the main program."*

Model: a runtime diagnostic is built by `mkRuntime` (`rtErr t m`) from the activation stack `St.acts`; every
activation carries `switchTok : Option (Nat × Nat)`, the call position that `callProc` / `callFun` note in the CALLER
after they have bound the parameters, just before they run the callee, and clear after a normal return.

**History.**  The first proof attempt found the clause FALSE, in the model and in the interpreter: the position was
noted BEFORE the parameters were bound, and binding a BYREF argument whose index expression calls a function
(`CALL P(A[F(1)])`) made that nested call overwrite and then clear the note — the traceback of an error in `P` showed
`Program` without a line.  Interpreter repaired in `c59159a` (note after binding), model likewise;
`C11_trace_regression_byref_index_call` keeps the program.  With the repaired order clause (2a) below holds for ALL
argument lists.

1. **The frames of a diagnostic** (`C11_trace_frames`, `C11_trace_frames_sites`): `rtErr t m` executed with the stack
   `a₀ :: a₁ :: … :: aₙ` raises the diagnostic whose trace is `(a₀.name, t) :: (a₁.name, note a₁) :: … :: (aₙ.name, note aₙ)`.
2. **The notes are the active call sites**: (a) `C11_trace_callee_stack`: the body of a callee called at token `t`
   starts with the stack `callee :: caller' :: rest'` where `caller'` is the caller (same id, same name) WITH THE NOTE
   `(t.line, t.col)` and `rest'` are the caller's callers with their ids, names and notes; `CallChain` grows by the call
   position.  (b) `C11_trace_notes_preserved`: all 25 functions of the evaluator keep id, name of every activation and
   the note of every activation below the innermost one, however they end (`TraceLemmas.trace_all`).
3. **Nested calls** (`C11_trace_call_chain`, depth 1 / 2 / 3 instances, `C11_trace_program`): `CALL P₁()` at
   `t₀`, the body of `Pᵢ` starts with `CALL Pᵢ₊₁()` at `tᵢ`, the body of `P_k` raises a runtime error at `t`: the
   statement ends with the diagnostic whose trace is `[(P_k, t), (P_{k-1}, t_{k-1}), …, (P₁, t₁), (caller, t₀), …]`.
   Restriction: parameterless procedures, the `CALL` is the first statement of each body (anything may follow it).
4. **Propagation** (`C11_trace_error_propagates_unchanged` and the `C11_trace_propagates_*` family): no handler of the
   evaluator rewrites a diagnostic, with exactly two exceptions (`C11_trace_exception_notDefined` with
   `C11_trace_access_site`, and the `arrayDirect` case of `C11_trace_propagates_assign_rhs`), both restricted to
   diagnostics raised in the handler's own activation — a callee's diagnostic always propagates (second defect found
   here: before repair `4dfd619` a callee's `notDefined` could be swallowed, `C11_trace_regression_swallowed`);
   `runMain`, `runOn`, `runSource`, `runFile` report exactly that diagnostic.
-/
namespace Pseudo

open ArrayLemmas C07Copy TraceLemmas

/-! ## 1. the frames of a diagnostic -/

/-- **C11 (the traceback is read off the activation stack).**  `rtErr t m`, executed when the activations are
    `a :: parents` (innermost first), raises — without changing the state — the runtime diagnostic at `t` whose traceback
    is: the position of `t` under the name of the innermost activation, then, for each enclosing activation in order,
    its name with the call position noted in it (`TraceLemmas.frameOf`; 0, 0 when none is noted). -/
theorem C11_trace_frames {α : Type} (t : Tok) (m : Msg) (σ : St) (a : Act) (parents : List Act) (hacts : σ.acts = a :: parents) :
    ∃ d, (rtErr t m : M α).run.run σ = (.error (.diag d), σ) ∧ d.kind = .runtime ∧ d.msg = m ∧ d.line = t.line ∧ d.col = t.col ∧
      d.trace = { name := a.name, line := t.line, col := t.col } :: parents.map frameOf :=
  ⟨rtDiag σ t.line t.col m, run_rtErr t m σ, rtDiag_kind _ _ _ _, rtDiag_msg _ _ _ _, rtDiag_line _ _ _ _, rtDiag_col _ _ _ _,
    rtDiag_trace σ a parents hacts _ _ _⟩

/-- … when the enclosing activations carry the call positions `sites` (`CallChain sites σ`): frame `i + 1` is the name of
    the `i`-th enclosing activation with the `i`-th call position -/
theorem C11_trace_frames_sites {α : Type} (t : Tok) (m : Msg) (σ : St) (a : Act) (parents : List Act) (sites : List (Nat × Nat))
    (hacts : σ.acts = a :: parents) (hsites : CallChain sites σ) :
    ∃ d, (rtErr t m : M α).run.run σ = (.error (.diag d), σ) ∧ d.kind = .runtime ∧ d.msg = m ∧ d.line = t.line ∧ d.col = t.col ∧
      d.trace = { name := a.name, line := t.line, col := t.col } ::
        List.zipWith (fun p s => ({ name := p.name, line := s.1, col := s.2 } : Frame)) parents sites := by
  obtain ⟨d, h1, h2, h3, h4, h5, h6⟩ := C11_trace_frames (α := α) t m σ a parents hacts
  refine ⟨d, h1, h2, h3, h4, h5, ?_⟩
  rw [h6, frames_of_notes parents sites (by unfold CallChain at hsites; rw [hacts] at hsites; exact hsites)]

theorem frameOf_name (p : Act) : (frameOf p).name = p.name := by
  unfold frameOf; split <;> rfl

/-- the traceback has one entry per live activation, with the names of the activations, innermost first -/
theorem C11_trace_frames_names (t : Tok) (m : Msg) (σ : St) :
    (rtDiag σ t.line t.col m).trace.map (·.name) = σ.acts.map (·.name) := by
  cases hacts : σ.acts with
  | nil => unfold rtDiag; rw [hacts]; rfl
  | cons a parents =>
    rw [rtDiag_trace σ a parents hacts]
    simp only [List.map_cons, List.map_map, List.cons.injEq, true_and]
    apply List.map_congr_left
    intro p _
    exact frameOf_name p

/-! ## 2. the notes are the active call sites -/

/-- **C11 (b): nothing but a call of its own changes the note of an activation, and nothing changes a note below the
    innermost activation.**  Whatever function of the evaluator runs (any fuel, any arguments) and however it ends
    (normally, runtime error, BREAK / CONTINUE / RETURN signal, crash point, out of fuel): every activation has the id and
    the name it had, and every activation below the innermost one has the call position it had (`RTrace`).  In
    particular the traceback entries of the enclosing activations are the same before and after. -/
theorem C11_trace_notes_preserved (fuel : Nat) (σ : St) :
    (∀ s, RTrace σ ((execStmt fuel s).run.run σ).2) ∧
    (∀ b, RTrace σ ((runBlock fuel b).run.run σ).2) ∧
    (∀ e, RTrace σ ((evalExpr fuel e).run.run σ).2) ∧
    (∀ r, RTrace σ ((resolveRef fuel r).run.run σ).2) ∧
    (∀ es acc, RTrace σ ((evalArgs fuel es acc).run.run σ).2) ∧
    (∀ t ps es vs acc, RTrace σ ((bindParams fuel t ps es vs acc).run.run σ).2) ∧
    (∀ t name args, RTrace σ ((callProc fuel t name args).run.run σ).2) ∧
    (∀ t args, RTrace σ ((callFun fuel t args).run.run σ).2) :=
  have h := trace_all fuel
  ⟨fun s => ((h.execStmt s).run σ).1, fun b => ((h.runBlock b).run σ).1, fun e => ((h.evalExpr e).run σ).1,
   fun r => ((h.resolveRef r).run σ).1, fun es acc => ((h.evalArgs es acc).run σ).1,
   fun t ps es vs acc => ((h.bindParams t ps es vs acc).run σ).1, fun t n a => ((h.callProc t n a).run σ).1,
   fun t a => ((h.callFun t a).run σ).1⟩

/-- the enclosing activations carry the same call positions after any block as before -/
theorem C11_trace_callChain_preserved (fuel : Nat) (b : Block) (σ : St) (sites : List (Nat × Nat)) (h : CallChain sites σ) :
    CallChain sites ((runBlock fuel b).run.run σ).2 :=
  h.of_RTrace (runBlock_RTrace fuel b σ)

/-- **C11 (a): the stack with which the body of a callee starts.**  A call at token `t` (procedure or function: `mk` is
    the new activation) made when the activations are `cur :: rest`; `σ2` is the state after the parameters were bound
    (in the caller; ANY parameters and argument expressions, BYREF arguments with calls in index expressions included).
    The callee's body starts with `callee :: cur' :: rest'`, where `cur'` is the caller (same id, same name) carrying the
    position of the call token, and `rest'` are the caller's callers with the ids, names and call positions they had.
    Hence, if the caller's callers carried the call positions `sites`, the callee's carry `(t.line, t.col) :: sites`.
    (`TraceLemmas.run_callProc` / `run_callFun_user`: the body of the callee runs in exactly this state.) -/
theorem C11_trace_callee_stack (f : Nat) (t : Tok) (ps : List (Str × Ty × Bool)) (args : List Expr) (vals : List Val)
    (σ1 σ2 : St) (cur : Act) (rest : List Act) (slots : List Slot) (mk : Nat → Act)
    (hcur : σ1.acts = cur :: rest)
    (hbind : (bindParams f t ps args vals []).run.run σ1 = (.ok slots, σ2)) :
    (∃ cur' rest', (calleeSt mk (setSwitch σ2 cur.id t)).acts = mk σ2.nextId :: cur' :: rest' ∧
      cur'.id = cur.id ∧ cur'.name = cur.name ∧ cur'.switchTok = some (t.line, t.col) ∧
      rest'.map ident = rest.map ident ∧ rest'.map (·.switchTok) = rest.map (·.switchTok) ∧
      (cur' :: rest').map frameOf = { name := cur.name, line := t.line, col := t.col } :: rest.map frameOf) ∧
    (∀ sites, CallChain sites σ1 → CallChain ((t.line, t.col) :: sites) (calleeSt mk (setSwitch σ2 cur.id t))) := by
  have h : RTrace σ1 σ2 := by
    have := bindParams_RTrace f t ps args vals [] σ1
    rw [hbind] at this
    exact this
  have hfr := h.frames
  obtain ⟨hi, hs⟩ := h
  rw [hcur] at hi hs hfr
  cases hacts2 : σ2.acts with
  | nil => rw [hacts2] at hi; cases hi
  | cons cur₂ rest' =>
    rw [hacts2] at hi hs hfr
    simp only [List.map_cons, List.cons.injEq] at hi
    have hid : cur₂.id = cur.id := congrArg Prod.fst hi.1
    have hname : cur₂.name = cur.name := congrArg Prod.snd hi.1
    have hacts : (calleeSt mk (setSwitch σ2 cur.id t)).acts =
        mk σ2.nextId :: { cur₂ with switchTok := some (t.line, t.col) } :: rest' := by
      show mk σ2.nextId :: (setSwitch σ2 cur.id t).acts = _
      unfold setSwitch
      rw [← hid, updSt_head σ2 cur₂ rest' _ hacts2]
    have hs' : rest'.map (·.switchTok) = rest.map (·.switchTok) := hs
    have hfr' : rest'.map frameOf = rest.map frameOf := hfr
    refine ⟨⟨_, rest', hacts, hid, hname, rfl, hi.2, hs', ?_⟩, fun sites hsites => ?_⟩
    · rw [List.map_cons, hfr', frameOf_some _ t.line t.col rfl]
      show ({ name := cur₂.name, line := t.line, col := t.col } : Frame) :: _ = _
      rw [hname]
    · unfold CallChain at hsites ⊢
      rw [hacts]
      rw [hcur] at hsites
      simp only [List.drop_one, List.tail_cons, List.map_cons, List.cons.injEq, true_and] at hsites ⊢
      rw [hs']
      exact hsites

/-- **C11 (one call, general form): failing line in its own frame, then the line of the call, then the callers' call
    lines.**  A call at token `t` made when the activations are `cur :: rest` and the caller's callers carry the call
    positions `sites`; any parameters, any arguments (`σ2`: the state after binding).  If the body `b` of the callee
    (new activation `mk`), run in the state the call leads to, raises a runtime error by `rtErr t' m` at its own level
    (`σe`: the state in which the diagnostic was built = the state in which the body's run ends), the traceback is
    `(callee, t') :: (cur.name, t) :: ` the names of `rest` with `sites`.
    By `C11_trace_callee_stack` (second part) the hypothesis `CallChain` holds again for a call made from the callee's
    body (after whatever it executed before: `C11_trace_callChain_preserved`), so this describes every level of
    nesting; by section 4 the diagnostic reaches the top unchanged. -/
theorem C11_trace_error_in_callee (f g : Nat) (t t' : Tok) (m : Msg) (ps : List (Str × Ty × Bool)) (args : List Expr) (vals : List Val)
    (σ1 σ2 σe : St) (cur : Act) (rest : List Act) (slots : List Slot) (mk : Nat → Act) (b : Block) (sites : List (Nat × Nat))
    (hcur : σ1.acts = cur :: rest) (hsites : CallChain sites σ1)
    (hbind : (bindParams f t ps args vals []).run.run σ1 = (.ok slots, σ2))
    (hfail : (runBlock g b).run.run (calleeSt mk (setSwitch σ2 cur.id t)) = (.error (.diag (rtDiag σe t'.line t'.col m)), σe)) :
    (rtDiag σe t'.line t'.col m).trace =
      { name := (mk σ2.nextId).name, line := t'.line, col := t'.col } :: { name := cur.name, line := t.line, col := t.col } ::
        List.zipWith (fun p s => ({ name := p.name, line := s.1, col := s.2 } : Frame)) rest sites := by
  obtain ⟨⟨cur', rest', hacts, _, _, _, _, _, hframes⟩, _⟩ := C11_trace_callee_stack f t ps args vals σ1 σ2 cur rest slots mk hcur hbind
  have hR : RTrace (calleeSt mk (setSwitch σ2 cur.id t)) σe := by
    have := runBlock_RTrace g b (calleeSt mk (setSwitch σ2 cur.id t))
    rw [hfail] at this
    exact this
  have hfr := hR.frames
  have hid := hR.1
  rw [hacts] at hid hfr
  cases hacts_e : σe.acts with
  | nil => rw [hacts_e] at hid; cases hid
  | cons a' parents' =>
    rw [hacts_e] at hid hfr
    simp only [List.map_cons, List.cons.injEq] at hid
    have hn : a'.name = (mk σ2.nextId).name := congrArg Prod.snd hid.1
    have hp : parents'.map frameOf = (cur' :: rest').map frameOf := hfr
    rw [rtDiag_trace σe a' parents' hacts_e, hn, hp, hframes,
      frames_of_notes rest sites (by unfold CallChain at hsites; rw [hcur] at hsites; exact hsites)]

/-! ## 3. nested calls -/

/-- **C11 (nested procedure calls, any depth).**  `Chain procs b calls last` (`TraceLemmas.Chain`): the block `b` starts
    with `CALL P₁()` at token `t₀`, the body of `P₁` starts with `CALL P₂()` at `t₁`, …, the body of `P_k` is `last`
    (`calls = [(t₀, P₁), …, (t_{k-1}, P_k)]`; the procedures are parameterless, anything may follow the CALLs).
    Suppose the innermost body `last`, run in the state the nested calls lead to (`enterAll σ calls`), raises a runtime
    error by `rtErr t m` at its own level (the run ends in the state `σe` in which the diagnostic was built).
    Then `b`, run from `σ` (activations `cur :: rest`) with enough fuel, step and depth budget, ends with the diagnostic
    whose traceback is
    `(P_k, t) :: (P_{k-1}, t_{k-1}) :: … :: (P₁, t₁) :: (cur.name, t₀) :: ` the entries `rest` had
    (`innerName` / `callerFrames` spell this list out; see the depth 1 – 3 instances below). -/
theorem C11_trace_call_chain {procs : List ProcDef} {b last : Block} {calls : List (Tok × ProcDef)}
    (hc : Chain procs b calls last) (F fuel : Nat) (σ σe : St) (cur : Act) (rest : List Act) (t : Tok) (m : Msg)
    (hprocs : σ.procs = procs) (hacts : σ.acts = cur :: rest)
    (hsteps : σ.steps + calls.length ≤ σ.stepLimit) (hdepth : σ.depth + calls.length ≤ σ.depthLimit)
    (hfail : (runBlock F last).run.run (enterAll σ calls) = (.error (.diag (rtDiag σe t.line t.col m)), σe))
    (hfuel : F + 3 * calls.length ≤ fuel) :
    ∃ d σ', (runBlock fuel b).run.run σ = (.error (.diag d), σ') ∧
      d.kind = .runtime ∧ d.msg = m ∧ d.line = t.line ∧ d.col = t.col ∧
      d.trace = { name := innerName cur.name calls, line := t.line, col := t.col } ::
        callerFrames cur.name calls (rest.map frameOf) := by
  obtain ⟨F', rfl⟩ : ∃ F', F = F' + 1 := by
    cases F with
    | zero => rw [runBlock.eq_def] at hfail; cases hfail
    | succ F' => exact ⟨F', rfl⟩
  have hne : σ.acts ≠ [] := by rw [hacts]; exact List.cons_ne_nil _ _
  obtain ⟨σ', hrun⟩ := chain_propagates hc F' σ σe _ hprocs hne hsteps hdepth hfail
  have hrun' := runBlock_fuel_mono b (F' + 1 + 3 * calls.length) fuel (by omega) σ _ σ' hrun (by intro h; cases h)
  refine ⟨_, σ', hrun', rtDiag_kind _ _ _ _, rtDiag_msg _ _ _ _, rtDiag_line _ _ _ _, rtDiag_col _ _ _ _, ?_⟩
  -- the stack in which the diagnostic was built
  obtain ⟨a, parents, hin, hname, hframes⟩ := enterAll_acts calls σ cur rest hacts
  have hR : RTrace (enterAll σ calls) σe := by
    have := runBlock_RTrace (F' + 1) last (enterAll σ calls)
    rw [hfail] at this
    exact this
  have hfr := hR.frames
  have hid := hR.1
  rw [hin] at hid hfr
  cases hacts_e : σe.acts with
  | nil => rw [hacts_e] at hid; cases hid
  | cons a' parents' =>
    rw [hacts_e] at hid hfr
    simp only [List.map_cons, List.cons.injEq] at hid
    have hn : a'.name = a.name := congrArg Prod.snd hid.1
    rw [rtDiag_trace σe a' parents' hacts_e, hn, hname]
    have : parents'.map frameOf = parents.map frameOf := hfr
    rw [this, hframes]

/-- depth 1: `CALL P₁()` at `t₀`; the body of `P₁` fails at `t` -/
theorem C11_trace_call_depth1 (F fuel : Nat) (σ σe : St) (cur : Act) (rest : List Act) (t₀ t : Tok) (m : Msg) (p₁ : ProcDef)
    (post₀ : Block)
    (h₁ : σ.procs.find? (·.name == p₁.name) = some p₁) (hp₁ : p₁.params = [])
    (hacts : σ.acts = cur :: rest) (hsteps : σ.steps + 1 ≤ σ.stepLimit) (hdepth : σ.depth + 1 ≤ σ.depthLimit)
    (hfail : (runBlock F p₁.body).run.run (enter σ t₀ p₁) = (.error (.diag (rtDiag σe t.line t.col m)), σe))
    (hfuel : F + 3 ≤ fuel) :
    ∃ d σ', (runBlock fuel (.call t₀ p₁.name [] :: post₀)).run.run σ = (.error (.diag d), σ') ∧ d.kind = .runtime ∧ d.msg = m ∧
      d.trace = { name := p₁.name, line := t.line, col := t.col } :: { name := cur.name, line := t₀.line, col := t₀.col } ::
        rest.map frameOf := by
  obtain ⟨d, σ', h, hk, hm, _, _, ht⟩ := C11_trace_call_chain (procs := σ.procs)
    (Chain.call t₀ p₁ post₀ [] p₁.body h₁ hp₁ (Chain.here _)) F fuel σ σe cur rest t m rfl hacts hsteps hdepth hfail hfuel
  exact ⟨d, σ', h, hk, hm, ht⟩

/-- depth 2: `CALL P₁()` at `t₀`; the body of `P₁` starts with `CALL P₂()` at `t₁`; the body of `P₂` fails at `t` -/
theorem C11_trace_call_depth2 (F fuel : Nat) (σ σe : St) (cur : Act) (rest : List Act) (t₀ t₁ t : Tok) (m : Msg) (p₁ p₂ : ProcDef)
    (post₀ post₁ : Block)
    (h₁ : σ.procs.find? (·.name == p₁.name) = some p₁) (hp₁ : p₁.params = [])
    (h₂ : σ.procs.find? (·.name == p₂.name) = some p₂) (hp₂ : p₂.params = [])
    (hb₁ : p₁.body = .call t₁ p₂.name [] :: post₁)
    (hacts : σ.acts = cur :: rest) (hsteps : σ.steps + 2 ≤ σ.stepLimit) (hdepth : σ.depth + 2 ≤ σ.depthLimit)
    (hfail : (runBlock F p₂.body).run.run (enter (enter σ t₀ p₁) t₁ p₂) = (.error (.diag (rtDiag σe t.line t.col m)), σe))
    (hfuel : F + 6 ≤ fuel) :
    ∃ d σ', (runBlock fuel (.call t₀ p₁.name [] :: post₀)).run.run σ = (.error (.diag d), σ') ∧ d.kind = .runtime ∧ d.msg = m ∧
      d.trace = { name := p₂.name, line := t.line, col := t.col } :: { name := p₁.name, line := t₁.line, col := t₁.col } ::
        { name := cur.name, line := t₀.line, col := t₀.col } :: rest.map frameOf := by
  have hc : Chain σ.procs (.call t₀ p₁.name [] :: post₀) [(t₀, p₁), (t₁, p₂)] p₂.body :=
    Chain.call t₀ p₁ post₀ _ _ h₁ hp₁ (by rw [hb₁]; exact Chain.call t₁ p₂ post₁ [] _ h₂ hp₂ (Chain.here _))
  obtain ⟨d, σ', h, hk, hm, _, _, ht⟩ := C11_trace_call_chain hc F fuel σ σe cur rest t m rfl hacts hsteps hdepth hfail hfuel
  exact ⟨d, σ', h, hk, hm, ht⟩

/-- depth 3, from the main program (`rest = []`): four frames -/
theorem C11_trace_call_depth3_main (F fuel : Nat) (σ σe : St) (g : Act) (t₀ t₁ t₂ t : Tok) (m : Msg) (p₁ p₂ p₃ : ProcDef)
    (post₀ post₁ post₂ : Block)
    (h₁ : σ.procs.find? (·.name == p₁.name) = some p₁) (hp₁ : p₁.params = [])
    (h₂ : σ.procs.find? (·.name == p₂.name) = some p₂) (hp₂ : p₂.params = [])
    (h₃ : σ.procs.find? (·.name == p₃.name) = some p₃) (hp₃ : p₃.params = [])
    (hb₁ : p₁.body = .call t₁ p₂.name [] :: post₁) (hb₂ : p₂.body = .call t₂ p₃.name [] :: post₂)
    (hacts : σ.acts = [g]) (hsteps : σ.steps + 3 ≤ σ.stepLimit) (hdepth : σ.depth + 3 ≤ σ.depthLimit)
    (hfail : (runBlock F p₃.body).run.run (enter (enter (enter σ t₀ p₁) t₁ p₂) t₂ p₃) =
      (.error (.diag (rtDiag σe t.line t.col m)), σe))
    (hfuel : F + 9 ≤ fuel) :
    ∃ d σ', (runBlock fuel (.call t₀ p₁.name [] :: post₀)).run.run σ = (.error (.diag d), σ') ∧ d.kind = .runtime ∧ d.msg = m ∧
      d.trace = [{ name := p₃.name, line := t.line, col := t.col }, { name := p₂.name, line := t₂.line, col := t₂.col },
        { name := p₁.name, line := t₁.line, col := t₁.col }, { name := g.name, line := t₀.line, col := t₀.col }] := by
  have hc : Chain σ.procs (.call t₀ p₁.name [] :: post₀) [(t₀, p₁), (t₁, p₂), (t₂, p₃)] p₃.body :=
    Chain.call t₀ p₁ post₀ _ _ h₁ hp₁ (by
      rw [hb₁]; exact Chain.call t₁ p₂ post₁ _ _ h₂ hp₂ (by
        rw [hb₂]; exact Chain.call t₂ p₃ post₂ [] _ h₃ hp₃ (Chain.here _)))
  obtain ⟨d, σ', h, hk, hm, _, _, ht⟩ := C11_trace_call_chain hc F fuel σ σe g [] t m rfl hacts hsteps hdepth hfail hfuel
  exact ⟨d, σ', h, hk, hm, ht⟩

/-! ### a failing statement: `OUTPUT 1 DIV 0` -/

namespace C11TraceAux

theorem execStmt_output (f : Nat) (t : Tok) (es : List Expr) :
    execStmt (f+1) (.output t es) = (do tick t; outputAll f es; emit ['\n']; pure .none) := by
  rw [execStmt.eq_def]

theorem outputAll_cons (f : Nat) (e : Expr) (rest : List Expr) :
    outputAll (f+1) (e :: rest) = (do
      let v ← evalExpr f e
      match ← outputText v with
      | some s => emit s; outputAll f rest
      | none => rtErr e.tok .noValue) := by
  rw [outputAll.eq_def]; rfl

theorem run_scopeAct_head (σ : St) (a : Act) (r : List Act) (h : σ.acts = a :: r) (hc : a.isComp = false) :
    scopeAct.run.run σ = (.ok a, σ) := by
  unfold scopeAct
  rw [run_bind_ok _ _ _ _ _ (run_get σ), h]
  simp only [List.find?_cons, hc, Bool.not_false]
  rfl

/-- integer division by the literal 0: `divZero` at the operator token -/
theorem run_div0 (f : Nat) (dt l₁ l₀ : Tok) (n : Int) (σ : St) (a : Act) (r : List Act) (h : σ.acts = a :: r) (hc : a.isComp = false) :
    (evalExpr (f+2) (.arith dt .idiv (.intLit l₁ n) (.intLit l₀ 0))).run.run σ =
      (.error (.diag (rtDiag σ dt.line dt.col .divZero)), σ) := by
  obtain ⟨g, hg⟩ := exists_getLast a r
  rw [← h] at hg
  rw [evalExpr.eq_def]
  dsimp only
  rw [run_bind_ok _ _ _ _ _ (show (evalExpr (f+1) (.intLit l₁ n)).run.run σ = (.ok (.int n), σ) by rw [evalExpr_intLit]; rfl),
    run_bind_ok _ _ _ _ _ (show (evalExpr (f+1) (.intLit l₀ 0)).run.run σ = (.ok (.int 0), σ) by rw [evalExpr_intLit]; rfl),
    run_bind_ok _ _ _ _ _ (run_scopeAct_head σ a r h hc), run_bind_ok _ _ _ _ _ (run_globalAct_some σ g hg)]
  exact run_rtErr dt .divZero σ

/-- **`OUTPUT n DIV 0`** (first statement of a block, anything after it) in an activation that is not a record body:
    the statement is counted, then the runtime error `divZero` at the `DIV` token, built in that very state -/
theorem run_output_div0 (f : Nat) (ot dt l₁ l₀ : Tok) (n : Int) (more : Block) (σ : St) (a : Act) (r : List Act)
    (h : σ.acts = a :: r) (hc : a.isComp = false) (hsteps : σ.steps + 1 ≤ σ.stepLimit) :
    (runBlock (f+5) (.output ot [.arith dt .idiv (.intLit l₁ n) (.intLit l₀ 0)] :: more)).run.run σ =
      (.error (.diag (rtDiag (tickSt σ) dt.line dt.col .divZero)), tickSt σ) := by
  apply run_runBlock_cons_err (f+4)
  rw [execStmt_output, run_bind_ok _ _ _ _ _ (run_tick_ok ot σ hsteps)]
  apply run_bind_err
  rw [outputAll_cons]
  apply run_bind_err
  exact run_div0 f dt l₁ l₀ n (tickSt σ) a r h hc

/-! ### procedure definitions -/

theorem execStmt_procDef (f : Nat) (t : Tok) (name : Str) (params : List Param) (body : Block) :
    execStmt (f+1) (.procDef t name params body) = (do
      tick t
      if ((← get).procs.find? (·.name == name)).isSome then rtErr t .redeclared
      else
        let ps ← resolveParams f params []
        modify fun st => { st with procs := st.procs ++ [{ name := name, params := ps, body := body }] }
        pure .none) := by
  rw [execStmt.eq_def]

theorem resolveParams_nil (f : Nat) (acc : List (Str × Ty × Bool)) : resolveParams (f+1) [] acc = pure acc.reverse := by
  rw [resolveParams.eq_def]

/-- the state after a parameterless procedure has been defined -/
def defSt (σ : St) (pd : ProcDef) : St := { σ with steps := σ.steps + 1, procs := σ.procs ++ [pd] }

/-- `PROCEDURE name() body ENDPROCEDURE` where `name` is not yet a procedure: counted, recorded, nothing else -/
theorem run_procDef (f : Nat) (t : Tok) (pd : ProcDef) (σ : St) (hpar : pd.params = [])
    (hnew : σ.procs.find? (·.name == pd.name) = none) (hsteps : σ.steps + 1 ≤ σ.stepLimit) :
    (execStmt (f+2) (.procDef t pd.name [] pd.body)).run.run σ = (.ok .none, defSt σ pd) := by
  have hnew' : (tickSt σ).procs.find? (·.name == pd.name) = none := hnew
  rw [execStmt_procDef, run_bind_ok _ _ _ _ _ (run_tick_ok t σ hsteps), run_bind_ok _ _ _ _ _ (run_get _), hnew']
  simp only [Option.isSome_none, Bool.false_eq_true, if_false]
  rw [resolveParams_nil, run_bind_ok _ _ _ _ _ (run_pure _ _), run_bind_ok _ _ _ _ _ (run_modify _ _)]
  have : ({ name := pd.name, params := ([] : List (Str × Ty × Bool)).reverse, body := pd.body } : ProcDef) = pd := by
    cases pd; simp only [List.reverse_nil] at *; subst hpar; rfl
  rw [this]
  rfl

end C11TraceAux

/-- the statements `PROCEDURE name() body ENDPROCEDURE`, one per entry (token of the `PROCEDURE` keyword, definition) -/
def defStmts (defs : List (Tok × ProcDef)) : Block := defs.map fun p => .procDef p.1 p.2.name [] p.2.body

/-- the state after these definitions have been executed -/
def afterDefs (σ : St) (defs : List (Tok × ProcDef)) : St :=
  { σ with steps := σ.steps + defs.length, procs := σ.procs ++ defs.map (·.2) }

namespace C11TraceAux

theorem find_none_of_not_mem (procs : List ProcDef) (n : Str) (h : n ∉ procs.map (·.name)) :
    procs.find? (·.name == n) = none := by
  rw [List.find?_eq_none]
  intro pd hpd hn
  apply h
  have : pd.name = n := by simpa using hn
  rw [← this]
  exact List.mem_map_of_mem hpd

/-- a block that starts with definitions of new, pairwise different, parameterless procedures (outside the REPL) -/
theorem run_defs : ∀ (defs : List (Tok × ProcDef)) (tail : Block) (f : Nat) (σ : St),
    (∀ p ∈ defs, p.2.params = []) → (σ.procs.map (·.name) ++ defs.map (·.2.name)).Nodup → σ.repl = false →
    σ.steps + defs.length ≤ σ.stepLimit →
    (runBlock (f + 2 + defs.length) (defStmts defs ++ tail)).run.run σ = (runBlock (f + 2) tail).run.run (afterDefs σ defs)
  | [], tail, f, σ, _, _, _, _ => by
    have : afterDefs σ [] = σ := by
      unfold afterDefs; simp only [List.length_nil, Nat.add_zero, List.map_nil, List.append_nil]
    rw [this]; rfl
  | p :: defs, tail, f, σ, hpar, hnd, hrepl, hsteps => by
    simp only [List.length_cons] at hsteps
    have hnotin : p.2.name ∉ σ.procs.map (·.name) := by
      intro hmem
      rw [List.map_cons] at hnd
      have := (List.nodup_append.mp hnd).2.2 _ hmem _ List.mem_cons_self
      exact this rfl
    have hstmt := run_procDef (f + defs.length) p.1 p.2 σ (hpar p List.mem_cons_self)
      (find_none_of_not_mem _ _ hnotin) (by omega)
    have hfuel : f + 2 + (defs.length + 1) = (f + defs.length + 2) + 1 := by omega
    have hfuel' : f + defs.length + 2 = f + 2 + defs.length := by omega
    simp only [List.length_cons]
    rw [hfuel]
    show (runBlock (f + defs.length + 2 + 1) (.procDef p.1 p.2.name [] p.2.body :: (defStmts defs ++ tail))).run.run σ = _
    rw [run_runBlock_cons_ok (f + defs.length + 2) _ _ .none σ (defSt σ p.2) hstmt (.inl rfl), hfuel']
    have hnd' : ((defSt σ p.2).procs.map (·.name) ++ defs.map (·.2.name)).Nodup := by
      show ((σ.procs ++ [p.2]).map (·.name) ++ defs.map (·.2.name)).Nodup
      rw [List.map_append, List.append_assoc]
      exact hnd
    rw [run_defs defs tail f (defSt σ p.2) (fun q hq => hpar q (List.mem_cons_of_mem _ hq)) hnd' hrepl
      (by show σ.steps + 1 + defs.length ≤ σ.stepLimit; omega)]
    have : afterDefs (defSt σ p.2) defs = afterDefs σ (p :: defs) := by
      unfold afterDefs defSt
      simp only [List.length_cons, List.map_cons, List.append_assoc, List.singleton_append]
      have : σ.steps + 1 + defs.length = σ.steps + (defs.length + 1) := by omega
      rw [this]
    rw [this]

end C11TraceAux

/-! ## 4. propagation: no handler rewrites a diagnostic -/

/-- `runMain` (`MainBlock::run`) passes a diagnostic on as it is (it only converts a stray BREAK / CONTINUE / RETURN) -/
theorem C11_trace_propagates_runMain (fuel : Nat) (b : Block) (σ σ' : St) (d : Diag)
    (h : (runBlock fuel b).run.run σ = (.error (.diag d), σ')) : (runMain fuel b).run.run σ = (.error (.diag d), σ') := by
  unfold runMain
  rw [run_tryCatch_err _ _ _ _ _ h]
  rfl

/-- `runOn` reports exactly the diagnostic `runMain` ended with -/
theorem C11_trace_runOn_reports (fuel : Nat) (b : Block) (σ σ' : St) (d : Diag)
    (h : (runMain fuel b).run.run σ = (.error (.diag d), σ')) : runOn fuel b σ = (.diag d, σ') := by
  rw [runOn_eq, h]
  rfl

/-- `runSource` (lex, parse, run: one file or one REPL entry) reports exactly that diagnostic; the only thing it adds is
    a line break on the standard output -/
theorem C11_trace_runSource_reports (cfg : Cfg) (src : Str) (st σ' : St) (toks : List Tok) (b : Block) (warns : List Tok) (d : Diag)
    (hl : lex { pedantic := cfg.pedantic } src = .ok toks) (hp : parse { pedantic := cfg.pedantic } toks = .ok (b, warns))
    (h : (runMain cfg.fuel b).run.run { st with out := (warns.map warningText).reverse ++ st.out } = (.error (.diag d), σ')) :
    runSource cfg src st = (.diag d, { σ' with out := ['\n'] :: σ'.out }) := by
  unfold runSource
  rw [hl]
  simp only [hp]
  rw [C11_trace_runOn_reports cfg.fuel b _ σ' d h]

/-- the state in which a program file starts -/
def fileSt (cfg : Cfg) (fs : List (Str × FsNode)) (stdin : Str) : St :=
  { St.init fs stdin cfg.pedantic false with stdinEof := false, stepLimit := cfg.stepLimit, depthLimit := cfg.depthLimit }

/-- file mode: the run reports that one diagnostic (unless it is the model's own budget message) and ends with status 1 -/
theorem C11_trace_runFile_reports (cfg : Cfg) (content : Str) (fs : List (Str × FsNode)) (stdin : Str) (σ' : St)
    (toks : List Tok) (b : Block) (warns : List Tok) (d : Diag)
    (hl : lex { pedantic := cfg.pedantic } (content ++ ['\n']) = .ok toks)
    (hp : parse { pedantic := cfg.pedantic } toks = .ok (b, warns))
    (h : (runMain cfg.fuel b).run.run { fileSt cfg fs stdin with out := (warns.map warningText).reverse ++ (fileSt cfg fs stdin).out } =
      (.error (.diag d), σ'))
    (hb : isBudget d = false) :
    (runFile cfg content fs stdin).diags = [d] ∧ (runFile cfg content fs stdin).exitCode = 1 := by
  have hs := C11_trace_runSource_reports cfg (content ++ ['\n']) (fileSt cfg fs stdin) σ' toks b warns d hl hp h
  unfold runFile runFileOn
  unfold fileSt at hs
  simp only [hs, resultOf, hb]
  exact ⟨rfl, rfl⟩

/-- **C11 (whole program).**  A program that consists of the definitions of pairwise different, parameterless
    procedures (`defStmts defs`) followed by a block `b` that starts the chain of nested calls `calls` (`Chain`, see
    `C11_trace_call_chain`; the procedures of the chain are among those defined), run outside the REPL from `σ₀`
    (activations `cur :: rest`; for a program file `[Program]`): when the innermost body raises a runtime error at `t`, the
    program (`runMain`) ends with the diagnostic whose traceback is
    `(P_k, t) :: (P_{k-1}, t_{k-1}) :: … :: (P₁, t₁) :: (cur.name, t₀) :: …`. -/
theorem C11_trace_program (defs calls : List (Tok × ProcDef)) (b last : Block) (F fuel : Nat) (σ₀ σe : St) (cur : Act)
    (rest : List Act) (t : Tok) (m : Msg)
    (hpar : ∀ p ∈ defs, p.2.params = []) (hnodup : (σ₀.procs.map (·.name) ++ defs.map (·.2.name)).Nodup)
    (hc : Chain (σ₀.procs ++ defs.map (·.2)) b calls last)
    (hrepl : σ₀.repl = false) (hacts : σ₀.acts = cur :: rest)
    (hsteps : σ₀.steps + defs.length + calls.length ≤ σ₀.stepLimit) (hdepth : σ₀.depth + calls.length ≤ σ₀.depthLimit)
    (hfail : (runBlock F last).run.run (enterAll (afterDefs σ₀ defs) calls) = (.error (.diag (rtDiag σe t.line t.col m)), σe))
    (hfuel : F + 3 * calls.length + 2 + defs.length ≤ fuel) :
    ∃ d σ', (runMain fuel (defStmts defs ++ b)).run.run σ₀ = (.error (.diag d), σ') ∧
      d.kind = .runtime ∧ d.msg = m ∧ d.line = t.line ∧ d.col = t.col ∧
      d.trace = { name := innerName cur.name calls, line := t.line, col := t.col } ::
        callerFrames cur.name calls (rest.map frameOf) := by
  obtain ⟨d, σ', hrun, h1, h2, h3, h4, h5⟩ := C11_trace_call_chain hc F (F + 3 * calls.length + 2) (afterDefs σ₀ defs) σe cur rest t m
    rfl hacts (by show σ₀.steps + defs.length + calls.length ≤ σ₀.stepLimit; exact hsteps) hdepth hfail (by omega)
  have hdefs := C11TraceAux.run_defs defs b (F + 3 * calls.length) σ₀ hpar hnodup hrepl (by omega)
  rw [hrun] at hdefs
  have hmono := runBlock_fuel_mono (defStmts defs ++ b) _ fuel hfuel σ₀ _ σ' hdefs (by intro h; cases h)
  exact ⟨d, σ', C11_trace_propagates_runMain fuel _ σ₀ σ' d hmono, h1, h2, h3, h4, h5⟩

/-! ### the constructs a diagnostic passes on its way up

Every construct of the evaluator is a sequence of binds (`C11_trace_propagates_bind`) except the handlers:
`withAct` (removes the callee's activation, rethrows), the handlers around a procedure / function body (`procBody`,
`funBlock`: BREAK / CONTINUE / RETURN only), `loopBody` (BREAK / CONTINUE only), `runMain` (BREAK / CONTINUE / RETURN
only), `catchNotDefined` (three uses: reading a reference, the target of an assignment, the target of INPUT) and the
handler around the right-hand side of an assignment (`arrayDirect`).  The last two are the exceptions (section 5). -/

/-- a bind passes the diagnostic of its first part on; what would have followed is not run -/
theorem C11_trace_propagates_bind {α β : Type} (m : M α) (k : α → M β) (σ σ' : St) (d : Diag)
    (h : m.run.run σ = (.error (.diag d), σ')) : (m >>= k).run.run σ = (.error (.diag d), σ') :=
  run_bind_err m k σ σ' _ h

/-- the activation bracket removes the callee's activation and rethrows the same diagnostic -/
theorem C11_trace_propagates_withAct {α : Type} (mk : Nat → Act) (body : M α) (σ σ' : St) (d : Diag)
    (h : body.run.run (pushSt mk σ) = (.error (.diag d), σ')) : (withAct mk body).run.run σ = (.error (.diag d), popSt σ') := by
  rw [run_withAct, h]

theorem C11_trace_propagates_procBody (f : Nat) (body : Block) (σ σ' : St) (d : Diag)
    (h : (runBlock f body).run.run σ = (.error (.diag d), σ')) : (procBody f body).run.run σ = (.error (.diag d), σ') := by
  rw [run_procBody, h]; rfl

theorem C11_trace_propagates_funBlock (f : Nat) (body : Block) (σ σ' : St) (d : Diag)
    (h : (runBlock f body).run.run σ = (.error (.diag d), σ')) : (funBlock f body).run.run σ = (.error (.diag d), σ') := by
  rw [run_funBlock, h]; rfl

/-- **through a procedure call**: a diagnostic with which the body ends is the diagnostic with which the call ends (the
    callee's activation is removed; the caller keeps the note of the call position) -/
theorem C11_trace_propagates_callProc (f : Nat) (t : Tok) (name : Str) (args : List Expr) (σ σ1 σ2 σ4 : St) (pd : ProcDef)
    (vals : List Val) (cur : Act) (rest : List Act) (slots : List Slot) (d : Diag)
    (hpd : σ.procs.find? (·.name == name) = some pd)
    (hargs : (evalArgs f args []).run.run σ = (.ok vals, σ1))
    (hlen : vals.length = pd.params.length)
    (hdepth : σ1.depth + 1 ≤ σ1.depthLimit)
    (hcur : σ1.acts = cur :: rest)
    (hbind : (bindParams f t pd.params args vals []).run.run σ1 = (.ok slots, σ2))
    (hbody : (runBlock f pd.body).run.run (calleeSt (procAct pd slots) (setSwitch σ2 cur.id t)) = (.error (.diag d), σ4)) :
    (callProc (f+1) t name args).run.run σ = (.error (.diag d), popSt σ4) := by
  rw [run_callProc f t name args σ σ1 σ2 pd vals cur rest slots hpd hargs hlen hdepth hcur hbind, hbody]
  rfl

/-- **through a call of a user-defined function** -/
theorem C11_trace_propagates_callFun (f : Nat) (t : Tok) (args : List Expr) (σ σ1 σ2 σ4 : St) (fd : FunDef) (body : Block)
    (defTok : Tok) (vals : List Val) (cur : Act) (rest : List Act) (slots : List Slot) (d : Diag)
    (hfd : funLookup σ t.val = some fd) (hbody : fd.body = .user body defTok)
    (hargs : (evalArgs f args []).run.run σ = (.ok vals, σ1))
    (hlen : vals.length = fd.params.length)
    (hdepth : σ1.depth + 1 ≤ σ1.depthLimit)
    (hcur : σ1.acts = cur :: rest)
    (hbind : (bindParams f t fd.params args vals []).run.run σ1 = (.ok slots, σ2))
    (hrun : (runBlock f body).run.run (calleeSt (funAct fd slots) (setSwitch σ2 cur.id t)) = (.error (.diag d), σ4)) :
    (callFun (f+1) t args).run.run σ = (.error (.diag d), popSt σ4) := by
  rw [run_callFun_user f t args σ σ1 σ2 fd body defTok vals cur rest slots hfd hbody hargs hlen hdepth hcur hbind, hrun]
  rfl

/-- the statement `CALL` -/
theorem C11_trace_propagates_stmt_call (f : Nat) (t : Tok) (name : Str) (args : List Expr) (σ σ' : St) (d : Diag)
    (hsteps : σ.steps + 1 ≤ σ.stepLimit)
    (h : (callProc f t name args).run.run (tickSt σ) = (.error (.diag d), σ')) :
    (execStmt (f+1) (.call t name args)).run.run σ = (.error (.diag d), σ') := by
  rw [execStmt_call, run_bind_ok _ _ _ _ _ (run_tick_ok t σ hsteps)]
  exact run_bind_err _ _ _ _ _ h

/-- a block: the failing statement is the first one … -/
theorem C11_trace_propagates_runBlock_head (f : Nat) (s : Stmt) (rest : Block) (σ σ' : St) (d : Diag)
    (h : (execStmt f s).run.run σ = (.error (.diag d), σ')) : (runBlock (f+1) (s :: rest)).run.run σ = (.error (.diag d), σ') :=
  run_runBlock_cons_err f s rest _ σ σ' h

/-- … or a later one (outside the REPL, or after a statement proper) -/
theorem C11_trace_propagates_runBlock_tail (f : Nat) (s : Stmt) (rest : Block) (v : Val) (σ σ1 σ' : St) (d : Diag)
    (hs : (execStmt f s).run.run σ = (.ok v, σ1)) (hv : v = .none ∨ σ1.repl = false)
    (h : (runBlock f rest).run.run σ1 = (.error (.diag d), σ')) : (runBlock (f+1) (s :: rest)).run.run σ = (.error (.diag d), σ') := by
  rw [run_runBlock_cons_ok f s rest v σ σ1 hs hv, h]

/-- a loop body (the handler looks at BREAK / CONTINUE only) -/
theorem C11_trace_propagates_loopBody (f : Nat) (b : Block) (σ σ' : St) (d : Diag)
    (h : (runBlock f b).run.run σ = (.error (.diag d), σ')) : (loopBody (f+1) b).run.run σ = (.error (.diag d), σ') := by
  rw [loopBody_succ, run_tryCatch_err _ _ _ _ _ (run_bind_err _ _ _ _ _ h)]
  rfl

/-- WHILE: the iteration in which the body fails -/
theorem C11_trace_propagates_while (f : Nat) (t : Tok) (c : Expr) (b : Block) (σ σ1 σ' : St) (d : Diag)
    (hsteps : σ.steps + 1 ≤ σ.stepLimit) (hc : (evalExpr f c).run.run (tickSt σ) = (.ok (.bool true), σ1))
    (h : (loopBody f b).run.run σ1 = (.error (.diag d), σ')) : (whileLoop (f+1) t c b).run.run σ = (.error (.diag d), σ') := by
  rw [whileLoop_succ, run_bind_ok _ _ _ _ _ (run_tick_ok t σ hsteps), run_bind_ok _ _ _ _ _ hc]
  exact run_bind_err _ _ _ _ _ h

/-- WHILE: an iteration that ends normally (no BREAK) is followed by the next one -/
theorem C11_trace_while_next (f : Nat) (t : Tok) (c : Expr) (b : Block) (σ σ1 σ2 : St)
    (hsteps : σ.steps + 1 ≤ σ.stepLimit) (hc : (evalExpr f c).run.run (tickSt σ) = (.ok (.bool true), σ1))
    (h : (loopBody f b).run.run σ1 = (.ok false, σ2)) : (whileLoop (f+1) t c b).run.run σ = (whileLoop f t c b).run.run σ2 := by
  rw [whileLoop_succ, run_bind_ok _ _ _ _ _ (run_tick_ok t σ hsteps), run_bind_ok _ _ _ _ _ hc]
  dsimp only
  rw [run_bind_ok _ _ _ _ _ h]
  rfl

/-- REPEAT: the iteration in which the body fails -/
theorem C11_trace_propagates_repeat (f : Nat) (t : Tok) (b : Block) (c : Expr) (σ σ' : St) (d : Diag)
    (hsteps : σ.steps + 1 ≤ σ.stepLimit)
    (h : (loopBody f b).run.run (tickSt σ) = (.error (.diag d), σ')) : (repeatLoop (f+1) t b c).run.run σ = (.error (.diag d), σ') := by
  rw [repeatLoop_succ, run_bind_ok _ _ _ _ _ (run_tick_ok t σ hsteps)]
  exact run_bind_err _ _ _ _ _ h

/-- FOR: the iteration in which the body fails -/
theorem C11_trace_propagates_for (f : Nat) (t : Tok) (it : Loc) (stop step i : Int) (b : Block) (σ σ' : St) (d : Diag)
    (hit : readLocP σ it = .ok (.int i)) (hin : ((step < 0 && i ≥ stop) || (!(step < 0) && i ≤ stop)) = true)
    (hsteps : σ.steps + 1 ≤ σ.stepLimit)
    (h : (loopBody f b).run.run (tickSt σ) = (.error (.diag d), σ')) :
    (forLoop (f+1) t it stop step b).run.run σ = (.error (.diag d), σ') := by
  rw [forLoop_succ, run_bind_ok _ _ _ _ _ (by rw [run_readLoc, hit])]
  simp only [hin, if_true]
  rw [run_bind_ok _ _ _ _ _ (run_tick_ok t σ hsteps)]
  exact run_bind_err _ _ _ _ _ h

/-- IF: the branch that is taken fails -/
theorem C11_trace_propagates_if (f : Nat) (t : Tok) (c : Expr) (b : Block) (rest : List (Expr × Block)) (els : Option Block)
    (σ σ1 σ' : St) (d : Diag) (hc : (evalExpr f c).run.run σ = (.ok (.bool true), σ1))
    (h : (runBlock f b).run.run σ1 = (.error (.diag d), σ')) :
    (ifChain (f+1) t ((c, b) :: rest) els).run.run σ = (.error (.diag d), σ') := by
  rw [ifChain_cons, run_bind_ok _ _ _ _ _ hc]
  exact h

/-- IF: a condition that is false hands over to the remaining branches -/
theorem C11_trace_if_next (f : Nat) (t : Tok) (c : Expr) (b : Block) (rest : List (Expr × Block)) (els : Option Block)
    (σ σ1 : St) (hc : (evalExpr f c).run.run σ = (.ok (.bool false), σ1)) :
    (ifChain (f+1) t ((c, b) :: rest) els).run.run σ = (ifChain f t rest els).run.run σ1 := by
  rw [ifChain_cons, run_bind_ok _ _ _ _ _ hc]

/-- IF: the ELSE branch -/
theorem C11_trace_if_else (f : Nat) (t : Tok) (b : Block) : ifChain (f+1) t [] (some b) = runBlock f b := by
  rw [ifChain_nil]

/-- CASE: the clause that matches fails -/
theorem C11_trace_propagates_case (f : Nat) (v : Val) (cl : Clause) (rest : List Clause) (b : Block) (σ σ1 σ' : St) (d : Diag)
    (hm : (caseMatch f v cl).run.run σ = (.ok (some b), σ1))
    (h : (runBlock f b).run.run σ1 = (.error (.diag d), σ')) :
    (caseClauses (f+1) v (cl :: rest)).run.run σ = (.error (.diag d), σ') := by
  rw [caseClauses_cons, run_bind_ok _ _ _ _ _ hm]
  exact h

namespace C11TraceAux
theorem execStmt_ifs (f : Nat) (t : Tok) (bs : List (Expr × Block)) (els : Option Block) :
    execStmt (f+1) (.ifs t bs els) = (do tick t; ifChain f t bs els; pure .none) := by rw [execStmt.eq_def]
theorem execStmt_while (f : Nat) (t : Tok) (c : Expr) (b : Block) :
    execStmt (f+1) (.while t c b) = (do tick t; whileLoop f t c b; pure .none) := by rw [execStmt.eq_def]
theorem execStmt_repeat (f : Nat) (t : Tok) (b : Block) (c : Expr) :
    execStmt (f+1) (.repeat t b c) = (do tick t; repeatLoop f t b c; pure .none) := by rw [execStmt.eq_def]
end C11TraceAux

/-- the statements IF, WHILE, REPEAT: one step is counted, then the construct runs; its diagnostic is the statement's -/
theorem C11_trace_propagates_stmt_wrappers (f : Nat) (t : Tok) (σ σ' : St) (d : Diag) (hsteps : σ.steps + 1 ≤ σ.stepLimit) :
    (∀ bs els, (ifChain f t bs els).run.run (tickSt σ) = (.error (.diag d), σ') →
      (execStmt (f+1) (.ifs t bs els)).run.run σ = (.error (.diag d), σ')) ∧
    (∀ c b, (whileLoop f t c b).run.run (tickSt σ) = (.error (.diag d), σ') →
      (execStmt (f+1) (.while t c b)).run.run σ = (.error (.diag d), σ')) ∧
    (∀ b c, (repeatLoop f t b c).run.run (tickSt σ) = (.error (.diag d), σ') →
      (execStmt (f+1) (.repeat t b c)).run.run σ = (.error (.diag d), σ')) := by
  refine ⟨fun bs els h => ?_, fun c b h => ?_, fun b c h => ?_⟩
  · rw [C11TraceAux.execStmt_ifs, run_bind_ok _ _ _ _ _ (run_tick_ok t σ hsteps)]; exact run_bind_err _ _ _ _ _ h
  · rw [C11TraceAux.execStmt_while, run_bind_ok _ _ _ _ _ (run_tick_ok t σ hsteps)]; exact run_bind_err _ _ _ _ _ h
  · rw [C11TraceAux.execStmt_repeat, run_bind_ok _ _ _ _ _ (run_tick_ok t σ hsteps)]; exact run_bind_err _ _ _ _ _ h

/-! ## 5. the two handlers that look at a diagnostic -/

/-- the handler `catchNotDefined` (reading a reference; the target of an assignment; the target of INPUT) passes every
    diagnostic on that is not a runtime diagnostic of class `notDefined` raised in the current activation (a traceback has
    one frame per live activation: "raised in the current activation" = as many frames as there are activations when
    the handler runs) -/
theorem C11_trace_propagates_catchNotDefined {α : Type} (m : M α) (h : Stop → M α) (σ σ' : St) (d : Diag)
    (hm : m.run.run σ = (.error (.diag d), σ'))
    (hno : ¬ (d.kind = .runtime ∧ d.msg = .notDefined ∧ d.trace.length = σ'.acts.length)) :
    (catchNotDefined m h).run.run σ = (.error (.diag d), σ') := by
  unfold catchNotDefined
  rw [run_tryCatch_err _ _ _ _ _ hm]
  dsimp only
  split
  · rename_i hc
    simp only [Bool.and_eq_true, beq_iff_eq] at hc
    rw [run_bind_ok _ _ _ _ _ (run_get σ')]
    have hl : (d.trace.length == σ'.acts.length) = false := by
      cases hq : (d.trace.length == σ'.acts.length) with
      | false => rfl
      | true => exact absurd ⟨hc.1, hc.2, by simpa using hq⟩ hno
    simp only [hl, Bool.false_eq_true, if_false]
    rfl
  · rfl

/-- … in particular **a diagnostic raised inside a callee always passes** (its traceback is longer than the stack of the
    activation in which the handler runs), whatever its class -/
theorem C11_trace_propagates_catchNotDefined_callee {α : Type} (m : M α) (h : Stop → M α) (σ σ' : St) (d : Diag)
    (hm : m.run.run σ = (.error (.diag d), σ')) (hlen : σ'.acts.length < d.trace.length) :
    (catchNotDefined m h).run.run σ = (.error (.diag d), σ') :=
  C11_trace_propagates_catchNotDefined m h σ σ' d hm (fun ⟨_, _, hl⟩ => by omega)

/-- **exception 1**: a runtime diagnostic of class `notDefined` raised in the current activation (traceback length = number
    of live activations) that reaches `catchNotDefined` is handed to the handler `h` (what `h` does depends on the use,
    see `C11_trace_access_site`, `C11_trace_propagates_assign_target`) -/
theorem C11_trace_exception_notDefined {α : Type} (m : M α) (h : Stop → M α) (σ σ' : St) (d : Diag)
    (hm : m.run.run σ = (.error (.diag d), σ')) (hk : d.kind = .runtime) (hmsg : d.msg = .notDefined)
    (hlen : d.trace.length = σ'.acts.length) :
    (catchNotDefined m h).run.run σ = (h (.diag d)).run.run σ' := by
  unfold catchNotDefined
  rw [run_tryCatch_err _ _ _ _ _ hm]
  simp only [hk, hmsg, beq_self_eq_true, Bool.and_self, if_true]
  rw [run_bind_ok _ _ _ _ _ (run_get σ')]
  simp only [hlen, beq_self_eq_true, if_true]

/-- **reading a reference** `.access t r` whose resolution ends with the diagnostic `d`:
    1. `d` is not a runtime `notDefined` raised in the current activation — in particular every diagnostic raised inside a
       function called from an index expression: the same `d`;
    2. it is, and the token `t` (the first identifier of the reference) is not the name of an enum element: the same `d`;
    3. it is, and `t` names an enum element `v`: no error, the expression evaluates to `v` (`AccessNode::evaluate` falls
       back to the enum element for a bare name that is no variable).
    (Before repair `4dfd619` case 3 also swallowed a `notDefined` raised in a callee: `C11_trace_regression_swallowed`.) -/
theorem C11_trace_access_site (f : Nat) (t : Tok) (r : Ref) (σ σ' : St) (d : Diag)
    (hr : (resolveRef f r).run.run σ = (.error (.diag d), σ')) :
    (¬ (d.kind = .runtime ∧ d.msg = .notDefined ∧ d.trace.length = σ'.acts.length) →
      (evalExpr (f+1) (.access t r)).run.run σ = (.error (.diag d), σ')) ∧
    (σ'.acts.length < d.trace.length → (evalExpr (f+1) (.access t r)).run.run σ = (.error (.diag d), σ')) ∧
    (d.kind = .runtime → d.msg = .notDefined → d.trace.length = σ'.acts.length →
      (getEnumElement t.val).run.run σ' = (.ok none, σ') →
      (evalExpr (f+1) (.access t r)).run.run σ = (.error (.diag d), σ')) ∧
    (d.kind = .runtime → d.msg = .notDefined → d.trace.length = σ'.acts.length →
      ∀ v, (getEnumElement t.val).run.run σ' = (.ok (some v), σ') →
      (evalExpr (f+1) (.access t r)).run.run σ = (.ok v, σ')) := by
  have hm : (resolveRef f r >>= fun h => pure (some h)).run.run σ = (.error (.diag d), σ') := run_bind_err _ _ _ _ _ hr
  have h1 : ¬ (d.kind = .runtime ∧ d.msg = .notDefined ∧ d.trace.length = σ'.acts.length) →
      (evalExpr (f+1) (.access t r)).run.run σ = (.error (.diag d), σ') := by
    intro hno
    rw [evalExpr_access]
    exact run_bind_err _ _ _ _ _ (C11_trace_propagates_catchNotDefined _ _ σ σ' d hm hno)
  refine ⟨h1, fun hlt => h1 (fun ⟨_, _, hl⟩ => by omega), fun hk hmsg hlen hg => ?_, fun hk hmsg hlen v hg => ?_⟩
  · rw [evalExpr_access]
    apply run_bind_err
    rw [C11_trace_exception_notDefined _ _ σ σ' d hm hk hmsg hlen, run_bind_ok _ _ _ _ _ hg]
    rfl
  · rw [evalExpr_access]
    refine (run_bind_ok _ _ σ σ' none ?_).trans ?_
    · rw [C11_trace_exception_notDefined _ _ σ σ' d hm hk hmsg hlen, run_bind_ok _ _ _ _ _ hg]
      rfl
    · dsimp only
      rw [run_bind_ok _ _ _ _ _ hg]
      rfl

/-- **exception 2: the right-hand side of an assignment.**  A diagnostic `d` with which the evaluation of the right-hand
    side ends is the diagnostic of the assignment — unless ALL of the following hold: `d` is a runtime diagnostic of class
    `arrayDirect`, its first frame carries the name of the current activation, its traceback has as many frames as there
    are live activations, and the right-hand side is a reference (then the statement is retried as a whole-array
    assignment). -/
theorem C11_trace_propagates_assign_rhs (f : Nat) (t : Tok) (r : Ref) (rhs : Expr) (σ σ' : St) (cur : Act) (rest : List Act) (d : Diag)
    (hacts : σ.acts = cur :: rest) (h : (evalExpr f rhs).run.run σ = (.error (.diag d), σ'))
    (hno : ¬ (d.kind = .runtime ∧ d.msg = .arrayDirect ∧ d.trace.head?.map (·.name) = some cur.name ∧
      d.trace.length = σ.acts.length ∧ ∃ at' sr, rhs = .access at' sr)) :
    (execAssign (f+1) t r rhs).run.run σ = (.error (.diag d), σ') := by
  rw [execAssign.eq_def]
  dsimp only
  rw [run_bind_ok _ _ _ _ _ (run_curAct_cons σ cur rest hacts), run_bind_ok _ _ _ _ _ (run_get σ)]
  apply run_bind_err
  rw [run_tryCatch_err _ _ _ _ _ (run_bind_err _ _ _ _ _ h)]
  dsimp only
  split
  · rename_i hc
    simp only [Bool.and_eq_true, beq_iff_eq] at hc
    obtain ⟨⟨⟨hk, hm⟩, hn⟩, hl⟩ := hc
    split
    · rename_i at' sr
      exact absurd ⟨hk, hm, hn, hl, at', sr, rfl⟩ hno
    · rfl
  · rfl

/-- … in particular a diagnostic raised inside a callee (its traceback is longer than the caller's stack) always passes -/
theorem C11_trace_propagates_assign_rhs_callee (f : Nat) (t : Tok) (r : Ref) (rhs : Expr) (σ σ' : St) (cur : Act) (rest : List Act)
    (d : Diag) (hacts : σ.acts = cur :: rest) (h : (evalExpr f rhs).run.run σ = (.error (.diag d), σ'))
    (hlen : σ.acts.length < d.trace.length) : (execAssign (f+1) t r rhs).run.run σ = (.error (.diag d), σ') :=
  C11_trace_propagates_assign_rhs f t r rhs σ σ' cur rest d hacts h (fun ⟨_, _, _, hl, _⟩ => by omega)

/-- **the target of an assignment** that is not a bare name (`a[i]`, `r.f`, `p^`): the diagnostic of its resolution (for
    instance one raised in a function called from the index expression) is the diagnostic of the assignment, whatever
    its class.  (For a bare name `x` no call is involved; an undefined `x` is declared by the assignment, or refused in
    pedantic mode with the pedantic diagnostic `pedAssign`.) -/
theorem C11_trace_propagates_assign_target (f : Nat) (t : Tok) (r : Ref) (rhs : Expr) (σ σ1 σ' : St) (cur : Act) (rest : List Act)
    (rv : Val) (d : Diag) (hacts : σ.acts = cur :: rest) (hrhs : (evalExpr f rhs).run.run σ = (.ok rv, σ1))
    (hr : (resolveRef f r).run.run σ1 = (.error (.diag d), σ')) (hnv : ∀ vt, r ≠ .var vt) :
    (execAssign (f+1) t r rhs).run.run σ = (.error (.diag d), σ') := by
  rw [execAssign.eq_def]
  dsimp only
  rw [run_bind_ok _ _ _ _ _ (run_curAct_cons σ cur rest hacts), run_bind_ok _ _ _ _ _ (run_get σ)]
  have h1 : (evalExpr f rhs >>= fun v => pure (some v)).run.run σ = (.ok (some rv), σ1) := by
    rw [run_bind_ok _ _ _ _ _ hrhs]; rfl
  rw [run_bind_ok _ _ _ _ _ (run_tryCatch_ok _ _ _ _ _ h1)]
  dsimp only
  apply run_bind_err
  have hm : (resolveRef f r >>= fun h => pure (some h)).run.run σ1 = (.error (.diag d), σ') := run_bind_err _ _ _ _ _ hr
  by_cases hc : d.kind = .runtime ∧ d.msg = .notDefined ∧ d.trace.length = σ'.acts.length
  · rw [C11_trace_exception_notDefined _ _ σ1 σ' d hm hc.1 hc.2.1 hc.2.2]
    cases r with
    | var vt => exact absurd rfl (hnv vt)
    | _ => rfl
  · exact C11_trace_propagates_catchNotDefined _ _ σ1 σ' d hm hc

/-- **C11 (no handler rewrites a diagnostic).**  The handlers of the evaluator are: the activation bracket `withAct`, the
    handlers around a procedure body, a function body, a loop body and the main program, `catchNotDefined`, and the
    handler around the right-hand side of an assignment (these are all uses of `tryCatch` in `Eval.lean` / `Top.lean`).
    A diagnostic `d` that reaches one of them leaves it as the same `d` (same message, position and traceback) —
    except (1) a runtime `notDefined` at `catchNotDefined`, intercepted only if it was raised in the current activation
    (traceback length = stack depth), and (2) a runtime `arrayDirect` of the current activation at the right-hand side of
    an assignment.  Both exceptions concern diagnostics of the activation in which the handler runs: A CALLEE'S
    DIAGNOSTIC ALWAYS PROPAGATES (`C11_trace_propagates_catchNotDefined_callee`, `C11_trace_propagates_assign_rhs_callee`).
    Everything else in the evaluator is sequencing (first conjunct). -/
theorem C11_trace_error_propagates_unchanged (d : Diag) :
    (∀ {α β : Type} (m : M α) (k : α → M β) (σ σ' : St), m.run.run σ = (.error (.diag d), σ') →
      (m >>= k).run.run σ = (.error (.diag d), σ')) ∧
    (∀ {α : Type} (mk : Nat → Act) (body : M α) (σ σ' : St), body.run.run (pushSt mk σ) = (.error (.diag d), σ') →
      (withAct mk body).run.run σ = (.error (.diag d), popSt σ')) ∧
    (∀ (f : Nat) (body : Block) (σ σ' : St), (runBlock f body).run.run σ = (.error (.diag d), σ') →
      (procBody f body).run.run σ = (.error (.diag d), σ') ∧ (funBlock f body).run.run σ = (.error (.diag d), σ') ∧
      (loopBody (f+1) body).run.run σ = (.error (.diag d), σ') ∧ (runMain f body).run.run σ = (.error (.diag d), σ')) ∧
    (∀ {α : Type} (m : M α) (h : Stop → M α) (σ σ' : St), m.run.run σ = (.error (.diag d), σ') →
      ¬ (d.kind = .runtime ∧ d.msg = .notDefined ∧ d.trace.length = σ'.acts.length) →
      (catchNotDefined m h).run.run σ = (.error (.diag d), σ')) ∧
    (∀ (f : Nat) (t : Tok) (r : Ref) (rhs : Expr) (σ σ' : St) (cur : Act) (rest : List Act), σ.acts = cur :: rest →
      (evalExpr f rhs).run.run σ = (.error (.diag d), σ') →
      ¬ (d.kind = .runtime ∧ d.msg = .arrayDirect ∧ d.trace.head?.map (·.name) = some cur.name ∧
        d.trace.length = σ.acts.length ∧ ∃ at' sr, rhs = .access at' sr) →
      (execAssign (f+1) t r rhs).run.run σ = (.error (.diag d), σ')) :=
  ⟨fun m k σ σ' h => C11_trace_propagates_bind m k σ σ' d h,
   fun mk body σ σ' h => C11_trace_propagates_withAct mk body σ σ' d h,
   fun f body σ σ' h => ⟨C11_trace_propagates_procBody f body σ σ' d h, C11_trace_propagates_funBlock f body σ σ' d h,
     C11_trace_propagates_loopBody f body σ σ' d h, C11_trace_propagates_runMain f body σ σ' d h⟩,
   fun m h σ σ' hm hno => C11_trace_propagates_catchNotDefined m h σ σ' d hm hno,
   fun f t r rhs σ σ' cur rest hacts h hno => C11_trace_propagates_assign_rhs f t r rhs σ σ' cur rest d hacts h hno⟩

/-! ## 6. the two repaired defects, and non-vacuity -/

namespace C11TraceEx

def cxSrc : String :=
  "DECLARE A : ARRAY[1:3] OF INTEGER\nFUNCTION F(n : INTEGER) RETURNS INTEGER\n    RETURN n\nENDFUNCTION\n" ++
  "PROCEDURE P(BYREF p : INTEGER)\n    OUTPUT 1 DIV 0\nENDPROCEDURE\nA[1] <- 0\nCALL P(A[F(1)])\n"

def okSrc : String :=
  "DECLARE A : ARRAY[1:3] OF INTEGER\nPROCEDURE P(BYREF p : INTEGER)\n    OUTPUT 1 DIV 0\nENDPROCEDURE\nA[1] <- 0\nCALL P(A[1])\n"

def swallowSrc : String :=
  "TYPE E = (A, B)\nDECLARE A : ARRAY[1:3] OF INTEGER\nFUNCTION F(n : INTEGER) RETURNS INTEGER\n    OUTPUT zzz\n    RETURN n\nENDFUNCTION\n" ++
  "OUTPUT A[F(1)]\nOUTPUT \"after\"\n"

end C11TraceEx

open C11TraceEx in
/-- **Regression example (the defect this proof attempt found, repaired in `c59159a`).**  `CALL P(A[F(1)])` on line 9
    with a BYREF parameter, `P` fails on line 6: the traceback is `P, line 6` / `Program, line 9`.  Before the repair the
    call position was noted in the caller BEFORE the parameters were bound; binding the BYREF parameter resolves the
    argument reference a second time, and the nested call `F(1)` made from there noted its own position in the same
    activation and cleared the note when it returned (`ctx.switchToken = &token` before the binding loop of
    `ProcedureCallNode::evaluate` / `FunctionCallNode::evaluate`, `ctx.switchToken = nullptr` at the end of the nested
    call): the interpreter printed `Program` without a line (the model: line 0), against the clause.  The second program
    is the same with the plain argument `A[1]`. -/
theorem C11_trace_regression_byref_index_call :
    (runFile {} cxSrc.toList [] []).diags.map (·.trace) =
      [[{ name := "P".toList, line := 6, col := 14 }, { name := "Program".toList, line := 9, col := 1 }]] ∧
    (runFile {} okSrc.toList [] []).diags.map (·.trace) =
      [[{ name := "P".toList, line := 3, col := 14 }, { name := "Program".toList, line := 6, col := 1 }]] := by
  decide +kernel

open C11TraceEx in
/-- **Regression example (second defect found by this proof attempt, repaired in `4dfd619`).**  `zzz` is undefined in `F`
    (line 4); `F` is called from the index of `A[F(1)]` on line 7, where `A` is an array AND the name of an enum element.
    The run ends with the `notDefined` diagnostic raised in `F`, traceback `F, line 4` / `Program, line 7`; nothing
    after it runs.  Before the repair `AccessNode::evaluate` (model: `catchNotDefined`) treated that error as "the name
    `A` is no variable", fell back to the enum element and the program went on, printing `A` and `after`, exit status 0:
    an error raised inside a callee was swallowed.  Now the handler only looks at a `notDefined` of its own activation. -/
theorem C11_trace_regression_swallowed :
    (runFile {} swallowSrc.toList [] []).diags.map (fun d => (d.kind, d.msg, d.line, d.col, d.trace)) =
      [(.runtime, .notDefined, 4, 12,
        [{ name := "F".toList, line := 4, col := 12 }, { name := "Program".toList, line := 7, col := 10 }])] ∧
    (runFile {} swallowSrc.toList [] []).out = ['\n'] ∧ (runFile {} swallowSrc.toList [] []).exitCode = 1 := by
  decide +kernel

namespace C11TraceEx

/-! ### a three-level program: the theorem's instance and the run agree -/

def src3 : String :=
  "PROCEDURE P3()\n    OUTPUT 1 DIV 0\nENDPROCEDURE\nPROCEDURE P2()\n    CALL P3()\nENDPROCEDURE\n" ++
  "PROCEDURE P1()\n    CALL P2()\nENDPROCEDURE\nCALL P1()\n"

def tkk (k : TK) (l c : Nat) (v : String := "") : Tok := { k := k, line := l, col := c, val := v.toList }

def otTok : Tok := tkk .OUTPUT 2 5
def divTok : Tok := tkk .DIV 2 14
def oneTok : Tok := tkk .INTEGER 2 12 "1"
def zeroTok : Tok := tkk .INTEGER 2 18 "0"
def t₂ : Tok := tkk .CALL 5 5
def t₁ : Tok := tkk .CALL 8 5
def t₀ : Tok := tkk .CALL 10 1
def pd3 : ProcDef := { name := "P3".toList, params := [], body := [.output otTok [.arith divTok .idiv (.intLit oneTok 1) (.intLit zeroTok 0)]] }
def pd2 : ProcDef := { name := "P2".toList, params := [], body := [.call t₂ "P3".toList []] }
def pd1 : ProcDef := { name := "P1".toList, params := [], body := [.call t₁ "P2".toList []] }
def defs3 : List (Tok × ProcDef) := [(tkk .PROCEDURE 1 1, pd3), (tkk .PROCEDURE 4 1, pd2), (tkk .PROCEDURE 7 1, pd1)]
def calls3 : List (Tok × ProcDef) := [(t₀, pd1), (t₁, pd2), (t₂, pd3)]
def b3 : Block := [.call t₀ "P1".toList []]
def main3 : Block := defStmts defs3 ++ b3

/-- the four frames the theorem predicts -/
def frames3 : List Frame :=
  [{ name := "P3".toList, line := 2, col := 14 }, { name := "P2".toList, line := 5, col := 5 },
   { name := "P1".toList, line := 8, col := 5 }, { name := "Program".toList, line := 10, col := 1 }]

/-- the run of the model, by evaluation -/
theorem run3_by_evaluation : (runFile {} src3.toList [] []).diags.map (·.trace) = [frames3] := by decide +kernel

/-- a complete comparison of a block with `main3` (every token, name and literal) -/
def isMain3 (p : Block) : Bool :=
  match p with
  | [.procDef k3 n3 [] [.output ot [.arith dt .idiv (.intLit l1 v1) (.intLit l0 v0)]], .procDef k2 n2 [] [.call c2 m3 []],
     .procDef k1 n1 [] [.call c1 m2 []], .call c0 m1 []] =>
    k3 == tkk .PROCEDURE 1 1 && n3 == "P3".toList && ot == otTok && dt == divTok && l1 == oneTok && v1 == 1 && l0 == zeroTok &&
    v0 == 0 && k2 == tkk .PROCEDURE 4 1 && n2 == "P2".toList && c2 == t₂ && m3 == "P3".toList && k1 == tkk .PROCEDURE 7 1 &&
    n1 == "P1".toList && c1 == t₁ && m2 == "P2".toList && c0 == t₀ && m1 == "P1".toList
  | _ => false

theorem isMain3_sound (p : Block) (h : isMain3 p = true) : p = main3 := by
  unfold isMain3 at h
  split at h
  · simp only [Bool.and_eq_true, beq_iff_eq] at h
    obtain ⟨⟨⟨⟨⟨⟨⟨⟨⟨⟨⟨⟨⟨⟨⟨⟨⟨rfl, rfl⟩, rfl⟩, rfl⟩, rfl⟩, rfl⟩, rfl⟩, rfl⟩, rfl⟩, rfl⟩, rfl⟩, rfl⟩, rfl⟩, rfl⟩, rfl⟩, rfl⟩, rfl⟩, rfl⟩ := h
    rfl
  · cases h

def toks3 : List Tok :=
  match lex {} (src3.toList ++ ['\n']) with
  | .ok t => t
  | .error _ => []

theorem lex3 : lex {} (src3.toList ++ ['\n']) = .ok toks3 := by
  have h : (match lex {} (src3.toList ++ ['\n']) with | .ok _ => true | .error _ => false) = true := by decide +kernel
  unfold toks3
  cases hl : lex {} (src3.toList ++ ['\n']) with
  | ok t => rfl
  | error d => rw [hl] at h; cases h

theorem parse3 : parse {} toks3 = .ok (main3, []) := by
  have h : (match parse {} toks3 with | .ok (b, w) => isMain3 b && w.isEmpty | .error _ => false) = true := by decide +kernel
  cases hp : parse {} toks3 with
  | error e => rw [hp] at h; cases h
  | ok r =>
    obtain ⟨b, w⟩ := r
    rw [hp] at h
    simp only [Bool.and_eq_true] at h
    rw [isMain3_sound b h.1]
    cases w with
    | nil => rfl
    | cons _ _ => cases h.2

/-- the state in which `OUTPUT 1 DIV 0` runs: `P3` on top of `P2`, `P1` and the main program, each caller carrying the
    position of its CALL -/
theorem inner3_acts : (enterAll (afterDefs (fileSt {} [] []) defs3) calls3).acts.map (fun a => (a.name, a.switchTok, a.isComp)) =
    [("P3".toList, none, false), ("P2".toList, some (5, 5), false), ("P1".toList, some (8, 5), false),
     ("Program".toList, some (10, 1), false)] := by decide +kernel

/-- **the theorem's instance**: the program text `src3`, run as a file, ends with exactly one diagnostic, `divZero` at
    line 2, whose traceback is `P3, line 2` / `P2, line 5` / `P1, line 8` / `Program, line 10` — derived from
    `C11_trace_program` (nested calls), `run_output_div0` (the failing statement) and `C11_trace_runFile_reports`, not by
    running the model; `run3_by_evaluation` is the same fact by evaluation. -/
theorem run3_by_theorem : ∃ d, (runFile {} src3.toList [] []).diags = [d] ∧ (runFile {} src3.toList [] []).exitCode = 1 ∧
    d.kind = .runtime ∧ d.msg = .divZero ∧ d.line = 2 ∧ d.col = 14 ∧ d.trace = frames3 := by
  -- the innermost state
  have hin := inner3_acts
  cases hacts : (enterAll (afterDefs (fileSt {} [] []) defs3) calls3).acts with
  | nil => rw [hacts] at hin; cases hin
  | cons a r =>
    rw [hacts] at hin
    simp only [List.map_cons, List.cons.injEq, Prod.mk.injEq] at hin
    have hfail := C11TraceAux.run_output_div0 0 otTok divTok oneTok zeroTok 1 [] _ a r hacts hin.1.2.2 (by decide)
    have hc : Chain ((fileSt {} [] []).procs ++ defs3.map (·.2)) b3 calls3 pd3.body :=
      Chain.call t₀ pd1 [] _ _ rfl rfl (Chain.call t₁ pd2 [] _ _ rfl rfl (Chain.call t₂ pd3 [] [] _ rfl rfl (Chain.here _)))
    obtain ⟨d, σ', hrun, hk, hm, hl, hcol, htr⟩ := C11_trace_program defs3 calls3 b3 pd3.body 5 (100000 : Nat) (fileSt {} [] []) _ mkGlobal []
      divTok .divZero (by decide) (by decide) hc rfl rfl (by decide) (by decide) hfail (by decide)
    have hrep := C11_trace_runFile_reports {} src3.toList [] [] σ' toks3 main3 [] d lex3 parse3 hrun
      (by unfold isBudget; rw [hm]; rfl)
    exact ⟨d, hrep.1, hrep.2, hk, hm, hl, hcol, htr⟩

end C11TraceEx

end Pseudo
