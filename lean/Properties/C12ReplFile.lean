import PseudoProofs.FuelMono
import PseudoProofs.EvalStep
/-!
# C12 (REPL = file) — entering a program one entry at a time gives the same final state and output as running it whole

* `C12_block_append`: a block `b1 ++ b2` runs like `b1` followed (if `b1` ends normally) by `b2` on the state `b1` left,
  as soon as the run of `b1 ++ b2` does not run out of fuel; `C12_block_append_conv`: conversely, with `b1.length` more
  units of fuel (inside `b1 ++ b2` the statements of `b2` are reached with `b1.length` units less). Both hold for
  any value of the `repl` flag (the echo is produced statement by statement in both runs).
* `runEntries f bs σ`: the entries `bs` run one after the other by `runOn` (what the REPL loop does with each parsed
  entry) on the evolving state, up to the first entry that does not end with `.ok`.
  `C12_entries_eq_file`: whatever `runEntries` reports (all entries fine, or the first failure) other than `.fuel`,
  `runOn` of the concatenation reports the same outcome with the same final state; `C12_file_eq_entries`: conversely;
  `C12_statements_eq_file`: one statement per entry.
* `C12_echo_only_output[_block]`: the `repl` flag only adds the echo chunks to the output (namespace `C12Echo`: a
  two-run simulation `ESimAt` over the whole evaluator, `evalE_all`), unless the echo itself stops at a crash point.

What is NOT covered: the REPL loop resets `steps` and `depth` before each entry and reads the entry text from the same
`stdin` the program reads from, so a `replLoop` session and `runFile` differ in those components by construction; the
statements here are about `runOn` on the evolving state, which is what the loop calls for every parsed entry.
-/
namespace Pseudo

/-! ### blocks -/

theorem runBlock_zero (b : Block) : runBlock 0 b = throw .outOfFuel := by
  rw [runBlock.eq_def]

theorem Mono.fuel_bind {α β : Type} (k : α → M β) (m2 : M β) : Mono ((throw .outOfFuel : M α) >>= k) m2 := by
  constructor
  intro σ r σ' h hr
  rw [run_bind_err _ _ _ _ _ (run_throw _ σ)] at h
  cases h
  exact absurd rfl hr

/-- whole → pieces, same fuel -/
theorem runBlock_append_split (b2 : Block) : ∀ (b1 : Block) (f : Nat),
    Mono (runBlock f (b1 ++ b2)) (runBlock f b1 >>= fun _ => runBlock f b2)
  | [], 0 => by rw [runBlock_zero]; exact Mono.fuel _
  | [], f + 1 => by
    rw [runBlock_nil, pure_bind]
    exact Mono.refl _
  | s :: rest, 0 => by rw [runBlock_zero]; exact Mono.fuel _
  | s :: rest, f + 1 => by
    rw [List.cons_append, runBlock_cons, runBlock_cons]
    simp only [bind_assoc]
    refine Mono.bind (Mono.refl _) fun v => ?_
    refine Mono.bind (Mono.refl _) fun st => ?_
    have ih := (runBlock_append_split b2 rest f).trans
      (Mono.bind (Mono.refl _) fun _ => (mono_all f).runBlock b2)
    split
    · simp only [bind_assoc]
      exact Mono.bind (Mono.refl _) fun _ => ih
    · exact ih

/-- pieces → whole, with `b1.length` more units of fuel -/
theorem runBlock_append_join (b2 : Block) : ∀ (b1 : Block) (f : Nat),
    Mono (runBlock f b1 >>= fun _ => runBlock f b2) (runBlock (f + b1.length) (b1 ++ b2))
  | [], 0 => by rw [runBlock_zero]; exact Mono.fuel_bind _ _
  | [], f + 1 => by
    rw [runBlock_nil, pure_bind]
    exact Mono.refl _
  | s :: rest, 0 => by rw [runBlock_zero]; exact Mono.fuel_bind _ _
  | s :: rest, f + 1 => by
    show Mono _ (runBlock ((f + 1 + rest.length) + 1) (s :: (rest ++ b2)))
    rw [runBlock_cons, runBlock_cons]
    simp only [bind_assoc]
    refine Mono.bind ((fuel_mono_all (by omega)).execStmt s) fun v => ?_
    refine Mono.bind (Mono.refl _) fun st => ?_
    have ih : Mono (runBlock f rest >>= fun _ => runBlock (f + 1) b2) (runBlock (f + 1 + rest.length) (rest ++ b2)) :=
      (Mono.bind ((mono_all f).runBlock rest) fun _ => Mono.refl _).trans (runBlock_append_join b2 rest (f + 1))
    split
    · simp only [bind_assoc]
      exact Mono.bind (Mono.refl _) fun _ => ih
    · exact ih

/-- **C12 (a block in two pieces).** If the run of `b1 ++ b2` does not run out of fuel, then running `b1` and — when it
    ends normally — `b2` on the state `b1` left gives the same result and the same final state (variables, output,
    files, everything). Same fuel on both sides; any start state (`repl` set or not). -/
theorem C12_block_append (f : Nat) (b1 b2 : Block) (σ : St)
    (h : ((runBlock f (b1 ++ b2)).run.run σ).1 ≠ .error .outOfFuel) :
    (runBlock f b1 >>= fun _ => runBlock f b2).run.run σ = (runBlock f (b1 ++ b2)).run.run σ :=
  (runBlock_append_split b2 b1 f).run σ _ _ rfl h

/-- **C12 (a block in two pieces, converse).** If running `b1` and then `b2` with fuel `f` each does not run out of
    fuel, the run of `b1 ++ b2` with at least `f + b1.length` units gives the same result and final state. -/
theorem C12_block_append_conv (f g : Nat) (b1 b2 : Block) (σ : St) (hg : f + b1.length ≤ g)
    (h : ((runBlock f b1 >>= fun _ => runBlock f b2).run.run σ).1 ≠ .error .outOfFuel) :
    (runBlock g (b1 ++ b2)).run.run σ = (runBlock f b1 >>= fun _ => runBlock f b2).run.run σ :=
  ((runBlock_append_join b2 b1 f).trans ((fuel_mono_all hg).runBlock _)).run σ _ _ rfl h

/-- the two-run form: the second piece starts from the state the first piece left -/
theorem C12_block_append_states (f : Nat) (b1 b2 : Block) (σ σ1 : St)
    (h1 : (runBlock f b1).run.run σ = (.ok (), σ1))
    (h : ((runBlock f (b1 ++ b2)).run.run σ).1 ≠ .error .outOfFuel) :
    (runBlock f (b1 ++ b2)).run.run σ = (runBlock f b2).run.run σ1 := by
  rw [← C12_block_append f b1 b2 σ h, run_bind_ok _ _ _ _ _ h1]

/-! ### sessions -/

/-- the handler of `runMain` -/
def mainHandler (e : Stop) : M Unit :=
  match e with
  | .brk t => rtErr t .breakOutside
  | .cont t => rtErr t .breakOutside
  | .ret => throw (.crash .other)
  | e => throw e

theorem runMain_eq (f : Nat) (b : Block) : runMain f b = tryCatch (runBlock f b) mainHandler := rfl

/-- the handler of `runMain` never resumes -/
theorem mainHandler_throws (e : Stop) (σ : St) : ∃ e', (mainHandler e).run.run σ = (.error e', σ) := by
  cases e <;> first
    | exact ⟨_, run_rtErr _ _ _⟩
    | exact ⟨_, rfl⟩

/-- two guarded runs in sequence = one guarded run of the sequence (the handler never resumes) -/
theorem run_main_seq (m1 m2 : M Unit) (σ : St) :
    (tryCatch m1 mainHandler >>= fun _ => tryCatch m2 mainHandler).run.run σ
      = (tryCatch (m1 >>= fun _ => m2) mainHandler).run.run σ := by
  rcases h1 : m1.run.run σ with ⟨e | a, σ1⟩
  · obtain ⟨e', he'⟩ := mainHandler_throws e σ1
    rw [run_bind_err _ _ _ _ e' (by rw [run_tryCatch_err _ _ _ _ _ h1]; exact he')]
    rw [run_tryCatch_err _ _ _ _ _ (run_bind_err _ _ _ _ _ h1)]
    exact he'.symm
  · rw [run_bind_ok _ _ _ _ _ (run_tryCatch_ok _ _ _ _ _ h1)]
    rw [run_tryCatch, run_tryCatch, run_bind_ok _ _ _ _ _ h1]

theorem Mono.of_run_eq {α : Type} {m1 m2 : M α} (h : ∀ σ, m1.run.run σ = m2.run.run σ) : Mono m1 m2 :=
  ⟨fun σ r σ' h1 _ => by rw [← h σ]; exact h1⟩

theorem runMain_append_join (f : Nat) (b1 b2 : Block) :
    Mono (runMain f b1 >>= fun _ => runMain f b2) (runMain (f + b1.length) (b1 ++ b2)) := by
  simp only [runMain_eq]
  exact (Mono.of_run_eq (run_main_seq _ _)).trans (Mono.tryCatch (h2 := mainHandler) (runBlock_append_join b2 b1 f) (fun _ => Mono.refl _) rfl)

theorem runMain_append_split (f : Nat) (b1 b2 : Block) :
    Mono (runMain f (b1 ++ b2)) (runMain f b1 >>= fun _ => runMain f b2) := by
  simp only [runMain_eq]
  exact (Mono.tryCatch (h2 := mainHandler) (runBlock_append_split b2 b1 f) (fun _ => Mono.refl _) rfl).trans
    (Mono.of_run_eq fun σ => (run_main_seq _ _ σ).symm)

/-- the entries `bs`, each run by `runOn` (a BREAK / CONTINUE reaching the top of an entry is an error of that entry)
    on the state the previous entries left; stops at the first entry whose outcome is not `.ok` -/
def runEntries (f : Nat) : List Block → St → Outcome × St
  | [], σ => (.ok, σ)
  | b :: bs, σ =>
    match runOn f b σ with
    | (.ok, σ') => runEntries f bs σ'
    | r => r

/-- the same as one computation -/
def entriesM (f : Nat) : List Block → M Unit
  | [] => pure ()
  | b :: bs => runMain f b >>= fun _ => entriesM f bs

theorem runEntries_eq (f : Nat) : ∀ (bs : List Block) (σ : St),
    runEntries f bs σ = (outcomeOf ((entriesM f bs).run.run σ).1, ((entriesM f bs).run.run σ).2)
  | [], σ => rfl
  | b :: bs, σ => by
    unfold runEntries entriesM
    rw [runOn_eq]
    rcases h1 : (runMain f b).run.run σ with ⟨e | ⟨⟨⟩⟩, σ1⟩
    · rw [run_bind_err _ _ _ _ _ h1]
      cases e <;> rfl
    · rw [run_bind_ok _ _ _ _ _ h1]
      exact runEntries_eq f bs σ1

theorem runMain_nil_run (f : Nat) (σ : St) : (runMain (f + 1) []).run.run σ = (.ok (), σ) := by
  rw [runMain_eq, runBlock_nil]
  rfl

theorem entriesM_join (f : Nat) : ∀ bs : List Block,
    Mono (entriesM f bs) (runMain (f + bs.flatten.length + 1) bs.flatten)
  | [] => Mono.of_run_eq fun σ => (runMain_nil_run _ σ).symm
  | b :: bs => by
    unfold entriesM
    have h1 : Mono (runMain f b >>= fun _ => entriesM f bs)
        (runMain (f + bs.flatten.length + 1) b >>= fun _ => runMain (f + bs.flatten.length + 1) bs.flatten) :=
      Mono.bind (runMain_mono (by omega) b) fun _ => entriesM_join f bs
    have h2 := h1.trans (runMain_append_join (f + bs.flatten.length + 1) b bs.flatten)
    have e : f + bs.flatten.length + 1 + b.length = f + (b :: bs).flatten.length + 1 := by
      rw [List.flatten_cons, List.length_append]; omega
    rw [e] at h2
    exact h2

theorem entriesM_split (f : Nat) : ∀ bs : List Block, Mono (runMain f bs.flatten) (entriesM f bs)
  | [] => by
    cases f with
    | zero =>
      refine Mono.of_eq (m1' := throw .outOfFuel) (m2' := entriesM 0 []) ?_ rfl (Mono.fuel _)
      rw [runMain_eq, List.flatten_nil, runBlock_zero]
      rfl
    | succ f => exact Mono.of_run_eq fun σ => runMain_nil_run f σ
  | b :: bs => by
    unfold entriesM
    rw [List.flatten_cons]
    exact (runMain_append_split f b bs.flatten).trans (Mono.bind (Mono.refl _) fun _ => entriesM_split f bs)

theorem outcomeOf_ne_fuel {r : Except Stop Unit} (h : outcomeOf r ≠ .fuel) : r ≠ .error .outOfFuel := by
  intro hr; subst hr; exact h rfl

/-- **C12 (entries = file).** Run the entries `bs` one after the other on the evolving state (`runEntries`): if this
    reports an outcome other than `.fuel` — every entry ended with `.ok`, or the first failing entry ended with that
    diagnostic / crash point — then running the concatenation of the entries as one program, with `bs.flatten.length + 1`
    more units of fuel (or more), reports the same outcome and ends in the same state (variables, procedures, output,
    files, remaining input, step count). In particular: all entries fine ⇒ the file is fine, same final state. -/
theorem C12_entries_eq_file (f g : Nat) (bs : List Block) (σ σ' : St) (o : Outcome)
    (h : runEntries f bs σ = (o, σ')) (hne : o ≠ .fuel) (hg : f + bs.flatten.length + 1 ≤ g) :
    runOn g bs.flatten σ = (o, σ') := by
  rw [runEntries_eq] at h
  rcases hm : (entriesM f bs).run.run σ with ⟨r, τ⟩
  rw [hm] at h
  cases h
  rw [runOn_eq, ((entriesM_join f bs).trans (runMain_mono hg _)).run σ r τ hm (outcomeOf_ne_fuel hne)]

/-- **C12 (file = entries).** Conversely: if the whole program, cut in any way into consecutive entries `bs`, reports an
    outcome other than `.fuel`, then entering the pieces one at a time (same fuel for each) reports the same outcome
    — at the first entry that fails, if any — and ends in the same state. -/
theorem C12_file_eq_entries (g : Nat) (bs : List Block) (σ σ' : St) (o : Outcome)
    (h : runOn g bs.flatten σ = (o, σ')) (hne : o ≠ .fuel) : runEntries g bs σ = (o, σ') := by
  rw [runOn_eq] at h
  rcases hm : (runMain g bs.flatten).run.run σ with ⟨r, τ⟩
  rw [hm] at h
  cases h
  rw [runEntries_eq, (entriesM_split g bs).run σ r τ hm (outcomeOf_ne_fuel hne)]

/-- one statement per entry: the REPL fed the statements of `b` one by one -/
theorem C12_statements_eq_file (g : Nat) (b : Block) (σ σ' : St) (o : Outcome)
    (h : runOn g b σ = (o, σ')) (hne : o ≠ .fuel) : runEntries g (b.map fun s => [s]) σ = (o, σ') := by
  have hflat : ∀ b : Block, (b.map fun s => [s]).flatten = b := by
    intro b
    induction b with
    | nil => rfl
    | cons s rest ih => rw [List.map_cons, List.flatten_cons, ih]; rfl
  apply C12_file_eq_entries g _ σ σ' o _ hne
  rw [hflat]
  exact h

/-! ### the REPL echo: a third two-run simulation

The `repl` flag is read in one place (`runBlock`, after each statement) and the output chunks `out` are never read, so
a run with the flag set and a run without it go in lockstep: same result, final states equal up to `out` / `repl`, and
the chunks the plain run appended are a sublist of those the REPL run appended (the difference being the echoes).
One caveat that the model forces: the echo itself can stop at a crash point (`outputText` of an enumeration value whose
type definition is not visible from the current scope; a state without activations) — then the REPL run ends there. -/

namespace C12Echo

/-- the state `τ` with output chunks `o`, in the REPL -/
def replT (τ : St) (o : List Str) : St := { τ with out := o, repl := true }
/-- the state `τ` with output chunks `o`, not in the REPL -/
def replF (τ : St) (o : List Str) : St := { τ with out := o, repl := false }

/-- the crash points the echo of a value can stop at -/
def EchoCrash (p : CrashPoint) : Prop := p = .enumIndexOOB ∨ p = .noActivation

/-- the REPL run of `mr` stops at a crash point of the echo, or it ends like the plain run of `mf`: same result, final
    states equal up to `out` / `repl`, the chunks appended by the plain run (`a2`) a sublist of those appended by the REPL
    run (`a1`) -/
inductive ESimAt {α : Type} (mr mf : M α) (τ : St) (o1 o2 : List Str) : Prop
  | crash (p : CrashPoint) (σ' : St) (hp : EchoCrash p) (h : mr.run.run (replT τ o1) = (.error (.crash p), σ'))
  | same (r : Except Stop α) (τ' : St) (a1 a2 : List Str) (hs : a2.Sublist a1)
      (hr : mr.run.run (replT τ o1) = (r, replT τ' (a1 ++ o1))) (hf : mf.run.run (replF τ o2) = (r, replF τ' (a2 ++ o2)))

structure ESim {α : Type} (m : M α) : Prop where
  run : ∀ τ o1 o2, ESimAt m m τ o1 o2

section combinators
variable {α β : Type} {τ : St} {o1 o2 : List Str}

theorem ESimAt.pure (a : α) (τ : St) (o1 o2 : List Str) : ESimAt (pure a : M α) (pure a) τ o1 o2 :=
  .same (.ok a) τ [] [] (List.Sublist.refl _) rfl rfl

theorem ESimAt.throw (e : Stop) (τ : St) (o1 o2 : List Str) : ESimAt (throw e : M α) (throw e) τ o1 o2 :=
  .same (.error e) τ [] [] (List.Sublist.refl _) rfl rfl

theorem ESimAt.bind {mr mf : M α} {kr kf : α → M β} (hm : ESimAt mr mf τ o1 o2)
    (hk : ∀ a τ o1 o2, ESimAt (kr a) (kf a) τ o1 o2) : ESimAt (mr >>= kr) (mf >>= kf) τ o1 o2 := by
  cases hm with
  | crash p σ' hp h => exact .crash p σ' hp (run_bind_err _ _ _ _ _ h)
  | same r τ' a1 a2 hs hr hf =>
    cases r with
    | error e => exact .same (.error e) τ' a1 a2 hs (run_bind_err _ _ _ _ _ hr) (run_bind_err _ _ _ _ _ hf)
    | ok a =>
      cases hk a τ' (a1 ++ o1) (a2 ++ o2) with
      | crash p σ' hp h => exact .crash p σ' hp (by rw [run_bind_ok _ _ _ _ _ hr]; exact h)
      | same r' τ'' b1 b2 hs' hr' hf' =>
        refine .same r' τ'' (b1 ++ a1) (b2 ++ a2) (hs'.append hs) ?_ ?_
        · rw [run_bind_ok _ _ _ _ _ hr, List.append_assoc]; exact hr'
        · rw [run_bind_ok _ _ _ _ _ hf, List.append_assoc]; exact hf'

/-- the handler of the REPL run must pass crash points on -/
theorem ESimAt.tryCatch {mr mf : M α} {hr hf : Stop → M α} (hm : ESimAt mr mf τ o1 o2)
    (hh : ∀ e τ o1 o2, ESimAt (hr e) (hf e) τ o1 o2)
    (hc : ∀ p, hr (.crash p) = MonadExcept.throw (.crash p)) :
    ESimAt (tryCatch mr hr) (tryCatch mf hf) τ o1 o2 := by
  cases hm with
  | crash p σ' hp h =>
    refine .crash p σ' hp ?_
    rw [run_tryCatch_err _ _ _ _ _ h, hc p]
    rfl
  | same r τ' a1 a2 hs hr' hf' =>
    cases r with
    | ok a => exact .same (.ok a) τ' a1 a2 hs (run_tryCatch_ok _ _ _ _ _ hr') (run_tryCatch_ok _ _ _ _ _ hf')
    | error e =>
      cases hh e τ' (a1 ++ o1) (a2 ++ o2) with
      | crash p σ' hp h => exact .crash p σ' hp (by rw [run_tryCatch_err _ _ _ _ _ hr']; exact h)
      | same r' τ'' b1 b2 hs' hr2 hf2 =>
        refine .same r' τ'' (b1 ++ a1) (b2 ++ a2) (hs'.append hs) ?_ ?_
        · rw [run_tryCatch_err _ _ _ _ _ hr', List.append_assoc]; exact hr2
        · rw [run_tryCatch_err _ _ _ _ _ hf', List.append_assoc]; exact hf2

/-- after `get`: the two continuations, on the two states read -/
theorem ESimAt.get_bind {fr ff : St → M α} (h : ESimAt (fr (replT τ o1)) (ff (replF τ o2)) τ o1 o2) :
    ESimAt ((MonadState.get : M St) >>= fr) ((MonadState.get : M St) >>= ff) τ o1 o2 := by
  cases h with
  | crash p σ' hp h => exact .crash p σ' hp (by rw [run_bind_ok _ _ _ _ _ (run_get _)]; exact h)
  | same r τ' a1 a2 hs hr hf =>
    exact .same r τ' a1 a2 hs (by rw [run_bind_ok _ _ _ _ _ (run_get _)]; exact hr)
      (by rw [run_bind_ok _ _ _ _ _ (run_get _)]; exact hf)

theorem ESimAt.modify (f : St → St) (a : List Str) (τ : St) (o1 o2 : List Str)
    (hr : f (replT τ o1) = replT (f τ) (a ++ o1)) (hf : f (replF τ o2) = replF (f τ) (a ++ o2)) :
    ESimAt (modify f : M PUnit) (modify f) τ o1 o2 :=
  .same (.ok ⟨⟩) (f τ) a a (List.Sublist.refl _) (by rw [run_modify, hr]) (by rw [run_modify, hf])

theorem ESimAt.set (sr sf : St) (τ τ' : St) (o1 o2 : List Str) (hr : sr = replT τ' o1) (hf : sf = replF τ' o2) :
    ESimAt (set sr : M PUnit) (set sf) τ o1 o2 :=
  .same (.ok ⟨⟩) τ' [] [] (List.Sublist.refl _) (by rw [run_set, hr]; rfl) (by rw [run_set, hf]; rfl)

theorem ESimAt.withAct {mk : Nat → Act} {br bf : M α} (h : ∀ τ o1 o2, ESimAt br bf τ o1 o2) :
    ESimAt (withAct mk br) (withAct mk bf) τ o1 o2 := by
  cases h (pushSt mk τ) o1 o2 with
  | crash p σ' hp h =>
    refine .crash p (popSt σ') hp ?_
    rw [run_withAct]
    have : pushSt mk (replT τ o1) = replT (pushSt mk τ) o1 := rfl
    rw [this, h]
  | same r τ' a1 a2 hs hr hf =>
    refine .same r (popSt τ') a1 a2 hs ?_ ?_
    · rw [run_withAct]
      have : pushSt mk (replT τ o1) = replT (pushSt mk τ) o1 := rfl
      rw [this, hr]
      rfl
    · rw [run_withAct]
      have : pushSt mk (replF τ o2) = replF (pushSt mk τ) o2 := rfl
      rw [this, hf]
      rfl

theorem ESim.of_run {m : M α} (h : ∀ τ o1 o2, ESimAt m m τ o1 o2) : ESim m := ⟨h⟩

end combinators

/-! #### automation -/

syntax "esim_lib" : tactic
macro_rules | `(tactic| esim_lib) => `(tactic| fail "esim_lib: no lemma")
syntax "esim_ih" : tactic
macro_rules | `(tactic| esim_ih) => `(tactic| fail "esim_ih: no hypothesis")

macro "esim_step" : tactic => `(tactic| first
  | cases ‹_ + 1 = Nat.succ _›
  | with_reducible exact ESimAt.pure _ _ _ _
  | with_reducible exact ESimAt.throw _ _ _ _
  | (with_reducible apply ESim.run; with_reducible first | esim_lib | esim_ih)
  | (with_reducible apply ESimAt.get_bind; dsimp only [replT, replF])
  | with_reducible apply ESimAt.bind
  | with_reducible apply ESimAt.withAct
  | exact ESimAt.modify _ [] _ _ _ rfl rfl
  | intro _
  | split
  | dsimp only)

macro "esim_auto" : tactic => `(tactic| repeat' esim_step)

/-- prove `ESim (f args)` for a function defined outside the mutual block -/
macro "esim_def " id:ident : tactic => `(tactic| (apply ESim.of_run; intro τ o1 o2; unfold $id; esim_auto))

/-! #### primitives -/

theorem ESim.l_emit (x : Str) : ESim (emit x) :=
  ⟨fun τ o1 o2 => ESimAt.modify _ [x] τ o1 o2 rfl rfl⟩
macro_rules | `(tactic| esim_lib) => `(tactic| exact ESim.l_emit _)
theorem ESim.l_curAct : ESim (curAct) := by esim_def curAct
macro_rules | `(tactic| esim_lib) => `(tactic| exact ESim.l_curAct )
theorem ESim.l_globalAct : ESim (globalAct) := by esim_def globalAct
macro_rules | `(tactic| esim_lib) => `(tactic| exact ESim.l_globalAct )
theorem ESim.l_findAct (id : Nat) : ESim (findAct id) := by esim_def findAct
macro_rules | `(tactic| esim_lib) => `(tactic| exact ESim.l_findAct _)
theorem ESim.l_mkRuntime (l c : Nat) (m : Msg) : ESim (mkRuntime l c m) := by esim_def mkRuntime
macro_rules | `(tactic| esim_lib) => `(tactic| exact ESim.l_mkRuntime _ _ _)
theorem ESim.l_rtErr {α : Type} (t : Tok) (m : Msg) : ESim ((rtErr t m : M α)) := by esim_def rtErr
macro_rules | `(tactic| esim_lib) => `(tactic| exact ESim.l_rtErr _ _)
theorem ESim.l_rtErr0 {α : Type} (m : Msg) : ESim ((rtErr0 m : M α)) := by esim_def rtErr0
macro_rules | `(tactic| esim_lib) => `(tactic| exact ESim.l_rtErr0 _)
theorem ESim.l_pedErr {α : Type} (t : Tok) (m : Msg) : ESim ((pedErr t m : M α)) := by esim_def pedErr
macro_rules | `(tactic| esim_lib) => `(tactic| exact ESim.l_pedErr _ _)
theorem ESim.l_lookupVar (n : Str) : ESim (lookupVar n) := by esim_def lookupVar
macro_rules | `(tactic| esim_lib) => `(tactic| exact ESim.l_lookupVar _)
theorem ESim.l_lookupArr (n : Str) : ESim (lookupArr n) := by esim_def lookupArr
macro_rules | `(tactic| esim_lib) => `(tactic| exact ESim.l_lookupArr _)
theorem ESim.l_scopeAct : ESim (scopeAct) := by esim_def scopeAct
macro_rules | `(tactic| esim_lib) => `(tactic| exact ESim.l_scopeAct )
theorem ESim.l_typeScopeAct : ESim (typeScopeAct) := by esim_def typeScopeAct
macro_rules | `(tactic| esim_lib) => `(tactic| exact ESim.l_typeScopeAct )
theorem ESim.l_lookupList {β : Type} (sel : Act → List (Str × β)) (n : Str) (g : Bool) : ESim (lookupList sel n g) := by esim_def lookupList
macro_rules | `(tactic| esim_lib) => `(tactic| exact ESim.l_lookupList _ _ _)
theorem ESim.l_enumDefOf (n : Str) (g : Bool) : ESim (enumDefOf n g) := by esim_def enumDefOf
macro_rules | `(tactic| esim_lib) => `(tactic| exact ESim.l_enumDefOf _ _)
theorem ESim.l_ptrDefOf (n : Str) (g : Bool) : ESim (ptrDefOf n g) := by esim_def ptrDefOf
macro_rules | `(tactic| esim_lib) => `(tactic| exact ESim.l_ptrDefOf _ _)
theorem ESim.l_compDefOf (n : Str) (g : Bool) : ESim (compDefOf n g) := by esim_def compDefOf
macro_rules | `(tactic| esim_lib) => `(tactic| exact ESim.l_compDefOf _ _)
theorem ESim.l_getType (t : Tok) (g : Bool) : ESim (getType t g) := by esim_def getType
macro_rules | `(tactic| esim_lib) => `(tactic| exact ESim.l_getType _ _)
theorem ESim.l_getEnumElement (v : Str) (g : Bool) : ESim (getEnumElement v g) := by esim_def getEnumElement
macro_rules | `(tactic| esim_lib) => `(tactic| exact ESim.l_getEnumElement _ _)
theorem ESim.l_isIdentifierType (t : Tok) (g : Bool) : ESim (isIdentifierType t g) := by esim_def isIdentifierType
macro_rules | `(tactic| esim_lib) => `(tactic| exact ESim.l_isIdentifierType _ _)
theorem ESim.l_readLoc (l : Loc) : ESim (readLoc l) := by esim_def readLoc
macro_rules | `(tactic| esim_lib) => `(tactic| exact ESim.l_readLoc _)
theorem ESim.l_locIsConst (l : Loc) : ESim (locIsConst l) := by esim_def locIsConst
macro_rules | `(tactic| esim_lib) => `(tactic| exact ESim.l_locIsConst _)
theorem ESim.l_isLive (id : Nat) : ESim (isLive id) := by esim_def isLive
macro_rules | `(tactic| esim_lib) => `(tactic| exact ESim.l_isLive _)
theorem ESim.l_liftMsg {α : Type} (t : Tok) (x : Except Msg α) : ESim (liftMsg t x) := by esim_def liftMsg
macro_rules | `(tactic| esim_lib) => `(tactic| exact ESim.l_liftMsg _ _)
theorem ESim.l_liftMsg0 {α : Type} (x : Except Msg α) : ESim (liftMsg0 x) := by esim_def liftMsg0
macro_rules | `(tactic| esim_lib) => `(tactic| exact ESim.l_liftMsg0 _)
theorem ESim.l_outputText (v : Val) : ESim (outputText v) := by esim_def outputText
macro_rules | `(tactic| esim_lib) => `(tactic| exact ESim.l_outputText _)
theorem ESim.l_filePre (t : Tok) (op : FOp) : ESim (filePre t op) := by esim_def filePre
macro_rules | `(tactic| esim_lib) => `(tactic| exact ESim.l_filePre _ _)
theorem ESim.l_codecDefs : ESim (codecDefs) := by esim_def codecDefs
macro_rules | `(tactic| esim_lib) => `(tactic| exact ESim.l_codecDefs )
theorem ESim.l_writeText (t : Tok) (v : Val) : ESim (writeText t v) := by esim_def writeText
macro_rules | `(tactic| esim_lib) => `(tactic| exact ESim.l_writeText _ _)
theorem ESim.l_modifyAct (id : Nat) (f : Act → Act) : ESim (modifyAct id f) := by esim_def modifyAct
macro_rules | `(tactic| esim_lib) => `(tactic| exact ESim.l_modifyAct _ _)
theorem ESim.l_modifyCur (f : Act → Act) : ESim (modifyCur f) := by esim_def modifyCur
macro_rules | `(tactic| esim_lib) => `(tactic| exact ESim.l_modifyCur _)
theorem ESim.l_addVar (s : Slot) : ESim (addVar s) := by esim_def addVar
macro_rules | `(tactic| esim_lib) => `(tactic| exact ESim.l_addVar _)
theorem ESim.l_addArr (s : Slot) : ESim (addArr s) := by esim_def addArr
macro_rules | `(tactic| esim_lib) => `(tactic| exact ESim.l_addArr _)
theorem ESim.l_writeLoc (t : Tok) (l : Loc) (v : Val) : ESim (writeLoc t l v) := by esim_def writeLoc
macro_rules | `(tactic| esim_lib) => `(tactic| exact ESim.l_writeLoc _ _ _)

theorem ESim.l_tick (t : Tok) : ESim (tick t) := by
  apply ESim.of_run; intro τ o1 o2; unfold tick
  apply ESimAt.get_bind
  dsimp only [replT, replF]
  split
  · exact (ESim.l_rtErr t .budget).run τ o1 o2
  · exact ESimAt.set _ _ τ { τ with steps := τ.steps + 1 } o1 o2 rfl rfl
macro_rules | `(tactic| esim_lib) => `(tactic| exact ESim.l_tick _)

theorem ESim.l_getLine : ESim getLine := by
  apply ESim.of_run; intro τ o1 o2; unfold getLine
  apply ESimAt.get_bind
  dsimp only [replT, replF]
  split
  · exact ESimAt.pure _ _ _ _
  · split
    · exact ESimAt.bind (ESimAt.set _ _ τ { τ with stdin := [], stdinEof := true } o1 o2 rfl rfl) fun _ τ o1 o2 => ESimAt.pure _ τ o1 o2
    · rename_i rest' _
      exact ESimAt.bind (ESimAt.set _ _ τ { τ with stdin := rest' } o1 o2 rfl rfl) fun _ τ o1 o2 => ESimAt.pure _ τ o1 o2
macro_rules | `(tactic| esim_lib) => `(tactic| exact ESim.l_getLine)

theorem ESim.l_doFile (t : Tok) (op : FOp) : ESim (doFile t op) := by
  apply ESim.of_run; intro τ o1 o2; unfold doFile
  apply ESimAt.get_bind
  dsimp only [replT, replF]
  split
  · rename_i f r _
    exact ESimAt.bind (ESimAt.set _ _ τ { τ with fs := f.fs, handles := f.handles } o1 o2 rfl rfl) fun _ τ o1 o2 => ESimAt.pure _ τ o1 o2
  · exact (ESim.l_rtErr t _).run τ o1 o2
macro_rules | `(tactic| esim_lib) => `(tactic| exact ESim.l_doFile _ _)

theorem ESim.l_doFile0 (op : FOp) : ESim (doFile0 op) := by
  apply ESim.of_run; intro τ o1 o2; unfold doFile0
  apply ESimAt.get_bind
  dsimp only [replT, replF]
  split
  · rename_i f r _
    exact ESimAt.bind (ESimAt.set _ _ τ { τ with fs := f.fs, handles := f.handles } o1 o2 rfl rfl) fun _ τ o1 o2 => ESimAt.pure _ τ o1 o2
  · exact (ESim.l_rtErr0 _).run τ o1 o2
macro_rules | `(tactic| esim_lib) => `(tactic| exact ESim.l_doFile0 _)

theorem ESim.l_runBuiltin (id : Str) (args : List Val) : ESim (runBuiltin id args) := by esim_def runBuiltin
macro_rules | `(tactic| esim_lib) => `(tactic| exact ESim.l_runBuiltin _ _)

/-- `catchNotDefined` never catches a crash point -/
theorem ESimAt.catchNotDefined {α : Type} {mr mf : M α} {hr hf : Stop → M α} {τ : St} {o1 o2 : List Str}
    (hm : ESimAt mr mf τ o1 o2) (hh : ∀ e τ o1 o2, ESimAt (hr e) (hf e) τ o1 o2) :
    ESimAt (catchNotDefined mr hr) (catchNotDefined mf hf) τ o1 o2 := by
  unfold Pseudo.catchNotDefined
  apply ESimAt.tryCatch hm
  · intro e τ o1 o2
    esim_auto
    exact hh _ _ _ _
  · intro p
    rfl

/-! #### the echo itself: appends chunks, or stops at one of its crash points -/

/-- from `s`, `m` only appends output chunks and fails only at an echo crash point -/
def EchoOKAt {α : Type} (m : M α) (s : St) : Prop :=
  ∃ (a : List Str) (r : Except Stop α), m.run.run s = (r, { s with out := a ++ s.out }) ∧
    ∀ e, r = .error e → ∃ p, EchoCrash p ∧ e = .crash p

theorem EchoOKAt.pure {α : Type} (a : α) (s : St) : EchoOKAt (pure a : M α) s :=
  ⟨[], .ok a, rfl, fun _ h => nomatch h⟩

theorem EchoOKAt.throw {α : Type} {p : CrashPoint} (hp : EchoCrash p) (s : St) : EchoOKAt (throw (.crash p) : M α) s :=
  ⟨[], .error (.crash p), rfl, fun e h => by cases h; exact ⟨p, hp, rfl⟩⟩

theorem EchoOKAt.bind {α β : Type} {m : M α} {k : α → M β} {s : St} (hm : EchoOKAt m s) (hk : ∀ a s, EchoOKAt (k a) s) :
    EchoOKAt (m >>= k) s := by
  obtain ⟨a, r, hr, he⟩ := hm
  cases r with
  | error e => exact ⟨a, .error e, run_bind_err _ _ _ _ _ hr, fun e' h => by cases h; exact he e rfl⟩
  | ok x =>
    obtain ⟨b, r', hr', he'⟩ := hk x { s with out := a ++ s.out }
    refine ⟨b ++ a, r', ?_, he'⟩
    rw [run_bind_ok _ _ _ _ _ hr, hr', List.append_assoc]

theorem EchoOKAt.get_bind {α : Type} {k : St → M α} {s : St} (h : EchoOKAt (k s) s) :
    EchoOKAt ((MonadState.get : M St) >>= k) s := by
  obtain ⟨a, r, hr, he⟩ := h
  exact ⟨a, r, by rw [run_bind_ok _ _ _ _ _ (run_get _)]; exact hr, he⟩

theorem EchoOKAt.emit (x : Str) (s : St) : EchoOKAt (emit x) s := ⟨[x], .ok ⟨⟩, rfl, fun _ h => nomatch h⟩

syntax "echo_lib" : tactic
macro_rules | `(tactic| echo_lib) => `(tactic| fail "echo_lib: no lemma")

macro "echo_step" : tactic => `(tactic| first
  | with_reducible exact EchoOKAt.pure _ _
  | exact EchoOKAt.throw (Or.inl rfl) _
  | exact EchoOKAt.throw (Or.inr rfl) _
  | with_reducible exact EchoOKAt.emit _ _
  | with_reducible echo_lib
  | with_reducible apply EchoOKAt.get_bind
  | with_reducible apply EchoOKAt.bind
  | intro _
  | split
  | dsimp only)
macro "echo_def " id:ident : tactic => `(tactic| (intro s; unfold $id; repeat' echo_step))

theorem echo_scopeAct : ∀ s, EchoOKAt scopeAct s := by echo_def scopeAct
macro_rules | `(tactic| echo_lib) => `(tactic| exact echo_scopeAct _)
theorem echo_globalAct : ∀ s, EchoOKAt globalAct s := by echo_def globalAct
macro_rules | `(tactic| echo_lib) => `(tactic| exact echo_globalAct _)
theorem echo_typeScopeAct : ∀ s, EchoOKAt typeScopeAct s := by echo_def typeScopeAct
macro_rules | `(tactic| echo_lib) => `(tactic| exact echo_typeScopeAct _)
theorem echo_lookupList {β : Type} (sel : Act → List (Str × β)) (n : Str) (g : Bool) : ∀ s, EchoOKAt (lookupList sel n g) s := by
  echo_def lookupList
macro_rules | `(tactic| echo_lib) => `(tactic| exact echo_lookupList _ _ _ _)
theorem echo_enumDefOf (n : Str) (g : Bool) : ∀ s, EchoOKAt (enumDefOf n g) s := by echo_def enumDefOf
macro_rules | `(tactic| echo_lib) => `(tactic| exact echo_enumDefOf _ _ _)
theorem echo_isLive (id : Nat) : ∀ s, EchoOKAt (isLive id) s := by echo_def isLive
macro_rules | `(tactic| echo_lib) => `(tactic| exact echo_isLive _ _)
theorem echo_outputText (v : Val) : ∀ s, EchoOKAt (outputText v) s := by echo_def outputText
macro_rules | `(tactic| echo_lib) => `(tactic| exact echo_outputText _ _)
theorem echo_replEcho (v : Val) : ∀ s, EchoOKAt (replEcho v) s := by echo_def replEcho

/-- the REPL run echoes, the plain run does nothing -/
theorem ESimAt.echo (v : Val) (τ : St) (o1 o2 : List Str) : ESimAt (replEcho v) (Pure.pure () : M Unit) τ o1 o2 := by
  obtain ⟨a, r, hr, he⟩ := echo_replEcho v (replT τ o1)
  cases r with
  | error e =>
    obtain ⟨p, hp, rfl⟩ := he e rfl
    exact .crash p _ hp hr
  | ok u => exact .same (.ok ()) τ a [] (List.nil_sublist _) hr rfl

theorem ESimAt.echo_then {α : Type} {m : M α} (v : Val) (τ : St) (o1 o2 : List Str) (hm : ∀ τ o1 o2, ESimAt m m τ o1 o2) :
    ESimAt (replEcho v >>= fun _ => m) m τ o1 o2 := by
  have h := ESimAt.bind (kr := fun _ => m) (kf := fun _ => m) (ESimAt.echo v τ o1 o2) (fun _ => hm)
  rw [pure_bind] at h
  exact h

/-! #### the induction -/

macro_rules | `(tactic| esim_step) => `(tactic| with_reducible apply ESimAt.catchNotDefined)
macro_rules | `(tactic| esim_step) => `(tactic| contradiction)
macro_rules | `(tactic| esim_step) => `(tactic| with_reducible refine ESimAt.tryCatch ?_ ?_ (fun _ => rfl))

structure AllESim (f : Nat) : Prop where
  defaultVal : ∀ t ty, ESim (defaultVal f t ty)
  defaultCells : ∀ t ty n acc, ESim (defaultCells f t ty n acc)
  evalArgs : ∀ es acc, ESim (evalArgs f es acc)
  evalIndices : ∀ es dims acc, ESim (evalIndices f es dims acc)
  resolveRef : ∀ r, ESim (resolveRef f r)
  callFun : ∀ t args, ESim (callFun f t args)
  bindParams : ∀ t ps es vs acc, ESim (bindParams f t ps es vs acc)
  evalExpr : ∀ e, ESim (evalExpr f e)
  execAssign : ∀ t r rhs, ESim (execAssign f t r rhs)
  runBlock : ∀ b, ESim (runBlock f b)
  ifChain : ∀ t bs els, ESim (ifChain f t bs els)
  caseMatch : ∀ v cl, ESim (caseMatch f v cl)
  caseClauses : ∀ v cls, ESim (caseClauses f v cls)
  loopBody : ∀ b, ESim (loopBody f b)
  whileLoop : ∀ t c b, ESim (whileLoop f t c b)
  repeatLoop : ∀ t b c, ESim (repeatLoop f t b c)
  forLoop : ∀ t it stop step b, ESim (forLoop f t it stop step b)
  callProc : ∀ t name args, ESim (callProc f t name args)
  resolveParams : ∀ ps acc, ESim (resolveParams f ps acc)
  evalBounds : ∀ bs acc, ESim (evalBounds f bs acc)
  declareVars : ∀ t ids ty, ESim (declareVars f t ids ty)
  declareArrs : ∀ t ids ty dims, ESim (declareArrs f t ids ty dims)
  outputAll : ∀ es, ESim (outputAll f es)
  fileName : ∀ t e, ESim (fileName f t e)
  execStmt : ∀ s, ESim (execStmt f s)

set_option hygiene false in
macro_rules | `(tactic| esim_ih) => `(tactic| first
  | apply ih.evalExpr | apply ih.resolveRef | apply ih.evalArgs | apply ih.evalIndices | apply ih.callFun
  | apply ih.bindParams | apply ih.execAssign | apply ih.runBlock | apply ih.ifChain | apply ih.caseMatch
  | apply ih.caseClauses | apply ih.loopBody | apply ih.whileLoop | apply ih.repeatLoop | apply ih.forLoop
  | apply ih.callProc | apply ih.resolveParams | apply ih.evalBounds | apply ih.declareVars | apply ih.declareArrs
  | apply ih.outputAll | apply ih.fileName | apply ih.execStmt | apply ih.defaultVal | apply ih.defaultCells)

open Lean in
macro "esim_fn " id:ident : tactic =>
  `(tactic| (apply ESim.of_run; intro τ o1 o2; rw [$(mkIdent (id.getId ++ `eq_def)):ident]; try dsimp only
             esim_auto))

section induction
variable {f : Nat}

theorem AllESim.zero : AllESim 0 where
  defaultVal _ _ := by esim_fn defaultVal
  defaultCells _ _ _ _ := by esim_fn defaultCells
  evalArgs _ _ := by esim_fn evalArgs
  evalIndices _ _ _ := by esim_fn evalIndices
  resolveRef _ := by esim_fn resolveRef
  callFun _ _ := by esim_fn callFun
  bindParams _ _ _ _ _ := by esim_fn bindParams
  evalExpr _ := by esim_fn evalExpr
  execAssign _ _ _ := by esim_fn execAssign
  runBlock _ := by esim_fn runBlock
  ifChain _ _ _ := by esim_fn ifChain
  caseMatch _ _ := by esim_fn caseMatch
  caseClauses _ _ := by esim_fn caseClauses
  loopBody _ := by esim_fn loopBody
  whileLoop _ _ _ := by esim_fn whileLoop
  repeatLoop _ _ _ := by esim_fn repeatLoop
  forLoop _ _ _ _ _ := by esim_fn forLoop
  callProc _ _ _ := by esim_fn callProc
  resolveParams _ _ := by esim_fn resolveParams
  evalBounds _ _ := by esim_fn evalBounds
  declareVars _ _ _ := by esim_fn declareVars
  declareArrs _ _ _ _ := by esim_fn declareArrs
  outputAll _ := by esim_fn outputAll
  fileName _ _ := by esim_fn fileName
  execStmt _ := by esim_fn execStmt

theorem estep_defaultVal (ih : AllESim f) : ∀ t ty, ESim (defaultVal (f+1) t ty) := by
  intro t ty; esim_fn defaultVal

theorem estep_defaultCells (ih : AllESim f) : ∀ t ty n acc, ESim (defaultCells (f+1) t ty n acc) := by
  intro t ty n acc; esim_fn defaultCells

theorem estep_evalArgs (ih : AllESim f) : ∀ es acc, ESim (evalArgs (f+1) es acc) := by
  intro es acc; esim_fn evalArgs

theorem estep_evalIndices (ih : AllESim f) : ∀ es dims acc, ESim (evalIndices (f+1) es dims acc) := by
  intro es dims acc; esim_fn evalIndices

theorem estep_resolveRef (ih : AllESim f) : ∀ r, ESim (resolveRef (f+1) r) := by
  intro r; esim_fn resolveRef

theorem estep_callFun (ih : AllESim f) : ∀ t args, ESim (callFun (f+1) t args) := by
  intro t args; esim_fn callFun

theorem estep_bindParams (ih : AllESim f) : ∀ t ps es vs acc, ESim (bindParams (f+1) t ps es vs acc) := by
  intro t ps es vs acc; esim_fn bindParams

theorem estep_evalExpr (ih : AllESim f) : ∀ e, ESim (evalExpr (f+1) e) := by
  intro e; esim_fn evalExpr

theorem estep_execAssign (ih : AllESim f) : ∀ t r rhs, ESim (execAssign (f+1) t r rhs) := by
  intro t r rhs; esim_fn execAssign

theorem estep_ifChain (ih : AllESim f) : ∀ t bs els, ESim (ifChain (f+1) t bs els) := by
  intro t bs els; esim_fn ifChain

theorem estep_caseMatch (ih : AllESim f) : ∀ v cl, ESim (caseMatch (f+1) v cl) := by
  intro v cl; esim_fn caseMatch

theorem estep_caseClauses (ih : AllESim f) : ∀ v cls, ESim (caseClauses (f+1) v cls) := by
  intro v cls; esim_fn caseClauses

theorem estep_loopBody (ih : AllESim f) : ∀ b, ESim (loopBody (f+1) b) := by
  intro b; esim_fn loopBody

theorem estep_whileLoop (ih : AllESim f) : ∀ t c b, ESim (whileLoop (f+1) t c b) := by
  intro t c b; esim_fn whileLoop

theorem estep_repeatLoop (ih : AllESim f) : ∀ t b c, ESim (repeatLoop (f+1) t b c) := by
  intro t b c; esim_fn repeatLoop

theorem estep_forLoop (ih : AllESim f) : ∀ t it stop step b, ESim (forLoop (f+1) t it stop step b) := by
  intro t it stop step b; esim_fn forLoop

theorem estep_callProc (ih : AllESim f) : ∀ t name args, ESim (callProc (f+1) t name args) := by
  intro t name args; esim_fn callProc

theorem estep_resolveParams (ih : AllESim f) : ∀ ps acc, ESim (resolveParams (f+1) ps acc) := by
  intro ps acc; esim_fn resolveParams

theorem estep_evalBounds (ih : AllESim f) : ∀ bs acc, ESim (evalBounds (f+1) bs acc) := by
  intro bs acc; esim_fn evalBounds

theorem estep_declareVars (ih : AllESim f) : ∀ t ids ty, ESim (declareVars (f+1) t ids ty) := by
  intro t ids ty; esim_fn declareVars

theorem estep_declareArrs (ih : AllESim f) : ∀ t ids ty dims, ESim (declareArrs (f+1) t ids ty dims) := by
  intro t ids ty dims; esim_fn declareArrs

theorem estep_outputAll (ih : AllESim f) : ∀ es, ESim (outputAll (f+1) es) := by
  intro es; esim_fn outputAll

theorem estep_fileName (ih : AllESim f) : ∀ t e, ESim (fileName (f+1) t e) := by
  intro t e; esim_fn fileName

set_option maxHeartbeats 2000000 in
theorem estep_execStmt (ih : AllESim f) : ∀ s, ESim (execStmt (f+1) s) := by
  intro s; esim_fn execStmt

/-- the one place where the flag is read -/
theorem estep_runBlock (ih : AllESim f) : ∀ b, ESim (runBlock (f+1) b) := by
  intro b
  apply ESim.of_run
  intro τ o1 o2
  cases b with
  | nil => rw [runBlock_nil]; exact ESimAt.pure _ _ _ _
  | cons s rest =>
    rw [runBlock_cons]
    refine ESimAt.bind ((ih.execStmt s).run τ o1 o2) ?_
    intro v τ o1 o2
    apply ESimAt.get_bind
    dsimp only [replT, replF]
    simp only [Bool.false_eq_true, if_true, if_false]
    exact ESimAt.echo_then v τ o1 o2 (ih.runBlock rest).run

theorem AllESim.succ (ih : AllESim f) : AllESim (f + 1) where
  defaultVal := estep_defaultVal ih
  defaultCells := estep_defaultCells ih
  evalArgs := estep_evalArgs ih
  evalIndices := estep_evalIndices ih
  resolveRef := estep_resolveRef ih
  callFun := estep_callFun ih
  bindParams := estep_bindParams ih
  evalExpr := estep_evalExpr ih
  execAssign := estep_execAssign ih
  runBlock := estep_runBlock ih
  ifChain := estep_ifChain ih
  caseMatch := estep_caseMatch ih
  caseClauses := estep_caseClauses ih
  loopBody := estep_loopBody ih
  whileLoop := estep_whileLoop ih
  repeatLoop := estep_repeatLoop ih
  forLoop := estep_forLoop ih
  callProc := estep_callProc ih
  resolveParams := estep_resolveParams ih
  evalBounds := estep_evalBounds ih
  declareVars := estep_declareVars ih
  declareArrs := estep_declareArrs ih
  outputAll := estep_outputAll ih
  fileName := estep_fileName ih
  execStmt := estep_execStmt ih

end induction

/-- **the evaluator in the REPL and outside it run in lockstep, up to the echo**: all 25 functions, every fuel -/
theorem evalE_all : ∀ fuel, AllESim fuel
  | 0 => AllESim.zero
  | f + 1 => (evalE_all f).succ

end C12Echo

namespace C12Echo

theorem esim_runMain (f : Nat) (b : Block) : ESim (runMain f b) := by
  apply ESim.of_run
  intro τ o1 o2
  unfold runMain
  refine ESimAt.tryCatch (((evalE_all f).runBlock b).run τ o1 o2) ?_ (fun _ => rfl)
  intro e τ o1 o2
  esim_auto

/-- what the two runs must agree on: everything but the output chunks and the flag -/
def core (s : St) : St := { s with out := [], repl := false }

/-- the text printed: sublist of chunks ⇒ subsequence of characters -/
theorem output_sublist {s1 s2 : St} (h : s2.out.Sublist s1.out) : s2.output.Sublist s1.output := by
  unfold St.output
  have h' := h.reverse
  generalize s1.out.reverse = l1 at h'
  generalize s2.out.reverse = l2 at h'
  induction h' with
  | slnil => exact List.Sublist.refl _
  | cons a _ ih => exact List.Sublist.trans ih (List.sublist_append_right _ _)
  | cons_cons a _ ih => exact List.Sublist.append (List.Sublist.refl _) ih

/-- the simulation, read off for a start state `σ` with the flag set / cleared -/
theorem ESimAt.spec {α : Type} {m : M α} {σ : St} (h : ESimAt m m σ σ.out σ.out) :
    (∃ p, EchoCrash p ∧ (m.run.run { σ with repl := true }).1 = .error (.crash p)) ∨
    ((m.run.run { σ with repl := true }).1 = (m.run.run { σ with repl := false }).1 ∧
     core (m.run.run { σ with repl := true }).2 = core (m.run.run { σ with repl := false }).2 ∧
     ∃ a1 a2 : List Str, (m.run.run { σ with repl := true }).2.out = a1 ++ σ.out ∧
       (m.run.run { σ with repl := false }).2.out = a2 ++ σ.out ∧ a2.Sublist a1) := by
  have eT : ({ σ with repl := true } : St) = replT σ σ.out := rfl
  have eF : ({ σ with repl := false } : St) = replF σ σ.out := rfl
  rw [eT, eF]
  cases h with
  | crash p σ' hp h => exact .inl ⟨p, hp, by rw [h]⟩
  | same r τ' a1 a2 hs hr hf =>
    refine .inr ?_
    rw [hr, hf]
    exact ⟨rfl, rfl, a1, a2, rfl, rfl, hs⟩

end C12Echo

open C12Echo in
/-- **C12 (the echo only adds output), blocks.** Run a block from the same state with the `repl` flag set and with it
    cleared. Either the REPL run stops at a crash point raised by the echo of a value (`outputText` of an enumeration
    value whose type is not visible, or no activation at all), or: the two runs end with the same result, in states that
    differ only in the output chunks and the flag, and the chunks appended by the plain run are a sublist of those
    appended by the REPL run (the rest being the echoes). -/
theorem C12_echo_only_output_block (f : Nat) (b : Block) (σ : St) :
    (∃ p, EchoCrash p ∧ ((runBlock f b).run.run { σ with repl := true }).1 = .error (.crash p)) ∨
    (((runBlock f b).run.run { σ with repl := true }).1 = ((runBlock f b).run.run { σ with repl := false }).1 ∧
     core ((runBlock f b).run.run { σ with repl := true }).2 = core ((runBlock f b).run.run { σ with repl := false }).2 ∧
     ∃ a1 a2 : List Str, ((runBlock f b).run.run { σ with repl := true }).2.out = a1 ++ σ.out ∧
       ((runBlock f b).run.run { σ with repl := false }).2.out = a2 ++ σ.out ∧ a2.Sublist a1) :=
  (((evalE_all f).runBlock b).run σ σ.out σ.out).spec

open C12Echo in
/-- **C12 (the echo only adds output), entries / programs.** The same for `runOn` (one REPL entry vs the same text run
    as a program): same outcome, same final state up to output chunks and flag, plain chunks a sublist of the REPL
    chunks, and hence the plain output text a subsequence of the REPL output text — unless the echo itself stops the
    REPL run at one of its two crash points. -/
theorem C12_echo_only_output (f : Nat) (b : Block) (σ : St) :
    (∃ p, EchoCrash p ∧ (runOn f b { σ with repl := true }).1 = .crash p) ∨
    ((runOn f b { σ with repl := true }).1 = (runOn f b { σ with repl := false }).1 ∧
     core (runOn f b { σ with repl := true }).2 = core (runOn f b { σ with repl := false }).2 ∧
     (∃ a1 a2 : List Str, (runOn f b { σ with repl := true }).2.out = a1 ++ σ.out ∧
       (runOn f b { σ with repl := false }).2.out = a2 ++ σ.out ∧ a2.Sublist a1) ∧
     (runOn f b { σ with repl := false }).2.output.Sublist (runOn f b { σ with repl := true }).2.output) := by
  rw [runOn_eq, runOn_eq]
  rcases ((esim_runMain f b).run σ σ.out σ.out).spec with ⟨p, hp, h⟩ | ⟨h1, h2, a1, a2, h3, h4, h5⟩
  · exact .inl ⟨p, hp, by rw [h]; rfl⟩
  · refine .inr ⟨by rw [h1], h2, ⟨a1, a2, h3, h4, h5⟩, ?_⟩
    apply output_sublist
    dsimp only
    rw [h3, h4]
    exact List.Sublist.append h5 (List.Sublist.refl _)

/-! ### non-vacuity -/

namespace C12ReplFileDemo
open FuelMonoDemo

/-- `x <- 1` -/
def s1 : Stmt := .expr (.assign (tok "<-") (.var (tok "x")) (.intLit (tok "1") 1))
/-- `OUTPUT x + 1` -/
def s2 : Stmt := .output (tok "OUTPUT") [.arith (tok "+") .add (.access (tok "x") (.var (tok "x"))) (.intLit (tok "1") 1)]
/-- `CALL Q` (not defined) -/
def bad : Stmt := .call (tok "CALL") "Q".toList []

def isOkO : Outcome → Bool
  | .ok => true
  | _ => false
def isNotDefinedO : Outcome → Bool
  | .diag d => d.msg == .notDefined
  | _ => false

/-- the hypothesis of `C12_block_append` holds on a concrete block, and the second piece really depends on the state
    the first one left (`x`) -/
example : isFuel ((runBlock 10 ([s1] ++ [s2])).run.run σ0).1 = false := by decide
example : (runBlock 10 [s1] >>= fun _ => runBlock 10 [s2]).run.run σ0 = (runBlock 10 ([s1] ++ [s2])).run.run σ0 :=
  C12_block_append 10 [s1] [s2] σ0 (ne_fuel_of (by decide))
example : ((runBlock 10 ([s1] ++ [s2])).run.run σ0).2.output = "2\n".toList := by decide
example : isFuel ((runBlock 10 [s2]).run.run σ0).1 = false ∧ ((runBlock 10 [s2]).run.run σ0).2.output = [] := by decide

/-- two entries, both fine: the session state has the output `2`, and so has the file run — with any fuel ≥ 13 — by the
    theorem (the file run is not computed) -/
example : isOkO (runEntries 10 [[s1], [s2]] σ0).1 = true ∧ (runEntries 10 [[s1], [s2]] σ0).2.output = "2\n".toList := by
  decide
example (g : Nat) (hg : 13 ≤ g) : runOn g [s1, s2] σ0 = (.ok, (runEntries 10 [[s1], [s2]] σ0).2) :=
  C12_entries_eq_file 10 g [[s1], [s2]] σ0 _ .ok (by rfl) (fun h => nomatch h) hg

/-- a failing entry in the middle: `runEntries` stops there with the diagnostic, and the file run reports the same
    diagnostic in the same state -/
example : isNotDefinedO (runEntries 10 [[s1], [bad], [s2]] σ0).1 = true := by decide
example (g : Nat) (hg : 14 ≤ g) : runOn g [s1, bad, s2] σ0 = runEntries 10 [[s1], [bad], [s2]] σ0 := by
  have hne : (runEntries 10 [[s1], [bad], [s2]] σ0).1 ≠ .fuel := by
    intro h
    have : isNotDefinedO (runEntries 10 [[s1], [bad], [s2]] σ0).1 = true := by decide
    rw [h] at this
    cases this
  exact C12_entries_eq_file 10 g [[s1], [bad], [s2]] σ0 _ _ rfl hne hg

/-- and the converse, statement by statement -/
example : runEntries 10 [[s1], [s2]] σ0 = runOn 10 [s1, s2] σ0 :=
  C12_statements_eq_file 10 [s1, s2] σ0 _ .ok (by rfl) (fun h => nomatch h)

/-- `x + 1` as a statement (echoed in the REPL) -/
def s3 : Stmt := .expr (.arith (tok "+") .add (.access (tok "x") (.var (tok "x"))) (.intLit (tok "1") 1))
/-- `OUTPUT x` -/
def s4 : Stmt := .output (tok "OUTPUT") [.access (tok "x") (.var (tok "x"))]

/-- the echo: in the REPL `x <- 1`, `x + 1`, `OUTPUT x` prints `2` (the echo) and `1`; as a program only `1` -/
example : (runOn 10 [s1, s3, s4] { σ0 with repl := true }).2.output = "2\n1\n".toList ∧
    (runOn 10 [s1, s3, s4] { σ0 with repl := false }).2.output = "1\n".toList := by decide
/-- here the second alternative of `C12_echo_only_output` is the one that holds: the REPL run is fine -/
example : isOkO (runOn 10 [s1, s3, s4] { σ0 with repl := true }).1 = true := by decide
example : C12Echo.core (runOn 10 [s1, s3, s4] { σ0 with repl := true }).2
    = C12Echo.core (runOn 10 [s1, s3, s4] { σ0 with repl := false }).2 := by
  rcases C12_echo_only_output 10 [s1, s3, s4] σ0 with ⟨p, _, h⟩ | h
  · have : isOkO (runOn 10 [s1, s3, s4] { σ0 with repl := true }).1 = true := by decide
    rw [h] at this
    cases this
  · exact h.2.1

/-- the first alternative cannot be dropped: on a state with a variable of an enumeration type `E` that is not defined
    (ill-formed; not claimed reachable), the statement `e` is fine as a program, and its echo stops the REPL run -/
def σbad : St :=
  { σ0 with acts := [{ mkGlobal with vars := [{ name := "e".toList, ty := .enum "E".toList, val := .enum "E".toList 0 }] }] }
def s5 : Stmt := .expr (.access (tok "e") (.var (tok "e")))
def isEchoCrashO : Outcome → Bool
  | .crash .enumIndexOOB => true
  | _ => false
example : isOkO (runOn 10 [s5] { σbad with repl := false }).1 = true ∧
    isEchoCrashO (runOn 10 [s5] { σbad with repl := true }).1 = true := by decide

end C12ReplFileDemo

end Pseudo
