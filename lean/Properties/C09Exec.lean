import Properties.C07Exec
import Properties.C09Deref
/-!
# C09 for programs: pointer assignment and dereference on the evaluator

`Properties/C09.lean` proves the liveness discipline (ids are never reused), `Properties/C09Deref.lean` the steps
`resolveRef (.deref …)` / `evalExpr (.ptrAssign …)` relative to hypotheses about intermediate states. Here the clauses of C09 are
statements about RUNS `(evalExpr …).run.run σ`, `(execAssign …).run.run σ`, `(execStmt …).run.run σ`, `(callProc …).run.run σ`
from hypotheses about the start state only.

**Hypotheses.** `RecordLemmas.HasVar σ n id ty v` (the name `n` denotes the plain variable slot `n` of activation `id` — the
current or the global one; not a BYREF formal, not a constant — of declared type `ty`, holding `v`); `ArrayLemmas.HasArray`;
`C09ExecL.PtrDef σ pn T` (the pointer type name `pn` is visible in `σ` — declaring scope, then global — and defined as "pointer
to `T`": `PtrDef.of_current`, `PtrDef.of_global`); `ArrayLemmas.PureAt` / `PureAll` for right-hand sides and index expressions.
A *pointer variable* is `HasVar σ p idp (.ptr pn) pv`; after `DECLARE p : pn` its value is `.ptr pn none`.

1. `C09_exec_ptr_assign` (`_ok`, `_mismatch`, `_elem`, `_field`, `C09_exec_stmt_ptr_assign`), `C09_exec_ptrSt_frame`:
   `p <- ^x` for `x` a plain variable, an array element (pure in-bounds indices), a scalar record field (one nesting level):
   ends normally and `p` holds `.ptr pn (some <location of x>)` iff the type of `x` is exactly the pointed-to type; otherwise
   `typeMismatch` at the assignment token, state unchanged. Nothing else changes.
2. `C09_exec_deref_read` (`_var`, `_elem`, `_field`), `C09_exec_alias_read`: `p^` evaluates to what the target location reads
   NOW, in every state in which `p` holds the location and the location is readable. `C09_exec_deref_write` (`_mismatch`,
   `_var`, `_elem`, `_field`): `p^ <- rhs` is exactly one write at the target: the same run as `x <- rhs` / `r.m <- rhs`;
   frame as in C07Exec. `C09_exec_alias_sees_write`.
3. `C09_exec_deref_unset` (`_write`): `p^` on a never assigned pointer: `deletedObject` at the `^`, state unchanged.
4. `C09_exec_deref_dead` (any call: a pointer into an activation created by the call is dead afterwards),
   `C09_exec_deref_dead_call` (the whole scenario from the start state: a one-parameter procedure whose body is `p <- ^n`,
   called from the main program), `C09_exec_deref_dead_state`, `C09_exec_dead_stays_dead`.
5. `C09_exec_alias_survives_overwrite`: after `p <- ^r.m ; r <- s`, `p^` is `s.m`'s value.

**Restrictions** (said again at the theorems): `p`, `x`, `r`, `s` plain variables of the current / global activation; targets
`x`, `a[i…]`, `r.m` (one level); (4, concrete form) call from the main program, local = BYVAL parameter cell.
**Model facts worth knowing**: the type check of `p^ <- v` is against the type of the target's CURRENT value, that of
`p <- ^r.m` against the type of the member's current value; an unset and a dead pointer give the same diagnostic
(`deletedObject`).

Helper lemmas: namespace `Pseudo.C09ExecL`.
-/
namespace Pseudo
namespace C09ExecL
open ArrayLemmas C07Copy CallLemmas RecordLemmas

/-! ## the pointer type definition a name denotes, as a function of the activation stack -/

/-- the activation from which type names are looked up (`typeScopeAct`) -/
def typeScopeP (acts : List Act) : Except Stop Act :=
  if (acts.takeWhile (·.isComp)).any (·.typeGlobal) then
    match acts.getLast? with
    | some a => .ok a
    | none => .error (.crash .noActivation)
  else
    match acts.find? (fun a => !a.isComp) with
    | some a => .ok a
    | none => .error (.crash .noActivation)

/-- `ptrDefOf pn`: the declaring scope first, then the global activation -/
def ptrP (acts : List Act) (pn : Str) : Except Stop (Option (Str × Ty)) :=
  match typeScopeP acts with
  | .error e => .error e
  | .ok a =>
    match acts.getLast? with
    | none => .error (.crash .noActivation)
    | some g =>
      match a.ptrs.find? (·.1 == pn) with
      | some x => .ok (some x)
      | none => if a.id == g.id then .ok none else .ok (g.ptrs.find? (·.1 == pn))

theorem run_globalAct (σ : St) :
    globalAct.run.run σ = ((match σ.acts.getLast? with | some a => .ok a | none => .error (.crash .noActivation)), σ) := by
  unfold globalAct
  rw [run_bind_ok _ _ _ _ _ (run_get σ)]
  cases σ.acts.getLast? <;> rfl

theorem run_scopeAct (σ : St) :
    scopeAct.run.run σ =
      ((match σ.acts.find? (fun a => !a.isComp) with | some a => .ok a | none => .error (.crash .noActivation)), σ) := by
  unfold scopeAct
  rw [run_bind_ok _ _ _ _ _ (run_get σ)]
  cases σ.acts.find? (fun a => !a.isComp) <;> rfl

theorem run_typeScopeAct (σ : St) : typeScopeAct.run.run σ = (typeScopeP σ.acts, σ) := by
  unfold typeScopeAct typeScopeP
  rw [run_bind_ok _ _ _ _ _ (run_get σ)]
  by_cases h : (σ.acts.takeWhile (·.isComp)).any (·.typeGlobal) = true
  · simp only [h, if_true]
    exact run_globalAct σ
  · simp only [h, Bool.false_eq_true, if_false]
    exact run_scopeAct σ

theorem run_ptrDefOf (σ : St) (pn : Str) : (ptrDefOf pn).run.run σ = (ptrP σ.acts pn, σ) := by
  unfold ptrDefOf lookupList ptrP
  cases hs : typeScopeP σ.acts with
  | error e =>
    have := run_typeScopeAct σ
    rw [hs] at this
    exact run_bind_err _ _ _ _ _ this
  | ok a =>
    have := run_typeScopeAct σ
    rw [hs] at this
    rw [run_bind_ok _ _ _ _ _ this]
    have hg := run_globalAct σ
    cases hl : σ.acts.getLast? with
    | none =>
      rw [hl] at hg
      exact run_bind_err _ _ _ _ _ hg
    | some g =>
      rw [hl] at hg
      rw [run_bind_ok _ _ _ _ _ hg]
      dsimp only
      cases a.ptrs.find? (·.1 == pn) with
      | some x => rfl
      | none =>
        dsimp only
        cases a.id == g.id <;> rfl

/-- **the pointer type `pn` is visible in `σ` and points to `T`** -/
def PtrDef (σ : St) (pn : Str) (T : Ty) : Prop := ∃ dn, ptrP σ.acts pn = .ok (some (dn, T))

theorem PtrDef.run {σ : St} {pn : Str} {T : Ty} (h : PtrDef σ pn T) :
    ∃ dn, (ptrDefOf pn).run.run σ = (.ok (some (dn, T)), σ) := by
  obtain ⟨dn, h⟩ := h
  exact ⟨dn, by rw [run_ptrDefOf, h]⟩

theorem PtrDef.congr {σ σ' : St} {pn : Str} {T : Ty} (h : PtrDef σ pn T) (ha : σ'.acts = σ.acts) : PtrDef σ' pn T := by
  unfold PtrDef at *
  rw [ha]
  exact h

/-- a pointer type defined in the current (non-record) activation -/
theorem PtrDef.of_current (σ : St) (cur : Act) (rest : List Act) (pn dn : Str) (T : Ty)
    (h : σ.acts = cur :: rest) (hc : cur.isComp = false) (hp : cur.ptrs.find? (·.1 == pn) = some (dn, T)) : PtrDef σ pn T := by
  obtain ⟨g, hg⟩ := exists_getLast cur rest
  refine ⟨dn, ?_⟩
  unfold ptrP typeScopeP
  rw [h]
  simp only [List.takeWhile_cons, hc, Bool.false_eq_true, if_false, List.any_nil, List.find?_cons, Bool.not_false, hg, hp]

/-- a pointer type defined in the global activation, seen from another (non-record) activation that does not define the name -/
theorem PtrDef.of_global (σ : St) (cur g : Act) (rest : List Act) (pn dn : Str) (T : Ty)
    (h : σ.acts = cur :: rest) (hg : σ.acts.getLast? = some g) (hc : cur.isComp = false)
    (hcur : cur.ptrs.find? (·.1 == pn) = none) (hid : (cur.id == g.id) = false)
    (hp : g.ptrs.find? (·.1 == pn) = some (dn, T)) : PtrDef σ pn T := by
  refine ⟨dn, ?_⟩
  unfold ptrP typeScopeP
  rw [hg, h]
  simp only [List.takeWhile_cons, hc, Bool.false_eq_true, if_false, List.any_nil, List.find?_cons, Bool.not_false, hcur, hid, hp]

/-! ## liveness -/

theorem any_of_mem_ids (σ : St) (k : Nat) (h : k ∈ C04.ids σ) : σ.acts.any (·.id == k) = true := by
  unfold C04.ids at h
  obtain ⟨a, ha, rfl⟩ := List.mem_map.1 h
  exact List.any_eq_true.2 ⟨a, ha, beq_self_eq_true _⟩

theorem any_false_of_not_mem_ids (σ : St) (k : Nat) (h : k ∉ C04.ids σ) : σ.acts.any (·.id == k) = false := by
  cases hb : σ.acts.any (·.id == k) with
  | false => rfl
  | true =>
    exfalso
    apply h
    obtain ⟨a, ha, he⟩ := List.any_eq_true.1 hb
    have : a.id = k := by simpa using he
    unfold C04.ids
    rw [← this]
    exact List.mem_map_of_mem ha

/-- a readable location is live -/
theorem live_of_read (σ : St) (l : Loc) (v : Val) (h : readLocP σ l = .ok v) : σ.acts.any (·.id == l.act) = true :=
  any_of_mem_ids σ l.act (act_mem_ids_of_read σ l v h)

/-! ## `p <- ^v` -/

/-- the state after the pointer variable `p` of activation `idp` got the target `l` -/
def ptrSt (σ : St) (idp : Nat) (p pn : Str) (l : Loc) : St := updSt σ idp (writeF (varLoc idp p) (.ptr pn (some l)))

/-- `r <- ^v`, both references resolve without changing the state, `r` to a holder of the pointer type `pn` -/
theorem run_ptrAssign (σ : St) (t : Tok) (r v : Ref) (ph vh : Holder) (pn : Str) (T : Ty) (f : Nat)
    (hr : (resolveRef f r).run.run σ = (.ok ph, σ)) (hparr : ph.isArr = false)
    (hv : (resolveRef f v).run.run σ = (.ok vh, σ)) (hvarr : vh.isArr = false)
    (hpty : ph.ty = .ptr pn) (hdef : PtrDef σ pn T) :
    (evalExpr (f+1) (.ptrAssign t r v)).run.run σ =
      if T = vh.ty then
        (match (writeLoc t ph.loc (.ptr pn (some vh.loc))).run.run σ with
         | (.ok _, σ') => (.ok .none, σ')
         | (.error e, σ') => (.error e, σ'))
      else (.error (.diag (rtDiag σ t.line t.col .typeMismatch)), σ) := by
  obtain ⟨dn, hdef⟩ := hdef.run
  rw [evalExpr_ptrAssign, run_bind_ok _ _ _ _ _ hr]
  simp only [hparr, Bool.false_eq_true, if_false]
  rw [run_bind_ok _ _ _ _ _ hv]
  simp only [hvarr, Bool.false_eq_true, if_false, hpty]
  rw [run_bind_ok _ _ _ _ _ hdef]
  by_cases hT : T = vh.ty
  · have : (T != vh.ty) = false := by simp [hT]
    simp only [this, Bool.false_eq_true, if_false, if_pos hT]
    rw [run_bind]
    rcases (writeLoc t ph.loc (.ptr pn (some vh.loc))).run.run σ with ⟨e | u, σ'⟩ <;> rfl
  · have : (T != vh.ty) = true := by simpa using hT
    simp only [this, if_true, if_neg hT]
    exact run_rtErr t .typeMismatch σ

/-- … `r` a plain pointer variable `p` -/
theorem run_ptrAssign_var (σ : St) (t pt : Tok) (v : Ref) (vh : Holder) (idp : Nat) (pn : Str) (T : Ty) (pv : Val) (f : Nat)
    (hp : HasVar σ pt.val idp (.ptr pn) pv) (hdef : PtrDef σ pn T)
    (hv : (resolveRef (f+1) v).run.run σ = (.ok vh, σ)) (hvarr : vh.isArr = false) :
    (evalExpr (f+2) (.ptrAssign t (.var pt) v)).run.run σ =
      if T = vh.ty then (.ok .none, ptrSt σ idp pt.val pn vh.loc)
      else (.error (.diag (rtDiag σ t.line t.col .typeMismatch)), σ) := by
  rw [run_ptrAssign σ t (.var pt) v (varHolder idp pt.val (.ptr pn)) vh pn T (f+1)
    (run_resolveRef_hasVar σ pt idp (.ptr pn) f hp.resolves) rfl hv hvarr rfl hdef]
  split
  · have hw : (writeLoc t (varHolder idp pt.val (.ptr pn)).loc (.ptr pn (some vh.loc))).run.run σ =
        (.ok ⟨⟩, ptrSt σ idp pt.val pn vh.loc) :=
      run_writeLoc_path σ t idp false pt.val [] pv _ _ hp.reads hp.notConst rfl
    rw [hw]
  · rfl

/-! ## `p^` -/

/-- the holder of `p^` when `p` points to `l` and `l` reads `tv` -/
def derefHolder (l : Loc) (tv : Val) : Holder := { loc := l, isArr := false, ty := tv.ty, name := l.name }

/-- `p^` for a plain pointer variable that holds the target `l`, readable (hence live): the holder at `l` -/
theorem run_deref_var (σ : St) (t pt : Tok) (idp : Nat) (pn : Str) (l : Loc) (tv : Val) (f : Nat)
    (hp : HasVar σ pt.val idp (.ptr pn) (.ptr pn (some l))) (hv : readLocP σ l = .ok tv) :
    (resolveRef (f+2) (.deref t (.var pt))).run.run σ = (.ok (derefHolder l tv), σ) :=
  C09_deref_alias (f+1) t (.var pt) σ σ (varHolder idp pt.val (.ptr pn)) pn l tv
    (run_resolveRef_hasVar σ pt idp (.ptr pn) f hp.resolves) rfl
    (by rw [run_readLoc]; exact hp.reads) (live_of_read σ l tv hv) (by rw [run_readLoc]; exact hv)

/-- `p^` for a pointer variable that was never set, or whose target's activation is not live: `deletedObject` at the `^` -/
theorem run_deref_var_bad (σ : St) (t pt : Tok) (idp : Nat) (pn : Str) (tgt : Option Loc) (f : Nat)
    (hp : HasVar σ pt.val idp (.ptr pn) (.ptr pn tgt))
    (hbad : ∀ l, tgt = some l → σ.acts.any (·.id == l.act) = false) :
    (resolveRef (f+2) (.deref t (.var pt))).run.run σ = (.error (.diag (rtDiag σ t.line t.col .deletedObject)), σ) := by
  have hp' : (readLoc (varHolder idp pt.val (.ptr pn)).loc).run.run σ = (.ok (.ptr pn tgt), σ) := by
    rw [run_readLoc]; exact congrArg (·, σ) hp.reads
  rw [resolveRef_deref, run_bind_ok _ _ _ _ _ (run_resolveRef_hasVar σ pt idp (.ptr pn) f hp.resolves)]
  simp only [Bool.false_eq_true, if_false]
  rw [run_bind_ok _ _ _ _ _ hp']
  cases tgt with
  | none => exact run_rtErr t .deletedObject σ
  | some l =>
    simp only
    rw [run_bind_ok _ _ _ _ _ (run_isLive l.act σ)]
    simp only [hbad l rfl, Bool.not_false, if_true]
    exact run_rtErr t .deletedObject σ

theorem deletedObject_ne (σ : St) (l c : Nat) : ((rtDiag σ l c .deletedObject).msg == .notDefined) = false := by
  unfold rtDiag
  cases σ.acts <;> rfl

/-- the expression `p^` / the assignment `p^ <- rhs` on such a pointer -/
theorem run_access_deref_bad (σ : St) (at' t pt : Tok) (idp : Nat) (pn : Str) (tgt : Option Loc) (f : Nat)
    (hp : HasVar σ pt.val idp (.ptr pn) (.ptr pn tgt))
    (hbad : ∀ l, tgt = some l → σ.acts.any (·.id == l.act) = false) :
    (evalExpr (f+3) (.access at' (.deref t (.var pt)))).run.run σ =
      (.error (.diag (rtDiag σ t.line t.col .deletedObject)), σ) :=
  run_evalExpr_access_resolve_error σ at' _ _ (f+2) (run_deref_var_bad σ t pt idp pn tgt f hp hbad) (deletedObject_ne σ _ _)

theorem run_assign_deref_bad (σ : St) (at' t pt : Tok) (rhs : Expr) (rv : Val) (idp : Nat) (pn : Str) (tgt : Option Loc)
    (f₀ f : Nat) (hp : HasVar σ pt.val idp (.ptr pn) (.ptr pn tgt))
    (hbad : ∀ l, tgt = some l → σ.acts.any (·.id == l.act) = false)
    (hrhs : PureAt σ f₀ rhs rv) (hf : max f₀ 2 + 1 ≤ f) :
    (execAssign f at' (.deref t (.var pt)) rhs).run.run σ =
      (.error (.diag (rtDiag σ t.line t.col .deletedObject)), σ) := by
  obtain ⟨f', rfl⟩ : ∃ f', f = f' + 3 := ⟨f - 3, by omega⟩
  rw [run_execAssign_eval σ σ at' _ rhs rv (f'+2) hp.acts_ne (hrhs (f'+2) (by omega))]
  exact run_assignTail_err_nonvar σ σ at' _ rv _ (f'+2) (fun vt h => by cases h) (run_deref_var_bad σ t pt idp pn tgt f' hp hbad)

/-- the assignment `p^ <- rhs`: the type check against the CURRENT value of the target, then one `writeLoc` at the target -/
theorem run_assign_deref (σ : St) (at' t pt : Tok) (rhs : Expr) (rv : Val) (idp : Nat) (pn : Str) (l : Loc) (tv : Val)
    (f₀ f : Nat) (hp : HasVar σ pt.val idp (.ptr pn) (.ptr pn (some l))) (hv : readLocP σ l = .ok tv)
    (hc : locConstP σ l = false) (hrhs : PureAt σ f₀ rhs rv) (hf : max f₀ 2 + 1 ≤ f) :
    (execAssign f at' (.deref t (.var pt)) rhs).run.run σ =
      ((if (implicitCast tv.ty rv).ty != tv.ty then (rtErr at' .typeMismatch : M Unit)
        else writeLoc at' l (implicitCast tv.ty rv)).run.run σ) := by
  obtain ⟨f', rfl⟩ : ∃ f', f = f' + 3 := ⟨f - 3, by omega⟩
  rw [run_execAssign_eval σ σ at' _ rhs rv (f'+2) hp.acts_ne (hrhs (f'+2) (by omega)),
    run_assignTail_resolved σ at' _ rv (derefHolder l tv) (f'+2) (run_deref_var σ t pt idp pn l tv f' hp hv) rfl]
  have : locConstP σ (derefHolder l tv).loc = false := hc
  simp only [this, Bool.false_eq_true, if_false]
  rfl

/-- `x <- rhs` for a plain variable and a pure right-hand side -/
theorem run_assign_var (σ : St) (at' xt : Tok) (rhs : Expr) (rv : Val) (idx : Nat) (T : Ty) (xv : Val) (f₀ f : Nat)
    (hx : HasVar σ xt.val idx T xv) (hrhs : PureAt σ f₀ rhs rv) (hf : max f₀ 1 + 1 ≤ f) :
    (execAssign f at' (.var xt) rhs).run.run σ =
      if (implicitCast T rv).ty = T then (.ok ⟨⟩, updSt σ idx (writeF (varLoc idx xt.val) (implicitCast T rv)))
      else (.error (.diag (rtDiag σ at'.line at'.col .typeMismatch)), σ) := by
  obtain ⟨f', rfl⟩ : ∃ f', f = f' + 2 := ⟨f - 2, by omega⟩
  rw [run_execAssign_eval σ σ at' _ rhs rv (f'+1) hx.acts_ne (hrhs (f'+1) (by omega)),
    run_assignTail_resolved σ at' _ rv (varHolder idx xt.val T) (f'+1) (run_resolveRef_hasVar σ xt idx T f' hx.resolves) rfl]
  have : locConstP σ (varHolder idx xt.val T).loc = false := hx.notConst
  simp only [this, Bool.false_eq_true, if_false]
  by_cases hty : (implicitCast T rv).ty = T
  · have h' : ((implicitCast T rv).ty != T) = false := by simp [hty]
    simp only [h', Bool.false_eq_true, if_false, if_pos hty]
    exact run_writeLoc_path σ at' idx false xt.val [] xv _ _ hx.reads hx.notConst rfl
  · have h' : ((implicitCast T rv).ty != T) = true := by simpa using hty
    simp only [h', if_true, if_neg hty]
    exact run_rtErr at' .typeMismatch σ

end C09ExecL

open ArrayLemmas C07Copy CallLemmas RecordLemmas C09ExecL

/-! ## 1. `p <- ^x` -/

/-- **What `p <- ^…` leaves behind** (`ptrSt σ idp p pn l`: the root cell of the pointer variable `p` of activation `idp` got
    the value `.ptr pn (some l)`): `p` now holds the LOCATION `l`; every location with another root reads as before; every
    other plain variable and every array is what it was; the live activations are the same. -/
theorem C09_exec_ptrSt_frame (σ : St) (idp : Nat) (p pn : Str) (l : Loc) (pv : Val) (hp : HasVar σ p idp (.ptr pn) pv) :
    HasVar (ptrSt σ idp p pn l) p idp (.ptr pn) (.ptr pn (some l)) ∧
    (∀ l', DiffRoot (varLoc idp p) l' → readLocP (ptrSt σ idp p pn l) l' = readLocP σ l') ∧
    (∀ m id' ty' v', DiffRoot (varLoc idp p) (varLoc id' m) → HasVar σ m id' ty' v' → HasVar (ptrSt σ idp p pn l) m id' ty' v') ∧
    (∀ m id' e d c, HasArray σ m id' e d c → HasArray (ptrSt σ idp p pn l) m id' e d c) ∧
    (∀ k, (ptrSt σ idp p pn l).acts.any (·.id == k) = σ.acts.any (·.id == k)) :=
  ⟨hp.write_same _, fun l' hd => readLocP_updSt_writeF_other σ (varLoc idp p) l' _ hd,
    fun _ _ _ _ hd hm => hm.write_other (varLoc idp p) _ hd,
    fun _ _ _ _ _ hm => hasArray_write_var hm (varLoc idp p) _ rfl,
    fun _ => any_updActs _ _ _ (writeF_id _ _) σ.acts⟩

/-- **`p <- ^x`, `x` a plain variable.** `p` a plain pointer variable of the pointer type `pn` (`HasVar`: current or global
    activation, not a BYREF formal, not a constant), `pn` visible and defined as "pointer to `T`" (`PtrDef`), `x` a plain
    variable of declared type `Tx`. If `Tx` is exactly `T` the statement ends normally (value NONE) and the only change is
    that `p` holds `.ptr pn (some <location of x>)` (`C09_exec_ptrSt_frame`); otherwise the runtime diagnostic
    `typeMismatch` at the assignment token, state unchanged. -/
theorem C09_exec_ptr_assign (σ : St) (t pt xt : Tok) (idp idx : Nat) (pn : Str) (T Tx : Ty) (pv xv : Val) (f : Nat)
    (hp : HasVar σ pt.val idp (.ptr pn) pv) (hx : HasVar σ xt.val idx Tx xv) (hdef : PtrDef σ pn T) (hf : 2 ≤ f) :
    (evalExpr f (.ptrAssign t (.var pt) (.var xt))).run.run σ =
      if T = Tx then (.ok .none, ptrSt σ idp pt.val pn (varLoc idx xt.val))
      else (.error (.diag (rtDiag σ t.line t.col .typeMismatch)), σ) := by
  obtain ⟨f', rfl⟩ : ∃ f', f = f' + 2 := ⟨f - 2, by omega⟩
  exact run_ptrAssign_var σ t pt (.var xt) (varHolder idx xt.val Tx) idp pn T pv f' hp hdef
    (run_resolveRef_hasVar σ xt idx Tx f' hx.resolves) rfl

/-- … of exactly the pointed-to type -/
theorem C09_exec_ptr_assign_ok (σ : St) (t pt xt : Tok) (idp idx : Nat) (pn : Str) (T : Ty) (pv xv : Val) (f : Nat)
    (hp : HasVar σ pt.val idp (.ptr pn) pv) (hx : HasVar σ xt.val idx T xv) (hdef : PtrDef σ pn T) (hf : 2 ≤ f) :
    (evalExpr f (.ptrAssign t (.var pt) (.var xt))).run.run σ = (.ok .none, ptrSt σ idp pt.val pn (varLoc idx xt.val)) ∧
    HasVar (ptrSt σ idp pt.val pn (varLoc idx xt.val)) pt.val idp (.ptr pn) (.ptr pn (some (varLoc idx xt.val))) := by
  rw [C09_exec_ptr_assign σ t pt xt idp idx pn T T pv xv f hp hx hdef hf, if_pos rfl]
  exact ⟨rfl, hp.write_same _⟩

/-- … of another type: `typeMismatch`, state unchanged -/
theorem C09_exec_ptr_assign_mismatch (σ : St) (t pt xt : Tok) (idp idx : Nat) (pn : Str) (T Tx : Ty) (pv xv : Val) (f : Nat)
    (hp : HasVar σ pt.val idp (.ptr pn) pv) (hx : HasVar σ xt.val idx Tx xv) (hdef : PtrDef σ pn T) (hf : 2 ≤ f)
    (hne : T ≠ Tx) :
    (evalExpr f (.ptrAssign t (.var pt) (.var xt))).run.run σ = (.error (.diag (rtDiag σ t.line t.col .typeMismatch)), σ) := by
  rw [C09_exec_ptr_assign σ t pt xt idp idx pn T Tx pv xv f hp hx hdef hf, if_neg hne]

/-- **`p <- ^a[e₁,…,eₙ]`**: `a` a declared array with element type `e`, the index expressions pure with in-bounds values `ks`
    (literals: `ArrayLemmas.pureAll_intLits`): `p` gets the location of the cell, provided `e` is the pointed-to type -/
theorem C09_exec_ptr_assign_elem (σ : St) (t ti pt at' : Tok) (es : List Expr) (ks : List Int) (idp ida : Nat) (pn : Str)
    (T e : Ty) (dims : List (Int × Int)) (cells : List Val) (pv : Val) (f₀ f : Nat)
    (hp : HasVar σ pt.val idp (.ptr pn) pv) (ha : HasArray σ at'.val ida e dims cells)
    (hes : PureAll σ f₀ es (ks.map .int)) (hb : InBoundsAll dims ks) (hdef : PtrDef σ pn T)
    (hf : f₀ + es.length + 3 ≤ f) :
    (evalExpr f (.ptrAssign t (.var pt) (.index ti (.var at') es))).run.run σ =
      if T = e then (.ok .none, ptrSt σ idp pt.val pn (cellLoc ida at'.val (lin dims ks)))
      else (.error (.diag (rtDiag σ t.line t.col .typeMismatch)), σ) := by
  obtain ⟨f', rfl⟩ : ∃ f', f = f' + 2 := ⟨f - 2, by omega⟩
  exact run_ptrAssign_var σ t pt _ _ idp pn T pv f' hp hdef
    (C06_exec_resolve_elem σ ti at' es ks ida e dims cells f₀ (f'+1) ha hes hb (by omega)) rfl

/-- **`p <- ^r.m`**: `r` a record variable, `m` a scalar (or record) member currently holding `fv`: `p` gets the location
    of the member inside `r`, provided the type of the member is the pointed-to type -/
theorem C09_exec_ptr_assign_field (σ : St) (t tf pt rt m : Tok) (idp idr : Nat) (pn : Str) (T tyr : Ty) (R : Str)
    (fs : List (Str × Val)) (fv pv : Val) (f : Nat)
    (hp : HasVar σ pt.val idp (.ptr pn) pv) (hr : HasVar σ rt.val idr tyr (.comp R fs))
    (hm : memberKind fs m.val = some false) (hfv : findField fs m.val false = some fv) (hdef : PtrDef σ pn T)
    (hf : 4 ≤ f) :
    (evalExpr f (.ptrAssign t (.var pt) (.field tf (.var rt) m))).run.run σ =
      if T = fv.ty then (.ok .none, ptrSt σ idp pt.val pn ⟨idr, false, rt.val, [.field m.val]⟩)
      else (.error (.diag (rtDiag σ t.line t.col .typeMismatch)), σ) := by
  obtain ⟨f', rfl⟩ : ∃ f', f = f' + 2 := ⟨f - 2, by omega⟩
  have hres := C07_exec_resolve_field σ tf rt m idr tyr R fs false fv (f'+1) hr hm hfv (by omega)
  have := run_ptrAssign_var σ t pt _ _ idp pn T pv f' hp hdef hres rfl
  rw [this]
  show (if T = fieldTy fv then _ else _) = _
  rw [fieldTy_nonarr fv (findField_isArr fs m.val false fv hfv)]

/-- the statement form: one tick, then the expression (hypotheses about the ticked state are those about `σ`:
    `HasVar.tick`, `PtrDef.congr`) -/
theorem C09_exec_stmt_ptr_assign (σ : St) (t pt xt : Tok) (idp idx : Nat) (pn : Str) (T Tx : Ty) (pv xv : Val) (f : Nat)
    (hp : HasVar σ pt.val idp (.ptr pn) pv) (hx : HasVar σ xt.val idx Tx xv) (hdef : PtrDef σ pn T) (hf : 3 ≤ f)
    (hsteps : σ.steps + 1 ≤ σ.stepLimit) :
    (execStmt f (.expr (.ptrAssign t (.var pt) (.var xt)))).run.run σ =
      if T = Tx then (.ok .none, ptrSt (tickSt σ) idp pt.val pn (varLoc idx xt.val))
      else (.error (.diag (rtDiag σ t.line t.col .typeMismatch)), tickSt σ) := by
  obtain ⟨f', rfl⟩ : ∃ f', f = f' + 1 := ⟨f - 1, by omega⟩
  rw [execStmt_expr, run_bind_ok _ _ _ _ _ (run_tick_ok _ σ hsteps)]
  exact C09_exec_ptr_assign (tickSt σ) t pt xt idp idx pn T Tx pv xv f' hp.tick hx.tick (hdef.congr rfl) (by omega)

/-! ## 2. reads and writes through `p^` -/

/-- **`p^` is the target.** `p` a plain pointer variable holding the location `l`, `l` readable (value `v`; its activation is
    therefore live): the expression `p^` evaluates to `v` — what `readLoc l` yields, i.e. what the variable / element / field
    at `l` holds NOW —, the state is unchanged. This holds in every state in which `p` holds `l` and `l` is readable: "for as
    long as x lives". -/
theorem C09_exec_deref_read (σ : St) (at' t pt : Tok) (idp : Nat) (pn : Str) (l : Loc) (v : Val) (f : Nat)
    (hp : HasVar σ pt.val idp (.ptr pn) (.ptr pn (some l))) (hv : readLocP σ l = .ok v) (hf : 3 ≤ f) :
    (evalExpr f (.access at' (.deref t (.var pt)))).run.run σ = (.ok v, σ) := by
  obtain ⟨f', rfl⟩ : ∃ f', f = f' + 3 := ⟨f - 3, by omega⟩
  rw [run_evalExpr_access_resolved σ at' _ (derefHolder l v) (f'+2) (run_deref_var σ t pt idp pn l v f' hp hv) rfl]
  exact congrArg (·, σ) hv

/-- `p` points to the plain variable `x`: `p^` and `x` evaluate to the same value, the current value of `x` -/
theorem C09_exec_deref_read_var (σ : St) (at' at'' t pt xt : Tok) (idp idx : Nat) (pn : Str) (T : Ty) (xv : Val) (f : Nat)
    (hp : HasVar σ pt.val idp (.ptr pn) (.ptr pn (some (varLoc idx xt.val)))) (hx : HasVar σ xt.val idx T xv) (hf : 3 ≤ f) :
    (evalExpr f (.access at' (.deref t (.var pt)))).run.run σ = (.ok xv, σ) ∧
    (evalExpr f (.access at'' (.var xt))).run.run σ = (.ok xv, σ) :=
  ⟨C09_exec_deref_read σ at' t pt idp pn _ xv f hp hx.reads hf, pureAt_hasVar at'' xt hx f (by omega)⟩

/-- `p` points to the array element `a[ks]`: `p^` evaluates to the current content of that cell -/
theorem C09_exec_deref_read_elem (σ : St) (at' t pt : Tok) (a : Str) (ks : List Int) (idp ida : Nat) (pn : Str) (e : Ty)
    (dims : List (Int × Int)) (cells : List Val) (v : Val) (f : Nat)
    (hp : HasVar σ pt.val idp (.ptr pn) (.ptr pn (some (cellLoc ida a (lin dims ks)))))
    (ha : HasArray σ a ida e dims cells) (hcell : cells[lin dims ks]? = some v) (hf : 3 ≤ f) :
    (evalExpr f (.access at' (.deref t (.var pt)))).run.run σ = (.ok v, σ) :=
  C09_exec_deref_read σ at' t pt idp pn _ v f hp (by rw [ha.read_cell, hcell]) hf

/-- `p` points to the field `r.m`: `p^` evaluates to the current value of the member -/
theorem C09_exec_deref_read_field (σ : St) (at' t pt : Tok) (r m : Str) (idp idr : Nat) (pn : Str) (tyr : Ty) (R : Str)
    (fs : List (Str × Val)) (fv : Val) (f : Nat)
    (hp : HasVar σ pt.val idp (.ptr pn) (.ptr pn (some ⟨idr, false, r, [.field m]⟩)))
    (hr : HasVar σ r idr tyr (.comp R fs)) (hm : memberKind fs m = some false) (hfv : findField fs m false = some fv)
    (hf : 3 ≤ f) :
    (evalExpr f (.access at' (.deref t (.var pt)))).run.run σ = (.ok fv, σ) :=
  C09_exec_deref_read σ at' t pt idp pn _ fv f hp (C07_exec_field_location_reads σ r idr tyr R fs m false fv hr hm hfv) hf

/-- **`p <- ^x`, then `p^`**: in the state the pointer assignment leaves, `p^` (`pt'`: another occurrence of the name `p`)
    evaluates to the value of `x` (`p` and `x` different variables) -/
theorem C09_exec_alias_read (σ : St) (t at' td pt pt' xt : Tok) (idp idx : Nat) (pn : Str) (T : Ty) (pv xv : Val) (f : Nat)
    (hp : HasVar σ pt.val idp (.ptr pn) pv) (hx : HasVar σ xt.val idx T xv) (hdef : PtrDef σ pn T)
    (hne : idp ≠ idx ∨ pt.val ≠ xt.val) (hpt' : pt'.val = pt.val) (hf : 3 ≤ f) :
    ∃ σ', (evalExpr f (.ptrAssign t (.var pt) (.var xt))).run.run σ = (.ok .none, σ') ∧
      (evalExpr f (.access at' (.deref td (.var pt')))).run.run σ' = (.ok xv, σ') := by
  obtain ⟨h1, h2⟩ := C09_exec_ptr_assign_ok σ t pt xt idp idx pn T pv xv f hp hx hdef (by omega)
  refine ⟨_, h1, C09_exec_deref_read _ at' td pt' idp pn _ xv f (by rw [hpt']; exact h2) ?_ hf⟩
  exact (hx.write_other (varLoc idp pt.val) _ (C07_exec_diffRoot_vars idx idp _ _ (by
    rcases hne with h | h
    · exact .inl (Ne.symm h)
    · exact .inr (Ne.symm h)) [])).reads

/-- **`p^ <- rhs` is a write of the target.** `p` holds the location `l`; the root cell of `l` holds `rootv`, is not a constant;
    `l` itself reads `old`; `rhs` is pure with a value that fits the type of `old` (the check is against the CURRENT value of
    the target); `nv` is `rootv` with the value at `l.path` replaced. The assignment ends normally and is exactly the write
    `updSt σ l.act (writeF l nv)` — the root cell of the target gets `nv` —; every location with another root reads as
    before (in particular `p` itself still points to `l`). -/
theorem C09_exec_deref_write (σ : St) (at' t pt : Tok) (rhs : Expr) (rv : Val) (idp : Nat) (pn : Str) (l : Loc)
    (rootv old nv : Val) (f₀ f : Nat)
    (hp : HasVar σ pt.val idp (.ptr pn) (.ptr pn (some l)))
    (hroot : readLocP σ ⟨l.act, l.isArr, l.name, []⟩ = .ok rootv) (hc : locConstP σ ⟨l.act, l.isArr, l.name, []⟩ = false)
    (hold : readLocP σ l = .ok old) (hrhs : PureAt σ f₀ rhs rv) (hty : (implicitCast old.ty rv).ty = old.ty)
    (hset : setPath rootv l.path (implicitCast old.ty rv) = some nv) (hf : max f₀ 2 + 1 ≤ f) :
    (execAssign f at' (.deref t (.var pt)) rhs).run.run σ = (.ok ⟨⟩, updSt σ l.act (writeF l nv)) ∧
    (∀ l', DiffRoot l l' → readLocP (updSt σ l.act (writeF l nv)) l' = readLocP σ l') := by
  refine ⟨?_, fun l' hd => readLocP_updSt_writeF_other σ l l' nv hd⟩
  rw [run_assign_deref σ at' t pt rhs rv idp pn l old f₀ f hp hold hc hrhs hf]
  have : ((implicitCast old.ty rv).ty != old.ty) = false := by simp [hty]
  simp only [this, Bool.false_eq_true, if_false]
  have hw := run_writeLoc_path σ at' l.act l.isArr l.name l.path rootv _ nv hroot hc hset
  exact hw

/-- … a value that does not fit the target's current type: `typeMismatch`, nothing written -/
theorem C09_exec_deref_write_mismatch (σ : St) (at' t pt : Tok) (rhs : Expr) (rv : Val) (idp : Nat) (pn : Str) (l : Loc)
    (old : Val) (f₀ f : Nat)
    (hp : HasVar σ pt.val idp (.ptr pn) (.ptr pn (some l)))
    (hc : locConstP σ l = false) (hold : readLocP σ l = .ok old) (hrhs : PureAt σ f₀ rhs rv)
    (hty : (implicitCast old.ty rv).ty ≠ old.ty) (hf : max f₀ 2 + 1 ≤ f) :
    (execAssign f at' (.deref t (.var pt)) rhs).run.run σ = (.error (.diag (rtDiag σ at'.line at'.col .typeMismatch)), σ) := by
  rw [run_assign_deref σ at' t pt rhs rv idp pn l old f₀ f hp hold hc hrhs hf]
  have : ((implicitCast old.ty rv).ty != old.ty) = true := by simpa using hty
  simp only [this, if_true]
  exact run_rtErr at' .typeMismatch σ

/-- **`p` points to the plain variable `x`: `p^ <- rhs` and `x <- rhs` are the same run** (`x` holds a value of its declared
    type `T`): same result, same final state — `x` holds the (implicitly cast) value, `p` still points to `x`, every other
    variable, every array, every location with another root is as before. -/
theorem C09_exec_deref_write_var (σ : St) (at' at'' t pt xt : Tok) (rhs : Expr) (rv : Val) (idp idx : Nat) (pn : Str) (T : Ty)
    (xv : Val) (f₀ f : Nat)
    (hp : HasVar σ pt.val idp (.ptr pn) (.ptr pn (some (varLoc idx xt.val)))) (hx : HasVar σ xt.val idx T xv)
    (hxty : xv.ty = T) (hne : idp ≠ idx ∨ pt.val ≠ xt.val)
    (hrhs : PureAt σ f₀ rhs rv) (hty : (implicitCast T rv).ty = T) (hf : max f₀ 2 + 1 ≤ f) :
    let σ' := updSt σ idx (writeF (varLoc idx xt.val) (implicitCast T rv))
    (execAssign f at' (.deref t (.var pt)) rhs).run.run σ = (.ok ⟨⟩, σ') ∧
    (execAssign f at'' (.var xt) rhs).run.run σ = (.ok ⟨⟩, σ') ∧
    HasVar σ' xt.val idx T (implicitCast T rv) ∧
    HasVar σ' pt.val idp (.ptr pn) (.ptr pn (some (varLoc idx xt.val))) ∧
    (∀ l', DiffRoot (varLoc idx xt.val) l' → readLocP σ' l' = readLocP σ l') := by
  intro σ'
  have hd : DiffRoot (varLoc idx xt.val) (varLoc idp pt.val) := C07_exec_diffRoot_vars idp idx _ _ hne []
  have h1 := C09_exec_deref_write σ at' t pt rhs rv idp pn (varLoc idx xt.val) xv xv (implicitCast T rv) f₀ f hp hx.reads
    hx.notConst hx.reads hrhs (by rw [hxty]; exact hty) (by rw [hxty]; rfl) hf
  refine ⟨h1.1, ?_, hx.write_same _, hp.write_other (varLoc idx xt.val) _ hd, h1.2⟩
  rw [run_assign_var σ at'' xt rhs rv idx T xv f₀ f hx hrhs (by omega), if_pos hty]

/-- **`p` points to the array element `a[ks]`: `p^ <- rhs` replaces exactly that cell** (the cell holds a value `old` of the
    element type): afterwards `a` is the same array with the one cell replaced, every other array and every location with
    another root is as before -/
theorem C09_exec_deref_write_elem (σ : St) (at' t pt : Tok) (a : Str) (ks : List Int) (rhs : Expr) (rv : Val) (idp ida : Nat)
    (pn : Str) (e : Ty) (dims : List (Int × Int)) (cells : List Val) (old : Val) (f₀ f : Nat)
    (hp : HasVar σ pt.val idp (.ptr pn) (.ptr pn (some (cellLoc ida a (lin dims ks)))))
    (ha : HasArray σ a ida e dims cells) (hb : InBoundsAll dims ks) (hcell : cells[lin dims ks]? = some old)
    (holdty : old.ty = e) (hrhs : PureAt σ f₀ rhs rv) (hty : (implicitCast e rv).ty = e) (hf : max f₀ 2 + 1 ≤ f) :
    let σ' := updSt σ ida (writeF (arrLoc ida a) (.arr e dims (cells.set (lin dims ks) (implicitCast e rv))))
    (execAssign f at' (.deref t (.var pt)) rhs).run.run σ = (.ok ⟨⟩, σ') ∧
    HasArray σ' a ida e dims (cells.set (lin dims ks) (implicitCast e rv)) ∧
    HasVar σ' pt.val idp (.ptr pn) (.ptr pn (some (cellLoc ida a (lin dims ks)))) ∧
    (∀ l', DiffRoot (arrLoc ida a) l' → readLocP σ' l' = readLocP σ l') := by
  intro σ'
  have hi : lin dims ks < cells.length := ha.lin_lt ks hb
  have h1 := C09_exec_deref_write σ at' t pt rhs rv idp pn (cellLoc ida a (lin dims ks)) (.arr e dims cells) old
    (.arr e dims (cells.set (lin dims ks) (implicitCast e rv))) f₀ f hp ha.reads ha.notConst
    (by rw [ha.read_cell, hcell]) hrhs (by rw [holdty]; exact hty)
    (by rw [holdty]; exact setPath_cell e dims cells _ _ hi) hf
  exact ⟨h1.1, ha.write_same e dims _ (by rw [List.length_set]; exact ha.wf), hp.write_arr (arrLoc ida a) _ rfl, h1.2⟩

/-- **`p` points to the field `r.m`: `p^ <- rhs` replaces exactly that member** — the same final state as `r.m <- rhs`
    (`C07_exec_field_write`) -/
theorem C09_exec_deref_write_field (σ : St) (at' at'' t tf pt rt m : Tok) (rhs : Expr) (rv : Val) (idp idr : Nat) (pn : Str)
    (tyr : Ty) (R : Str) (fs : List (Str × Val)) (old : Val) (f₀ f : Nat)
    (hp : HasVar σ pt.val idp (.ptr pn) (.ptr pn (some ⟨idr, false, rt.val, [.field m.val]⟩)))
    (hr : HasVar σ rt.val idr tyr (.comp R fs)) (hne : idp ≠ idr ∨ pt.val ≠ rt.val)
    (hm : memberKind fs m.val = some false) (hfv : findField fs m.val false = some old)
    (hrhs : PureAt σ f₀ rhs rv) (hrv : rv.isArr = false) (hty : (implicitCast old.ty rv).ty = old.ty)
    (hf : max f₀ 2 + 1 ≤ f) :
    let σ' := updSt σ idr (writeF (varLoc idr rt.val) (.comp R (setField fs m.val false (implicitCast old.ty rv))))
    (execAssign f at' (.deref t (.var pt)) rhs).run.run σ = (.ok ⟨⟩, σ') ∧
    (execAssign f at'' (.field tf (.var rt) m) rhs).run.run σ = (.ok ⟨⟩, σ') ∧
    HasVar σ' rt.val idr tyr (.comp R (setField fs m.val false (implicitCast old.ty rv))) ∧
    HasVar σ' pt.val idp (.ptr pn) (.ptr pn (some ⟨idr, false, rt.val, [.field m.val]⟩)) ∧
    (∀ l', DiffRoot (varLoc idr rt.val) l' → readLocP σ' l' = readLocP σ l') := by
  intro σ'
  have hd : DiffRoot (varLoc idr rt.val) (varLoc idp pt.val) := C07_exec_diffRoot_vars idp idr _ _ hne []
  obtain ⟨g1, g2, _, _, g5⟩ := C07_exec_field_write σ at'' tf rt m rhs rv idr tyr R fs old f₀ f hr hm hfv hrhs hrv hty hf
  have h1 := C09_exec_deref_write σ at' t pt rhs rv idp pn ⟨idr, false, rt.val, [.field m.val]⟩ (.comp R fs) old _ f₀ f hp
    hr.reads hr.notConst (C07_exec_field_location_reads σ rt.val idr tyr R fs m.val false old hr hm hfv) hrhs hty
    (setPath_field R fs m.val false old _ hm hfv) hf
  exact ⟨h1.1, g1, g2, hp.write_other (varLoc idr rt.val) _ hd, g5⟩

/-! ## 3. a pointer that was never set -/

/-- **`p^` on a declared but never assigned pointer** (`DECLARE p : PT` stores `.ptr PT none`): the runtime diagnostic
    `deletedObject` at the `^` token — the same diagnostic as for a dead target —, state unchanged; reading and writing. -/
theorem C09_exec_deref_unset (σ : St) (at' t pt : Tok) (idp : Nat) (pn : Str) (f : Nat)
    (hp : HasVar σ pt.val idp (.ptr pn) (.ptr pn none)) (hf : 3 ≤ f) :
    (evalExpr f (.access at' (.deref t (.var pt)))).run.run σ = (.error (.diag (rtDiag σ t.line t.col .deletedObject)), σ) := by
  obtain ⟨f', rfl⟩ : ∃ f', f = f' + 3 := ⟨f - 3, by omega⟩
  exact run_access_deref_bad σ at' t pt idp pn none f' hp (fun l h => by cases h)

theorem C09_exec_deref_unset_write (σ : St) (at' t pt : Tok) (rhs : Expr) (rv : Val) (idp : Nat) (pn : Str) (f₀ f : Nat)
    (hp : HasVar σ pt.val idp (.ptr pn) (.ptr pn none)) (hrhs : PureAt σ f₀ rhs rv) (hf : max f₀ 2 + 1 ≤ f) :
    (execAssign f at' (.deref t (.var pt)) rhs).run.run σ = (.error (.diag (rtDiag σ t.line t.col .deletedObject)), σ) :=
  run_assign_deref_bad σ at' t pt rhs rv idp pn none f₀ f hp (fun l h => by cases h) hrhs hf

/-- the declaration value of a pointer type is the unset pointer -/
theorem C09_exec_default_is_unset (pn : Str) : defaultPrim (.ptr pn) = .ptr pn none := rfl

/-! ## 5. the alias is the LOCATION: it survives a whole-record assignment -/

/-- **After `p <- ^r.m` and the whole-record assignment `r <- s`, `p^` evaluates to `s.m`'s value** — and so does `r.m`.
    `p` a plain pointer variable, `r` and `s` plain record variables of the record type `R` (`s` may be `r` itself), `m` a
    scalar (or record) member, `pn` a pointer to the type of `r.m`. The three steps are chained by their states: `σ → σ1 → σ2`.
    (The pointer holds the location "member `m` inside the variable `r`", not the address of the old member object.) -/
theorem C09_exec_alias_survives_overwrite (σ : St) (t t2 tf tf2 at' at'' at3 td pt pt' rt rt' rt'' st m m' : Tok)
    (idp idr ids : Nat) (pn R : Str) (fs fs' : List (Str × Val)) (fv fv' pv : Val) (f : Nat)
    (hp : HasVar σ pt.val idp (.ptr pn) pv)
    (hr : HasVar σ rt.val idr (.comp R) (.comp R fs)) (hs : HasVar σ st.val ids (.comp R) (.comp R fs'))
    (hm : memberKind fs m.val = some false) (hfv : findField fs m.val false = some fv)
    (hm' : memberKind fs' m.val = some false) (hfv' : findField fs' m.val false = some fv')
    (hdef : PtrDef σ pn fv.ty) (hpr : idp ≠ idr ∨ pt.val ≠ rt.val) (hps : idp ≠ ids ∨ pt.val ≠ st.val)
    (hpt' : pt'.val = pt.val) (hrt' : rt'.val = rt.val) (hrt'' : rt''.val = rt.val) (hmm : m'.val = m.val) (hf : 4 ≤ f) :
    ∃ σ1 σ2,
      (evalExpr f (.ptrAssign t (.var pt) (.field tf (.var rt) m))).run.run σ = (.ok .none, σ1) ∧
      (execAssign f t2 (.var rt') (.access at' (.var st))).run.run σ1 = (.ok ⟨⟩, σ2) ∧
      (evalExpr f (.access at'' (.deref td (.var pt')))).run.run σ2 = (.ok fv', σ2) ∧
      (evalExpr f (.access at3 (.field tf2 (.var rt'') m'))).run.run σ2 = (.ok fv', σ2) := by
  have h1 := C09_exec_ptr_assign_field σ t tf pt rt m idp idr pn fv.ty (.comp R) R fs fv pv f hp hr hm hfv hdef hf
  rw [if_pos rfl] at h1
  obtain ⟨hp1, _, hother, _, _⟩ := C09_exec_ptrSt_frame σ idp pt.val pn ⟨idr, false, rt.val, [.field m.val]⟩ pv hp
  have hdpr : DiffRoot (varLoc idp pt.val) (varLoc idr rt.val) := C07_exec_diffRoot_vars idr idp _ _ (by
    rcases hpr with h | h
    · exact .inl (Ne.symm h)
    · exact .inr (Ne.symm h)) []
  have hdps : DiffRoot (varLoc idp pt.val) (varLoc ids st.val) := C07_exec_diffRoot_vars ids idp _ _ (by
    rcases hps with h | h
    · exact .inl (Ne.symm h)
    · exact .inr (Ne.symm h)) []
  have hr1 := hother _ _ _ _ hdpr hr
  have hs1 := hother _ _ _ _ hdps hs
  have h2 := (C07_exec_assign_var _ t2 rt' at' st ids idr (.comp R) (.comp R) (.comp R fs') (.comp R fs) f hs1
    (by rw [hrt']; exact hr1) (by omega)).1 (by rw [implicitCast_comp]; rfl)
  rw [implicitCast_comp, hrt'] at h2
  have hr2 := hr1.write_same (.comp R fs')
  have hp2 := hp1.write_other (varLoc idr rt.val) (.comp R fs') (C07_exec_diffRoot_vars idp idr _ _ hpr [])
  refine ⟨_, _, h1, h2, ?_, ?_⟩
  · exact C09_exec_deref_read_field _ at'' td pt' rt.val m.val idp idr pn (.comp R) R fs' fv' f (by rw [hpt']; exact hp2) hr2 hm' hfv'
      (by omega)
  · exact C07_exec_read_field _ at3 tf2 rt'' m' idr (.comp R) R fs' fv' f (by rw [hrt'']; exact hr2) (by rw [hmm]; exact hm')
      (by rw [hmm]; exact hfv') (by omega)

/-! ## 4. a pointer whose target's activation has ended -/

/-- **A dead pointer is diagnosed, and stays dead.** In a state `τ` the plain pointer variable `p` holds a location whose
    activation is not live: `p^` (read, and as the target of an assignment) is the runtime diagnostic `deletedObject` at the
    `^` token, state unchanged. -/
theorem C09_exec_deref_dead_state (τ : St) (at' t pt : Tok) (idp : Nat) (pn : Str) (l : Loc) (f : Nat)
    (hp : HasVar τ pt.val idp (.ptr pn) (.ptr pn (some l))) (hdead : τ.acts.any (·.id == l.act) = false) (hf : 3 ≤ f) :
    (evalExpr f (.access at' (.deref t (.var pt)))).run.run τ = (.error (.diag (rtDiag τ t.line t.col .deletedObject)), τ) ∧
    (∀ rhs rv f₀ g, PureAt τ f₀ rhs rv → max f₀ 2 + 1 ≤ g →
      (execAssign g at' (.deref t (.var pt)) rhs).run.run τ = (.error (.diag (rtDiag τ t.line t.col .deletedObject)), τ)) := by
  obtain ⟨f', rfl⟩ : ∃ f', f = f' + 3 := ⟨f - 3, by omega⟩
  have hbad : ∀ l', some l = some l' → τ.acts.any (·.id == l'.act) = false := fun l' h => by cases h; exact hdead
  exact ⟨run_access_deref_bad τ at' t pt idp pn (some l) f' hp hbad,
    fun rhs rv f₀ g hrhs hg => run_assign_deref_bad τ at' t pt rhs rv idp pn (some l) f₀ g hp hbad hrhs hg⟩

/-- … whatever statement runs next (however it ends), the target's activation is still not live afterwards — the live
    activations are the same (`C04_stack_discipline`) —, so `p^` is still the diagnostic as long as `p` holds that pointer;
    and an activation created later gets a NEW number (`C09_dead_stays_dead`: ids below the counter are never handed out again) -/
theorem C09_exec_dead_stays_dead (τ : St) (fuel : Nat) (s : Stmt) (l : Loc) (hdead : τ.acts.any (·.id == l.act) = false)
    (hold : l.act < τ.nextId) :
    let τ' := ((execStmt fuel s).run.run τ).2
    τ'.acts.any (·.id == l.act) = false ∧ l.act < τ'.nextId ∧
    (∀ mk : Nat → Act, (∀ n, (mk n).id = n) → (((pushAct mk).run.run τ').2).acts.any (·.id == l.act) = false) := by
  intro τ'
  obtain ⟨hids, hnext⟩ := C04_stmt_ids fuel s τ
  have h1 : τ'.acts.any (·.id == l.act) = false := by
    apply any_false_of_not_mem_ids
    show l.act ∉ τ'.acts.map (·.id)
    rw [hids]
    intro hmem
    have := any_of_mem_ids τ l.act hmem
    rw [hdead] at this
    cases this
  have h2 : l.act < τ'.nextId := Nat.lt_of_lt_of_le hold hnext
  exact ⟨h1, h2, fun mk hmk => (C09_dead_stays_dead l.act mk τ' hmk h2 h1).1⟩

/-- **A pointer to a location of an activation created by a call is dead after the call** — any procedure, any arguments,
    any body: the call starts in `σ` (all live ids below the counter: `IdsBelow`, true of every reachable state), ends in `σ'`
    (however it ends), and in `σ'` the plain pointer variable `p` holds a location `l` whose activation was created during
    the call (`σ.nextId ≤ l.act`: a local or a parameter cell of the callee, or of a procedure it called). Then the
    activation of `l` is not live in `σ'` (`C04_exec_locals_gone`) and `p^` is the runtime diagnostic `deletedObject`. -/
theorem C09_exec_deref_dead (fuel f : Nat) (tc : Tok) (name : Str) (args : List Expr) (σ : St) (at' t pt : Tok) (idp : Nat)
    (pn : Str) (l : Loc) (hids : IdsBelow σ) (hnew : σ.nextId ≤ l.act)
    (hp : HasVar ((callProc fuel tc name args).run.run σ).2 pt.val idp (.ptr pn) (.ptr pn (some l))) (hf : 3 ≤ f) :
    let σ' := ((callProc fuel tc name args).run.run σ).2
    σ'.acts.any (·.id == l.act) = false ∧
    (evalExpr f (.access at' (.deref t (.var pt)))).run.run σ' = (.error (.diag (rtDiag σ' t.line t.col .deletedObject)), σ') := by
  intro σ'
  have hdead : σ'.acts.any (·.id == l.act) = false := by
    apply any_false_of_not_mem_ids
    show l.act ∉ σ'.acts.map (·.id)
    rw [(C04_exec_locals_gone fuel tc name args σ).1]
    intro hmem
    have := hids _ hmem
    omega
  exact ⟨hdead, (C09_exec_deref_dead_state σ' at' t pt idp pn l f hp hdead hf).1⟩

/-- the global activation after the call of `C09_exec_deref_dead_call`: `p` holds the pointer, the call-site mark is cleared -/
def C09.globalAfter (g : Act) (p pn : Str) (l : Loc) : Act :=
  { g with vars := updSlot g.vars p (fun s => { s with val := .ptr pn (some l) }), switchTok := none }

/-- **A global pointer set inside a procedure to a local of that procedure, dereferenced after the call has returned.**
    Restricted to: the call is made by the main program (`σ.acts = [g]`); the procedure has ONE parameter `n`, BYVAL (its cell
    is a local variable of the callee's activation), and its body is the ONE statement `p <- ^n`; `p` is a plain global
    pointer variable (slot `sp` of `g`) of the pointer type `pn`, defined globally as "pointer to the parameter's type".
    The call `CALL name(arg)` ends normally; afterwards the state is `σ` except that `p` holds the location of the callee's
    parameter cell — activation number `σ.nextId`, which is used up and not live —, one statement is counted; and `p^`
    (`pt'`: another occurrence of the name `p`), read or written, is the runtime diagnostic `deletedObject` at the `^` token, state unchanged. -/
theorem C09_exec_deref_dead_call (σ : St) (g : Act) (tc ta at' td pt pt' nt : Tok) (name : Str) (pd : ProcDef) (n pn dn : Str)
    (pty : Ty) (arg : Expr) (v : Val) (sp : Slot) (f₀ f : Nat)
    (hacts : σ.acts = [g]) (hgid : g.id < σ.nextId)
    (hpd : σ.procs.find? (·.name == name) = some pd)
    (hparams : pd.params = [(n, pty, false)]) (hbody : pd.body = [.expr (.ptrAssign ta (.var pt) (.var nt))])
    (hnt : nt.val = n) (hpn : pt.val ≠ n) (hpt' : pt'.val = pt.val)
    (hsp : findSlot g.vars pt.val = some sp) (hspty : sp.ty = .ptr pn) (hspref : sp.ref = none) (hspc : sp.isConst = false)
    (hptr : g.ptrs.find? (·.1 == pn) = some (dn, pty))
    (harg : PureAt σ f₀ arg v) (hcast : (implicitCast pty v).ty = pty)
    (hdepth : σ.depth + 1 ≤ σ.depthLimit) (hsteps : σ.steps + 1 ≤ σ.stepLimit) (hf : f₀ + 6 ≤ f) :
    let L : Loc := ⟨σ.nextId, false, n, []⟩
    let σ' : St := { σ with acts := [C09.globalAfter g pt.val pn L], steps := σ.steps + 1, nextId := σ.nextId + 1 }
    (callProc f tc name [arg]).run.run σ = (.ok ⟨⟩, σ') ∧
    HasVar σ' pt.val g.id (.ptr pn) (.ptr pn (some L)) ∧
    σ'.acts.any (·.id == L.act) = false ∧ L.act < σ'.nextId ∧
    (evalExpr f (.access at' (.deref td (.var pt')))).run.run σ' =
      (.error (.diag (rtDiag σ' td.line td.col .deletedObject)), σ') ∧
    (∀ rhs rv g₀ k, PureAt σ' g₀ rhs rv → max g₀ 2 + 1 ≤ k →
      (execAssign k at' (.deref td (.var pt')) rhs).run.run σ' = (.error (.diag (rtDiag σ' td.line td.col .deletedObject)), σ')) := by
  intro L σ'
  obtain ⟨f', rfl⟩ : ∃ f', f = f' + 3 := ⟨f - 3, by omega⟩
  have hne : (σ.nextId == g.id) = false := by
    cases h : σ.nextId == g.id with
    | false => rfl
    | true => have : σ.nextId = g.id := by simpa using h
              omega
  -- the call, up to the body
  have hargs : (evalArgs (f'+2) [arg] []).run.run σ = (.ok [v], σ) := by
    have := run_evalArgs_pure σ f₀ [arg] [v] [] (f'+2) ⟨harg, trivial⟩ (by simp only [List.length_cons, List.length_nil]; omega)
    simpa using this
  have hbind : (bindParams (f'+2) tc pd.params [arg] [v] []).run.run σ = (.ok [byvalSlot n pty v], σ) := by
    rw [hparams, run_bindParams_byval, if_pos hcast, run_bindParams_done]; rfl
  have hcall := run_callProc (f'+2) tc name [arg] σ σ σ pd [v] g [] [byvalSlot n pty v] hpd hargs
    (by rw [hparams]; rfl) hdepth hacts hbind
  rw [hbody] at hcall
  -- the state in which the body runs
  let new : Act := procAct pd [byvalSlot n pty v] σ.nextId
  let g' : Act := { g with switchTok := some (tc.line, tc.col) }
  generalize hσb : calleeSt (procAct pd [byvalSlot n pty v]) (setSwitch σ g.id tc) = σb at hcall
  have hbacts : σb.acts = [new, g'] := by
    rw [← hσb]
    show new :: (setSwitch σ g.id tc).acts = _
    unfold setSwitch updSt
    simp only [hacts, updActs, beq_self_eq_true, if_true]
    rfl
  have hbsteps : σb.steps + 1 ≤ σb.stepLimit := by rw [← hσb]; exact hsteps
  have hpB : HasVar σb pt.val g.id (.ptr pn) sp.val := by
    have := HasVar.of_global σb new g' [g'] pt.val sp hbacts (by rw [hbacts]; rfl)
      (by simp [new, procAct, findSlot, byvalSlot]; exact fun h => hpn h.symm) hne
      (by
        have hne' : (new.id == g.id) = false := hne
        rw [hbacts]
        simp only [List.find?_cons, hne', g', beq_self_eq_true]) hsp hspref hspc
    rw [hspty] at this
    exact this
  have hnB : HasVar σb nt.val σ.nextId pty (implicitCast pty v) := by
    have := HasVar.of_current σb new [g'] nt.val (byvalSlot n pty v) hbacts
      (by simp [new, procAct, findSlot, byvalSlot, hnt]) rfl rfl
    exact this
  have hdB : PtrDef σb pn pty :=
    PtrDef.of_global σb new g' [g'] pn dn pty hbacts (by rw [hbacts]; rfl) rfl rfl hne hptr
  have hstmt := C09_exec_stmt_ptr_assign σb ta pt nt g.id σ.nextId pn pty pty sp.val (implicitCast pty v) (f'+1) hpB hnB hdB
    (by omega) hbsteps
  rw [if_pos rfl] at hstmt
  have hblock := run_runBlock_one f' _ σb _ hstmt
  rw [hblock] at hcall
  simp only [procResult] at hcall
  -- the final state
  have hfin : clearSwitch (decDepth (popSt (ptrSt (tickSt σb) g.id pt.val pn (varLoc σ.nextId nt.val)))) g.id = σ' := by
    subst hσb
    simp only [σ', L, C09.globalAfter, clearSwitch, decDepth, popSt, ptrSt, updSt, tickSt, calleeSt, pushSt, incDepth, setSwitch,
      hacts, updActs, beq_self_eq_true, if_true, procAct, hne, Bool.false_eq_true, if_false, List.drop_succ_cons, List.drop_zero,
      Nat.add_sub_cancel, writeF, hnt]
  rw [hfin] at hcall
  -- `p` in the final state
  have hp' : HasVar σ' pt.val g.id (.ptr pn) (.ptr pn (some L)) := by
    have hfs : findSlot (C09.globalAfter g pt.val pn L).vars pt.val = some { sp with val := .ptr pn (some L) } := by
      show findSlot (updSlot g.vars pt.val _) pt.val = _
      rw [findSlot_updSlot pt.val (fun s => { s with val := Val.ptr pn (some L) }) (fun _ => rfl), hsp]
      rfl
    have := HasVar.of_current σ' (C09.globalAfter g pt.val pn L) [] pt.val _ rfl hfs hspref hspc
    rw [show ({ sp with val := Val.ptr pn (some L) } : Slot).ty = .ptr pn from hspty] at this
    exact this
  have hdead : σ'.acts.any (·.id == L.act) = false := by
    show [C09.globalAfter g pt.val pn L].any (·.id == σ.nextId) = false
    simp only [List.any_cons, List.any_nil, Bool.or_false]
    show (g.id == σ.nextId) = false
    cases h : g.id == σ.nextId with
    | false => rfl
    | true => have : g.id = σ.nextId := by simpa using h
              omega
  have hp'' : HasVar σ' pt'.val g.id (.ptr pn) (.ptr pn (some L)) := by rw [hpt']; exact hp'
  obtain ⟨hread, hwrite⟩ := C09_exec_deref_dead_state σ' at' td pt' g.id pn L (f'+3) hp'' hdead (by omega)
  exact ⟨hcall, hp', hdead, Nat.lt_succ_self _, hread, hwrite⟩

/-! ## 6. consequences: a write of `x` is seen through `p^`, a write through `p^` is seen in `x` -/

/-- `p` points to `x`; `x <- rhs` and `p^ <- rhs` end in the same state, in which both `p^` and `x` evaluate to the new value
    (`pt'`, `xt'`: other occurrences of the names `p`, `x`) -/
theorem C09_exec_alias_sees_write (σ : St) (at' at'' a1 a2 t td pt pt' xt xt' : Tok) (rhs : Expr) (rv : Val) (idp idx : Nat)
    (pn : Str) (T : Ty) (xv : Val) (f₀ f : Nat)
    (hp : HasVar σ pt.val idp (.ptr pn) (.ptr pn (some (varLoc idx xt.val)))) (hx : HasVar σ xt.val idx T xv)
    (hxty : xv.ty = T) (hne : idp ≠ idx ∨ pt.val ≠ xt.val) (hpt' : pt'.val = pt.val) (hxt' : xt'.val = xt.val)
    (hrhs : PureAt σ f₀ rhs rv) (hty : (implicitCast T rv).ty = T) (hf : max f₀ 2 + 1 ≤ f) :
    ∃ σ', (execAssign f at'' (.var xt) rhs).run.run σ = (.ok ⟨⟩, σ') ∧
      (execAssign f at' (.deref t (.var pt)) rhs).run.run σ = (.ok ⟨⟩, σ') ∧
      (evalExpr f (.access a1 (.deref td (.var pt')))).run.run σ' = (.ok (implicitCast T rv), σ') ∧
      (evalExpr f (.access a2 (.var xt'))).run.run σ' = (.ok (implicitCast T rv), σ') := by
  obtain ⟨h1, h2, h3, h4, _⟩ := C09_exec_deref_write_var σ at' at'' t pt xt rhs rv idp idx pn T xv f₀ f hp hx hxty hne hrhs hty hf
  have h5 := C09_exec_deref_read_var _ a1 a2 td pt' xt' idp idx pn T _ f (by rw [hpt', hxt']; exact h4) (by rw [hxt']; exact h3)
    (by omega)
  exact ⟨_, h2, h1, h5.1, h5.2⟩

/-! ## non-vacuity: concrete runs, checked by the kernel -/

namespace C09ExecEx

def tk (s : String) (l : Nat := 1) (c : Nat := 1) : Tok := { k := .IDENTIFIER, line := l, col := c, val := s.toList }
def lit (k : Int) : Expr := .intLit (tk "lit") k
def recR (k : Int) : Val := .comp "R".toList [("f".toList, .int k)]
/-- `PROCEDURE Q(BYVAL n : INTEGER)  p <- ^n  ENDPROCEDURE` -/
def procQ : ProcDef :=
  { name := "Q".toList, params := [("n".toList, .int, false)],
    body := [.expr (.ptrAssign (tk "<-" 4 7) (.var (tk "p" 4 5)) (.var (tk "n" 4 11)))] }
def slotP : Slot := { name := "p".toList, ty := .ptr "IntPtr".toList, val := .ptr "IntPtr".toList none }
/-- `TYPE IntPtr = ^INTEGER`; `x : INTEGER = 42`, `s : STRING`, `r`, `w` records of type `R` (`f : INTEGER`), `p`, `q : IntPtr`
    never assigned; `a : ARRAY[1:3] OF INTEGER` -/
def glob : Act :=
  { id := 0, name := "Program".toList, ptrs := [("IntPtr".toList, .int)],
    vars := [{ name := "x".toList, ty := .int, val := .int 42 }, { name := "s".toList, ty := .str, val := .str "hi".toList },
             { name := "r".toList, ty := .comp "R".toList, val := recR 1 }, { name := "w".toList, ty := .comp "R".toList, val := recR 2 },
             slotP, { name := "q".toList, ty := .ptr "IntPtr".toList, val := .ptr "IntPtr".toList none }],
    arrs := [{ name := "a".toList, ty := .int, val := .arr .int [(1, 3)] [.int 10, .int 20, .int 30] }] }
def exSt : St := { acts := [glob], procs := [procQ] }

theorem hasX : HasVar exSt (tk "x").val 0 .int (.int 42) := ⟨rfl, rfl, rfl⟩
theorem hasS : HasVar exSt (tk "s").val 0 .str (.str "hi".toList) := ⟨rfl, rfl, rfl⟩
theorem hasR : HasVar exSt (tk "r").val 0 (.comp "R".toList) (recR 1) := ⟨rfl, rfl, rfl⟩
theorem hasW : HasVar exSt (tk "w").val 0 (.comp "R".toList) (recR 2) := ⟨rfl, rfl, rfl⟩
theorem hasP : HasVar exSt (tk "p").val 0 (.ptr "IntPtr".toList) (.ptr "IntPtr".toList none) := ⟨rfl, rfl, rfl⟩
theorem hasA : HasArray exSt (tk "a").val 0 .int [(1, 3)] [.int 10, .int 20, .int 30] := ⟨rfl, rfl, rfl, rfl⟩
theorem ptrDef : PtrDef exSt "IntPtr".toList .int := ⟨"IntPtr".toList, rfl⟩

def locX : Loc := varLoc 0 "x".toList
def intAt (σ : St) (l : Loc) : Option Int := match readLocP σ l with | .ok (.int k) => some k | _ => none
def ptrAt (σ : St) (l : Loc) : Option (Option Loc) := match readLocP σ l with | .ok (.ptr _ t) => some t | _ => none
def intOf : Except Stop Val × St → Option Int
  | (.ok (.int k), _) => some k
  | _ => none
def msgOf {α : Type} : Except Stop α × St → Option (Msg × Nat × Nat)
  | (.error (.diag d), _) => some (d.msg, d.line, d.col)
  | _ => none
def pDeref : Expr := .access (tk "p" 7 8) (.deref (tk "^" 7 9) (.var (tk "p" 7 8)))
def pAssign (v : String) : Expr := .ptrAssign (tk "<-" 5 3) (.var (tk "p" 5 1)) (.var (tk v 5 7))

/-- (1) `p <- ^x`: by the theorem, and by running the model -/
theorem run_pAssign : (evalExpr 2 (pAssign "x")).run.run exSt = (.ok .none, ptrSt exSt 0 "p".toList "IntPtr".toList locX) :=
  (C09_exec_ptr_assign_ok exSt _ (tk "p" 5 1) (tk "x" 5 7) 0 0 _ .int _ _ 2 hasP hasX ptrDef (by decide)).1
def stP : St := ptrSt exSt 0 "p".toList "IntPtr".toList locX
theorem hasP' : HasVar stP (tk "p").val 0 (.ptr "IntPtr".toList) (.ptr "IntPtr".toList (some locX)) :=
  (C09_exec_ptr_assign_ok exSt (tk "<-") (tk "p") (tk "x") 0 0 _ .int _ _ 2 hasP hasX ptrDef (by decide)).2
theorem hasX' : HasVar stP (tk "x").val 0 .int (.int 42) :=
  (C09_exec_ptrSt_frame exSt 0 "p".toList "IntPtr".toList locX _ hasP).2.2.1 _ _ _ _ (.inr (.inr (by decide))) hasX
example : ptrAt ((evalExpr 2 (pAssign "x")).run.run exSt).2 (varLoc 0 "p".toList) = some (some locX) ∧
    intAt ((evalExpr 2 (pAssign "x")).run.run exSt).2 locX = some 42 := by decide +kernel
/-- … `p <- ^s` (`s : STRING`): `typeMismatch` at the assignment token, state unchanged -/
example : (evalExpr 2 (pAssign "s")).run.run exSt = (.error (.diag (rtDiag exSt 5 3 .typeMismatch)), exSt) :=
  C09_exec_ptr_assign_mismatch exSt _ (tk "p" 5 1) (tk "s" 5 7) 0 0 _ .int .str _ _ 2 hasP hasS ptrDef (by decide) (by decide)
example : msgOf ((evalExpr 2 (pAssign "s")).run.run exSt) = some (.typeMismatch, 5, 3) := by decide +kernel
/-- … `p <- ^a[2]`, `p <- ^r.f` -/
example : (evalExpr 5 (.ptrAssign (tk "<-") (.var (tk "p")) (.index (tk "[") (.var (tk "a")) [lit 2]))).run.run exSt =
    (.ok .none, ptrSt exSt 0 "p".toList "IntPtr".toList (cellLoc 0 "a".toList 1)) := by
  have := C09_exec_ptr_assign_elem exSt (tk "<-") (tk "[") (tk "p") (tk "a") [lit 2] [2] 0 0 "IntPtr".toList .int .int [(1, 3)] _ _ 1 5
    hasP hasA ⟨pureAt_intLit _ _ _, trivial⟩ ⟨⟨by decide, by decide⟩, trivial⟩ ptrDef (by decide)
  rw [if_pos rfl] at this
  exact this
example : (evalExpr 4 (.ptrAssign (tk "<-") (.var (tk "p")) (.field (tk ".") (.var (tk "r")) (tk "f")))).run.run exSt =
    (.ok .none, ptrSt exSt 0 "p".toList "IntPtr".toList ⟨0, false, "r".toList, [.field "f".toList]⟩) := by
  have := C09_exec_ptr_assign_field exSt (tk "<-") (tk ".") (tk "p") (tk "r") (tk "f") 0 0 "IntPtr".toList .int _ "R".toList
    [("f".toList, .int 1)] (.int 1) _ 4 hasP hasR rfl rfl ptrDef (by decide)
  exact this.trans (if_pos rfl)

/-- (2) in the state after `p <- ^x`: `p^` is 42; `p^ <- 7` is the run of `x <- 7`; afterwards both `x` and `p^` are 7 -/
example : (evalExpr 3 pDeref).run.run stP = (.ok (.int 42), stP) :=
  (C09_exec_deref_read_var stP _ (tk "x") _ (tk "p" 7 8) (tk "x") 0 0 _ .int _ 3 hasP' hasX' (by decide)).1
example : ∃ σ', (execAssign 3 (tk "<-") (.var (tk "x")) (lit 7)).run.run stP = (.ok ⟨⟩, σ') ∧
    (execAssign 3 (tk "<-") (.deref (tk "^") (.var (tk "p"))) (lit 7)).run.run stP = (.ok ⟨⟩, σ') ∧
    (evalExpr 3 pDeref).run.run σ' = (.ok (.int 7), σ') ∧
    (evalExpr 3 (.access (tk "x") (.var (tk "x")))).run.run σ' = (.ok (.int 7), σ') :=
  C09_exec_alias_sees_write stP (tk "<-") (tk "<-") (tk "p" 7 8) (tk "x") (tk "^") (tk "^" 7 9) (tk "p") (tk "p" 7 8) (tk "x") (tk "x")
    (lit 7) (.int 7) 0 0 "IntPtr".toList .int (.int 42) 1 3 hasP' hasX' rfl (.inr (by decide)) rfl rfl (pureAt_intLit _ _ _) rfl
    (by decide)
example : intOf ((evalExpr 3 pDeref).run.run stP) = some 42 ∧
    intAt ((execAssign 3 (tk "<-") (.deref (tk "^") (.var (tk "p"))) (lit 7)).run.run stP).2 locX = some 7 ∧
    intOf ((evalExpr 3 pDeref).run.run ((execAssign 3 (tk "<-") (.var (tk "x")) (lit 9)).run.run stP).2) = some 9 := by
  decide +kernel

/-- (3) `p^` on the never assigned pointer: `deletedObject` at the `^` (7,9), state unchanged -/
example : (evalExpr 3 pDeref).run.run exSt = (.error (.diag (rtDiag exSt 7 9 .deletedObject)), exSt) :=
  C09_exec_deref_unset exSt _ _ (tk "p" 7 8) 0 _ 3 hasP (by decide)
example : msgOf ((evalExpr 3 pDeref).run.run exSt) = some (.deletedObject, 7, 9) ∧
    msgOf ((execAssign 3 (tk "<-") (.deref (tk "^" 7 2) (.var (tk "p"))) (lit 7)).run.run exSt) = some (.deletedObject, 7, 2) := by
  decide +kernel

/-- (4) `CALL Q(5)` sets the global `p` to the callee's parameter cell (activation 1); afterwards `p^` is `deletedObject` -/
def afterCall : St :=
  { exSt with acts := [C09.globalAfter glob "p".toList "IntPtr".toList ⟨1, false, "n".toList, []⟩], steps := 1, nextId := 2 }
theorem dead_call : (callProc 7 (tk "CALL" 6 1) "Q".toList [lit 5]).run.run exSt = (.ok ⟨⟩, afterCall) ∧
    (evalExpr 7 pDeref).run.run afterCall = (.error (.diag (rtDiag afterCall 7 9 .deletedObject)), afterCall) := by
  have h := C09_exec_deref_dead_call exSt glob (tk "CALL" 6 1) (tk "<-" 4 7) (tk "p" 7 8) (tk "^" 7 9) (tk "p" 4 5) (tk "p" 7 8)
    (tk "n" 4 11) "Q".toList procQ "n".toList "IntPtr".toList "IntPtr".toList .int (lit 5) (.int 5) slotP 1 7 rfl (by decide) rfl rfl rfl
    rfl (by decide) rfl rfl rfl rfl rfl rfl (pureAt_intLit _ _ _) rfl (by decide) (by decide) (by decide)
  exact ⟨h.1, h.2.2.2.2.1⟩
example : ptrAt ((callProc 7 (tk "CALL" 6 1) "Q".toList [lit 5]).run.run exSt).2 (varLoc 0 "p".toList) =
      some (some ⟨1, false, "n".toList, []⟩) ∧
    ((callProc 7 (tk "CALL" 6 1) "Q".toList [lit 5]).run.run exSt).2.acts.map (·.id) = [0] ∧
    ((callProc 7 (tk "CALL" 6 1) "Q".toList [lit 5]).run.run exSt).2.nextId = 2 ∧
    msgOf ((evalExpr 7 pDeref).run.run ((callProc 7 (tk "CALL" 6 1) "Q".toList [lit 5]).run.run exSt).2) =
      some (.deletedObject, 7, 9) := by decide +kernel
/-- … and a second call gets activation number 2, not 1: the dead target stays dead -/
example : ((callProc 7 (tk "CALL" 6 1) "Q".toList [lit 5]).run.run afterCall).2.nextId = 3 ∧
    ptrAt ((callProc 7 (tk "CALL" 6 1) "Q".toList [lit 5]).run.run afterCall).2 (varLoc 0 "p".toList) =
      some (some ⟨2, false, "n".toList, []⟩) := by decide +kernel

/-- (5) `p <- ^r.f ; r <- w ; p^` is `w.f` = 2 (and `r.f` is 2) -/
example : ∃ σ1 σ2,
    (evalExpr 4 (.ptrAssign (tk "<-") (.var (tk "p")) (.field (tk ".") (.var (tk "r")) (tk "f")))).run.run exSt = (.ok .none, σ1) ∧
    (execAssign 4 (tk "<-") (.var (tk "r")) (.access (tk "w") (.var (tk "w")))).run.run σ1 = (.ok ⟨⟩, σ2) ∧
    (evalExpr 4 pDeref).run.run σ2 = (.ok (.int 2), σ2) ∧
    (evalExpr 4 (.access (tk "r") (.field (tk ".") (.var (tk "r")) (tk "f")))).run.run σ2 = (.ok (.int 2), σ2) :=
  C09_exec_alias_survives_overwrite exSt (tk "<-") (tk "<-") (tk ".") (tk ".") (tk "w") (tk "p" 7 8) (tk "r") (tk "^" 7 9) (tk "p")
    (tk "p" 7 8) (tk "r") (tk "r") (tk "r") (tk "w") (tk "f") (tk "f") 0 0 0 "IntPtr".toList "R".toList [("f".toList, .int 1)]
    [("f".toList, .int 2)] (.int 1) (.int 2) _ 4 hasP hasR hasW rfl rfl rfl rfl ptrDef (.inr (by decide)) (.inr (by decide))
    rfl rfl rfl rfl (by decide)

/-! ### the ASTs are the parser's; whole programs through lexer, parser and evaluator -/

def front (src : String) : Option Stmt :=
  match lex {} src.toList with
  | .ok toks => (match parse {} toks with | .ok ([s], _) => some s | _ => none)
  | .error _ => none
def isPtrAssign : Option Stmt → Bool
  | some (.expr (.ptrAssign _ (.var p) (.var x))) => p.val == "p".toList && x.val == "x".toList
  | _ => false
def isPtrAssignField : Option Stmt → Bool
  | some (.expr (.ptrAssign _ (.var p) (.field _ (.var r) m))) => p.val == "p".toList && r.val == "r".toList && m.val == "f".toList
  | _ => false
def isDerefOutput : Option Stmt → Bool
  | some (.output _ [.access _ (.deref _ (.var p))]) => p.val == "p".toList
  | _ => false
def isDerefAssign : Option Stmt → Bool
  | some (.expr (.assign _ (.deref _ (.var p)) (.intLit _ 7))) => p.val == "p".toList
  | _ => false
example : isPtrAssign (front "p <- ^x\n") = true ∧ isPtrAssignField (front "p <- ^r.f\n") = true ∧
    isDerefOutput (front "OUTPUT p^\n") = true ∧ isDerefAssign (front "p^ <- 7\n") = true := by decide +kernel

def outAndDiags (src : String) : String × List (Msg × Nat × Nat) :=
  let r := runFile {} src.toList [] []
  (String.ofList r.out, r.diags.map (fun d => (d.msg, d.line, d.col)))

example : outAndDiags ("TYPE IntPtr = ^INTEGER\nDECLARE x : INTEGER\nDECLARE p : IntPtr\nx <- 42\np <- ^x\nOUTPUT p^\n" ++
    "p^ <- 7\nOUTPUT x\nx <- 9\nOUTPUT p^\n") = ("42\n7\n9\n", []) := by decide +kernel
example : outAndDiags "TYPE IntPtr = ^INTEGER\nDECLARE a : ARRAY[1:3] OF INTEGER\nDECLARE p : IntPtr\na[2] <- 20\np <- ^a[2]\nOUTPUT p^\np^ <- 21\nOUTPUT a[2]\n" =
    ("20\n21\n", []) := by decide +kernel
example : (outAndDiags "TYPE IntPtr = ^INTEGER\nDECLARE p : IntPtr\nOUTPUT p^\n").2 = [(.deletedObject, 3, 9)] ∧
    (outAndDiags "TYPE IntPtr = ^INTEGER\nDECLARE p : IntPtr\np^ <- 3\n").2 = [(.deletedObject, 3, 2)] ∧
    (outAndDiags "TYPE IntPtr = ^INTEGER\nDECLARE p : IntPtr\nDECLARE s : STRING\np <- ^s\n").2 = [(.typeMismatch, 4, 6)] := by
  decide +kernel
example : (outAndDiags "TYPE IntPtr = ^INTEGER\nDECLARE p : IntPtr\nPROCEDURE Q(BYVAL n : INTEGER)\n    p <- ^n\nENDPROCEDURE\nCALL Q(5)\nOUTPUT p^\n").2 =
      [(.deletedObject, 7, 9)] ∧
    outAndDiags ("TYPE IntPtr = ^INTEGER\nDECLARE p : IntPtr\nPROCEDURE Q()\n    DECLARE y : INTEGER\n    y <- 3\n    p <- ^y\n" ++
      "    OUTPUT p^\nENDPROCEDURE\nCALL Q()\nOUTPUT p^\n") = ("3\n\n", [(.deletedObject, 10, 9)]) := by decide +kernel
example : outAndDiags ("TYPE IntPtr = ^INTEGER\nTYPE R\n    DECLARE f : INTEGER\nENDTYPE\nDECLARE r : R\nDECLARE s : R\nDECLARE p : IntPtr\n" ++
    "r.f <- 1\ns.f <- 2\np <- ^r.f\nr <- s\nOUTPUT p^\ns.f <- 5\nOUTPUT p^\n") = ("2\n2\n", []) := by decide +kernel

end C09ExecEx

end Pseudo
