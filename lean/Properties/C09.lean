import PseudoModel.Eval
/-!
# C09 — pointers alias exactly their live target; dead or unset pointers are diagnosed
Model: a pointer value is `Val.ptr type (target : Option Loc)`; a location names the owning activation by its
*id*, ids come from a counter that never repeats (`pushAct`), and a dereference is allowed only while that id is
on the activation stack (`isLive`). Aliasing is by construction: `p^` resolves to the target location itself, so
reads and writes through `p` are reads and writes of the target (`readLoc` / `writeLoc` on the same `Loc`).
The C++ used to compare context *addresses* (reused by the allocator); the repaired code compares ids. Whether the
running code agrees is the empirical content of the check (normal build vs sanitizer build vs this model).
-/
namespace Pseudo

/-- the liveness test succeeds iff the owner's id is on the activation stack -/
theorem C09_live_iff (id : Nat) (σ : St) : (isLive id).run.run σ = (.ok (σ.acts.any (·.id == id)), σ) := by
  simp [isLive, ExceptT.run, bind, ExceptT.bind, ExceptT.mk, StateT.bind, get, getThe, MonadStateOf.get, liftM, monadLift,
    MonadLift.monadLift, ExceptT.lift, StateT.get, Functor.map, StateT.map, ExceptT.bindCont, StateT.run, pure, StateT.pure, ExceptT.pure]

/-- a new activation gets the id `nextId`, and `nextId` only grows: an id is never handed out twice -/
theorem C09_push_fresh (mk : Nat → Act) (σ : St) :
    (pushAct mk).run.run σ = (.ok σ.nextId, { σ with acts := mk σ.nextId :: σ.acts, nextId := σ.nextId + 1 }) := by
  simp [pushAct, ExceptT.run, bind, ExceptT.bind, ExceptT.mk, StateT.bind, get, getThe, MonadStateOf.get, liftM, monadLift, set,
    MonadLift.monadLift, ExceptT.lift, StateT.get, StateT.set, Functor.map, StateT.map, ExceptT.bindCont, StateT.run, pure, StateT.pure, ExceptT.pure]

/-- once an activation has returned (its id is below `nextId` and no longer on the stack) it stays dead for ever:
    no later push can bring the id back -/
theorem C09_dead_stays_dead (id : Nat) (mk : Nat → Act) (σ : St) (hmk : ∀ n, (mk n).id = n) (hold : id < σ.nextId)
    (hdead : σ.acts.any (·.id == id) = false) :
    let σ' := ((pushAct mk).run.run σ).2
    σ'.acts.any (·.id == id) = false ∧ id < σ'.nextId := by
  rw [C09_push_fresh]
  simp only [List.any_cons, hdead, Bool.or_false, hmk]
  constructor
  · simp; omega
  · omega

/-- popping removes exactly the innermost activation -/
theorem C09_pop (σ : St) : (popAct.run.run σ).2.acts = σ.acts.drop 1 := by
  simp [popAct, ExceptT.run, modify, modifyGet, MonadStateOf.modifyGet, StateT.modifyGet, liftM, monadLift, MonadLift.monadLift, ExceptT.lift,
    Functor.map, StateT.map, StateT.run, bind, StateT.bind, pure, StateT.pure, ExceptT.mk]

/-- reading through a location never changes the state (so `p^` as a value has no effect) -/
theorem C09_read_pure (l : Loc) (σ : St) : ((readLoc l).run.run σ).2 = σ := by
  unfold readLoc findAct
  simp only [ExceptT.run, bind, ExceptT.bind, ExceptT.mk, StateT.bind, get, getThe, MonadStateOf.get, liftM, monadLift,
    MonadLift.monadLift, ExceptT.lift, StateT.get, Functor.map, StateT.map, ExceptT.bindCont, StateT.run, pure, StateT.pure, ExceptT.pure]
  cases σ.acts.find? (·.id == l.act) with
  | none => simp [throw, throwThe, MonadExceptOf.throw, ExceptT.mk, pure, StateT.pure]
  | some a =>
    simp only
    cases slotOf a l with
    | none => simp [throw, throwThe, MonadExceptOf.throw, ExceptT.mk, pure, StateT.pure]
    | some s =>
      simp only
      cases getPath s.val l.path <;> simp [throw, throwThe, MonadExceptOf.throw, ExceptT.mk, pure, StateT.pure, ExceptT.pure]

/-! non-vacuity -/
example : ((isLive 0).run.run (St.init [] [] false false)).1 = .ok true := by rfl
example : ((isLive 5).run.run (St.init [] [] false false)).1 = .ok false := by rfl

end Pseudo
