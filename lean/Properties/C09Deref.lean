import PseudoProofs.EvalStep
import Properties.C09
/-!
# C09 — dereferencing: `p^` *is* the live target, a dead / unset pointer is diagnosed, `p <- ^x` is type-checked

Model: `resolveRef (f+1) (.deref t r)` and `evalExpr (f+1) (.ptrAssign t r v)` of `PseudoModel/Eval.lean`,
unfolded one step (`PseudoProofs/EvalStep.lean`: `resolveRef_deref`, `evalExpr_ptrAssign`), in terms of what the
inner `resolveRef f r` returns. All statements are about `.run.run σ`: result *and* final state, so "nothing else
is read or written" is part of each statement (the final state is the state the inner resolution left).

A `Holder` is what every read (`readLoc h.loc`) and write (`writeLoc t h.loc v`) of an l-value goes through; so
"the holder of `p^` has `loc = l`" says that reads and writes through `p^` are reads and writes of the target cell.
-/
namespace Pseudo

/-- **`p^` is the target itself.** If `r` resolves (to a non-array holder) and the cell it names holds the pointer
    value `.ptr ty (some l)`, the owner of `l` is on the activation stack and `l` is readable, then `r^` resolves to
    the holder whose location is `l`: reading / writing through `r^` is `readLoc l` / `writeLoc _ l _`.
    Nothing is written: the final state is the one the inner resolution left. -/
theorem C09_deref_alias (f : Nat) (t : Tok) (r : Ref) (σ σ1 : St) (h : Holder) (ty : Str) (l : Loc) (tv : Val)
    (hr : (resolveRef f r).run.run σ = (.ok h, σ1)) (harr : h.isArr = false)
    (hp : ((readLoc h.loc).run.run σ1).1 = .ok (.ptr ty (some l)))
    (hlive : σ1.acts.any (·.id == l.act) = true)
    (htv : ((readLoc l).run.run σ1).1 = .ok tv) :
    (resolveRef (f+1) (.deref t r)).run.run σ =
      (.ok { loc := l, isArr := false, ty := tv.ty, name := l.name }, σ1) := by
  have hp' : (readLoc h.loc).run.run σ1 = (.ok (.ptr ty (some l)), σ1) := by
    rw [run_readLoc] at hp ⊢; rw [show readLocP σ1 h.loc = _ from hp]
  have htv' : (readLoc l).run.run σ1 = (.ok tv, σ1) := by
    rw [run_readLoc] at htv ⊢; rw [show readLocP σ1 l = _ from htv]
  rw [resolveRef_deref]
  rw [run_bind_ok _ _ _ _ _ hr]
  simp only [harr, Bool.false_eq_true, if_false]
  rw [run_bind_ok _ _ _ _ _ hp']
  simp only
  rw [run_bind_ok _ _ _ _ _ (run_isLive l.act σ1)]
  simp only [hlive, Bool.not_true, Bool.false_eq_true, if_false]
  rw [run_bind_ok _ _ _ _ _ htv']
  rfl

/-- the same as a statement about holders: the location is the target, the holder is not an array holder, and its
    type is the type of the value now stored in the target -/
theorem C09_deref_alias_loc (f : Nat) (t : Tok) (r : Ref) (σ σ1 : St) (h : Holder) (ty : Str) (l : Loc) (tv : Val)
    (hr : (resolveRef f r).run.run σ = (.ok h, σ1)) (harr : h.isArr = false)
    (hp : ((readLoc h.loc).run.run σ1).1 = .ok (.ptr ty (some l)))
    (hlive : σ1.acts.any (·.id == l.act) = true)
    (htv : ((readLoc l).run.run σ1).1 = .ok tv) :
    ∃ h', (resolveRef (f+1) (.deref t r)).run.run σ = (.ok h', σ1) ∧ h'.loc = l ∧ h'.isArr = false ∧ h'.ty = tv.ty :=
  ⟨_, C09_deref_alias f t r σ σ1 h ty l tv hr harr hp hlive htv, rfl, rfl, rfl⟩

/-- **A pointer whose target's activation has returned is diagnosed**: runtime error `deletedObject` at the
    position of `^`; the target is not read, nothing is written (final state = state after resolving `r`). -/
theorem C09_deref_dead (f : Nat) (t : Tok) (r : Ref) (σ σ1 : St) (h : Holder) (ty : Str) (l : Loc)
    (hr : (resolveRef f r).run.run σ = (.ok h, σ1)) (harr : h.isArr = false)
    (hp : ((readLoc h.loc).run.run σ1).1 = .ok (.ptr ty (some l)))
    (hdead : σ1.acts.any (·.id == l.act) = false) :
    ∃ d, (resolveRef (f+1) (.deref t r)).run.run σ = (.error (.diag d), σ1) ∧
      d.msg = .deletedObject ∧ d.kind = .runtime ∧ d.line = t.line ∧ d.col = t.col := by
  have hp' : (readLoc h.loc).run.run σ1 = (.ok (.ptr ty (some l)), σ1) := by
    rw [run_readLoc] at hp ⊢; rw [show readLocP σ1 h.loc = _ from hp]
  refine ⟨rtDiag σ1 t.line t.col .deletedObject, ?_, by simp⟩
  rw [resolveRef_deref]
  rw [run_bind_ok _ _ _ _ _ hr]
  simp only [harr, Bool.false_eq_true, if_false]
  rw [run_bind_ok _ _ _ _ _ hp']
  simp only
  rw [run_bind_ok _ _ _ _ _ (run_isLive l.act σ1)]
  simp only [hdead, Bool.not_false, if_true]
  exact run_rtErr t .deletedObject σ1

/-- **A pointer that was never set is diagnosed** (same diagnostic: the owner context is null in the C++). -/
theorem C09_deref_unset (f : Nat) (t : Tok) (r : Ref) (σ σ1 : St) (h : Holder) (ty : Str)
    (hr : (resolveRef f r).run.run σ = (.ok h, σ1)) (harr : h.isArr = false)
    (hp : ((readLoc h.loc).run.run σ1).1 = .ok (.ptr ty none)) :
    ∃ d, (resolveRef (f+1) (.deref t r)).run.run σ = (.error (.diag d), σ1) ∧
      d.msg = .deletedObject ∧ d.kind = .runtime ∧ d.line = t.line ∧ d.col = t.col := by
  have hp' : (readLoc h.loc).run.run σ1 = (.ok (.ptr ty none), σ1) := by
    rw [run_readLoc] at hp ⊢; rw [show readLocP σ1 h.loc = _ from hp]
  refine ⟨rtDiag σ1 t.line t.col .deletedObject, ?_, by simp⟩
  rw [resolveRef_deref]
  rw [run_bind_ok _ _ _ _ _ hr]
  simp only [harr, Bool.false_eq_true, if_false]
  rw [run_bind_ok _ _ _ _ _ hp']
  simp only
  exact run_rtErr t .deletedObject σ1

/-- **`^` applied to something that is not a pointer**: runtime error `typeMismatch` (a whole array: likewise). -/
theorem C09_deref_nonpointer (f : Nat) (t : Tok) (r : Ref) (σ σ1 : St) (h : Holder) (v : Val)
    (hr : (resolveRef f r).run.run σ = (.ok h, σ1))
    (hp : h.isArr = true ∨ (((readLoc h.loc).run.run σ1).1 = .ok v ∧ ∀ ty tgt, v ≠ .ptr ty tgt)) :
    ∃ d, (resolveRef (f+1) (.deref t r)).run.run σ = (.error (.diag d), σ1) ∧
      d.msg = .typeMismatch ∧ d.kind = .runtime ∧ d.line = t.line ∧ d.col = t.col := by
  refine ⟨rtDiag σ1 t.line t.col .typeMismatch, ?_, by simp⟩
  rw [resolveRef_deref]
  rw [run_bind_ok _ _ _ _ _ hr]
  rcases hp with harr | ⟨hp, hnp⟩
  · simp only [harr, if_true]
    exact run_rtErr t .typeMismatch σ1
  · have hp' : (readLoc h.loc).run.run σ1 = (.ok v, σ1) := by
      rw [run_readLoc] at hp ⊢; rw [show readLocP σ1 h.loc = _ from hp]
    cases harr : h.isArr
    · simp only [Bool.false_eq_true, if_false]
      rw [run_bind_ok _ _ _ _ _ hp']
      cases v with
      | ptr ty tgt => exact absurd rfl (hnp ty tgt)
      | _ => exact run_rtErr t .typeMismatch σ1
    · simp only [if_true]
      exact run_rtErr t .typeMismatch σ1

/-- an error of the inner resolution is the error of `r^` -/
theorem C09_deref_inner_error (f : Nat) (t : Tok) (r : Ref) (σ σ1 : St) (e : Stop)
    (hr : (resolveRef f r).run.run σ = (.error e, σ1)) :
    (resolveRef (f+1) (.deref t r)).run.run σ = (.error e, σ1) := by
  rw [resolveRef_deref]
  exact run_bind_err _ _ _ _ _ hr

/-- **`p <- ^x` is type-checked, and stores the location of `x`**: with `r` resolved to the holder `ph` of
    declared type `.ptr pn`, `v` to the holder `vh`, and `pn` defined as "pointer to `target`":
    * `target ≠ vh.ty` → runtime error `typeMismatch`, and the state is the one after the two resolutions
      (nothing written);
    * `target = vh.ty` → exactly one write: `writeLoc t ph.loc (.ptr pn (some vh.loc))`; the value of the
      expression is NONE. The stored value is the *location* of `x`: copies of that pointer value (assignment,
      BYVAL parameter) denote the same target. -/
theorem C09_ptrAssign_typecheck (f : Nat) (t : Tok) (r v : Ref) (σ σ1 σ2 : St) (ph vh : Holder) (pn dn : Str)
    (target : Ty)
    (hr : (resolveRef f r).run.run σ = (.ok ph, σ1)) (hparr : ph.isArr = false)
    (hv : (resolveRef f v).run.run σ1 = (.ok vh, σ2)) (hvarr : vh.isArr = false)
    (hpty : ph.ty = .ptr pn)
    (hdef : (ptrDefOf pn).run.run σ2 = (.ok (some (dn, target)), σ2)) :
    (target ≠ vh.ty →
      ∃ d, (evalExpr (f+1) (.ptrAssign t r v)).run.run σ = (.error (.diag d), σ2) ∧
        d.msg = .typeMismatch ∧ d.kind = .runtime ∧ d.line = t.line ∧ d.col = t.col) ∧
    (target = vh.ty →
      (evalExpr (f+1) (.ptrAssign t r v)).run.run σ =
        ((writeLoc t ph.loc (.ptr pn (some vh.loc)) >>= fun _ => (pure .none : M Val)).run.run σ2)) := by
  have hstart : (evalExpr (f+1) (.ptrAssign t r v)).run.run σ =
      ((if target != vh.ty then (rtErr t .typeMismatch : M Val)
        else do writeLoc t ph.loc (.ptr pn (some vh.loc)); pure .none).run.run σ2) := by
    rw [evalExpr_ptrAssign]
    rw [run_bind_ok _ _ _ _ _ hr]
    simp only [hparr, Bool.false_eq_true, if_false]
    rw [run_bind_ok _ _ _ _ _ hv]
    simp only [hvarr, Bool.false_eq_true, if_false, hpty]
    rw [run_bind_ok _ _ _ _ _ hdef]
  constructor
  · intro hne
    refine ⟨rtDiag σ2 t.line t.col .typeMismatch, ?_, by simp⟩
    rw [hstart]
    have : (target != vh.ty) = true := by simpa using hne
    simp only [this, if_true]
    exact run_rtErr t .typeMismatch σ2
  · intro heq
    rw [hstart]
    have : (target != vh.ty) = false := by simpa using heq
    simp only [this, Bool.false_eq_true, if_false]

/-- the successful case, when the write succeeds: value NONE, state = the state `writeLoc` produced -/
theorem C09_ptrAssign_ok (f : Nat) (t : Tok) (r v : Ref) (σ σ1 σ2 σ3 : St) (ph vh : Holder) (pn dn : Str)
    (hr : (resolveRef f r).run.run σ = (.ok ph, σ1)) (hparr : ph.isArr = false)
    (hv : (resolveRef f v).run.run σ1 = (.ok vh, σ2)) (hvarr : vh.isArr = false)
    (hpty : ph.ty = .ptr pn)
    (hdef : (ptrDefOf pn).run.run σ2 = (.ok (some (dn, vh.ty)), σ2))
    (hw : (writeLoc t ph.loc (.ptr pn (some vh.loc))).run.run σ2 = (.ok ⟨⟩, σ3)) :
    (evalExpr (f+1) (.ptrAssign t r v)).run.run σ = (.ok .none, σ3) := by
  rw [(C09_ptrAssign_typecheck f t r v σ σ1 σ2 ph vh pn dn vh.ty hr hparr hv hvarr hpty hdef).2 rfl]
  rw [run_bind_ok _ _ _ _ _ hw]
  rfl

/-- **After `p <- ^x` the cell of `p` holds the location of `x`** (so, by `C09_deref_alias`, `p^` is `x` as long as
    the owner of `x` is live): if the cell of `p` is readable (a non-array value `old`) and not a constant, the
    assignment succeeds, its value is NONE, the cell of `p` then reads `.ptr pn (some vh.loc)`, and the set of live
    activations is unchanged. -/
theorem C09_ptrAssign_then_read (f : Nat) (t : Tok) (r v : Ref) (σ σ1 σ2 : St) (ph vh : Holder) (pn dn : Str) (old : Val)
    (hr : (resolveRef f r).run.run σ = (.ok ph, σ1)) (hparr : ph.isArr = false)
    (hv : (resolveRef f v).run.run σ1 = (.ok vh, σ2)) (hvarr : vh.isArr = false)
    (hpty : ph.ty = .ptr pn)
    (hdef : (ptrDefOf pn).run.run σ2 = (.ok (some (dn, vh.ty)), σ2))
    (hold : readLocP σ2 ph.loc = .ok old) (holdk : old.isArr = false) (hconst : locConstP σ2 ph.loc = false) :
    ∃ σ3, (evalExpr (f+1) (.ptrAssign t r v)).run.run σ = (.ok .none, σ3) ∧
      readLocP σ3 ph.loc = .ok (.ptr pn (some vh.loc)) ∧
      (∀ k, σ3.acts.any (·.id == k) = σ2.acts.any (·.id == k)) := by
  obtain ⟨F, hF, hw, hread, _⟩ := run_writeLoc_ok t ph.loc (.ptr pn (some vh.loc)) old σ2 hold hconst holdk
  refine ⟨_, C09_ptrAssign_ok f t r v σ σ1 σ2 _ ph vh pn dn hr hparr hv hvarr hpty hdef hw, hread, ?_⟩
  intro k
  exact any_updActs _ _ F hF σ2.acts

/-! ## non-vacuity: `p` points to the global `x`; `p^` resolves to `x`'s location; a dangling id is diagnosed -/
namespace C09DerefEx

def exLocX : Loc := { act := 0, isArr := false, name := "x".toList, path := [] }
def exLocDead : Loc := { act := 7, isArr := false, name := "y".toList, path := [] }
def exTok (s : String) : Tok := { k := .IDENTIFIER, line := 3, col := 5, val := s.toList }

/-- global activation with `x : INTEGER = 42`, `p : IntPtr -> x`, `q : IntPtr -> (dead activation 7)`, `u : IntPtr` unset -/
def exSt : St :=
  { acts := [{ id := 0, name := "Program".toList,
               ptrs := [("IntPtr".toList, .int)],
               vars := [{ name := "x".toList, ty := .int, val := .int 42 },
                        { name := "p".toList, ty := .ptr "IntPtr".toList, val := .ptr "IntPtr".toList (some exLocX) },
                        { name := "q".toList, ty := .ptr "IntPtr".toList, val := .ptr "IntPtr".toList (some exLocDead) },
                        { name := "u".toList, ty := .ptr "IntPtr".toList, val := .ptr "IntPtr".toList none }] }] }

example : ((resolveRef 2 (.deref (exTok "^") (.var (exTok "p")))).run.run exSt).1.toOption.map (·.loc) = some exLocX := by
  rfl
example : ∃ d, ((resolveRef 2 (.deref (exTok "^") (.var (exTok "q")))).run.run exSt).1 = .error (.diag d) ∧
    d.msg = .deletedObject := ⟨_, rfl, rfl⟩
example : ∃ d, ((resolveRef 2 (.deref (exTok "^") (.var (exTok "u")))).run.run exSt).1 = .error (.diag d) ∧
    d.msg = .deletedObject := ⟨_, rfl, rfl⟩
example : ∃ d, ((resolveRef 2 (.deref (exTok "^") (.var (exTok "x")))).run.run exSt).1 = .error (.diag d) ∧
    d.msg = .typeMismatch := ⟨_, rfl, rfl⟩
/-- the hypotheses of `C09_deref_alias` hold here -/
example : ∃ h, (resolveRef 1 (.var (exTok "p"))).run.run exSt = (.ok h, exSt) ∧ h.isArr = false ∧
    ((readLoc h.loc).run.run exSt).1 = .ok (.ptr "IntPtr".toList (some exLocX)) ∧
    exSt.acts.any (·.id == exLocX.act) = true ∧ ((readLoc exLocX).run.run exSt).1 = .ok (.int 42) :=
  ⟨_, rfl, rfl, rfl, rfl, rfl⟩
/-- `u <- ^x` type-checks and stores the location of `x` -/
example : (((evalExpr 2 (.ptrAssign (exTok "<-") (.var (exTok "u")) (.var (exTok "x")))).run.run exSt).2.acts.head?.bind
    fun a => (findSlot a.vars "u".toList).map (·.val)) = some (.ptr "IntPtr".toList (some exLocX)) := by rfl

end C09DerefEx

end Pseudo
