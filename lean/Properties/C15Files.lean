import PseudoProofs.ReadLoop2Inst
/-!
# C15 for programs, part 2: any variables, two files, APPEND

`Properties/C15Exec.lean` proves the loop `WHILE NOT EOF(f) … READFILE f, line … ENDWHILE` on the evaluator when `line` / `cnt`
are plain variables of the current activation and one file is involved. Here (helpers: `PseudoProofs/ReadLoop2*.lean`):

* `C15_files_write_lines`: a block of `WRITEFILE n, eᵢ` with arbitrary state-independent payload expressions of printable type;
* `C15_files_append_then_read`: WRITE session, APPEND session, READ loop, as one block;
* `C15_files_loop_output_tgt`, `C15_files_loop_count_tgt`: the two loops of `C15Exec` when `line` (and `cnt`) are ANY names that
  the evaluator's look-up resolves to assignable whole variables somewhere on the activation stack (`ReadLoop2.Tgt`);
  `C15_files_loop_global_var` (both GLOBAL, seen from inside a procedure) and `C15_files_loop_byref_var` (`line` a BYREF formal)
  are the two instances asked for;
* `C15_files_copy_loop`, `C15_files_two_files`: the copying loop from a READ handle to a WRITE / APPEND handle.
-/
namespace Pseudo
open FileStmt ReadLoop ReadLoop2 ArrayLemmas C07Copy

/-! ## 1. a block of WRITEFILE statements with arbitrary pure payloads -/

/-- `e` evaluates to `v`, leaving the state as it is, with every fuel `≥ f₀` in every state that differs from `σ` only in the
    step counter and the file component (what a block of file statements changes). Literals and variables satisfy it. -/
def C15_PureFS (σ : St) (f₀ : Nat) (e : Expr) (v : Val) : Prop :=
  ∀ f k s', f₀ ≤ f → EvalsTo f e (afterSteps σ k s') v

theorem C15_pureFS_strLit (σ : St) (t : Tok) (s : Str) : C15_PureFS σ 1 (.strLit t s) (.str s) := by
  intro f k s' hf
  obtain ⟨g, rfl⟩ : ∃ g, f = g + 1 := ⟨f - 1, by omega⟩
  exact evalsTo_strLit g t s _

theorem C15_pureFS_intLit (σ : St) (t : Tok) (i : Int) : C15_PureFS σ 1 (.intLit t i) (.int i) := by
  intro f k s' hf
  obtain ⟨g, rfl⟩ : ∃ g, f = g + 1 := ⟨f - 1, by omega⟩
  exact evalsTo_intLit g t i _

theorem C15_pureFS_boolLit (σ : St) (t : Tok) (b : Bool) : C15_PureFS σ 1 (.boolLit t b) (.bool b) := by
  intro f k s' hf
  obtain ⟨g, rfl⟩ : ∃ g, f = g + 1 := ⟨f - 1, by omega⟩
  exact evalsTo_boolLit g t b _

theorem C15_pureFS_charLit (σ : St) (t : Tok) (c : Char) : C15_PureFS σ 1 (.charLit t c) (.chr c) := by
  intro f k s' hf
  obtain ⟨g, rfl⟩ : ∃ g, f = g + 1 := ⟨f - 1, by omega⟩
  exact evalsTo_charLit g t c _

theorem C15_pureFS_realLit (σ : St) (t : Tok) (txt : Str) :
    C15_PureFS σ 1 (.realLit t txt) (.real (FloatFmt.strtod txt).1) := by
  intro f k s' hf
  obtain ⟨g, rfl⟩ : ∃ g, f = g + 1 := ⟨f - 1, by omega⟩
  exact evalsTo_realLit g t txt _

/-- a variable (any name the look-up resolves: local, global, BYREF) is a pure payload -/
theorem C15_pureFS_var (σ : St) (tacc tv : Tok) (ty : Ty) (L : Loc) (v : Val) (h : Tgt σ tv.val ty L v) :
    C15_PureFS σ 2 (.access tacc (.var tv)) v := by
  intro f k s' hf
  obtain ⟨g, rfl⟩ : ∃ g, f = g + 2 := ⟨f - 2, by omega⟩
  exact run_accessTgt g tacc tv _ ty L v (h.of_acts rfl)

/-- the text WRITEFILE writes for a value of a primitive type: what OUTPUT prints for INTEGER, BOOLEAN, CHAR, STRING, DATE; for
    REAL the rendering function `realToString` (six decimals, trailing zeros dropped) stays symbolic -/
theorem C15_files_text (v : Val) :
    (∀ i, v = .int i → writeTextP v = .ok (intToStr i)) ∧
    (∀ b, v = .bool b → writeTextP v = .ok (if b then "TRUE".toList else "FALSE".toList)) ∧
    (∀ c, v = .chr c → writeTextP v = .ok [c]) ∧
    (∀ s, v = .str s → writeTextP v = .ok s) ∧
    (∀ d, v = .date d → writeTextP v = .ok (Calendar.text d)) ∧
    (∀ x, v = .real x → writeTextP v = .ok (realToString x)) :=
  ⟨fun _ h => by subst h; rfl, fun _ h => by subst h; rfl, fun _ h => by subst h; rfl, fun _ h => by subst h; rfl,
   fun _ h => by subst h; rfl, fun _ h => by subst h; rfl⟩

/-- the induction behind `C15_files_write_lines`, from any state reached by file statements -/
theorem C15_files_write_lines_aux (f₀ : Nat) (t tn : Tok) (n : Str) (σ0 : St) (f : Nat) :
    ∀ (items : List (Expr × Val × Str)) (k : Nat) (s : FState) (h : Handle) (c : Str),
    (∀ it ∈ items, C15_PureFS σ0 f₀ it.1 it.2.1 ∧ writeTextP it.2.1 = .ok it.2.2) →
    s.handle n = some h → (h.mode = .write ∨ h.mode = .append) → s.node n = some (.file c) →
    σ0.steps + k + items.length ≤ σ0.stepLimit →
    ∃ s', fsteps s (items.map (fun it => FOp.write n it.2.2)) = .ok s' ∧
      (runBlock (f + f₀ + 2 + items.length) (items.map (fun it => Stmt.writeFile t (.strLit tn n) it.1))).run.run
          (afterSteps σ0 k s) = (.ok ⟨⟩, afterSteps σ0 (k + items.length) s') ∧
      s'.handles = s.handles ∧ s'.node n = some (.file (c ++ joinLines (items.map (·.2.2)))) ∧
      ∀ m, m ≠ n → s'.node m = s.node m
  | [], k, s, h, c, _, _, _, hn, _ =>
    ⟨s, rfl, run_runBlock_nil (f + f₀ + 1) _, rfl, by simpa [joinLines] using hn, fun _ _ => rfl⟩
  | (e, v, txt) :: items, k, s, h, c, hit, hh, hm, hn, hb => by
    obtain ⟨hpure, htxt⟩ := hit (e, v, txt) (List.mem_cons_self ..)
    simp only [List.length_cons] at hb
    obtain ⟨s1, hs1, hfs, hhs⟩ := C15_write_line s n txt c h hh hm hn
    have hh1 : s1.handle n = some h := by rw [handle_of_handles_eq s s1 n hhs]; exact hh
    have hn1 : s1.node n = some (.file (c ++ txt ++ ['\n'])) := by
      rw [node_of_fs_eq s1 _ n hfs]; exact node_setNode_same _ _ _
    obtain ⟨s', hs', hrun', hhs', hn', hoth'⟩ := C15_files_write_lines_aux f₀ t tn n σ0 f items (k+1) s1 h _
      (fun it hi => hit it (List.mem_cons_of_mem _ hi)) hh1 hm hn1 (by omega)
    have hstmt : (execStmt ((f + f₀ + items.length) + 2) (.writeFile t (.strLit tn n) e)).run.run (afterSteps σ0 k s) =
        (.ok .none, afterSteps σ0 (k+1) s1) := by
      have hp : fpre (fileSt (afterSteps σ0 k s)) (.write n []) = .ok () := fpre_of_fstep_ok s (.write n txt) _ hs1
      have he : EvalsTo ((f + f₀ + items.length) + 1) e (tickSt (afterSteps σ0 k s)) v :=
        hpure ((f + f₀ + items.length) + 1) (k+1) s (by omega)
      cases hfl : f + f₀ + items.length with
      | zero =>
        have h0 : f₀ = 0 := by omega
        rw [hfl] at he
        rw [exec_writeFile 0 t _ e (afterSteps σ0 k s) n v (by show σ0.steps + k + 1 ≤ σ0.stepLimit; omega) ?_ he, hp]
        · dsimp only
          rw [htxt]
          exact liftStep_ok (afterSteps σ0 k s) t _ s1 _ hs1
        · exfalso
          have := hpure 0 (k+1) s (by omega)
          unfold EvalsTo at this
          rw [evalExpr.eq_def] at this
          cases this
      | succ g =>
        rw [hfl] at he
        rw [exec_writeFile (g+1) t _ e (afterSteps σ0 k s) n v (by show σ0.steps + k + 1 ≤ σ0.stepLimit; omega)
          (evalsTo_strLit g tn n _) he, hp]
        dsimp only
        rw [htxt]
        exact liftStep_ok (afterSteps σ0 k s) t _ s1 _ hs1
    refine ⟨s', ?_, ?_, hhs'.trans hhs, ?_, ?_⟩
    · simp only [List.map_cons, fsteps, hs1]; exact hs'
    · have e1 : f + f₀ + 2 + (items.length + 1) = ((f + f₀ + items.length) + 2) + 1 := by omega
      have e2 : (f + f₀ + items.length) + 2 = f + f₀ + 2 + items.length := by omega
      have e3 : k + (items.length + 1) = k + 1 + items.length := by omega
      simp only [List.length_cons, List.map_cons]
      rw [e1, run_runBlock_cons _ _ _ _ _ hstmt, e2, hrun', e3]
    · rw [hn']; simp [joinLines, List.append_assoc]
    · intro m hm'
      rw [hoth' m hm', node_of_fs_eq s1 _ m hfs]
      exact node_setNode_other s.fs n m _ (Ne.symm hm')

/-- **C15, writing (WRITE or APPEND mode, any printable payloads).** `n` is open FOR WRITE or FOR APPEND and the file holds `c`
    (for a handle just opened: `[]` in WRITE mode, the old content in APPEND mode — `C15_open_modes`). The block
    `WRITEFILE n, e₁ ; … ; WRITEFILE n, eₖ`, where each `eᵢ` is a pure expression (`C15_PureFS`: literals, variables, …) whose
    value `vᵢ` has the text `txtᵢ` (`writeTextP`: the value is of a primitive type; `C15_files_text`), ends normally after `k`
    steps; the file then holds `c ++ txt₁ ++ "\n" ++ … ++ txtₖ ++ "\n"`; the handle table, every other file and everything
    else in the state is unchanged (`afterSteps`). On the pure machine the block is the history `WRITE n txt₁ … WRITE n txtₖ`.
    (In the model a text handle has no pending text: WRITEFILE writes through to the file system, so the same holds after
    CLOSEFILE — `C15_files_append_then_read` below closes and reopens.) -/
theorem C15_files_write_lines (f f₀ : Nat) (t tn : Tok) (n : Str) (items : List (Expr × Val × Str)) (σ : St) (h : Handle) (c : Str)
    (hit : ∀ it ∈ items, C15_PureFS σ f₀ it.1 it.2.1 ∧ writeTextP it.2.1 = .ok it.2.2)
    (hh : FState.handle { fs := σ.fs, handles := σ.handles } n = some h) (hm : h.mode = .write ∨ h.mode = .append)
    (hn : FState.node { fs := σ.fs, handles := σ.handles } n = some (.file c))
    (hb : σ.steps + items.length ≤ σ.stepLimit) :
    ∃ s' : FState, fsteps { fs := σ.fs, handles := σ.handles } (items.map (fun it => FOp.write n it.2.2)) = .ok s' ∧
      (runBlock (f + f₀ + 2 + items.length) (items.map (fun it => Stmt.writeFile t (.strLit tn n) it.1))).run.run σ =
        (.ok ⟨⟩, { σ with steps := σ.steps + items.length, fs := s'.fs, handles := s'.handles }) ∧
      s'.handles = σ.handles ∧
      FState.node s' n = some (.file (c ++ joinLines (items.map (·.2.2)))) ∧
      ∀ m, m ≠ n → FState.node s' m = FState.node { fs := σ.fs, handles := σ.handles } m := by
  obtain ⟨s', h1, h2, h3, h4, h5⟩ := C15_files_write_lines_aux f₀ t tn n σ f items 0 (fileSt σ) h c hit hh hm hn (by omega)
  refine ⟨s', h1, ?_, h3, h4, h5⟩
  have e0 : afterSteps σ 0 (fileSt σ) = σ := rfl
  rw [e0] at h2
  rw [h2]
  unfold afterSteps
  rw [Nat.zero_add]

/-! ## 2. the loops for variables anywhere on the stack -/

theorem C15_run_whileStmt (k : Nat) (tw : Tok) (c : Expr) (b : Block) (σ σ' : St) (hb : σ.steps + 1 ≤ σ.stepLimit)
    (h : (whileLoop k tw c b).run.run (tickSt σ) = (.ok ⟨⟩, σ')) :
    (execStmt (k+1) (.while tw c b)).run.run σ = (.ok .none, σ') := by
  rw [execStmt.eq_def]
  dsimp only
  rw [run_bind_ok _ _ _ _ _ (run_tick_ok tw σ hb), run_bind_ok _ _ _ _ _ h]
  rfl

theorem C15_core_tick {σ : St} {n x : Str} {L : Loc} {v0 : Str} {h : Handle} (c : Core σ n x L v0 h) :
    Core (tickSt σ) n x L v0 h :=
  ⟨c.acts, c.depth, c.tgt.of_acts rfl, c.hh, c.hm⟩

/-- **The printing loop when `line` is any assignable STRING variable visible from the current activation.**
    Hypothesis `Core σ n line L v0 h` (`PseudoProofs/ReadLoop2Loop.lean`): the current activation carries no call-site mark
    and one more call fits under the depth limit (needed by the call of `EOF`); the look-up of `line` (current activation, then
    the global one; a BYREF formal stands for the caller's variable) yields a whole STRING variable at location `L`, not a
    constant, currently holding `v0` (`ReadLoop2.Tgt`); `n` is open FOR READ with handle `h`. `Reads txt Ls`: the unread text
    is consumed as the lines `Ls`. Then the statement ends normally; the final state is the start state with `steps`,
    `nextId`, the handle and the output exactly as in `C15_exec_read_loop_reads_output`, and the activation list with the LAST
    line stored in the cell `L` (`lastActs`: untouched if there was no line) — wherever on the stack that cell lives. -/
theorem C15_files_loop_output_tgt (fuel : Nat) (tw tnot teof tn1 tr tn2 idLine to tacc tv : Tok) (n : Str)
    (txt : Str) (Ls : List Str) (σ : St) (L : Loc) (v0 : Str) (h : Handle)
    (hfuel : Ls.length + 11 ≤ fuel) (heof : teof.val = "EOF".toList) (htv : tv.val = idLine.val) (hreads : Reads txt Ls)
    (hcore : Core σ n idLine.val L v0 h) (hrest : h.rest = txt)
    (hbud : σ.steps + (3 * Ls.length + 2) ≤ σ.stepLimit) :
    (execStmt fuel (C15_outputLoop tw tnot teof tn1 tr tn2 idLine to tacc tv n)).run.run σ =
      (.ok .none, { σ with steps := σ.steps + (3 * Ls.length + 2), nextId := σ.nextId + (Ls.length + 1),
                           handles := drain σ.handles n Ls, acts := lastActs σ.acts L Ls, out := outChunks Ls σ.out }) ∧
    Tgt { σ with steps := σ.steps + (3 * Ls.length + 2), nextId := σ.nextId + (Ls.length + 1),
                 handles := drain σ.handles n Ls, acts := lastActs σ.acts L Ls, out := outChunks Ls σ.out }
      idLine.val .str L (.str (Ls.getLastD v0)) := by
  obtain ⟨hrun, hcf, _⟩ := whileLoop_readGen tw tnot teof tn1 tr tn2 idLine n (outStmt to tacc tv) L outPost (fun _ _ => True)
    heof (s2_output to tacc tv n idLine.val L htv) (fun _ _ => trivial) txt Ls hreads (tickSt σ) v0 h (C15_core_tick hcore)
    hrest trivial (by show σ.steps + 1 + 3 * Ls.length + 1 ≤ σ.stepLimit; omega)
  have hfin : loopFinal outPost n L txt Ls (tickSt σ) =
      { σ with steps := σ.steps + (3 * Ls.length + 2), nextId := σ.nextId + (Ls.length + 1),
               handles := drain σ.handles n Ls, acts := lastActs σ.acts L Ls, out := outChunks Ls σ.out } := by
    unfold outPost
    rw [loopFinal_simple _ _ n L txt Ls hreads, foldl_outChunks, foldl_const]
    unfold tickSt
    dsimp only
    rw [show σ.steps + 1 + (3 * Ls.length + 1) = σ.steps + (3 * Ls.length + 2) by omega]
  rw [hfin] at hrun hcf
  refine ⟨?_, hcf.tgt⟩
  have := C15_run_whileStmt (Ls.length + 10) tw _ _ σ _ (by omega) hrun
  exact execStmt_fuel_mono _ _ fuel (by omega) σ _ _ this (fun h => nomatch h)

/-- **The counting loop when `line` and `cnt` are any assignable STRING / INTEGER variables visible from the current
    activation** (`Core` as above, for `line`; `Tgt σ cnt .int Lc (.int c)` for the counter; the current activation is not a
    record context, which `cnt + 1` needs to find the enum definitions). The statement ends normally in the state
    `loopFinal (incrPost Lc) n L txt Ls (tickSt σ)` — the fold of the rounds, computable — and in that state `line` holds the
    last line (`v0` if there was none), `cnt` holds `c + Ls.length`: the body ran once per line; `steps` has advanced by
    `3 * Ls.length + 2`; file system, output and definitions are unchanged. -/
theorem C15_files_loop_count_tgt (fuel : Nat) (tw tnot teof tn1 tr tn2 idLine ta tx tp tacc tv t1 : Tok) (n : Str)
    (txt : Str) (Ls : List Str) (σ : St) (L Lc : Loc) (v0 : Str) (c : Int) (h : Handle)
    (hfuel : Ls.length + 11 ≤ fuel) (heof : teof.val = "EOF".toList) (htv : tv.val = tx.val) (hreads : Reads txt Ls)
    (hcore : Core σ n idLine.val L v0 h) (hrest : h.rest = txt)
    (hcnt : Tgt σ tx.val .int Lc (.int c)) (hcomp : ∃ a rest, σ.acts = a :: rest ∧ a.isComp = false)
    (hc1 : -two63 ≤ c) (hc2 : c + Ls.length < two63)
    (hbud : σ.steps + (3 * Ls.length + 2) ≤ σ.stepLimit) :
    ∃ σ' : St,
      (execStmt fuel (C15_countLoop tw tnot teof tn1 tr tn2 idLine ta tx tp tacc tv t1 n)).run.run σ = (.ok .none, σ') ∧
      σ' = loopFinal (incrPost Lc) n L txt Ls (tickSt σ) ∧
      Tgt σ' idLine.val .str L (.str (Ls.getLastD v0)) ∧ Tgt σ' tx.val .int Lc (.int (c + Ls.length)) ∧
      FState.handle { fs := σ'.fs, handles := σ'.handles } n = some { h with rest := [] } := by
  have hinv : CntInv tx.val Lc (c + Ls.length) Ls (tickSt σ) := ⟨⟨c, hcnt.of_acts rfl, rfl, hc1⟩, hcomp⟩
  obtain ⟨hrun, hcf, ⟨k, hk, hk2, _⟩, _⟩ := whileLoop_readGen tw tnot teof tn1 tr tn2 idLine n (incrStmt ta tx tp tacc tv t1) L
    (incrPost Lc) (CntInv tx.val Lc (c + Ls.length)) heof (s2_incr ta tx tp tacc tv t1 n idLine.val L Lc _ htv hc2)
    (fun τ hi => ⟨by obtain ⟨⟨k, hk, hk2, hk3⟩, _⟩ := hi; exact ⟨k, hk.of_acts rfl, hk2, hk3⟩, hi.2⟩)
    txt Ls hreads (tickSt σ) v0 h (C15_core_tick hcore) hrest hinv
    (by show σ.steps + 1 + 3 * Ls.length + 1 ≤ σ.stepLimit; omega)
  have hk' : k = c + Ls.length := by simpa using hk2
  subst hk'
  refine ⟨_, ?_, rfl, hcf.tgt, hk, hcf.hh⟩
  have := C15_run_whileStmt (Ls.length + 10) tw _ _ σ _ (by omega) hrun
  exact execStmt_fuel_mono _ _ fuel (by omega) σ _ _ this (fun h => nomatch h)

/-- **`line` and `cnt` GLOBAL, the loop inside a procedure**: the activation stack is `a :: mid ++ [g]` — `a` the procedure's
    activation, which has no variables of these names, `g` the global activation (no activation above it carries its number),
    where `line` is a STRING variable holding `v0` and `cnt` an INTEGER variable holding `c`. The counting loop ends normally;
    afterwards the GLOBAL `line` holds the last line and the GLOBAL `cnt` holds `c + Ls.length`. -/
theorem C15_files_loop_global_var (fuel : Nat) (tw tnot teof tn1 tr tn2 idLine ta tx tp tacc tv t1 : Tok) (n : Str)
    (txt : Str) (Ls : List Str) (σ : St) (a g : Act) (mid : List Act) (v0 : Str) (c : Int) (h : Handle)
    (hfuel : Ls.length + 11 ≤ fuel) (heof : teof.val = "EOF".toList) (htv : tv.val = tx.val) (hreads : Reads txt Ls)
    (hacts : σ.acts = a :: (mid ++ [g])) (hsw : a.switchTok = none) (hcomp : a.isComp = false)
    (hd : σ.depth + 1 ≤ σ.depthLimit)
    (hnoLine : findSlot a.vars idLine.val = none) (hnoCnt : findSlot a.vars tx.val = none)
    (hids : ∀ b ∈ a :: mid, b.id ≠ g.id)
    (hline : HasVar g idLine.val .str (.str v0)) (hcnt : HasVar g tx.val .int (.int c))
    (hh : FState.handle { fs := σ.fs, handles := σ.handles } n = some h) (hm : h.mode = .read) (hrest : h.rest = txt)
    (hc1 : -two63 ≤ c) (hc2 : c + Ls.length < two63)
    (hbud : σ.steps + (3 * Ls.length + 2) ≤ σ.stepLimit) :
    ∃ σ' : St,
      (execStmt fuel (C15_countLoop tw tnot teof tn1 tr tn2 idLine ta tx tp tacc tv t1 n)).run.run σ = (.ok .none, σ') ∧
      σ' = loopFinal (incrPost (curLoc g tx.val)) n (curLoc g idLine.val) txt Ls (tickSt σ) ∧
      readLocP σ' (curLoc g idLine.val) = .ok (.str (Ls.getLastD v0)) ∧
      readLocP σ' (curLoc g tx.val) = .ok (.int (c + Ls.length)) ∧
      FState.handle { fs := σ'.fs, handles := σ'.handles } n = some { h with rest := [] } := by
  have hcore : Core σ n idLine.val (curLoc g idLine.val) v0 h :=
    ⟨⟨a, _, hacts, hsw⟩, hd, Tgt.of_global hacts hnoLine hids hline, hh, hm⟩
  obtain ⟨σ', h1, h2, h3, h4, h5⟩ := C15_files_loop_count_tgt fuel tw tnot teof tn1 tr tn2 idLine ta tx tp tacc tv t1 n txt Ls σ
    _ _ v0 c h hfuel heof htv hreads hcore hrest (Tgt.of_global hacts hnoCnt hids hcnt) ⟨a, _, hacts, hcomp⟩ hc1 hc2 hbud
  exact ⟨σ', h1, h2, h3.val, h4.val, h5⟩

/-- **`line` a BYREF formal**: the current activation `a` has a slot `line` of type STRING that refers to the plain STRING
    variable `y` of an activation `c` on the stack (the first one with its number). The printing loop prints every line once
    and leaves the last line in the CALLER's variable `y`. -/
theorem C15_files_loop_byref_var (fuel : Nat) (tw tnot teof tn1 tr tn2 idLine to tacc tv : Tok) (n : Str)
    (txt : Str) (Ls : List Str) (σ : St) (a c : Act) (rest : List Act) (s : Slot) (y : Str) (v0 : Str) (h : Handle)
    (hfuel : Ls.length + 11 ≤ fuel) (heof : teof.val = "EOF".toList) (htv : tv.val = idLine.val) (hreads : Reads txt Ls)
    (hacts : σ.acts = a :: rest) (hsw : a.switchTok = none) (hd : σ.depth + 1 ≤ σ.depthLimit)
    (hs : findSlot a.vars idLine.val = some s) (hty : s.ty = .str) (href : s.ref = some (curLoc c y))
    (hfind : σ.acts.find? (·.id == c.id) = some c) (hy : HasVar c y .str (.str v0))
    (hh : FState.handle { fs := σ.fs, handles := σ.handles } n = some h) (hm : h.mode = .read) (hrest : h.rest = txt)
    (hbud : σ.steps + (3 * Ls.length + 2) ≤ σ.stepLimit) :
    ∃ σ' : St,
      (execStmt fuel (C15_outputLoop tw tnot teof tn1 tr tn2 idLine to tacc tv n)).run.run σ = (.ok .none, σ') ∧
      σ' = { σ with steps := σ.steps + (3 * Ls.length + 2), nextId := σ.nextId + (Ls.length + 1),
                    handles := drain σ.handles n Ls, acts := lastActs σ.acts (curLoc c y) Ls, out := outChunks Ls σ.out } ∧
      σ'.output = σ.output ++ joinLines Ls ∧
      readLocP σ' (curLoc c y) = .ok (.str (Ls.getLastD v0)) := by
  have hcore : Core σ n idLine.val (curLoc c y) v0 h :=
    ⟨⟨a, _, hacts, hsw⟩, hd, Tgt.of_byref hacts hs hty href hfind hy, hh, hm⟩
  obtain ⟨h1, h2⟩ := C15_files_loop_output_tgt fuel tw tnot teof tn1 tr tn2 idLine to tacc tv n txt Ls σ _ v0 h hfuel heof htv
    hreads hcore hrest hbud
  exact ⟨_, h1, rfl, C15_output_outChunks σ Ls _ rfl, h2.val⟩

/-! ## 3. two files: the copying loop -/

/-- `WHILE NOT EOF(a) DO READFILE a, line ; WRITEFILE b, line ENDWHILE` as the parser builds it -/
def C15_copyLoop (tw tnot teof tn1 tr tn2 idLine twf tnb tacc tv : Tok) (a b : Str) : Stmt :=
  .while tw (.not tnot (.call teof [.strLit tn1 a]))
    [.readFile tr (.strLit tn2 a) idLine, .writeFile twf (.strLit tnb b) (.access tacc (.var tv))]

theorem C15_find_filter_ne (hs : List Handle) (b : Str) : (hs.filter (·.name != b)).find? (·.name == b) = none := by
  rw [List.find?_eq_none]
  intro x hx
  have := (List.mem_filter.mp hx).2
  simpa [bne] using this

/-- **The copying loop.** `a` is open FOR READ (`Core`, with `line` any assignable STRING variable visible from the current
    activation), `b` is open FOR WRITE or APPEND and its file holds `cb`. The loop ends normally; the final state is given
    exactly: `steps`, `nextId`, the READ handle and `line` as for the other loops, and the file system with every line read
    appended to `b` (`appendLine`), so that `b` holds `cb` followed by every line of `a`, each terminated by a line break;
    every other file, the handle of `b`, the output are untouched. -/
theorem C15_files_copy_loop (fuel : Nat) (tw tnot teof tn1 tr tn2 idLine twf tnb tacc tv : Tok) (a b : Str)
    (txt : Str) (Ls : List Str) (σ : St) (L : Loc) (v0 : Str) (h hb : Handle) (cb : Str)
    (hfuel : Ls.length + 11 ≤ fuel) (heof : teof.val = "EOF".toList) (htv : tv.val = idLine.val) (hreads : Reads txt Ls)
    (hcore : Core σ a idLine.val L v0 h) (hrest : h.rest = txt)
    (hhb : FState.handle { fs := σ.fs, handles := σ.handles } b = some hb) (hmb : hb.mode = .write ∨ hb.mode = .append)
    (hnb : FState.node { fs := σ.fs, handles := σ.handles } b = some (.file cb))
    (hbud : σ.steps + (3 * Ls.length + 2) ≤ σ.stepLimit) :
    ∃ σ' : St,
      (execStmt fuel (C15_copyLoop tw tnot teof tn1 tr tn2 idLine twf tnb tacc tv a b)).run.run σ = (.ok .none, σ') ∧
      σ' = { σ with steps := σ.steps + (3 * Ls.length + 2), nextId := σ.nextId + (Ls.length + 1),
                    handles := drain σ.handles a Ls, acts := lastActs σ.acts L Ls,
                    fs := Ls.foldl (fun s l => appendLine b l s) σ.fs } ∧
      FState.node { fs := σ'.fs, handles := σ'.handles } b = some (.file (cb ++ joinLines Ls)) ∧
      (∀ m, m ≠ b → FState.node { fs := σ'.fs, handles := σ'.handles } m = FState.node { fs := σ.fs, handles := σ.handles } m) ∧
      FState.handle { fs := σ'.fs, handles := σ'.handles } b = some hb ∧
      FState.handle { fs := σ'.fs, handles := σ'.handles } a = some { h with rest := [] } := by
  have hw : Writable b (tickSt σ) := ⟨hb, cb, hhb, hmb, hnb⟩
  obtain ⟨hrun, hcf, _⟩ := whileLoop_readGen tw tnot teof tn1 tr tn2 idLine a _ L (copyPost b) (fun _ τ => Writable b τ)
    heof (s2_copy twf tnb tacc tv a b idLine.val L htv) (fun _ hi => hi) txt Ls hreads (tickSt σ) v0 h (C15_core_tick hcore)
    hrest hw (by show σ.steps + 1 + 3 * Ls.length + 1 ≤ σ.stepLimit; omega)
  have hfin : loopFinal (copyPost b) a L txt Ls (tickSt σ) =
      { σ with steps := σ.steps + (3 * Ls.length + 2), nextId := σ.nextId + (Ls.length + 1),
               handles := drain σ.handles a Ls, acts := lastActs σ.acts L Ls,
               fs := Ls.foldl (fun s l => appendLine b l s) σ.fs } := by
    unfold copyPost
    rw [loopFinal_simple _ _ a L txt Ls hreads, foldl_const]
    unfold tickSt
    dsimp only
    rw [show σ.steps + 1 + (3 * Ls.length + 1) = σ.steps + (3 * Ls.length + 2) by omega]
  rw [hfin] at hrun hcf
  have hne : b ≠ a := by
    intro e
    subst e
    have := hcore.hh.symm.trans hhb
    injection this with this
    subst this
    rcases hmb with hmb | hmb <;> rw [hcore.hm] at hmb <;> cases hmb
  obtain ⟨hn1, hn2⟩ := node_foldl_copy b Ls σ.fs cb hnb
  refine ⟨_, ?_, rfl, hn1, hn2, ?_, hcf.hh⟩
  · have := C15_run_whileStmt (Ls.length + 10) tw _ _ σ _ (by omega) hrun
    exact execStmt_fuel_mono _ _ fuel (by omega) σ _ _ this (fun h => nomatch h)
  · show (drain σ.handles a Ls).find? (·.name == b) = some hb
    cases Ls with
    | nil => exact hhb
    | cons l Ls' =>
      show (setRest σ.handles a []).find? (·.name == b) = some hb
      unfold setRest
      rw [RandomFile.handle_upd_other σ.handles a b (fun h => { h with rest := [] }) (fun _ => rfl) hne]
      exact hhb

/-- **C15, copying a file line by line.** The block `WHILE NOT EOF(a) DO READFILE a, line ; WRITEFILE b, line ENDWHILE ;
    CLOSEFILE b` ends normally; afterwards `b` is closed and the file `b` holds `cb` (what it held before: `[]` right after
    OPENFILE … FOR WRITE) followed by exactly the lines of `a`, each terminated by a line break. -/
theorem C15_files_two_files (f : Nat) (tw tnot teof tn1 tr tn2 idLine twf tnb tacc tv tc tcn : Tok) (a b : Str)
    (txt : Str) (Ls : List Str) (σ : St) (L : Loc) (v0 : Str) (h hb : Handle) (cb : Str)
    (heof : teof.val = "EOF".toList) (htv : tv.val = idLine.val) (hreads : Reads txt Ls)
    (hcore : Core σ a idLine.val L v0 h) (hrest : h.rest = txt)
    (hhb : FState.handle { fs := σ.fs, handles := σ.handles } b = some hb) (hmb : hb.mode = .write ∨ hb.mode = .append)
    (hnb : FState.node { fs := σ.fs, handles := σ.handles } b = some (.file cb))
    (hbud : σ.steps + (3 * Ls.length + 3) ≤ σ.stepLimit) :
    ∃ σ' : St,
      (runBlock (f + Ls.length + 13)
        [C15_copyLoop tw tnot teof tn1 tr tn2 idLine twf tnb tacc tv a b, .closeFile tc (.strLit tcn b)]).run.run σ =
          (.ok ⟨⟩, σ') ∧
      FState.node { fs := σ'.fs, handles := σ'.handles } b = some (.file (cb ++ joinLines Ls)) ∧
      (∀ m, m ≠ b → FState.node { fs := σ'.fs, handles := σ'.handles } m = FState.node { fs := σ.fs, handles := σ.handles } m) ∧
      FState.handle { fs := σ'.fs, handles := σ'.handles } b = none ∧
      σ'.steps = σ.steps + (3 * Ls.length + 3) ∧ σ'.out = σ.out := by
  obtain ⟨σ1, hrun1, hσ1, hn1, hn2, hh1, _⟩ := C15_files_copy_loop (f + Ls.length + 12) tw tnot teof tn1 tr tn2 idLine twf tnb
    tacc tv a b txt Ls σ L v0 h hb cb (by omega) heof htv hreads hcore hrest hhb hmb hnb (by omega)
  have hcl : ∀ s : FState, s.handle b = some hb →
      fstep s (.close b) = .ok ({ fs := s.fs, handles := s.handles.filter (·.name != b) }, .unit) := by
    intro s hh
    have hp : fpre s (.close b) = .ok () := by simp [fpre, hh]
    rcases hmb with hmb | hmb <;> simp [fstep, hp, hh, flushNode, hmb]
  have hclose := hcl (fileSt σ1) hh1
  have hst : σ1.steps = σ.steps + (3 * Ls.length + 2) := by rw [hσ1]
  have hlim : σ1.stepLimit = σ.stepLimit := by rw [hσ1]
  let σ2 : St := setFile (tickSt σ1) { fs := σ1.fs, handles := σ1.handles.filter (·.name != b) }
  have hrun2 : (execStmt ((f + Ls.length + 9) + 2) (.closeFile tc (.strLit tcn b))).run.run σ1 = (.ok .none, σ2) := by
    rw [exec_closeFile (f + Ls.length + 9) tc _ σ1 b (by rw [hst, hlim]; omega) (evalsTo_strLit (f + Ls.length + 8) tcn b _)]
    exact liftStep_ok σ1 tc _ _ _ hclose
  refine ⟨σ2, ?_, hn1, hn2, C15_find_filter_ne σ1.handles b, ?_, ?_⟩
  · have e : f + Ls.length + 13 = (f + Ls.length + 12) + 1 := by omega
    rw [e, run_runBlock_cons _ _ _ _ _ hrun1]
    show (runBlock (((f + Ls.length + 9) + 2) + 1) [_]).run.run σ1 = _
    rw [run_runBlock_cons _ _ _ _ _ hrun2]
    exact run_runBlock_nil ((f + Ls.length + 9) + 1) _
  · show σ1.steps + 1 = _
    rw [hst]; omega
  · show σ1.out = σ.out
    rw [hσ1]

theorem C15_joinLines_concat (last : Str) : ∀ xs : List Str, joinLines (xs ++ [last]) = joinLines xs ++ last ++ ['\n']
  | [] => by simp [joinLines]
  | x :: xs => by simp [joinLines, C15_joinLines_concat last xs]

/-- … in particular when the last line of `a` has no final line break (`a` holds `l₁\n … lₖ\n last`): the copy gets one -/
theorem C15_files_two_files_last_line (f : Nat) (tw tnot teof tn1 tr tn2 idLine twf tnb tacc tv tc tcn : Tok) (a b : Str)
    (ls : List Str) (last : Str) (σ : St) (L : Loc) (v0 : Str) (h hb : Handle) (cb : Str)
    (heof : teof.val = "EOF".toList) (htv : tv.val = idLine.val)
    (hnl : ∀ l ∈ ls, NoNL l) (hlast : NoNL last) (hne : last ≠ [])
    (hcore : Core σ a idLine.val L v0 h) (hrest : h.rest = joinLines ls ++ last)
    (hhb : FState.handle { fs := σ.fs, handles := σ.handles } b = some hb) (hmb : hb.mode = .write ∨ hb.mode = .append)
    (hnb : FState.node { fs := σ.fs, handles := σ.handles } b = some (.file cb))
    (hbud : σ.steps + (3 * (ls.length + 1) + 3) ≤ σ.stepLimit) :
    ∃ σ' : St,
      (runBlock (f + (ls.length + 1) + 13)
        [C15_copyLoop tw tnot teof tn1 tr tn2 idLine twf tnb tacc tv a b, .closeFile tc (.strLit tcn b)]).run.run σ =
          (.ok ⟨⟩, σ') ∧
      FState.node { fs := σ'.fs, handles := σ'.handles } b = some (.file (cb ++ joinLines ls ++ last ++ ['\n'])) := by
  have hlen : (ls ++ [last]).length = ls.length + 1 := by simp
  obtain ⟨σ', h1, h2, _⟩ := C15_files_two_files f tw tnot teof tn1 tr tn2 idLine twf tnb tacc tv tc tcn a b _ (ls ++ [last]) σ L
    v0 h hb cb heof htv (reads_joinLines_last ls last hnl hlast hne) hcore hrest hhb hmb hnb (by rw [hlen]; exact hbud)
  rw [hlen] at h1
  refine ⟨σ', h1, ?_⟩
  rw [h2, C15_joinLines_concat]
  simp [List.append_assoc]

/-! ## 4. WRITE session, APPEND session, reading loop -/

/-- **OPENFILE n FOR APPEND; WRITEFILE n, l₁; …; WRITEFILE n, lₖ; CLOSEFILE n** on the pure machine, for a closed name that is
    a file with content `c`: accepted; afterwards the file holds `c` followed by the lines; the handle table is as before -/
theorem C15_fsteps_append_session (s : FState) (n : Str) (lines : List Str) (c : Str)
    (hclosed : s.handle n = none) (hlong : nameTooLong n = false) (hnode : s.node n = some (.file c)) :
    ∃ s', fsteps s (.open n .append :: lines.map (.write n) ++ [.close n]) = .ok s' ∧
      s'.node n = some (.file (c ++ joinLines lines)) ∧ s'.handles = s.handles := by
  have hp : fpre s (.open n .append) = .ok () := by simp [fpre, hclosed]
  have hopen : fstep s (.open n .append) =
      .ok ({ s with handles := s.handles ++ [{ name := n, mode := .append }] }, .unit) := by
    simp [fstep, hp, hlong, hnode]
  let s1 : FState := { s with handles := s.handles ++ [{ name := n, mode := .append }] }
  have hh1 : s1.handle n = some ({ name := n, mode := .append } : Handle) := handle_append_new _ _ _ rfl hclosed
  have hn1 : s1.node n = some (.file c) := hnode
  obtain ⟨s2, hs2, hhs2, hn2⟩ := fsteps_writes n lines s1 _ c hh1 (Or.inr rfl) hn1
  have hh2 : s2.handle n = some ({ name := n, mode := .append } : Handle) := by
    rw [handle_of_handles_eq s1 s2 n hhs2]; exact hh1
  have hp2 : fpre s2 (.close n) = .ok () := by simp [fpre, hh2]
  have hclose : fstep s2 (.close n) = .ok ({ fs := s2.fs, handles := s2.handles.filter (·.name != n) }, .unit) := by
    simp [fstep, hp2, hh2, flushNode]
  refine ⟨{ fs := s2.fs, handles := s2.handles.filter (·.name != n) }, ?_, ?_, ?_⟩
  · show fsteps s (.open n .append :: (lines.map (.write n) ++ [.close n])) = _
    simp only [fsteps, hopen]
    rw [fsteps_append]
    show (match fsteps s1 (lines.map (.write n)) with | .ok s1 => fsteps s1 [.close n] | .error m => .error m) = _
    rw [hs2]
    simp only [fsteps, hclose]
  · have : FState.node { fs := s2.fs, handles := s2.handles.filter (·.name != n) } n = s2.node n := rfl
    rw [this, hn2]
  · show s2.handles.filter (·.name != n) = s.handles
    rw [hhs2]
    show (s.handles ++ [({ name := n, mode := .append } : Handle)]).filter (·.name != n) = s.handles
    rw [List.filter_append, filter_ne_of_find_none s.handles n hclosed]
    simp

/-- the program `OPENFILE n FOR APPEND`, `WRITEFILE n, l` for each `l` of `lines`, `CLOSEFILE n` -/
def C15_appendSession (t : Tok) (n : Str) (lines : List Str) : Block :=
  .openFile t (.strLit t n) .append ::
    lines.map (fun l => Stmt.writeFile t (.strLit t n) (.strLit t l)) ++ [.closeFile t (.strLit t n)]

theorem C15_joinLines_append : ∀ xs ys : List Str, joinLines (xs ++ ys) = joinLines xs ++ joinLines ys
  | [], _ => rfl
  | x :: xs, ys => by simp [joinLines, C15_joinLines_append xs ys]

/-- **C15, the APPEND case on runs.** The block

        OPENFILE n FOR WRITE ; WRITEFILE n, l₁ … ; CLOSEFILE n ;
        OPENFILE n FOR APPEND ; WRITEFILE n, m₁ … ; CLOSEFILE n ;
        OPENFILE n FOR READ ; WHILE NOT EOF(n) DO READFILE n, line ; OUTPUT line ENDWHILE

    ends normally; the file holds the lines of the first session followed by those of the second; the loop prints exactly
    these lines, in that order, one per round. Hypotheses as in `C15_exec_write_then_read`: `n` is closed, a legal name in an
    existing directory, not a directory / device; `line` is a STRING variable of the current activation; no line contains a
    line break; the step budget covers the `4 * (k₁ + k₂) + 7` steps. -/
theorem C15_files_append_then_read (f : Nat) (t tw tnot teof tn1 tr tn2 idLine to tacc tv : Tok) (n : Str) (ls1 ls2 : List Str)
    (σ : St) (a : Act) (rest : List Act) (v0 : Str)
    (heof : teof.val = "EOF".toList) (htv : tv.val = idLine.val) (hnl : ∀ l ∈ ls1 ++ ls2, NoNL l)
    (hclosed : FState.handle { fs := σ.fs, handles := σ.handles } n = none) (hlong : nameTooLong n = false)
    (hnode : FState.node { fs := σ.fs, handles := σ.handles } n = none ∨
      ∃ c, FState.node { fs := σ.fs, handles := σ.handles } n = some (.file c))
    (hpar : parentOk { fs := σ.fs, handles := σ.handles } n = true)
    (hacts : σ.acts = a :: rest) (hsw : a.switchTok = none) (hd : σ.depth + 1 ≤ σ.depthLimit)
    (hline : HasVar a idLine.val .str (.str v0))
    (hb : σ.steps + (4 * (ls1.length + ls2.length) + 7) ≤ σ.stepLimit) :
    ∃ σ' : St,
      (runBlock (f + 2 * (ls1.length + ls2.length) + 17)
          (writeSession t n ls1 ++ C15_appendSession t n ls2 ++
            [.openFile t (.strLit t n) .read, C15_outputLoop tw tnot teof tn1 tr tn2 idLine to tacc tv n])).run.run σ =
        (.ok ⟨⟩, σ') ∧
      σ'.output = σ.output ++ joinLines ls1 ++ joinLines ls2 ∧
      FState.node { fs := σ'.fs, handles := σ'.handles } n = some (.file (joinLines ls1 ++ joinLines ls2)) ∧
      σ'.steps = σ.steps + (4 * (ls1.length + ls2.length) + 7) ∧
      σ'.acts = setVar a idLine.val (.str ((ls1 ++ ls2).getLastD v0)) :: rest := by
  obtain ⟨s1, hs1, hn1, hh1⟩ := fsteps_write_session { fs := σ.fs, handles := σ.handles } n ls1 hclosed hlong hnode hpar
  have hcl1 : s1.handle n = none := by rw [handle_of_handles_eq _ s1 n hh1]; exact hclosed
  obtain ⟨s2, hs2, hn2, hh2⟩ := C15_fsteps_append_session s1 n ls2 (joinLines ls1) hcl1 hlong hn1
  have hcl2 : s2.handle n = none := by rw [handle_of_handles_eq _ s2 n hh2]; exact hcl1
  have hopen := fstep_open_read s2 n _ hcl2 hn2 hlong
  let s3 : FState := { s2 with handles := s2.handles ++ [{ name := n, mode := .read, rest := joinLines ls1 ++ joinLines ls2 }] }
  let ops : List FOp := (FOp.open n .write :: ls1.map (FOp.write n) ++ [FOp.close n]) ++
    ((FOp.open n .append :: ls2.map (FOp.write n) ++ [FOp.close n]) ++ [FOp.open n .read])
  have hsteps : fsteps (fileSt σ) ops = .ok s3 := by
    show fsteps (fileSt σ) (_ ++ _) = _
    rw [fsteps_append]
    have : fsteps (fileSt σ) (FOp.open n .write :: ls1.map (FOp.write n) ++ [FOp.close n]) = .ok s1 := hs1
    rw [this]
    show fsteps s1 (_ ++ _) = _
    rw [fsteps_append, hs2]
    simp only [fsteps, hopen]
    rfl
  have hops : ∀ op ∈ ops, IsLitOp op := by
    intro op hop
    simp only [ops, List.cons_append, List.mem_cons, List.mem_append, List.mem_map, List.mem_nil_iff, or_false] at hop
    rcases hop with rfl | (⟨l, _, rfl⟩ | rfl) | rfl | (⟨l, _, rfl⟩ | rfl) | rfl <;> exact trivial
  have hlen : ops.length = ls1.length + ls2.length + 5 := by simp [ops]; omega
  have hblock : ops.map (litStmt t) ++ [C15_outputLoop tw tnot teof tn1 tr tn2 idLine to tacc tv n] =
      writeSession t n ls1 ++ C15_appendSession t n ls2 ++
        [.openFile t (.strLit t n) .read, C15_outputLoop tw tnot teof tn1 tr tn2 idLine to tacc tv n] := by
    simp [ops, writeSession, C15_appendSession, litStmt, Function.comp_def]
  have hrun := run_litBlock_append (f + (ls1.length + ls2.length) + 9) t
    [C15_outputLoop tw tnot teof tn1 tr tn2 idLine to tacc tv n] ops σ s3 hops (by rw [hlen]; omega) hsteps
  rw [hlen, hblock] at hrun
  let σ2 : St := afterSteps σ (ls1.length + ls2.length + 5) s3
  have hh3 : FState.handle { fs := σ2.fs, handles := σ2.handles } n =
      some { name := n, mode := .read, rest := joinLines ls1 ++ joinLines ls2 } :=
    handle_append_new s2.handles n _ rfl hcl2
  have hlen2 : (ls1 ++ ls2).length = ls1.length + ls2.length := List.length_append
  obtain ⟨σ', hloop, hσ', hout, hfs, _⟩ :=
    C15_exec_read_loop_output (f + (ls1.length + ls2.length) + 11) tw tnot teof tn1 tr tn2 idLine to tacc tv n (ls1 ++ ls2)
      σ2 a rest _ v0 (by rw [hlen2]; omega) heof htv hnl hacts hsw hd hline hh3 rfl (C15_joinLines_append ls1 ls2).symm
      (by rw [hlen2]; show σ.steps + (ls1.length + ls2.length + 5) + _ ≤ σ.stepLimit; omega)
  refine ⟨σ', ?_, ?_, ?_, ?_, ?_⟩
  · have e : f + 2 * (ls1.length + ls2.length) + 17 =
        f + (ls1.length + ls2.length) + 9 + (ls1.length + ls2.length + 5) + 3 := by omega
    rw [e, hrun]
    show (runBlock ((f + (ls1.length + ls2.length) + 11) + 1) [_]).run.run σ2 = _
    rw [run_runBlock_cons _ _ _ _ _ hloop]
    exact run_runBlock_nil _ _
  · rw [hout, C15_joinLines_append, ← List.append_assoc]; rfl
  · rw [hfs]; exact hn2
  · rw [hσ', hlen2]
    show σ.steps + (ls1.length + ls2.length + 5) + (3 * (ls1.length + ls2.length) + 2) = _
    omega
  · rw [hσ']

/-! ## 5. non-vacuity: concrete states and programs (computed by the kernel, and from the theorems) -/

namespace C15FilesEx
open C15ExecEx

def gn : Str := "g.txt".toList
def tq : Tok := ⟨.IDENTIFIER, 9, 1, []⟩
def idL : Tok := ⟨.IDENTIFIER, 2, 21, "line".toList⟩
def tEof : Tok := ⟨.IDENTIFIER, 1, 11, "EOF".toList⟩

/-! ### `line`, `cnt` global, the loop inside a procedure `P` -/

def procAct : Act := { id := 1, name := "P".toList }
/-- the stack `[P, Program]`; `line = "old"`, `cnt = 40` live in `Program`; `f.txt` ("ab", "", "c") is open FOR READ -/
def stG : St := { st0 with acts := [procAct, act0], nextId := 2 }

theorem reads3 : Reads "ab\n\nc\n".toList lines3 := reads_joinLines lines3 (by decide)

/-- by the theorem: the GLOBAL variables end up as `line = "c"`, `cnt = 43` -/
theorem global_by_theorem : ∃ σ', (execStmt 14 countLoop).run.run stG = (.ok .none, σ') ∧
    readLocP σ' (curLoc act0 "line".toList) = .ok (.str "c".toList) ∧
    readLocP σ' (curLoc act0 "cnt".toList) = .ok (.int 43) := by
  obtain ⟨σ', h1, _, h3, h4, _⟩ := C15_files_loop_global_var 14 ⟨.WHILE, 1, 1, []⟩ ⟨.NOT, 1, 7, []⟩ tEof ⟨.STRING, 1, 15, fn⟩
    ⟨.READFILE, 2, 3, []⟩ ⟨.STRING, 2, 12, fn⟩ idL ⟨.ASSIGNMENT, 3, 8, []⟩ ⟨.IDENTIFIER, 3, 3, "cnt".toList⟩ ⟨.PLUS, 3, 14, []⟩
    ⟨.IDENTIFIER, 3, 10, "cnt".toList⟩ ⟨.IDENTIFIER, 3, 10, "cnt".toList⟩ ⟨.INTEGER, 3, 16, ['1']⟩ fn _ lines3 stG procAct act0 []
    "old".toList 40 hd0 (by decide) rfl rfl reads3 rfl rfl rfl (by decide) rfl rfl (by decide) hline0 hcnt0 rfl rfl rfl
    (by decide) (by decide) (by decide)
  exact ⟨σ', h1, h3, h4⟩

/-- by the kernel, from the model -/
example : isNone ((execStmt 14 countLoop).run.run stG).1 = true ∧
    (match readLocP ((execStmt 14 countLoop).run.run stG).2 (curLoc act0 "cnt".toList) with | .ok (.int i) => i | _ => -1) = 43 ∧
    (match readLocP ((execStmt 14 countLoop).run.run stG).2 (curLoc act0 "line".toList) with
      | .ok (.str l) => l | _ => []) = "c".toList ∧
    ((execStmt 14 countLoop).run.run stG).2.steps = 11 := by decide +kernel

/-! ### `line` a BYREF formal of `P` standing for the caller's `line` -/

def brSlot : Slot := { name := "line".toList, ty := .str, val := .str [], ref := some (curLoc act0 "line".toList) }
def brAct : Act := { id := 1, name := "P".toList, vars := [brSlot] }
def stB : St := { st0 with acts := [brAct, act0], nextId := 2 }

theorem byref_by_theorem : ∃ σ', (execStmt 14 outputLoop).run.run stB = (.ok .none, σ') ∧
    σ'.output = "xab\n\nc\n".toList ∧ readLocP σ' (curLoc act0 "line".toList) = .ok (.str "c".toList) := by
  obtain ⟨σ', h1, _, h3, h4⟩ := C15_files_loop_byref_var 14 ⟨.WHILE, 1, 1, []⟩ ⟨.NOT, 1, 7, []⟩ tEof ⟨.STRING, 1, 15, fn⟩
    ⟨.READFILE, 2, 3, []⟩ ⟨.STRING, 2, 12, fn⟩ idL ⟨.OUTPUT, 3, 3, []⟩ ⟨.IDENTIFIER, 3, 10, "line".toList⟩
    ⟨.IDENTIFIER, 3, 10, "line".toList⟩ fn _ lines3 stB brAct act0 [act0] brSlot "line".toList "old".toList hd0 (by decide) rfl rfl
    reads3 rfl rfl (by decide) rfl rfl rfl rfl hline0 rfl rfl rfl (by decide)
  refine ⟨σ', h1, ?_, h4⟩
  rw [h3]; decide

example : ((execStmt 14 outputLoop).run.run stB).2.output = "xab\n\nc\n".toList ∧
    (match readLocP ((execStmt 14 outputLoop).run.run stB).2 (curLoc act0 "line".toList) with
      | .ok (.str l) => l | _ => []) = "c".toList := by decide +kernel

/-! ### copying `f.txt` (last line without a line break) to `g.txt` -/

def hdW : Handle := { name := gn, mode := .write }
def st2 : St :=
  { st0 with fs := [(fn, .file "ab\n\nc".toList), (gn, .file [])], handles := [{ hd0 with rest := "ab\n\nc".toList }, hdW] }
def copyLoop : Stmt := C15_copyLoop tq tq tEof tq tq tq idL tq tq tq ⟨.IDENTIFIER, 3, 10, "line".toList⟩ fn gn

theorem core2 : Core st2 fn "line".toList (curLoc act0 "line".toList) "old".toList { hd0 with rest := "ab\n\nc".toList } :=
  ⟨⟨act0, [], rfl, rfl⟩, by decide, Tgt.of_cur rfl hline0, rfl, rfl⟩

theorem copy_by_theorem : ∃ σ', (runBlock 16 [copyLoop, .closeFile tq (.strLit tq gn)]).run.run st2 = (.ok ⟨⟩, σ') ∧
    FState.node { fs := σ'.fs, handles := σ'.handles } gn = some (.file "ab\n\nc\n".toList) := by
  obtain ⟨σ', h1, h2⟩ := C15_files_two_files_last_line 0 tq tq tEof tq tq tq idL tq tq tq ⟨.IDENTIFIER, 3, 10, "line".toList⟩ tq tq
    fn gn ["ab".toList, []] "c".toList st2 _ "old".toList _ hdW [] rfl rfl (by decide) (by decide) (by decide) core2 rfl rfl
    (Or.inl rfl) rfl (by decide)
  refine ⟨σ', h1, ?_⟩
  rw [h2]; rfl

example : (FState.node (fileSt ((runBlock 16 [copyLoop, .closeFile tq (.strLit tq gn)]).run.run st2).2) gn ==
    some (.file "ab\n\nc\n".toList)) = true := by decide +kernel

/-! ### WRITEFILE with payloads of several types on an APPEND handle -/

def hdA : Handle := { name := fn, mode := .append }
def stA : St := { st0 with fs := [(fn, .file "x\n".toList)], handles := [hdA] }
def itemsA : List (Expr × Val × Str) :=
  [(.strLit tq "ab".toList, .str "ab".toList, "ab".toList), (.intLit tq (-7), .int (-7), intToStr (-7)),
   (.boolLit tq true, .bool true, "TRUE".toList), (.charLit tq 'c', .chr 'c', "c".toList),
   (.access tq (.var ⟨.IDENTIFIER, 1, 1, "line".toList⟩), .str "old".toList, "old".toList)]

theorem itemsA_ok : ∀ it ∈ itemsA, C15_PureFS stA 2 it.1 it.2.1 ∧ writeTextP it.2.1 = .ok it.2.2 := by
  intro it hit
  simp only [itemsA, List.mem_cons, List.mem_nil_iff, or_false] at hit
  have mono : ∀ e v, C15_PureFS stA 1 e v → C15_PureFS stA 2 e v := fun e v h f k s' hf => h f k s' (by omega)
  rcases hit with rfl | rfl | rfl | rfl | rfl
  · exact ⟨mono _ _ (C15_pureFS_strLit _ _ _), rfl⟩
  · exact ⟨mono _ _ (C15_pureFS_intLit _ _ _), rfl⟩
  · exact ⟨mono _ _ (C15_pureFS_boolLit _ _ _), rfl⟩
  · exact ⟨mono _ _ (C15_pureFS_charLit _ _ _), rfl⟩
  · exact ⟨C15_pureFS_var stA _ _ .str _ _ (Tgt.of_cur (a := act0) (rest := []) rfl hline0), rfl⟩

theorem write_by_theorem : ∃ s' : FState,
    (runBlock 9 (itemsA.map (fun it => Stmt.writeFile tq (.strLit tq fn) it.1))).run.run stA =
      (.ok ⟨⟩, { stA with steps := stA.steps + 5, fs := s'.fs, handles := s'.handles }) ∧
    FState.node s' fn = some (.file ("x\n".toList ++ joinLines (itemsA.map (·.2.2)))) := by
  obtain ⟨s', _, h2, _, h4, _⟩ := C15_files_write_lines 0 2 tq tq fn itemsA stA hdA "x\n".toList itemsA_ok rfl (Or.inr rfl) rfl
    (by decide)
  exact ⟨s', h2, h4⟩

example : (FState.node (fileSt ((runBlock 9 (itemsA.map (fun it => Stmt.writeFile tq (.strLit tq fn) it.1))).run.run stA).2) fn ==
    some (.file "x\nab\n-7\nTRUE\nc\nold\n".toList)) = true := by decide +kernel

/-! ### WRITE session, APPEND session, reading loop -/

def progA : Block :=
  writeSession tW fn ["ab".toList, []] ++ C15_appendSession tW fn ["c".toList] ++ [.openFile tW (.strLit tW fn) .read, outputLoop]

theorem append_by_theorem : ∃ σ', (runBlock 23 progA).run.run stW = (.ok ⟨⟩, σ') ∧ σ'.output = "xab\n\nc\n".toList ∧
    FState.node { fs := σ'.fs, handles := σ'.handles } fn = some (.file "ab\n\nc\n".toList) ∧ σ'.steps = 19 := by
  obtain ⟨σ', h1, h2, h3, h4, _⟩ := C15_files_append_then_read 0 tW ⟨.WHILE, 1, 1, []⟩ ⟨.NOT, 1, 7, []⟩ tEof ⟨.STRING, 1, 15, fn⟩
    ⟨.READFILE, 2, 3, []⟩ ⟨.STRING, 2, 12, fn⟩ idL ⟨.OUTPUT, 3, 3, []⟩ ⟨.IDENTIFIER, 3, 10, "line".toList⟩
    ⟨.IDENTIFIER, 3, 10, "line".toList⟩ fn ["ab".toList, []] ["c".toList] stW act0 [] "old".toList rfl rfl (by decide) (by decide)
    (by decide) (Or.inl (by decide)) (by decide) rfl rfl (by decide) hline0 (by decide)
  refine ⟨σ', h1, ?_, ?_, ?_⟩
  · rw [h2]; decide
  · rw [h3]; decide
  · rw [h4]; decide

example : ((runBlock 23 progA).run.run stW).2.output = "xab\n\nc\n".toList ∧ ((runBlock 23 progA).run.run stW).2.steps = 19 := by
  decide +kernel

end C15FilesEx

end Pseudo
