import PseudoProofs.AtomicLemmasStmt
import PseudoProofs.AtomicLemmasRec
import PseudoProofs.ArrayLemmas
import Properties.C12ReplFile
/-!
# C12 (last clause) — a failing atomic entry has no effect at all (runtime failures)

"A failing entry that is a single call-free assignment, one-name declaration, constant definition or file statement has no
effect at all, so the remainder of the session behaves as if it had never been made."

`Properties/C12.lean` covers the entries that fail in the lexer / parser. Here: the entries that parse and fail AT RUN TIME.

* `NoEffect σ σ'`: every component of the state that a later entry can observe is the same — the activations (all
  variables, constants, arrays, types, and also the call-site notes), the id counter, procedures, functions, file system,
  handle table (read positions, random-file records and cursor), unread standard input, mode flags and limits.
  Only three fields are free: `steps` and `depth` — exactly the two fields `replLoop` resets before it reads the next entry
  (`{ st0 with out := …, steps := 0, depth := 0 }` in `PseudoModel/Top.lean`) — and `out` (the stream the diagnostic's line
  break and the parser warnings go to). `NoEffect.next_entry`: the states from which the loop continues are equal up to `out`.
* statement level (`execStmt`, any fuel, any start state, any activation stack — not only the top level):
  `C12_atomic_assign`, `C12_atomic_constant`, `C12_atomic_declare`, `C12_atomic_declare_array`, `C12_atomic_file`.
  What actually changes is known exactly: `steps` (`SK`), nothing else — not even `out` or `depth`.
* entry level (`runSource`, the function `replLoop` calls for every entry): `C12_atomic_entry` (syntactic side condition
  `atomicStmt`), `C12_atomic_entry_gen` (any statement that satisfies the statement-level fact).
* `CallFree` is syntactic (`Expr.callFree`): no `call` node — built-in functions count as calls (in the model all built-ins
  but `EOF` are pure and `RAND` / the clock functions read no oracle state, but every call goes through `callFun`, which
  pushes an activation and so advances the id counter) — and no embedded assignment, index expressions included.
* FALSE of the model as literally stated, and recorded as such: `DECLARE x : R` for a RECORD type `R` whose body fails at
  declaration time leaves the id counter advanced (`C12_counterexample_record_declare_nextId`); the id counter only names future
  activations, no statement can read it, and the C++ has no counterpart (contexts are identified by address). Hence
  `C12_atomic_declare` (`NoEffect`, id counter included) is stated for types that are not record types (primitive, enumerated,
  pointer; also the unknown type, which is the failure `notDefined`), and `C12_atomic_declare_record` /
  `C12_atomic_declare_array_record` / `C12_atomic_entry_declare_record` cover EVERY type, record types included, with the
  relation `NoEffectIds` (= `NoEffect` with `nextId` allowed to grow), for sessions whose record bodies contain no function call
  in an array bound (`CompsOK`) — a call in a bound can have any effect before a later member fails.
* not covered here: that the rest of the session *behaves* the same from two states that differ in `out` only (the evaluator never
  reads `out`; a two-run simulation of that kind exists for the `repl` flag in `C12ReplFile`, not for `out` alone).
-/
namespace Pseudo
open FileStmt

/-- nothing a later entry can observe has changed (free: `steps`, `depth`, `out`) -/
structure NoEffect (σ σ' : St) : Prop where
  acts : σ'.acts = σ.acts
  nextId : σ'.nextId = σ.nextId
  procs : σ'.procs = σ.procs
  funs : σ'.funs = σ.funs
  fs : σ'.fs = σ.fs
  handles : σ'.handles = σ.handles
  stdin : σ'.stdin = σ.stdin
  stdinEof : σ'.stdinEof = σ.stdinEof
  pedantic : σ'.pedantic = σ.pedantic
  repl : σ'.repl = σ.repl
  stepLimit : σ'.stepLimit = σ.stepLimit
  depthLimit : σ'.depthLimit = σ.depthLimit

theorem NoEffect.refl (σ : St) : NoEffect σ σ := ⟨rfl, rfl, rfl, rfl, rfl, rfl, rfl, rfl, rfl, rfl, rfl, rfl⟩

theorem NoEffect.trans {a b c : St} (h1 : NoEffect a b) (h2 : NoEffect b c) : NoEffect a c :=
  ⟨h2.acts.trans h1.acts, h2.nextId.trans h1.nextId, h2.procs.trans h1.procs, h2.funs.trans h1.funs, h2.fs.trans h1.fs,
   h2.handles.trans h1.handles, h2.stdin.trans h1.stdin, h2.stdinEof.trans h1.stdinEof, h2.pedantic.trans h1.pedantic,
   h2.repl.trans h1.repl, h2.stepLimit.trans h1.stepLimit, h2.depthLimit.trans h1.depthLimit⟩

theorem NoEffect.of_SK {σ σ' : St} (h : SK σ σ') : NoEffect σ σ' := by
  obtain ⟨n, rfl⟩ := h
  exact ⟨rfl, rfl, rfl, rfl, rfl, rfl, rfl, rfl, rfl, rfl, rfl, rfl⟩

/-- the free fields are exactly those the REPL loop overwrites before the next entry: the states from which the loop goes
    on (`replLoop` builds `{ st with out := …, steps := 0, depth := 0 }`) coincide as soon as they are given the same `out` -/
theorem NoEffect.next_entry {σ σ' : St} (h : NoEffect σ σ') (o : List Str) :
    ({ σ' with out := o, steps := 0, depth := 0 } : St) = { σ with out := o, steps := 0, depth := 0 } := by
  obtain ⟨h1, h2, h3, h4, h5, h6, h7, h8, h9, h10, h11, h12⟩ := h
  cases σ; cases σ'
  simp only at h1 h2 h3 h4 h5 h6 h7 h8 h9 h10 h11 h12
  subst h1 h2 h3 h4 h5 h6 h7 h8 h9 h10 h11 h12
  rfl

/-- from the relational form used in the helper files to the form "result is an error ⟹ final state" -/
theorem noEffect_of_stmtNE {P : Stop → Prop} {f : Nat} {s : Stmt} {σ : St} (h : StmtNEAt P f s σ) (e : Stop) (hP : P e)
    (he : ((execStmt f s).run.run σ).1 = .error e) : NoEffect σ ((execStmt f s).run.run σ).2 :=
  .of_SK (h e _ hP (Prod.ext he rfl))

/-! ## statement level -/

/-- **C12 (atomic assignment).** `r <- rhs` with a call-free target reference and a call-free right-hand side: if the
    statement ends with ANY exception `e` (runtime diagnostic — type mismatch, constant target, undefined name, index out of
    bounds, division by zero, whole-array mismatch, step budget … — but also a crash point of the model or fuel exhaustion), the
    final state is the start state up to `steps`. Includes the auto-declaring form `x <- rhs` for an undeclared `x`: when `rhs`
    fails nothing is declared. Hypotheses: `callFree` of both sides (a call may have effects before the failure) — nothing else. -/
theorem C12_atomic_assign (f : Nat) (t : Tok) (r : Ref) (rhs : Expr) (hr : r.callFree = true) (hrhs : rhs.callFree = true)
    (σ : St) (e : Stop) (he : ((execStmt f (.expr (.assign t r rhs))).run.run σ).1 = .error e) :
    NoEffect σ ((execStmt f (.expr (.assign t r rhs))).run.run σ).2 :=
  noEffect_of_stmtNE (P := fun _ => True) (stmtNE_assign f t r rhs hr hrhs) e trivial he

/-- **C12 (atomic constant definition).** `CONSTANT name = e` with call-free `e` (the parser only accepts literals): if it ends
    with any exception (redefinition of the name, step budget, …) the final state is the start state up to `steps`. -/
theorem C12_atomic_constant (f : Nat) (t name : Tok) (ex : Expr) (hex : ex.callFree = true)
    (σ : St) (e : Stop) (he : ((execStmt f (.const t name ex)).run.run σ).1 = .error e) :
    NoEffect σ ((execStmt f (.const t name ex)).run.run σ).2 :=
  noEffect_of_stmtNE (P := fun _ => True) (stmtNE_const f t name ex hex) e trivial he

/-- **C12 (atomic declaration, one name).** `DECLARE id : T` where `T` does not resolve to a RECORD type (`hty`, in the state
    after the statement has been counted — type lookup does not read `steps`): primitive types, enumerated and pointer types,
    and names that are no type at all. If the statement ends with a diagnostic or a control signal (`Soft`: everything but a
    crash point of the model / fuel exhaustion of the model — fuel may run out after the variable has been added), the final state
    is the start state up to `steps`: redeclaration, name clash with a type, unknown type, step budget.
    For RECORD types the statement is false as it stands (see `C12_counterexample_record_declare_nextId`); what holds for them
    is `C12_atomic_declare_record`. -/
theorem C12_atomic_declare (f : Nat) (t id ty : Tok) (σ : St)
    (hty : ∀ n, ((getType ty).run.run (tickSt σ)).1 ≠ .ok (.comp n))
    (e : Stop) (hS : Soft e) (he : ((execStmt f (.declare t [id] ty)).run.run σ).1 = .error e) :
    NoEffect σ ((execStmt f (.declare t [id] ty)).run.run σ).2 :=
  noEffect_of_stmtNE (stmtNE_declare f t id ty hty) e hS he

/-- the same for a primitive type name (`INTEGER`, `REAL`, `BOOLEAN`, `CHAR`, `STRING`, `DATE`): no hypothesis on the state -/
theorem C12_atomic_declare_primitive (f : Nat) (t id ty : Tok) (σ : St) (hk : ty.k = .DATA_TYPE)
    (e : Stop) (hS : Soft e) (he : ((execStmt f (.declare t [id] ty)).run.run σ).1 = .error e) :
    NoEffect σ ((execStmt f (.declare t [id] ty)).run.run σ).2 :=
  C12_atomic_declare f t id ty σ
    (fun n h => by rw [ArrayLemmas.run_getType_data _ _ _ hk] at h; exact ArrayLemmas.dataTy_ne_comp _ _ (Except.ok.inj h)) e hS he

/-- **C12 (atomic array declaration, one name).** `DECLARE id : ARRAY[bounds] OF T` with call-free bound expressions
    (literals, variables, arithmetic) and `T` not a RECORD type: failing with a diagnostic (redeclaration, non-integer or
    inverted bounds, unknown type, more than 1000000 cells, an error inside a bound expression, step budget) leaves the start
    state up to `steps`. -/
theorem C12_atomic_declare_array (f : Nat) (t id ty : Tok) (bounds : List (Expr × Expr)) (σ : St)
    (hb : boundsCallFree bounds = true) (hty : ∀ n, ((getType ty).run.run (tickSt σ)).1 ≠ .ok (.comp n))
    (e : Stop) (hS : Soft e) (he : ((execStmt f (.declareArr t [id] ty bounds)).run.run σ).1 = .error e) :
    NoEffect σ ((execStmt f (.declareArr t [id] ty bounds)).run.run σ).2 :=
  noEffect_of_stmtNE (stmtNE_declareArr f t id ty bounds hb hty) e hS he

/-- **C12 (atomic file statements).** Each of the seven file statements with a call-free file-name expression (a literal in
    particular), a call-free payload (WRITEFILE) / address (SEEK) and a plain variable name (READFILE, GETRECORD, PUTRECORD —
    that is all the syntax allows): if it ends with a diagnostic (file not open / already open / wrong mode / cannot be
    opened / address out of range / no record under the cursor / record does not decode / variable undefined, of pointer type,
    constant or not a STRING / payload not printable / step budget), the final state is the start state up to `steps`:
    file system, handle table (read position, records, cursor), variables — READFILE does not create its variable, GETRECORD
    does not touch its target. `Soft` excludes crash points of the model only (READFILE into a BYREF alias whose target has
    disappeared advances the read position and then stops at the crash point). -/
theorem C12_atomic_file (f : Nat) (t : Tok) (fn ex : Expr) (id : Tok) (mode : FileMode) (σ : St)
    (hfn : fn.callFree = true) (hex : ex.callFree = true) :
    ∀ s ∈ [Stmt.openFile t fn mode, .readFile t fn id, .writeFile t fn ex, .closeFile t fn, .seek t fn ex,
            .getRecord t fn id, .putRecord t fn id],
      ∀ e, Soft e → ((execStmt f s).run.run σ).1 = .error e → NoEffect σ ((execStmt f s).run.run σ).2 := by
  intro s hs e hS he
  simp only [List.mem_cons, List.mem_nil_iff, or_false] at hs
  rcases hs with rfl | rfl | rfl | rfl | rfl | rfl | rfl
  · exact noEffect_of_stmtNE (stmtNE_openFile f t fn mode hfn) e hS he
  · exact noEffect_of_stmtNE (stmtNE_readFile f t fn id hfn) e hS he
  · exact noEffect_of_stmtNE (stmtNE_writeFile f t fn ex hfn hex) e hS he
  · exact noEffect_of_stmtNE (stmtNE_closeFile f t fn hfn) e hS he
  · exact noEffect_of_stmtNE (stmtNE_seek f t fn ex hfn hex) e hS he
  · exact noEffect_of_stmtNE (stmtNE_getRecord f t fn id hfn) e hS he
  · exact noEffect_of_stmtNE (stmtNE_putRecord f t fn id hfn) e hS he

/-- the exact form: what a failing atomic statement leaves is the start state with another step count — `out`, `depth`
    included (instance for the assignment; the other statements have the same fact in `PseudoProofs/AtomicLemmasStmt.lean`,
    `stmtNE_*`) -/
theorem C12_atomic_assign_exact (f : Nat) (t : Tok) (r : Ref) (rhs : Expr) (hr : r.callFree = true) (hrhs : rhs.callFree = true)
    (σ : St) (e : Stop) (he : ((execStmt f (.expr (.assign t r rhs))).run.run σ).1 = .error e) :
    ∃ n, ((execStmt f (.expr (.assign t r rhs))).run.run σ).2 = { σ with steps := n } :=
  stmtNE_assign (P := fun _ => True) f t r rhs hr hrhs e _ trivial (Prod.ext he rfl)

/-! ## entry level -/

/-- the syntactic class of atomic statements (the record-type / user-type declarations need a look at the state and are
    covered by `C12_atomic_entry_gen`) -/
def atomicStmt : Stmt → Bool
  | .expr (.assign _ r rhs) => r.callFree && rhs.callFree
  | .const _ _ e => e.callFree
  | .declare _ [_] ty => ty.k == .DATA_TYPE
  | .declareArr _ [_] ty bounds => ty.k == .DATA_TYPE && boundsCallFree bounds
  | .openFile _ fn _ => fn.callFree
  | .readFile _ fn _ => fn.callFree
  | .writeFile _ fn e => fn.callFree && e.callFree
  | .closeFile _ fn => fn.callFree
  | .seek _ fn a => fn.callFree && a.callFree
  | .getRecord _ fn _ => fn.callFree
  | .putRecord _ fn _ => fn.callFree
  | _ => false

theorem getType_data_ne_comp (ty : Tok) (hk : ty.k = .DATA_TYPE) (σ : St) (n : Str) :
    ((getType ty).run.run σ).1 ≠ .ok (.comp n) := by
  intro h
  rw [ArrayLemmas.run_getType_data _ _ _ hk] at h
  exact ArrayLemmas.dataTy_ne_comp _ _ (Except.ok.inj h)

theorem stmtNE_atomic (s : Stmt) (h : atomicStmt s = true) (f : Nat) (σ : St) : StmtNEAt Soft f s σ := by
  cases s with
  | expr e =>
    cases e with
    | assign t r rhs =>
      have ⟨h1, h2⟩ : r.callFree = true ∧ rhs.callFree = true := by simpa [atomicStmt] using h
      exact stmtNE_assign f t r rhs h1 h2
    | _ => cases h
  | const t n e => exact stmtNE_const f t n e h
  | declare t ids ty =>
    cases ids with
    | nil => cases h
    | cons id rest =>
      cases rest with
      | cons _ _ => cases h
      | nil =>
        have hk : ty.k = .DATA_TYPE := by simpa [atomicStmt] using h
        exact stmtNE_declare f t id ty (getType_data_ne_comp ty hk _)
  | declareArr t ids ty bounds =>
    cases ids with
    | nil => cases h
    | cons id rest =>
      cases rest with
      | cons _ _ => cases h
      | nil =>
        have ⟨hk, hb⟩ : ty.k = .DATA_TYPE ∧ boundsCallFree bounds = true := by simpa [atomicStmt] using h
        exact stmtNE_declareArr f t id ty bounds hb (getType_data_ne_comp ty hk _)
  | openFile t fn m => exact stmtNE_openFile f t fn m h
  | readFile t fn id => exact stmtNE_readFile f t fn id h
  | writeFile t fn e =>
    have ⟨h1, h2⟩ : fn.callFree = true ∧ e.callFree = true := by simpa [atomicStmt] using h
    exact stmtNE_writeFile f t fn e h1 h2
  | closeFile t fn => exact stmtNE_closeFile f t fn h
  | seek t fn a =>
    have ⟨h1, h2⟩ : fn.callFree = true ∧ a.callFree = true := by simpa [atomicStmt] using h
    exact stmtNE_seek f t fn a h1 h2
  | getRecord t fn id => exact stmtNE_getRecord f t fn id h
  | putRecord t fn id => exact stmtNE_putRecord f t fn id h
  | _ => cases h

/-- **C12 (atomic statements, uniformly).** Every statement of the syntactic class `atomicStmt`, at any fuel, from any
    state: ending with a diagnostic (or control signal) means ending in the start state up to `steps`. -/
theorem C12_atomic_statement (s : Stmt) (hat : atomicStmt s = true) (f : Nat) (σ : St) (e : Stop) (hS : Soft e)
    (he : ((execStmt f s).run.run σ).1 = .error e) : NoEffect σ ((execStmt f s).run.run σ).2 :=
  noEffect_of_stmtNE (stmtNE_atomic s hat f σ) e hS he

/-- after the statement of a one-statement entry has ended normally, the entry does not end with a diagnostic: the echo and
    the end of the block end normally, at an echo crash point or (model) out of fuel -/
theorem entry_tail_not_diag (g : Nat) (v : Val) (σ2 : St) :
    ∃ r σ3, (if σ2.repl = true then (do replEcho v; runBlock g []) else runBlock g [] : M Unit).run.run σ2 = (r, σ3) ∧
      (r = .ok ⟨⟩ ∨ r = .error .outOfFuel ∨ ∃ p, r = .error (.crash p)) := by
  have hnil : ∀ σ, ∃ r, (runBlock g []).run.run σ = (r, σ) ∧ (r = .ok ⟨⟩ ∨ r = .error .outOfFuel) := by
    intro σ
    cases g with
    | zero => rw [runBlock_zero]; exact ⟨_, rfl, Or.inr rfl⟩
    | succ g => rw [runBlock_nil]; exact ⟨_, rfl, Or.inl rfl⟩
  split
  · obtain ⟨a, r0, hr0, he0⟩ := C12Echo.echo_replEcho v σ2
    cases r0 with
    | error e0 =>
      obtain ⟨p, _, rfl⟩ := he0 e0 rfl
      exact ⟨_, _, run_bind_err _ _ _ _ _ hr0, Or.inr (Or.inr ⟨p, rfl⟩)⟩
    | ok u =>
      obtain ⟨r, hr, hcase⟩ := hnil { σ2 with out := a ++ σ2.out }
      refine ⟨r, { σ2 with out := a ++ σ2.out }, ?_, ?_⟩
      · rw [run_bind_ok _ _ _ _ _ hr0]; exact hr
      · rcases hcase with h | h
        · exact Or.inl h
        · exact Or.inr (Or.inl h)
  · obtain ⟨r, hr, hcase⟩ := hnil σ2
    refine ⟨r, σ2, hr, ?_⟩
    rcases hcase with h | h
    · exact Or.inl h
    · exact Or.inr (Or.inl h)

/-- a one-statement program that ends with a diagnostic: the statement itself failed, and the final state is the one it left -/
theorem runOn_single_diag {R : St → St → Prop} (g : Nat) (s : Stmt) (σ1 σ' : St) (d : Diag)
    (hs : ∀ e σ', Soft e → (execStmt g s).run.run σ1 = (.error e, σ') → R σ1 σ')
    (h : runOn (g+1) [s] σ1 = (.diag d, σ')) : R σ1 σ' := by
  unfold runOn at h
  rw [runMain_eq, run_tryCatch, runBlock_cons] at h
  rcases hx : (execStmt g s).run.run σ1 with ⟨e | v, σ2⟩
  · rw [run_bind_err _ _ _ _ _ hx] at h
    dsimp only at h
    cases e with
    | diag d0 =>
      have hm : (mainHandler (.diag d0)).run.run σ2 = (.error (.diag d0), σ2) := rfl
      rw [hm] at h
      cases h
      refine hs _ _ ?_ hx
      trivial
    | brk t0 =>
      have hm : (mainHandler (.brk t0)).run.run σ2 = _ := run_rtErr t0 .breakOutside σ2
      rw [hm] at h
      cases h
      refine hs _ _ ?_ hx
      trivial
    | cont t0 =>
      have hm : (mainHandler (.cont t0)).run.run σ2 = _ := run_rtErr t0 .breakOutside σ2
      rw [hm] at h
      cases h
      refine hs _ _ ?_ hx
      trivial
    | ret =>
      have hm : (mainHandler .ret).run.run σ2 = (.error (.crash .other), σ2) := rfl
      rw [hm] at h
      cases h
    | crash p =>
      have hm : (mainHandler (.crash p)).run.run σ2 = (.error (.crash p), σ2) := rfl
      rw [hm] at h
      cases h
    | outOfFuel =>
      have hm : (mainHandler .outOfFuel).run.run σ2 = (.error .outOfFuel, σ2) := rfl
      rw [hm] at h
      cases h
  · rw [run_bind_ok _ _ _ _ _ hx, run_bind_ok _ _ _ _ _ (run_get σ2)] at h
    dsimp only at h
    obtain ⟨r, σ3, hr, hcase⟩ := entry_tail_not_diag g v σ2
    rw [hr] at h
    rcases hcase with rfl | rfl | ⟨p, rfl⟩
    · cases h
    · have hm : (mainHandler .outOfFuel).run.run σ3 = (.error .outOfFuel, σ3) := rfl
      dsimp only at h
      rw [hm] at h
      cases h
    · have hm : (mainHandler (.crash p)).run.run σ3 = (.error (.crash p), σ3) := rfl
      dsimp only at h
      rw [hm] at h
      cases h

/-- a one-statement entry that ends with a diagnostic: the statement ran in `σ` with the parser's warnings printed and failed
    there; afterwards only the line break before the diagnostic was printed -/
theorem entry_run_eq {R : St → St → Prop} (cfg : Cfg) (src : Str) (σ σ' : St) (d : Diag) (toks : List Tok) (s : Stmt) (warns : List Tok)
    (hl : lex { pedantic := cfg.pedantic } src = .ok toks) (hp : parse { pedantic := cfg.pedantic } toks = .ok ([s], warns))
    (hs : ∀ g e σ2, Soft e →
      (execStmt g s).run.run { σ with out := (warns.map warningText).reverse ++ σ.out } = (.error e, σ2) →
      R { σ with out := (warns.map warningText).reverse ++ σ.out } σ2)
    (h : runSource cfg src σ = (.diag d, σ')) :
    ∃ σ2, R { σ with out := (warns.map warningText).reverse ++ σ.out } σ2 ∧ σ' = { σ2 with out := ['\n'] :: σ2.out } := by
  unfold runSource at h
  rw [hl] at h
  simp only [hp] at h
  cases hf : cfg.fuel with
  | zero =>
    rw [hf] at h
    have : runOn 0 [s] { σ with out := (warns.map warningText).reverse ++ σ.out } =
        (.fuel, { σ with out := (warns.map warningText).reverse ++ σ.out }) := by
      unfold runOn
      rw [runMain_eq, run_tryCatch, runBlock_zero]
      rfl
    rw [this] at h
    cases h
  | succ g =>
    rw [hf] at h
    rcases hr : runOn (g+1) [s] { σ with out := (warns.map warningText).reverse ++ σ.out } with ⟨o, σ2⟩
    rw [hr] at h
    cases o with
    | diag d2 =>
      dsimp only at h
      cases h
      exact ⟨σ2, runOn_single_diag g s _ σ2 d (hs g) hr, rfl⟩
    | ok => cases h
    | crash p => cases h
    | fuel => cases h

/-- (equation form of `C12_atomic_entry_gen`, stated below) -/
theorem atomic_entry_gen_eq (cfg : Cfg) (src : Str) (σ σ' : St) (d : Diag) (toks : List Tok) (s : Stmt) (warns : List Tok)
    (hl : lex { pedantic := cfg.pedantic } src = .ok toks) (hp : parse { pedantic := cfg.pedantic } toks = .ok ([s], warns))
    (hs : ∀ g, StmtNEAt Soft g s { σ with out := (warns.map warningText).reverse ++ σ.out })
    (h : runSource cfg src σ = (.diag d, σ')) : NoEffect σ σ' := by
  obtain ⟨σ2, ⟨n, rfl⟩, rfl⟩ := entry_run_eq (R := SK) cfg src σ σ' d toks s warns hl hp (fun g => hs g) h
  exact ⟨rfl, rfl, rfl, rfl, rfl, rfl, rfl, rfl, rfl, rfl, rfl, rfl⟩

/-- what an entry text parses to, if it is exactly one statement -/
def entryStmt (cfg : Cfg) (src : Str) : Option (Stmt × List Tok) :=
  match lex { pedantic := cfg.pedantic } src with
  | .ok toks =>
    match parse { pedantic := cfg.pedantic } toks with
    | .ok ([s], warns) => some (s, warns)
    | _ => none
  | _ => none

theorem entryStmt_some {cfg : Cfg} {src : Str} {s : Stmt} {warns : List Tok} (hparse : entryStmt cfg src = some (s, warns)) :
    ∃ toks, lex { pedantic := cfg.pedantic } src = .ok toks ∧ parse { pedantic := cfg.pedantic } toks = .ok ([s], warns) := by
  unfold entryStmt at hparse
  cases hl : lex { pedantic := cfg.pedantic } src with
  | error d0 => rw [hl] at hparse; cases hparse
  | ok toks =>
    rw [hl] at hparse
    dsimp only at hparse
    cases hp : parse { pedantic := cfg.pedantic } toks with
    | error x => rw [hp] at hparse; cases hparse
    | ok q =>
      obtain ⟨b, w⟩ := q
      rw [hp] at hparse
      match b, hparse, hp with
      | [s0], hparse, hp =>
        dsimp only at hparse
        cases hparse
        exact ⟨toks, rfl, hp⟩
      | [], hparse, _ => cases hparse
      | _ :: _ :: _, hparse, _ => cases hparse

theorem entryStmt_map_some {cfg : Cfg} {src : Str} {p : Stmt → Bool} (h : (entryStmt cfg src).map (fun q => p q.1) = some true) :
    ∃ s warns, entryStmt cfg src = some (s, warns) ∧ p s = true := by
  cases hparse : entryStmt cfg src with
  | none => rw [hparse] at h; cases h
  | some q =>
    obtain ⟨s, warns⟩ := q
    rw [hparse] at h
    exact ⟨s, warns, rfl, Option.some.inj h⟩

/-- **C12 (a failing atomic entry).** An entry that parses to one atomic statement (`atomicStmt`: call-free assignment,
    CONSTANT, one-name DECLARE of a primitive type / of an array of a primitive type with call-free bounds, one of the seven
    file statements with call-free arguments) and ends with a diagnostic leaves the session state as it was: `NoEffect`.
    Together with `C12_failing_lex_no_effect` / `C12_failing_parse_no_effect` (Properties/C12.lean) every way such an entry can
    fail is covered. No hypothesis on the session state `σ`; `hat` is a decidable check of the entry text. -/
theorem C12_atomic_entry (cfg : Cfg) (src : Str) (σ : St) (d : Diag)
    (hat : (entryStmt cfg src).map (fun p => atomicStmt p.1) = some true)
    (h : (runSource cfg src σ).1 = .diag d) : NoEffect σ (runSource cfg src σ).2 := by
  obtain ⟨s, warns, hparse, hat'⟩ := entryStmt_map_some hat
  obtain ⟨toks, hl, hp⟩ := entryStmt_some hparse
  exact atomic_entry_gen_eq cfg src σ _ d toks s warns hl hp (fun g => stmtNE_atomic s hat' g _) (Prod.ext h rfl)

/-- **C12 (a failing atomic entry, general form)**: the same for ANY one-statement entry whose statement satisfies the
    statement-level fact `hs` in the state `runSource` starts it in (`σ` with the parser's warnings printed) — e.g. a DECLARE
    of an enumerated / pointer type (`stmtNE_declare`). -/
theorem C12_atomic_entry_gen (cfg : Cfg) (src : Str) (σ : St) (d : Diag) (toks : List Tok) (s : Stmt) (warns : List Tok)
    (hl : lex { pedantic := cfg.pedantic } src = .ok toks) (hp : parse { pedantic := cfg.pedantic } toks = .ok ([s], warns))
    (hs : ∀ g, StmtNEAt Soft g s { σ with out := (warns.map warningText).reverse ++ σ.out })
    (h : (runSource cfg src σ).1 = .diag d) : NoEffect σ (runSource cfg src σ).2 :=
  atomic_entry_gen_eq cfg src σ _ d toks s warns hl hp hs (Prod.ext h rfl)

/-! ## declarations of record types: no effect up to the id counter -/

/-- `NoEffect`, except that the id counter may have advanced. The id counter only supplies the numbers of FUTURE activations
    (`pushAct`); no statement can read it, and the C++ has no counterpart (contexts are identified by address). -/
structure NoEffectIds (σ σ' : St) : Prop where
  acts : σ'.acts = σ.acts
  nextId : σ.nextId ≤ σ'.nextId
  procs : σ'.procs = σ.procs
  funs : σ'.funs = σ.funs
  fs : σ'.fs = σ.fs
  handles : σ'.handles = σ.handles
  stdin : σ'.stdin = σ.stdin
  stdinEof : σ'.stdinEof = σ.stdinEof
  pedantic : σ'.pedantic = σ.pedantic
  repl : σ'.repl = σ.repl
  stepLimit : σ'.stepLimit = σ.stepLimit
  depthLimit : σ'.depthLimit = σ.depthLimit

theorem NoEffect.toIds {σ σ' : St} (h : NoEffect σ σ') : NoEffectIds σ σ' :=
  ⟨h.acts, Nat.le_of_eq h.nextId.symm, h.procs, h.funs, h.fs, h.handles, h.stdin, h.stdinEof, h.pedantic, h.repl, h.stepLimit,
   h.depthLimit⟩

theorem NoEffectIds.of_SKIO {σ σ' : St} (h : SKIO σ σ') : NoEffectIds σ σ' := by
  obtain ⟨n, k, o, rfl⟩ := h
  exact ⟨rfl, Nat.le_add_right _ _, rfl, rfl, rfl, rfl, rfl, rfl, rfl, rfl, rfl, rfl⟩

/-- a decidable form of `CompsOK` -/
def compsOKb (σ : St) : Bool := σ.acts.all fun a => a.comps.all fun p => declBody p.2

theorem compsOK_of_b {σ : St} (h : compsOKb σ = true) : CompsOK σ := by
  intro a ha p hp
  exact List.all_eq_true.mp (List.all_eq_true.mp h a ha) p hp

/-- **C12 (atomic declaration, any type — record types included).** `DECLARE id : T` in a state where every record type has a
    body made of declarations whose array bounds are call-free (`CompsOK`; the parser accepts only declarations in a TYPE body, the
    real restriction is "no function call in a bound"): if the statement ends with a diagnostic — at the top (redeclaration,
    unknown type) or INSIDE the record body, at any nesting depth (unknown member type, bad bounds, a member name declared twice,
    step budget) — the final state is the start state up to `steps`, `out` and the id counter, which may have advanced by the
    number of record bodies that were instantiated (`NoEffectIds`). Nothing of the half-built record survives. -/
theorem C12_atomic_declare_record (f : Nat) (t id ty : Tok) (σ : St) (hc : CompsOK σ)
    (e : Stop) (hS : Soft e) (he : ((execStmt f (.declare t [id] ty)).run.run σ).1 = .error e) :
    NoEffectIds σ ((execStmt f (.declare t [id] ty)).run.run σ).2 :=
  .of_SKIO (skio_declare f t id ty σ hc e _ hS (Prod.ext he rfl))

/-- the same for `DECLARE id : ARRAY[bounds] OF T` with call-free bounds and any element type -/
theorem C12_atomic_declare_array_record (f : Nat) (t id ty : Tok) (bounds : List (Expr × Expr)) (σ : St)
    (hb : boundsCallFree bounds = true) (hc : CompsOK σ)
    (e : Stop) (hS : Soft e) (he : ((execStmt f (.declareArr t [id] ty bounds)).run.run σ).1 = .error e) :
    NoEffectIds σ ((execStmt f (.declareArr t [id] ty bounds)).run.run σ).2 :=
  .of_SKIO (skio_declareArr f t id ty bounds hb σ hc e _ hS (Prod.ext he rfl))

/-- one-name declarations (scalar, or array with call-free bounds), whatever the type name -/
def declOne : Stmt → Bool
  | .declare _ [_] _ => true
  | .declareArr _ [_] _ bounds => boundsCallFree bounds
  | _ => false

/-- entry level: a one-name DECLARE entry (scalar or array with call-free bounds, ANY type) that ends with a diagnostic, in a
    session whose record types have declaration-only bodies with call-free bounds: `NoEffectIds` -/
theorem C12_atomic_entry_declare_record (cfg : Cfg) (src : Str) (σ : St) (d : Diag)
    (hat : (entryStmt cfg src).map (fun p => declOne p.1) = some true) (hc : CompsOK σ)
    (h : (runSource cfg src σ).1 = .diag d) : NoEffectIds σ (runSource cfg src σ).2 := by
  obtain ⟨s, warns, hparse, hs⟩ := entryStmt_map_some hat
  obtain ⟨toks, hl, hp⟩ := entryStmt_some hparse
  have hc' : CompsOK { σ with out := (warns.map warningText).reverse ++ σ.out } := hc
  have key : ∀ σ', runSource cfg src σ = (.diag d, σ') → NoEffectIds σ σ' := by
    intro σ' hrun
    obtain ⟨σ2, ⟨n, k, o, rfl⟩, rfl⟩ := entry_run_eq (R := SKIO) cfg src σ σ' d toks s warns hl hp (fun g e σ2 hS hr => by
      cases s with
      | declare t ids ty =>
        cases ids with
        | nil => cases hs
        | cons id rest =>
          cases rest with
          | cons _ _ => cases hs
          | nil => exact skio_declare g t id ty _ hc' e σ2 hS hr
      | declareArr t ids ty bounds =>
        cases ids with
        | nil => cases hs
        | cons id rest =>
          cases rest with
          | cons _ _ => cases hs
          | nil => exact skio_declareArr g t id ty bounds hs _ hc' e σ2 hS hr
      | _ => cases hs) hrun
    exact ⟨rfl, Nat.le_add_right _ _, rfl, rfl, rfl, rfl, rfl, rfl, rfl, rfl, rfl, rfl⟩
  exact key _ (Prod.ext h rfl)

/-! ## non-vacuity: a session state, one failing statement of every kind -/

namespace C12AtomicDemo

def tk (s : String) : Tok := { k := .IDENTIFIER, line := 1, col := 1, val := s.toList }
def tyk (s : String) : Tok := { k := .DATA_TYPE, line := 1, col := 1, val := s.toList }
def lit (s : String) : Expr := .strLit (tk s) s.toList

/-- a REPL session state: variables `x : INTEGER = 7`, `s : STRING = "hi"`, a constant `c = 3`, an array `a[1:3]`, an
    enumerated type `E`, a record type `R` whose body names an unknown type, the file `data.txt` open for READ (nothing read
    yet) and the file `r.dat` open for RANDOM with one undecodable record under the cursor -/
def demoSt : St :=
  { St.init [("data.txt".toList, .file "l1\nl2\n".toList), ("r.dat".toList, .file [])] [] false true with
    acts := [{ mkGlobal with
      vars := [{ name := "x".toList, ty := .int, val := .int 7 }, { name := "s".toList, ty := .str, val := .str "hi".toList },
               { name := "c".toList, ty := .int, isConst := true, val := .int 3 }],
      arrs := [{ name := "a".toList, ty := .int, val := .arr .int [(1, 3)] [.int 0, .int 0, .int 0] }],
      enums := [("E".toList, ["A".toList, "B".toList])],
      comps := [("R".toList, [.declare (tk "DECLARE") [tk "m"] (tk "Foo")])] }],
    handles := [{ name := "data.txt".toList, mode := .read, rest := "l1\nl2\n".toList },
                { name := "r.dat".toList, mode := .random, records := ["garbage".toList], ptr := 0 }] }

def assignNew : Stmt :=   -- y <- a[7]   (y undeclared: the auto-declaring form; the index is out of bounds)
  .expr (.assign (tk "<-") (.var (tk "y")) (.access (tk "a") (.index (tk "a") (.var (tk "a")) [.intLit (tk "7") 7])))
def constDef : Stmt := .const (tk "CONSTANT") (tk "x") (.intLit (tk "5") 5)                         -- CONSTANT x = 5
def declUnknown : Stmt := .declare (tk "DECLARE") [tk "z"] (tk "Foo")                               -- DECLARE z : Foo
def declClash : Stmt := .declare (tk "DECLARE") [tk "E"] (tk "E")                                   -- DECLARE E : E
def declRec : Stmt := .declare (tk "DECLARE") [tk "r"] (tk "R")                                     -- DECLARE r : R

/-- statements of the class `atomicStmt`, all failing in `demoSt` -/
def failing : List Stmt := [
  assignNew,
  .expr (.assign (tk "<-") (.var (tk "c")) (.intLit (tk "5") 5)),                                                   -- c <- 5
  .expr (.assign (tk "<-") (.var (tk "x")) (.arith (tk "DIV") .idiv (.intLit (tk "1") 1) (.intLit (tk "0") 0))),  -- x <- 1 DIV 0
  .expr (.assign (tk "<-") (.index (tk "a") (.var (tk "a")) [.intLit (tk "2") 2]) (lit "abc")),                    -- a[2] <- "abc"
  constDef,
  .declare (tk "DECLARE") [tk "x"] (tyk "INTEGER"),                                                                 -- DECLARE x : INTEGER
  .declareArr (tk "DECLARE") [tk "b"] (tyk "INTEGER") [(.intLit (tk "3") 3, .intLit (tk "1") 1)],                    -- ARRAY[3:1]
  .declareArr (tk "DECLARE") [tk "a"] (tyk "INTEGER") [(.intLit (tk "1") 1, .intLit (tk "3") 3)],                    -- a again
  .openFile (tk "OPENFILE") (lit "data.txt") .read,
  .openFile (tk "OPENFILE") (lit "nofile") .read,
  .readFile (tk "READFILE") (lit "nofile") (tk "fresh"),
  .readFile (tk "READFILE") (lit "data.txt") (tk "x"),
  .readFile (tk "READFILE") (lit "data.txt") (tk "c"),
  .writeFile (tk "WRITEFILE") (lit "data.txt") (lit "x"),
  .closeFile (tk "CLOSEFILE") (lit "zzz"),
  .seek (tk "SEEK") (lit "r.dat") (.intLit (tk "9") 9),
  .getRecord (tk "GETRECORD") (lit "r.dat") (tk "x"),
  .getRecord (tk "GETRECORD") (lit "data.txt") (tk "x"),
  .putRecord (tk "PUTRECORD") (lit "data.txt") (tk "x"),
  .putRecord (tk "PUTRECORD") (lit "r.dat") (tk "nosuch")]

def msgOf : Except Stop Val → Option Msg
  | .error (.diag d) => some d.msg
  | _ => none

theorem of_msgOf {r : Except Stop Val} {m : Msg} (h : msgOf r = some m) : ∃ e, Soft e ∧ r = .error e := by
  match r, h with
  | .error (.diag d), _ => exact ⟨.diag d, trivial, rfl⟩

/-- every one of them fails at run time, with the class computed by the model … -/
theorem failing_fail : failing.map (fun s => msgOf ((execStmt 10 s).run.run demoSt).1) =
    [some .indexOOB, some .constAssign, some .divZero, some .typeMismatch, some .redeclared, some .redeclared, some .badIndex,
     some .redeclared, some .alreadyOpen, some .openFailed, some .notOpen, some .typeMismatch, some .typeMismatch,
     some .wrongMode, some .notOpen, some .seekRange, some .recordRead, some .wrongMode, some .wrongMode, some .notDefined] := by
  decide +kernel

theorem failing_atomic : failing.all atomicStmt = true := by decide

theorem failing_isSome : failing.all (fun s => (msgOf ((execStmt 10 s).run.run demoSt).1).isSome) = true := by
  decide +kernel

/-- … and by the theorem none of them has any effect (hypotheses of `C12_atomic_statement` all satisfied) -/
theorem failing_noEffect : ∀ s ∈ failing, NoEffect demoSt ((execStmt 10 s).run.run demoSt).2 := by
  intro s hs
  have h1 := List.all_eq_true.mp failing_isSome s hs
  have h2 := List.all_eq_true.mp failing_atomic s hs
  obtain ⟨m, hm⟩ := Option.isSome_iff_exists.mp h1
  obtain ⟨e, hS, he⟩ := of_msgOf hm
  exact C12_atomic_statement s h2 10 demoSt e hS he

/-- the computed side of the same fact, on the observable projections (the model run, evaluated by the kernel) -/
theorem failing_computed : failing.all (fun s =>
    let σ' := ((execStmt 10 s).run.run demoSt).2
    σ'.steps == 1 && σ'.nextId == demoSt.nextId && σ'.handles == demoSt.handles && σ'.fs == demoSt.fs &&
    σ'.acts.map (fun a => (a.vars.map (·.name), a.arrs.map (·.name))) ==
      demoSt.acts.map (fun a => (a.vars.map (·.name), a.arrs.map (·.name)))) = true := by
  decide +kernel

/-- the named theorems, one instance each -/
example : NoEffect demoSt ((execStmt 10 assignNew).run.run demoSt).2 := by
  obtain ⟨e, _, he⟩ := of_msgOf (r := ((execStmt 10 assignNew).run.run demoSt).1) (m := .indexOOB) (by decide +kernel)
  exact C12_atomic_assign 10 _ _ _ rfl rfl demoSt e he
example : NoEffect demoSt ((execStmt 10 constDef).run.run demoSt).2 := by
  obtain ⟨e, _, he⟩ := of_msgOf (r := ((execStmt 10 constDef).run.run demoSt).1) (m := .redeclared) (by decide +kernel)
  exact C12_atomic_constant 10 _ _ _ rfl demoSt e he

def isCompRes : Except Stop Ty → Bool
  | .ok (.comp _) => true
  | _ => false

theorem not_comp_of {r : Except Stop Ty} (h : isCompRes r = false) (n : Str) : r ≠ .ok (.comp n) := by
  intro hr; rw [hr] at h; cases h

/-- DECLARE with a name that is no type (`notDefined`), and with an enumerated type for a name that clashes with a type
    (`redeclared`): `C12_atomic_declare` with its state-dependent hypothesis discharged by evaluation -/
example : msgOf ((execStmt 10 declUnknown).run.run demoSt).1 = some .notDefined ∧
    NoEffect demoSt ((execStmt 10 declUnknown).run.run demoSt).2 := by
  have h : msgOf ((execStmt 10 declUnknown).run.run demoSt).1 = some .notDefined := by decide +kernel
  obtain ⟨e, hS, he⟩ := of_msgOf h
  exact ⟨h, C12_atomic_declare 10 _ _ _ demoSt (not_comp_of (by decide +kernel)) e hS he⟩
example : msgOf ((execStmt 10 declClash).run.run demoSt).1 = some .redeclared ∧
    NoEffect demoSt ((execStmt 10 declClash).run.run demoSt).2 := by
  have h : msgOf ((execStmt 10 declClash).run.run demoSt).1 = some .redeclared := by decide +kernel
  obtain ⟨e, hS, he⟩ := of_msgOf h
  exact ⟨h, C12_atomic_declare 10 _ _ _ demoSt (not_comp_of (by decide +kernel)) e hS he⟩
/-- the seven file statements through `C12_atomic_file` -/
example : ∀ s ∈ [Stmt.openFile (tk "OPENFILE") (lit "zzz") .read, .readFile (tk "OPENFILE") (lit "zzz") (tk "fresh"),
      .writeFile (tk "OPENFILE") (lit "zzz") (lit "x"), .closeFile (tk "OPENFILE") (lit "zzz"),
      .seek (tk "OPENFILE") (lit "zzz") (lit "x"), .getRecord (tk "OPENFILE") (lit "zzz") (tk "fresh"),
      .putRecord (tk "OPENFILE") (lit "zzz") (tk "fresh")],
    ∀ e, Soft e → ((execStmt 10 s).run.run demoSt).1 = .error e → NoEffect demoSt ((execStmt 10 s).run.run demoSt).2 :=
  C12_atomic_file 10 _ _ _ _ _ demoSt rfl rfl

/-! ### entries (source text → lexer → parser → run), as the REPL loop runs them -/

def cfg0 : Cfg := {}

def diagOf : Outcome → Option Msg
  | .diag d => some d.msg
  | _ => none

theorem of_diagOf {o : Outcome} {m : Msg} (h : diagOf o = some m) : ∃ d, o = .diag d := by
  match o, h with
  | .diag d, _ => exact ⟨d, rfl⟩

def entries : List String :=
  ["y <- a[7]", "DECLARE x : INTEGER", "READFILE \"nofile\", fresh", "GETRECORD \"r.dat\", x", "CONSTANT x = 5",
   "DECLARE b : ARRAY[3:1] OF INTEGER"]

/-- the entries parse to one atomic statement each and fail at run time … -/
theorem entries_fail : entries.map (fun src => diagOf (runSource cfg0 src.toList demoSt).1) =
    [some .indexOOB, some .redeclared, some .notOpen, some .recordRead, some .redeclared, some .badIndex] := by
  decide +kernel

theorem entries_atomic : entries.all (fun src => (entryStmt cfg0 src.toList).map (fun p => atomicStmt p.1) == some true) = true := by
  decide +kernel

theorem entries_isSome : entries.all (fun src => (diagOf (runSource cfg0 src.toList demoSt).1).isSome) = true := by
  decide +kernel

/-- … and leave the session as it was (`C12_atomic_entry`) -/
theorem entries_noEffect : ∀ src ∈ entries, NoEffect demoSt (runSource cfg0 src.toList demoSt).2 := by
  intro src hs
  have h1 := List.all_eq_true.mp entries_isSome src hs
  have h2 := List.all_eq_true.mp entries_atomic src hs
  obtain ⟨m, hm⟩ := Option.isSome_iff_exists.mp h1
  obtain ⟨d, hd⟩ := of_diagOf hm
  exact C12_atomic_entry cfg0 src.toList demoSt d (by simpa using h2) hd

/-- `NoEffect` is not trivially true: a successful entry is not `NoEffect` -/
example : ¬ NoEffect demoSt (runSource cfg0 "x <- 8".toList demoSt).2 := by
  intro h
  have h1 := h.acts
  have h2 : ((runSource cfg0 "x <- 8".toList demoSt).2.acts.map fun a => a.vars.map fun s => decide (s.val.ty = .int) && (match s.val with | .int n => n == 8 | _ => false)) =
      [[true, false, false]] := by decide +kernel
  rw [h1] at h2
  revert h2
  decide +kernel

/-! ### the record-type declaration: FALSE for the id counter -/

/-- **Counterexample (model).** `DECLARE r : R`, where the body of the record type `R` fails at declaration time (it names
    an unknown type), ends with the diagnostic `notDefined` — and the id counter has advanced by one (the record body ran in
    a composite activation that was pushed and popped; `steps` counts the body's statement as well). So "no effect at all"
    in the sense of `NoEffect` is false for record declarations. Everything else is unchanged in this instance (computed). The
    id counter is only used to number future activations; the C++ has no counterpart (a `Context` is identified by its
    address), so this is an artefact of the model's representation, not an observable difference. -/
theorem C12_counterexample_record_declare_nextId :
    msgOf ((execStmt 10 declRec).run.run demoSt).1 = some .notDefined ∧
    ((execStmt 10 declRec).run.run demoSt).2.nextId = demoSt.nextId + 1 ∧
    ¬ NoEffect demoSt ((execStmt 10 declRec).run.run demoSt).2 := by
  have h2 : ((execStmt 10 declRec).run.run demoSt).2.nextId = demoSt.nextId + 1 := by decide +kernel
  refine ⟨by decide +kernel, h2, fun h => ?_⟩
  have := h.nextId
  rw [h2] at this
  exact absurd this (by decide)

/-- … and what IS true of it: `C12_atomic_declare_record` (`NoEffectIds`), its hypothesis checked by evaluation -/
example : NoEffectIds demoSt ((execStmt 10 declRec).run.run demoSt).2 := by
  have h : msgOf ((execStmt 10 declRec).run.run demoSt).1 = some .notDefined := by decide +kernel
  obtain ⟨e, hS, he⟩ := of_msgOf h
  exact C12_atomic_declare_record 10 _ _ _ demoSt (compsOK_of_b (by decide)) e hS he

/-- the same at entry level: `DECLARE r : R` typed at the prompt -/
example : diagOf (runSource cfg0 "DECLARE r : R".toList demoSt).1 = some .notDefined ∧
    NoEffectIds demoSt (runSource cfg0 "DECLARE r : R".toList demoSt).2 := by
  have h : diagOf (runSource cfg0 "DECLARE r : R".toList demoSt).1 = some .notDefined := by decide +kernel
  obtain ⟨d, hd⟩ := of_diagOf h
  exact ⟨h, C12_atomic_entry_declare_record cfg0 _ demoSt d (by decide +kernel) (compsOK_of_b (by decide)) hd⟩

end C12AtomicDemo

end Pseudo
