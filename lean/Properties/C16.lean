import PseudoModel.Eval
/-!
# C16 — file statements obey the handle state machine and never lose data silently
Model: `fpre` (legality), `fstep` (one file statement), `closeAllF` (exit), and the wrapper `doFile` through which
`Eval` executes every file statement.
-/
namespace Pseudo

/-- The transition table: a file statement is legal exactly in the states the property lists.
    OPENFILE: name not currently open; READFILE / EOF: READ handle; WRITEFILE: WRITE or APPEND handle;
    SEEK / GETRECORD / PUTRECORD: RANDOM handle; CLOSEFILE: any open handle. -/
theorem C16_transitions (s : FState) (n : Str) (m : FileMode) (txt : Str) (a : Int) :
    (fpre s (.open n m) = .ok () ↔ s.handle n = none) ∧
    (fpre s (.close n) = .ok () ↔ (s.handle n).isSome) ∧
    (fpre s (.readLine n) = .ok () ↔ ∃ h, s.handle n = some h ∧ h.mode = .read) ∧
    (fpre s (.eof n) = .ok () ↔ ∃ h, s.handle n = some h ∧ h.mode = .read) ∧
    (fpre s (.write n txt) = .ok () ↔ ∃ h, s.handle n = some h ∧ (h.mode = .write ∨ h.mode = .append)) ∧
    (fpre s (.seek n a) = .ok () ↔ ∃ h, s.handle n = some h ∧ h.mode = .random) ∧
    (fpre s (.put n txt) = .ok () ↔ ∃ h, s.handle n = some h ∧ h.mode = .random) ∧
    (fpre s (.get n) = .ok () ↔ ∃ h, s.handle n = some h ∧ h.mode = .random) := by
  refine ⟨?_, ?_, ?_, ?_, ?_, ?_, ?_, ?_⟩ <;> unfold fpre <;> cases hh : s.handle n <;> simp [hh] <;>
    (try (rename_i h; cases hm : h.mode <;> simp [hm]))

/-- an illegal statement is an error of `fstep` (and `fstep` can only succeed when `fpre` does) -/
theorem C16_illegal_is_error (s : FState) (op : FOp) (m : Msg) (h : fpre s op = .error m) : fstep s op = .error m := by
  unfold fstep; rw [h]

/-- An erroneous file statement leaves every file's contents and every handle as they were:
    executed through `doFile`, an error changes no component of the interpreter state. -/
theorem C16_illegal_no_effect (t : Tok) (op : FOp) (σ : St) (m : Msg)
    (h : fstep { fs := σ.fs, handles := σ.handles } op = .error m) :
    ((doFile t op).run.run σ).2 = σ ∧ ∃ d, ((doFile t op).run.run σ).1 = .error (.diag d) ∧ d.kind = .runtime ∧ d.msg = m := by
  unfold doFile
  simp only [ExceptT.run, bind, ExceptT.bind, ExceptT.mk, StateT.bind, get, getThe, MonadStateOf.get, liftM, monadLift, MonadLift.monadLift,
    ExceptT.lift, StateT.get, Functor.map, StateT.map, ExceptT.bindCont, StateT.run, pure, StateT.pure, h]
  constructor
  · cases hacts : σ.acts <;>
      simp [rtErr, mkRuntime, hacts, ExceptT.run, bind, ExceptT.bind, ExceptT.mk, StateT.bind, get, getThe, MonadStateOf.get, liftM, monadLift,
        MonadLift.monadLift, ExceptT.lift, StateT.get, Functor.map, StateT.map, ExceptT.bindCont, StateT.run, pure, StateT.pure, ExceptT.pure,
        throw, throwThe, MonadExceptOf.throw, Id.run]
  · cases hacts : σ.acts <;>
      simp [rtErr, mkRuntime, hacts, ExceptT.run, bind, ExceptT.bind, ExceptT.mk, StateT.bind, get, getThe, MonadStateOf.get, liftM, monadLift,
        MonadLift.monadLift, ExceptT.lift, StateT.get, Functor.map, StateT.map, ExceptT.bindCont, StateT.run, pure, StateT.pure, ExceptT.pure,
        throw, throwThe, MonadExceptOf.throw, Id.run]

/-- handle-table invariant: at most one handle per name -/
def NoDup (hs : List Handle) : Prop := (hs.map (·.name)).Nodup

theorem map_name_upd (hs : List Handle) (n : Str) (f : Handle → Handle) (hf : ∀ x, (f x).name = x.name) :
    (updHandles hs n f).map (·.name) = hs.map (·.name) := by
  unfold updHandles
  induction hs with
  | nil => rfl
  | cons x xs ih =>
    simp only [List.map_cons]
    rw [ih]
    congr 1
    split
    · exact hf x
    · rfl

theorem nodup_upd (hs : List Handle) (n : Str) (f : Handle → Handle) (hf : ∀ x, (f x).name = x.name)
    (h : (hs.map (·.name)).Nodup) : ((updHandles hs n f).map (·.name)).Nodup := by
  rw [map_name_upd hs n f hf]; exact h

theorem find_none_not_mem (hs : List Handle) (n : Str) (h : hs.find? (·.name == n) = none) : n ∉ hs.map (·.name) := by
  intro hm
  rw [List.mem_map] at hm
  obtain ⟨x, hx, hxn⟩ := hm
  have := List.find?_eq_none.mp h x hx
  simp [hxn] at this

/-- every file statement preserves the invariant -/
theorem C16_table_inv (s s' : FState) (op : FOp) (r : FRes) (hinv : NoDup s.handles) (h : fstep s op = .ok (s', r)) : NoDup s'.handles := by
  unfold fstep at h
  cases hp : fpre s op with
  | error m => rw [hp] at h; simp at h
  | ok u =>
    rw [hp] at h
    cases op with
    | «open» n mode =>
      have hno : s.handle n = none := by
        unfold fpre at hp
        cases hh : s.handle n with
        | none => rfl
        | some x => simp [hh] at hp
      have hnm := find_none_not_mem s.handles n hno
      have key : NoDup (s.handles ++ [{ name := n, mode := mode }]) ∧ ∀ (x : Handle), x.name = n → NoDup (s.handles ++ [x]) := by
        constructor
        · unfold NoDup at *; simp only [List.map_append, List.map_cons, List.map_nil]
          exact List.nodup_append.mpr ⟨hinv, by simp, by intro a ha b hb; simp at hb; subst hb; intro hab; subst hab; exact hnm ha⟩
        · intro x hx; unfold NoDup at *; simp only [List.map_append, List.map_cons, List.map_nil, hx]
          exact List.nodup_append.mpr ⟨hinv, by simp, by intro a ha b hb; simp at hb; subst hb; intro hab; subst hab; exact hnm ha⟩
      simp only at h
      split at h
      · simp at h
      · split at h <;> (try (simp at h)) <;>
          (try (first
            | (obtain ⟨h1, _⟩ := h; subst h1; exact key.2 _ rfl)
            | (split at h <;> (try (simp at h)) <;> (obtain ⟨h1, _⟩ := h; subst h1; exact key.2 _ rfl))))
    | close n =>
      simp only at h
      split at h
      · simp at h
      · simp at h; obtain ⟨h1, _⟩ := h; subst h1
        unfold NoDup at *
        simp only
        exact List.Nodup.sublist (List.Sublist.map _ List.filter_sublist) hinv
    | write n txt =>
      simp only at h
      split at h <;> simp at h <;> (obtain ⟨h1, _⟩ := h; subst h1; exact hinv)
    | readLine n =>
      simp only at h
      split at h
      · simp at h
      · simp at h; obtain ⟨h1, _⟩ := h; subst h1
        unfold NoDup at *; simp only; exact nodup_upd _ _ _ (fun _ => rfl) hinv
    | eof n =>
      simp only at h
      split at h <;> simp at h
      obtain ⟨h1, _⟩ := h; subst h1; exact hinv
    | seek n a =>
      simp only at h
      split at h
      · simp at h
      · split at h
        · simp at h
        · split at h
          · simp at h
          · simp at h; obtain ⟨h1, _⟩ := h; subst h1
            unfold NoDup at *; simp only; exact nodup_upd _ _ _ (fun _ => rfl) hinv
    | put n rec =>
      simp at h; obtain ⟨h1, _⟩ := h; subst h1
      unfold NoDup at *; simp only; exact nodup_upd _ _ _ (fun _ => rfl) hinv
    | get n =>
      simp only at h
      split at h
      · simp at h
      · split at h <;> simp at h
        obtain ⟨h1, _⟩ := h; subst h1; exact hinv

/-- OPENFILE on a path that cannot be opened or created is reported and adds no handle:
    a directory, a missing file for READ / APPEND, a missing parent directory for WRITE / RANDOM. -/
theorem C16_open_reports (s : FState) (n : Str) (hno : s.handle n = none) (hlen : nameTooLong n = false) :
    (s.node n = some .dir → ∀ m, fstep s (.open n m) = .error .openFailed) ∧
    (s.node n = none → fstep s (.open n .read) = .error .openFailed ∧ fstep s (.open n .append) = .error .openFailed) ∧
    (s.node n = none → parentOk s n = false → fstep s (.open n .write) = .error .openFailed ∧ fstep s (.open n .random) = .error .openFailed) := by
  have hp : ∀ m, fpre s (.open n m) = .ok () := by intro m; simp [fpre, hno]
  refine ⟨?_, ?_, ?_⟩
  · intro hd m; cases m <;> simp [fstep, hp, hlen, hd]
  · intro hn; constructor <;> simp [fstep, hp, hlen, hn]
  · intro hn hpo; constructor <;> simp [fstep, hp, hlen, hn, hpo]

/-- a write the operating system rejects (modelled: `/dev/full`, a directory) is reported, not ignored -/
theorem C16_write_reports (s : FState) (n txt : Str) (h : Handle) (hh : s.handle n = some h) (hm : h.mode = .write ∨ h.mode = .append)
    (hn : s.node n = some .devFull ∨ s.node n = some .dir) : fstep s (.write n txt) = .error .openFailed := by
  have hp : fpre s (.write n txt) = .ok () := by unfold fpre; rcases hm with hm | hm <;> simp [hh, hm]
  rcases hn with hn | hn <;> simp [fstep, hp, hn]

/-- text written with WRITEFILE is in the file system as soon as the statement returns (nothing is pending),
    and at exit every handle is closed with modified random files written back -/
theorem C16_flush_on_exit (s : FState) : (closeAllF s).handles = [] := rfl

theorem C16_exit_writes_back (s : FState) (h : Handle) (hs : s.handles = [h]) (hm : h.mode = .random) (hmod : h.modified = true)
    (hn : s.node h.name = none ∨ ∃ c, s.node h.name = some (.file c)) :
    (closeAllF s).fs = setNode s.fs h.name (.file (Codec.renderFile h.records)) := by
  unfold closeAllF flushNode FState.node at *
  rcases hn with hn | ⟨c, hn⟩ <;> simp [hs, hm, hmod, hn]

/-! non-vacuity: a concrete illegal step, and a legal one -/
example : fstep {} (.readLine "a".toList) = .error .notOpen := by rfl
example : (fstep { fs := [("a".toList, .file "x\n".toList)] } (.open "a".toList .read)).toBool = true := by rfl

end Pseudo
