import PseudoProofs.RejectLemmas
import PseudoProofs.CallLemmas
import Properties.C08
import PseudoProofs.PtrPlaces
import PseudoProofs.FileStmt
/-!
# C08 at the level of evaluator runs

`ConstVar σ c v`: in state `σ` the name `c` resolves — current activation first, global activation as the
fallback, exactly as `lookupVar` does — to a variable slot that is marked constant, is not a BYREF alias and
holds `v`.

For any such state: reading `c` yields `v` and leaves the state unchanged; the assignment `c <- e` ends in the
runtime diagnostic `constAssign` and changes nothing (apart from the step counter of the statement's tick).
-/
namespace Pseudo
open ArrayLemmas C07Copy CallLemmas RecordLemmas RejectLemmas
namespace C08

/-- the name `c` resolves (as `lookupVar` does) to a constant slot holding `v` -/
structure ConstVar (σ : St) (c : Str) (v : Val) : Prop where
  intro ::
  ex : ∃ cur rest g a s, σ.acts = cur :: rest ∧ σ.acts.getLast? = some g ∧ lookupVarIn cur g c = some (a, s) ∧
    σ.acts.find? (·.id == a.id) = some a ∧ findSlot a.vars s.name = some s ∧
    s.ref = none ∧ s.isConst = true ∧ s.val = v

/-- the location the constant lives at -/
def cLoc (a : Act) (s : Slot) : Loc := { act := a.id, isArr := false, name := s.name, path := [] }

theorem holderOf_noref (a : Act) (s : Slot) (h : s.ref = none) :
    holderOf a s = { loc := cLoc a s, isArr := false, ty := s.ty, name := s.name } := by
  unfold holderOf cLoc; rw [h]

theorem readLocP_cLoc (σ : St) (a : Act) (s : Slot) (hf : σ.acts.find? (·.id == a.id) = some a)
    (hs : findSlot a.vars s.name = some s) : readLocP σ (cLoc a s) = .ok s.val := by
  unfold readLocP
  show (match σ.acts.find? (·.id == a.id) with | none => _ | some a' => _) = _
  rw [hf]
  show (match findSlot a.vars s.name with | none => _ | some s' => _) = _
  rw [hs]
  rfl

theorem locConstP_cLoc (σ : St) (a : Act) (s : Slot) (hf : σ.acts.find? (·.id == a.id) = some a)
    (hs : findSlot a.vars s.name = some s) : locConstP σ (cLoc a s) = s.isConst := by
  unfold locConstP
  show (match σ.acts.find? (·.id == a.id) with | none => _ | some a' => _) = _
  rw [hf]
  show ((findSlot a.vars s.name).map (·.isConst)).getD false = _
  rw [hs]
  rfl

end C08

open C08

/-- **C08 (read).** In any state where `c` resolves to a constant holding `v`, the variable reference `c`
    resolves to the constant's own cell, and the state is unchanged. -/
theorem C08_exec_resolve {σ : St} {x : Tok} {v : Val} (h : ConstVar σ x.val v) (f : Nat) :
    ∃ hd : Holder, (resolveRef (f+1) (.var x)).run.run σ = (.ok hd, σ) ∧ hd.isArr = false ∧
      readLocP σ hd.loc = .ok v ∧ locConstP σ hd.loc = true := by
  obtain ⟨cur, rest, g, a, s, hacts, hg, hl, hfa, hs, hr, hc, hv⟩ := h.ex
  refine ⟨holderOf a s, run_resolveRef_var σ cur g rest x f a s hacts hg hl, holderOf_isArr a s, ?_, ?_⟩
  · rw [holderOf_noref a s hr]
    show readLocP σ (cLoc a s) = _
    rw [readLocP_cLoc σ a s hfa hs, hv]
  · rw [holderOf_noref a s hr]
    show locConstP σ (cLoc a s) = _
    rw [locConstP_cLoc σ a s hfa hs, hc]

/-- **C08 (read).** In any state where `c` resolves to a constant holding `v`, evaluating the expression `c`
    yields `v` and leaves the state exactly as it was. -/
theorem C08_exec_read {σ : St} {x : Tok} {v : Val} (h : ConstVar σ x.val v) (f : Nat) (t : Tok) :
    (evalExpr (f+2) (.access t (.var x))).run.run σ = (.ok v, σ) := by
  obtain ⟨hd, hres, harr, hread, _⟩ := C08_exec_resolve h f
  rw [run_evalExpr_access_resolved σ t (.var x) hd (f+1) hres harr, hread]

/-- **C08 (assignment is refused), `execAssign`.** If the right-hand side evaluates to `rv` without changing
    the state, `c <- rhs` on a constant `c` ends in the runtime diagnostic `constAssign` at the assignment's
    token, and the state is exactly what it was. -/
theorem C08_exec_assign_refused {σ : St} {x : Tok} {v : Val} (h : ConstVar σ x.val v) (f : Nat) (t : Tok)
    (rhs : Expr) (rv : Val) (hrhs : (evalExpr (f+1) rhs).run.run σ = (.ok rv, σ)) :
    (execAssign (f+2) t (.var x) rhs).run.run σ = (.error (.diag (rtDiag σ t.line t.col .constAssign)), σ) := by
  obtain ⟨hd, hres, harr, _, hconst⟩ := C08_exec_resolve h f
  have hacts : σ.acts ≠ [] := by
    obtain ⟨cur, rest, _, _, _, hacts, _⟩ := h.ex
    rw [hacts]; exact List.cons_ne_nil _ _
  rw [run_execAssign_checked σ σ t (.var x) rhs rv hd (f+1) hacts hrhs hres harr, hconst]
  simp only [if_true]
  exact run_rtErr t .constAssign σ

/-- ticking (counting one statement) does not affect how `c` resolves -/
theorem C08.ConstVar.tick {σ : St} {c : Str} {v : Val} (h : ConstVar σ c v) : ConstVar (tickSt σ) c v := ⟨h.ex⟩

/-- **C08 (assignment is refused), the statement.** The statement `c <- rhs` (within the step budget, `rhs`
    evaluating to `rv` without side effects) on a constant `c` ends in the runtime diagnostic `constAssign`;
    the only thing that changed is the step counter (the statement was counted). -/
theorem C08_exec_assign_stmt_refused {σ : St} {x : Tok} {v : Val} (h : ConstVar σ x.val v) (f : Nat) (t : Tok)
    (rhs : Expr) (rv : Val) (hsteps : σ.steps + 1 ≤ σ.stepLimit)
    (hrhs : (evalExpr (f+1) rhs).run.run (tickSt σ) = (.ok rv, tickSt σ)) :
    (execStmt (f+4) (.expr (.assign t (.var x) rhs))).run.run σ =
      (.error (.diag (rtDiag (tickSt σ) t.line t.col .constAssign)), tickSt σ) := by
  rw [run_execStmt_assign σ t (.var x) rhs (f+2) hsteps, C08_exec_assign_refused h.tick f t rhs rv hrhs]

/-- **C08 (INPUT is refused).** The statement `INPUT c` (within the step budget) on a constant `c` ends in the
    runtime diagnostic `constAssign` at the INPUT token; no input line is consumed; the only thing that changed
    is the step counter (the statement was counted). -/
theorem C08_exec_input_refused {σ : St} {x : Tok} {v : Val} (h : ConstVar σ x.val v) (f : Nat) (t : Tok)
    (hsteps : σ.steps + 1 ≤ σ.stepLimit) :
    (execStmt (f+2) (.input t (.var x))).run.run σ =
      (.error (.diag (rtDiag (tickSt σ) t.line t.col .constAssign)), tickSt σ) := by
  obtain ⟨hd, hres, harr, _, hconst⟩ := C08_exec_resolve h.tick f
  have h2 : (resolveRef (f+1) (.var x) >>= fun h => (pure (some h) : M (Option Holder))).run.run (tickSt σ) =
      (.ok (some hd), tickSt σ) := by
    rw [run_bind_ok _ _ _ _ _ hres]; rfl
  rw [execStmt_input, run_bind_ok _ _ _ _ _ (run_tick_ok t σ hsteps)]
  unfold catchNotDefined
  rw [run_bind_ok _ _ _ _ _ (run_tryCatch_ok _ _ _ _ _ h2)]
  simp only [harr, Bool.false_eq_true, if_false]
  rw [run_bind_ok _ _ _ _ _ (run_pure hd (tickSt σ)), run_bind_ok _ _ _ _ _ (run_locIsConst hd.loc (tickSt σ))]
  simp only [hconst, if_true]
  exact run_bind_err _ _ _ _ _ (run_rtErr t .constAssign (tickSt σ))

/-- **C08 (FOR is refused).** The statement `FOR c <- start TO stop [STEP k] ... NEXT` (within the step budget)
    whose iterator `c` resolves to a constant slot of type INTEGER ends in the runtime diagnostic `constAssign`
    at the FOR token, before the bounds are evaluated; the only thing that changed is the step counter.
    (The model checks the iterator's type first: a constant that is not an INTEGER is refused with
    `typeMismatch` instead.) -/
theorem C08_exec_for_refused {σ : St} {x : Tok} (cur g a : Act) (rest : List Act) (s : Slot)
    (hacts : σ.acts = cur :: rest) (hg : σ.acts.getLast? = some g) (hl : lookupVarIn cur g x.val = some (a, s))
    (hfa : σ.acts.find? (·.id == a.id) = some a) (hs : findSlot a.vars s.name = some s)
    (hr : s.ref = none) (hc : s.isConst = true) (hty : s.ty = .int)
    (f : Nat) (t : Tok) (start stop : Expr) (step : Option Expr) (b : Block)
    (hsteps : σ.steps + 1 ≤ σ.stepLimit) :
    (execStmt (f+1) (.for t x start stop step b)).run.run σ =
      (.error (.diag (rtDiag (tickSt σ) t.line t.col .constAssign)), tickSt σ) := by
  have hlc : locConstP (tickSt σ) (cLoc a s) = true := by
    rw [← hc]; exact locConstP_cLoc (tickSt σ) a s hfa hs
  rw [execStmt.eq_def]
  dsimp only
  rw [run_bind_ok _ _ _ _ _ (run_tick_ok t σ hsteps),
    run_bind_ok _ _ _ _ _ (run_lookupVar (tickSt σ) cur g rest x.val hacts hg)]
  simp only [hl, hr]
  rw [run_bind_ok _ _ _ _ _ (run_pure _ (tickSt σ))]
  simp only [hty, bne_self_eq_false, Bool.false_eq_true, if_false]
  rw [run_bind_ok _ _ _ _ _ (run_locIsConst _ (tickSt σ))]
  have hlc' : locConstP (tickSt σ) { act := a.id, isArr := false, name := s.name, path := [] } = true := hlc
  simp only [hlc', if_true]
  exact run_bind_err _ _ _ _ _ (run_rtErr t .constAssign (tickSt σ))

/-- **C08 (READFILE is refused).** `READFILE fn, c` (within the step budget; `fn` evaluates without effect to the
    file name `name`; the file may be read, i.e. the legality check `fpre` passes) where `c` resolves to a constant
    slot of type STRING ends in the runtime diagnostic `constAssign` at the READFILE token. No line is taken from
    the file: the only thing that changed is the step counter. (The model checks the type first: a constant that is
    not a STRING is refused with `typeMismatch`; a file that cannot be read is reported before the constant is.) -/
theorem C08_exec_readFile_refused (f : Nat) (t : Tok) (fn : Expr) (id : Tok) (σ : St) (name : Str) (a : Act) (s : Slot)
    (hb : σ.steps + 1 ≤ σ.stepLimit) (hfn : FileStmt.EvalsTo f fn (tickSt σ) (.str name))
    (hlv : FileStmt.lookupVarP σ id.val = .ok (some (a, s)))
    (hfa : σ.acts.find? (·.id == a.id) = some a) (hs : findSlot a.vars s.name = some s)
    (hr : s.ref = none) (hc : s.isConst = true) (hty : s.ty = .str)
    (u : Unit) (hpre : fpre (FileStmt.fileSt σ) (.readLine name) = .ok u) :
    (execStmt (f+2) (.readFile t fn id)).run.run σ =
      (.error (.diag (rtDiag (tickSt σ) t.line t.col .constAssign)), tickSt σ) := by
  have hlc : locConstP (tickSt σ) { act := a.id, isArr := false, name := s.name, path := [] } = true := by
    rw [← hc]; exact locConstP_cLoc (tickSt σ) a s hfa hs
  rw [FileStmt.exec_readFile_var f t fn id σ name a s hb hfn hlv]
  simp only [hty, bne_self_eq_false, Bool.false_eq_true, if_false, hpre]
  unfold FileStmt.readInto FileStmt.varLoc
  simp only [hr, hlc, if_true]
  rfl

/-- **C08 (GETRECORD is refused).** `GETRECORD fn, c` (within the step budget; `fn` evaluates without effect to
    the file name `name`; the legality check `fpre` of the random file passes) where `c` resolves to a constant slot
    whose type is not a pointer type ends in the runtime diagnostic `constAssign` at the GETRECORD token. No record
    is taken from the file: the only thing that changed is the step counter. (A constant of pointer type is
    refused with `nonPrimitive`; a file that may not be read is reported before the constant is.) -/
theorem C08_exec_getRecord_refused (f : Nat) (t : Tok) (fn : Expr) (id : Tok) (σ : St) (name : Str) (a : Act) (s : Slot)
    (a? : Option (Act × Slot))
    (hb : σ.steps + 1 ≤ σ.stepLimit) (hfn : FileStmt.EvalsTo f fn (tickSt σ) (.str name))
    (hlv : FileStmt.lookupVarP σ id.val = .ok (some (a, s))) (hla : FileStmt.lookupArrP σ id.val = .ok a?)
    (hfa : σ.acts.find? (·.id == a.id) = some a) (hs : findSlot a.vars s.name = some s)
    (hr : s.ref = none) (hc : s.isConst = true) (hty : FileStmt.isPtrTy s.ty = false)
    (u : Unit) (hpre : fpre (FileStmt.fileSt σ) (.get name) = .ok u) :
    (execStmt (f+2) (.getRecord t fn id)).run.run σ =
      (.error (.diag (rtDiag (tickSt σ) t.line t.col .constAssign)), tickSt σ) := by
  have hlc : locConstP σ { act := a.id, isArr := false, name := s.name, path := [] } = true := by
    rw [← hc]; exact locConstP_cLoc σ a s hfa hs
  rw [FileStmt.exec_getRecord f t fn id σ name _ a? hb hfn hlv hla]
  simp only [hpre]
  unfold FileStmt.recTarget
  simp only [hr, hty, hlc, Bool.false_eq_true, if_false, if_true]
  rfl

/-- **C08 (any route to the constant is refused).** Whatever reference `r` is assigned to — a plain name, a BYREF
    parameter, a pointer dereference `p^`, a record field — if it resolves without effect to a location whose root
    cell is a constant, then `r <- rhs` (with `rhs` evaluating to `rv` without effect) ends in the runtime
    diagnostic `constAssign` and the state is exactly what it was. -/
theorem C08_exec_assign_via_refused (σ : St) (t : Tok) (r : Ref) (rhs : Expr) (rv : Val) (hd : Holder) (f : Nat)
    (hacts : σ.acts ≠ []) (hrhs : (evalExpr f rhs).run.run σ = (.ok rv, σ))
    (hres : (resolveRef f r).run.run σ = (.ok hd, σ)) (harr : hd.isArr = false)
    (hconst : locConstP σ hd.loc = true) :
    (execAssign (f+1) t r rhs).run.run σ = (.error (.diag (rtDiag σ t.line t.col .constAssign)), σ) := by
  rw [run_execAssign_checked σ σ t r rhs rv hd f hacts hrhs hres harr, hconst]
  simp only [if_true]
  exact run_rtErr t .constAssign σ

/-- **C08 (BYREF).** A slot `s` (a BYREF formal) bound by reference to the location `l` resolves to `l` itself:
    if the root cell of `l` is a constant, the parameter is a route to a constant, and by
    `C08_exec_assign_via_refused` a write through it is refused with `constAssign`. -/
theorem C08_exec_byref_refused (σ : St) (cur g : Act) (rest : List Act) (x t : Tok) (f : Nat) (a : Act) (s : Slot)
    (l : Loc) (rhs : Expr) (rv : Val)
    (hacts : σ.acts = cur :: rest) (hg : σ.acts.getLast? = some g) (hl : lookupVarIn cur g x.val = some (a, s))
    (href : s.ref = some l) (hconst : locConstP σ l = true)
    (hrhs : (evalExpr (f+1) rhs).run.run σ = (.ok rv, σ)) :
    (execAssign (f+2) t (.var x) rhs).run.run σ = (.error (.diag (rtDiag σ t.line t.col .constAssign)), σ) := by
  refine C08_exec_assign_via_refused σ t (.var x) rhs rv (holderOf a s) (f+1) ?_ hrhs
    (run_resolveRef_var σ cur g rest x f a s hacts hg hl) (holderOf_isArr a s) ?_
  · rw [hacts]; exact List.cons_ne_nil _ _
  · unfold holderOf; rw [href]; exact hconst

section pointer
open PtrPlaces ArrayFieldLemmas C09ExecL

/-- **C08 (pointer).** If the pointer place `pr` holds a pointer to the location `l` (readable, hence live) whose
    root cell is a constant — as after `p <- ^c` — then `pr^ <- rhs` (with `rhs` evaluating to `rv` without
    effect) ends in the runtime diagnostic `constAssign` and the state is exactly what it was. -/
theorem C08_exec_deref_refused (σ : St) (t dt : Tok) (pr : Ref) (ph : Holder) (pn : Str) (l : Loc) (tv : Val)
    (f₀ f : Nat) (rhs : Expr) (rv : Val) (hacts : σ.acts ≠ [])
    (hp : RefAt σ f₀ pr ph (.ptr pn (some l))) (harr : ph.isArr = false) (hv : readLocP σ l = .ok tv) (hf : f₀ ≤ f)
    (hconst : locConstP σ l = true) (hrhs : (evalExpr (f+1) rhs).run.run σ = (.ok rv, σ)) :
    (execAssign (f+2) t (.deref dt pr) rhs).run.run σ = (.error (.diag (rtDiag σ t.line t.col .constAssign)), σ) :=
  C08_exec_assign_via_refused σ t (.deref dt pr) rhs rv (derefHolder l tv) (f+1) hacts hrhs
    (run_deref_ref σ dt pr ph pn l tv f₀ f hp harr hv hf) rfl hconst

end pointer

/-! ### non-vacuity: the demo state of `C08.lean` (a global constant `K = 3`) -/

theorem C08.demoSt_constVar : ConstVar C08.demoSt "K".toList (.int 3) :=
  ⟨⟨_, _, _, _, _, rfl, rfl, rfl, rfl, rfl, rfl, rfl, rfl⟩⟩

example : (evalExpr 2 (.access (C08.demoTok "K") (.var (C08.demoTok "K")))).run.run C08.demoSt =
    (.ok (.int 3), C08.demoSt) :=
  C08_exec_read (x := C08.demoTok "K") C08.demoSt_constVar 0 _

/-- `INPUT K` and `FOR K <- 1 TO 2 ... NEXT` on the demo state: refused, state unchanged but for the step counter -/
example (f : Nat) : (execStmt (f+2) (.input (C08.demoTok "INPUT") (.var (C08.demoTok "K")))).run.run C08.demoSt =
    (.error (.diag (rtDiag (tickSt C08.demoSt) 1 1 .constAssign)), tickSt C08.demoSt) :=
  C08_exec_input_refused (x := C08.demoTok "K") C08.demoSt_constVar f _ (by decide)

example (f : Nat) (b : Block) : (execStmt (f+1) (.for (C08.demoTok "FOR") (C08.demoTok "K") (.intLit (C08.demoTok "1") 1)
      (.intLit (C08.demoTok "2") 2) none b)).run.run C08.demoSt =
    (.error (.diag (rtDiag (tickSt C08.demoSt) 1 1 .constAssign)), tickSt C08.demoSt) :=
  C08_exec_for_refused (σ := C08.demoSt) _ _ _ _ _ rfl rfl rfl rfl rfl rfl rfl rfl f _ _ _ _ _ (by decide)

end Pseudo
