import PseudoProofs.EvalInv
import PseudoModel.Top
/-!
# C03 (signals) — BREAK / CONTINUE act on the innermost enclosing loop only

The three loop functions absorb the signals of their body (`loopBody` catches them), a procedure / function
body converts a signal that reaches it into the runtime error `breakOutside`, and expression evaluation never
raises a signal (signals come out of statement execution only, and function bodies convert them).
So a BREAK / CONTINUE never leaves the innermost loop around it, never crosses a call, and at top level
(`runMain`) it is a runtime error.

Instance of the generic theorem `eval_all` with `R := True`, `Qe := NoSignal` (expression-like functions,
loops, calls) and `Qs := True` (statement-like functions: `execStmt`, `runBlock`, `ifChain`, `caseClauses`,
and also `defaultVal` / `defaultCells` / `declareVars` / `declareArrs`, which run a TYPE body without a
handler — see the remark at the end).
-/
namespace Pseudo
namespace C03

/-- no condition on states -/
def R (_ _ : St) : Prop := True

instance : RPre R := ⟨fun _ => trivial, fun _ _ => trivial⟩

theorem writeLoc_ok (Q : Stop → Prop) [QBase Q] (t : Tok) (l : Loc) (v : Val) : Ens R Q (writeLoc t l v) := by
  unfold writeLoc
  ens_auto
  all_goals exact Ens.modifyAct_of _ _ fun _ => trivial

/-- the primitives raise diagnostics and crash points only -/
instance primOK (Q : Stop → Prop) [QBase Q] : PrimOK R Q :=
  primOK_build (fun _ _ _ => trivial) (fun _ _ _ _ => trivial) (fun _ _ _ => trivial) (fun _ _ _ => trivial)
    (writeLoc_ok Q) (fun _ _ _ _ _ => trivial)

theorem all (fuel : Nat) : AllEns R NoSignal (fun _ => True) fuel := eval_all R _ _ fuel

/-- what an `Ens R NoSignal` fact says about a run -/
theorem noSignal_of {α : Type} {m : M α} (h : Ens R NoSignal m) (σ : St) (e : Stop)
    (he : (m.run.run σ).1 = .error e) : (∀ t', e ≠ .brk t') ∧ (∀ t', e ≠ .cont t') :=
  (h.run σ).2 e he

end C03

open C03

/-- **C03 (loops absorb the signals).** Whatever a WHILE loop ends with, it is not a BREAK / CONTINUE signal. -/
theorem C03_loop_absorbs (fuel : Nat) (t : Tok) (c : Expr) (b : Block) (σ : St) (e : Stop)
    (he : ((whileLoop fuel t c b).run.run σ).1 = .error e) : (∀ t', e ≠ .brk t') ∧ (∀ t', e ≠ .cont t') :=
  noSignal_of ((C03.all fuel).whileLoop t c b) σ e he

/-- the same for REPEAT … UNTIL -/
theorem C03_loop_absorbs_repeat (fuel : Nat) (t : Tok) (b : Block) (c : Expr) (σ : St) (e : Stop)
    (he : ((repeatLoop fuel t b c).run.run σ).1 = .error e) : (∀ t', e ≠ .brk t') ∧ (∀ t', e ≠ .cont t') :=
  noSignal_of ((C03.all fuel).repeatLoop t b c) σ e he

/-- the same for FOR -/
theorem C03_loop_absorbs_for (fuel : Nat) (t : Tok) (it : Loc) (stop step : Int) (b : Block) (σ : St) (e : Stop)
    (he : ((forLoop fuel t it stop step b).run.run σ).1 = .error e) : (∀ t', e ≠ .brk t') ∧ (∀ t', e ≠ .cont t') :=
  noSignal_of ((C03.all fuel).forLoop t it stop step b) σ e he

/-- one round of a loop body: BREAK and CONTINUE are turned into the Boolean "leave the loop" -/
theorem C03_loopBody_absorbs (fuel : Nat) (b : Block) (σ : St) (e : Stop)
    (he : ((loopBody fuel b).run.run σ).1 = .error e) : (∀ t', e ≠ .brk t') ∧ (∀ t', e ≠ .cont t') :=
  noSignal_of ((C03.all fuel).loopBody b) σ e he

/-- **C03 (signals do not cross a call).** A procedure call never ends with a BREAK / CONTINUE signal … -/
theorem C03_callProc_absorbs (fuel : Nat) (t : Tok) (name : Str) (args : List Expr) (σ : St) (e : Stop)
    (he : ((callProc fuel t name args).run.run σ).1 = .error e) : (∀ t', e ≠ .brk t') ∧ (∀ t', e ≠ .cont t') :=
  noSignal_of ((C03.all fuel).callProc t name args) σ e he

/-- … nor does a function call … -/
theorem C03_callFun_absorbs (fuel : Nat) (t : Tok) (args : List Expr) (σ : St) (e : Stop)
    (he : ((callFun fuel t args).run.run σ).1 = .error e) : (∀ t', e ≠ .brk t') ∧ (∀ t', e ≠ .cont t') :=
  noSignal_of ((C03.all fuel).callFun t args) σ e he

/-- … and **no expression ever raises a signal** (so the condition of a loop, an argument, an index, … cannot
    break out of anything) -/
theorem C03_expr_no_signal (fuel : Nat) (x : Expr) (σ : St) (e : Stop)
    (he : ((evalExpr fuel x).run.run σ).1 = .error e) : (∀ t', e ≠ .brk t') ∧ (∀ t', e ≠ .cont t') :=
  noSignal_of ((C03.all fuel).evalExpr x) σ e he

/-- at top level (`runMain`: a program, one REPL entry) nothing is left of a signal either: a stray BREAK /
    CONTINUE has become the runtime error `breakOutside` -/
theorem C03_main_no_signal (fuel : Nat) (b : Block) (σ : St) (e : Stop)
    (he : ((runMain fuel b).run.run σ).1 = .error e) : (∀ t', e ≠ .brk t') ∧ (∀ t', e ≠ .cont t') := by
  have h : Ens C03.R NoSignal (runMain fuel b) := by
    unfold runMain
    refine Ens.tryCatch (Q' := fun _ => True) ((C03.all fuel).runBlock b) ?_
    intro e _
    split
    · exact Ens.l_rtErr _ _
    · exact Ens.l_rtErr _ _
    · exact Ens.throw (QBase.crash _)
    · rename_i h1 h2 _
      exact Ens.throw ⟨fun t h => h1 t h, fun t h => h2 t h⟩
  exact noSignal_of h σ e he

/-! ### non-vacuity: the statement-level functions do raise the signals -/

/-- `BREAK` as a statement raises `brk` (fuel 1 suffices) … -/
example (t : Tok) (σ : St) (h : ¬ (σ.steps + 1 > σ.stepLimit)) :
    ((execStmt 1 (.brk t)).run.run σ).1 = .error (.brk t) := by
  rw [execStmt.eq_def]
  dsimp only
  have ht : (tick t).run.run σ = (.ok ⟨⟩, { σ with steps := σ.steps + 1 }) := by
    unfold tick
    rw [run_bind_ok _ _ _ _ _ (run_get σ)]
    simp only [h, if_false]
    rfl
  rw [run_bind_ok _ _ _ _ _ ht]
  rfl

/-- … so `Qs` cannot be strengthened to `NoSignal` for `execStmt`, while by `C03_loop_absorbs` the loop around
    it ends without a signal. -/
example (fuel : Nat) (t : Tok) (c : Expr) (σ : St) :
    ((whileLoop fuel t c [.brk t]).run.run σ).1 ≠ .error (.brk t) :=
  fun h => (C03_loop_absorbs fuel t c [.brk t] σ _ h).1 t rfl

/-!
Remark (model observation). `defaultVal` runs the body of a TYPE … ENDTYPE declaration with `runBlock` and no
handler, so for an abstract syntax tree whose record body contains a BREAK (`Stmt.typeRec t n [Stmt.brk t']`)
a later `DECLARE x : n` *inside a loop* ends that loop. The functions `defaultVal`, `defaultCells`,
`declareVars`, `declareArrs` are therefore in the statement-like family here. The model's parser
(`parseCompositeBody` in `Parser.lean`) only accepts DECLARE lines in a TYPE body, so no parsed program has
such a tree; the loop / call / expression theorems above hold for every tree, parsed or not.
-/

end Pseudo
