import PseudoProofs.EvalInv2
import Properties.C04
/-!
# C12 (survival) — an entry that fails neither ends the session nor disturbs what earlier entries established

`Established σ σ'`: every procedure and function of `σ` is still there, the global activation (last element of
`acts`) keeps every type definition and every variable / array (same name, declared type and CONSTANT flag;
values may change unless constant — that is C08), and the activation ids are as in C04.

Proved for every statement, block, program run, source text and for the real REPL loop, whatever way each entry
ends (lexical / syntax / runtime error, crash point, budget). Instance of `eval_all` with the stronger, inductive
relation `C12.R`: *every* activation of the stack is extended position by position (`StackExt`), the procedure and
function tables only grow at the end.
-/
namespace Pseudo
namespace C12

/-- what name lookup and the type checker see of a slot -/
def sig (s : Slot) : Str × Ty × Bool := (s.name, s.ty, s.isConst)

/-- `a'` is `a` with possibly more definitions / variables at the end and other values -/
structure ActExt (a a' : Act) : Prop where
  id : a'.id = a.id
  enums : a.enums <+: a'.enums
  ptrs : a.ptrs <+: a'.ptrs
  comps : a.comps <+: a'.comps
  vars : a.vars.map sig <+: a'.vars.map sig
  arrs : a.arrs.map sig <+: a'.arrs.map sig

theorem ActExt.refl (a : Act) : ActExt a a :=
  ⟨rfl, List.prefix_refl _, List.prefix_refl _, List.prefix_refl _, List.prefix_refl _, List.prefix_refl _⟩

theorem ActExt.trans {a b c : Act} (h1 : ActExt a b) (h2 : ActExt b c) : ActExt a c :=
  ⟨h2.id.trans h1.id, h1.enums.trans h2.enums, h1.ptrs.trans h2.ptrs, h1.comps.trans h2.comps, h1.vars.trans h2.vars,
   h1.arrs.trans h2.arrs⟩

theorem ActExt.of_eq {a a' : Act} (h1 : a'.id = a.id) (h2 : a'.enums = a.enums) (h3 : a'.ptrs = a.ptrs)
    (h4 : a'.comps = a.comps) (h5 : a'.vars.map sig = a.vars.map sig) (h6 : a'.arrs.map sig = a.arrs.map sig) :
    ActExt a a' :=
  ⟨h1, by rw [h2]; exact List.prefix_refl _, by rw [h3]; exact List.prefix_refl _, by rw [h4]; exact List.prefix_refl _,
   by rw [h5]; exact List.prefix_refl _, by rw [h6]; exact List.prefix_refl _⟩

/-- the stacks have the same shape and every activation is extended -/
def StackExt : List Act → List Act → Prop
  | [], [] => True
  | a :: as, b :: bs => ActExt a b ∧ StackExt as bs
  | _, _ => False

theorem StackExt.refl : ∀ as, StackExt as as
  | [] => trivial
  | a :: as => ⟨ActExt.refl a, StackExt.refl as⟩

theorem StackExt.trans : ∀ {as bs cs}, StackExt as bs → StackExt bs cs → StackExt as cs
  | [], [], [], _, _ => trivial
  | _ :: _, _ :: _, _ :: _, h1, h2 => ⟨h1.1.trans h2.1, StackExt.trans h1.2 h2.2⟩
  | [], [], _ :: _, _, h2 => h2.elim
  | [], _ :: _, _, h1, _ => h1.elim
  | _ :: _, [], _, h1, _ => h1.elim
  | _ :: _, _ :: _, [], _, h2 => h2.elim

theorem StackExt.ids : ∀ {as bs}, StackExt as bs → bs.map (·.id) = as.map (·.id)
  | [], [], _ => rfl
  | a :: as, b :: bs, h => by simp [h.1.id, StackExt.ids h.2]
  | [], _ :: _, h => h.elim
  | _ :: _, [], h => h.elim

theorem StackExt.getLast : ∀ {as bs g}, StackExt as bs → as.getLast? = some g → ∃ g', bs.getLast? = some g' ∧ ActExt g g'
  | [], _, _, _, hg => by cases hg
  | [a], [b], g, h, hg => by
    have : a = g := by simpa using hg
    subst this
    exact ⟨b, rfl, h.1⟩
  | [_], [], _, h, _ => h.elim
  | [_], _ :: _ :: _, _, h, _ => h.2.elim
  | _ :: _ :: _, [], _, h, _ => h.elim
  | _ :: _ :: _, [_], _, h, _ => h.2.elim
  | a :: a2 :: as, b :: b2 :: bs, g, h, hg => by
    have hg' : (a2 :: as).getLast? = some g := by simpa [List.getLast?_cons_cons] using hg
    obtain ⟨g', h1, h2⟩ := StackExt.getLast h.2 hg'
    exact ⟨g', by simpa [List.getLast?_cons_cons] using h1, h2⟩

theorem StackExt.updActs {id : Nat} {f : Act → Act} (U : ∀ a, ActExt a (f a)) : ∀ acts, StackExt acts (updActs acts id f)
  | [] => trivial
  | a :: rest => by
    unfold Pseudo.updActs
    split
    · exact ⟨U a, StackExt.refl rest⟩
    · exact ⟨ActExt.refl a, StackExt.updActs U rest⟩

/-- the inductive relation: stack extended, id counter monotone, procedure / function tables extended -/
structure R (σ σ' : St) : Prop where
  stack : StackExt σ.acts σ'.acts
  nextId : σ.nextId ≤ σ'.nextId
  procs : σ.procs <+: σ'.procs
  funs : σ.funs <+: σ'.funs

instance : RPre R where
  refl _ := ⟨StackExt.refl _, Nat.le_refl _, List.prefix_refl _, List.prefix_refl _⟩
  trans h1 h2 := ⟨h1.stack.trans h2.stack, Nat.le_trans h1.nextId h2.nextId, h1.procs.trans h2.procs, h1.funs.trans h2.funs⟩

theorem R_of_eq {σ σ' : St} (ha : σ'.acts = σ.acts) (hn : σ'.nextId = σ.nextId) (hp : σ'.procs = σ.procs)
    (hf : σ'.funs = σ.funs) : R σ σ' :=
  ⟨by rw [ha]; exact StackExt.refl _, Nat.le_of_eq hn.symm, by rw [hp]; exact List.prefix_refl _,
   by rw [hf]; exact List.prefix_refl _⟩

theorem R_updSt (σ : St) (id : Nat) (f : Act → Act) (U : ∀ a, ActExt a (f a)) : R σ (updSt σ id f) :=
  ⟨StackExt.updActs U σ.acts, Nat.le_refl _, List.prefix_refl _, List.prefix_refl _⟩

theorem map_sig_updSlot (ss : List Slot) (n : Str) (g : Slot → Slot) (hg : ∀ s, sig (g s) = sig s) :
    (updSlot ss n g).map sig = ss.map sig := by
  induction ss with
  | nil => rfl
  | cons s rest ih =>
    unfold updSlot
    split
    · simp [hg]
    · simp [ih]

theorem writeLoc_ok (Q : Stop → Prop) [QBase Q] (t : Tok) (l : Loc) (v : Val) : Ens R Q (writeLoc t l v) := by
  unfold writeLoc
  ens_auto
  all_goals
    apply Ens.modifyAct_of
    intro σ
    apply R_updSt
    intro a
    first
      | exact ActExt.of_eq rfl rfl rfl rfl rfl (map_sig_updSlot _ _ _ fun _ => rfl)
      | exact ActExt.of_eq rfl rfl rfl rfl (map_sig_updSlot _ _ _ fun _ => rfl) rfl

theorem R_bracket (mk : Nat → Act) (σ σ2 : St) (h : R (pushSt mk σ) σ2) : R σ (popSt σ2) := by
  obtain ⟨h1, h2, h3, h4⟩ := h
  refine ⟨?_, Nat.le_trans (Nat.le_succ _) h2, h3, h4⟩
  show StackExt σ.acts (σ2.acts.drop 1)
  have h1' : StackExt (mk σ.nextId :: σ.acts) σ2.acts := h1
  cases hacts : σ2.acts with
  | nil => rw [hacts] at h1'; exact h1'.elim
  | cons b bs => rw [hacts] at h1'; exact h1'.2

/-- the primitives only extend -/
instance primOK (Q : Stop → Prop) [QBase Q] : PrimOK R Q :=
  primOK_build2 (fun _ _ h => R_of_eq h.acts h.nextId h.procs h.funs)
    (fun _ _ _ _ _ => R_of_eq rfl rfl rfl rfl)
    (fun _ _ => ⟨StackExt.refl _, Nat.le_refl _, List.prefix_append _ _, List.prefix_refl _⟩)
    (fun _ _ => ⟨StackExt.refl _, Nat.le_refl _, List.prefix_refl _, List.prefix_append _ _⟩)
    (fun f => ∀ a, ActExt a (f a)) (fun σ id f U => R_updSt σ id f U)
    (fun _ _ => ActExt.of_eq rfl rfl rfl rfl rfl rfl) (fun _ _ => ActExt.of_eq rfl rfl rfl rfl rfl rfl)
    (fun _ a => ⟨rfl, List.prefix_append _ _, List.prefix_refl _, List.prefix_refl _, List.prefix_refl _, List.prefix_refl _⟩)
    (fun _ a => ⟨rfl, List.prefix_refl _, List.prefix_append _ _, List.prefix_refl _, List.prefix_refl _, List.prefix_refl _⟩)
    (fun _ a => ⟨rfl, List.prefix_refl _, List.prefix_refl _, List.prefix_append _ _, List.prefix_refl _, List.prefix_refl _⟩)
    (fun _ a => ⟨rfl, List.prefix_refl _, List.prefix_refl _, List.prefix_refl _,
      by show _ <+: (a.vars ++ _).map sig; rw [List.map_append]; exact List.prefix_append _ _, List.prefix_refl _⟩)
    (fun _ a => ⟨rfl, List.prefix_refl _, List.prefix_refl _, List.prefix_refl _, List.prefix_refl _,
      by show _ <+: (a.arrs ++ _).map sig; rw [List.map_append]; exact List.prefix_append _ _⟩)
    (writeLoc_ok Q)
    (fun mk σ σ2 _ h => R_bracket mk σ σ2 h)

theorem all (fuel : Nat) : AllEns R (fun _ => True) (fun _ => True) fuel := eval_all R _ _ fuel

theorem runMain_ok (fuel : Nat) (b : Block) : Ens R (fun _ => True) (runMain fuel b) :=
  runMain_ens fuel b ((all fuel).runBlock b)

theorem R_of_replFrame (σ σ' : St) (h : ReplFrame σ σ') : R σ σ' := R_of_eq h.acts h.nextId h.procs h.funs

/-- a slot with the same name, declared type and CONSTANT flag is still in the list -/
theorem slot_survives {ss ss' : List Slot} (h : ss.map sig <+: ss'.map sig) (s : Slot) (hs : s ∈ ss) :
    ∃ s' ∈ ss', s'.name = s.name ∧ s'.ty = s.ty ∧ s'.isConst = s.isConst := by
  have hm : sig s ∈ ss'.map sig := h.subset (List.mem_map_of_mem hs)
  obtain ⟨s', hs', he⟩ := List.mem_map.mp hm
  have h1 : s'.name = s.name := congrArg (·.1) he
  have h2 : s'.ty = s.ty := congrArg (·.2.1) he
  have h3 : s'.isConst = s.isConst := congrArg (·.2.2) he
  exact ⟨s', hs', h1, h2, h3⟩

/-- name lookup is stable: what a name resolved to, it resolves to a slot of the same type and flag -/
theorem lookup_survives : ∀ {ss ss' : List Slot}, ss.map sig <+: ss'.map sig → ∀ (n : Str) (s : Slot),
    findSlot ss n = some s → ∃ s', findSlot ss' n = some s' ∧ s'.ty = s.ty ∧ s'.isConst = s.isConst
  | [], _, _, _, _, hs => by cases hs
  | _ :: _, [], h, _, _, _ => by
    obtain ⟨t, ht⟩ := h
    simp at ht
  | a :: rest, b :: rest', h, n, s, hs => by
    obtain ⟨t, ht⟩ := h
    simp only [List.map_cons, List.cons_append, List.cons.injEq] at ht
    obtain ⟨hab, ht⟩ := ht
    have hname : b.name = a.name := (congrArg (·.1) hab).symm
    unfold findSlot at hs ⊢
    simp only [List.find?_cons] at hs ⊢
    rw [hname]
    split
    · rename_i heq
      rw [heq] at hs
      cases hs
      exact ⟨b, rfl, (congrArg (·.2.1) hab).symm, (congrArg (·.2.2) hab).symm⟩
    · rename_i hne
      rw [hne] at hs
      exact lookup_survives ⟨t, ht⟩ n s hs

end C12

/-- what earlier entries established is still there (the statement of the property) -/
structure Established (σ σ' : St) : Prop where
  /-- every procedure is still defined -/
  procs : ∀ p ∈ σ.procs, p ∈ σ'.procs
  /-- every function is still defined -/
  funs : ∀ f ∈ σ.funs, f ∈ σ'.funs
  /-- same activations, id counter monotone (C04) -/
  ids : C04.R σ σ'
  /-- the global activation keeps its type definitions and its variables / arrays -/
  global : ∀ g, σ.acts.getLast? = some g → ∃ g', σ'.acts.getLast? = some g' ∧ g'.id = g.id ∧
    g.enums <+: g'.enums ∧ g.ptrs <+: g'.ptrs ∧ g.comps <+: g'.comps ∧
    (∀ s ∈ g.vars, ∃ s' ∈ g'.vars, s'.name = s.name ∧ s'.ty = s.ty ∧ s'.isConst = s.isConst) ∧
    (∀ s ∈ g.arrs, ∃ s' ∈ g'.arrs, s'.name = s.name ∧ s'.ty = s.ty ∧ s'.isConst = s.isConst)

theorem Established.of_R {σ σ' : St} (h : C12.R σ σ') : Established σ σ' where
  procs _ hp := h.procs.subset hp
  funs _ hf := h.funs.subset hf
  ids := ⟨h.stack.ids, h.nextId⟩
  global g hg := by
    obtain ⟨g', hg', he⟩ := h.stack.getLast hg
    exact ⟨g', hg', he.id, he.enums, he.ptrs, he.comps, C12.slot_survives he.vars, C12.slot_survives he.arrs⟩

/-- **C12 (survival).** Whatever a statement, a block, a program run or a source text (lexed, parsed, run) does and
    however it ends, everything established before is still there. -/
theorem C12_survives (fuel : Nat) (σ : St) :
    (∀ s, Established σ ((execStmt fuel s).run.run σ).2) ∧
    (∀ b, Established σ ((runBlock fuel b).run.run σ).2) ∧
    (∀ b, Established σ (runOn fuel b σ).2) ∧
    (∀ cfg src, Established σ (runSource cfg src σ).2) :=
  have h := C12.all fuel
  ⟨fun s => .of_R ((h.execStmt s).run σ).1, fun b => .of_R ((h.runBlock b).run σ).1,
   fun b => .of_R (runOn_rel2 C12.runMain_ok fuel b σ),
   fun cfg src => .of_R (runSource_rel2 C12.R_of_replFrame C12.runMain_ok cfg src σ)⟩

/-- **C12 (survival, the REPL).** The session state after any number of REPL entries — each of which may fail in the
    lexer, the parser or at run time, may be `?`, RUNFILE, multi-line — still has everything the session state before
    had. (That a failing entry does not end the loop is `replLoop`'s shape: only EXIT, end of input and a crash point
    return without recursing.) -/
theorem C12_survives_repl (cfg : Cfg) (n : Nat) (first : Bool) (r : ReplSt) :
    Established r.st (replLoop cfg n first r).st :=
  .of_R (replLoop_rel2 C12.R_of_replFrame C12.runMain_ok cfg n first r)

/-- name resolution is stable too: the procedure / function a name resolves to is the same one, a global variable
    name resolves to a variable of the same declared type and CONSTANT flag, a type name to the same definition -/
theorem C12_lookup_stable (cfg : Cfg) (n : Nat) (first : Bool) (r : ReplSt) :
    let σ := r.st; let σ' := (replLoop cfg n first r).st
    (∀ (nm : Str) pd, σ.procs.find? (·.name == nm) = some pd → σ'.procs.find? (·.name == nm) = some pd) ∧
    (∀ (nm : Str) fd, σ.funs.find? (·.name == nm) = some fd → σ'.funs.find? (·.name == nm) = some fd) ∧
    (∀ g, σ.acts.getLast? = some g → ∃ g', σ'.acts.getLast? = some g' ∧
      (∀ nm s, findSlot g.vars nm = some s → ∃ s', findSlot g'.vars nm = some s' ∧ s'.ty = s.ty ∧ s'.isConst = s.isConst) ∧
      (∀ nm s, findSlot g.arrs nm = some s → ∃ s', findSlot g'.arrs nm = some s' ∧ s'.ty = s.ty ∧ s'.isConst = s.isConst) ∧
      (∀ nm d, g.enums.find? (·.1 == nm) = some d → g'.enums.find? (·.1 == nm) = some d) ∧
      (∀ nm d, g.ptrs.find? (·.1 == nm) = some d → g'.ptrs.find? (·.1 == nm) = some d) ∧
      (∀ nm d, g.comps.find? (·.1 == nm) = some d → g'.comps.find? (·.1 == nm) = some d)) := by
  intro σ σ'
  have h : C12.R σ σ' := replLoop_rel2 C12.R_of_replFrame C12.runMain_ok cfg n first r
  have pre : ∀ {α : Type} {l l' : List α} (p : α → Bool) (x : α), l <+: l' → l.find? p = some x → l'.find? p = some x := by
    intro α l l' p x hl hx
    obtain ⟨t, rfl⟩ := hl
    rw [List.find?_append, hx]; rfl
  refine ⟨fun nm pd => pre _ _ h.procs, fun nm fd => pre _ _ h.funs, fun g hg => ?_⟩
  obtain ⟨g', hg', he⟩ := h.stack.getLast hg
  exact ⟨g', hg', C12.lookup_survives he.vars, C12.lookup_survives he.arrs, fun nm d => pre _ _ he.enums,
    fun nm d => pre _ _ he.ptrs, fun nm d => pre _ _ he.comps⟩

/-! ### non-vacuity -/

/-- a session state with a procedure `P`, a type `E` and a variable `x : INTEGER`; the entry `y <- 1 / 0`-like failing
    statement (here: a call of an undefined procedure) fails (computed by the model) … -/
def C12.demoTok (s : String) : Tok := { k := .IDENTIFIER, line := 1, col := 1, val := s.toList }
def C12.demoSt : St :=
  { St.init [] [] false true with
    procs := [{ name := "P".toList, params := [], body := [] }]
    acts := [{ mkGlobal with enums := [("E".toList, ["A".toList])],
                             vars := [{ name := "x".toList, ty := .int, val := .int 7 }] }] }
def C12.failing : Stmt := .call (C12.demoTok "CALL") "Q".toList []
def C12.isNotDefined : Except Stop Val → Bool
  | .error (.diag d) => d.msg == .notDefined
  | _ => false
example : C12.isNotDefined ((execStmt 5 C12.failing).run.run C12.demoSt).1 = true := by decide
/-- … and `P`, `E`, `x` are still there -/
example : Established C12.demoSt ((execStmt 5 C12.failing).run.run C12.demoSt).2 := (C12_survives 5 _).1 _
example : ∃ p ∈ ((execStmt 5 C12.failing).run.run C12.demoSt).2.procs, p.name = "P".toList :=
  ⟨_, ((C12_survives 5 C12.demoSt).1 C12.failing).procs _ (List.mem_singleton.mpr rfl), rfl⟩
/-- a successful declaration really extends the global activation (so `Established` is not an equality) -/
example : (((execStmt 5 (.declare (C12.demoTok "DECLARE") [C12.demoTok "y"] { k := .DATA_TYPE, line := 1, col := 1, val := "REAL".toList })).run.run
    C12.demoSt).2.acts.map fun a => a.vars.map (·.name)) = [["x".toList, "y".toList]] := by decide

end Pseudo
